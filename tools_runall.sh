#!/bin/sh
# runs every registered quick check on /repo's current tree, one after the other; prints one line each
cd "$(dirname "$0")"
for i in 01 02 03 04 05 06 07 08 09 10 11 12 13 14 15 16 17 18 19; do
  s=$(date +%s); ./check C$i --tier ${1:-quick} > /tmp/q_C$i.log 2>&1; rc=$?
  echo "C$i exit=$rc $(( $(date +%s)-s ))s violations=$(grep -c '^VIOLATION' /tmp/q_C$i.log) known=$(grep -c '^KNOWN-FINDING' /tmp/q_C$i.log) broken=$(grep -c '^BROKEN' /tmp/q_C$i.log)"
done
