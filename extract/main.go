// verifextract: a small go/ast fact extractor. It re-reads gribigo's sources and emits
// Gribi/Facts.lean: for a hand-written list of shared fields, every syntactic access with the
// mutexes (and modes) lexically held at that point; every channel send performed while a mutex
// is held, and whether it sits in a select with an alternative; lock nesting edges. The
// expectations over these facts are theorems in Gribi/FactsOk.lean, re-checked by the kernel.
//
// Deliberately simple: lexical lock tracking per function body (Lock/RLock … Unlock/RUnlock,
// defer), function literals are separate scopes (immediately-invoked ones inherit), no alias
// or inter-procedural analysis. Its blind spots are part of the trusted base (DESIGN.md §5).
package main

import (
	"flag"
	"fmt"
	"go/ast"
	"go/parser"
	"go/token"
	"os"
	"path/filepath"
	"sort"
	"strings"
)

type lockHeld struct {
	mu   string
	excl bool
}

type access struct {
	file, fn, field string
	write           bool
	locks           []lockHeld
	line            int
}

type chanSend struct {
	file, fn, ch string
	locks        []lockHeld
	hasAlt       bool
	line         int
}

type edge struct{ from, to string }

var (
	accesses []access
	sends    []chanSend
	edges    = map[edge]bool{}
	// whole-function locks: fn acquires mu at the top level of its body and releases it by defer
	fnLocks []string
	// calls of designated bookkeeping methods with the locks lexically held at the call
	calls []string
	// every method call made while some mutex is held: (caller, callee name, held mutexes)
	heldCalls []heldCall
	// mutexes each function acquires somewhere in its body, keyed by bare function name
	acquires = map[string]map[string]bool{}
)

type heldCall struct {
	fn, callee string
	held       []string
	line       int
}

// trackedCallees are methods whose callers must hold a lock the callee cannot take itself.
var trackedCallees = map[string]bool{"addReadErr": true, "addSendErr": true, "handleModifyResponse": true}

// topLevelLocks records the mutexes a function holds from a top-level Lock()/RLock() statement
// until it returns (released by a deferred Unlock()/RUnlock() at the top level).
func topLevelLocks(fn string, body *ast.BlockStmt) {
	w := &walker{}
	locked := map[string]bool{}
	excl := map[string]bool{}
	for _, st := range body.List {
		switch v := st.(type) {
		case *ast.ExprStmt:
			if c, ok := v.X.(*ast.CallExpr); ok {
				if mu, kind, ok := w.lockCall(c); ok && (kind == "Lock" || kind == "RLock") {
					locked[mu] = true
					excl[mu] = kind == "Lock"
				}
			}
		case *ast.DeferStmt:
			if mu, kind, ok := w.lockCall(v.Call); ok && (kind == "Unlock" || kind == "RUnlock") && locked[mu] {
				fnLocks = append(fnLocks, fmt.Sprintf("(%s, %s, %v)", leanStr(fn), leanStr(mu), excl[mu]))
			}
		}
	}
}

// sharedFields maps the selector suffix that identifies a shared field to its name in the facts.
// The key is matched against the rendered selector expression (receiver.field[.field]).
var sharedFields = []struct{ suffix, name string }{
	{".curElecID", "Server.curElecID"},
	{".curMaster", "Server.curMaster"},
	{"s.cs", "Server.cs"},
	{".niRIB", "RIB.niRIB"},
	{".pendingEntries", "RIB.pendingEntries"},
	{".refCounts.NextHopGroup", "RefCounter.NextHopGroup"},
	{".refCounts.NextHop", "RefCounter.NextHop"},
	{"c.sendErr", "Client.sendErr"},
	{"c.readErr", "Client.readErr"},
	{".qs.sendq", "Client.sendq"},
	{".qs.pendq", "Client.pendq"},
	{".qs.resultq", "Client.resultq"},
}

func render(e ast.Expr) string {
	switch v := e.(type) {
	case *ast.Ident:
		return v.Name
	case *ast.SelectorExpr:
		return render(v.X) + "." + v.Sel.Name
	case *ast.IndexExpr:
		return render(v.X)
	case *ast.StarExpr:
		return render(v.X)
	case *ast.ParenExpr:
		return render(v.X)
	case *ast.CallExpr:
		return render(v.Fun) + "()"
	}
	return "?"
}

func fieldOf(e ast.Expr) string {
	s := render(e)
	for _, f := range sharedFields {
		if strings.HasSuffix(s, f.suffix) || s == strings.TrimPrefix(f.suffix, ".") {
			// "s.cs" must be the whole expression or end with ".Server.cs"
			if f.suffix == "s.cs" && !(s == "s.cs" || strings.HasSuffix(s, ".Server.cs") || strings.HasSuffix(s, "f.cs")) {
				continue
			}
			return f.name
		}
	}
	return ""
}

// muName normalises a mutex expression to its last one or two components.
func muName(e ast.Expr) string {
	s := render(e)
	parts := strings.Split(s, ".")
	if len(parts) >= 2 && parts[len(parts)-1] == "mu" {
		return parts[len(parts)-2] + ".mu"
	}
	return parts[len(parts)-1]
}

type walker struct {
	fset *token.FileSet
	file string
	fn   string
	held []lockHeld
	// recv is the name of the enclosing method's receiver ("" for functions)
	recv string
}

func (w *walker) copyHeld() []lockHeld { return append([]lockHeld{}, w.held...) }

func (w *walker) lockCall(call *ast.CallExpr) (mu string, kind string, ok bool) {
	sel, isSel := call.Fun.(*ast.SelectorExpr)
	if !isSel {
		return "", "", false
	}
	switch sel.Sel.Name {
	case "Lock", "RLock", "Unlock", "RUnlock":
		return muName(sel.X), sel.Sel.Name, true
	}
	return "", "", false
}

func (w *walker) acquire(mu string, excl bool) {
	base := w.fn
	if i := strings.Index(base, ".func"); i >= 0 {
		base = base[:i]
	}
	if i := strings.Index(base, ".go"); i >= 0 {
		base = base[:i]
	}
	if i := strings.LastIndex(base, "."); i >= 0 {
		base = base[i+1:]
	}
	if acquires[base] == nil {
		acquires[base] = map[string]bool{}
	}
	acquires[base][mu] = true
	for _, h := range w.held {
		if h.mu != mu {
			edges[edge{h.mu, mu}] = true
		}
	}
	w.held = append(w.held, lockHeld{mu, excl})
}

func (w *walker) release(mu string) {
	for i := len(w.held) - 1; i >= 0; i-- {
		if w.held[i].mu == mu {
			w.held = append(w.held[:i], w.held[i+1:]...)
			return
		}
	}
}

func (w *walker) record(e ast.Expr, write bool) {
	if f := fieldOf(e); f != "" {
		accesses = append(accesses, access{file: w.file, fn: w.fn, field: f, write: write, locks: w.copyHeld(), line: w.fset.Position(e.Pos()).Line})
	}
}

// exprs visits an expression for reads (and nested function literals).
func (w *walker) expr(e ast.Expr) {
	if e == nil {
		return
	}
	ast.Inspect(e, func(n ast.Node) bool {
		switch v := n.(type) {
		case *ast.FuncLit:
			// a literal that is not started as a goroutine runs in the enclosing function
			// (called directly, deferred or handed to a callee): it inherits the locks held where it
			// is written; its own acquisitions end with it
			sub := &walker{fset: w.fset, file: w.file, fn: w.fn + ".func", held: w.copyHeld(), recv: w.recv}
			sub.block(v.Body)
			return false
		case *ast.CallExpr:
			if sel, ok := v.Fun.(*ast.SelectorExpr); ok && trackedCallees[sel.Sel.Name] && w.fset != nil {
				calls = append(calls, fmt.Sprintf("(%s, %s, %s, %d)", leanStr(w.fn), leanStr(sel.Sel.Name), leanLocks(w.held), w.fset.Position(v.Pos()).Line))
			}
			// only calls on the method's own receiver are resolved (by name): x.m() while holding a
			// mutex of x, where m acquires that mutex again
			if sel, ok := v.Fun.(*ast.SelectorExpr); ok && len(w.held) > 0 && w.fset != nil && w.recv != "" && render(sel.X) == w.recv {
				hs := []string{}
				for _, h := range w.held {
					hs = append(hs, h.mu)
				}
				heldCalls = append(heldCalls, heldCall{fn: w.fn, callee: sel.Sel.Name, held: hs, line: w.fset.Position(v.Pos()).Line})
			}
		case *ast.SelectorExpr:
			if fieldOf(v) != "" {
				w.record(v, false)
				return false
			}
		}
		return true
	})
}

func (w *walker) lhs(e ast.Expr) {
	switch v := e.(type) {
	case *ast.IndexExpr:
		// m[k] = … writes the map m
		if fieldOf(v.X) != "" {
			w.record(v.X, true)
			w.expr(v.Index)
			return
		}
		w.expr(e)
	case *ast.SelectorExpr:
		if fieldOf(v) != "" {
			w.record(v, true)
			return
		}
		// x.f.g = …: a write through a shared pointer field counts as a write of the field
		if fieldOf(v.X) != "" {
			w.record(v.X, true)
			return
		}
		if ix, ok := v.X.(*ast.IndexExpr); ok && fieldOf(ix.X) != "" {
			w.record(ix.X, true)
			return
		}
		w.expr(e)
	default:
		w.expr(e)
	}
}

func (w *walker) call(call *ast.CallExpr, deferred bool) {
	if mu, kind, ok := w.lockCall(call); ok {
		switch kind {
		case "Lock":
			w.acquire(mu, true)
		case "RLock":
			w.acquire(mu, false)
		default:
			if !deferred {
				w.release(mu)
			}
		}
		return
	}
	if id, ok := call.Fun.(*ast.Ident); ok && id.Name == "delete" && len(call.Args) > 0 {
		if fieldOf(call.Args[0]) != "" {
			w.record(call.Args[0], true)
			for _, a := range call.Args[1:] {
				w.expr(a)
			}
			return
		}
	}
	if fl, ok := call.Fun.(*ast.FuncLit); ok {
		// immediately-invoked literal: inherits the held set, its own defers end with it
		saved := w.copyHeld()
		w.block(fl.Body)
		w.held = saved
		for _, a := range call.Args {
			w.expr(a)
		}
		return
	}
	w.expr(call)
}

func (w *walker) stmt(s ast.Stmt, inSelectWithAlt bool) {
	switch v := s.(type) {
	case nil:
	case *ast.BlockStmt:
		w.block(v)
	case *ast.ExprStmt:
		if c, ok := v.X.(*ast.CallExpr); ok {
			w.call(c, false)
		} else {
			w.expr(v.X)
		}
	case *ast.DeferStmt:
		w.call(v.Call, true)
	case *ast.GoStmt:
		if fl, ok := v.Call.Fun.(*ast.FuncLit); ok {
			sub := &walker{fset: w.fset, file: w.file, fn: w.fn + ".go", held: nil, recv: w.recv}
			sub.block(fl.Body)
		} else {
			w.expr(v.Call)
		}
	case *ast.AssignStmt:
		for _, r := range v.Rhs {
			if c, ok := r.(*ast.CallExpr); ok {
				w.call(c, false)
			} else {
				w.expr(r)
			}
		}
		for _, l := range v.Lhs {
			w.lhs(l)
		}
	case *ast.IncDecStmt:
		w.lhs(v.X)
	case *ast.SendStmt:
		w.expr(v.Value)
		if len(w.held) > 0 {
			sends = append(sends, chanSend{file: w.file, fn: w.fn, ch: render(v.Chan), locks: w.copyHeld(), hasAlt: inSelectWithAlt, line: w.fset.Position(v.Pos()).Line})
		}
	case *ast.IfStmt:
		w.stmt(v.Init, false)
		w.expr(v.Cond)
		w.block(v.Body)
		w.stmt(v.Else, false)
	case *ast.ForStmt:
		w.stmt(v.Init, false)
		w.expr(v.Cond)
		w.block(v.Body)
		w.stmt(v.Post, false)
	case *ast.RangeStmt:
		w.expr(v.X)
		w.block(v.Body)
	case *ast.SwitchStmt:
		w.stmt(v.Init, false)
		w.expr(v.Tag)
		w.block(v.Body)
	case *ast.TypeSwitchStmt:
		w.stmt(v.Init, false)
		w.stmt(v.Assign, false)
		w.block(v.Body)
	case *ast.CaseClause:
		for _, e := range v.List {
			w.expr(e)
		}
		for _, b := range v.Body {
			w.stmt(b, false)
		}
	case *ast.SelectStmt:
		n := len(v.Body.List)
		for _, c := range v.Body.List {
			cc := c.(*ast.CommClause)
			// an alternative exists if there is another communication case (a bare default is a
			// poll, not something a blocked send can fall back on once it has committed)
			alt := false
			for _, o := range v.Body.List {
				oc := o.(*ast.CommClause)
				if oc != cc && oc.Comm != nil {
					alt = true
				}
			}
			_ = n
			if cc.Comm != nil {
				w.stmt(cc.Comm, alt)
			}
			for _, b := range cc.Body {
				w.stmt(b, false)
			}
		}
	case *ast.ReturnStmt:
		for _, r := range v.Results {
			w.expr(r)
		}
	case *ast.DeclStmt:
		ast.Inspect(v, func(n ast.Node) bool {
			if e, ok := n.(ast.Expr); ok {
				w.expr(e)
				return false
			}
			return true
		})
	case *ast.LabeledStmt:
		w.stmt(v.Stmt, false)
	}
}

func (w *walker) block(b *ast.BlockStmt) {
	if b == nil {
		return
	}
	for _, s := range b.List {
		w.stmt(s, false)
	}
}

// reentrantFacts lists calls made while holding mutex M to a function that acquires M.
func reentrantFacts() []string {
	out := []string{}
	seen := map[string]bool{}
	for _, c := range heldCalls {
		for _, m := range c.held {
			if acquires[c.callee][m] {
				k := fmt.Sprintf("(%s, %s, %s)", leanStr(c.fn), leanStr(c.callee), leanStr(m))
				if !seen[k] {
					seen[k] = true
					out = append(out, k)
				}
			}
		}
	}
	sort.Strings(out)
	return out
}

func leanStr(s string) string { return "\"" + strings.ReplaceAll(s, "\"", "'") + "\"" }

func leanLocks(l []lockHeld) string {
	p := []string{}
	for _, h := range l {
		p = append(p, fmt.Sprintf("(%s, %v)", leanStr(h.mu), h.excl))
	}
	return "[" + strings.Join(p, ", ") + "]"
}

func main() {
	repo := flag.String("repo", "/repo", "repository root")
	out := flag.String("out", "", "output Lean file")
	flag.Parse()
	fset := token.NewFileSet()
	files := []string{"server/server.go", "rib/rib.go", "client/gribiclient.go"}
	for _, rel := range files {
		f, err := parser.ParseFile(fset, filepath.Join(*repo, rel), nil, 0)
		if err != nil {
			fmt.Fprintln(os.Stderr, err)
			os.Exit(1)
		}
		for _, d := range f.Decls {
			fd, ok := d.(*ast.FuncDecl)
			if !ok || fd.Body == nil {
				continue
			}
			name := fd.Name.Name
			if fd.Recv != nil && len(fd.Recv.List) > 0 {
				name = strings.TrimPrefix(render(fd.Recv.List[0].Type), "*") + "." + name
			}
			w := &walker{fset: fset, file: rel, fn: name}
			if fd.Recv != nil && len(fd.Recv.List) > 0 && len(fd.Recv.List[0].Names) > 0 {
				w.recv = fd.Recv.List[0].Names[0].Name
			}
			w.block(fd.Body)
			topLevelLocks(name, fd.Body)
		}
	}
	sort.SliceStable(accesses, func(i, j int) bool {
		a, b := accesses[i], accesses[j]
		if a.file != b.file {
			return a.file < b.file
		}
		return a.line < b.line
	})
	var b strings.Builder
	b.WriteString("/-\nGENERATED by /verif/extract from /repo on every check run. Do not edit.\n-/\nnamespace Gribi.Facts\n\n")
	b.WriteString("structure Access where\n  file : String\n  fn : String\n  field : String\n  write : Bool\n  locks : List (String × Bool)\n  line : Nat\n  deriving Repr\n\n")
	b.WriteString("structure ChanSend where\n  file : String\n  fn : String\n  chan : String\n  locks : List (String × Bool)\n  hasAlt : Bool\n  line : Nat\n  deriving Repr\n\n")
	b.WriteString("def accesses : List Access := [\n")
	for i, a := range accesses {
		sep := ","
		if i == len(accesses)-1 {
			sep = ""
		}
		fmt.Fprintf(&b, "  ⟨%s, %s, %s, %v, %s, %d⟩%s\n", leanStr(a.file), leanStr(a.fn), leanStr(a.field), a.write, leanLocks(a.locks), a.line, sep)
	}
	b.WriteString("]\n\ndef sends : List ChanSend := [\n")
	for i, s := range sends {
		sep := ","
		if i == len(sends)-1 {
			sep = ""
		}
		fmt.Fprintf(&b, "  ⟨%s, %s, %s, %s, %v, %d⟩%s\n", leanStr(s.file), leanStr(s.fn), leanStr(s.ch), leanLocks(s.locks), s.hasAlt, s.line, sep)
	}
	es := []string{}
	for e := range edges {
		es = append(es, fmt.Sprintf("(%s, %s)", leanStr(e.from), leanStr(e.to)))
	}
	sort.Strings(es)
	b.WriteString("]\n\n/-- (held, then acquired) -/\ndef lockEdges : List (String × String) := [" + strings.Join(es, ", ") + "]\n\n/-- (function, mutex, exclusive): held from a top-level Lock until return (deferred Unlock) -/\ndef fnLocks : List (String × String × Bool) := [\n  " + strings.Join(fnLocks, ",\n  ") + "\n]\n\n/-- (calling function, callee, locks held at the call, line) -/\ndef calls : List (String × String × List (String × Bool) × Nat) := [\n  " + strings.Join(calls, ",\n  ") + "\n]\n\n/-- (caller, callee, mutex): a call made while holding a mutex that the callee (a function of these files, matched by name) acquires itself -/\ndef reentrant : List (String × String × String) := [" + strings.Join(reentrantFacts(), ", ") + "]\n\nend Gribi.Facts\n")
	if *out == "" {
		fmt.Print(b.String())
		return
	}
	if err := os.WriteFile(*out, []byte(b.String()), 0o644); err != nil {
		fmt.Fprintln(os.Stderr, err)
		os.Exit(1)
	}
	fmt.Printf("facts: %d shared-field accesses, %d channel sends under a lock, %d lock-nesting edges\n", len(accesses), len(sends), len(edges))
}
