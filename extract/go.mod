module verifextract

go 1.23
