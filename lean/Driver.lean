import Gribi.Drv.SrvDrv
open Gribi Gribi.Drv

partial def loop (h : IO.FS.Stream) (out : IO.FS.Stream) (st : SrvSt) : IO Unit := do
  let line ← h.getLine
  if line.isEmpty then
    out.flush
    return ()
  let ts := tokens line
  let st := srvLine st ts
  match ts with
  | cmd :: _ =>
    if tokStr cmd = "end" then
      let rs := st.rs
      for l in rs.out.reverse do out.putStrLn l
      let covs := rs.cov.map (fun e => s!"{e.1}={e.2}")
      out.putStrLn ("COV " ++ " ".intercalate covs)
      out.putStrLn s!"END trace={rs.name} diffs={rs.diffs} monfails={rs.monfails} lines={rs.line}"
      out.flush
      loop h out { st with rs := { rs with out := [], cov := [], diffs := 0, monfails := 0 } }
    else loop h out st
  | [] => loop h out st

def main : IO Unit := do
  loop (← IO.getStdin) (← IO.getStdout) default
