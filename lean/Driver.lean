import Gribi.Drv.RibDrv
open Gribi Gribi.Drv

/-- which family of traces a line belongs to is decided by its first token's prefix -/
partial def loop (h : IO.FS.Stream) (out : IO.FS.Stream) (st : RibSt) : IO Unit := do
  let line ← h.getLine
  if line.isEmpty then
    out.flush
    return ()
  let ts := tokens line
  let st := ribLine st ts
  match ts with
  | cmd :: _ =>
    if tokStr cmd = "end" then
      for l in st.out.reverse do out.putStrLn l
      let covs := st.cov.map (fun e => s!"{e.1}={e.2}")
      out.putStrLn ("COV " ++ " ".intercalate covs)
      out.putStrLn s!"END trace={st.name} diffs={st.diffs} monfails={st.monfails} lines={st.line}"
      out.flush
      loop h out { st with out := [], cov := [], diffs := 0, monfails := 0 }
    else loop h out st
  | [] => loop h out st

def main : IO Unit := do
  loop (← IO.getStdin) (← IO.getStdout) default
