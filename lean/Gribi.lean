import Gribi.Model.Map
import Gribi.Model.Types
import Gribi.Model.Rib
import Gribi.Spec.RibSpec
import Gribi.Drv.Parse
import Gribi.Drv.RibDrv
