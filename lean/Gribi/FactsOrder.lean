/- regenerated-facts obligation; see FactsDefs.lean -/
import Gribi.FactsDefs
namespace Gribi.FactsOk
open Gribi.Facts

theorem facts_lockOrderAcyclic : lockOrderAcyclic = true := by decide
theorem facts_noReentrantLock : noReentrantLock = true := by decide

end Gribi.FactsOk
