/-
Model of the fluent builders (fluent/fluent.go): each builder is a record of the fields the Go
struct/protobuf holds, each `With*`/`Add*` method an update taken from the Go text, and
`OpProto`/`EntryProto` a rendering as a set of (path, value) pairs — the same flattening the
harness applies to the real protobufs. The client part models operation ids and election-id
stamping. Core Lean only.
-/
namespace Gribi.Fluent

abbrev Fields := List (String × String)

/-- UDPv6 encapsulation header builder: each field optional, last write wins -/
structure Udp6 where
  dscp : Option Nat := none
  dstIp : Option String := none
  dstPort : Option Nat := none
  ttl : Option Nat := none
  srcIp : Option String := none
  srcPort : Option Nat := none
  deriving DecidableEq, Repr, Inhabited

inductive Hdr where
  | mpls (labels : List Nat)
  | udp6 (u : Udp6)
  deriving DecidableEq, Repr, Inhabited

/-- calls on an IPv4 / IPv6 entry builder (`isV6` only changes the rendering) -/
inductive TopCall where
  | prefix_ (p : String) | ni (n : String) | nhg (g : Nat) | nhgNI (n : String)
  | metadata (hex : String) | elec (lo hi : Nat)
  deriving DecidableEq, Repr, Inhabited

inductive LabelCall where
  | label (l : Nat) | ni (n : String) | nhg (g : Nat) | nhgNI (n : String)
  | popped (ls : List Nat) | elec (lo hi : Nat)
  deriving DecidableEq, Repr, Inhabited

inductive NhCall where
  | index (i : Nat) | ni (n : String) | ip (a : String) | ifRef (n : String)
  | subIfRef (n : String) (s : Nat) | mac (m : String) | ipInIp (src dst : String)
  | nhNI (n : String) | popTop | pushed (ls : List Nat) | addEncap (hs : List Hdr)
  | decap (h : Nat) | encap (h : Nat) | elec (lo hi : Nat)
  deriving Repr, Inhabited

inductive NhgCall where
  | id (i : Nat) | ni (n : String) | backup (b : Nat) | addNh (idx w : Nat) | elec (lo hi : Nat)
  deriving DecidableEq, Repr, Inhabited

/-! ### builder states -/

structure TopB where
  pfx : String := ""
  ni : String := ""
  nhg : Option Nat := none
  nhgNI : Option String := none
  metadata : Option String := none
  elec : Option (Nat × Nat) := none
  deriving DecidableEq, Repr, Inhabited

def TopB.apply (b : TopB) : TopCall → TopB
  | .prefix_ p => { b with pfx := p }
  | .ni n => { b with ni := n }
  | .nhg g => { b with nhg := some g }
  | .nhgNI n => { b with nhgNI := some n }
  | .metadata h => { b with metadata := some h }
  | .elec lo hi => { b with elec := some (lo, hi) }

structure LabelB where
  label : Option Nat := none
  ni : String := ""
  nhg : Option Nat := none
  nhgNI : Option String := none
  popped : Option (List Nat) := none
  elec : Option (Nat × Nat) := none
  deriving DecidableEq, Repr, Inhabited

def LabelB.apply (b : LabelB) : LabelCall → LabelB
  | .label l => { b with label := some l }
  | .ni n => { b with ni := n }
  | .nhg g => { b with nhg := some g }
  | .nhgNI n => { b with nhgNI := some n }
  | .popped ls => { b with popped := some ls }
  | .elec lo hi => { b with elec := some (lo, hi) }

structure NhB where
  index : Nat := 0
  ni : String := ""
  /-- the `next_hop` sub-message exists (every payload method creates it) -/
  hasNh : Bool := false
  ip : Option String := none
  ifName : Option String := none
  subIf : Option Nat := none
  mac : Option String := none
  ipInIp : Option (String × String) := none
  nhNI : Option String := none
  popTop : Bool := false
  pushed : Option (List Nat) := none
  encaps : List Hdr := []
  decap : Nat := 0
  encap : Nat := 0
  elec : Option (Nat × Nat) := none
  deriving Repr, Inhabited

def NhB.apply (b : NhB) : NhCall → NhB
  | .index i => { b with index := i }
  | .ni n => { b with ni := n }
  | .ip a => { b with hasNh := true, ip := some a }
  | .ifRef n => { b with hasNh := true, ifName := some n, subIf := none }
  | .subIfRef n s => { b with hasNh := true, ifName := some n, subIf := some s }
  | .mac m => { b with hasNh := true, mac := some m }
  | .ipInIp s d => { b with hasNh := true, ipInIp := some (s, d) }
  | .nhNI n => { b with hasNh := true, nhNI := some n }
  | .popTop => { b with hasNh := true, popTop := true }
  | .pushed ls => { b with hasNh := true, pushed := some ls }
  | .addEncap hs => if hs = [] then b else { b with hasNh := true, encaps := b.encaps ++ hs }
  | .decap h => { b with hasNh := true, decap := h }
  | .encap h => { b with hasNh := true, encap := h }
  | .elec lo hi => { b with elec := some (lo, hi) }

structure NhgB where
  id : Nat := 0
  ni : String := ""
  backup : Option Nat := none
  nhs : List (Nat × Nat) := []
  elec : Option (Nat × Nat) := none
  deriving DecidableEq, Repr, Inhabited

def NhgB.apply (b : NhgB) : NhgCall → NhgB
  | .id i => { b with id := i }
  | .ni n => { b with ni := n }
  | .backup x => { b with backup := some x }
  | .addNh i w => { b with nhs := b.nhs ++ [(i, w)] }
  | .elec lo hi => { b with elec := some (lo, hi) }

/-! ### rendering: the set of populated (path, value) pairs -/

def str (p v : String) : Fields := [(p, "\"" ++ v ++ "\"")]
def nat (p : String) (v : Nat) : Fields := [(p, toString v)]
/-- proto3 scalar without presence: omitted when zero / empty -/
def natNZ (p : String) (v : Nat) : Fields := if v = 0 then [] else [(p, toString v)]
def strNE (p v : String) : Fields := if v = "" then [] else [(p, "\"" ++ v ++ "\"")]
def msg (p : String) : Fields := [(p, "<msg>")]
def optStr (p : String) : Option String → Fields
  | some v => msg p ++ strNE (p ++ ".value") v
  | none => []
def optNat (p : String) : Option Nat → Fields
  | some v => msg p ++ natNZ (p ++ ".value") v
  | none => []
def natList (p : String) (l : List Nat) : Fields := if l = [] then [] else [(p, toString l)]

def elecF (p : String) : Option (Nat × Nat) → Fields
  | some (lo, hi) => msg p ++ natNZ (p ++ ".high") hi ++ natNZ (p ++ ".low") lo
  | none => []

/-- `metadata` is the hex of the bytes; an empty bytes wrapper is rendered as present-but-empty -/
def bytesF (p : String) : Option String → Fields
  | some h => msg p ++ (if h = "" then [] else [(p ++ ".value", "x" ++ h)])
  | none => []

/-- key message name and value message name per family -/
def TopB.render (b : TopB) (v6 : Bool) (opPrefix : String) : Fields :=
  let k := if v6 then opPrefix ++ "ipv6" else opPrefix ++ "ipv4"
  let e := if v6 then k ++ ".ipv6_entry" else k ++ ".ipv4_entry"
  msg k ++ strNE (k ++ ".prefix") b.pfx ++ msg e ++ optNat (e ++ ".next_hop_group") b.nhg ++
    optStr (e ++ ".next_hop_group_network_instance") b.nhgNI ++ bytesF (e ++ ".entry_metadata") b.metadata

def LabelB.render (b : LabelB) (opPrefix : String) : Fields :=
  let k := opPrefix ++ "mpls"
  let e := k ++ ".label_entry"
  msg k ++ (match b.label with | some l => [(k ++ ".label_uint64", toString l)] | none => []) ++
    msg e ++ optNat (e ++ ".next_hop_group") b.nhg ++
    optStr (e ++ ".next_hop_group_network_instance") b.nhgNI ++
    (match b.popped with | some ls => natList (e ++ ".popped_mpls_label_stack") ls | none => [])

def Udp6.render (u : Udp6) (p : String) : Fields :=
  msg p ++ optNat (p ++ ".dscp") u.dscp ++ optStr (p ++ ".dst_ip") u.dstIp ++ optNat (p ++ ".dst_udp_port") u.dstPort ++
    optNat (p ++ ".ip_ttl") u.ttl ++ optStr (p ++ ".src_ip") u.srcIp ++ optNat (p ++ ".src_udp_port") u.srcPort

def hdrRender (p : String) : Hdr → Fields
  | .mpls ls => [(p ++ ".type", "e4")] ++ msg (p ++ ".mpls") ++ natList (p ++ ".mpls.mpls_label_stack") ls
  | .udp6 u => [(p ++ ".type", "e8")] ++ u.render (p ++ ".udp_v6")

/-- `encapMap`: fluent.Header (1 IPinIP, 2 MPLS, 3 UDPV6) to the protobuf enum number -/
def hdrEnum : Nat → Nat
  | 1 => 2 | 2 => 4 | 3 => 8 | _ => 0

def encapsRender (p : String) : List Hdr → Nat → Fields
  | [], _ => []
  | h :: t, i =>
    let q := p ++ "#" ++ toString (i - 1)
    msg q ++ [(q ++ ".index", toString i)] ++ msg (q ++ ".encap_header") ++ hdrRender (q ++ ".encap_header") h ++
      encapsRender p t (i + 1)

def NhB.render (b : NhB) (opPrefix : String) : Fields :=
  let k := opPrefix ++ "next_hop"
  let e := k ++ ".next_hop"
  msg k ++ natNZ (k ++ ".index") b.index ++
  (if b.hasNh then
    msg e ++ optStr (e ++ ".ip_address") b.ip ++
    (match b.ifName with
     | some n => msg (e ++ ".interface_ref") ++ optStr (e ++ ".interface_ref.interface") (some n) ++
                 optNat (e ++ ".interface_ref.subinterface") b.subIf
     | none => []) ++
    optStr (e ++ ".mac_address") b.mac ++
    (match b.ipInIp with
     | some (s, d) => msg (e ++ ".ip_in_ip") ++ optStr (e ++ ".ip_in_ip.src_ip") (some s) ++ optStr (e ++ ".ip_in_ip.dst_ip") (some d)
     | none => []) ++
    optStr (e ++ ".network_instance") b.nhNI ++
    (if b.popTop then msg (e ++ ".pop_top_label") ++ [(e ++ ".pop_top_label.value", "true")] else []) ++
    (match b.pushed with | some ls => natList (e ++ ".pushed_mpls_label_stack") ls | none => []) ++
    encapsRender (e ++ ".encap_header") b.encaps 1 ++
    (if hdrEnum b.decap = 0 then [] else [(e ++ ".decapsulate_header", "e" ++ toString (hdrEnum b.decap))]) ++
    (if hdrEnum b.encap = 0 then [] else [(e ++ ".encapsulate_header", "e" ++ toString (hdrEnum b.encap))])
   else [])

def nhsRender (p : String) : List (Nat × Nat) → Nat → Fields
  | [], _ => []
  | (i, w) :: t, n =>
    let q := p ++ "#" ++ toString n
    msg q ++ natNZ (q ++ ".index") i ++ msg (q ++ ".next_hop") ++ optNat (q ++ ".next_hop.weight") (some w) ++
      nhsRender p t (n + 1)

def NhgB.render (b : NhgB) (opPrefix : String) : Fields :=
  let k := opPrefix ++ "next_hop_group"
  let e := k ++ ".next_hop_group"
  msg k ++ natNZ (k ++ ".id") b.id ++ msg e ++ optNat (e ++ ".backup_next_hop_group") b.backup ++
    nhsRender (e ++ ".next_hop") b.nhs 0

/-- a built entry of any kind -/
inductive Entry where
  | v4 (b : TopB) | v6 (b : TopB) | label (b : LabelB) | nh (b : NhB) | nhg (b : NhgB)
  deriving Repr, Inhabited

def Entry.ni : Entry → String
  | .v4 b | .v6 b => b.ni
  | .label b => b.ni
  | .nh b => b.ni
  | .nhg b => b.ni

def Entry.elec : Entry → Option (Nat × Nat)
  | .v4 b | .v6 b => b.elec
  | .label b => b.elec
  | .nh b => b.elec
  | .nhg b => b.elec

def Entry.body (e : Entry) : Fields :=
  match e with
  | .v4 b => b.render false ""
  | .v6 b => b.render true ""
  | .label b => b.render ""
  | .nh b => b.render ""
  | .nhg b => b.render ""

/-- `EntryProto()` -/
def Entry.entryProto (e : Entry) : Fields := strNE "network_instance" e.ni ++ e.body

/-- `OpProto()`: no id, no operation type; the entry's own election id if it has one -/
def Entry.opProto (e : Entry) : Fields :=
  strNE "network_instance" e.ni ++ e.body ++ elecF "election_id" e.elec

/-! ### the client: ids and election stamping -/

structure Client where
  opCount : Nat := 0
  curElec : Option (Nat × Nat) := none
  /-- redundancy mode is ElectedPrimaryClient -/
  elected : Bool := false
  deriving DecidableEq, Repr, Inhabited

/-- operation types: 1 ADD, 2 REPLACE, 3 DELETE (wire numbers) -/
def opFields (id ty : Nat) (e : Entry) (stamp : Option (Nat × Nat)) : Fields :=
  nat "id" id ++ strNE "network_instance" e.ni ++ [("op", "e" ++ toString ty)] ++ e.body ++ elecF "election_id" stamp

/-- the election id an operation is stamped with: the entry's own, else (in elected-primary
mode) the client's current one -/
def stampOf (c : Client) (e : Entry) : Option (Nat × Nat) :=
  match e.elec with
  | some x => some x
  | none => if c.elected then c.curElec else none

/-- `AddEntry` / `ReplaceEntry` / `DeleteEntry` with several entries: one ModifyRequest -/
def Client.modify (c : Client) (ty : Nat) : List Entry → Client × List Fields
  | [] => (c, [])
  | e :: rest =>
    let id := c.opCount + 1
    let stamp := stampOf c e
    let c1 := { c with opCount := id }
    let (c2, fs) := c1.modify ty rest
    (c2, opFields id ty e stamp :: fs)

def Client.updateElection (c : Client) (lo hi : Nat) : Client × Fields :=
  ({ c with curElec := some (lo, hi) }, elecF "election_id" (some (lo, hi)))

end Gribi.Fluent
