/-
Small interleaving models of the three places where gribigo's behaviour depends on who blocks
on what while holding which lock. One transition per blocking / shared operation. Core Lean only.

* `LC`  — client lifecycle: application queueing requests, sender, stream faults (C14)
* `GS`  — Get stream: producer holding the instance read lock, consumer, abandonment (C10)
* `ER`  — election register: read-compare-write under a shared or an exclusive lock (C11/C05)
-/
namespace Gribi.Conc

/-! ## Client lifecycle (client/gribiclient.go: q, Connect's sender goroutine) -/

namespace LC

/-- capacity of `modifyCh` -/
def cap : Nat := 5

structure St where
  /-- Q calls the application still has to make -/
  appLeft : Nat
  /-- as-written variant only: the application has passed the `chIsClosed` test and is committed
  to the blocking send -/
  committed : Bool := false
  /-- messages sitting in `modifyCh` -/
  chan : Nat := 0
  senderAlive : Bool := true
  /-- the sender has stopped taking messages and is about to signal its exit -/
  exitPending : Bool := false
  /-- `sendExitCh` has been written to / closed -/
  exitClosed : Bool := false
  sendErr : Bool := false
  deriving DecidableEq, Repr, Inhabited

inductive Tr where
  /-- the application's `q`: select { modifyCh <- m | <-sendExitCh } (returns at once if the
  sender is known to have exited) -/
  | appQ
  /-- the sender takes a message and `Send` succeeds -/
  | sendOk
  /-- the sender takes a message and `Send` fails: it records the error and stops taking messages -/
  | sendFail
  /-- the exiting sender writes to and closes `sendExitCh` (its deferred function) -/
  | signalExit
  deriving DecidableEq, Repr, Inhabited

/-- the repaired `q` -/
def enabled (s : St) : Tr → Bool
  | .appQ => s.appLeft > 0 && (s.exitClosed || s.chan < cap)
  | .sendOk => s.senderAlive && s.chan > 0
  | .sendFail => s.senderAlive && s.chan > 0
  | .signalExit => s.exitPending

def fire (s : St) : Tr → St
  | .appQ => if s.exitClosed then { s with appLeft := s.appLeft - 1 }
             else { s with appLeft := s.appLeft - 1, chan := s.chan + 1 }
  | .sendOk => { s with chan := s.chan - 1 }
  | .sendFail => { s with chan := s.chan - 1, senderAlive := false, exitPending := true, sendErr := true }
  | .signalExit => { s with exitPending := false, exitClosed := true }

/-- the sender never goes away silently -/
def Inv (s : St) : Prop :=
  (s.senderAlive = false → (s.exitClosed = true ∨ s.exitPending = true)) ∧ s.chan ≤ cap

/-- `q` as written at the pinned commit: test `chIsClosed`, then a plain blocking send -/
def enabledGo (s : St) : Tr → Bool
  | .appQ => s.appLeft > 0 && (if s.committed then s.chan < cap else true)
  | .sendOk => s.senderAlive && s.chan > 0
  | .sendFail => s.senderAlive && s.chan > 0
  | .signalExit => s.exitPending

def fireGo (s : St) : Tr → St
  | .appQ =>
    if s.committed then { s with appLeft := s.appLeft - 1, chan := s.chan + 1, committed := false }
    else if s.exitClosed then { s with appLeft := s.appLeft - 1 }
    else { s with committed := true }
  | .sendOk => { s with chan := s.chan - 1 }
  | .sendFail => { s with chan := s.chan - 1, senderAlive := false, exitPending := true, sendErr := true }
  | .signalExit => { s with exitPending := false, exitClosed := true }

end LC

/-! ## Get stream (server.Get / doGet / RIBHolder.GetRIB) -/

namespace GS

structure St where
  /-- entries the producer still has to send -/
  left : Nat
  /-- the producer holds the instance read lock (from start until it returns) -/
  holdsLock : Bool := true
  /-- the consumer (`Server.Get`) is still in its loop -/
  consumerAlive : Bool := true
  /-- `stopCh` is closed (Get returned) -/
  stopped : Bool := false
  /-- responses the consumer will still accept before its `stream.Send` fails (client gone) -/
  budget : Nat
  deriving DecidableEq, Repr, Inhabited

inductive Tr where
  /-- producer sends one response and the consumer forwards it -/
  | handOver
  /-- the consumer's `stream.Send` fails: `Get` returns and closes `stopCh` -/
  | abandon
  /-- the producer sees `stopCh` closed and returns, releasing the lock -/
  | producerStops
  /-- the producer has sent everything and returns, releasing the lock -/
  | producerDone
  deriving DecidableEq, Repr, Inhabited

/-- repaired code: every send is `select { msgCh <- m | <-stopCh }` and Get closes `stopCh` -/
def enabled (s : St) : Tr → Bool
  | .handOver => s.holdsLock && s.left > 0 && s.consumerAlive && s.budget > 0
  | .abandon => s.consumerAlive && s.budget = 0 && s.holdsLock && s.left > 0
  | .producerStops => s.holdsLock && s.stopped
  | .producerDone => s.holdsLock && s.left = 0

def fire (s : St) : Tr → St
  | .handOver => { s with left := s.left - 1, budget := s.budget - 1 }
  | .abandon => { s with consumerAlive := false, stopped := true }
  | .producerStops => { s with holdsLock := false }
  | .producerDone => { s with holdsLock := false }

/-- as written: plain `msgCh <- m` and a non-blocking poll of `stopCh` between sends; Get's
deferred non-blocking write to `stopCh` is lost when the producer is blocked in a send -/
def enabledGo (s : St) : Tr → Bool
  | .handOver => s.holdsLock && s.left > 0 && s.consumerAlive && s.budget > 0
  | .abandon => s.consumerAlive && s.budget = 0 && s.holdsLock && s.left > 0
  | .producerStops => false
  | .producerDone => s.holdsLock && s.left = 0

end GS

/-! ## Election register (server.runElection) -/

namespace ER

/-- one announcer's progress through its critical section -/
inductive Pc where
  | start | read (seen : Nat) | done
  deriving DecidableEq, Repr, Inhabited

structure St where
  cur : Nat := 0
  master : Option Nat := none
  pcs : List Pc
  deriving DecidableEq, Repr, Inhabited

/-- the ids announced, one per thread -/
abbrev Ids := List Nat

/-- exclusive lock: the whole compare-and-set of thread `i` is one transition -/
def fireLocked (ids : Ids) (s : St) (i : Nat) : St :=
  match s.pcs[i]?, ids[i]? with
  | some .start, some e =>
    let s' := if s.cur ≤ e then { s with cur := e, master := some i } else s
    { s' with pcs := s.pcs.set i .done }
  | _, _ => s

/-- shared lock (as written): the read and the write are separate transitions -/
def fireShared (ids : Ids) (s : St) (i : Nat) : St :=
  match s.pcs[i]?, ids[i]? with
  | some .start, some _ => { s with pcs := s.pcs.set i (.read s.cur) }
  | some (.read seen), some e =>
    let s' := if seen ≤ e then { s with cur := e, master := some i } else s
    { s' with pcs := s.pcs.set i .done }
  | _, _ => s

def runLocked (ids : Ids) (s : St) (sched : List Nat) : St := sched.foldl (fireLocked ids) s
def runShared (ids : Ids) (s : St) (sched : List Nat) : St := sched.foldl (fireShared ids) s

def init (n : Nat) : St := { pcs := List.replicate n .start }

end ER

/-! ## Reference counter vs table (rib.AddEntry / rib.DeleteEntry of one next-hop-group) -/

namespace RC

/-- one group `g` that lists one next-hop `n`; `present` = g is in the table, `cnt` = n's counter -/
structure St where
  present : Bool := false
  cnt : Nat := 0
  /-- ADD thread: 0 = not started, 1 = installed (remembering whether it replaced), 2 = done -/
  addPc : Nat := 0
  addSawOld : Bool := false
  /-- DELETE thread: 0 = not started, 1 = removed (remembering whether it was there), 2 = done -/
  delPc : Nat := 0
  delRemoved : Bool := false
  deriving DecidableEq, Repr, Inhabited

inductive Th where | add | del
  deriving DecidableEq, Repr

/-- as written before the repair: table change and counter change are separate steps -/
def fireSplit (s : St) : Th → St
  | .add =>
    if s.addPc = 0 then { s with present := true, addSawOld := s.present, addPc := 1 }
    else if s.addPc = 1 then { s with cnt := if s.addSawOld then s.cnt else s.cnt + 1, addPc := 2 }
    else s
  | .del =>
    if s.delPc = 0 then { s with present := false, delRemoved := s.present, delPc := 1 }
    else if s.delPc = 1 then { s with cnt := if s.delRemoved then s.cnt - 1 else s.cnt, delPc := 2 }
    else s

/-- repaired: each operation is one step (the RIB's transaction mutex) -/
def fireAtomic (s : St) : Th → St
  | .add => if s.addPc = 0 then { s with present := true, cnt := if s.present then s.cnt else s.cnt + 1, addPc := 2 } else s
  | .del => if s.delPc = 0 then { s with present := false, cnt := if s.present then s.cnt - 1 else s.cnt, delPc := 2 } else s

def runSplit (s : St) (sched : List Th) : St := sched.foldl fireSplit s
def runAtomic (s : St) (sched : List Th) : St := sched.foldl fireAtomic s

/-- counter = number of referrers -/
def Ok (s : St) : Prop := s.cnt = if s.present then 1 else 0

end RC

end Gribi.Conc
