/-
Model of `server.Server` (server/server.go) at message granularity: the Modify receive
loop (field exclusion, session parameters, election, operations), Flush and Get request
checks, client disconnects. One received message is one atomic step, as in the Go receive
loop. Core Lean only.
-/
import Gribi.Model.Rib
namespace Gribi

/-- negotiated parameters of a session (`clientParams`) -/
structure Params where
  persist : Bool := false
  expectElec : Bool := false
  fibAck : Bool := false
  deriving DecidableEq, Repr, Inhabited

/-- `clientState` plus the receive loop's `gotmsg` flag -/
structure Sess where
  params : Params := {}
  setParams : Bool := false
  gotMsg : Bool := false
  lastElec : Option U128 := none
  deriving DecidableEq, Repr, Inhabited

/-- gRPC status codes used by the server -/
inductive Code where
  | ok | unknown | invalidArgument | failedPrecondition | unimplemented | internal
  deriving DecidableEq, Repr, Inhabited

/-- `ModifyRPCErrorDetails.reason`; `none` = no details attached, `unknown` = details with the
zero reason -/
inductive Reason where
  | none | unknown | unsupportedParams | modifyNotAllowed | paramsDiffer | elecInAllPrimary
  deriving DecidableEq, Repr, Inhabited

structure Term where
  code : Code
  reason : Reason := .none
  deriving DecidableEq, Repr, Inhabited

inductive AftStatus where
  | failed | rib | fib
  deriving DecidableEq, Repr, Inhabited

/-- one ModifyResponse -/
inductive Resp where
  | paramsOk
  | elec (cur : Option U128)
  | results (l : List (Nat × AftStatus))
  deriving DecidableEq, Repr, Inhabited

/-- one ModifyRequest. Enumerations carry their wire numbers so that out-of-range values can
be expressed: redundancy 0 = ALL_PRIMARY, 1 = SINGLE_PRIMARY; persistence 0 = DELETE,
1 = PRESERVE; ack 0 = RIB_ACK, 1 = RIB_AND_FIB_ACK. -/
inductive Msg where
  | params (red pers ack : Nat)
  | elec (e : U128)
  /-- operations, each with the retry-cascade order the implementation reported for it -/
  | ops (l : List (Op × List Rib.CEv))
  /-- more than one of params / election id / operations populated -/
  | multi
  /-- no field populated -/
  | empty
  deriving Repr, Inhabited

structure Server where
  rib : Rib
  sess : Map Nat Sess := []
  curElec : Option U128 := none
  curMaster : Option Nat := none
  deriving Repr, Inhabited

namespace U128
def le (a b : U128) : Bool := a.hi < b.hi || (a.hi == b.hi && a.lo ≤ b.lo)
def lt (a b : U128) : Bool := a.hi < b.hi || (a.hi == b.hi && a.lo < b.lo)
end U128

namespace Server

def new (dflt : NI) (vrfs : List NI) (fwd : Bool := true) (hook : Bool := false) : Server :=
  let r0 : Rib := Rib.new dflt fwd
  let r1 := if hook then r0.setHook else r0
  { rib := vrfs.foldl (fun r n => (r.addNI n).1) r1 }

/-- `isNewMaster` (repaired): the candidate wins iff it is not lower, as a 128-bit integer -/
def isNewMaster (cand : U128) (exist : Option U128) : Bool :=
  match exist with
  | none => true
  | some e => U128.le e cand

/-- `isNewMaster` as written at the pinned commit (defect D1): the low word is compared
without regard to the high word -/
def isNewMasterGo (cand : U128) (exist : Option U128) : Bool :=
  match exist with
  | none => true
  | some e =>
    if cand.hi > e.hi then true
    else if cand.lo > e.lo then true
    else cand.hi == e.hi && cand.lo == e.lo

def connect (s : Server) (c : Nat) : Server :=
  { s with sess := s.sess.insert c {} }

/-- `deleteClient` -/
def drop (s : Server) (c : Nat) : Server :=
  { s with sess := s.sess.erase c }

/-- what one message produced on its own stream -/
structure MsgOut where
  resps : List Resp := []
  /-- `some` = the RPC ended with this status (the session is removed) -/
  term : Option Term := none
  /-- RIB-level outputs of the operations processed (for the RIB-level theorems) -/
  ribOuts : List Rib.Out := []
  deriving Repr, Inhabited

def paramsOf (red pers ack : Nat) : Params :=
  { persist := pers == 1, expectElec := red == 1, fibAck := ack == 1 }

/-- `checkParams` + `updateParams` -/
def doParams (s : Server) (c : Nat) (cs : Sess) (red pers ack : Nat) : Server × MsgOut :=
  if cs.gotMsg then (s, { term := some ⟨.failedPrecondition, .modifyNotAllowed⟩ })
  else if red == 0 && pers == 1 then (s, { term := some ⟨.failedPrecondition, .unsupportedParams⟩ })
  else if red != 1 then (s, { term := some ⟨.unimplemented, .unsupportedParams⟩ })
  else if pers != 1 then (s, { term := some ⟨.unimplemented, .unsupportedParams⟩ })
  else
    let cp := paramsOf red pers ack
    if s.sess.all (fun e => e.1 == c || e.2.params == cp) then
      if cs.setParams then (s, { term := some ⟨.failedPrecondition, .modifyNotAllowed⟩ })
      else
        ({ s with sess := s.sess.insert c { cs with params := cp, setParams := true, gotMsg := true } },
         { resps := [.paramsOk] })
    else (s, { term := some ⟨.failedPrecondition, .paramsDiffer⟩ })

/-- `runElection` -/
def doElec (s : Server) (c : Nat) (cs : Sess) (e : U128) : Server × MsgOut :=
  if !cs.params.expectElec then (s, { term := some ⟨.failedPrecondition, .elecInAllPrimary⟩ })
  else if e.isZero then (s, { term := some ⟨.invalidArgument, .none⟩ })
  else
    let cs' := { cs with lastElec := some e, gotMsg := true }
    let s1 := { s with sess := s.sess.insert c cs' }
    let s2 := if isNewMaster e s.curElec then { s1 with curElec := some e, curMaster := some c } else s1
    (s2, { resps := [.elec s2.curElec] })

/-- the election snapshot `doModify` takes once per request -/
structure ElecSnap where
  master : Option Nat
  cur : Option U128
  clientLatest : Option U128
  deriving Repr, Inhabited

inductive Gate where
  | proceed
  | failed
  | fatal (t : Term)
  deriving DecidableEq, Repr, Inhabited

/-- `checkElectionForModify` -/
def gate (c : Nat) (opElec : Option U128) (snap : ElecSnap) : Gate :=
  match opElec with
  | none => .fatal ⟨.failedPrecondition, .unknown⟩
  | some oe =>
    match snap.master, snap.cur with
    | some m, some cur =>
      match snap.clientLatest with
      | none => .fatal ⟨.failedPrecondition, .unknown⟩
      | some latest =>
        if c ≠ m then .failed
        else if oe ≠ latest then .failed
        else if U128.lt cur oe then .fatal ⟨.failedPrecondition, .none⟩
        else if U128.lt oe cur then .failed
        else .proceed
    | _, _ => .fatal ⟨.internal, .none⟩

def resultsOf (fib : Bool) (o : Rib.Out) : List (Nat × AftStatus) :=
  (o.oks.flatMap (fun op => if fib then [(op.id, .rib), (op.id, .fib)] else [(op.id, .rib)])) ++
    o.fails.map (fun id => (id, .failed))

/-- `modifyEntry` for one operation. `none` = the cascade script is not accepted. -/
def modifyOne (r : Rib) (c : Nat) (fib : Bool) (snap : ElecSnap) (op : Op) (script : List Rib.CEv) :
    Option (Rib × Rib.Out × (Resp ⊕ Term)) :=
  match gate c op.elec snap with
  | .fatal t => if script = [] then some (r, {}, .inr t) else none
  | .failed => if script = [] then some (r, {}, .inl (.results [(op.id, .failed)])) else none
  | .proceed =>
    match op.ty with
    | .invalid => if script = [] then some (r, {}, .inl (.results [(op.id, .failed)])) else none
    | .delete =>
      if script = [] then
        let (r', o) := r.del op
        if o.fatal then some (r', o, .inr ⟨.unimplemented, .unknown⟩)
        else some (r', o, .inl (.results (resultsOf fib o)))
      else none
    | _ =>
      match r.add op script with
      | none => none
      | some (r', o) =>
        if o.fatal then some (r', o, .inr ⟨.unimplemented, .unknown⟩)
        else some (r', o, .inl (.results (resultsOf fib o)))

/-- the loop of `doModify` over the operations of one request -/
def modifyLoop (r : Rib) (c : Nat) (fib : Bool) (snap : ElecSnap) :
    List (Op × List Rib.CEv) → Option (Rib × MsgOut)
  | [] => some (r, {})
  | (op, script) :: rest =>
    if op.ni = "" ∨ ¬ r.hasNI op.ni then
      if script ≠ [] then none else
      match modifyLoop r c fib snap rest with
      | none => none
      | some (r', o) => some (r', { o with resps := .results [(op.id, .failed)] :: o.resps })
    else
      match modifyOne r c fib snap op script with
      | none => none
      | some (r1, ro, .inr t) => some (r1, { term := some t, ribOuts := [ro] })
      | some (r1, ro, .inl resp) =>
        match modifyLoop r1 c fib snap rest with
        | none => none
        | some (r', o) => some (r', { o with resps := resp :: o.resps, ribOuts := ro :: o.ribOuts })

/-- `doModify` -/
def doOps (s : Server) (c : Nat) (cs : Sess) (l : List (Op × List Rib.CEv)) : Option (Server × MsgOut) :=
  if !cs.params.expectElec || !cs.params.persist then
    if l.all (fun e => e.2 == []) then some (s, { term := some ⟨.unimplemented, .unsupportedParams⟩ }) else none
  else
    let snap : ElecSnap := { master := s.curMaster, cur := s.curElec, clientLatest := cs.lastElec }
    match modifyLoop s.rib c cs.params.fibAck snap l with
    | none => none
    | some (r', o) =>
      some ({ s with rib := r', sess := s.sess.insert c { cs with gotMsg := true } }, o)

/-- when the RPC ends, the session's entry is removed (`deleteClient`) -/
def finish (c : Nat) (r : Server × MsgOut) : Server × MsgOut :=
  match r.2.term with
  | some _ => (r.1.drop c, r.2)
  | none => r

/-- one received message on session `c`. `none` = a cascade script was not accepted, or the
session does not exist. -/
def recv (s : Server) (c : Nat) (m : Msg) : Option (Server × MsgOut) :=
  match s.sess.get? c with
  | none => none
  | some cs =>
    match m with
    | .multi => some (s.drop c, { term := some ⟨.invalidArgument, .none⟩ })
    | .empty => some (s.drop c, { term := some ⟨.unimplemented, .none⟩ })
    | .params red pers ack => some (finish c (doParams s c cs red pers ack))
    | .elec e => some (finish c (doElec s c cs e))
    | .ops l => (doOps s c cs l).map (finish c)

/-- the client half-closes, cancels or the transport fails: the session entry is removed,
nothing else changes -/
def close (s : Server) (c : Nat) : Server := s.drop c

/-! ### Flush -/

inductive NiSel where
  | unset | all | name (n : NI)
  deriving DecidableEq, Repr, Inhabited

inductive FlushElec where
  | unset | id (e : U128) | override
  deriving DecidableEq, Repr, Inhabited

/-- `FlushResponseError.status` -/
inductive FlushReason where
  | none | unspecifiedNI | invalidNI | unspecifiedElection | elecInAllPrimary | invalidElec | notPrimary
  deriving DecidableEq, Repr, Inhabited

structure FlushRes where
  code : Code
  reason : FlushReason := .none
  deriving DecidableEq, Repr, Inhabited

/-- `checkFlushRequest` -/
def checkFlush (cur : Option U128) (ni : NiSel) (el : FlushElec) : Option FlushRes :=
  if ni = .unset then some ⟨.invalidArgument, .unspecifiedNI⟩
  else match el with
    | .override => none
    | .unset => if cur.isNone then none else some ⟨.failedPrecondition, .unspecifiedElection⟩
    | .id e =>
      match cur with
      | none => some ⟨.failedPrecondition, .elecInAllPrimary⟩
      | some c =>
        if e.isZero then some ⟨.invalidArgument, .invalidElec⟩
        else if U128.lt e c then some ⟨.failedPrecondition, .notPrimary⟩
        else none

/-- `Server.Flush` -/
def flush (s : Server) (ni : NiSel) (el : FlushElec) : Server × FlushRes × List HookEv :=
  match checkFlush s.curElec ni el with
  | some r => (s, r, [])
  | none =>
    match ni with
    | .unset => (s, ⟨.invalidArgument, .unspecifiedNI⟩, [])
    | .all =>
      let (r', hk) := s.rib.flush s.rib.nis
      ({ s with rib := r' }, ⟨.ok, .none⟩, hk)
    | .name n =>
      if s.rib.hasNI n then
        let (r', hk) := s.rib.flush [n]
        ({ s with rib := r' }, ⟨.ok, .none⟩, hk)
      else (s, ⟨.invalidArgument, .invalidNI⟩, [])

/-! ### Get -/

/-- AFT type of a GetRequest; `other` = any value the server does not implement -/
inductive GetAft where
  | sel (a : Rib.AftSel) | other
  deriving DecidableEq, Repr, Inhabited

/-- `Server.Get`: `none` = the RPC ends with an error status (the server reports every
request error as Internal), `some l` = OK stream with these entries (any order). -/
def get (s : Server) (ni : NiSel) (aft : GetAft) : Option (List (EKey × Payload)) :=
  match aft with
  | .other => none
  | .sel a =>
    match ni with
    | .unset => some []
    | .all => some (s.rib.nis.flatMap (fun n => s.rib.getNI n a))
    | .name n =>
      if n = "" then none
      else if s.rib.hasNI n then some (s.rib.getNI n a) else none

/-! ### events -/

inductive Ev where
  | connect (c : Nat)
  | msg (c : Nat) (m : Msg)
  | close (c : Nat)
  | flush (ni : NiSel) (el : FlushElec)
  | get (ni : NiSel) (aft : GetAft)
  deriving Repr, Inhabited

inductive EvOut where
  | none
  | msg (c : Nat) (o : MsgOut)
  | flush (r : FlushRes) (hooks : List HookEv)
  | get (r : Option (List (EKey × Payload)))
  deriving Repr, Inhabited

def step (s : Server) : Ev → Option (Server × EvOut)
  | .connect c => some (s.connect c, .none)
  | .msg c m => (s.recv c m).map (fun r => (r.1, .msg c r.2))
  | .close c => some (s.close c, .none)
  | .flush ni el => let (s', r, hk) := s.flush ni el; some (s', .flush r hk)
  | .get ni aft => some (s, .get (s.get ni aft))

def run (s : Server) : List Ev → Option (Server × List EvOut)
  | [] => some (s, [])
  | e :: rest =>
    match step s e with
    | none => none
    | some (s1, o) =>
      match run s1 rest with
      | none => none
      | some (s2, os) => some (s2, o :: os)

end Server
end Gribi
