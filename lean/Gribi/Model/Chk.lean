/-
Model of the `chk` assertion helpers (chk/chk.go) as Boolean functions over plain records:
`true` = the helper returns normally, `false` = it reports a fatal test failure.
`cmp.Equal` with `IgnoreFields` + `protocmp` is field-wise equality outside the ignore set.
Core Lean only.
-/
namespace Gribi.Chk

/-- `client.OpDetailsResults` -/
structure Details where
  ty : Nat := 0
  nh : Nat := 0
  nhg : Nat := 0
  v4 : String := ""
  v6 : String := ""
  mpls : Nat := 0
  deriving DecidableEq, Repr, Inhabited

/-- `client.OpResult` without Timestamp and Latency (always ignored) -/
structure OpRes where
  opId : Nat := 0
  prog : Nat := 0
  elec : Option (Nat × Nat) := none
  params : Option Nat := none
  clientErr : String := ""
  serverErr : String := ""
  details : Option Details := none
  deriving DecidableEq, Repr, Inhabited

structure Opts where
  ignoreOpId : Bool := false
  includeServerErr : Bool := false
  deriving DecidableEq, Repr, Inhabited

/-- equality of a result with the wanted one under the options -/
def eqModulo (o : Opts) (r w : OpRes) : Bool :=
  (w.details.isNone || r.details == w.details) &&
  (o.ignoreOpId || r.opId == w.opId) &&
  (!o.includeServerErr || r.serverErr == w.serverErr) &&
  r.prog == w.prog && r.elec == w.elec && r.params == w.params && r.clientErr == w.clientErr

/-- `HasResult`; a `none` element is a nil pointer (never equal to a want) -/
def hasResult (res : List (Option OpRes)) (w : OpRes) (o : Opts) : Bool :=
  res.any (fun r => match r with
    | some r => eqModulo o r w
    | none => false)

/-- the key under which `HasResultsCache` indexes / looks up by details, in its `switch` order -/
inductive DKey where
  | nhg (n : Nat) | nh (n : Nat) | v4 (p : String) | v6 (p : String) | mpls (n : Nat)
  deriving DecidableEq, Repr, Inhabited

def dkey (d : Details) : Option DKey :=
  if d.nhg ≠ 0 then some (.nhg d.nhg)
  else if d.nh ≠ 0 then some (.nh d.nh)
  else if d.v4 ≠ "" then some (.v4 d.v4)
  else if d.v6 ≠ "" then some (.v6 d.v6)
  else if d.mpls ≠ 0 then some (.mpls d.mpls)
  else none

/-- Go map built by a loop of assignments: the last binding wins -/
def lastBy {κ : Type} [DecidableEq κ] (res : List OpRes) (key : OpRes → Option κ) (k : κ) : Option OpRes :=
  (res.reverse.find? (fun r => key r == some k))

/-- `HasResultsCache` -/
def hasResultsCache (res wants : List OpRes) (o : Opts) : Bool :=
  if !o.ignoreOpId then
    wants.all (fun w => hasResult [lastBy res (fun r => some r.opId) w.opId] w o)
  else
    wants.all (fun w =>
      match w.details with
      | none => false                      -- "test error": fatal
      | some d =>
        match dkey d with
        | none => false                    -- "test error": fatal
        | some k => hasResult [lastBy res (fun r => r.details.bind dkey) k] w o)

/-! ### Get responses -/

inductive EKind where
  | v4 | v6 | mpls | nhg | nh | other
  deriving DecidableEq, Repr, Inhabited

/-- an AFTEntry as far as the helper looks: network instance, kind, key (numeric keys as
decimal strings); `usable = false` for keys the helper refuses to index (0, "", non-uint64 label) -/
structure GEntry where
  ni : String
  kind : EKind
  key : String
  deriving DecidableEq, Repr, Inhabited

def indexable (e : GEntry) : Bool :=
  match e.kind with
  | .nhg | .nh => e.key ≠ "0"
  | .v4 | .v6 => e.key ≠ ""
  | .mpls => true
  | .other => false

/-- `GetResponseHasEntries` -/
def getResponseHasEntries (resp : List GEntry) (wants : List GEntry) : Bool :=
  wants.all (fun w =>
    w.ni ≠ "" && w.kind ≠ .other &&
    resp.any (fun e => e.ni == w.ni) &&
    resp.any (fun e => indexable e && e.ni == w.ni && e.kind == w.kind && e.key == w.key))

/-! ### client errors -/

/-- a gRPC status as compared by the helper: code, message, rendering of the details -/
structure St where
  code : Nat
  msg : String := ""
  det : String := ""
  deriving DecidableEq, Repr, Inhabited

/-- what `AwaitConverged` returned -/
inductive CErr where
  | nil
  | clientErr (send : Nat) (recv : List (Option St))   -- recv errors: `none` = not a status error
  | other
  deriving Repr, Inhabited

def hasNSendErrors (e : CErr) (count : Nat) : Bool :=
  match e with
  | .nil => count == 0
  | .clientErr s _ => s == count
  | .other => false

def hasNRecvErrors (e : CErr) (count : Nat) : Bool :=
  match e with
  | .nil => count == 0
  | .clientErr _ r => r.length == count
  | .other => false

def unimplemented : Nat := 12

/-- `HasRecvClientErrorWithStatus` -/
def hasRecvStatus (e : CErr) (want : St) (allowUnimpl ignoreDetails : Bool) : Bool :=
  let okMsgs : List St := [want] ++ (if allowUnimpl then [{ code := unimplemented }] else []) ++
    (if ignoreDetails then [{ want with det := "" }] else [])
  match e with
  | .clientErr _ recv =>
    recv.any (fun r => match r with
      | none => false
      | some s => okMsgs.any (fun wo =>
          let ns := if wo.msg == "" then { s with msg := "" } else s
          let ns := if (allowUnimpl && wo.code == unimplemented) || ignoreDetails then { ns with det := "" } else ns
          ns == wo))
  | _ => false

end Gribi.Chk
