/-
Model of the reconciler (rib/reconciler/reconcile.go: `diff`) over the contents maps of the RIB
model, and of the documented order in which a client sends its output. Core Lean only.

`diff` walks every network instance of either side (the repaired code: the union) and every table:
a key of the intended RIB that the target lacks is an ADD; one whose payloads differ is an ADD
acting as an implicit replace; a key only the target has is a DELETE. Each operation is put into
one of nine buckets (Add / Replace / Delete × next-hop / group / top-level). Go iterates maps in
random order, so the *order inside a bucket* and which id an operation gets are not determined;
the model fixes one order (the order of the contents lists) — the theorems do not depend on it
beyond what they state, and the correspondence compares buckets as sets and ids as a set.
-/
import Gribi.Model.Rib
namespace Gribi.Recon
open Gribi

abbrev Ents := Map EKey Payload

def isNh (e : EKey × Payload) : Bool := match e.1.2 with | .nh _ => true | _ => false
def isNhg (e : EKey × Payload) : Bool := match e.1.2 with | .nhg _ => true | _ => false
def isTop (e : EKey × Payload) : Bool := e.1.2.isTop

/-- keys of the intended RIB that the target lacks -/
def toAdd (I T : Ents) : Ents := I.filter (fun e => (T.get? e.1).isNone)
/-- keys on both sides whose payloads differ (`reflect.DeepEqual` on the stored structs) -/
def toReplace (I T : Ents) : Ents :=
  I.filter (fun e => match T.get? e.1 with | some p => p != e.2 | none => false)
/-- keys only the target has -/
def toDelete (I T : Ents) : Ents := T.filter (fun e => (I.get? e.1).isNone)

structure Ops where
  nh : Ents := []
  nhg : Ents := []
  top : Ents := []
  deriving Repr, Inhabited

def Ops.of (l : Ents) : Ops := { nh := l.filter isNh, nhg := l.filter isNhg, top := l.filter isTop }

structure ROps where
  add : Ops
  replace : Ops
  delete : Ops
  deriving Repr, Inhabited

/-- the nine buckets -/
def diff (I T : Ents) : ROps :=
  { add := Ops.of (toAdd I T), replace := Ops.of (toReplace I T), delete := Ops.of (toDelete I T) }

/-- the documented dependency order: added next-hops, groups, top-level entries; replaces (in
the same order); then deletes of top-level entries, groups, next-hops -/
def installs (d : ROps) : Ents :=
  d.add.nh ++ d.add.nhg ++ d.add.top ++ d.replace.nh ++ d.replace.nhg ++ d.replace.top
def removals (d : ROps) : Ents := d.delete.top ++ d.delete.nhg ++ d.delete.nh

def mkOp (id : Nat) (ty : OpType) (e : EKey × Payload) : Op :=
  { id := id, ty := ty, ni := e.1.1, key := e.1.2, pl := e.2 }

/-- number a list of (type, entry) pairs from `base + 1` -/
def number : Nat → List (OpType × (EKey × Payload)) → List Op
  | _, [] => []
  | b, x :: rest => mkOp (b + 1) x.1 x.2 :: number (b + 1) rest

/-- the operations in the order they are sent, with ids counting up from `base` -/
def ops (I T : Ents) (base : Nat) : List Op :=
  number base ((installs (diff I T)).map (fun e => (OpType.add, e)) ++ (removals (diff I T)).map (fun e => (OpType.delete, e)))

/-- what sending them amounts to at the RIB's interface -/
def inputs (l : List Op) : List Rib.In :=
  l.map (fun op => if op.ty = .delete then Rib.In.del op else Rib.In.add op [])

end Gribi.Recon
