/-
Model of `rib.RIB` (rib/rib.go): AddEntry / DeleteEntry / Flush / AddNetworkInstance /
SetPostChangeHook / GetRIB, with reference counters and the queue of held operations.

The model says what the Go code does, in the order it does it (see DESIGN.md Appendix A).
Core Lean only.
-/
import Gribi.Model.Types
namespace Gribi

/-- change notification (post-change hook) -/
inductive HookEv where
  | add (ni : NI) (key : Key) (pl : Payload)
  | del (ni : NI) (key : Key) (pl : Option Payload)
  deriving DecidableEq, Repr, Inhabited

structure Rib where
  dflt : NI
  nis : List NI
  /-- forward references allowed (`DisableForwardReferences` not given) -/
  fwd : Bool := true
  /-- a post-change hook is registered -/
  hook : Bool := false
  ents : Map EKey Payload := []
  nhgRef : Map (NI × Nat) Nat := []
  nhRef : Map (NI × Nat) Nat := []
  pend : Map Nat Op := []
  deriving Repr, Inhabited

namespace Rib

def new (dflt : NI) (fwd : Bool := true) : Rib := { dflt := dflt, nis := [dflt], fwd := fwd }

/-! ### counters -/

def cnt (m : Map (NI × Nat) Nat) (k : NI × Nat) : Nat := (m.get? k).getD 0
def inc (m : Map (NI × Nat) Nat) (k : NI × Nat) : Map (NI × Nat) Nat := m.insert k (cnt m k + 1)
/-- the Go code refuses to go below zero -/
def dec (m : Map (NI × Nat) Nat) (k : NI × Nat) : Map (NI × Nat) Nat :=
  if cnt m k = 0 then m else m.insert k (cnt m k - 1)

def incL (m : Map (NI × Nat) Nat) (ni : NI) (l : List Nat) : Map (NI × Nat) Nat :=
  l.foldl (fun m n => inc m (ni, n)) m
def decL (m : Map (NI × Nat) Nat) (ni : NI) (l : List Nat) : Map (NI × Nat) Nat :=
  l.foldl (fun m n => dec m (ni, n)) m

/-- distinct elements (the installed group is a map keyed by index) -/
def dedup : List Nat → List Nat
  | [] => []
  | a :: t => if t.contains a then dedup t else a :: dedup t

/-- network instance in which a top-level entry's group is looked up -/
def tgtNI (ni : NI) (p : Payload) : NI := if p.grpNI = "" then ni else p.grpNI

def hasNI (s : Rib) (ni : NI) : Bool := s.nis.contains ni

def decG (s : Rib) (ni : NI) (p : Payload) : Rib :=
  if s.hasNI (tgtNI ni p) then { s with nhgRef := dec s.nhgRef (tgtNI ni p, p.grp) } else s
def incG (s : Rib) (ni : NI) (p : Payload) : Rib :=
  if s.hasNI (tgtNI ni p) then { s with nhgRef := inc s.nhgRef (tgtNI ni p, p.grp) } else s

/-- drop the references held by an installed entry (delete, flush) -/
def unref (s : Rib) (ni : NI) (key : Key) (p : Payload) : Rib :=
  match key with
  | .nh _ => s
  | .nhg _ => { s with nhRef := decL s.nhRef ni (dedup p.nhs) }
  | _ => decG s ni p

/-- counter maintenance of an install (`handleReferences` / `handleNHGReferences`) -/
def reref (s : Rib) (ni : NI) (key : Key) (old : Option Payload) (new : Payload) : Rib :=
  match key with
  | .nh _ => s
  | .nhg _ =>
    let m := incL s.nhRef ni (dedup new.nhs)
    { s with nhRef := match old with
                      | none => m
                      | some o => decL m ni (dedup o.nhs) }
  | _ =>
    match old with
    | none => incG s ni new
    | some o =>
      if o.grpNI = new.grpNI ∧ o.grp = new.grp then s
      else incG (decG s ni o) ni new

/-! ### install -/

inductive Try where
  | err | hold | ok
  deriving DecidableEq, Repr, Inhabited

def has (s : Rib) (k : EKey) : Bool := s.ents.has k

/-- outcome of trying to install an ADD/REPLACE now: the order of tests is the Go order
(`AddXXX`: schema validation, explicit-replace existence, `canResolve`). -/
def classify (s : Rib) (op : Op) : Try :=
  if op.cls ≠ .wf then .err
  else if op.ty = .replace ∧ ¬ s.has (op.ni, op.key) then .err
  else match op.key with
    | .nh i => if i = 0 then .err else .ok
    | .nhg g =>
      if g = 0 ∨ op.pl.nhs = [] ∨ op.pl.nhs.contains 0 then .err
      else if op.pl.nhs.all (fun n => s.has (op.ni, .nh n)) then .ok else .hold
    | _ =>
      if op.pl.grp = 0 then .err
      else if op.pl.grpNI ≠ "" ∧ ¬ s.hasNI op.pl.grpNI then .err
      else if s.has (tgtNI op.ni op.pl, .nhg op.pl.grp) then .ok else .hold

/-- store the payload whole and maintain the counters -/
def install (s : Rib) (op : Op) : Rib × List HookEv :=
  let k : EKey := (op.ni, op.key)
  let old := s.ents.get? k
  let s1 := { s with ents := s.ents.insert k op.pl }
  (reref s1 op.ni op.key old op.pl, if s.hook then [.add op.ni op.key op.pl] else [])

/-- one event of the retry cascade, as reported by the implementation -/
inductive CEv where
  | ok (id : Nat)
  | fail (id : Nat)
  deriving DecidableEq, Repr, Inhabited

structure Out where
  /-- operations acknowledged as programmed, in acknowledgement order -/
  oks : List Op := []
  /-- ids answered FAILED, in order -/
  fails : List Nat := []
  /-- the call itself returned an error (fatal for the RPC at server level) -/
  fatal : Bool := false
  hooks : List HookEv := []
  /-- resolved-entry notifications: (isAdd, instance, key), for IPv4/IPv6/MPLS entries only -/
  resolved : List (Bool × NI × Key) := []
  deriving Repr, Inhabited

/-- fire one cascade event: the operation must be held, and trying it now must install it
(`ok`) or fail it for good (`fail`). A held operation that is still unresolved cannot fire. -/
def fire (s : Rib) (ev : CEv) : Option (Rib × Out) :=
  match ev with
  | .ok id =>
    match s.pend.get? id with
    | none => none
    | some op =>
      match classify s op with
      | .ok =>
        let (s', hk) := install s op
        some ({ s' with pend := s'.pend.erase id },
              { oks := [op], hooks := hk, resolved := if op.key.isTop then [(true, op.ni, op.key)] else [] })
      | _ => none
  | .fail id =>
    match s.pend.get? id with
    | none => none
    | some op =>
      match classify s op with
      | .err => some ({ s with pend := s.pend.erase id }, { fails := [id] })
      | _ => none

def Out.append (a b : Out) : Out :=
  { oks := a.oks ++ b.oks, fails := a.fails ++ b.fails, fatal := a.fatal || b.fatal,
    hooks := a.hooks ++ b.hooks, resolved := a.resolved ++ b.resolved }

def runCascade (s : Rib) : List CEv → Option (Rib × Out)
  | [] => some (s, {})
  | ev :: rest =>
    match fire s ev with
    | none => none
    | some (s1, o1) =>
      match runCascade s1 rest with
      | none => none
      | some (s2, o2) => some (s2, o1.append o2)

/-- no held operation can be installed or failed now -/
def quiescent (s : Rib) : Bool := s.pend.all (fun e => classify s e.2 == .hold)

/-- `AddEntry` for an ADD/REPLACE. `script` is the order of the retry cascade the
implementation reported; `none` = the script is not a legal cascade of this state. -/
def add (s : Rib) (op : Op) (script : List CEv) : Option (Rib × Out) :=
  if op.cls = .noEntry ∨ ¬ s.hasNI op.ni then
    if script = [] then some (s, { fatal := true }) else none
  else match classify s op with
    | .err =>
      if script = [] then some ({ s with pend := s.pend.erase op.id }, { fails := [op.id] }) else none
    | .hold =>
      if script ≠ [] then none
      else if s.fwd then some ({ s with pend := s.pend.insert op.id op }, {})
      else some (s, { fails := [op.id] })
    | .ok =>
      let (s1, hk) := install s op
      let s1 := { s1 with pend := s1.pend.erase op.id }
      match runCascade s1 script with
      | none => none
      | some (s2, o2) =>
        if quiescent s2 then
          some (s2, ({ oks := [op], hooks := hk,
                       resolved := if op.key.isTop then [(true, op.ni, op.key)] else [] } : Out).append o2)
        else none

/-! ### delete -/

/-- largest label the implementation can store -/
def maxLabel : Nat := 2 ^ 32 - 1

inductive DTry where
  | err | refd | absent | ok
  deriving DecidableEq, Repr, Inhabited

def classifyDel (s : Rib) (op : Op) : DTry :=
  if op.cls ≠ .wf then .err
  else match op.key with
    | .nhg g =>
      if g = 0 then .err
      else if ¬ s.has (op.ni, op.key) then .absent
      else if cnt s.nhgRef (op.ni, g) > 0 then .refd else .ok
    | .nh i =>
      if i = 0 then .err
      else if ¬ s.has (op.ni, op.key) then .absent
      else if cnt s.nhRef (op.ni, i) > 0 then .refd else .ok
    | .mpls l =>
      if l > maxLabel then .err
      else if s.has (op.ni, op.key) then .ok else .absent
    | _ => if s.has (op.ni, op.key) then .ok else .absent

/-- `DeleteEntry`: the payload of the request is ignored. -/
def del (s : Rib) (op : Op) : Rib × Out :=
  if op.cls = .noEntry ∨ ¬ s.hasNI op.ni then (s, { fatal := true })
  else match classifyDel s op with
    | .err | .refd => (s, { fails := [op.id] })
    | .absent => (s, { oks := [op], hooks := if s.hook then [.del op.ni op.key none] else [] })
    | .ok =>
      match s.ents.get? (op.ni, op.key) with
      | none => (s, { oks := [op] })   -- unreachable: classifyDel said present
      | some p =>
        let s1 := unref s op.ni op.key p
        ({ s1 with ents := s1.ents.erase (op.ni, op.key) },
         { oks := [op], hooks := if s.hook then [.del op.ni op.key (some p)] else [],
           resolved := if op.key.isTop then [(false, op.ni, op.key)] else [] })

/-! ### flush -/

def entsOf (s : Rib) (ni : NI) : Map EKey Payload := s.ents.filter (fun e => e.1.1 == ni)

def flushNI (s : Rib) (ni : NI) : Rib × List HookEv :=
  let mine := s.entsOf ni
  let s1 := mine.foldl (fun s e => unref s ni e.1.2 e.2) s
  ({ s1 with ents := s1.ents.eraseP (fun k => k.1 == ni) },
   if s.hook then mine.map (fun e => HookEv.del ni e.1.2 (some e.2)) else [])

/-- `Flush` of the named instances (all must exist; the server checks that). -/
def flush (s : Rib) : List NI → Rib × List HookEv
  | [] => (s, [])
  | ni :: rest =>
    let (s1, h1) := flushNI s ni
    let (s2, h2) := flush s1 rest
    (s2, h1 ++ h2)

/-! ### instances, hook -/

def addNI (s : Rib) (ni : NI) : Rib × Bool :=
  if s.hasNI ni then (s, false) else ({ s with nis := s.nis ++ [ni] }, true)

def setHook (s : Rib) : Rib := { s with hook := true }

/-! ### Get -/

inductive AftSel where
  | all | v4 | v6 | mpls | nhg | nh
  deriving DecidableEq, Repr, Inhabited

def AftSel.matches : AftSel → Key → Bool
  | .all, _ => true
  | .v4, .v4 _ => true
  | .v6, .v6 _ => true
  | .mpls, .mpls _ => true
  | .nhg, .nhg _ => true
  | .nh, .nh _ => true
  | _, _ => false

/-- `GetRIB` of one instance -/
def getNI (s : Rib) (ni : NI) (sel : AftSel) : List (EKey × Payload) :=
  s.ents.filter (fun e => e.1.1 == ni && sel.matches e.1.2)

/-! ### the step function over which histories are quantified -/

inductive In where
  | add (op : Op) (script : List CEv)
  | del (op : Op)
  | flush (nis : List NI)
  | addNI (ni : NI)
  | setHook
  deriving Repr, Inhabited

def step (s : Rib) : In → Option (Rib × Out)
  | .add op script => add s op script
  | .del op => some (del s op)
  | .flush nis => let (s', hk) := flush s nis; some (s', { hooks := hk })
  | .addNI ni => some ((addNI s ni).1, {})
  | .setHook => some (setHook s, {})

/-- run a history; `none` if some cascade script is not accepted -/
def run (s : Rib) : List In → Option (Rib × List Out)
  | [] => some (s, [])
  | i :: rest =>
    match step s i with
    | none => none
    | some (s1, o) =>
      match run s1 rest with
      | none => none
      | some (s2, os) => some (s2, o :: os)

end Rib
end Gribi
