/-
Association-list finite maps. Core Lean only.

`insert k v m = (k, v) :: erase k m`, `erase k m = m.filter (·.1 ≠ k)`.
Lookups are by the first matching key; all maps built by `insert`/`erase` from `[]`
have distinct keys (`NoDupKeys`), which is proved as a separate invariant and is only
needed for counting lemmas.
-/
set_option linter.unusedSectionVars false
namespace Gribi

abbrev Map (α : Type) (β : Type) := List (α × β)

namespace Map
variable {α β : Type} [DecidableEq α]

def get? : Map α β → α → Option β
  | [], _ => none
  | (a, b) :: t, k => if a = k then some b else get? t k

def has (m : Map α β) (k : α) : Bool := (get? m k).isSome

def erase (m : Map α β) (k : α) : Map α β := m.filter (fun e => !(decide (e.1 = k)))

def insert (m : Map α β) (k : α) (v : β) : Map α β := (k, v) :: erase m k

def keys (m : Map α β) : List α := m.map (·.1)

/-- remove every binding whose key satisfies `p`. -/
def eraseP (m : Map α β) (p : α → Bool) : Map α β := m.filter (fun e => !(p e.1))

def NoDupKeys (m : Map α β) : Prop := (keys m).Nodup

@[simp] theorem get?_nil (k : α) : get? ([] : Map α β) k = none := rfl

theorem get?_cons (a : α) (b : β) (t : Map α β) (k : α) :
    get? ((a, b) :: t) k = if a = k then some b else get? t k := rfl

theorem get?_erase (m : Map α β) (k k' : α) :
    get? (erase m k) k' = if k = k' then none else get? m k' := by
  induction m with
  | nil => simp [erase]
  | cons e t ih =>
    obtain ⟨a, b⟩ := e
    unfold erase at ih ⊢
    by_cases hak : a = k
    · subst hak
      simp only [List.filter, decide_true, Bool.not_true]
      rw [ih]
      by_cases h : a = k'
      · simp [h]
      · simp [h, get?_cons]
    · simp only [List.filter, hak, decide_false, Bool.not_false]
      rw [get?_cons, get?_cons, ih]
      by_cases h : a = k'
      · subst h; simp [Ne.symm hak]
      · simp [h]

@[simp] theorem get?_erase_self (m : Map α β) (k : α) : get? (erase m k) k = none := by
  simp [get?_erase]

theorem get?_erase_ne (m : Map α β) {k k' : α} (h : k ≠ k') :
    get? (erase m k) k' = get? m k' := by
  simp [get?_erase, h]

theorem get?_insert (m : Map α β) (k k' : α) (v : β) :
    get? (insert m k v) k' = if k = k' then some v else get? m k' := by
  unfold insert
  rw [get?_cons, get?_erase]
  by_cases h : k = k' <;> simp [h]

@[simp] theorem get?_insert_self (m : Map α β) (k : α) (v : β) :
    get? (insert m k v) k = some v := by simp [get?_insert]

theorem get?_insert_ne (m : Map α β) {k k' : α} (v : β) (h : k ≠ k') :
    get? (insert m k v) k' = get? m k' := by simp [get?_insert, h]

theorem get?_eraseP (m : Map α β) (p : α → Bool) (k : α) :
    get? (eraseP m p) k = if p k then none else get? m k := by
  induction m with
  | nil => simp [eraseP]
  | cons e t ih =>
    obtain ⟨a, b⟩ := e
    unfold eraseP at ih ⊢
    by_cases hp : p a
    · simp only [List.filter, hp, Bool.not_true]
      rw [ih, get?_cons]
      by_cases h : a = k
      · subst h; simp [hp]
      · simp [h]
    · simp only [List.filter, hp, Bool.not_false]
      rw [get?_cons, get?_cons, ih]
      by_cases h : a = k
      · subst h; simp [hp]
      · simp [h]

theorem get?_some_mem {m : Map α β} {k : α} {v : β} (h : get? m k = some v) : (k, v) ∈ m := by
  induction m with
  | nil => simp at h
  | cons e t ih =>
    obtain ⟨a, b⟩ := e
    rw [get?_cons] at h
    by_cases hak : a = k
    · simp [hak] at h; subst hak; subst h; exact List.mem_cons_self
    · simp [hak] at h; exact List.mem_cons_of_mem _ (ih h)

theorem mem_keys_of_get? {m : Map α β} {k : α} {v : β} (h : get? m k = some v) : k ∈ keys m := by
  have := get?_some_mem h
  exact List.mem_map.mpr ⟨(k, v), this, rfl⟩

theorem get?_none_of_not_mem_keys {m : Map α β} {k : α} (h : k ∉ keys m) : get? m k = none := by
  induction m with
  | nil => rfl
  | cons e t ih =>
    obtain ⟨a, b⟩ := e
    simp only [keys, List.map_cons, List.mem_cons, not_or] at h
    rw [get?_cons]
    have : a ≠ k := fun h' => h.1 h'.symm
    simp only [this, if_false]
    exact ih h.2

theorem get?_of_mem_nodup {m : Map α β} (hn : NoDupKeys m) {k : α} {v : β} (h : (k, v) ∈ m) :
    get? m k = some v := by
  induction m with
  | nil => simp at h
  | cons e t ih =>
    obtain ⟨a, b⟩ := e
    simp only [NoDupKeys, keys, List.map_cons, List.nodup_cons] at hn
    rw [get?_cons]
    rcases List.mem_cons.mp h with heq | hmem
    · cases heq; simp
    · have hk : k ∈ keys t := List.mem_map.mpr ⟨(k, v), hmem, rfl⟩
      have : a ≠ k := fun h' => hn.1 (h' ▸ hk)
      simp only [this, if_false]
      exact ih hn.2 hmem

theorem keys_filter_sub (m : Map α β) (p : α × β → Bool) : ∀ k, k ∈ keys (m.filter p) → k ∈ keys m := by
  intro k hk
  obtain ⟨e, he, rfl⟩ := List.mem_map.mp hk
  exact List.mem_map.mpr ⟨e, (List.mem_filter.mp he).1, rfl⟩

theorem nodup_filter {m : Map α β} (hn : NoDupKeys m) (p : α × β → Bool) : NoDupKeys (m.filter p) := by
  induction m with
  | nil => simp [NoDupKeys, keys]
  | cons e t ih =>
    simp only [NoDupKeys, keys, List.map_cons, List.nodup_cons] at hn
    by_cases hp : p e
    · simp only [List.filter, hp, NoDupKeys, keys, List.map_cons, List.nodup_cons]
      exact ⟨fun h => hn.1 (keys_filter_sub t p _ h), ih hn.2⟩
    · simp only [List.filter, hp]
      exact ih hn.2

theorem nodup_erase {m : Map α β} (hn : NoDupKeys m) (k : α) : NoDupKeys (erase m k) :=
  nodup_filter hn _

theorem nodup_eraseP {m : Map α β} (hn : NoDupKeys m) (p : α → Bool) : NoDupKeys (eraseP m p) :=
  nodup_filter hn _

theorem not_mem_keys_erase (m : Map α β) (k : α) : k ∉ keys (erase m k) := by
  intro h
  obtain ⟨e, he, rfl⟩ := List.mem_map.mp h
  have := (List.mem_filter.mp he).2
  simp at this

theorem nodup_insert {m : Map α β} (hn : NoDupKeys m) (k : α) (v : β) : NoDupKeys (insert m k v) := by
  simp only [insert, NoDupKeys, keys, List.map_cons, List.nodup_cons]
  exact ⟨not_mem_keys_erase m k, nodup_erase hn k⟩

theorem nodup_nil : NoDupKeys ([] : Map α β) := by simp [NoDupKeys, keys]

/-! ### counting -/

/-- 1 if the binding `k ↦ o` exists and satisfies `q`, else 0 -/
def hit (q : α × β → Bool) (k : α) : Option β → Nat
  | some v => if q (k, v) then 1 else 0
  | none => 0

@[simp] theorem hit_none (q : α × β → Bool) (k : α) : hit q k none = 0 := rfl
@[simp] theorem hit_some (q : α × β → Bool) (k : α) (v : β) : hit q k (some v) = if q (k, v) then 1 else 0 := rfl

theorem countP_erase {m : Map α β} (hn : NoDupKeys m) (q : α × β → Bool) (k : α) :
    (erase m k).countP q = m.countP q - hit q k (get? m k) := by
  induction m with
  | nil => simp [erase]
  | cons e t ih =>
    obtain ⟨a, b⟩ := e
    have hn' := hn
    simp only [NoDupKeys, keys, List.map_cons, List.nodup_cons] at hn'
    have iht := ih hn'.2
    unfold erase at iht ⊢
    by_cases hak : a = k
    · subst hak
      have hnone : get? t a = none := get?_none_of_not_mem_keys hn'.1
      rw [hnone] at iht
      simp only [List.filter, decide_true, Bool.not_true, get?_cons, if_true, hit_some, hit_none] at iht ⊢
      rw [iht, List.countP_cons]
      by_cases hq : q (a, b) <;> simp [hq]
    · simp only [List.filter, hak, decide_false, Bool.not_false, get?_cons, if_false]
      rw [List.countP_cons, List.countP_cons, iht]
      cases hg : get? t k with
      | none => simp
      | some v =>
        have hmem : (k, v) ∈ t := get?_some_mem hg
        by_cases hq : q (k, v)
        · have hpos : 0 < t.countP q := List.countP_pos_iff.mpr ⟨(k, v), hmem, hq⟩
          simp only [hit_some, hq, if_true]
          omega
        · simp [hq]

theorem countP_insert {m : Map α β} (hn : NoDupKeys m) (q : α × β → Bool) (k : α) (v : β) :
    (insert m k v).countP q =
      (if q (k, v) then 1 else 0) + (m.countP q - hit q k (get? m k)) := by
  unfold insert
  rw [List.countP_cons, countP_erase hn]
  omega

theorem countP_eraseP (m : Map α β) (q : α × β → Bool) (p : α → Bool) :
    (eraseP m p).countP q = m.countP (fun e => q e && !(p e.1)) := by
  unfold eraseP
  rw [List.countP_filter]

theorem countP_pos_of_get? {m : Map α β} {k : α} {v : β} (h : get? m k = some v)
    (q : α × β → Bool) (hq : q (k, v) = true) : 0 < m.countP q :=
  List.countP_pos_iff.mpr ⟨(k, v), get?_some_mem h, hq⟩

end Map
end Gribi
