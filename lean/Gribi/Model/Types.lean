/-
Shared types of the gribigo model. Core Lean only.
-/
import Gribi.Model.Map
namespace Gribi

/-- A network-instance name. -/
abbrev NI := String

/-- Key of an AFT entry inside one network instance. MPLS labels carry the *wire* value
(a `uint64` on the wire; the Go code stores a `uint32`). -/
inductive Key where
  | v4 (p : String)
  | v6 (p : String)
  | mpls (l : Nat)
  | nhg (id : Nat)
  | nh (idx : Nat)
  deriving DecidableEq, Repr, Inhabited

def Key.isTop : Key → Bool
  | .v4 _ | .v6 _ | .mpls _ => true
  | _ => false

/-- table index: 0 v4, 1 v6, 2 mpls, 3 nhg, 4 nh -/
def Key.table : Key → Nat
  | .v4 _ => 0 | .v6 _ => 1 | .mpls _ => 2 | .nhg _ => 3 | .nh _ => 4

/-- What an entry carries. Only the *references* are structured; everything else is the
opaque canonical rendering `body` of the protobuf payload. -/
structure Payload where
  /-- top-level entries: referenced next-hop-group id -/
  grp : Nat := 0
  /-- top-level entries: network instance of the group, `""` = the entry's own -/
  grpNI : NI := ""
  /-- next-hop-groups: the next-hop indices listed (as listed; may repeat) -/
  nhs : List Nat := []
  /-- next-hop-groups: backup group id (0 = none). Never checked for resolution. -/
  backup : Nat := 0
  /-- canonical rendering of the whole payload -/
  body : String := ""
  deriving DecidableEq, Repr, Inhabited

inductive OpType where
  | add | replace | delete | invalid
  deriving DecidableEq, Repr, Inhabited

/-- Validity class of an operation's entry, supplied by the generator and checked by the
correspondence: `wf` = accepted by schema validation; `bad` = rejected in-band (schema
violation, nil key message, …); `noEntry` = no entry oneof at all (RPC-fatal). -/
inductive Cls where
  | wf | bad | noEntry
  deriving DecidableEq, Repr, Inhabited

/-- 128-bit election ids, two 64-bit words, high word first. -/
structure U128 where
  hi : UInt64
  lo : UInt64
  deriving DecidableEq, Repr, Inhabited

def U128.toNat (u : U128) : Nat := u.hi.toNat * 2 ^ 64 + u.lo.toNat
def U128.isZero (u : U128) : Bool := u.hi == 0 && u.lo == 0

structure Op where
  id : Nat
  ty : OpType
  ni : NI
  key : Key
  pl : Payload
  cls : Cls := .wf
  /-- election id stamped on the operation (server level) -/
  elec : Option U128 := none
  deriving DecidableEq, Repr, Inhabited

abbrev EKey := NI × Key

end Gribi
