/-
Model of the accounting of `client.Client` (client/gribiclient.go): Q / handleModifyRequest,
handleModifyResponse / clearPendingOp, the error slices and AwaitConverged's test. The handlers
run under `awaiting.RLock` and the convergence test under `awaiting.Lock`, so each is one atomic
step here (the lock discipline itself is C11/C14's business). Core Lean only.
-/
import Gribi.Model.Map
namespace Gribi.Cl

/-- `AFTResult.status` -/
inductive Status where
  | failed | rib | fib | fibFailed | other
  deriving DecidableEq, Repr, Inhabited

/-- what the client remembers of a queued operation: its type and key (`OpDetailsResults`) -/
structure OpInfo where
  ty : Nat
  kind : Nat
  key : String
  deriving DecidableEq, Repr, Inhabited

/-- a ModifyRequest as far as the accounting looks -/
structure Req where
  ops : List (Nat × OpInfo) := []
  elec : Bool := false
  params : Bool := false
  deriving DecidableEq, Repr, Inhabited

/-- a ModifyResponse -/
structure Resp where
  results : List (Nat × Status) := []
  /-- the `result` field is non-nil (an empty, non-nil list counts as populated) -/
  hasResults : Bool := false
  elec : Bool := false
  params : Bool := false
  deriving DecidableEq, Repr, Inhabited

/-- `client.OpResult` essentials -/
structure Res where
  opId : Nat := 0
  status : Option Status := none
  details : Option OpInfo := none
  isElec : Bool := false
  isParams : Bool := false
  clientErr : Bool := false
  deriving DecidableEq, Repr, Inhabited

structure State where
  /-- the client negotiated RIB_AND_FIB_ACK -/
  fibMode : Bool := false
  sending : Bool := false
  /-- requests queued while not sending -/
  sendq : List Req := []
  pendOps : Map Nat OpInfo := []
  pendElec : Bool := false
  pendParams : Bool := false
  /-- `none` = the nil entry the code appends when `clearPendingOp` fails -/
  results : List (Option Res) := []
  sendErrs : Nat := 0
  recvErrs : Nat := 0
  /-- ghost (not in the Go code, never read by the model): log of the operations accepted into
  the pending set since the last Reset -/
  accepted : List (Nat × OpInfo) := []
  /-- ghost: ids whose results the application has acknowledged (`AckResult`), i.e. taken off the
  result queue itself -/
  ackedByApp : List Nat := []
  deriving Repr, Inhabited

/-- `addPendingOp` over the operations of a request, stopping at the first duplicate id -/
def addOps (pend : Map Nat OpInfo) (log : List (Nat × OpInfo)) :
    List (Nat × OpInfo) → Map Nat OpInfo × List (Nat × OpInfo) × Bool
  | [] => (pend, log, true)
  | (id, info) :: rest =>
    if pend.has id then (pend, log, false)
    else addOps (pend.insert id info) (log ++ [(id, info)]) rest

/-- `Q`: `handleModifyRequest` then queue or hand to the sender -/
def q (s : State) (m : Req) : State :=
  let (pend, log, ok) := addOps s.pendOps s.accepted m.ops
  let s1 := if ok then
      { s with pendOps := pend, accepted := log, pendElec := s.pendElec || m.elec, pendParams := s.pendParams || m.params }
    else { s with pendOps := pend, accepted := log, sendErrs := s.sendErrs + 1 }
  if s1.sending then s1 else { s1 with sendq := s1.sendq ++ [m] }

/-- `StartSending` after the initial parameters / election messages were queued by it -/
def startSending (s : State) : State := { s with sending := true, sendq := [] }

/-- a status removes the operation from the pending set -/
def terminal (fibMode : Bool) : Status → Bool
  | .failed | .fib | .fibFailed => true
  | .rib => !fibMode
  | .other => false

/-- `clearPendingOp` -/
def clearOp (s : State) (r : Nat × Status) : State × Bool :=
  match s.pendOps.get? r.1 with
  | none =>
    if r.2 = .rib ∧ s.fibMode then
      -- permissive: a RIB ack for an operation already dequeued in FIB mode
      ({ s with results := s.results ++ [some { opId := r.1, status := some r.2 }] }, true)
    else ({ s with results := s.results ++ [none] }, false)
  | some info =>
    let pend := if terminal s.fibMode r.2 then s.pendOps.erase r.1 else s.pendOps
    ({ s with pendOps := pend, results := s.results ++ [some { opId := r.1, status := some r.2, details := some info }] }, true)

def clearOps (s : State) : List (Nat × Status) → State × Bool
  | [] => (s, true)
  | r :: rest =>
    let (s1, ok) := clearOp s r
    if ok then clearOps s1 rest else (s1, false)

/-- an election response clears the pending election (a result flagged as a client error if
none was pending) -/
def noteElec (s : State) (m : Resp) : State :=
  if m.elec then
    { s with pendElec := false, results := s.results ++ [some { isElec := true, clientErr := !s.pendElec }] }
  else s

def noteParams (s : State) (m : Resp) : State :=
  if m.params then
    { s with pendParams := false, results := s.results ++ [some { isParams := true, clientErr := !s.pendParams }] }
  else s

/-- how many of result / election id / session-parameters result are populated -/
def populated (m : Resp) : Nat :=
  (if m.hasResults then 1 else 0) + (if m.elec then 1 else 0) + (if m.params then 1 else 0)

/-- `handleModifyResponse`; the Bool says whether the receiver keeps running -/
def recv (s : State) (m : Resp) : State × Bool :=
  if populated m > 1 then ({ s with recvErrs := s.recvErrs + 1 }, false)
  else
    let r := clearOps (noteParams (noteElec s m) m) m.results
    if r.2 then (r.1, true) else ({ r.1 with recvErrs := r.1.recvErrs + 1 }, false)

def recvErr (s : State) : State := { s with recvErrs := s.recvErrs + 1 }
def sendErr (s : State) : State := { s with sendErrs := s.sendErrs + 1 }

inductive Await where
  | converged
  | errors (send recv : Nat)
  | notYet
  deriving DecidableEq, Repr, Inhabited

/-- one round of `AwaitConverged` -/
def await (s : State) : Await :=
  if s.sendErrs ≠ 0 ∨ s.recvErrs ≠ 0 then .errors s.sendErrs s.recvErrs
  else if s.sendq = [] ∧ s.pendOps = [] ∧ !s.pendElec ∧ !s.pendParams then .converged
  else .notYet

/-- `AckResult`: the results of the named operations leave the result queue (the nil entries a
failed dequeue left behind stay) -/
def ack (s : State) (ids : List Nat) : State :=
  { s with results := s.results.filter (fun r => match r with | some x => !ids.contains x.opId | none => true),
           ackedByApp := ids ++ s.ackedByApp }

/-- `Reset` -/
def reset (s : State) : State := { fibMode := s.fibMode }

inductive Ev where
  | q (m : Req) | startSending | recv (m : Resp) | recvErr | sendErr | reset
  deriving Repr, Inhabited

def step (s : State) : Ev → State
  | .q m => q s m
  | .startSending => startSending s
  | .recv m => (recv s m).1
  | .recvErr => recvErr s
  | .sendErr => sendErr s
  | .reset => reset s

def run (s : State) (evs : List Ev) : State := evs.foldl step s

end Gribi.Cl
