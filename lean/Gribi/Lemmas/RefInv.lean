/-
The reference-counter invariant of the RIB model: every counter equals the number of
installed referrers, after any history.
-/
import Gribi.Lemmas.Counters
namespace Gribi.Rib

/-- `e` is a top-level entry pointing at group `(ni, g)` -/
def qNhg (ni : NI) (g : Nat) (e : EKey × Payload) : Bool :=
  e.1.2.isTop && (tgtNI e.1.1 e.2 == ni && e.2.grp == g)

def isNhgKey : Key → Bool
  | .nhg _ => true
  | _ => false

/-- `e` is a group of instance `ni` containing next-hop `n` -/
def qNh (ni : NI) (n : Nat) (e : EKey × Payload) : Bool :=
  isNhgKey e.1.2 && (e.1.1 == ni && e.2.nhs.contains n)

def nhgReferrers (ents : Map EKey Payload) (ni : NI) (g : Nat) : Nat := ents.countP (qNhg ni g)
def nhReferrers (ents : Map EKey Payload) (ni : NI) (n : Nat) : Nat := ents.countP (qNh ni n)

structure Inv (s : Rib) : Prop where
  nodup : Map.NoDupKeys s.ents
  wf : ∀ k p, s.ents.get? k = some p → s.hasNI k.1 = true ∧ (k.2.isTop = true → s.hasNI (tgtNI k.1 p) = true)
  nhg : ∀ ni g, cnt s.nhgRef (ni, g) = nhgReferrers s.ents ni g
  nh : ∀ ni n, cnt s.nhRef (ni, n) = nhReferrers s.ents ni n

theorem inv_new (d : NI) (f : Bool) : Inv (Rib.new d f) := by
  refine ⟨Map.nodup_nil, ?_, ?_, ?_⟩
  · intro k p h; simp [Rib.new] at h
  · intro ni g; simp [Rib.new, cnt, nhgReferrers]
  · intro ni n; simp [Rib.new, cnt, nhReferrers]

theorem qNhg_iff (x : CKey) (k : EKey) (p : Payload) :
    qNhg x.1 x.2 (k, p) = true ↔ (k.2.isTop = true ∧ x = (tgtNI k.1 p, p.grp)) := by
  unfold qNhg
  simp only [Bool.and_eq_true, beq_iff_eq]
  constructor
  · rintro ⟨h1, h2, h3⟩
    exact ⟨h1, Prod.ext h2.symm h3.symm⟩
  · rintro ⟨h1, h2⟩
    subst h2
    exact ⟨h1, rfl, rfl⟩

theorem qNh_iff (x : CKey) (k : EKey) (p : Payload) :
    qNh x.1 x.2 (k, p) = true ↔ (isNhgKey k.2 = true ∧ x.1 = k.1 ∧ x.2 ∈ p.nhs) := by
  unfold qNh
  simp only [Bool.and_eq_true, beq_iff_eq, List.contains_iff_mem]
  constructor
  · rintro ⟨h1, h2, h3⟩; exact ⟨h1, h2.symm, h3⟩
  · rintro ⟨h1, h2, h3⟩; exact ⟨h1, h2.symm, h3⟩

theorem isTop_not_nhg {k : Key} (h : k.isTop = true) : isNhgKey k = false := by
  cases k <;> simp_all [Key.isTop, isNhgKey]

theorem reref_top {key : Key} (h : key.isTop = true) (s : Rib) (ni : NI) (old : Option Payload) (new : Payload) :
    reref s ni key old new =
      (match old with
       | none => incG s ni new
       | some o => if o.grpNI = new.grpNI ∧ o.grp = new.grp then s else incG (decG s ni o) ni new) := by
  cases key <;> simp_all [reref, Key.isTop] <;> (cases old <;> rfl)

theorem unref_top {key : Key} (h : key.isTop = true) (s : Rib) (ni : NI) (p : Payload) :
    unref s ni key p = decG s ni p := by
  cases key <;> simp_all [unref, Key.isTop]

theorem cnt_incG (s : Rib) (ni : NI) (p : Payload) (h : s.hasNI (tgtNI ni p) = true) (x : CKey) :
    cnt (incG s ni p).nhgRef x = cnt s.nhgRef x + (if x = (tgtNI ni p, p.grp) then 1 else 0) := by
  unfold incG
  simp only [h, if_true]
  exact cnt_inc _ _ _

theorem cnt_decG (s : Rib) (ni : NI) (p : Payload) (h : s.hasNI (tgtNI ni p) = true) (x : CKey) :
    cnt (decG s ni p).nhgRef x = cnt s.nhgRef x - (if x = (tgtNI ni p, p.grp) then 1 else 0) := by
  unfold decG
  simp only [h, if_true]
  exact cnt_dec _ _ _

@[simp] theorem decG_hasNI (s : Rib) (ni : NI) (p : Payload) (n : NI) : (decG s ni p).hasNI n = s.hasNI n := by
  simp [hasNI]
@[simp] theorem incG_hasNI (s : Rib) (ni : NI) (p : Payload) (n : NI) : (incG s ni p).hasNI n = s.hasNI n := by
  simp [hasNI]

/-- the referrer count of an entry already in the map is at least one -/
theorem referrers_pos {ents : Map EKey Payload} {k : EKey} {o : Payload} (h : ents.get? k = some o)
    (q : EKey × Payload → Bool) (hq : q (k, o) = true) : 1 ≤ ents.countP q :=
  Map.countP_pos_of_get? h q hq

end Gribi.Rib

namespace Gribi.Rib

theorem install_eq (s : Rib) (op : Op) :
    (install s op).1 = reref { s with ents := s.ents.insert (op.ni, op.key) op.pl } op.ni op.key
      (s.ents.get? (op.ni, op.key)) op.pl := rfl

theorem classify_ok_tgt {s : Rib} {op : Op} (hTop : op.key.isTop = true) (hc : classify s op = .ok)
    (hni : s.hasNI op.ni = true) : s.hasNI (tgtNI op.ni op.pl) = true := by
  unfold classify at hc
  split at hc
  · cases hc
  · split at hc
    · cases hc
    · cases hk : op.key <;> simp [hk, Key.isTop] at hTop hc <;>
      · unfold tgtNI
        by_cases hg : op.pl.grpNI = ""
        · simp [hg, hni]
        · simp only [hg, if_false]
          split at hc
          · cases hc
          · split at hc
            · cases hc
            · rename_i h2
              simp only [not_and] at h2
              simpa using h2 hg

@[simp] theorem reref_hasNI (s : Rib) (ni : NI) (k : Key) (o : Option Payload) (p : Payload) (n : NI) :
    (reref s ni k o p).hasNI n = s.hasNI n := by simp [hasNI]

theorem reref_nhRef_top {key : Key} (h : key.isTop = true) (s : Rib) (ni : NI) (old : Option Payload) (new : Payload) :
    (reref s ni key old new).nhRef = s.nhRef := by
  rw [reref_top h]
  cases old with
  | none => simp
  | some o => simp only; split <;> simp

theorem reref_nhgRef_nontop {key : Key} (h : key.isTop = false) (s : Rib) (ni : NI) (old : Option Payload) (new : Payload) :
    (reref s ni key old new).nhgRef = s.nhgRef := by
  cases key <;> simp_all [reref, Key.isTop]

/-- for a top-level key the referrer test is an equation between counter keys -/
theorem qNhg_top {key : Key} (hTop : key.isTop = true) (x : CKey) (kni : NI) (p : Payload) :
    qNhg x.1 x.2 ((kni, key), p) = decide (x = (tgtNI kni p, p.grp)) := by
  rw [Bool.eq_iff_iff]
  simp only [decide_eq_true_eq]
  have := qNhg_iff x (kni, key) p
  simp only [hTop, true_and] at this
  exact this

theorem qNhg_nontop {key : Key} (hTop : key.isTop = false) (ni : NI) (g : Nat) (kni : NI) (p : Payload) :
    qNhg ni g ((kni, key), p) = false := by
  unfold qNhg; simp [hTop]

theorem qNh_nhg (x : CKey) (kni : NI) (g : Nat) (p : Payload) :
    qNh x.1 x.2 ((kni, Key.nhg g), p) = decide (x.1 = kni ∧ x.2 ∈ p.nhs) := by
  rw [Bool.eq_iff_iff]
  simp only [decide_eq_true_eq]
  have := qNh_iff x (kni, Key.nhg g) p
  simp only [isNhgKey, true_and] at this
  exact this

theorem qNh_nonnhg {key : Key} (h : isNhgKey key = false) (ni : NI) (n : Nat) (kni : NI) (p : Payload) :
    qNh ni n ((kni, key), p) = false := by
  unfold qNh; simp [h]

theorem hit_const_false (q : EKey × Payload → Bool) (k : EKey) (o : Option Payload)
    (h : ∀ p, q (k, p) = false) : Map.hit q k o = 0 := by
  cases o <;> simp [h]

theorem hit_le {ents : Map EKey Payload} (q : EKey × Payload → Bool) (k : EKey) :
    Map.hit q k (ents.get? k) ≤ ents.countP q := by
  cases h : ents.get? k with
  | none => simp
  | some o =>
    simp only [Map.hit_some]
    by_cases hq : q (k, o) = true
    · simp only [hq, if_true]; exact referrers_pos h q hq
    · simp [hq]

theorem inv_install {s : Rib} {op : Op} (hi : Inv s) (hc : classify s op = .ok)
    (hni : s.hasNI op.ni = true) : Inv (install s op).1 := by
  have hents : (install s op).1.ents = s.ents.insert (op.ni, op.key) op.pl := install_ents s op
  have hnodup : Map.NoDupKeys (install s op).1.ents := by
    rw [hents]; exact Map.nodup_insert hi.nodup _ _
  have hhas : ∀ n, (install s op).1.hasNI n = s.hasNI n := by intro n; simp [hasNI]
  have hwf : ∀ k p, (install s op).1.ents.get? k = some p →
      (install s op).1.hasNI k.1 = true ∧ (k.2.isTop = true → (install s op).1.hasNI (tgtNI k.1 p) = true) := by
    intro k p hg
    rw [hents, Map.get?_insert] at hg
    rw [hhas, hhas]
    split at hg
    · rename_i hk
      cases hg
      subst hk
      exact ⟨hni, fun hT => classify_ok_tgt hT hc hni⟩
    · exact hi.wf k p hg
  have hR : ∀ q : EKey × Payload → Bool,
      (install s op).1.ents.countP q =
        (if q ((op.ni, op.key), op.pl) then 1 else 0) +
          (s.ents.countP q - Map.hit q (op.ni, op.key) (s.ents.get? (op.ni, op.key))) := by
    intro q; rw [hents]; exact Map.countP_insert hi.nodup q (op.ni, op.key) op.pl
  by_cases hTop : op.key.isTop = true
  · -- top-level entry
    have hNhgK : isNhgKey op.key = false := isTop_not_nhg hTop
    refine ⟨hnodup, hwf, ?_, ?_⟩
    · intro ni g
      have hle := hit_le (ents := s.ents) (qNhg ni g) (op.ni, op.key)
      unfold nhgReferrers
      rw [hR, install_eq, reref_top hTop]
      have htn := classify_ok_tgt hTop hc hni
      have hcnt := hi.nhg ni g
      unfold nhgReferrers at hcnt
      cases hold : s.ents.get? (op.ni, op.key) with
      | none =>
        simp only
        rw [cnt_incG _ _ _ (by simpa [hasNI] using htn)]
        show cnt s.nhgRef (ni, g) + _ = _
        rw [hcnt, qNhg_top hTop (ni, g)]
        simp only [Map.hit_none, decide_eq_true_eq]
        omega
      | some o =>
        have hto := (hi.wf _ _ hold).2 hTop
        rw [hold] at hle
        simp only [Map.hit_some] at hle ⊢
        rw [qNhg_top hTop (ni, g)] at hle ⊢
        rw [qNhg_top hTop (ni, g)]
        simp only [decide_eq_true_eq] at hle ⊢
        by_cases hsame : o.grpNI = op.pl.grpNI ∧ o.grp = op.pl.grp
        · obtain ⟨h1, h2⟩ := hsame
          have e1 : tgtNI op.ni o = tgtNI op.ni op.pl := by unfold tgtNI; rw [h1]
          rw [e1, h2] at hle
          simp only [h1, h2, and_self, if_true, e1]
          show cnt s.nhgRef (ni, g) = _
          rw [hcnt]
          by_cases hb : (ni, g) = (tgtNI op.ni op.pl, op.pl.grp) <;>
            simp only [hb, if_true, if_false] at hle ⊢ <;> omega
        · simp only [hsame, if_false]
          rw [cnt_incG _ _ _ (by simpa [hasNI] using htn), cnt_decG _ _ _ (by simpa [hasNI] using hto)]
          show cnt s.nhgRef (ni, g) - _ + _ = _
          rw [hcnt]
          by_cases ha : (ni, g) = (tgtNI op.ni o, o.grp) <;> by_cases hb : (ni, g) = (tgtNI op.ni op.pl, op.pl.grp) <;>
            simp only [ha, hb, if_true, if_false] at hle ⊢ <;> omega
    · intro ni n
      unfold nhReferrers
      rw [hR, install_eq, reref_nhRef_top hTop]
      show cnt s.nhRef (ni, n) = _
      rw [qNh_nonnhg hNhgK, hit_const_false _ _ _ (fun p => qNh_nonnhg hNhgK ni n op.ni p)]
      simp only [Bool.false_eq_true, if_false, Nat.zero_add, Nat.sub_zero]
      exact hi.nh ni n
  · -- next-hop-group or next-hop
    have hTop' : op.key.isTop = false := by simpa using hTop
    refine ⟨hnodup, hwf, ?_, ?_⟩
    · intro ni g
      unfold nhgReferrers
      rw [hR, install_eq, reref_nhgRef_nontop hTop']
      show cnt s.nhgRef (ni, g) = _
      rw [qNhg_nontop hTop', hit_const_false _ _ _ (fun p => qNhg_nontop hTop' ni g op.ni p)]
      simp only [Bool.false_eq_true, if_false, Nat.zero_add, Nat.sub_zero]
      exact hi.nhg ni g
    · intro ni n
      have hle := hit_le (ents := s.ents) (qNh ni n) (op.ni, op.key)
      have hcnt := hi.nh ni n
      unfold nhReferrers at hcnt ⊢
      rw [hR, install_eq]
      cases hk : op.key with
      | v4 p => simp [hk, Key.isTop] at hTop'
      | v6 p => simp [hk, Key.isTop] at hTop'
      | mpls l => simp [hk, Key.isTop] at hTop'
      | nh i =>
        simp only [reref]
        show cnt s.nhRef (ni, n) = _
        have hK : isNhgKey (Key.nh i) = false := rfl
        rw [qNh_nonnhg hK, hit_const_false _ _ _ (fun p => qNh_nonnhg hK ni n op.ni p)]
        simp only [Bool.false_eq_true, if_false, Nat.zero_add, Nat.sub_zero]
        exact hcnt
      | nhg g =>
        rw [hk] at hle
        simp only [reref]
        cases hold : s.ents.get? (op.ni, Key.nhg g) with
        | none =>
          simp only
          show cnt (incL s.nhRef op.ni (dedup op.pl.nhs)) (ni, n) = _
          rw [cnt_incL _ _ _ (nodup_dedup _), hcnt, qNh_nhg (ni, n)]
          simp only [mem_dedup, Map.hit_none, decide_eq_true_eq]
          omega
        | some o =>
          rw [hold] at hle
          simp only [Map.hit_some] at hle ⊢
          show cnt (decL (incL s.nhRef op.ni (dedup op.pl.nhs)) op.ni (dedup o.nhs)) (ni, n) = _
          rw [cnt_decL _ _ _ (nodup_dedup _), cnt_incL _ _ _ (nodup_dedup _), hcnt, qNh_nhg (ni, n), qNh_nhg (ni, n)]
          rw [qNh_nhg (ni, n)] at hle
          simp only [mem_dedup, decide_eq_true_eq] at hle ⊢
          by_cases h1 : ni = op.ni ∧ n ∈ op.pl.nhs <;> by_cases h2 : ni = op.ni ∧ n ∈ o.nhs <;>
            simp only [h1, h2, if_true, if_false] at hle ⊢ <;> omega

end Gribi.Rib

namespace Gribi.Rib

/-! ### delete and flush -/

theorem cnt_unref_nhg (s : Rib) (ni : NI) (key : Key) (p : Payload) (x : CKey)
    (h : key.isTop = true → s.hasNI (tgtNI ni p) = true) :
    cnt (unref s ni key p).nhgRef x = cnt s.nhgRef x - (if qNhg x.1 x.2 ((ni, key), p) then 1 else 0) := by
  by_cases hTop : key.isTop = true
  · rw [unref_top hTop, cnt_decG _ _ _ (h hTop), qNhg_top hTop x]
    simp
  · have hTop' : key.isTop = false := by simpa using hTop
    rw [qNhg_nontop hTop']
    cases key <;> simp_all [unref, Key.isTop]

theorem cnt_unref_nh (s : Rib) (ni : NI) (key : Key) (p : Payload) (x : CKey) :
    cnt (unref s ni key p).nhRef x = cnt s.nhRef x - (if qNh x.1 x.2 ((ni, key), p) then 1 else 0) := by
  cases key with
  | nhg g =>
    simp only [unref]
    rw [cnt_decL _ _ _ (nodup_dedup _), qNh_nhg x]
    simp [mem_dedup]
  | nh i => simp [unref, qNh, isNhgKey]
  | v4 p' => rw [unref_top rfl]; simp [qNh, isNhgKey]
  | v6 p' => rw [unref_top rfl]; simp [qNh, isNhgKey]
  | mpls l => rw [unref_top rfl]; simp [qNh, isNhgKey]

@[simp] theorem unref_hasNI (s : Rib) (ni : NI) (k : Key) (p : Payload) (n : NI) :
    (unref s ni k p).hasNI n = s.hasNI n := by simp [hasNI]

/-- removing one installed entry keeps the invariant -/
theorem inv_remove {s : Rib} (hi : Inv s) {k : EKey} {p : Payload} (hg : s.ents.get? k = some p) :
    Inv { (unref s k.1 k.2 p) with ents := (unref s k.1 k.2 p).ents.erase k } := by
  have hw := hi.wf k p hg
  refine ⟨?_, ?_, ?_, ?_⟩
  · simp only [unref_ents]; exact Map.nodup_erase hi.nodup k
  · intro k' p' hg'
    simp only [unref_ents, Map.get?_erase] at hg'
    split at hg'
    · cases hg'
    · have := hi.wf k' p' hg'
      simpa [hasNI] using this
  · intro ni g
    show cnt (unref s k.1 k.2 p).nhgRef (ni, g) = nhgReferrers ((unref s k.1 k.2 p).ents.erase k) ni g
    rw [cnt_unref_nhg _ _ _ _ _ hw.2, hi.nhg ni g]
    unfold nhgReferrers
    simp only [unref_ents]
    rw [Map.countP_erase hi.nodup, hg]
    simp
  · intro ni n
    show cnt (unref s k.1 k.2 p).nhRef (ni, n) = nhReferrers ((unref s k.1 k.2 p).ents.erase k) ni n
    rw [cnt_unref_nh, hi.nh ni n]
    unfold nhReferrers
    simp only [unref_ents]
    rw [Map.countP_erase hi.nodup, hg]
    simp

theorem inv_del {s : Rib} (hi : Inv s) (op : Op) : Inv (del s op).1 := by
  unfold del
  split
  · exact hi
  · split
    · exact hi
    · exact hi
    · exact hi
    · split
      · exact hi
      · rename_i p hg
        exact inv_remove hi (k := (op.ni, op.key)) hg

/-- counters after un-referencing a list of entries of instance `ni` -/
theorem cnt_foldl_unref (ni : NI) (l : List (EKey × Payload)) (s : Rib)
    (hl : ∀ e ∈ l, e.1.1 = ni ∧ (e.1.2.isTop = true → s.hasNI (tgtNI ni e.2) = true)) (x : CKey) :
    cnt (l.foldl (fun s e => unref s ni e.1.2 e.2) s).nhgRef x = cnt s.nhgRef x - l.countP (qNhg x.1 x.2) ∧
    cnt (l.foldl (fun s e => unref s ni e.1.2 e.2) s).nhRef x = cnt s.nhRef x - l.countP (qNh x.1 x.2) ∧
    (l.foldl (fun s e => unref s ni e.1.2 e.2) s).ents = s.ents ∧
    (l.foldl (fun s e => unref s ni e.1.2 e.2) s).nis = s.nis := by
  induction l generalizing s with
  | nil => simp
  | cons e t ih =>
    simp only [List.foldl]
    have he := hl e List.mem_cons_self
    have ht : ∀ e' ∈ t, e'.1.1 = ni ∧ (e'.1.2.isTop = true → (unref s ni e.1.2 e.2).hasNI (tgtNI ni e'.2) = true) := by
      intro e' he'
      have := hl e' (List.mem_cons_of_mem _ he')
      simpa using this
    obtain ⟨h1, h2, h3, h4⟩ := ih (unref s ni e.1.2 e.2) ht
    refine ⟨?_, ?_, ?_, ?_⟩
    · rw [h1, cnt_unref_nhg _ _ _ _ _ he.2, List.countP_cons]
      have : ((ni, e.1.2), e.2) = e := by
        obtain ⟨⟨a, b⟩, c⟩ := e
        simp at he
        simp [he.1]
      rw [this]
      omega
    · rw [h2, cnt_unref_nh, List.countP_cons]
      have : ((ni, e.1.2), e.2) = e := by
        obtain ⟨⟨a, b⟩, c⟩ := e
        simp at he
        simp [he.1]
      rw [this]
      omega
    · rw [h3]; simp
    · rw [h4]; simp

theorem countP_split (l : List (EKey × Payload)) (q p : EKey × Payload → Bool) :
    l.countP (fun e => q e && !(p e)) = l.countP q - (l.filter p).countP q := by
  induction l with
  | nil => simp
  | cons e t ih =>
    have hle : (t.filter p).countP q ≤ t.countP q := by
      rw [List.countP_filter]
      apply List.countP_mono_left
      intro x _ hx
      simp only [Bool.and_eq_true] at hx
      exact hx.1
    simp only [List.countP_cons, List.filter_cons, ih]
    by_cases hp : p e = true <;> by_cases hq : q e = true <;> simp [hp, hq, List.countP_cons] <;> omega

theorem inv_flushNI {s : Rib} (hi : Inv s) (ni : NI) : Inv (flushNI s ni).1 := by
  unfold flushNI
  simp only
  have hl : ∀ e ∈ s.entsOf ni, e.1.1 = ni ∧ (e.1.2.isTop = true → s.hasNI (tgtNI ni e.2) = true) := by
    intro e he
    unfold entsOf at he
    have hm := (List.mem_filter.mp he)
    have hni : e.1.1 = ni := by simpa using hm.2
    refine ⟨hni, fun hT => ?_⟩
    have hg : s.ents.get? e.1 = some e.2 := Map.get?_of_mem_nodup hi.nodup (by simpa using hm.1)
    have := (hi.wf e.1 e.2 hg).2 hT
    rwa [hni] at this
  have key := fun x => cnt_foldl_unref ni (s.entsOf ni) s hl x
  obtain ⟨_, _, h3, h4⟩ := key ("", 0)
  refine ⟨?_, ?_, ?_, ?_⟩
  · simp only [h3]; exact Map.nodup_eraseP hi.nodup _
  · intro k p hg
    simp only [h3, Map.get?_eraseP] at hg
    split at hg
    · cases hg
    · have := hi.wf k p hg
      simpa [hasNI, h4] using this
  · intro n g
    dsimp only
    rw [(key (n, g)).1, h3, hi.nhg n g]
    unfold nhgReferrers
    rw [Map.countP_eraseP]
    unfold entsOf
    exact (countP_split s.ents (qNhg n g) (fun e => e.1.1 == ni)).symm
  · intro n i
    dsimp only
    rw [(key (n, i)).2.1, h3, hi.nh n i]
    unfold nhReferrers
    rw [Map.countP_eraseP]
    unfold entsOf
    exact (countP_split s.ents (qNh n i) (fun e => e.1.1 == ni)).symm

theorem inv_flush {s : Rib} (hi : Inv s) (nis : List NI) : Inv (flush s nis).1 := by
  induction nis generalizing s with
  | nil => exact hi
  | cons ni rest ih =>
    simp only [flush]
    exact ih (inv_flushNI hi ni)

end Gribi.Rib
