/-
Counter arithmetic for the reference counters of the RIB model.
-/
import Gribi.Lemmas.RibBasic
namespace Gribi.Rib

abbrev CKey := NI × Nat

theorem cnt_inc (m : Map CKey Nat) (a x : CKey) :
    cnt (inc m a) x = cnt m x + (if x = a then 1 else 0) := by
  unfold inc cnt
  rw [Map.get?_insert]
  by_cases h : a = x
  · subst h; simp
  · have : ¬ x = a := fun h' => h h'.symm
    simp [h, this]

/-- holds unconditionally with truncated subtraction: the clamp at zero is the same thing -/
theorem cnt_dec (m : Map CKey Nat) (a x : CKey) :
    cnt (dec m a) x = cnt m x - (if x = a then 1 else 0) := by
  unfold dec
  by_cases h0 : cnt m a = 0
  · simp only [h0, if_true]
    by_cases h : x = a
    · subst h; simp [h0]
    · simp [h]
  · simp only [h0, if_false]
    unfold cnt
    rw [Map.get?_insert]
    by_cases h : a = x
    · subst h; simp
    · have : ¬ x = a := fun h' => h h'.symm
      simp [h, this]

theorem cnt_incL (m : Map CKey Nat) (ni : NI) (l : List Nat) (hn : l.Nodup) (x : CKey) :
    cnt (incL m ni l) x = cnt m x + (if x.1 = ni ∧ x.2 ∈ l then 1 else 0) := by
  induction l generalizing m with
  | nil => simp [incL]
  | cons n t ih =>
    simp only [incL, List.foldl] at ih ⊢
    have hn' := List.nodup_cons.mp hn
    rw [ih _ hn'.2, cnt_inc]
    by_cases hx : x = (ni, n)
    · subst hx
      simp [hn'.1]
    · have : ¬ (x.1 = ni ∧ x.2 = n) := fun h => hx (Prod.ext h.1 h.2)
      by_cases h1 : x.1 = ni
      · have h2 : x.2 ≠ n := fun h => this ⟨h1, h⟩
        simp [hx, h1, h2]
      · simp [hx, h1]

theorem cnt_decL (m : Map CKey Nat) (ni : NI) (l : List Nat) (hn : l.Nodup) (x : CKey) :
    cnt (decL m ni l) x = cnt m x - (if x.1 = ni ∧ x.2 ∈ l then 1 else 0) := by
  induction l generalizing m with
  | nil => simp [decL]
  | cons n t ih =>
    simp only [decL, List.foldl] at ih ⊢
    have hn' := List.nodup_cons.mp hn
    rw [ih _ hn'.2, cnt_dec]
    by_cases hx : x = (ni, n)
    · subst hx
      simp [hn'.1]
    · have : ¬ (x.1 = ni ∧ x.2 = n) := fun h => hx (Prod.ext h.1 h.2)
      by_cases h1 : x.1 = ni
      · have h2 : x.2 ≠ n := fun h => this ⟨h1, h⟩
        simp [hx, h1, h2]
      · simp [hx, h1]

theorem mem_dedup (l : List Nat) (n : Nat) : n ∈ dedup l ↔ n ∈ l := by
  induction l with
  | nil => simp [dedup]
  | cons a t ih =>
    unfold dedup
    by_cases h : t.contains a
    · simp only [h, if_true, ih, List.mem_cons]
      constructor
      · exact Or.inr
      · rintro (rfl | h')
        · simpa using h
        · exact h'
    · have h' : t.contains a = false := by simpa using h
      simp only [h', Bool.false_eq_true, if_false, List.mem_cons, ih]

theorem nodup_dedup (l : List Nat) : (dedup l).Nodup := by
  induction l with
  | nil => simp [dedup]
  | cons a t ih =>
    unfold dedup
    by_cases h : t.contains a
    · simp only [h, if_true]; exact ih
    · have h' : t.contains a = false := by simpa using h
      simp only [h', Bool.false_eq_true, if_false]
      refine List.nodup_cons.mpr ⟨?_, ih⟩
      rw [mem_dedup]
      simpa using h

end Gribi.Rib
