/-
Projection lemmas for the RIB model: which fields each helper touches.
-/
import Gribi.Model.Rib
import Gribi.Spec.RibSpec
namespace Gribi
open Rib

namespace Rib

@[simp] theorem decG_ents (s : Rib) (ni : NI) (p : Payload) : (decG s ni p).ents = s.ents := by
  unfold decG; split <;> rfl
@[simp] theorem incG_ents (s : Rib) (ni : NI) (p : Payload) : (incG s ni p).ents = s.ents := by
  unfold incG; split <;> rfl
@[simp] theorem decG_pend (s : Rib) (ni : NI) (p : Payload) : (decG s ni p).pend = s.pend := by
  unfold decG; split <;> rfl
@[simp] theorem incG_pend (s : Rib) (ni : NI) (p : Payload) : (incG s ni p).pend = s.pend := by
  unfold incG; split <;> rfl
@[simp] theorem decG_nis (s : Rib) (ni : NI) (p : Payload) : (decG s ni p).nis = s.nis := by
  unfold decG; split <;> rfl
@[simp] theorem incG_nis (s : Rib) (ni : NI) (p : Payload) : (incG s ni p).nis = s.nis := by
  unfold incG; split <;> rfl
@[simp] theorem decG_fwd (s : Rib) (ni : NI) (p : Payload) : (decG s ni p).fwd = s.fwd := by
  unfold decG; split <;> rfl
@[simp] theorem incG_fwd (s : Rib) (ni : NI) (p : Payload) : (incG s ni p).fwd = s.fwd := by
  unfold incG; split <;> rfl
@[simp] theorem decG_hook (s : Rib) (ni : NI) (p : Payload) : (decG s ni p).hook = s.hook := by
  unfold decG; split <;> rfl
@[simp] theorem incG_hook (s : Rib) (ni : NI) (p : Payload) : (incG s ni p).hook = s.hook := by
  unfold incG; split <;> rfl
@[simp] theorem decG_nhRef (s : Rib) (ni : NI) (p : Payload) : (decG s ni p).nhRef = s.nhRef := by
  unfold decG; split <;> rfl
@[simp] theorem incG_nhRef (s : Rib) (ni : NI) (p : Payload) : (incG s ni p).nhRef = s.nhRef := by
  unfold incG; split <;> rfl
@[simp] theorem decG_dflt (s : Rib) (ni : NI) (p : Payload) : (decG s ni p).dflt = s.dflt := by
  unfold decG; split <;> rfl
@[simp] theorem incG_dflt (s : Rib) (ni : NI) (p : Payload) : (incG s ni p).dflt = s.dflt := by
  unfold incG; split <;> rfl

@[simp] theorem unref_ents (s : Rib) (ni : NI) (k : Key) (p : Payload) : (unref s ni k p).ents = s.ents := by
  unfold unref; split <;> simp
@[simp] theorem unref_pend (s : Rib) (ni : NI) (k : Key) (p : Payload) : (unref s ni k p).pend = s.pend := by
  unfold unref; split <;> simp
@[simp] theorem unref_nis (s : Rib) (ni : NI) (k : Key) (p : Payload) : (unref s ni k p).nis = s.nis := by
  unfold unref; split <;> simp
@[simp] theorem unref_fwd (s : Rib) (ni : NI) (k : Key) (p : Payload) : (unref s ni k p).fwd = s.fwd := by
  unfold unref; split <;> simp
@[simp] theorem unref_hook (s : Rib) (ni : NI) (k : Key) (p : Payload) : (unref s ni k p).hook = s.hook := by
  unfold unref; split <;> simp
@[simp] theorem unref_dflt (s : Rib) (ni : NI) (k : Key) (p : Payload) : (unref s ni k p).dflt = s.dflt := by
  unfold unref; split <;> simp

@[simp] theorem reref_ents (s : Rib) (ni : NI) (k : Key) (o : Option Payload) (p : Payload) :
    (reref s ni k o p).ents = s.ents := by
  unfold reref; split
  · rfl
  · rfl
  · split
    · simp
    · split <;> simp
@[simp] theorem reref_pend (s : Rib) (ni : NI) (k : Key) (o : Option Payload) (p : Payload) :
    (reref s ni k o p).pend = s.pend := by
  unfold reref; split
  · rfl
  · rfl
  · split
    · simp
    · split <;> simp
@[simp] theorem reref_nis (s : Rib) (ni : NI) (k : Key) (o : Option Payload) (p : Payload) :
    (reref s ni k o p).nis = s.nis := by
  unfold reref; split
  · rfl
  · rfl
  · split
    · simp
    · split <;> simp
@[simp] theorem reref_fwd (s : Rib) (ni : NI) (k : Key) (o : Option Payload) (p : Payload) :
    (reref s ni k o p).fwd = s.fwd := by
  unfold reref; split
  · rfl
  · rfl
  · split
    · simp
    · split <;> simp
@[simp] theorem reref_hook (s : Rib) (ni : NI) (k : Key) (o : Option Payload) (p : Payload) :
    (reref s ni k o p).hook = s.hook := by
  unfold reref; split
  · rfl
  · rfl
  · split
    · simp
    · split <;> simp
@[simp] theorem reref_dflt (s : Rib) (ni : NI) (k : Key) (o : Option Payload) (p : Payload) :
    (reref s ni k o p).dflt = s.dflt := by
  unfold reref; split
  · rfl
  · rfl
  · split
    · simp
    · split <;> simp

@[simp] theorem install_ents (s : Rib) (op : Op) :
    (install s op).1.ents = s.ents.insert (op.ni, op.key) op.pl := by
  simp [install]
@[simp] theorem install_pend (s : Rib) (op : Op) : (install s op).1.pend = s.pend := by
  simp [install]
@[simp] theorem install_nis (s : Rib) (op : Op) : (install s op).1.nis = s.nis := by
  simp [install]
@[simp] theorem install_fwd (s : Rib) (op : Op) : (install s op).1.fwd = s.fwd := by
  simp [install]
@[simp] theorem install_hook (s : Rib) (op : Op) : (install s op).1.hook = s.hook := by
  simp [install]

end Rib

/-- extensional equality of maps -/
def MapEquiv {α β : Type} [DecidableEq α] (a b : Map α β) : Prop := ∀ k, a.get? k = b.get? k

infix:50 " ≃ₘ " => MapEquiv

namespace MapEquiv
variable {α β : Type} [DecidableEq α]
theorem refl (a : Map α β) : a ≃ₘ a := fun _ => rfl
theorem symm {a b : Map α β} (h : a ≃ₘ b) : b ≃ₘ a := fun k => (h k).symm
theorem trans {a b c : Map α β} (h1 : a ≃ₘ b) (h2 : b ≃ₘ c) : a ≃ₘ c := fun k => (h1 k).trans (h2 k)
theorem insert {a b : Map α β} (h : a ≃ₘ b) (k : α) (v : β) : a.insert k v ≃ₘ b.insert k v := by
  intro k'; simp [Map.get?_insert, h k']
theorem erase {a b : Map α β} (h : a ≃ₘ b) (k : α) : a.erase k ≃ₘ b.erase k := by
  intro k'; simp [Map.get?_erase, h k']
theorem eraseP {a b : Map α β} (h : a ≃ₘ b) (p : α → Bool) : a.eraseP p ≃ₘ b.eraseP p := by
  intro k'; simp [Map.get?_eraseP, h k']
end MapEquiv

end Gribi
