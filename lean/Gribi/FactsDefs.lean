/-
Expectations over the regenerated facts (`Gribi/Facts.lean`, re-extracted from /repo's sources on
every check run). Each is a decidable Boolean checked by kernel evaluation (`decide`); a code
change that breaks the locking discipline makes this file fail to compile.
-/
import Gribi.Facts
namespace Gribi.FactsOk
open Gribi.Facts

/-- the mutex that guards each shared field -/
def guardOf (field : String) : Option String :=
  if field = "Server.curElecID" ∨ field = "Server.curMaster" then some "elecMu"
  else if field = "Server.cs" then some "csMu"
  else if field = "RIB.niRIB" then some "nrMu"
  else if field = "RIB.pendingEntries" then some "pendMu"
  else if field = "RefCounter.NextHopGroup" ∨ field = "RefCounter.NextHop" then some "refCounts.mu"
  else if field = "Client.sendErr" then some "sendErrMu"
  else if field = "Client.readErr" then some "readErrMu"
  else if field = "Client.sendq" then some "sendMu"
  else if field = "Client.pendq" then some "pendMu"
  else if field = "Client.resultq" then some "resultMu"
  else none

/-- functions allowed to touch shared fields without the guard: constructors (the value is not yet
shared) and the test-only injection helpers of `FakeServer` -/
def exempt : List String := ["New", "NewRIBHolder", "FakeServer.InjectElectionID", "FakeServer.InjectRIB"]

def accessOk (a : Access) : Bool :=
  exempt.contains a.fn ||
  match guardOf a.field with
  | none => false
  | some m => a.locks.any (fun l => l.1 == m && (!a.write || l.2))

/-- every access to a shared field is under its mutex; every write under the exclusive mode -/
def guarded : Bool := accesses.all accessOk

/-- no channel send is performed while holding a mutex unless it can be abandoned -/
def sendsHaveStop : Bool := sends.all (fun s => s.hasAlt)

def succs (x : String) : List String := (lockEdges.filter (fun e => e.1 == x)).map (·.2)

/-- nodes reachable from `xs` in at most `fuel` steps -/
def reach : Nat → List String → List String
  | 0, xs => xs
  | n + 1, xs => reach n ((xs ++ xs.flatMap succs).eraseDups)

/-- the lock nesting graph has no cycle (self-edges never arise: distinct instances of one
mutex field are given one name) -/
def lockOrderAcyclic : Bool :=
  lockEdges.all (fun e => !((reach lockEdges.length [e.2]).contains e.1))

/-- the shared-field accesses the theorems rely on are actually there (guards against an
extractor that silently finds nothing) -/
def nonTrivial : Bool :=
  accesses.any (fun a => a.fn == "Server.runElection" && a.field == "Server.curElecID" && a.write) &&
  accesses.any (fun a => a.fn == "Server.getElection" && a.field == "Server.curElecID") &&
  accesses.any (fun a => a.field == "RIB.pendingEntries" && a.write) &&
  accesses.any (fun a => a.field == "Client.pendq" && a.write) && accesses.length > 60


/-- the operations that change the RIB are serialised by one mutex held for the whole call, so a
sequence of model steps (each atomic) is an adequate model of concurrent sessions (D20) -/
def txSerialised : Bool :=
  ["RIB.AddEntry", "RIB.DeleteEntry", "RIB.Flush"].all (fun f => fnLocks.contains (f, "txMu", true))

/-- the receiver and the sender record errors and process responses while holding the `awaiting`
lock, so `AwaitConverged` (which takes it exclusively) never observes a response half-processed:
drained queues but the error not yet recorded (the atomic-step assumption of the C13/C14 models) -/
def handlersAtomic : Bool :=
  (calls.filter (fun c => c.1 != "Client.Q")).all (fun c => c.2.2.1.any (fun l => l.1 == "awaiting")) &&
  calls.any (fun c => c.1 == "Client.Connect.func" && c.2.1 == "handleModifyResponse") &&
  calls.any (fun c => c.1 == "Client.Connect.func" && c.2.1 == "addReadErr") &&
  calls.any (fun c => c.1 == "Client.Connect.func" && c.2.1 == "addSendErr")

/-- no method calls, while holding a mutex of its receiver, another method of that receiver that
acquires the same mutex (a recursive read lock deadlocks as soon as a writer queues in between) -/
def noReentrantLock : Bool := reentrant.isEmpty

/-- a Get holds the instance's read lock from start until it returns: what it streams is one
state of the table (the assumption of the `GS` model and of C07 under concurrency) -/
def getHoldsLock : Bool := fnLocks.contains ("RIBHolder.GetRIB", "r.mu", false)

end Gribi.FactsOk
