/-
C18 — Fluent builders emit exactly what was set; unique ids; current election id.

The builders are modelled field by field (`Model/Fluent.lean`); the rendering of `OpProto`,
`EntryProto` and of every queued ModifyRequest is compared pair by pair with the real protobufs
on random programs (correspondence). Proved here: the client-side guarantees — ids, operation
type, election stamping — for every sequence of calls, and the frame/last-write laws of the
builder calls.
-/
import Gribi.Model.Fluent
namespace Gribi.C18
open Gribi.Fluent

/-- ids assigned by one `AddEntry`/`ReplaceEntry`/`DeleteEntry` call -/
def idsOf (fs : List Fields) : List (Option String) := fs.map (fun f => (f.find? (fun e => e.1 == "id")).map (·.2))

theorem modify_count (c : Client) (ty : Nat) (es : List Entry) :
    (c.modify ty es).1.opCount = c.opCount + es.length ∧ (c.modify ty es).2.length = es.length ∧
    (c.modify ty es).1.curElec = c.curElec ∧ (c.modify ty es).1.elected = c.elected := by
  induction es generalizing c with
  | nil => simp [Client.modify]
  | cons e rest ih =>
    simp only [Client.modify]
    obtain ⟨h1, h2, h3, h4⟩ := ih { c with opCount := c.opCount + 1 }
    refine ⟨?_, ?_, h3, h4⟩
    · rw [h1]; simp; omega
    · simp [h2]

/-- **C18 (ids).** The k-th operation of a call gets id `opCount + k + 1`: ids are distinct,
strictly increasing, and continue across calls of any kind (the counter is the only state). -/
theorem c18_ids (c : Client) (ty : Nat) (es : List Entry) (k : Nat) (hk : k < es.length) :
    ∃ f, (c.modify ty es).2[k]? = some f ∧ ("id", toString (c.opCount + k + 1)) ∈ f := by
  induction es generalizing c k with
  | nil => simp at hk
  | cons e rest ih =>
    simp only [Client.modify]
    cases k with
    | zero =>
      refine ⟨opFields (c.opCount + 1) ty e (stampOf c e), by simp, ?_⟩
      simp [opFields, nat]
    | succ k =>
      have hk' : k < rest.length := by simpa using hk
      obtain ⟨f, h1, h2⟩ := ih { c with opCount := c.opCount + 1 } k hk'
      refine ⟨f, by simpa using h1, ?_⟩
      have : c.opCount + 1 + k + 1 = c.opCount + (k + 1) + 1 := by omega
      simpa [this] using h2

/-- the first id of a fresh client is 1 -/
example : ((({} : Client).modify 1 [.nh {}, .nh {}]).2.map (fun f => f.head?)) = [some ("id", "1"), some ("id", "2")] := by
  decide

/-- **C18 (operation type).** Every operation of a call carries the requested type. -/
theorem c18_optype (c : Client) (ty : Nat) (es : List Entry) :
    ∀ f ∈ (c.modify ty es).2, ("op", "e" ++ toString ty) ∈ f := by
  induction es generalizing c with
  | nil => simp [Client.modify]
  | cons e rest ih =>
    simp only [Client.modify]
    intro f hf
    simp only [List.mem_cons] at hf
    rcases hf with rfl | hf
    · simp [opFields]
    · exact ih _ f hf

/-- **C18 (stamping).** In elected-primary mode an operation built from an entry without its own
election id carries the id most recently set on the client; an entry's own id wins; outside
elected-primary mode nothing is stamped. The first operation of a call: -/
theorem c18_stamp_head (c : Client) (ty : Nat) (e : Entry) (rest : List Entry) :
    (c.modify ty (e :: rest)).2.head? = some (opFields (c.opCount + 1) ty e (stampOf c e)) := by
  simp [Client.modify, stampOf]

/-- … and every later one, since a call changes neither the mode nor the current id -/
theorem c18_stamp_all (c : Client) (ty : Nat) (es : List Entry) (k : Nat) (hk : k < es.length) :
    (c.modify ty es).2[k]? = some (opFields (c.opCount + k + 1) ty es[k] (stampOf c es[k])) := by
  induction es generalizing c k with
  | nil => simp at hk
  | cons e rest ih =>
    simp only [Client.modify]
    cases k with
    | zero => simp [stampOf]
    | succ k =>
      have hk' : k < rest.length := by simpa using hk
      have := ih { c with opCount := c.opCount + 1 } k hk'
      simp only [List.getElem?_cons_succ, List.getElem_cons_succ]
      rw [this]
      have h1 : c.opCount + 1 + k + 1 = c.opCount + (k + 1) + 1 := by omega
      simp [h1, stampOf]

/-- `UpdateElectionID` changes the id used for all later stamping, and nothing else -/
theorem c18_update (c : Client) (lo hi : Nat) :
    (c.updateElection lo hi).1.curElec = some (lo, hi) ∧ (c.updateElection lo hi).1.opCount = c.opCount ∧
    (c.updateElection lo hi).1.elected = c.elected := ⟨rfl, rfl, rfl⟩

/-- **C18 (builders: last write wins, nothing else changes).** Each `With*` call of the IPv4 /
IPv6 builder sets exactly its field. -/
theorem c18_top_frame (b : TopB) (call : TopCall) :
    (match call with
     | .prefix_ p => (b.apply call).pfx = p ∧ (b.apply call).ni = b.ni ∧ (b.apply call).nhg = b.nhg ∧ (b.apply call).nhgNI = b.nhgNI ∧ (b.apply call).metadata = b.metadata ∧ (b.apply call).elec = b.elec
     | .ni n => (b.apply call).ni = n ∧ (b.apply call).pfx = b.pfx ∧ (b.apply call).nhg = b.nhg ∧ (b.apply call).nhgNI = b.nhgNI ∧ (b.apply call).metadata = b.metadata ∧ (b.apply call).elec = b.elec
     | .nhg g => (b.apply call).nhg = some g ∧ (b.apply call).pfx = b.pfx ∧ (b.apply call).ni = b.ni ∧ (b.apply call).nhgNI = b.nhgNI ∧ (b.apply call).metadata = b.metadata ∧ (b.apply call).elec = b.elec
     | .nhgNI n => (b.apply call).nhgNI = some n ∧ (b.apply call).pfx = b.pfx ∧ (b.apply call).ni = b.ni ∧ (b.apply call).nhg = b.nhg ∧ (b.apply call).metadata = b.metadata ∧ (b.apply call).elec = b.elec
     | .metadata h => (b.apply call).metadata = some h ∧ (b.apply call).pfx = b.pfx ∧ (b.apply call).ni = b.ni ∧ (b.apply call).nhg = b.nhg ∧ (b.apply call).nhgNI = b.nhgNI ∧ (b.apply call).elec = b.elec
     | .elec lo hi => (b.apply call).elec = some (lo, hi) ∧ (b.apply call).pfx = b.pfx ∧ (b.apply call).ni = b.ni ∧ (b.apply call).nhg = b.nhg ∧ (b.apply call).nhgNI = b.nhgNI ∧ (b.apply call).metadata = b.metadata) := by
  cases call <;> simp [TopB.apply]

/-- next-hop-group builder: `AddNextHop` accumulates in call order, the others overwrite -/
theorem c18_nhg_accumulates (b : NhgB) (calls : List (Nat × Nat)) :
    (calls.foldl (fun b c => b.apply (.addNh c.1 c.2)) b).nhs = b.nhs ++ calls ∧
    (calls.foldl (fun b c => b.apply (.addNh c.1 c.2)) b).id = b.id ∧
    (calls.foldl (fun b c => b.apply (.addNh c.1 c.2)) b).backup = b.backup := by
  induction calls generalizing b with
  | nil => simp
  | cons c rest ih =>
    simp only [List.foldl]
    obtain ⟨h1, h2, h3⟩ := ih (b.apply (.addNh c.1 c.2))
    refine ⟨?_, ?_, ?_⟩
    · rw [h1]; simp [NhgB.apply]
    · rw [h2]; simp [NhgB.apply]
    · rw [h3]; simp [NhgB.apply]

/-- next-hop builder: an interface reference replaces a previous (sub)interface reference whole -/
theorem c18_nh_ifref_resets (b : NhB) (n : String) :
    (b.apply (.ifRef n)).ifName = some n ∧ (b.apply (.ifRef n)).subIf = none ∧ (b.apply (.ifRef n)).ip = b.ip := by
  simp [NhB.apply]

/-- encapsulation headers are numbered 1, 2, … in the order they were added, across calls -/
theorem c18_encap_accumulates (b : NhB) (h1 h2 : List Hdr) :
    ((b.apply (.addEncap h1)).apply (.addEncap h2)).encaps = b.encaps ++ h1 ++ h2 := by
  simp only [NhB.apply]
  by_cases a : h1 = [] <;> by_cases c : h2 = [] <;> simp [a, c]

end Gribi.C18
