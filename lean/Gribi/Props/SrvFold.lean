/-
C01 at the server: for every history of the server model — any number of sessions, elections,
gates, protocol violations, disconnects, Gets and Flushes — the installed entries are the fold
of what the server acknowledged (operations answered RIB_PROGRAMMED on any stream, in the order
the server processed them, and Flushes answered OK) over the initial contents.
-/
import Gribi.Props.SrvRefine
import Gribi.Props.C01
namespace Gribi.SrvFold
open Gribi Server Spec

/-- the acknowledgements carried by the RIB-level outputs of one message -/
def msgAcks (o : MsgOut) : List Ack := o.ribOuts.flatMap (fun ro => ro.oks.map Ack.prog)

/-- what one server event acknowledged -/
def evAcks (s : Server) (ev : Ev) (o : EvOut) : List Ack :=
  match ev, o with
  | .msg _ _, .msg _ mo => msgAcks mo
  | .flush .all _, .flush r _ => if r.code = .ok then [.flushed s.rib.nis] else []
  | .flush (.name n) _, .flush r _ => if r.code = .ok then [.flushed [n]] else []
  | _, _ => []

/-- the acknowledgements of a whole history, in processing order -/
def runAcks : Server → List Ev → List Ack
  | _, [] => []
  | s, ev :: rest =>
    match step s ev with
    | none => []
    | some (s1, o) => evAcks s ev o ++ runAcks s1 rest

/-- a RIB run with well-formed inputs whose acknowledgements are `acks` -/
def RunAcks (r r' : Rib) (acks : List Ack) : Prop :=
  ∃ ins outs, Rib.run r ins = some (r', outs) ∧ (∀ i ∈ ins, C01.inWf i) ∧ C01.acksAll ins outs = acks

theorem RunAcks.nil (r : Rib) : RunAcks r r [] := ⟨[], [], rfl, by simp, rfl⟩

theorem rib_run_length {r r' : Rib} {ins : List Rib.In} {outs : List Rib.Out}
    (h : Rib.run r ins = some (r', outs)) : outs.length = ins.length := by
  induction ins generalizing r r' outs with
  | nil => simp only [Rib.run, Option.some.injEq, Prod.mk.injEq] at h; rw [← h.2]; rfl
  | cons i rest ih =>
    rw [SrvRefine.rib_run_cons] at h
    cases hs : Rib.step r i with
    | none => simp [hs] at h
    | some p =>
      obtain ⟨rm, o⟩ := p
      simp only [hs] at h
      cases hr : Rib.run rm rest with
      | none => simp [hr] at h
      | some p2 =>
        obtain ⟨rr, os⟩ := p2
        simp only [hr, Option.some.injEq, Prod.mk.injEq] at h
        rw [← h.2]
        simp [ih hr]

theorem acksAll_append (a b : List Rib.In) (oa ob : List Rib.Out) (h : oa.length = a.length) :
    C01.acksAll (a ++ b) (oa ++ ob) = C01.acksAll a oa ++ C01.acksAll b ob := by
  induction a generalizing oa with
  | nil =>
    cases oa with
    | nil => rfl
    | cons x t => simp at h
  | cons i rest ih =>
    cases oa with
    | nil => simp at h
    | cons x t =>
      simp only [List.cons_append, C01.acksAll, List.append_assoc]
      rw [ih t (by simpa using h)]

theorem RunAcks.append {r r1 r2 : Rib} {a b : List Ack} (h1 : RunAcks r r1 a) (h2 : RunAcks r1 r2 b) :
    RunAcks r r2 (a ++ b) := by
  obtain ⟨i1, o1, hr1, hw1, ha1⟩ := h1
  obtain ⟨i2, o2, hr2, hw2, ha2⟩ := h2
  refine ⟨i1 ++ i2, o1 ++ o2, SrvRefine.rib_run_append hr1 hr2, ?_, ?_⟩
  · intro i hi
    rcases List.mem_append.mp hi with h | h
    · exact hw1 i h
    · exact hw2 i h
  · rw [acksAll_append _ _ _ _ (rib_run_length hr1), ha1, ha2]

theorem modifyOne_acks {r r' : Rib} {c : Nat} {fib : Bool} {snap : ElecSnap} {op : Op} {script : List Rib.CEv}
    {ro : Rib.Out} {res : Resp ⊕ Term} (h : modifyOne r c fib snap op script = some (r', ro, res)) :
    RunAcks r r' (ro.oks.map Ack.prog) := by
  unfold modifyOne at h
  split at h
  · split at h
    · simp only [Option.some.injEq, Prod.mk.injEq] at h; obtain ⟨rfl, rfl, _⟩ := h; exact RunAcks.nil r
    · cases h
  · split at h
    · simp only [Option.some.injEq, Prod.mk.injEq] at h; obtain ⟨rfl, rfl, _⟩ := h; exact RunAcks.nil r
    · cases h
  · split at h
    · split at h
      · simp only [Option.some.injEq, Prod.mk.injEq] at h; obtain ⟨rfl, rfl, _⟩ := h; exact RunAcks.nil r
      · cases h
    · rename_i hty
      split at h
      · simp only at h
        have hr : r' = (r.del op).1 ∧ ro = (r.del op).2 := by
          split at h <;> (simp only [Option.some.injEq, Prod.mk.injEq] at h; exact ⟨h.1.symm, h.2.1.symm⟩)
        rw [hr.1, hr.2]
        refine ⟨[Rib.In.del op], [(r.del op).2], rfl, ?_, ?_⟩
        · intro i hi; simp only [List.mem_singleton] at hi; subst hi; exact hty
        · simp [C01.acksAll, C01.acks]
      · cases h
    · rename_i hninv hndel
      cases ha : r.add op script with
      | none => simp [ha] at h
      | some p =>
        obtain ⟨r1, o1⟩ := p
        simp only [ha] at h
        have hr : r' = r1 ∧ ro = o1 := by
          split at h <;> (simp only [Option.some.injEq, Prod.mk.injEq] at h; exact ⟨h.1.symm, h.2.1.symm⟩)
        rw [hr.1, hr.2]
        refine ⟨[Rib.In.add op script], [o1], ?_, ?_, ?_⟩
        · rw [SrvRefine.rib_run_cons]; simp only [Rib.step, ha]; rfl
        · intro i hi; simp only [List.mem_singleton] at hi; subst hi
          show op.ty = .add ∨ op.ty = .replace
          cases hty : op.ty with
          | add => exact Or.inl rfl
          | replace => exact Or.inr rfl
          | delete => exact absurd hty (hndel)
          | invalid => exact absurd hty (hninv)
        · simp [C01.acksAll, C01.acks]

theorem modifyLoop_acks {c : Nat} {fib : Bool} {snap : ElecSnap} (l : List (Op × List Rib.CEv))
    {r r' : Rib} {o : MsgOut} (h : modifyLoop r c fib snap l = some (r', o)) : RunAcks r r' (msgAcks o) := by
  induction l generalizing r o with
  | nil =>
    simp only [modifyLoop, Option.some.injEq, Prod.mk.injEq] at h
    obtain ⟨rfl, rfl⟩ := h
    exact RunAcks.nil r
  | cons x rest ih =>
    obtain ⟨op, script⟩ := x
    simp only [modifyLoop] at h
    split at h
    · split at h
      · cases h
      · cases hr : modifyLoop r c fib snap rest with
        | none => simp [hr] at h
        | some p =>
          obtain ⟨r2, o2⟩ := p
          simp only [hr, Option.some.injEq, Prod.mk.injEq] at h
          obtain ⟨rfl, rfl⟩ := h
          have := ih hr
          simpa [msgAcks] using this
    · cases hm : modifyOne r c fib snap op script with
      | none => simp [hm] at h
      | some m =>
        obtain ⟨r1, ro, res⟩ := m
        have h1 := modifyOne_acks hm
        cases res with
        | inr t =>
          simp only [hm, Option.some.injEq, Prod.mk.injEq] at h
          obtain ⟨rfl, rfl⟩ := h
          simpa [msgAcks] using h1
        | inl resp =>
          simp only [hm] at h
          cases hr : modifyLoop r1 c fib snap rest with
          | none => simp [hr] at h
          | some p =>
            obtain ⟨r2, o2⟩ := p
            simp only [hr, Option.some.injEq, Prod.mk.injEq] at h
            obtain ⟨rfl, rfl⟩ := h
            have h2 := ih hr
            have := h1.append h2
            simpa [msgAcks] using this

theorem finish_ribOuts (c : Nat) (r : Server × MsgOut) : (finish c r).2.ribOuts = r.2.ribOuts := by
  unfold finish; split <;> rfl

theorem doParams_ribOuts (s : Server) (c : Nat) (cs : Sess) (a b d : Nat) : (doParams s c cs a b d).2.ribOuts = [] := by
  unfold doParams
  split
  · rfl
  · split
    · rfl
    · split
      · rfl
      · split
        · rfl
        · dsimp only
          split
          · split <;> rfl
          · rfl

theorem doElec_ribOuts (s : Server) (c : Nat) (cs : Sess) (e : U128) : (doElec s c cs e).2.ribOuts = [] := by
  unfold doElec
  split
  · rfl
  · split
    · rfl
    · rfl

/-- one server event acts on the RIB by a well-formed RIB run with exactly its acknowledgements -/
theorem step_acks {s s' : Server} {ev : Ev} {o : EvOut} (h : step s ev = some (s', o)) :
    RunAcks s.rib s'.rib (evAcks s ev o) := by
  cases ev with
  | connect c =>
    simp only [step, Option.some.injEq, Prod.mk.injEq] at h; obtain ⟨rfl, rfl⟩ := h; exact RunAcks.nil _
  | close c =>
    simp only [step, Option.some.injEq, Prod.mk.injEq] at h; obtain ⟨rfl, rfl⟩ := h; exact RunAcks.nil _
  | get ni aft =>
    simp only [step, Option.some.injEq, Prod.mk.injEq] at h; obtain ⟨rfl, rfl⟩ := h; exact RunAcks.nil _
  | flush ni el =>
    simp only [step, Option.some.injEq, Prod.mk.injEq] at h
    obtain ⟨hs, ho⟩ := h
    rw [← hs, ← ho]
    unfold Server.flush
    cases hc : checkFlush s.curElec ni el with
    | some r =>
      -- rejected: the status is not OK, nothing changes
      have hne : r.code ≠ Code.ok := by
        unfold checkFlush at hc
        split at hc
        · cases hc; simp
        · split at hc
          · cases hc
          · split at hc
            · cases hc
            · cases hc; simp
          · split at hc
            · cases hc; simp
            · split at hc
              · cases hc; simp
              · split at hc
                · cases hc; simp
                · cases hc
      cases ni with
      | unset => exact RunAcks.nil _
      | all => simp only [evAcks, hne, if_false]; exact RunAcks.nil _
      | name n => simp only [evAcks, hne, if_false]; exact RunAcks.nil _
    | none =>
      cases ni with
      | unset => exact RunAcks.nil _
      | all =>
        simp only [evAcks, if_true]
        exact ⟨[Rib.In.flush s.rib.nis], [{ hooks := (s.rib.flush s.rib.nis).2 }], rfl, by simp [C01.inWf], by simp [C01.acksAll, C01.acks]⟩
      | name n =>
        simp only
        by_cases hn : s.rib.hasNI n = true
        · simp only [hn, if_true, evAcks]
          exact ⟨[Rib.In.flush [n]], [{ hooks := (s.rib.flush [n]).2 }], rfl, by simp [C01.inWf], by simp [C01.acksAll, C01.acks]⟩
        · simp only [hn, Bool.false_eq_true, if_false, evAcks]
          have : ¬ (Code.invalidArgument = Code.ok) := by simp
          simp only [this, if_false]
          exact RunAcks.nil _
  | msg c m =>
    simp only [step] at h
    cases hr : s.recv c m with
    | none => simp [hr] at h
    | some p =>
      simp only [hr, Option.map, Option.some.injEq, Prod.mk.injEq] at h
      obtain ⟨hs, ho⟩ := h
      rw [← hs, ← ho]
      simp only [evAcks]
      unfold recv at hr
      cases hg : s.sess.get? c with
      | none => simp [hg] at hr
      | some cs =>
        simp only [hg] at hr
        cases m with
        | multi => simp only [Option.some.injEq] at hr; rw [← hr]; exact RunAcks.nil _
        | empty => simp only [Option.some.injEq] at hr; rw [← hr]; exact RunAcks.nil _
        | params a b d =>
          simp only [Option.some.injEq] at hr
          rw [← hr, SrvRefine.finish_rib, SrvRefine.doParams_rib]
          simp only [msgAcks, finish_ribOuts, doParams_ribOuts, List.flatMap_nil]
          exact RunAcks.nil _
        | elec e =>
          simp only [Option.some.injEq] at hr
          rw [← hr, SrvRefine.finish_rib, SrvRefine.doElec_rib]
          simp only [msgAcks, finish_ribOuts, doElec_ribOuts, List.flatMap_nil]
          exact RunAcks.nil _
        | ops l =>
          simp only at hr
          cases hd : doOps s c cs l with
          | none => simp [hd] at hr
          | some q =>
            simp only [hd, Option.map, Option.some.injEq] at hr
            rw [← hr, SrvRefine.finish_rib]
            simp only [msgAcks, finish_ribOuts]
            unfold doOps at hd
            split at hd
            · split at hd
              · simp only [Option.some.injEq] at hd; rw [← hd]; exact RunAcks.nil _
              · cases hd
            · cases hl : modifyLoop s.rib c cs.params.fibAck
                  { master := s.curMaster, cur := s.curElec, clientLatest := cs.lastElec } l with
              | none => simp [hl] at hd
              | some x =>
                obtain ⟨r2, o2⟩ := x
                simp only [hl, Option.some.injEq] at hd
                rw [← hd]
                exact modifyLoop_acks l hl

theorem runAcks_ok {s s' : Server} {evs : List Ev} {os : List EvOut} (h : run s evs = some (s', os)) :
    RunAcks s.rib s'.rib (runAcks s evs) := by
  induction evs generalizing s os with
  | nil =>
    simp only [run, Option.some.injEq, Prod.mk.injEq] at h
    obtain ⟨rfl, _⟩ := h
    exact RunAcks.nil _
  | cons ev rest ih =>
    simp only [run] at h
    cases hs : step s ev with
    | none => simp [hs] at h
    | some p =>
      obtain ⟨s1, o⟩ := p
      simp only [hs] at h
      cases hr : run s1 rest with
      | none => simp [hr] at h
      | some p2 =>
        obtain ⟨s2, os2⟩ := p2
        simp only [hr, Option.some.injEq, Prod.mk.injEq] at h
        obtain ⟨rfl, _⟩ := h
        simp only [runAcks, hs]
        exact (step_acks hs).append (ih hr)

/-- **C01 at the server.** For every accepted history of the server model starting from a state
whose held operations are ADDs/REPLACEs (in particular from a new server), the installed entries
are the fold of the acknowledgements — operations answered RIB_PROGRAMMED on whichever stream, and
Flushes answered OK — over the initial contents. -/
theorem srv_c01_fold {s s' : Server} {evs : List Ev} {os : List EvOut}
    (h : run s evs = some (s', os)) (hp : C01.PendWf s.rib) :
    s'.rib.ents ≃ₘ (runAcks s evs).foldl applyAck s.rib.ents := by
  obtain ⟨ins, outs, hr, hw, ha⟩ := runAcks_ok h
  rw [← ha]
  exact C01.c01_fold hr hp hw

/-- from a new server (no contents yet): contents = `Spec.fold` of the acknowledgements -/
theorem srv_c01_fold_from_new (d : NI) (vrfs : List NI) (fwd hook : Bool) {s' : Server} {evs : List Ev} {os : List EvOut}
    (h : run (Server.new d vrfs fwd hook) evs = some (s', os)) :
    s'.rib.ents ≃ₘ Spec.fold (runAcks (Server.new d vrfs fwd hook) evs) := by
  have hents : (Server.new d vrfs fwd hook).rib.ents = [] ∧ (Server.new d vrfs fwd hook).rib.pend = [] := by
    have hfold : ∀ (l : List NI) (r : Rib), (l.foldl (fun r n => (r.addNI n).1) r).ents = r.ents ∧
        (l.foldl (fun r n => (r.addNI n).1) r).pend = r.pend := by
      intro l
      induction l with
      | nil => intro r; exact ⟨rfl, rfl⟩
      | cons n rest ih =>
        intro r
        have := ih (r.addNI n).1
        have h2 : (r.addNI n).1.ents = r.ents ∧ (r.addNI n).1.pend = r.pend := by
          unfold Rib.addNI; split <;> exact ⟨rfl, rfl⟩
        exact ⟨this.1.trans h2.1, this.2.trans h2.2⟩
    unfold Server.new
    simp only
    cases hook with
    | false => exact hfold vrfs _
    | true => exact hfold vrfs _
  have hp : C01.PendWf (Server.new d vrfs fwd hook).rib := by
    intro id op hg; rw [hents.2] at hg; simp at hg
  have := srv_c01_fold h hp
  rw [hents.1] at this
  exact this

end Gribi.SrvFold
