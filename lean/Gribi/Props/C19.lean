/-
C19 — the server-side fact that order independence of the compliance suite rests on.

The test programs themselves are not modelled (see DESIGN.md). What is proved here, on the server
model: a long-lived server whose contents and sessions equal those of another server, and which
differs from it only in the election register (the highest id learnt and its holder — all that
survives a disconnect and a flush besides contents), answers every client exactly like the other
one, provided the client does what every compliance test does: before any operation or id-bearing
Flush it announces an election id that is not lower than anything the server has seen
(`compliance` draws its ids from a counter that only grows), and until then sends only messages
whose answer does not depend on the register. After that announcement the two servers are equal,
so everything afterwards is answered identically.
-/
import Gribi.Model.Server
namespace Gribi.C19
open Gribi Server

/-- the same server with another election register -/
def withReg (s : Server) (x : Option U128) (y : Option Nat) : Server := { s with curElec := x, curMaster := y }

/-- events whose outcome does not depend on the election register -/
def Agnostic : Ev → Prop
  | .connect _ => True
  | .close _ => True
  | .get _ _ => True
  | .msg _ (.params _ _ _) => True
  | .msg _ .multi => True
  | .msg _ .empty => True
  | .flush _ .override => True
  | _ => False

theorem doParams_withReg (s : Server) (x : Option U128) (y : Option Nat) (c : Nat) (cs : Sess) (red pers ack : Nat) :
    doParams (withReg s x y) c cs red pers ack =
      (withReg (doParams s c cs red pers ack).1 x y, (doParams s c cs red pers ack).2) := by
  unfold doParams withReg
  simp only
  split
  · rfl
  · split
    · rfl
    · split
      · rfl
      · split
        · rfl
        · split
          · split <;> rfl
          · rfl

theorem finish_withReg (c : Nat) (r : Server × MsgOut) (x : Option U128) (y : Option Nat) :
    finish c (withReg r.1 x y, r.2) = (withReg (finish c r).1 x y, (finish c r).2) := by
  unfold finish
  simp only
  split <;> rfl

/-- **register-agnostic step.** For an event that does not look at the election register, the
two servers answer alike and keep differing only in the register. -/
theorem step_withReg (s : Server) (x : Option U128) (y : Option Nat) (ev : Ev) (h : Agnostic ev) :
    step (withReg s x y) ev = (step s ev).map (fun r => (withReg r.1 x y, r.2)) := by
  cases ev with
  | connect c => rfl
  | close c => rfl
  | get ni aft => rfl
  | flush ni el =>
    cases el with
    | override =>
      simp only [step, Server.flush, checkFlush, withReg]
      cases ni with
      | unset => rfl
      | all => rfl
      | name n =>
        simp only [Option.map]
        by_cases hn : s.rib.hasNI n = true
        · simp [hn]
        · simp [hn]
    | unset => exact absurd h (by simp [Agnostic])
    | id e => exact absurd h (by simp [Agnostic])
  | msg c m =>
    cases m with
    | params red pers ack =>
      simp only [step, recv]
      have hs : (withReg s x y).sess = s.sess := rfl
      rw [hs]
      cases hg : s.sess.get? c with
      | none => rfl
      | some cs =>
        simp only [Option.map]
        rw [doParams_withReg, finish_withReg]
    | multi =>
      simp only [step, recv]
      have hs : (withReg s x y).sess = s.sess := rfl
      rw [hs]
      cases hg : s.sess.get? c with
      | none => rfl
      | some cs => rfl
    | empty =>
      simp only [step, recv]
      have hs : (withReg s x y).sess = s.sess := rfl
      rw [hs]
      cases hg : s.sess.get? c with
      | none => rfl
      | some cs => rfl
    | elec e => exact absurd h (by simp [Agnostic])
    | ops l => exact absurd h (by simp [Agnostic])

theorem step_agnostic_reg (s : Server) (ev : Ev) (h : Agnostic ev) {s' : Server} {o : EvOut}
    (hs : step s ev = some (s', o)) : s'.curElec = s.curElec ∧ s'.curMaster = s.curMaster := by
  have := step_withReg s s.curElec s.curMaster ev h
  have hw : withReg s s.curElec s.curMaster = s := rfl
  rw [hw, hs] at this
  simp only [Option.map, Option.some.injEq, Prod.mk.injEq] at this
  have h1 := this.1
  constructor
  · have := congrArg Server.curElec h1; exact this
  · have := congrArg Server.curMaster h1; exact this

/-- **register-agnostic run.** -/
theorem run_withReg (s : Server) (x : Option U128) (y : Option Nat) (tr : List Ev) (h : ∀ ev ∈ tr, Agnostic ev) :
    run (withReg s x y) tr = (run s tr).map (fun r => (withReg r.1 x y, r.2)) := by
  induction tr generalizing s with
  | nil => rfl
  | cons ev rest ih =>
    simp only [run]
    rw [step_withReg s x y ev (h ev List.mem_cons_self)]
    cases hs : step s ev with
    | none => rfl
    | some r =>
      obtain ⟨s1, o⟩ := r
      simp only [Option.map]
      rw [ih s1 (fun e he => h e (List.mem_cons_of_mem _ he))]
      cases hr : run s1 rest with
      | none => rfl
      | some r2 => rfl

/-- **an accepted announcement merges the registers.** If session `c` may announce (it negotiated
SINGLE_PRIMARY) and `e` is non-zero and not lower than either register, both servers answer with
`e` and end up in the same state. -/
theorem elect_merges (s : Server) (x : Option U128) (y : Option Nat) (c : Nat) (cs : Sess) (e : U128)
    (hg : s.sess.get? c = some cs) (hexp : cs.params.expectElec = true) (hz : e.isZero = false)
    (h1 : isNewMaster e x = true) (h2 : isNewMaster e s.curElec = true) :
    step (withReg s x y) (.msg c (.elec e)) = step s (.msg c (.elec e)) := by
  simp only [step, recv]
  have hs : (withReg s x y).sess = s.sess := rfl
  rw [hs, hg]
  simp only [Option.map, doElec, hexp, Bool.not_true, Bool.false_eq_true, if_false, hz, withReg, h1, h2, if_true]

theorem run_cons (t : Server) (ev : Ev) (rest : List Ev) :
    run t (ev :: rest) = match step t ev with
      | none => none
      | some (s1, o) => match run s1 rest with
        | none => none
        | some (s2, os) => some (s2, o :: os) := rfl

/-- running a concatenation = running the parts -/
theorem run_append (t : Server) (a b : List Ev) :
    run t (a ++ b) = match run t a with
      | none => none
      | some (t1, o1) => (run t1 b).map (fun r => (r.1, o1 ++ r.2)) := by
  induction a generalizing t with
  | nil =>
    show run t b = (run t b).map (fun r => (r.1, [] ++ r.2))
    cases run t b with
    | none => rfl
    | some r => rfl
  | cons ev rest ih =>
    rw [List.cons_append, run_cons, run_cons]
    cases hs : step t ev with
    | none => rfl
    | some r =>
      obtain ⟨tm, o⟩ := r
      simp only
      rw [ih tm]
      cases hr : run tm rest with
      | none => rfl
      | some r2 =>
        obtain ⟨t2, os⟩ := r2
        simp only
        cases run t2 b with
        | none => rfl
        | some r3 => rfl

/-- **C19 (a used server is as good as a new one).** Take any server `s` and the same server with
another election register `(x, y)`. For a client that first sends only register-agnostic events
(`pre`), then has session `c` announce an accepted election id `e` that is not lower than either
register, and then does anything at all (`post`), both servers produce the same outputs for the
whole trace. -/
theorem c19_fresh_equiv (s : Server) (x : Option U128) (y : Option Nat) (pre post : List Ev)
    (c : Nat) (e : U128) (hpre : ∀ ev ∈ pre, Agnostic ev)
    {s1 : Server} {outs1 : List EvOut} (hrun : run s pre = some (s1, outs1))
    {cs : Sess} (hg : s1.sess.get? c = some cs) (hexp : cs.params.expectElec = true) (hz : e.isZero = false)
    (h1 : isNewMaster e x = true) (h2 : isNewMaster e s.curElec = true) :
    (run (withReg s x y) (pre ++ Ev.msg c (.elec e) :: post)).map (·.2) =
    (run s (pre ++ Ev.msg c (.elec e) :: post)).map (·.2) := by
  have hrunA := run_withReg s x y pre hpre
  rw [hrun] at hrunA
  simp only [Option.map] at hrunA
  -- the register of `s` does not change during `pre`
  have hreg : s1.curElec = s.curElec := by
    clear hrunA hg
    induction pre generalizing s outs1 with
    | nil => simp only [run, Option.some.injEq, Prod.mk.injEq] at hrun; rw [← hrun.1]
    | cons ev rest ih =>
      simp only [run] at hrun
      cases hs : step s ev with
      | none => simp [hs] at hrun
      | some r =>
        obtain ⟨sm, o⟩ := r
        simp only [hs] at hrun
        cases hr : run sm rest with
        | none => simp [hr] at hrun
        | some r2 =>
          obtain ⟨s2, os⟩ := r2
          simp only [hr, Option.some.injEq, Prod.mk.injEq] at hrun
          obtain ⟨rfl, _⟩ := hrun
          have hm := step_agnostic_reg s ev (hpre ev List.mem_cons_self) hs
          have := ih sm (fun e he => hpre e (List.mem_cons_of_mem _ he)) hr (by rw [hm.1]; exact h2)
          rw [this, hm.1]
  rw [run_append (withReg s x y) pre, run_append s pre, hrunA, hrun]
  -- at the announcement the two servers merge
  have hm := elect_merges s1 x y c cs e hg hexp hz h1 (by rw [hreg]; exact h2)
  simp only
  rw [run_cons, run_cons, hm]

/-- the hypotheses are satisfiable: a new session connects and negotiates on a server whose
register still holds an old id, then announces a higher one -/
example : ∃ s1 outs1 cs,
    run (Server.new "DEFAULT" ["VRF1"]) [Ev.connect 1, Ev.msg 1 (.params 1 1 0)] = some (s1, outs1) ∧
    s1.sess.get? 1 = some cs ∧ cs.params.expectElec = true ∧
    isNewMaster ⟨0, 9⟩ (some ⟨0, 7⟩) = true ∧ isNewMaster ⟨0, 9⟩ (Server.new "DEFAULT" ["VRF1"]).curElec = true :=
  ⟨_, _, _, rfl, rfl, rfl, by decide, rfl⟩

end Gribi.C19
