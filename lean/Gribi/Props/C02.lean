/-
C02 — Programmed-acknowledgement tracks reference resolvability.

* an ADD/REPLACE is acknowledged only at a state where everything it references is installed;
* hence no installed entry dangles (`Closed`) as long as state changes through Modify and
  full flushes only;
* with forward references allowed an unresolved operation is held, and after every step no
  held operation is installable (it was acknowledged by the cascade of the step that made it
  resolvable); with forward references disallowed nothing is ever held;
* the retry cascade always has an accepted order (the relation the theorems quantify over is
  never empty).
-/
import Gribi.Props.C03
import Gribi.Props.C01
namespace Gribi.C02
open Gribi Rib Spec

/-- no installed entry dangles -/
def Closed (s : Rib) : Prop :=
  ∀ k p, s.ents.get? k = some p → entryResolved s.ents k p = true

/-- no held operation could be installed now -/
def NoneInstallable (s : Rib) : Prop :=
  ∀ id op, s.pend.get? id = some op → classify s op ≠ .ok

theorem has_insert_mono (m : Map EKey Payload) (k k' : EKey) (v : Payload) (h : m.has k = true) :
    (m.insert k' v).has k = true := by
  unfold Map.has at *
  rw [Map.get?_insert]
  split
  · rfl
  · exact h

theorem entryResolved_mono {a b : Map EKey Payload} (hm : ∀ k, a.has k = true → b.has k = true)
    (k : EKey) (p : Payload) (h : entryResolved a k p = true) : entryResolved b k p = true := by
  unfold entryResolved at *
  cases hk : k.2 with
  | nh i => simp [hk]
  | nhg g =>
    simp only [hk, List.all_eq_true] at h ⊢
    intro n hn
    exact hm _ (h n hn)
  | v4 x => simp only [hk] at h ⊢; exact hm _ h
  | v6 x => simp only [hk] at h ⊢; exact hm _ h
  | mpls x => simp only [hk] at h ⊢; exact hm _ h

/-- **C02 (acknowledged ⇒ resolved).** An operation that `classify` lets through has all its
references installed at that moment: a group's next-hops in its own instance, a top-level
entry's group in the named-or-own instance. Backup groups are not looked at. -/
theorem c02_ack_resolvable {s : Rib} {op : Op} (hc : classify s op = .ok) :
    entryResolved s.ents (op.ni, op.key) op.pl = true := by
  unfold classify at hc
  split at hc
  · cases hc
  · split at hc
    · cases hc
    · unfold entryResolved
      cases hk : op.key with
      | nh i => rfl
      | nhg g =>
        simp only [hk] at hc ⊢
        split at hc
        · cases hc
        · split at hc
          · rename_i hall
            simpa [Rib.has] using hall
          · cases hc
      | v4 x =>
        simp only [hk] at hc ⊢
        split at hc
        · cases hc
        · split at hc
          · cases hc
          · split at hc
            · rename_i hh; simpa [Rib.has] using hh
            · cases hc
      | v6 x =>
        simp only [hk] at hc ⊢
        split at hc
        · cases hc
        · split at hc
          · cases hc
          · split at hc
            · rename_i hh; simpa [Rib.has] using hh
            · cases hc
      | mpls x =>
        simp only [hk] at hc ⊢
        split at hc
        · cases hc
        · split at hc
          · cases hc
          · split at hc
            · rename_i hh; simpa [Rib.has] using hh
            · cases hc

/-- every cascade acknowledgement is an installation at a state where the operation resolved -/
theorem c02_cascade_ack_resolvable {s s' : Rib} {id : Nat} {o : Out} (h : fire s (.ok id) = some (s', o)) :
    ∃ op, s.pend.get? id = some op ∧ o.oks = [op] ∧ entryResolved s.ents (op.ni, op.key) op.pl = true := by
  unfold fire at h
  simp only at h
  split at h
  · cases h
  · rename_i op hop
    split at h
    · rename_i hc
      cases h
      exact ⟨op, hop, rfl, c02_ack_resolvable hc⟩
    · cases h

theorem closed_install {s : Rib} {op : Op} (hcl : Closed s) (hc : classify s op = .ok) :
    Closed (install s op).1 := by
  intro k p hg
  rw [install_ents] at hg ⊢
  have hm : ∀ k', s.ents.has k' = true → (s.ents.insert (op.ni, op.key) op.pl).has k' = true :=
    fun k' h => has_insert_mono _ _ _ _ h
  rw [Map.get?_insert] at hg
  split at hg
  · rename_i hk
    cases hg
    subst hk
    exact entryResolved_mono hm _ _ (c02_ack_resolvable hc)
  · exact entryResolved_mono hm _ _ (hcl k p hg)

theorem closed_of_same {s s' : Rib} (h : Closed s) (he : s'.ents = s.ents) : Closed s' := by
  intro k p hg; rw [he] at hg ⊢; exact h k p hg

theorem closed_fire {s s' : Rib} {ev : CEv} {o : Out} (h : fire s ev = some (s', o)) (hcl : Closed s) :
    Closed s' := by
  unfold fire at h
  cases ev with
  | ok id =>
    simp only at h
    split at h
    · cases h
    · split at h
      · rename_i hc
        cases h
        exact closed_of_same (closed_install hcl hc) rfl
      · cases h
  | fail id =>
    simp only at h
    split at h
    · cases h
    · split at h
      · cases h; exact closed_of_same hcl rfl
      · cases h

theorem closed_runCascade {s s' : Rib} {script : List CEv} {o : Out}
    (h : runCascade s script = some (s', o)) (hcl : Closed s) : Closed s' := by
  induction script generalizing s o with
  | nil =>
    simp only [runCascade, Option.some.injEq, Prod.mk.injEq] at h
    obtain ⟨rfl, rfl⟩ := h
    exact hcl
  | cons ev rest ih =>
    simp only [runCascade] at h
    split at h
    · cases h
    · rename_i s1 o1 h1
      split at h
      · cases h
      · rename_i s2 o2 h2
        cases h
        exact ih h2 (closed_fire h1 hcl)

theorem closed_add {s s' : Rib} {op : Op} {script : List CEv} {o : Out}
    (h : Rib.add s op script = some (s', o)) (hcl : Closed s) : Closed s' := by
  unfold Rib.add at h
  split at h
  · split at h
    · cases h; exact hcl
    · cases h
  · split at h
    · split at h
      · cases h; exact closed_of_same hcl rfl
      · cases h
    · split at h
      · cases h
      · split at h
        · cases h; exact closed_of_same hcl rfl
        · cases h; exact hcl
    · rename_i hc
      simp only at h
      split at h
      · cases h
      · rename_i s2 o2 hcas
        split at h
        · cases h
          exact closed_runCascade hcas (closed_of_same (closed_install hcl hc) rfl)
        · cases h

theorem del_ok_nhg_unreferenced {s : Rib} {op : Op} {g : Nat} (hi : Inv s) (hok : classifyDel s op = .ok)
    (hk : op.key = .nhg g) : nhgReferrers s.ents op.ni g = 0 := by
  unfold classifyDel at hok
  split at hok
  · cases hok
  · simp only [hk] at hok
    split at hok
    · cases hok
    · split at hok
      · cases hok
      · split at hok
        · cases hok
        · rename_i hc0
          have hz : cnt s.nhgRef (op.ni, g) = 0 := by omega
          rw [hi.nhg] at hz
          exact hz

theorem del_ok_nh_unreferenced {s : Rib} {op : Op} {n : Nat} (hi : Inv s) (hok : classifyDel s op = .ok)
    (hk : op.key = .nh n) : nhReferrers s.ents op.ni n = 0 := by
  unfold classifyDel at hok
  split at hok
  · cases hok
  · simp only [hk] at hok
    split at hok
    · cases hok
    · split at hok
      · cases hok
      · split at hok
        · cases hok
        · rename_i hc0
          have hz : cnt s.nhRef (op.ni, n) = 0 := by omega
          rw [hi.nh] at hz
          exact hz

/-- deleting an entry that nothing refers to keeps the RIB closed; the counters decide, and
under `Inv` they are the referrer counts -/
theorem closed_del {s : Rib} (hcl : Closed s) (hi : Inv s) (op : Op) : Closed (Rib.del s op).1 := by
  unfold Rib.del
  split
  · exact hcl
  · split
    · exact hcl
    · exact hcl
    · exact hcl
    · rename_i hok
      split
      · exact hcl
      · rename_i pold hgold
        intro k p hg
        simp only [unref_ents, Map.get?_erase] at hg
        split at hg
        · cases hg
        · rename_i hne
          have hres := hcl k p hg
          -- the removed key is not one of the references of (k, p)
          have hm : ∀ k', k' ≠ (op.ni, op.key) → s.ents.has k' = true →
              ((unref s op.ni op.key pold).ents.erase (op.ni, op.key)).has k' = true := by
            intro k' hk' h
            unfold Map.has at *
            simp only [unref_ents]
            rw [Map.get?_erase_ne _ (Ne.symm hk')]
            exact h
          have htop : ∀ (hT : k.2.isTop = true), (tgtNI k.1 p, Key.nhg p.grp) ≠ (op.ni, op.key) := by
            intro hT heq
            have hkey : op.key = .nhg p.grp := (Prod.ext_iff.mp heq).2.symm
            have hni : tgtNI k.1 p = op.ni := (Prod.ext_iff.mp heq).1
            have hz := del_ok_nhg_unreferenced hi hok hkey
            have hpos : 0 < nhgReferrers s.ents op.ni p.grp := by
              apply Map.countP_pos_of_get? hg
              exact (qNhg_iff (op.ni, p.grp) k p).mpr ⟨hT, by rw [hni]⟩
            omega
          unfold entryResolved at hres ⊢
          cases hkk : k.2 with
          | nh i => simp [hkk]
          | nhg g =>
            simp only [hkk, List.all_eq_true] at hres ⊢
            intro n hn
            apply hm _ _ (hres n hn)
            intro heq
            have hkey : op.key = .nh n := (Prod.ext_iff.mp heq).2.symm
            have hni : k.1 = op.ni := (Prod.ext_iff.mp heq).1
            have hz := del_ok_nh_unreferenced hi hok hkey
            have hpos : 0 < nhReferrers s.ents op.ni n := by
              apply Map.countP_pos_of_get? hg
              have : k = (k.1, Key.nhg g) := by rw [← hkk]
              rw [this]
              exact (qNh_iff (op.ni, n) (k.1, Key.nhg g) p).mpr ⟨rfl, hni.symm, hn⟩
            omega
          | v4 x =>
            simp only [hkk] at hres ⊢
            exact hm _ (htop (by rw [hkk]; rfl)) hres
          | v6 x =>
            simp only [hkk] at hres ⊢
            exact hm _ (htop (by rw [hkk]; rfl)) hres
          | mpls x =>
            simp only [hkk] at hres ⊢
            exact hm _ (htop (by rw [hkk]; rfl)) hres

/-- a flush of *all* instances leaves nothing, hence nothing dangling -/
theorem closed_flush_all {s : Rib} (hi : Inv s) (nis : List NI) (hall : ∀ n, s.hasNI n = true → nis.contains n = true) :
    Closed (flush s nis).1 := by
  intro k p hg
  have := (C01.flush_ents s nis).1 k
  rw [this, Map.get?_eraseP] at hg
  split at hg
  · cases hg
  · rename_i hnot
    have := (hi.wf k p hg).1
    exact absurd (hall _ this) hnot

/-! ### completeness: nothing installable stays held -/

theorem classify_ok_mono' {s s' : Rib} (hm : ∀ k, s'.has k = true → s.has k = true)
    (hn : ∀ x g, s'.hasNI x = true → s'.has (x, .nhg g) = true → s.hasNI x = true)
    {op : Op} (h : classify s' op = .ok) : classify s op = .ok := by
  have hres : ∀ k, ¬ s.has k = true → ¬ s'.has k = true := fun k h1 h2 => h1 (hm k h2)
  unfold classify at h ⊢
  split at h
  · cases h
  · rename_i hcls
    simp only [hcls, if_false]
    split at h
    · cases h
    · rename_i hrep
      have hrep' : ¬ (op.ty = OpType.replace ∧ ¬ s.has (op.ni, op.key) = true) := by
        intro ⟨a, b⟩
        exact hrep ⟨a, hres _ b⟩
      simp only [hrep', if_false]
      cases hk : op.key with
      | nh i => simpa [hk] using h
      | nhg g =>
        simp only [hk] at h ⊢
        split at h
        · cases h
        · rename_i hbad
          simp only [hbad, if_false]
          split at h
          · rename_i hall
            have : op.pl.nhs.all (fun n => s.has (op.ni, .nh n)) = true := by
              rw [List.all_eq_true] at hall ⊢
              intro n hn
              exact hm _ (hall n hn)
            simp [this]
          · cases h
      | v4 x =>
        simp only [hk] at h ⊢
        split at h
        · cases h
        · rename_i h0
          simp only [h0, if_false]
          split at h
          · cases h
          · rename_i hni
            split at h
            · rename_i hh
              have : ¬ (op.pl.grpNI ≠ "" ∧ ¬ s.hasNI op.pl.grpNI = true) := by
                intro ⟨a, b⟩
                have h1 : s'.hasNI op.pl.grpNI = true := by
                  by_cases hx : s'.hasNI op.pl.grpNI = true
                  · exact hx
                  · exact absurd ⟨a, hx⟩ hni
                have h2 : tgtNI op.ni op.pl = op.pl.grpNI := by unfold tgtNI; simp [a]
                rw [h2] at hh
                exact b (hn _ _ h1 hh)
              simp only [this, if_false]
              simp [hm _ hh]
            · cases h
      | v6 x =>
        simp only [hk] at h ⊢
        split at h
        · cases h
        · rename_i h0
          simp only [h0, if_false]
          split at h
          · cases h
          · rename_i hni
            split at h
            · rename_i hh
              have : ¬ (op.pl.grpNI ≠ "" ∧ ¬ s.hasNI op.pl.grpNI = true) := by
                intro ⟨a, b⟩
                have h1 : s'.hasNI op.pl.grpNI = true := by
                  by_cases hx : s'.hasNI op.pl.grpNI = true
                  · exact hx
                  · exact absurd ⟨a, hx⟩ hni
                have h2 : tgtNI op.ni op.pl = op.pl.grpNI := by unfold tgtNI; simp [a]
                rw [h2] at hh
                exact b (hn _ _ h1 hh)
              simp only [this, if_false]
              simp [hm _ hh]
            · cases h
      | mpls x =>
        simp only [hk] at h ⊢
        split at h
        · cases h
        · rename_i h0
          simp only [h0, if_false]
          split at h
          · cases h
          · rename_i hni
            split at h
            · rename_i hh
              have : ¬ (op.pl.grpNI ≠ "" ∧ ¬ s.hasNI op.pl.grpNI = true) := by
                intro ⟨a, b⟩
                have h1 : s'.hasNI op.pl.grpNI = true := by
                  by_cases hx : s'.hasNI op.pl.grpNI = true
                  · exact hx
                  · exact absurd ⟨a, hx⟩ hni
                have h2 : tgtNI op.ni op.pl = op.pl.grpNI := by unfold tgtNI; simp [a]
                rw [h2] at hh
                exact b (hn _ _ h1 hh)
              simp only [this, if_false]
              simp [hm _ hh]
            · cases h

theorem classify_ok_mono {s s' : Rib} (hm : ∀ k, s'.has k = true → s.has k = true) (hn : s'.nis = s.nis)
    {op : Op} (h : classify s' op = .ok) : classify s op = .ok :=
  classify_ok_mono' hm (fun x _ h1 _ => by simpa [hasNI, hn] using h1) h

/-- classification only reads contents and instances -/
theorem classify_congr {s s' : Rib} (he : s'.ents = s.ents) (hn : s'.nis = s.nis) (op : Op) :
    classify s' op = classify s op := by
  unfold classify Rib.has hasNI
  rw [he, hn]

theorem quiescent_none {s : Rib} (h : quiescent s = true) : NoneInstallable s := by
  intro id op hg hc
  unfold quiescent at h
  rw [List.all_eq_true] at h
  have := h (id, op) (Map.get?_some_mem hg)
  simp [hc] at this

/-- removing entries never makes a held operation installable -/
theorem none_of_shrink {s s' : Rib} (h : NoneInstallable s) (hm : ∀ k, s'.has k = true → s.has k = true)
    (hn : s'.nis = s.nis) (hp : s'.pend = s.pend) : NoneInstallable s' := by
  intro id op hg hc
  rw [hp] at hg
  exact h id op hg (classify_ok_mono hm hn hc)

theorem del_has_mono (s : Rib) (op : Op) (k : EKey) (h : (Rib.del s op).1.has k = true) : s.has k = true := by
  unfold Rib.del at h
  split at h
  · exact h
  · split at h
    · exact h
    · exact h
    · exact h
    · split at h
      · exact h
      · simp only [Rib.has, Map.has, unref_ents, Map.get?_erase] at h ⊢
        split at h
        · simp at h
        · exact h

theorem flush_has_mono (s : Rib) (nis : List NI) (k : EKey) (h : (flush s nis).1.has k = true) : s.has k = true := by
  have := (C01.flush_ents s nis).1 k
  simp only [Rib.has, Map.has] at h ⊢
  rw [this, Map.get?_eraseP] at h
  split at h
  · simp at h
  · exact h

/-- **C02 (completeness).** After every step of every accepted history no held operation
is installable: whatever became resolvable was acknowledged by the cascade of the step that
made it so. -/
theorem c02_complete_step {s s' : Rib} {i : Rib.In} {o : Out} (h : step s i = some (s', o))
    (hq : NoneInstallable s) (hi : Inv s) : NoneInstallable s' := by
  cases i with
  | add op script =>
    simp only [step] at h
    unfold Rib.add at h
    split at h
    · split at h
      · cases h; exact hq
      · cases h
    · split at h
      · split at h
        · cases h
          intro id op' hg hc
          simp only [Map.get?_erase] at hg
          split at hg
          · cases hg
          · exact hq id op' hg (by rw [← classify_congr (s := s) rfl rfl op']; exact hc)
        · cases h
      · rename_i hhold
        split at h
        · cases h
        · split at h
          · cases h
            intro id op' hg hc
            simp only [Map.get?_insert] at hg
            have hc' : classify s op' = .ok := by rw [← classify_congr (s := s) rfl rfl op']; exact hc
            split at hg
            · cases hg; rw [hhold] at hc'; cases hc'
            · exact hq id op' hg hc'
          · cases h; exact hq
      · simp only at h
        split at h
        · cases h
        · split at h
          · rename_i hqq
            cases h
            exact quiescent_none hqq
          · cases h
  | del op =>
    simp only [step, Option.some.injEq] at h
    have h1 := C03.del_pend s op
    rw [h] at h1
    apply none_of_shrink hq _ h1.2 h1.1
    intro k hk
    have := del_has_mono s op k
    rw [h] at this
    exact this hk
  | flush nis =>
    simp only [step, Option.some.injEq, Prod.mk.injEq] at h
    obtain ⟨rfl, rfl⟩ := h
    have h1 := C03.flush_pend s nis
    exact none_of_shrink hq (flush_has_mono s nis) h1.2 h1.1
  | addNI ni =>
    simp only [step, Option.some.injEq, Prod.mk.injEq] at h
    obtain ⟨rfl, rfl⟩ := h
    unfold addNI
    split
    · exact hq
    · -- a new, empty instance resolves nothing that did not resolve before
      intro id op hg hc
      apply hq id op hg
      apply classify_ok_mono' (s := s) _ _ hc
      · intro k hk; exact hk
      · intro x g _ h2
        have : ∃ p, s.ents.get? (x, Key.nhg g) = some p := by
          simpa [Rib.has, Map.has, Option.isSome_iff_exists] using h2
        obtain ⟨p, hp⟩ := this
        exact (hi.wf _ _ hp).1
  | setHook =>
    simp only [step, Option.some.injEq, Prod.mk.injEq] at h
    obtain ⟨rfl, rfl⟩ := h
    exact hq

/-! ### histories -/

structure Good (s : Rib) : Prop where
  inv : Inv s
  pni : C03.PendNI s
  closed : Closed s
  none : NoneInstallable s

/-- a Flush names all instances that exist when it is issued -/
def flushFull (s : Rib) : Rib.In → Prop
  | .flush nis => ∀ n, s.hasNI n = true → nis.contains n = true
  | _ => True

/-- every Flush of the history names all instances that exist when it is issued -/
def FullFlushes : Rib → List Rib.In → Prop
  | _, [] => True
  | s, i :: rest => flushFull s i ∧ (∀ s' o, step s i = some (s', o) → FullFlushes s' rest)

theorem good_new (d : NI) (f : Bool) : Good (Rib.new d f) :=
  ⟨inv_new d f, by intro id op hg; simp [Rib.new] at hg, by intro k p hg; simp [Rib.new] at hg,
   by intro id op hg; simp [Rib.new] at hg⟩

theorem closed_step {s s' : Rib} {i : Rib.In} {o : Out} (h : step s i = some (s', o)) (hg : Good s)
    (hf : flushFull s i) : Closed s' := by
  cases i with
  | add op script => exact closed_add h hg.closed
  | del op =>
    simp only [step, Option.some.injEq] at h
    have := closed_del hg.closed hg.inv op
    rw [h] at this
    exact this
  | flush nis =>
    simp only [step, Option.some.injEq, Prod.mk.injEq] at h
    obtain ⟨rfl, rfl⟩ := h
    exact closed_flush_all hg.inv nis hf
  | addNI ni =>
    simp only [step, Option.some.injEq, Prod.mk.injEq] at h
    obtain ⟨rfl, rfl⟩ := h
    unfold addNI
    split
    · exact hg.closed
    · exact closed_of_same hg.closed rfl
  | setHook =>
    simp only [step, Option.some.injEq, Prod.mk.injEq] at h
    obtain ⟨rfl, rfl⟩ := h
    exact closed_of_same hg.closed rfl

theorem good_run {s s' : Rib} {ins : List Rib.In} {outs : List Out}
    (h : run s ins = some (s', outs)) (hg : Good s) (hf : FullFlushes s ins) : Good s' := by
  induction ins generalizing s outs with
  | nil =>
    simp only [run, Option.some.injEq, Prod.mk.injEq] at h
    obtain ⟨rfl, rfl⟩ := h
    exact hg
  | cons i rest ih =>
    simp only [run] at h
    split at h
    · cases h
    · rename_i s1 o1 h1
      split at h
      · cases h
      · rename_i s2 os h2
        cases h
        obtain ⟨hf1, hf2⟩ := hf
        obtain ⟨i1, p1⟩ := C03.inv_step h1 hg.inv hg.pni
        have c1 := closed_step h1 hg hf1
        have n1 := c02_complete_step h1 hg.none hg.inv
        exact ih h2 ⟨i1, p1, c1, n1⟩ (hf2 s1 o1 h1)

/-- **C02 (closure).** Starting from an empty RIB, after any accepted history of Modify
operations and full flushes — dependencies arriving last, deleted and re-added, or never —
no installed entry dangles, and no held operation is resolvable. -/
theorem c02_closed_complete (d : NI) (f : Bool) {s' : Rib} {ins : List Rib.In} {outs : List Out}
    (h : run (Rib.new d f) ins = some (s', outs)) (hf : FullFlushes (Rib.new d f) ins) :
    Closed s' ∧ NoneInstallable s' :=
  let g := good_run h (good_new d f) hf
  ⟨g.closed, g.none⟩

/-- completeness does not need the flushes to be full -/
theorem c02_complete {s s' : Rib} {ins : List Rib.In} {outs : List Out}
    (h : run s ins = some (s', outs)) (hi : Inv s) (hp : C03.PendNI s) (hq : NoneInstallable s) :
    NoneInstallable s' := by
  induction ins generalizing s outs with
  | nil =>
    simp only [run, Option.some.injEq, Prod.mk.injEq] at h
    obtain ⟨rfl, rfl⟩ := h
    exact hq
  | cons i rest ih =>
    simp only [run] at h
    split at h
    · cases h
    · rename_i s1 o1 h1
      split at h
      · cases h
      · rename_i s2 os h2
        cases h
        obtain ⟨i1, p1⟩ := C03.inv_step h1 hi hp
        exact ih h2 i1 p1 (c02_complete_step h1 hq hi)

/-! ### forward references disallowed -/

/-- **C02 (disallowed).** With forward references off, nothing is ever held, and an
unresolved operation is answered FAILED in the same call. -/
theorem c02_disallowed_step {s s' : Rib} {i : Rib.In} {o : Out} (h : step s i = some (s', o))
    (hf : s.fwd = false) (hp : s.pend = []) : s'.pend = [] ∧ s'.fwd = false := by
  cases i with
  | add op script =>
    simp only [step] at h
    unfold Rib.add at h
    split at h
    · split at h
      · cases h; exact ⟨hp, hf⟩
      · cases h
    · split at h
      · split at h
        · cases h; simp [hp, hf, Map.erase]
        · cases h
      · split at h
        · cases h
        · split at h
          · rename_i hfw; rw [hf] at hfw; cases hfw
          · cases h; exact ⟨hp, hf⟩
      · simp only at h
        split at h
        · cases h
        · rename_i s2 o2 hc
          split at h
          · cases h
            -- the cascade has nothing to fire
            have : ∀ (script : List CEv) (s s' : Rib) (o : Out), runCascade s script = some (s', o) →
                s.pend = [] → s'.pend = [] ∧ s'.fwd = s.fwd := by
              intro script
              induction script with
              | nil => intro s s' o h hp; simp only [runCascade, Option.some.injEq, Prod.mk.injEq] at h; obtain ⟨rfl, _⟩ := h; exact ⟨hp, rfl⟩
              | cons ev rest ih =>
                intro s s' o h hp
                simp only [runCascade] at h
                split at h
                · cases h
                · rename_i s1 o1 h1
                  exfalso
                  unfold fire at h1
                  cases ev <;> simp [hp] at h1
            have := this script _ _ _ hc (by simp [hp, Map.erase])
            exact ⟨this.1, by rw [this.2]; simpa using hf⟩
          · cases h
  | del op =>
    simp only [step, Option.some.injEq] at h
    have h1 := C03.del_pend s op
    rw [h] at h1
    refine ⟨by rw [h1.1, hp], ?_⟩
    have : (Rib.del s op).1.fwd = s.fwd := by
      unfold Rib.del
      split
      · rfl
      · split <;> (try rfl)
        split
        · rfl
        · simp
    rw [h] at this
    rw [this, hf]
  | flush nis =>
    simp only [step, Option.some.injEq, Prod.mk.injEq] at h
    obtain ⟨rfl, rfl⟩ := h
    have h1 := C03.flush_pend s nis
    refine ⟨by rw [h1.1, hp], ?_⟩
    have : ∀ (nis : List NI) (s : Rib), (flush s nis).1.fwd = s.fwd := by
      intro nis
      induction nis with
      | nil => intro s; rfl
      | cons ni rest ih =>
        intro s
        simp only [flush]
        rw [ih]
        have hfold : ∀ (l : Map EKey Payload) (s : Rib),
            (l.foldl (fun s e => unref s ni e.1.2 e.2) s).fwd = s.fwd := by
          intro l
          induction l with
          | nil => intro s; rfl
          | cons e t ih => intro s; simp only [List.foldl]; rw [ih]; simp
        simp [flushNI, hfold]
    rw [this, hf]
  | addNI ni =>
    simp only [step, Option.some.injEq, Prod.mk.injEq] at h
    obtain ⟨rfl, rfl⟩ := h
    unfold addNI
    split <;> exact ⟨hp, hf⟩
  | setHook =>
    simp only [step, Option.some.injEq, Prod.mk.injEq] at h
    obtain ⟨rfl, rfl⟩ := h
    exact ⟨hp, hf⟩

/-- with forward references off, an unresolved ADD is answered FAILED at once -/
theorem c02_disallowed_failed {s : Rib} {op : Op} (hf : s.fwd = false) (hh : classify s op = .hold)
    (hni : ¬ (op.cls = .noEntry ∨ ¬ s.hasNI op.ni)) :
    Rib.add s op [] = some (s, { fails := [op.id] }) := by
  unfold Rib.add
  rw [if_neg hni]
  simp [hh, hf]

/-! ### the cascade relation is never empty -/

theorem runCascade_cons {s s1 s2 : Rib} {ev : CEv} {rest : List CEv} {o1 o2 : Out}
    (h1 : fire s ev = some (s1, o1)) (h2 : runCascade s1 rest = some (s2, o2)) :
    runCascade s (ev :: rest) = some (s2, o1.append o2) := by
  simp [runCascade, h1, h2]

theorem length_erase_lt {m : Map Nat Op} {id : Nat} {op : Op} (h : m.get? id = some op) :
    (m.erase id).length < m.length := by
  unfold Map.erase
  have hmem := Map.get?_some_mem h
  have : (m.filter fun e => !decide (e.1 = id)).length < m.length := by
    apply List.length_filter_lt_length_iff_exists.mpr
    exact ⟨(id, op), hmem, by simp⟩
  exact this

/-- **C02 (the cascade terminates and exists).** From every state with distinct held ids
there is an accepted cascade: a finite order of firings ending in a quiescent state. -/
theorem cascade_exists : ∀ (n : Nat) (s : Rib), s.pend.length ≤ n → Map.NoDupKeys s.pend →
    ∃ script s' o, runCascade s script = some (s', o) ∧ quiescent s' = true := by
  intro n
  induction n with
  | zero =>
    intro s hl _
    have : s.pend = [] := List.length_eq_zero_iff.mp (Nat.le_zero.mp hl)
    exact ⟨[], s, {}, rfl, by simp [quiescent, this]⟩
  | succ n ih =>
    intro s hl hn
    by_cases hq : quiescent s = true
    · exact ⟨[], s, {}, rfl, hq⟩
    · -- some held operation is not `hold`: fire it
      have hq' : quiescent s = false := by simpa using hq
      unfold quiescent at hq'
      rw [List.all_eq_false] at hq'
      obtain ⟨e, he, hne⟩ := hq'
      have hget : s.pend.get? e.1 = some e.2 := Map.get?_of_mem_nodup hn (by simpa using he)
      have hlt := length_erase_lt hget
      cases hc : classify s e.2 with
      | hold => simp [hc] at hne
      | ok =>
        have hf : fire s (.ok e.1) = some ({ (install s e.2).1 with pend := (install s e.2).1.pend.erase e.1 },
            { oks := [e.2], hooks := (install s e.2).2,
              resolved := if e.2.key.isTop then [(true, e.2.ni, e.2.key)] else [] }) := by
          simp [fire, hget, hc]
        obtain ⟨script, s', o, hr, hq'⟩ := ih { (install s e.2).1 with pend := (install s e.2).1.pend.erase e.1 }
          (by simp only [install_pend]; omega) (by simp only [install_pend]; exact Map.nodup_erase hn _)
        exact ⟨.ok e.1 :: script, s', _, runCascade_cons hf hr, hq'⟩
      | err =>
        have hf : fire s (.fail e.1) = some ({ s with pend := s.pend.erase e.1 }, { fails := [e.1] }) := by
          simp [fire, hget, hc]
        obtain ⟨script, s', o, hr, hq'⟩ := ih { s with pend := s.pend.erase e.1 }
          (by simp only; omega) (Map.nodup_erase hn _)
        exact ⟨.fail e.1 :: script, s', _, runCascade_cons hf hr, hq'⟩

/-- `AddEntry` always has an accepted outcome: the model's relation is total -/
theorem add_total (s : Rib) (op : Op) (hn : Map.NoDupKeys s.pend) :
    ∃ script, (Rib.add s op script).isSome = true := by
  by_cases h1 : op.cls = .noEntry ∨ ¬ s.hasNI op.ni
  · exact ⟨[], by unfold Rib.add; rw [if_pos h1]; simp⟩
  · cases hc : classify s op with
    | err => exact ⟨[], by unfold Rib.add; rw [if_neg h1]; simp [hc]⟩
    | hold => exact ⟨[], by unfold Rib.add; rw [if_neg h1]; by_cases hf : s.fwd = true <;> simp [hc, hf]⟩
    | ok =>
      obtain ⟨script, s', o, hr, hq⟩ := cascade_exists _
        { (install s op).1 with pend := (install s op).1.pend.erase op.id } (Nat.le_refl _)
        (by simp only [install_pend]; exact Map.nodup_erase hn _)
      refine ⟨script, ?_⟩
      unfold Rib.add
      rw [if_neg h1]
      simp only [hc]
      split
      · rename_i heq; exact absurd (hr.symm.trans heq) (by simp)
      · rename_i s2 o2 heq
        have : (s2, o2) = (s', o) := Option.some.inj (heq.symm.trans hr)
        cases this
        simp [hq]

end Gribi.C02
