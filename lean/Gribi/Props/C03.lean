/-
C03 — Referenced groups/next-hops cannot be deleted; unreferenced ones always can.

`Rib.Inv` (Lemmas/RefInv.lean) says: every reference counter equals the number of installed
referrers. It is proved here for every state reachable through any accepted history, and
the DELETE verdict is then characterised purely in terms of the installed entries.
-/
import Gribi.Lemmas.RefInv
namespace Gribi.C03
open Gribi Rib

/-- every held operation names an existing network instance -/
def PendNI (s : Rib) : Prop := ∀ id op, s.pend.get? id = some op → s.hasNI op.ni = true

theorem inv_of_same {s s' : Rib} (hi : Inv s) (h1 : s'.ents = s.ents) (h2 : s'.nhgRef = s.nhgRef)
    (h3 : s'.nhRef = s.nhRef) (h4 : s'.nis = s.nis) : Inv s' := by
  refine ⟨by rw [h1]; exact hi.nodup, ?_, ?_, ?_⟩
  · intro k p hg
    rw [h1] at hg
    have := hi.wf k p hg
    simpa [hasNI, h4] using this
  · intro ni g; rw [h2, h1]; exact hi.nhg ni g
  · intro ni n; rw [h3, h1]; exact hi.nh ni n

theorem pendNI_erase {s : Rib} (h : PendNI s) (id : Nat) (s' : Rib) (hp : s'.pend = s.pend.erase id)
    (hn : s'.nis = s.nis) : PendNI s' := by
  intro id' op hg
  rw [hp, Map.get?_erase] at hg
  split at hg
  · cases hg
  · have := h id' op hg
    simpa [hasNI, hn] using this

theorem inv_fire {s s' : Rib} {ev : CEv} {o : Out} (h : fire s ev = some (s', o)) (hi : Inv s)
    (hp : PendNI s) : Inv s' ∧ PendNI s' := by
  unfold fire at h
  cases ev with
  | ok id =>
    simp only at h
    split at h
    · cases h
    · rename_i op hop
      split at h
      · rename_i hc
        cases h
        have hni := hp id op hop
        have := inv_install hi hc hni
        refine ⟨inv_of_same this rfl rfl rfl rfl, ?_⟩
        apply pendNI_erase (s := s) hp id
        · simp
        · simp
      · cases h
  | fail id =>
    simp only at h
    split at h
    · cases h
    · split at h
      · cases h
        exact ⟨inv_of_same hi rfl rfl rfl rfl, pendNI_erase hp id _ rfl rfl⟩
      · cases h

theorem inv_runCascade {s s' : Rib} {script : List CEv} {o : Out}
    (h : runCascade s script = some (s', o)) (hi : Inv s) (hp : PendNI s) : Inv s' ∧ PendNI s' := by
  induction script generalizing s o with
  | nil =>
    simp only [runCascade, Option.some.injEq, Prod.mk.injEq] at h
    obtain ⟨rfl, rfl⟩ := h
    exact ⟨hi, hp⟩
  | cons ev rest ih =>
    simp only [runCascade] at h
    split at h
    · cases h
    · rename_i s1 o1 h1
      split at h
      · cases h
      · rename_i s2 o2 h2
        cases h
        obtain ⟨i1, p1⟩ := inv_fire h1 hi hp
        exact ih h2 i1 p1

theorem inv_add {s s' : Rib} {op : Op} {script : List CEv} {o : Out}
    (h : Rib.add s op script = some (s', o)) (hi : Inv s) (hp : PendNI s) : Inv s' ∧ PendNI s' := by
  unfold Rib.add at h
  split at h
  · split at h
    · cases h; exact ⟨hi, hp⟩
    · cases h
  · rename_i hni
    have hni' : s.hasNI op.ni = true := by
      simp only [not_or, Decidable.not_not] at hni
      simpa using hni.2
    split at h
    · split at h
      · cases h; exact ⟨inv_of_same hi rfl rfl rfl rfl, pendNI_erase hp op.id _ rfl rfl⟩
      · cases h
    · split at h
      · cases h
      · split at h
        · cases h
          refine ⟨inv_of_same hi rfl rfl rfl rfl, ?_⟩
          intro id' op' hg
          simp only [Map.get?_insert] at hg
          split at hg
          · cases hg; exact hni'
          · exact hp id' op' hg
        · cases h; exact ⟨hi, hp⟩
    · rename_i hc
      simp only at h
      split at h
      · cases h
      · rename_i s2 o2 hcas
        split at h
        · cases h
          have i1 := inv_install hi hc hni'
          have i1' : Inv { (install s op).1 with pend := (install s op).1.pend.erase op.id } :=
            inv_of_same i1 rfl rfl rfl rfl
          have p1 : PendNI { (install s op).1 with pend := (install s op).1.pend.erase op.id } := by
            apply pendNI_erase (s := s) hp op.id
            · simp
            · simp
          exact inv_runCascade hcas i1' p1
        · cases h

theorem del_pend (s : Rib) (op : Op) : (Rib.del s op).1.pend = s.pend ∧ (Rib.del s op).1.nis = s.nis := by
  unfold Rib.del
  split
  · exact ⟨rfl, rfl⟩
  · split <;> (try exact ⟨rfl, rfl⟩)
    split
    · exact ⟨rfl, rfl⟩
    · simp

theorem flush_pend (s : Rib) (nis : List NI) : (flush s nis).1.pend = s.pend ∧ (flush s nis).1.nis = s.nis := by
  induction nis generalizing s with
  | nil => exact ⟨rfl, rfl⟩
  | cons ni rest ih =>
    simp only [flush]
    obtain ⟨h1, h2⟩ := ih (flushNI s ni).1
    have key := cnt_foldl_unref ni [] s (by simp) ("", 0)
    have hf : (flushNI s ni).1.pend = s.pend ∧ (flushNI s ni).1.nis = s.nis := by
      unfold flushNI
      simp only
      have : ∀ (l : Map EKey Payload) (s : Rib),
          (l.foldl (fun s e => unref s ni e.1.2 e.2) s).pend = s.pend ∧
          (l.foldl (fun s e => unref s ni e.1.2 e.2) s).nis = s.nis := by
        intro l
        induction l with
        | nil => intro s; exact ⟨rfl, rfl⟩
        | cons e t ih =>
          intro s
          simp only [List.foldl]
          obtain ⟨a, b⟩ := ih (unref s ni e.1.2 e.2)
          exact ⟨by rw [a]; simp, by rw [b]; simp⟩
      exact this _ s
    exact ⟨by rw [h1, hf.1], by rw [h2, hf.2]⟩

theorem inv_step {s s' : Rib} {i : Rib.In} {o : Out} (h : step s i = some (s', o)) (hi : Inv s)
    (hp : PendNI s) : Inv s' ∧ PendNI s' := by
  cases i with
  | add op script => exact inv_add h hi hp
  | del op =>
    simp only [step, Option.some.injEq] at h
    have := inv_del hi op
    obtain ⟨h1, h2⟩ := del_pend s op
    rw [h] at this h1 h2
    refine ⟨this, ?_⟩
    intro id op' hg
    rw [h1] at hg
    have hh := hp id op' hg
    simp only [hasNI] at hh ⊢
    rw [h2]
    exact hh
  | flush nis =>
    simp only [step, Option.some.injEq, Prod.mk.injEq] at h
    obtain ⟨rfl, rfl⟩ := h
    obtain ⟨h1, h2⟩ := flush_pend s nis
    refine ⟨inv_flush hi nis, ?_⟩
    intro id op' hg
    rw [h1] at hg
    have := hp id op' hg
    simpa [hasNI, h2] using this
  | addNI ni =>
    simp only [step, Option.some.injEq, Prod.mk.injEq] at h
    obtain ⟨rfl, rfl⟩ := h
    unfold addNI
    split
    · exact ⟨hi, hp⟩
    · refine ⟨⟨hi.nodup, ?_, hi.nhg, hi.nh⟩, ?_⟩
      · intro k p hg
        have := hi.wf k p hg
        simp only [hasNI, List.contains_append, Bool.or_eq_true] at this ⊢
        exact ⟨Or.inl this.1, fun hT => Or.inl (this.2 hT)⟩
      · intro id op' hg
        have := hp id op' hg
        simp only [hasNI, List.contains_append, Bool.or_eq_true] at this ⊢
        exact Or.inl this
  | setHook =>
    simp only [step, Option.some.injEq, Prod.mk.injEq] at h
    obtain ⟨rfl, rfl⟩ := h
    exact ⟨inv_of_same hi rfl rfl rfl rfl, hp⟩

theorem inv_run {s s' : Rib} {ins : List Rib.In} {outs : List Out}
    (h : run s ins = some (s', outs)) (hi : Inv s) (hp : PendNI s) : Inv s' ∧ PendNI s' := by
  induction ins generalizing s outs with
  | nil =>
    simp only [run, Option.some.injEq, Prod.mk.injEq] at h
    obtain ⟨rfl, rfl⟩ := h
    exact ⟨hi, hp⟩
  | cons i rest ih =>
    simp only [run] at h
    split at h
    · cases h
    · rename_i s1 o1 h1
      split at h
      · cases h
      · rename_i s2 os h2
        cases h
        obtain ⟨i1, p1⟩ := inv_step h1 hi hp
        exact ih h2 i1 p1

/-- **C03 (invariant).** After any accepted history from an empty RIB — adds, implicit and
explicit replaces that retarget references, deletes, partial and full flushes, cascades,
failed and held operations — every reference counter equals the number of installed
referrers. -/
theorem c03_refinv (d : NI) (f : Bool) {s' : Rib} {ins : List Rib.In} {outs : List Out}
    (h : run (Rib.new d f) ins = some (s', outs)) : Inv s' :=
  (inv_run h (inv_new d f) (by intro id op hg; simp [Rib.new] at hg)).1

/-- referrer counts are positive exactly when some installed entry refers -/
theorem nhgReferrers_pos_iff {ents : Map EKey Payload} (hn : Map.NoDupKeys ents) (ni : NI) (g : Nat) :
    0 < nhgReferrers ents ni g ↔ ∃ k p, ents.get? k = some p ∧ qNhg ni g (k, p) = true := by
  unfold nhgReferrers
  rw [List.countP_pos_iff]
  constructor
  · rintro ⟨⟨k, p⟩, hm, hq⟩
    exact ⟨k, p, Map.get?_of_mem_nodup hn hm, hq⟩
  · rintro ⟨k, p, hg, hq⟩
    exact ⟨(k, p), Map.get?_some_mem hg, hq⟩

theorem nhReferrers_pos_iff {ents : Map EKey Payload} (hn : Map.NoDupKeys ents) (ni : NI) (n : Nat) :
    0 < nhReferrers ents ni n ↔ ∃ k p, ents.get? k = some p ∧ qNh ni n (k, p) = true := by
  unfold nhReferrers
  rw [List.countP_pos_iff]
  constructor
  · rintro ⟨⟨k, p⟩, hm, hq⟩
    exact ⟨k, p, Map.get?_of_mem_nodup hn hm, hq⟩
  · rintro ⟨k, p, hg, hq⟩
    exact ⟨(k, p), Map.get?_some_mem hg, hq⟩

/-- **C03 (verdict, groups).** A well-formed DELETE of group `g ≠ 0` in an existing instance
is answered FAILED exactly when the group is installed and some installed IPv4/IPv6/MPLS
entry of any instance points at it. The right-hand side mentions installed entries only. -/
theorem c03_verdict_nhg {s : Rib} (hi : Inv s) (op : Op) (g : Nat) (hk : op.key = .nhg g) (hg0 : g ≠ 0)
    (hcls : op.cls = .wf) (hni : s.hasNI op.ni = true) :
    (Rib.del s op).2.fails = [op.id] ↔
      ((s.ents.get? (op.ni, .nhg g)).isSome = true ∧
        ∃ k p, s.ents.get? k = some p ∧ k.2.isTop = true ∧ tgtNI k.1 p = op.ni ∧ p.grp = g) := by
  have hcnt := hi.nhg op.ni g
  have hpos := nhgReferrers_pos_iff hi.nodup op.ni g
  have hex : (∃ k p, s.ents.get? k = some p ∧ qNhg op.ni g (k, p) = true) ↔
      ∃ k p, s.ents.get? k = some p ∧ k.2.isTop = true ∧ tgtNI k.1 p = op.ni ∧ p.grp = g := by
    constructor
    · rintro ⟨k, p, h1, h2⟩
      have := (qNhg_iff (op.ni, g) k p).mp h2
      exact ⟨k, p, h1, this.1, (Prod.ext_iff.mp this.2).1.symm, (Prod.ext_iff.mp this.2).2.symm⟩
    · rintro ⟨k, p, h1, h2, h3, h4⟩
      exact ⟨k, p, h1, (qNhg_iff (op.ni, g) k p).mpr ⟨h2, by rw [h3, h4]⟩⟩
  rw [← hex, ← hpos, ← hcnt]
  unfold Rib.del
  have h0 : ¬ (op.cls = Cls.noEntry ∨ ¬ s.hasNI op.ni = true) := by simp [hcls, hni]
  rw [if_neg h0]
  unfold classifyDel
  simp only [hcls, hk, ne_eq, not_true_eq_false, if_false, hg0, Rib.has, Map.has]
  cases hget : s.ents.get? (op.ni, Key.nhg g) with
  | none => simp
  | some p =>
    by_cases hc : cnt s.nhgRef (op.ni, g) > 0
    · simp [hc]
    · have : cnt s.nhgRef (op.ni, g) = 0 := by omega
      simp [this, hk, hget]

/-- **C03 (verdict, next-hops).** Likewise for next-hop `i ≠ 0`: FAILED exactly when it is
installed and some installed group of its instance contains it. -/
theorem c03_verdict_nh {s : Rib} (hi : Inv s) (op : Op) (i : Nat) (hk : op.key = .nh i) (hi0 : i ≠ 0)
    (hcls : op.cls = .wf) (hni : s.hasNI op.ni = true) :
    (Rib.del s op).2.fails = [op.id] ↔
      ((s.ents.get? (op.ni, .nh i)).isSome = true ∧
        ∃ k p, s.ents.get? k = some p ∧ isNhgKey k.2 = true ∧ k.1 = op.ni ∧ i ∈ p.nhs) := by
  have hcnt := hi.nh op.ni i
  have hpos := nhReferrers_pos_iff hi.nodup op.ni i
  have hex : (∃ k p, s.ents.get? k = some p ∧ qNh op.ni i (k, p) = true) ↔
      ∃ k p, s.ents.get? k = some p ∧ isNhgKey k.2 = true ∧ k.1 = op.ni ∧ i ∈ p.nhs := by
    constructor
    · rintro ⟨k, p, h1, h2⟩
      have := (qNh_iff (op.ni, i) k p).mp h2
      exact ⟨k, p, h1, this.1, this.2.1.symm, this.2.2⟩
    · rintro ⟨k, p, h1, h2, h3, h4⟩
      exact ⟨k, p, h1, (qNh_iff (op.ni, i) k p).mpr ⟨h2, h3.symm, h4⟩⟩
  rw [← hex, ← hpos, ← hcnt]
  unfold Rib.del
  have h0 : ¬ (op.cls = Cls.noEntry ∨ ¬ s.hasNI op.ni = true) := by simp [hcls, hni]
  rw [if_neg h0]
  unfold classifyDel
  simp only [hcls, hk, ne_eq, not_true_eq_false, if_false, hi0, Rib.has, Map.has]
  cases hget : s.ents.get? (op.ni, Key.nh i) with
  | none => simp
  | some p =>
    by_cases hc : cnt s.nhRef (op.ni, i) > 0
    · simp [hc]
    · have : cnt s.nhRef (op.ni, i) = 0 := by omega
      simp [this, hk, hget]

/-- top-level entries can always be deleted (labels must fit the implementation's 32 bits) -/
theorem c03_top_always (s : Rib) (op : Op) (hT : op.key.isTop = true) (hcls : op.cls = .wf)
    (hni : s.hasNI op.ni = true) (hl : ∀ l, op.key = .mpls l → l ≤ maxLabel) :
    (Rib.del s op).2.fails = [] ∧ (Rib.del s op).2.oks = [op] := by
  unfold Rib.del
  have h0 : ¬ (op.cls = Cls.noEntry ∨ ¬ s.hasNI op.ni = true) := by simp [hcls, hni]
  rw [if_neg h0]
  unfold classifyDel
  cases hk : op.key with
  | nhg g => simp [hk, Key.isTop] at hT
  | nh i => simp [hk, Key.isTop] at hT
  | v4 p =>
    simp only [hcls, ne_eq, not_true_eq_false, if_false]
    by_cases h : s.has (op.ni, Key.v4 p) = true
    · simp only [h, if_true]
      have : ∃ q, s.ents.get? (op.ni, Key.v4 p) = some q := by
        simpa [Rib.has, Map.has, Option.isSome_iff_exists] using h
      obtain ⟨q, hq⟩ := this
      simp [hq]
    · simp [h]
  | v6 p =>
    simp only [hcls, ne_eq, not_true_eq_false, if_false]
    by_cases h : s.has (op.ni, Key.v6 p) = true
    · simp only [h, if_true]
      have : ∃ q, s.ents.get? (op.ni, Key.v6 p) = some q := by
        simpa [Rib.has, Map.has, Option.isSome_iff_exists] using h
      obtain ⟨q, hq⟩ := this
      simp [hq]
    · simp [h]
  | mpls l =>
    have hl' := hl l hk
    have : ¬ l > maxLabel := by omega
    simp only [hcls, ne_eq, not_true_eq_false, if_false, this]
    by_cases h : s.has (op.ni, Key.mpls l) = true
    · simp only [h, if_true]
      have : ∃ q, s.ents.get? (op.ni, Key.mpls l) = some q := by
        simpa [Rib.has, Map.has, Option.isSome_iff_exists] using h
      obtain ⟨q, hq⟩ := this
      simp [hq]
    · simp [h]

end Gribi.C03
