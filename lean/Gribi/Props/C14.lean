/-
C14 — The client terminates cleanly under server faults.

Proved on the lifecycle abstraction `Conc.LC` (application queueing a burst of any length,
sender, stream fault at any point, the sender's exit signal): no reachable state is stuck while
the application still has requests to queue, and every run is finite — so every call that queues
a request returns. With the accounting model (C13): a recorded fault makes AwaitConverged return
the error, never success; Reset gives the initial accounting state. The witness of the defect of
the pinned commit (D12) is kept. Goroutine scheduling, `sync.WaitGroup`, gRPC and timers are not
modelled; the real client is exercised by fault enumeration (see DESIGN.md C14).
-/
import Gribi.Model.Conc
import Gribi.Props.C13
namespace Gribi.C14
open Gribi.Conc Gribi.Conc.LC

theorem inv_fire {s : St} (hi : Inv s) (t : Tr) (he : enabled s t = true) : Inv (fire s t) := by
  obtain ⟨h1, h2⟩ := hi
  cases t with
  | appQ =>
    simp only [enabled, Bool.and_eq_true, decide_eq_true_eq, Bool.or_eq_true] at he
    simp only [fire]
    by_cases hx : s.exitClosed = true
    · simp only [hx, if_true]
      exact ⟨by simpa [hx] using h1, h2⟩
    · simp only [hx, Bool.false_eq_true, if_false]
      refine ⟨?_, ?_⟩
      · intro hs
        rcases h1 hs with h | h
        · exact absurd h hx
        · exact Or.inr h
      · rcases he.2 with h | h
        · exact absurd h hx
        · show s.chan + 1 ≤ cap
          omega
  | sendOk => exact ⟨h1, by show s.chan - 1 ≤ cap; omega⟩
  | sendFail => exact ⟨fun _ => Or.inr rfl, by show s.chan - 1 ≤ cap; omega⟩
  | signalExit => exact ⟨fun _ => Or.inl rfl, h2⟩

/-- **C14 (no stuck state).** While the application still has a request to queue, something can
always move: its own `q`, the sender, or the exiting sender's signal. -/
theorem c14_no_stuck {s : St} (hi : Inv s) (ha : s.appLeft > 0) : ∃ t, enabled s t = true := by
  by_cases h1 : s.exitClosed = true
  · exact ⟨.appQ, by simp [enabled, ha, h1]⟩
  · by_cases h2 : s.chan < cap
    · exact ⟨.appQ, by simp [enabled, ha, h2]⟩
    · have hc : s.chan > 0 := by unfold cap at h2; omega
      by_cases h3 : s.senderAlive = true
      · exact ⟨.sendOk, by simp [enabled, h3, hc]⟩
      · have := hi.1 (by simpa using h3)
        rcases this with h | h
        · exact absurd h h1
        · exact ⟨.signalExit, by simp [enabled, h]⟩

/-- every transition strictly decreases this measure -/
def bit : Bool → Nat
  | true => 1
  | false => 0

def measure (s : St) : Nat := 3 * s.appLeft + 2 * s.chan + bit s.exitPending

theorem measure_decreases {s : St} (t : Tr) (he : enabled s t = true) : measure (fire s t) < measure s := by
  cases t with
  | appQ =>
    simp only [enabled, Bool.and_eq_true, decide_eq_true_eq] at he
    simp only [fire]
    by_cases hx : s.exitClosed = true
    · simp only [hx, if_true, measure]; omega
    · simp only [hx, Bool.false_eq_true, if_false, measure]; omega
  | sendOk =>
    simp only [enabled, Bool.and_eq_true, decide_eq_true_eq] at he
    simp only [fire, measure]; omega
  | sendFail =>
    simp only [enabled, Bool.and_eq_true, decide_eq_true_eq] at he
    simp only [fire, measure]
    cases s.exitPending <;> simp only [bit] <;> omega
  | signalExit =>
    simp only [enabled] at he
    simp only [fire, measure, he, bit]
    omega

/-- a run of enabled transitions -/
inductive Run : St → List Tr → St → Prop where
  | nil (s : St) : Run s [] s
  | cons {s s' : St} {t : Tr} {ts : List Tr} : enabled s t = true → Run (fire s t) ts s' → Run s (t :: ts) s'

theorem run_inv {s s' : St} {ts : List Tr} (hr : Run s ts s') (hi : Inv s) : Inv s' := by
  induction hr with
  | nil => exact hi
  | cons he _ ih => exact ih (inv_fire hi _ he)

theorem run_length {s s' : St} {ts : List Tr} (hr : Run s ts s') : ts.length + measure s' ≤ measure s := by
  induction hr with
  | nil => simp
  | cons he _ ih =>
    have := measure_decreases _ he
    simp only [List.length_cons]
    omega

/-- **C14 (queueing calls return).** Every run is finite (bounded by the measure), and a run
that cannot be extended has no request left to queue: for any burst length, any fault position. -/
theorem c14_q_returns {s s' : St} {ts : List Tr} (hi : Inv s) (hr : Run s ts s')
    (hmax : ∀ t, enabled s' t = false) : s'.appLeft = 0 ∧ ts.length ≤ measure s := by
  refine ⟨?_, by have := run_length hr; omega⟩
  have hi' := run_inv hr hi
  cases h : s'.appLeft with
  | zero => rfl
  | succ n =>
    obtain ⟨t, ht⟩ := c14_no_stuck hi' (by omega)
    rw [hmax t] at ht
    cases ht

theorem inv_init (n : Nat) : Inv { appLeft := n } := by
  constructor
  · intro h; simp at h
  · simp [cap]

/-- a run of the as-written transitions -/
def runGo (s : St) (ts : List Tr) : Option St :=
  ts.foldl (fun acc t => acc.bind (fun s => if enabledGo s t then some (fireGo s t) else none)) (some s)

/-- **the defect of the pinned commit (D12).** With `q` as written (test the exit channel, then a
plain blocking send) a burst of 8 requests and a failing first `Send` reach a state in which the
application is blocked for ever: channel full, sender gone — even after the exit signal. -/
theorem c14_stuck_witness_as_written :
    ∃ ts s', runGo { appLeft := 8 } ts = some s' ∧ s'.appLeft > 0 ∧ ∀ t, enabledGo s' t = false := by
  refine ⟨[.appQ, .appQ, .appQ, .appQ, .appQ, .appQ, .appQ, .appQ, .appQ, .appQ,   -- five messages queued
           .appQ,                                                                     -- sixth: committed, blocked (full)
           .sendFail,                                                                 -- first Send fails
           .appQ,                                                                     -- sixth goes in
           .appQ,                                                                     -- seventh passes the test (no signal yet)
           .signalExit], _, rfl, ?_, ?_⟩
  · decide
  · intro t; cases t <;> decide

open Gribi.Cl in
/-- **C14 (the error surfaces).** Once a send or receive fault has been recorded, AwaitConverged
returns the recorded errors and never reports convergence, whatever else happens afterwards
(the error counters only grow until Reset). -/
theorem c14_error_surfaces (s : State) (h : s.sendErrs ≠ 0 ∨ s.recvErrs ≠ 0) :
    await s = .errors s.sendErrs s.recvErrs ∧ await s ≠ .converged := by
  unfold await
  simp [h]

open Gribi.Cl in
/-- **C14 (Reset gives a fresh client).** No stale pending operations, results or errors. -/
theorem c14_reset_fresh (s : State) :
    (reset s).pendOps = [] ∧ (reset s).results = [] ∧ (reset s).sendErrs = 0 ∧ (reset s).recvErrs = 0 ∧
    (reset s).sendq = [] ∧ (reset s).pendElec = false ∧ (reset s).pendParams = false ∧
    await (reset s) = .converged := by
  simp [reset, await]

end Gribi.C14
