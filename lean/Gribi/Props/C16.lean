/-
C16 — Change-notification hooks mirror the RIB.

A consumer that folds the post-change notifications (ADD carries the new entry, DELETE the
removed one; a DELETE of a key that was not installed carries no entry and is a no-op)
reconstructs exactly the installed entries, whatever the change came from (Modify,
resolution of a held operation, Flush) and whenever the network instance was created.
-/
import Gribi.Lemmas.RibBasic
import Gribi.Props.C03
namespace Gribi.C16
open Gribi Rib

/-- what the consumer does with one notification -/
def foldHook (m : Map EKey Payload) : HookEv → Map EKey Payload
  | .add ni k p => m.insert (ni, k) p
  | .del ni k (some _) => m.erase (ni, k)
  | .del _ _ none => m

def foldHooks (m : Map EKey Payload) (l : List HookEv) : Map EKey Payload := l.foldl foldHook m

theorem foldHook_equiv {a b : Map EKey Payload} (h : a ≃ₘ b) (e : HookEv) : foldHook a e ≃ₘ foldHook b e := by
  cases e with
  | add ni k p => exact h.insert _ _
  | del ni k p =>
    cases p with
    | none => exact h
    | some q => exact h.erase _

theorem foldHooks_equiv (l : List HookEv) {a b : Map EKey Payload} (h : a ≃ₘ b) :
    foldHooks a l ≃ₘ foldHooks b l := by
  induction l generalizing a b with
  | nil => exact h
  | cons x xs ih => exact ih (foldHook_equiv h x)

theorem foldHooks_append (m : Map EKey Payload) (a b : List HookEv) :
    foldHooks m (a ++ b) = foldHooks (foldHooks m a) b := by
  simp [foldHooks, List.foldl_append]

theorem install_hooks (s : Rib) (op : Op) (hh : s.hook = true) :
    (install s op).1.ents = foldHooks s.ents (install s op).2 ∧ (install s op).1.hook = true := by
  simp [install, hh, foldHooks, foldHook]

theorem fire_hooks {s s' : Rib} {ev : CEv} {o : Out} (h : fire s ev = some (s', o)) (hh : s.hook = true) :
    s'.ents = foldHooks s.ents o.hooks ∧ s'.hook = true := by
  unfold fire at h
  cases ev with
  | ok id =>
    simp only at h
    split at h
    · cases h
    · rename_i op _
      split at h
      · cases h
        have := install_hooks s op hh
        exact ⟨this.1, by simpa using hh⟩
      · cases h
  | fail id =>
    simp only at h
    split at h
    · cases h
    · split at h
      · cases h; exact ⟨rfl, hh⟩
      · cases h

theorem runCascade_hooks {s s' : Rib} {script : List CEv} {o : Out}
    (h : runCascade s script = some (s', o)) (hh : s.hook = true) :
    s'.ents = foldHooks s.ents o.hooks ∧ s'.hook = true := by
  induction script generalizing s o with
  | nil =>
    simp only [runCascade, Option.some.injEq, Prod.mk.injEq] at h
    obtain ⟨rfl, rfl⟩ := h
    exact ⟨rfl, hh⟩
  | cons ev rest ih =>
    simp only [runCascade] at h
    split at h
    · cases h
    · rename_i s1 o1 h1
      split at h
      · cases h
      · rename_i s2 o2 h2
        cases h
        obtain ⟨e1, p1⟩ := fire_hooks h1 hh
        obtain ⟨e2, p2⟩ := ih h2 p1
        refine ⟨?_, p2⟩
        rw [e2, e1]
        simp [Out.append, foldHooks_append]

theorem add_hooks {s s' : Rib} {op : Op} {script : List CEv} {o : Out}
    (h : Rib.add s op script = some (s', o)) (hh : s.hook = true) :
    s'.ents = foldHooks s.ents o.hooks ∧ s'.hook = true := by
  unfold Rib.add at h
  split at h
  · split at h
    · cases h; exact ⟨rfl, hh⟩
    · cases h
  · split at h
    · split at h
      · cases h; exact ⟨rfl, hh⟩
      · cases h
    · split at h
      · cases h
      · split at h
        · cases h; exact ⟨rfl, hh⟩
        · cases h; exact ⟨rfl, hh⟩
    · simp only at h
      split at h
      · cases h
      · rename_i s2 o2 hc
        split at h
        · cases h
          have i1 := install_hooks s op hh
          obtain ⟨e2, p2⟩ := runCascade_hooks (s := { (install s op).1 with pend := (install s op).1.pend.erase op.id }) hc (by simpa using hh)
          refine ⟨?_, p2⟩
          rw [e2]
          simp only [Out.append, foldHooks_append]
          rw [← i1.1]
        · cases h

theorem del_hooks (s : Rib) (op : Op) (hh : s.hook = true) :
    (Rib.del s op).1.ents = foldHooks s.ents (Rib.del s op).2.hooks ∧ (Rib.del s op).1.hook = true := by
  unfold Rib.del
  split
  · exact ⟨rfl, hh⟩
  · split
    · exact ⟨rfl, hh⟩
    · exact ⟨rfl, hh⟩
    · simp [hh, foldHooks, foldHook]
    · split
      · exact ⟨rfl, hh⟩
      · simp [hh, foldHooks, foldHook]

/-- erasing the keys of a list of bindings one by one -/
theorem foldl_erase_equiv (l : Map EKey Payload) (ni : NI) (m : Map EKey Payload)
    (hl : ∀ e ∈ l, e.1.1 = ni) :
    ∀ k, (foldHooks m (l.map (fun e => HookEv.del ni e.1.2 (some e.2)))).get? k =
      if l.any (fun e => e.1 == k) then none else m.get? k := by
  induction l generalizing m with
  | nil => intro k; simp [foldHooks]
  | cons e t ih =>
    intro k
    have he := hl e List.mem_cons_self
    simp only [List.map_cons, foldHooks, List.foldl_cons, foldHook]
    have := ih (m.erase (ni, e.1.2)) (fun e' h' => hl e' (List.mem_cons_of_mem _ h')) k
    simp only [foldHooks] at this
    rw [this]
    have hk : (ni, e.1.2) = e.1 := by rw [← he]
    simp only [List.any_cons, Map.get?_erase, hk]
    by_cases h1 : e.1 = k
    · simp [h1]
    · have : (e.1 == k) = false := by simpa using h1
      by_cases h2 : (t.any fun e => e.fst == k) = true <;> simp [this, h1, h2]

theorem flushNI_hooks (s : Rib) (ni : NI) (hh : s.hook = true) (hn : Map.NoDupKeys s.ents) :
    (flushNI s ni).1.ents ≃ₘ foldHooks s.ents (flushNI s ni).2 ∧ (flushNI s ni).1.hook = true ∧
    Map.NoDupKeys (flushNI s ni).1.ents := by
  have hfold : ∀ (l : Map EKey Payload) (s : Rib),
      (l.foldl (fun s e => unref s ni e.1.2 e.2) s).ents = s.ents ∧
      (l.foldl (fun s e => unref s ni e.1.2 e.2) s).hook = s.hook := by
    intro l
    induction l with
    | nil => intro s; exact ⟨rfl, rfl⟩
    | cons e t ih =>
      intro s
      simp only [List.foldl]
      obtain ⟨a, b⟩ := ih (unref s ni e.1.2 e.2)
      exact ⟨by rw [a]; simp, by rw [b]; simp⟩
  obtain ⟨h1, h2⟩ := hfold (s.entsOf ni) s
  unfold flushNI
  simp only [hh, if_true, h1, h2]
  refine ⟨?_, trivial, Map.nodup_eraseP hn _⟩
  intro k
  have hl : ∀ e ∈ s.entsOf ni, e.1.1 = ni := by
    intro e he
    have := (List.mem_filter.mp he).2
    simpa using this
  rw [foldl_erase_equiv (s.entsOf ni) ni s.ents hl k, Map.get?_eraseP]
  by_cases hk : k.1 = ni
  · have : (k.1 == ni) = true := by simpa using hk
    simp only [this, if_true]
    -- either k is installed (then it is among the flushed bindings) or it is not installed
    cases hg : s.ents.get? k with
    | none => simp
    | some p =>
      have hmem : (k, p) ∈ s.entsOf ni := by
        unfold entsOf
        exact List.mem_filter.mpr ⟨Map.get?_some_mem hg, by simpa using hk⟩
      have : (s.entsOf ni).any (fun e => e.1 == k) = true :=
        List.any_eq_true.mpr ⟨(k, p), hmem, by simp⟩
      simp [this]
  · have h1' : (k.1 == ni) = false := by simpa using hk
    have : (s.entsOf ni).any (fun e => e.1 == k) = false := by
      rw [List.any_eq_false]
      intro e he h
      have := hl e he
      have hek : e.1 = k := by simpa using h
      exact hk (hek ▸ this)
    simp [h1', this]

theorem flush_hooks (s : Rib) (nis : List NI) (hh : s.hook = true) (hn : Map.NoDupKeys s.ents) :
    (flush s nis).1.ents ≃ₘ foldHooks s.ents (flush s nis).2 ∧ (flush s nis).1.hook = true := by
  induction nis generalizing s with
  | nil => exact ⟨MapEquiv.refl _, hh⟩
  | cons ni rest ih =>
    simp only [flush]
    obtain ⟨e1, p1, n1⟩ := flushNI_hooks s ni hh hn
    obtain ⟨e2, p2⟩ := ih (flushNI s ni).1 p1 n1
    refine ⟨?_, p2⟩
    rw [foldHooks_append]
    exact e2.trans (foldHooks_equiv _ e1)

/-- one step, once the hook is registered: contents after = fold of this step's
notifications over the contents before -/
theorem step_hooks {s s' : Rib} {i : Rib.In} {o : Out} (h : step s i = some (s', o))
    (hh : s.hook = true) (hn : Map.NoDupKeys s.ents) :
    s'.ents ≃ₘ foldHooks s.ents o.hooks ∧ s'.hook = true := by
  cases i with
  | add op script =>
    obtain ⟨e, p⟩ := add_hooks h hh
    exact ⟨by rw [e]; exact MapEquiv.refl _, p⟩
  | del op =>
    simp only [step, Option.some.injEq] at h
    obtain ⟨e, p⟩ := del_hooks s op hh
    rw [h] at e p
    exact ⟨by rw [e]; exact MapEquiv.refl _, p⟩
  | flush nis =>
    simp only [step, Option.some.injEq, Prod.mk.injEq] at h
    obtain ⟨rfl, rfl⟩ := h
    exact flush_hooks s nis hh hn
  | addNI ni =>
    simp only [step, Option.some.injEq, Prod.mk.injEq] at h
    obtain ⟨rfl, rfl⟩ := h
    unfold addNI
    split
    · exact ⟨MapEquiv.refl _, hh⟩
    · exact ⟨MapEquiv.refl _, hh⟩
  | setHook =>
    simp only [step, Option.some.injEq, Prod.mk.injEq] at h
    obtain ⟨rfl, rfl⟩ := h
    exact ⟨MapEquiv.refl _, rfl⟩

def allHooks : List Out → List HookEv
  | [] => []
  | o :: os => o.hooks ++ allHooks os

/-- **C16 (mirror).** From any reachable state in which the hook is registered, folding the
notifications of any accepted history over the contents at registration time gives exactly
the final contents — in every network instance, whenever it was created. -/
theorem c16_mirror {s s' : Rib} {ins : List Rib.In} {outs : List Out}
    (h : run s ins = some (s', outs)) (hh : s.hook = true) (hi : Inv s) (hp : C03.PendNI s) :
    s'.ents ≃ₘ foldHooks s.ents (allHooks outs) := by
  induction ins generalizing s outs with
  | nil =>
    simp only [run, Option.some.injEq, Prod.mk.injEq] at h
    obtain ⟨rfl, rfl⟩ := h
    exact MapEquiv.refl _
  | cons i rest ih =>
    simp only [run] at h
    split at h
    · cases h
    · rename_i s1 o1 h1
      split at h
      · cases h
      · rename_i s2 os h2
        cases h
        obtain ⟨e1, p1⟩ := step_hooks h1 hh hi.nodup
        obtain ⟨i1, q1⟩ := C03.inv_step h1 hi hp
        have e2 := ih h2 p1 i1 q1
        simp only [allHooks, foldHooks_append]
        exact e2.trans (foldHooks_equiv _ e1)

/-- registering the hook on a fresh RIB and then running any history: the fold of all
notifications is the final contents -/
theorem c16_mirror_from_new (d : NI) (f : Bool) {s' : Rib} {ins : List Rib.In} {outs : List Out}
    (h : run (Rib.new d f).setHook ins = some (s', outs)) :
    s'.ents ≃ₘ foldHooks [] (allHooks outs) := by
  have hi : Inv (Rib.new d f).setHook := C03.inv_of_same (inv_new d f) rfl rfl rfl rfl
  have := c16_mirror h rfl hi (by intro id op hg; simp [Rib.new, Rib.setHook] at hg)
  simpa [Rib.new, Rib.setHook] using this

/-- before registration nothing is notified -/
theorem c16_silent_before {s s' : Rib} {i : Rib.In} {o : Out} (h : step s i = some (s', o))
    (hh : s.hook = false) : o.hooks = [] ∨ i = .setHook := by
  cases i with
  | setHook => exact Or.inr rfl
  | addNI ni => simp only [step, Option.some.injEq, Prod.mk.injEq] at h; obtain ⟨_, rfl⟩ := h; exact Or.inl rfl
  | flush nis =>
    simp only [step, Option.some.injEq, Prod.mk.injEq] at h
    obtain ⟨_, rfl⟩ := h
    left
    have : ∀ (nis : List NI) (s : Rib), s.hook = false → (flush s nis).2 = [] ∧ (flush s nis).1.hook = false := by
      intro nis
      induction nis with
      | nil => intro s hs; exact ⟨rfl, hs⟩
      | cons ni rest ih =>
        intro s hs
        simp only [flush]
        have h1 : (flushNI s ni).2 = [] := by simp [flushNI, hs]
        have h2 : (flushNI s ni).1.hook = false := by
          have hfold : ∀ (l : Map EKey Payload) (s : Rib),
              (l.foldl (fun s e => unref s ni e.1.2 e.2) s).hook = s.hook := by
            intro l
            induction l with
            | nil => intro s; rfl
            | cons e t ih => intro s; simp only [List.foldl]; rw [ih]; simp
          simp [flushNI, hfold, hs]
        obtain ⟨a, b⟩ := ih (flushNI s ni).1 h2
        exact ⟨by rw [h1, a]; rfl, b⟩
    exact (this nis s hh).1
  | del op =>
    simp only [step, Option.some.injEq] at h
    left
    have ho : o = (Rib.del s op).2 := by rw [h]
    rw [ho]
    unfold Rib.del
    split
    · rfl
    · split <;> (try rfl)
      · simp [hh]
      · split
        · rfl
        · simp [hh]
  | add op script =>
    left
    have hfire : ∀ {s s' : Rib} {ev : CEv} {o : Out}, fire s ev = some (s', o) → s.hook = false →
        o.hooks = [] ∧ s'.hook = false := by
      intro s s' ev o h hs
      unfold fire at h
      cases ev with
      | ok id =>
        simp only at h
        split at h
        · cases h
        · split at h
          · cases h; simp [install, hs]
          · cases h
      | fail id =>
        simp only at h
        split at h
        · cases h
        · split at h
          · cases h; exact ⟨rfl, hs⟩
          · cases h
    have hcas : ∀ (script : List CEv) {s s' : Rib} {o : Out}, runCascade s script = some (s', o) →
        s.hook = false → o.hooks = [] := by
      intro script
      induction script with
      | nil => intro s s' o h hs; simp only [runCascade, Option.some.injEq, Prod.mk.injEq] at h; obtain ⟨_, rfl⟩ := h; rfl
      | cons ev rest ih =>
        intro s s' o h hs
        simp only [runCascade] at h
        split at h
        · cases h
        · rename_i s1 o1 h1
          split at h
          · cases h
          · rename_i s2 o2 h2
            cases h
            obtain ⟨a, b⟩ := hfire h1 hs
            have c := ih h2 b
            simp [Out.append, a, c]
    simp only [step] at h
    unfold Rib.add at h
    split at h
    · split at h
      · cases h; rfl
      · cases h
    · split at h
      · split at h
        · cases h; rfl
        · cases h
      · split at h
        · cases h
        · split at h
          · cases h; rfl
          · cases h; rfl
      · simp only at h
        split at h
        · cases h
        · rename_i s2 o2 hc
          split at h
          · cases h
            have := hcas script hc (by simp [install, hh])
            simp [Out.append, this, install, hh]
          · cases h

end Gribi.C16
