/-
C12 — Malformed operations are rejected in-band, have no effect, cannot crash the server.

The model's step functions are total (every definition below is a total Lean function: that
is the model-level meaning of "cannot crash"; for the implementation it is the class-by-class
correspondence and the crash supervisor that carry it). What is proved here: every class of
invalid operation is answered FAILED (or a clean RPC error) and leaves the RIB, the held
operations, the deletion protection and the election state identical.
-/
import Gribi.Props.C09
import Gribi.Lemmas.RibBasic
namespace Gribi.C12
open Gribi Rib

/-- structural invalidity the model derives itself -/
def structurallyInvalid (s : Rib) (op : Op) : Prop :=
  match op.key with
  | .nh i => i = 0
  | .nhg g => g = 0 ∨ op.pl.nhs = [] ∨ op.pl.nhs.contains 0 = true
  | _ => op.pl.grp = 0 ∨ (op.pl.grpNI ≠ "" ∧ s.hasNI op.pl.grpNI = false)

/-- an ADD/REPLACE whose payload is rejected by schema validation (`cls ≠ wf`), or which is
structurally invalid (zero index, zero or missing group id, empty group, zero next-hop in a
group, unknown group network instance), or an explicit REPLACE of a key that is not installed,
is classified `err` -/
theorem invalid_classify_err (s : Rib) (op : Op)
    (h : op.cls ≠ .wf ∨ structurallyInvalid s op ∨ (op.ty = .replace ∧ s.has (op.ni, op.key) = false)) :
    classify s op = .err := by
  unfold classify
  by_cases h1 : op.cls ≠ .wf
  · simp [h1]
  · simp only [h1, if_false]
    by_cases h2 : op.ty = .replace ∧ ¬ s.has (op.ni, op.key) = true
    · simp [h2]
    · simp only [h2, if_false]
      rcases h with h | h | h
      · exact absurd h h1
      · unfold structurallyInvalid at h
        cases hk : op.key with
        | nh i => simp only [hk] at h ⊢; simp [h]
        | nhg g =>
          simp only [hk] at h ⊢
          have : (g = 0 ∨ op.pl.nhs = [] ∨ op.pl.nhs.contains 0 = true) := h
          rw [if_pos this]
        | v4 x =>
          simp only [hk] at h ⊢
          rcases h with h | h
          · simp [h]
          · by_cases h0 : op.pl.grp = 0
            · simp [h0]
            · simp [h0, h.1, h.2]
        | v6 x =>
          simp only [hk] at h ⊢
          rcases h with h | h
          · simp [h]
          · by_cases h0 : op.pl.grp = 0
            · simp [h0]
            · simp [h0, h.1, h.2]
        | mpls x =>
          simp only [hk] at h ⊢
          rcases h with h | h
          · simp [h]
          · by_cases h0 : op.pl.grp = 0
            · simp [h0]
            · simp [h0, h.1, h.2]
      · exact absurd ⟨h.1, by simp [h.2]⟩ h2

/-- **C12 (ADD/REPLACE).** An invalid ADD/REPLACE is answered FAILED at once; installed entries,
reference counters, instances are untouched, and so are the held operations (its own id, if it
names a held operation, is dropped — ids are the client's to keep distinct). -/
theorem c12_add_rejected (s : Rib) (op : Op) (hni : s.hasNI op.ni = true) (hcls : op.cls ≠ .noEntry)
    (herr : classify s op = .err) :
    Rib.add s op [] = some (({ s with pend := s.pend.erase op.id } : Rib), ({ fails := [op.id] } : Rib.Out)) := by
  unfold Rib.add
  have : ¬ (op.cls = .noEntry ∨ ¬ s.hasNI op.ni = true) := by simp [hcls, hni]
  rw [if_neg this]
  simp [herr]

theorem erase_absent {m : Map Nat Op} {k : Nat} (h : m.get? k = none) : m.erase k ≃ₘ m := by
  intro k'
  rw [Map.get?_erase]
  split
  · rename_i hk; subst hk; exact h.symm
  · rfl

/-- an operation without any entry, or naming an unknown instance at the RIB layer, is a clean
error: nothing changes -/
theorem c12_add_fatal (s : Rib) (op : Op) (h : op.cls = .noEntry ∨ s.hasNI op.ni = false) :
    Rib.add s op [] = some (s, { fatal := true }) := by
  unfold Rib.add
  have : (op.cls = .noEntry ∨ ¬ s.hasNI op.ni = true) := by
    rcases h with h | h
    · exact Or.inl h
    · exact Or.inr (by simp [h])
  rw [if_pos this]
  simp

/-- **C12 (DELETE).** A DELETE that is invalid (rejected key message, zero id, label that does not
fit) or refused changes nothing at all -/
theorem c12_del_rejected (s : Rib) (op : Op) (h : classifyDel s op = .err ∨ classifyDel s op = .refd) :
    (Rib.del s op).1 = s ∧ (Rib.del s op).2.oks = [] := by
  unfold Rib.del
  split
  · exact ⟨rfl, rfl⟩
  · rcases h with h | h <;> simp [h]

theorem c12_del_invalid_err (s : Rib) (op : Op)
    (h : op.cls ≠ .wf ∨ op.key = .nhg 0 ∨ op.key = .nh 0 ∨ ∃ l, op.key = .mpls l ∧ l > maxLabel) :
    classifyDel s op = .err := by
  unfold classifyDel
  by_cases h1 : op.cls ≠ .wf
  · simp [h1]
  · simp only [h1, if_false]
    rcases h with h | h | h | ⟨l, h, hl⟩
    · exact absurd h h1
    · simp [h]
    · simp [h]
    · simp [h, hl]

open Server in
/-- **C12 (server level).** Operations naming an empty or unknown network instance, or carrying
an unsupported operation type, are answered FAILED in-band and leave the RIB untouched; the
rest of the request is processed as if they were not there. -/
theorem c12_bad_ni (r : Rib) (c : Nat) (fib : Bool) (snap : ElecSnap) (op : Op) (rest : List (Op × List CEv))
    (h : op.ni = "" ∨ r.hasNI op.ni = false) :
    modifyLoop r c fib snap ((op, []) :: rest) =
      (modifyLoop r c fib snap rest).map (fun x => (x.1, { x.2 with resps := .results [(op.id, .failed)] :: x.2.resps })) := by
  have : op.ni = "" ∨ ¬ r.hasNI op.ni = true := by
    rcases h with h | h
    · exact Or.inl h
    · exact Or.inr (by simp [h])
  simp only [modifyLoop, this, if_true]
  cases modifyLoop r c fib snap rest <;> simp

open Server in
theorem c12_bad_type (r : Rib) (c : Nat) (fib : Bool) (snap : ElecSnap) (op : Op)
    (hg : gate c op.elec snap = .proceed) (ht : op.ty = .invalid) :
    modifyOne r c fib snap op [] = some (r, {}, .inl (.results [(op.id, .failed)])) := by
  simp [modifyOne, hg, ht]

/-- non-vacuity: one of each class against a small RIB, all rejected, nothing changes -/
example :
    let s := (Rib.new "D")
    let bad : List Op := [
      { id := 1, ty := .add, ni := "D", key := .nh 0, pl := {} },
      { id := 2, ty := .add, ni := "D", key := .nhg 1, pl := { nhs := [] } },
      { id := 3, ty := .add, ni := "D", key := .nhg 1, pl := { nhs := [0] } },
      { id := 4, ty := .add, ni := "D", key := .v4 "1.0.0.0/8", pl := { grp := 0 } },
      { id := 5, ty := .add, ni := "D", key := .v4 "1.0.0.0/8", pl := { grp := 1, grpNI := "NOPE" } },
      { id := 6, ty := .add, ni := "D", key := .v4 "bad", pl := { grp := 1 }, cls := .bad },
      { id := 7, ty := .replace, ni := "D", key := .nh 1, pl := {} } ]
    bad.all (fun op => (Rib.add s op []).map (fun r => (r.1.ents, r.1.pend, r.2.fails)) == some ([], [], [op.id])) = true := by
  decide

end Gribi.C12
