/-
C02 at the server. The refinement of `SrvRefine` is sharpened: a server event that is not a
Flush of one *named* instance acts on the RIB by a run whose flushes (if any) name every instance
that exists — so closure ("no installed entry dangles") and completeness ("no held operation is
resolvable") hold in every state the server model reaches from a new server through any number of
sessions, elections, gates, protocol violations, disconnects, Gets and Flushes of all instances.
Completeness needs no proviso on the flushes at all.
-/
import Gribi.Props.SrvRefine
import Gribi.Props.C02
namespace Gribi.SrvClosed
open Gribi Server SrvRefine

def NotFlush : Rib.In → Prop
  | .flush _ => False
  | _ => True

theorem ff_noflush : ∀ (ins : List Rib.In) (r : Rib), (∀ i ∈ ins, NotFlush i) → C02.FullFlushes r ins := by
  intro ins
  induction ins with
  | nil => intro r _; trivial
  | cons i rest ih =>
    intro r h
    refine ⟨?_, fun s' _ _ => ih s' (fun j hj => h j (List.mem_cons_of_mem _ hj))⟩
    have := h i (List.mem_cons_self ..)
    cases i <;> simp_all [C02.flushFull, NotFlush]

theorem ff_append : ∀ (a : List Rib.In) {r r1 : Rib} {b : List Rib.In} {oa : List Rib.Out},
    Rib.run r a = some (r1, oa) → C02.FullFlushes r a → C02.FullFlushes r1 b → C02.FullFlushes r (a ++ b) := by
  intro a
  induction a with
  | nil =>
    intro r r1 b oa h _ hb
    simp only [Rib.run, Option.some.injEq, Prod.mk.injEq] at h
    obtain ⟨rfl, _⟩ := h
    exact hb
  | cons i rest ih =>
    intro r r1 b oa h ha hb
    rw [rib_run_cons] at h
    obtain ⟨hf, hrest⟩ := ha
    refine ⟨hf, ?_⟩
    intro s' o hs
    simp only [hs] at h
    cases hr : Rib.run s' rest with
    | none => simp [hr] at h
    | some p =>
      obtain ⟨rr, os⟩ := p
      simp only [hr, Option.some.injEq, Prod.mk.injEq] at h
      obtain ⟨rfl, _⟩ := h
      exact ih hr (hrest s' o hs) hb

/-- one operation of a batch: at most one RIB step, never a flush -/
theorem modifyOne_refines' {r r' : Rib} {c : Nat} {fib : Bool} {snap : ElecSnap} {op : Op} {script : List Rib.CEv}
    {ro : Rib.Out} {res : Resp ⊕ Term} (h : modifyOne r c fib snap op script = some (r', ro, res)) :
    ∃ ins outs, Rib.run r ins = some (r', outs) ∧ ∀ i ∈ ins, NotFlush i := by
  unfold modifyOne at h
  split at h
  · split at h
    · simp only [Option.some.injEq, Prod.mk.injEq] at h; obtain ⟨rfl, _⟩ := h; exact ⟨[], [], rfl, by simp⟩
    · cases h
  · split at h
    · simp only [Option.some.injEq, Prod.mk.injEq] at h; obtain ⟨rfl, _⟩ := h; exact ⟨[], [], rfl, by simp⟩
    · cases h
  · split at h
    · split at h
      · simp only [Option.some.injEq, Prod.mk.injEq] at h; obtain ⟨rfl, _⟩ := h; exact ⟨[], [], rfl, by simp⟩
      · cases h
    · split at h
      · simp only at h
        refine ⟨[Rib.In.del op], [(r.del op).2], ?_, by simp [NotFlush]⟩
        have hr : r' = (r.del op).1 := by
          split at h <;> (simp only [Option.some.injEq, Prod.mk.injEq] at h; exact h.1.symm)
        rw [hr]
        rfl
      · cases h
    · cases ha : r.add op script with
      | none => simp [ha] at h
      | some p =>
        obtain ⟨r1, o1⟩ := p
        simp only [ha] at h
        refine ⟨[Rib.In.add op script], [o1], ?_, by simp [NotFlush]⟩
        have hr : r' = r1 := by
          split at h <;> (simp only [Option.some.injEq, Prod.mk.injEq] at h; exact h.1.symm)
        rw [hr, rib_run_cons]
        simp only [Rib.step, ha]
        rfl

theorem modifyLoop_refines' {c : Nat} {fib : Bool} {snap : ElecSnap} (l : List (Op × List Rib.CEv))
    {r r' : Rib} {o : MsgOut} (h : modifyLoop r c fib snap l = some (r', o)) :
    ∃ ins outs, Rib.run r ins = some (r', outs) ∧ ∀ i ∈ ins, NotFlush i := by
  induction l generalizing r o with
  | nil =>
    simp only [modifyLoop, Option.some.injEq, Prod.mk.injEq] at h
    obtain ⟨rfl, _⟩ := h
    exact ⟨[], [], rfl, by simp⟩
  | cons x rest ih =>
    obtain ⟨op, script⟩ := x
    simp only [modifyLoop] at h
    split at h
    · split at h
      · cases h
      · cases hr : modifyLoop r c fib snap rest with
        | none => simp [hr] at h
        | some p =>
          obtain ⟨r2, o2⟩ := p
          simp only [hr, Option.some.injEq, Prod.mk.injEq] at h
          obtain ⟨rfl, _⟩ := h
          exact ih hr
    · cases hm : modifyOne r c fib snap op script with
      | none => simp [hm] at h
      | some m =>
        obtain ⟨r1, ro, res⟩ := m
        obtain ⟨i1, o1, h1, n1⟩ := modifyOne_refines' hm
        cases res with
        | inr t =>
          simp only [hm, Option.some.injEq, Prod.mk.injEq] at h
          obtain ⟨rfl, _⟩ := h
          exact ⟨i1, o1, h1, n1⟩
        | inl resp =>
          simp only [hm] at h
          cases hr : modifyLoop r1 c fib snap rest with
          | none => simp [hr] at h
          | some p =>
            obtain ⟨r2, o2⟩ := p
            simp only [hr, Option.some.injEq, Prod.mk.injEq] at h
            obtain ⟨rfl, _⟩ := h
            obtain ⟨i2, o2', h2, n2⟩ := ih hr
            refine ⟨i1 ++ i2, o1 ++ o2', rib_run_append h1 h2, ?_⟩
            intro i hi
            rcases List.mem_append.mp hi with hi | hi
            · exact n1 i hi
            · exact n2 i hi

/-- the event is not a Flush of one named instance -/
def NotNamedFlush : Ev → Prop
  | .flush (.name _) _ => False
  | _ => True

/-- **refinement, one event, with the flushes it performs.** -/
theorem step_full {s s' : Server} {ev : Ev} {o : EvOut} (h : step s ev = some (s', o)) (hn : NotNamedFlush ev) :
    ∃ ins outs, Rib.run s.rib ins = some (s'.rib, outs) ∧ C02.FullFlushes s.rib ins := by
  cases ev with
  | connect c => simp only [step, Option.some.injEq, Prod.mk.injEq] at h; obtain ⟨rfl, _⟩ := h; exact ⟨[], [], rfl, trivial⟩
  | close c => simp only [step, Option.some.injEq, Prod.mk.injEq] at h; obtain ⟨rfl, _⟩ := h; exact ⟨[], [], rfl, trivial⟩
  | get ni aft => simp only [step, Option.some.injEq, Prod.mk.injEq] at h; obtain ⟨rfl, _⟩ := h; exact ⟨[], [], rfl, trivial⟩
  | flush ni el =>
    simp only [step, Option.some.injEq, Prod.mk.injEq] at h
    obtain ⟨hs, _⟩ := h
    rw [← hs]
    unfold Server.flush
    cases hc : checkFlush s.curElec ni el with
    | some r => exact ⟨[], [], rfl, trivial⟩
    | none =>
      cases ni with
      | unset => exact ⟨[], [], rfl, trivial⟩
      | all =>
        refine ⟨[Rib.In.flush s.rib.nis], [{ hooks := (s.rib.flush s.rib.nis).2 }], rfl, ?_, fun _ _ _ => trivial⟩
        intro n hk
        simpa [Rib.hasNI] using hk
      | name n => exact absurd hn (by simp [NotNamedFlush])
  | msg c m =>
    simp only [step] at h
    cases hr : s.recv c m with
    | none => simp [hr] at h
    | some p =>
      simp only [hr, Option.map, Option.some.injEq, Prod.mk.injEq] at h
      obtain ⟨hs, _⟩ := h
      rw [← hs]
      unfold recv at hr
      cases hg : s.sess.get? c with
      | none => simp [hg] at hr
      | some cs =>
        simp only [hg] at hr
        cases m with
        | multi => simp only [Option.some.injEq] at hr; rw [← hr]; exact ⟨[], [], rfl, trivial⟩
        | empty => simp only [Option.some.injEq] at hr; rw [← hr]; exact ⟨[], [], rfl, trivial⟩
        | params a b d =>
          simp only [Option.some.injEq] at hr; rw [← hr, finish_rib, doParams_rib]; exact ⟨[], [], rfl, trivial⟩
        | elec e =>
          simp only [Option.some.injEq] at hr; rw [← hr, finish_rib, doElec_rib]; exact ⟨[], [], rfl, trivial⟩
        | ops l =>
          simp only at hr
          cases hd : doOps s c cs l with
          | none => simp [hd] at hr
          | some q =>
            simp only [hd, Option.map, Option.some.injEq] at hr
            rw [← hr, finish_rib]
            unfold doOps at hd
            split at hd
            · split at hd
              · simp only [Option.some.injEq] at hd; rw [← hd]; exact ⟨[], [], rfl, trivial⟩
              · cases hd
            · cases hl : modifyLoop s.rib c cs.params.fibAck
                  { master := s.curMaster, cur := s.curElec, clientLatest := cs.lastElec } l with
              | none => simp [hl] at hd
              | some x =>
                obtain ⟨r2, o2⟩ := x
                simp only [hl, Option.some.injEq] at hd
                rw [← hd]
                obtain ⟨ins, outs, h1, n1⟩ := modifyLoop_refines' l hl
                exact ⟨ins, outs, h1, ff_noflush ins _ n1⟩

/-- **refinement, whole histories without a Flush of one named instance.** -/
theorem run_full {s s' : Server} {evs : List Ev} {os : List EvOut} (h : run s evs = some (s', os))
    (hn : ∀ ev ∈ evs, NotNamedFlush ev) :
    ∃ ins outs, Rib.run s.rib ins = some (s'.rib, outs) ∧ C02.FullFlushes s.rib ins := by
  induction evs generalizing s os with
  | nil =>
    simp only [run, Option.some.injEq, Prod.mk.injEq] at h
    obtain ⟨rfl, _⟩ := h
    exact ⟨[], [], rfl, trivial⟩
  | cons ev rest ih =>
    simp only [run] at h
    cases hs : step s ev with
    | none => simp [hs] at h
    | some p =>
      obtain ⟨s1, o⟩ := p
      simp only [hs] at h
      cases hr : run s1 rest with
      | none => simp [hr] at h
      | some p2 =>
        obtain ⟨s2, os2⟩ := p2
        simp only [hr, Option.some.injEq, Prod.mk.injEq] at h
        obtain ⟨rfl, _⟩ := h
        obtain ⟨i1, o1, h1, f1⟩ := step_full hs (hn ev (List.mem_cons_self ..))
        obtain ⟨i2, o2, h2, f2⟩ := ih hr (fun e he => hn e (List.mem_cons_of_mem _ he))
        exact ⟨i1 ++ i2, o1 ++ o2, rib_run_append h1 h2, ff_append i1 h1 f1 f2⟩

/-- the server's initial RIB is reached from the empty RIB without any flush -/
theorem new_full (d : NI) (vrfs : List NI) (fwd hook : Bool) :
    ∃ ins outs, Rib.run (Rib.new d fwd) ins = some ((Server.new d vrfs fwd hook).rib, outs) ∧ ∀ i ∈ ins, NotFlush i := by
  have hfold : ∀ (l : List NI) (r : Rib), ∃ ins outs,
      Rib.run r ins = some (l.foldl (fun r n => (r.addNI n).1) r, outs) ∧ ∀ i ∈ ins, NotFlush i := by
    intro l
    induction l with
    | nil => intro r; exact ⟨[], [], rfl, by simp⟩
    | cons n rest ih =>
      intro r
      obtain ⟨i2, o2, h2, n2⟩ := ih (r.addNI n).1
      refine ⟨[Rib.In.addNI n] ++ i2, [{}] ++ o2, rib_run_append (r1 := (r.addNI n).1) rfl h2, ?_⟩
      intro i hi
      rcases List.mem_append.mp hi with hi | hi
      · simp only [List.mem_singleton] at hi; subst hi; trivial
      · exact n2 i hi
  unfold Server.new
  simp only
  cases hook with
  | false => exact hfold vrfs _
  | true =>
    obtain ⟨i2, o2, h2, n2⟩ := hfold vrfs (Rib.new d fwd).setHook
    refine ⟨[Rib.In.setHook] ++ i2, [{}] ++ o2, rib_run_append (r1 := (Rib.new d fwd).setHook) rfl h2, ?_⟩
    intro i hi
    rcases List.mem_append.mp hi with hi | hi
    · simp only [List.mem_singleton] at hi; subst hi; trivial
    · exact n2 i hi

/-- **C02 at the server (closure and completeness).** In every state the server model reaches
from a new server — any number of sessions, any interleaving of their parameters, announcements,
batches, protocol violations, disconnects, Gets and Flushes of all instances — no installed
entry dangles and no held operation is resolvable. -/
theorem srv_c02_closed_complete (d : NI) (vrfs : List NI) (fwd hook : Bool) {s' : Server} {evs : List Ev}
    {os : List EvOut} (h : run (Server.new d vrfs fwd hook) evs = some (s', os))
    (hn : ∀ ev ∈ evs, NotNamedFlush ev) : C02.Closed s'.rib ∧ C02.NoneInstallable s'.rib := by
  obtain ⟨i1, o1, h1, n1⟩ := new_full d vrfs fwd hook
  obtain ⟨i2, o2, h2, f2⟩ := run_full h hn
  exact C02.c02_closed_complete d fwd (rib_run_append h1 h2) (ff_append i1 h1 (ff_noflush i1 _ n1) f2)

/-- **C02 at the server (completeness), no proviso.** Whatever Flushes occurred, a held
operation is never left unanswered while it is resolvable. -/
theorem srv_c02_complete (d : NI) (vrfs : List NI) (fwd hook : Bool) {s' : Server} {evs : List Ev}
    {os : List EvOut} (h : run (Server.new d vrfs fwd hook) evs = some (s', os)) :
    C02.NoneInstallable s'.rib := by
  obtain ⟨i1, o1, h1⟩ := new_refines d vrfs fwd hook
  obtain ⟨i2, o2, h2⟩ := run_refines h
  have g := C02.good_new d fwd
  exact C02.c02_complete (rib_run_append h1 h2) g.inv g.pni g.none

end Gribi.SrvClosed
