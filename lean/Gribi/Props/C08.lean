/-
C08 — Flush empties exactly the requested instances, reports OK, is election-gated.
-/
import Gribi.Props.C05
import Gribi.Props.C03
import Gribi.Props.C01
namespace Gribi.C08
open Gribi Server

/-- **C08 (decision table).** A Flush is authorised exactly when it names an instance (or all)
and either overrides the election, or no election has ever taken place and it carries no id,
or it carries a non-zero id that is not lower (as a 128-bit integer) than the current one. -/
theorem c08_table (cur : Option U128) (ni : NiSel) (el : FlushElec) :
    checkFlush cur ni el = none ↔
      (ni ≠ .unset ∧
        (el = .override ∨ (el = .unset ∧ cur = none) ∨
          ∃ e c, el = .id e ∧ cur = some c ∧ e.isZero = false ∧ c.toNat ≤ e.toNat)) := by
  unfold checkFlush
  by_cases hni : ni = .unset
  · simp [hni]
  · simp only [hni, if_false, ne_eq, not_false_eq_true, true_and]
    cases el with
    | override => simp
    | unset =>
      cases cur <;> simp
    | id e =>
      cases cur with
      | none => simp
      | some c =>
        simp only [reduceCtorEq, false_or, FlushElec.id.injEq, Option.some.injEq, false_and]
        by_cases hz : e.isZero = true
        · simp [hz]
        · have hz' : e.isZero = false := by simpa using hz
          simp only [hz', Bool.false_eq_true, if_false]
          by_cases hlt : U128.lt e c = true
          · have := (C05.u128_lt_iff e c).mp hlt
            simp only [hlt, if_true, reduceCtorEq, false_iff, not_exists, not_and]
            intro e' c' h1 h2 _ h4
            subst h1; subst h2
            omega
          · have hge : ¬ e.toNat < c.toNat := fun h => hlt ((C05.u128_lt_iff e c).mpr h)
            simp only [hlt, Bool.false_eq_true, if_false, true_iff]
            exact ⟨e, c, rfl, rfl, hz', by omega⟩

/-- the status of every rejected cell of the table -/
theorem c08_rejections (cur : Option U128) (ni : NiSel) (el : FlushElec) :
    (ni = .unset → checkFlush cur ni el = some ⟨.invalidArgument, .unspecifiedNI⟩) ∧
    (ni ≠ .unset → el = .unset → cur ≠ none →
      checkFlush cur ni el = some ⟨.failedPrecondition, .unspecifiedElection⟩) ∧
    (ni ≠ .unset → ∀ e, el = .id e → cur = none →
      checkFlush cur ni el = some ⟨.failedPrecondition, .elecInAllPrimary⟩) ∧
    (ni ≠ .unset → ∀ e c, el = .id e → cur = some c → e.isZero = true →
      checkFlush cur ni el = some ⟨.invalidArgument, .invalidElec⟩) ∧
    (ni ≠ .unset → ∀ e c, el = .id e → cur = some c → e.isZero = false → e.toNat < c.toNat →
      checkFlush cur ni el = some ⟨.failedPrecondition, .notPrimary⟩) := by
  refine ⟨?_, ?_, ?_, ?_, ?_⟩
  · intro h; simp [checkFlush, h]
  · intro h1 h2 h3
    cases cur with
    | none => exact absurd rfl h3
    | some c => simp [checkFlush, h1, h2]
  · intro h1 e h2 h3; simp [checkFlush, h1, h2, h3]
  · intro h1 e c h2 h3 h4; simp [checkFlush, h1, h2, h3, h4]
  · intro h1 e c h2 h3 h4 h5
    have := (C05.u128_lt_iff e c).mpr h5
    simp [checkFlush, h1, h2, h3, h4, this]

/-- **C08 (rejected ⇒ nothing changes).** -/
theorem c08_reject_noop (s : Server) (ni : NiSel) (el : FlushElec) (r : FlushRes)
    (h : checkFlush s.curElec ni el = some r) : s.flush ni el = (s, r, []) := by
  unfold Server.flush
  rw [h]

/-- an unknown (or empty) instance name is rejected and nothing changes -/
theorem c08_unknown_ni (s : Server) (n : NI) (el : FlushElec) (ha : checkFlush s.curElec (.name n) el = none)
    (hn : s.rib.hasNI n = false) : s.flush (.name n) el = (s, ⟨.invalidArgument, .invalidNI⟩, []) := by
  unfold Server.flush
  rw [ha]
  simp [hn]

/-- **C08 (effect, one instance).** An authorised Flush of an existing instance `n` answers OK,
leaves no entry in `n`, leaves every entry of every other instance as it was, and leaves held
operations, sessions and election state untouched. -/
theorem c08_effect_name (s : Server) (n : NI) (el : FlushElec) (ha : checkFlush s.curElec (.name n) el = none)
    (hn : s.rib.hasNI n = true) :
    (s.flush (.name n) el).2.1 = ⟨.ok, .none⟩ ∧
    (∀ k, (s.flush (.name n) el).1.rib.ents.get? k = if k.1 = n then none else s.rib.ents.get? k) ∧
    (s.flush (.name n) el).1.rib.pend = s.rib.pend ∧
    (s.flush (.name n) el).1.sess = s.sess ∧
    (s.flush (.name n) el).1.curElec = s.curElec ∧ (s.flush (.name n) el).1.curMaster = s.curMaster := by
  unfold Server.flush
  rw [ha]
  simp only [hn, if_true]
  obtain ⟨h1, h2⟩ := C01.flush_ents s.rib [n]
  refine ⟨by simp, ?_, by simpa using h2, by simp, by simp, by simp⟩
  intro k
  rw [h1 k, Map.get?_eraseP]
  by_cases hk : k.1 = n <;> simp [hk]

/-- **C08 (effect, all instances).** An authorised Flush of all instances answers OK and leaves
nothing installed (every entry lives in a known instance: `Inv.wf`). -/
theorem c08_effect_all (s : Server) (el : FlushElec) (ha : checkFlush s.curElec .all el = none)
    (hi : Rib.Inv s.rib) :
    (s.flush .all el).2.1 = ⟨.ok, .none⟩ ∧
    (∀ k, (s.flush .all el).1.rib.ents.get? k = none) ∧
    (s.flush .all el).1.rib.pend = s.rib.pend ∧
    (s.flush .all el).1.curElec = s.curElec := by
  unfold Server.flush
  rw [ha]
  simp only
  obtain ⟨h1, h2⟩ := C01.flush_ents s.rib s.rib.nis
  refine ⟨by simp, ?_, by simpa using h2, by simp⟩
  intro k
  rw [h1 k, Map.get?_eraseP]
  split
  · rfl
  · rename_i hnot
    cases hg : s.rib.ents.get? k with
    | none => rfl
    | some p =>
      have := (hi.wf k p hg).1
      exact absurd (by simpa [Rib.hasNI] using this) hnot

/-- **C08 (deletion protection stays consistent).** Whatever a Flush does, every reference
counter still equals the number of installed referrers afterwards. -/
theorem c08_refinv (s : Server) (ni : NiSel) (el : FlushElec) (hi : Rib.Inv s.rib) :
    Rib.Inv (s.flush ni el).1.rib := by
  unfold Server.flush
  split
  · exact hi
  · split
    · exact hi
    · exact Rib.inv_flush hi _
    · split
      · exact Rib.inv_flush hi _
      · exact hi

/-- non-vacuity: the table on ids that differ only in the high word -/
example : checkFlush (some ⟨2, 1⟩) .all (.id ⟨1, 5⟩) = some ⟨.failedPrecondition, .notPrimary⟩ ∧
    checkFlush (some ⟨2, 1⟩) .all (.id ⟨2, 1⟩) = none ∧
    checkFlush (some ⟨2, 1⟩) .all (.id ⟨3, 0⟩) = none ∧
    checkFlush none .all .unset = none ∧
    checkFlush (some ⟨0, 1⟩) (.name "X") .unset = some ⟨.failedPrecondition, .unspecifiedElection⟩ := by decide

end Gribi.C08
