/-
The tie by translation, the registry of network instances of a RIB (rib/rib.go): `r.niRIB`, a Go
map from name to holder, guarded by `r.nrMu` (the translator checks that every read and write of
the map is under it). `NetworkInstanceRIB` is what the `niKnown` oracles of the other translated
functions stand for; `AddNetworkInstance` and `KnownNetworkInstances` are the model's `addNI` and
instance list. See `Gribi/Props/GenEquiv/Base.lean`.
-/
import Gribi.Gen.NetworkInstanceRIB
import Gribi.Gen.KnownNetworkInstances
import Gribi.Gen.AddNetworkInstance
import Gribi.Model.Rib
namespace Gribi.GenEquiv.RibRegistry
open Gribi Gribi.Gen

/-- the registry holds exactly the model's instances -/
def Registered (m : Map String HolderG) (s : Rib) : Prop :=
  ∀ n, (Map.get? m n).isSome = s.hasNI n

/-- `NetworkInstanceRIB` is a lookup that changes nothing; `ok` says whether it found a holder -/
theorem gen_networkInstanceRIB (n : String) (m : Map String HolderG) :
    Gen.networkInstanceRIB n m = (Map.get? m n, (Map.get? m n).isSome, m) := rfl

/-- … so the `niKnown` of the other translations is the model's `hasNI` -/
theorem niKnown_model (m : Map String HolderG) (s : Rib) (h : Registered m s) (n : String) :
    (Gen.networkInstanceRIB n m).2.1 = s.hasNI n := by
  rw [gen_networkInstanceRIB]; exact h n

/-- the options a new holder gets: the RIB's check function, forward references disabled -/
def optsOf (ribCheck noFwd : Bool) : List Nat :=
  (if ribCheck then [1] else []) ++ (if noFwd then [2] else [])

/-- **`AddNetworkInstance`**: refused for a name that is registered (nothing changes); otherwise a
holder created with the RIB's options is registered under the name **and given the RIB's
post-change hook** (an instance created after the hook was set notifies it too) -/
theorem gen_addNetworkInstance (name : String) (ribCheck noFwd : Bool) (hook checkFn : Option Unit)
    (newHolder : String → List Nat → HolderG) (m : Map String HolderG) :
    Gen.addNetworkInstance name ribCheck noFwd hook checkFn newHolder m =
      if (Map.get? m name).isSome then (some ⟨GCode.Unknown, Details.none⟩, m)
      else (none, Map.insert m name { newHolder name (optsOf ribCheck noFwd) with postChangeHook := hook }) := by
  have ins2 : ∀ (a b : HolderG), Map.insert (Map.insert m name a) name b = Map.insert m name b := by
    intro a b; simp [Map.insert, Map.erase, List.filter_filter]
  unfold Gen.addNetworkInstance optsOf
  cases h : Map.get? m name with
  | some x => simp
  | none => cases ribCheck <;> cases noFwd <;> simp [ins2]

/-- on the model: `addNI` -/
theorem addNetworkInstance_model (name : String) (ribCheck noFwd : Bool) (hook checkFn : Option Unit)
    (newHolder : String → List Nat → HolderG) (m : Map String HolderG) (s : Rib) (h : Registered m s) :
    let r := Gen.addNetworkInstance name ribCheck noFwd hook checkFn newHolder m
    (r.1.isNone = (s.addNI name).2) ∧ Registered r.2 (s.addNI name).1 := by
  simp only [gen_addNetworkInstance]
  have hn := h name
  by_cases hk : s.hasNI name = true
  · rw [hk] at hn
    simp only [hn, if_true, Rib.addNI, hk]
    exact ⟨rfl, h⟩
  · have hk' : s.hasNI name = false := by simpa using hk
    rw [hk'] at hn
    simp only [hn, Bool.false_eq_true, if_false, Rib.addNI, hk']
    refine ⟨rfl, fun n => ?_⟩
    rw [Map.get?_insert]
    by_cases e : name = n
    · subst e; simp [Rib.hasNI]
    · have := h n
      simp only [e, if_false, this, Rib.hasNI, List.contains_append, List.contains_cons, List.contains_nil,
        Bool.or_false]
      have : (n == name) = false := by simp [Ne.symm e]
      simp [this]

/-- `KnownNetworkInstances`: the registered names, sorted; nothing changes -/
theorem gen_knownNetworkInstances (m : Map String HolderG) :
    Gen.knownNetworkInstances m = (sortStrings (m.map (·.1)), m) := by
  unfold Gen.knownNetworkInstances
  have : ∀ (l : List (String × HolderG)) (acc : List String),
      l.foldl (fun acc n => acc ++ [n.1]) acc = acc ++ l.map (·.1) := by
    intro l
    induction l with
    | nil => intro acc; simp
    | cons x t ih => intro acc; simp [ih]
  simp [this]

/-- … a permutation of the registered names (so `Get`/`Flush` of ALL reach every instance once
when the registry has each name once) -/
theorem knownNetworkInstances_perm (m : Map String HolderG) :
    (Gen.knownNetworkInstances m).1.Perm (m.map (·.1)) := by
  rw [gen_knownNetworkInstances]
  exact List.mergeSort_perm _ _

theorem gen_registry_translated :
    Gen.networkInstanceRIB_problem = none ∧ Gen.knownNetworkInstances_problem = none ∧
    Gen.addNetworkInstance_problem = none := ⟨rfl, rfl, rfl⟩

end Gribi.GenEquiv.RibRegistry
