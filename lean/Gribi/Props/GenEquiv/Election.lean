/-
The tie by translation. `Gribi/Gen/*.lean` are regenerated from /repo's Go sources on every
check run (by /verif/translate). The theorems in `Gribi/Props/GenEquiv/*` state, for every
input, that each generated definition — what the Go function says now — computes what the
hand-written model computes. They are re-elaborated and re-checked by the kernel on every
run; a change of the Go function that changes its decision for any input makes the
corresponding theorem fail. Nothing is specific to a sample of inputs: election ids range over
all 2^128 values, selectors over every case.
-/
import Gribi.Gen.RunElection
import Gribi.Props.GenEquiv.IsNewMaster
import Gribi.Props.GenEquiv.Params
namespace Gribi.GenEquiv
open Gribi Gribi.Gen

/-! ### runElection -/

/-- session names as the Go code has them: distinct non-empty strings -/
structure Naming (nm : Nat → String) : Prop where
  inj : ∀ a b, nm a = nm b → a = b
  ne : ∀ a, nm a ≠ ""

def masterStr (nm : Nat → String) : Option Nat → String
  | none => ""
  | some m => nm m

def gsess (cs : Sess) : ClientState :=
  { params := gparams cs.params, setParams := cs.setParams, lastElecID := cs.lastElec }

/-- `Server.runElection` (as the source says now) = the model's `doElec`: same rejection
statuses, same response, same new election id and primary, and the session's id is stored
exactly when the announcement is not rejected — for every id, session and election state. -/
theorem gen_runElection (nm : Nat → String) (s : Server) (c : Nat) (cs : Sess) (e : U128) (csErr : Status) :
    Gen.runElection (nm c) e (some (gsess cs)) csErr true s.curElec (masterStr nm s.curMaster) =
      let r := Server.doElec s c cs e
      match r.2.term with
      | some t => (none, some (statusOf t), s.curElec, masterStr nm s.curMaster, [])
      | none => (some (.elec r.1.curElec), none, r.1.curElec, masterStr nm r.1.curMaster,
                 [Eff.storeClientElectionID (nm c) (some e)]) := by
  simp only [Gen.runElection, Server.doElec, gsess, gparams, u128_eta, gen_isNewMaster]
  by_cases hx : cs.params.expectElec = true
  · simp only [hx, if_true, Bool.not_true, Bool.false_eq_true, if_false]
    by_cases hz : e.isZero = true
    · have : cmp (u128 0 0) e = 0 := (eq_iff_cmp _ _).mp ((isZero_iff e).mp hz).symm
      simp [hz, this, statusOf, codeOf, detOf]
    · have : ¬ cmp (u128 0 0) e = 0 := fun x => hz ((isZero_iff e).mpr ((eq_iff_cmp _ _).mpr x).symm)
      simp only [this, hz, if_false, Bool.false_eq_true]
      by_cases hn : Server.isNewMaster e s.curElec = true
      · simp [hn, masterStr]
      · simp [hn, masterStr]
  · simp [hx, statusOf, codeOf, detOf]

/-- an unknown session ends the RPC with the error of the lookup; nothing changes -/
theorem gen_runElection_unknown (id master : String) (e : U128) (csErr : Status) (stored : Bool) (cur : Option U128) :
    Gen.runElection id e none csErr stored cur master = (none, some csErr, cur, master, []) := by
  simp [Gen.runElection, errOf]

theorem gen_runElection_translated : Gen.runElection_problem = none := rfl

end Gribi.GenEquiv
