/-
The tie by translation, the session table of `server.Server` (`s.cs`, a Go map from the session's
uuid to `*clientState`): `newClient`, `deleteClient`, `checkClientsConsistent`, `setClientParams`,
`updateParams`, `storeClientElectionID`, `getClientStateCopy`, `clientParams.Equal`. See
`Gribi/Props/GenEquiv/Base.lean`.

The Go map is an association list (the model's own `Map`); the relation `TableRel` says that the
code's table is the model's session table with sessions renamed by an injective naming of the
model's session numbers (`Naming`). Every generated function is proved to act on related tables
as the model's `connect` / `drop` / `insert` do.
-/
import Gribi.Gen.NewClient
import Gribi.Gen.DeleteClient
import Gribi.Gen.UpdateParams
import Gribi.Gen.CheckClientsConsistent
import Gribi.Gen.SetClientParams
import Gribi.Gen.StoreClientElectionID
import Gribi.Gen.GetClientStateCopy
import Gribi.Props.GenEquiv.Election
namespace Gribi.GenEquiv
open Gribi Gribi.Gen

/-- the code's session table that corresponds to the model's -/
def tableOf (nm : Nat → String) (m : Map Nat Sess) : Map String ClientState :=
  m.map (fun e => (nm e.1, gsess e.2))

theorem get?_tableOf (nm : Nat → String) (hn : Naming nm) (m : Map Nat Sess) (c : Nat) :
    Map.get? (tableOf nm m) (nm c) = (Map.get? m c).map gsess := by
  induction m with
  | nil => simp [tableOf]
  | cons e t ih =>
    obtain ⟨a, b⟩ := e
    simp only [tableOf, List.map_cons, Map.get?_cons] at ih ⊢
    by_cases h : a = c
    · subst h; simp
    · have : ¬ nm a = nm c := fun x => h (hn.inj _ _ x)
      simp [h, this, ih]

theorem erase_tableOf (nm : Nat → String) (hn : Naming nm) (m : Map Nat Sess) (c : Nat) :
    Map.erase (tableOf nm m) (nm c) = tableOf nm (Map.erase m c) := by
  induction m with
  | nil => simp [tableOf, Map.erase]
  | cons e t ih =>
    obtain ⟨a, b⟩ := e
    simp only [tableOf, Map.erase, List.map_cons, List.filter_cons] at ih ⊢
    by_cases h : a = c
    · subst h; simp [ih]
    · have : ¬ nm a = nm c := fun x => h (hn.inj _ _ x)
      simp [h, this, ih]

theorem insert_tableOf (nm : Nat → String) (hn : Naming nm) (m : Map Nat Sess) (c : Nat) (x : Sess) :
    Map.insert (tableOf nm m) (nm c) (gsess x) = tableOf nm (Map.insert m c x) := by
  unfold Map.insert
  rw [erase_tableOf nm hn]
  simp [tableOf]

/-- `clientParams.Equal` is equality -/
theorem gen_paramsEqual (a b : ClientParams) : Gen.clientParamsEqual a b = decide (a = b) := by
  rcases a with ⟨a1, a2, a3⟩
  rcases b with ⟨b1, b2, b3⟩
  cases a1 <;> cases a2 <;> cases a3 <;> cases b1 <;> cases b2 <;> cases b3 <;> rfl

theorem gparams_inj (a b : Params) : gparams a = gparams b ↔ a = b := by
  cases a; cases b; simp [gparams]

/-- `newClient` = the model's `connect` (a fresh session with default parameters) -/
theorem gen_newClient (nm : Nat → String) (hn : Naming nm) (s : Server) (c : Nat) (hfresh : s.sess.get? c = none) :
    Gen.newClient (nm c) (tableOf nm s.sess) = (none, tableOf nm (s.connect c).sess) := by
  have hg := get?_tableOf nm hn s.sess c
  rw [hfresh] at hg
  simp only [Gen.newClient, hg, Option.map_none]
  have : ({ params := { Persist := false, ExpectElecID := false, FIBAck := false }, setParams := false, lastElecID := none } : ClientState)
      = gsess {} := rfl
  simp only [this, insert_tableOf nm hn, Server.connect]

/-- a second `newClient` with the same id is refused and changes nothing -/
theorem gen_newClient_dup (id : String) (cs : Map String ClientState) (x : ClientState) (h : Map.get? cs id = some x) :
    Gen.newClient id cs = (some ⟨.Internal, .none⟩, cs) := by
  simp [Gen.newClient, h]

/-- `deleteClient` = the model's `drop` -/
theorem gen_deleteClient (nm : Nat → String) (hn : Naming nm) (s : Server) (c : Nat) :
    Gen.deleteClient (nm c) (tableOf nm s.sess) = tableOf nm (s.drop c).sess := by
  simp [Gen.deleteClient, erase_tableOf nm hn, Server.drop]

/-- the loop of `checkClientsConsistent`, whatever the order of the Go map: every *other* entry
has parameters equal to the candidate's -/
theorem consistent_loop (id : String) (cs0 : Map String ClientState) (p : ClientParams) :
    ∀ (l : List (String × ClientState)),
      checkClientsConsistent.loop1 id cs0 p l =
        (l.all (fun e => e.1 == id || decide (e.2.params = p)), none, cs0) := by
  intro l
  induction l with
  | nil => simp [checkClientsConsistent.loop1]
  | cons x xs ih =>
    unfold checkClientsConsistent.loop1
    by_cases h : id = x.1
    · subst h; simp [ih]
    · have h' : ¬ x.1 = id := fun e => h e.symm
      by_cases he : x.2.params = p
      · simp [h, h', he, gen_paramsEqual, ih]
      · simp [h, h', he, gen_paramsEqual]

/-- `checkClientsConsistent` = the consistency test of the model's `doParams` -/
theorem gen_checkClientsConsistent (nm : Nat → String) (hn : Naming nm) (s : Server) (c : Nat) (cp : Params) :
    Gen.checkClientsConsistent (nm c) (some (gparams cp)) (tableOf nm s.sess) =
      (s.sess.all (fun e => e.1 == c || e.2.params == cp), none, tableOf nm s.sess) := by
  simp only [Gen.checkClientsConsistent, consistent_loop]
  congr 1
  simp only [tableOf, List.all_map]
  congr 1
  funext e
  simp only [Function.comp, gsess]
  have hi : nm e.1 = nm c ↔ e.1 = c := ⟨hn.inj _ _, fun x => by rw [x]⟩
  rw [Bool.eq_iff_iff]
  simp [hi, gparams_inj]

/-- `setClientParams` stores the parameters in the session's entry -/
theorem gen_setClientParams (nm : Nat → String) (hn : Naming nm) (s : Server) (c : Nat) (x : Sess) (cp : Params)
    (h : s.sess.get? c = some x) :
    Gen.setClientParams (nm c) (gparams cp) (tableOf nm s.sess) =
      (none, tableOf nm (s.sess.insert c { x with params := cp })) := by
  have hg := get?_tableOf nm hn s.sess c
  rw [h] at hg
  simp only [Gen.setClientParams, hg, Option.map_some]
  have : ({ gsess x with params := gparams cp } : ClientState) = gsess { x with params := cp } := rfl
  simp only [this, insert_tableOf nm hn]

theorem dec_beq_one (n : Nat) : decide (n = 1) = (n == 1) := by
  by_cases h : n = 1 <;> simp [h]

/-- `updateParams`: refused once the parameters have been set; otherwise the entry gets the
parameters computed from the message (the model's `paramsOf`) and is marked as set -/
theorem gen_updateParams (nm : Nat → String) (hn : Naming nm) (s : Server) (c : Nat) (x : Sess) (red pers ack : Nat)
    (h : s.sess.get? c = some x) :
    Gen.updateParams (nm c) ⟨red, pers, ack⟩ (tableOf nm s.sess) =
      if x.setParams then (some ⟨.FailedPrecondition, .modify .MODIFY_NOT_ALLOWED⟩, tableOf nm s.sess)
      else (none, tableOf nm (s.sess.insert c { x with params := Server.paramsOf red pers ack, setParams := true })) := by
  have hg := get?_tableOf nm hn s.sess c
  rw [h] at hg
  simp only [Gen.updateParams, hg, Option.map_some, gsess]
  by_cases hs : x.setParams = true
  · simp [hs]
  · simp only [hs, Bool.false_eq_true, if_false]
    have e1 : ({ ({ ({ params := gparams x.params, setParams := x.setParams, lastElecID := x.lastElec } : ClientState) with
          setParams := true } : ClientState) with
        params := { ({ Persist := false, ExpectElecID := false, FIBAck := false } : ClientParams) with
          ExpectElecID := decide (red = SessionParameters_SINGLE_PRIMARY),
          FIBAck := decide (ack = SessionParameters_RIB_AND_FIB_ACK),
          Persist := decide (pers = SessionParameters_PRESERVE) } } : ClientState) =
        gsess { x with params := Server.paramsOf red pers ack, setParams := true } := by
      simp [gsess, gparams, Server.paramsOf, SessionParameters_SINGLE_PRIMARY, SessionParameters_RIB_AND_FIB_ACK,
        SessionParameters_PRESERVE]
      exact ⟨dec_beq_one pers, dec_beq_one red, dec_beq_one ack⟩
    have ins2 : ∀ (m : Map String ClientState) (k : String) (a b : ClientState),
        Map.insert (Map.insert m k a) k b = Map.insert m k b := by
      intro m k a b
      simp [Map.insert, Map.erase, List.filter_filter]
    rw [ins2, e1, insert_tableOf nm hn]

/-- `storeClientElectionID` records the announced id as the session's last one -/
theorem gen_storeClientElectionID (nm : Nat → String) (hn : Naming nm) (s : Server) (c : Nat) (x : Sess) (e : U128)
    (h : s.sess.get? c = some x) :
    Gen.storeClientElectionID (nm c) (some e) (tableOf nm s.sess) =
      (true, tableOf nm (s.sess.insert c { x with lastElec := some e })) := by
  have hg := get?_tableOf nm hn s.sess c
  rw [h] at hg
  simp only [Gen.storeClientElectionID, hg, Option.map_some]
  have : ({ gsess x with lastElecID := some e } : ClientState) = gsess { x with lastElec := some e } := rfl
  simp only [this, insert_tableOf nm hn]

/-- `getClientStateCopy` reads the session's entry and changes nothing -/
theorem gen_getClientStateCopy (nm : Nat → String) (hn : Naming nm) (s : Server) (c : Nat) :
    Gen.getClientStateCopy (nm c) (tableOf nm s.sess) =
      match s.sess.get? c with
      | some x => (some (gsess x), none, tableOf nm s.sess)
      | none => (none, some ⟨.Unknown, .none⟩, tableOf nm s.sess) := by
  have hg := get?_tableOf nm hn s.sess c
  cases hx : s.sess.get? c with
  | none => rw [hx] at hg; simp [Gen.getClientStateCopy, hg]
  | some x => rw [hx] at hg; simp [Gen.getClientStateCopy, hg]

theorem gen_session_translated :
    Gen.newClient_problem = none ∧ Gen.deleteClient_problem = none ∧ Gen.updateParams_problem = none ∧
    Gen.checkClientsConsistent_problem = none ∧ Gen.setClientParams_problem = none ∧
    Gen.storeClientElectionID_problem = none ∧ Gen.getClientStateCopy_problem = none ∧
    Gen.clientParamsEqual_problem = none := ⟨rfl, rfl, rfl, rfl, rfl, rfl, rfl, rfl⟩

end Gribi.GenEquiv
