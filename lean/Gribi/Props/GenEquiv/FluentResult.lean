/-
The tie by translation, the fluent operation-result builder (`fluent/fluent.go`:
`OperationResult().With…().AsResult()`), with which tests — the compliance suite among them —
write down the `client.OpResult` they expect a checker of `chk` to find. See
`Gribi/Props/GenEquiv/Base.lean` and `FluentBuilders.lean` (`fold_last`, `fold_frame`).

Proved for every state and argument: each method sets exactly the field it names (the details
record is allocated by the first method that needs it, and a later one keeps what earlier ones
put there); `AsResult` returns the result as built; the table behind `WithProgrammingResult`
maps the three fluent constants to FAILED / RIB_PROGRAMMED / FIB_PROGRAMMED and anything else to
UNSET; over chains the last call that sets a field decides it.
-/
import Gribi.Gen.FlNewOperationResult
import Gribi.Gen.FlRWithCurrentServerElectionID
import Gribi.Gen.FlRWithSuccessfulSessionParams
import Gribi.Gen.FlRWithOperationID
import Gribi.Gen.FlRWithIPv4Operation
import Gribi.Gen.FlRWithIPv6Operation
import Gribi.Gen.FlRWithNextHopGroupOperation
import Gribi.Gen.FlRWithNextHopOperation
import Gribi.Gen.FlRWithMPLSOperation
import Gribi.Gen.FlRWithOperationType
import Gribi.Gen.FlRWithProgrammingResult
import Gribi.Gen.FlRAsResult
import Gribi.Props.GenEquiv.FluentBuilders
namespace Gribi.GenEquiv
open Gribi Gribi.Gen

/-- the empty result `OperationResult()` starts from -/
def emptyRes : COpResult :=
  { Timestamp := 0, Latency := 0, CurrentServerElectionID := none, SessionParameters := none, OperationID := 0,
    ClientError := "", ServerError := "", ProgrammingResult := AFTResult_UNSET, Details := none }

def emptyDetails : OpDetailsResults :=
  { Type_ := 0, NextHopIndex := 0, NextHopGroupID := 0, IPv4Prefix := "", IPv6Prefix := "", MPLSLabel := 0 }

theorem gen_result_constructor : Gen.flNewOperationResult = some { r := emptyRes } := rfl

/-- the details a result has, an empty record if it has none yet -/
def detailsOf (r : COpResult) : OpDetailsResults := r.Details.getD emptyDetails

inductive GResCall where
  | elec (lo hi : UInt64) | params | opId (i : Nat) | v4 (p : String) | v6 (p : String) | nhg (i : Nat) | nh (i : Nat)
  | mpls (i : Nat) | opType (c : Nat) | prog (r : Int)
  deriving DecidableEq, Repr

def runRes (r : COpResult) : GResCall → COpResult
  | .elec lo hi => flRWithCurrentServerElectionID lo hi r
  | .params => flRWithSuccessfulSessionParams r
  | .opId i => flRWithOperationID i r
  | .v4 p => flRWithIPv4Operation p r
  | .v6 p => flRWithIPv6Operation p r
  | .nhg i => flRWithNextHopGroupOperation i r
  | .nh i => flRWithNextHopOperation i r
  | .mpls i => flRWithMPLSOperation i r
  | .opType c => flRWithOperationType c r
  | .prog x => flRWithProgrammingResult x r

/-- the table behind `WithProgrammingResult` -/
theorem gen_programmingResultMap (k : Int) :
    Gen.programmingResultMap k = if k = 0 then AFTResult_FAILED else if k = 1 then AFTResult_RIB_PROGRAMMED
      else if k = 2 then AFTResult_FIB_PROGRAMMED else AFTResult_UNSET := rfl

/-- what each method does, said directly: the field it names and nothing else; the methods that
describe the operation write into the details record, allocating it when the result has none -/
def resSpec (r : COpResult) : GResCall → COpResult
  | .elec lo hi => { r with CurrentServerElectionID := some { lo := lo, hi := hi } }
  | .params => { r with SessionParameters := some { Status := SessionParametersResult_OK } }
  | .opId i => { r with OperationID := i }
  | .v4 p => { r with Details := some { detailsOf r with IPv4Prefix := p } }
  | .v6 p => { r with Details := some { detailsOf r with IPv6Prefix := p } }
  | .nhg i => { r with Details := some { detailsOf r with NextHopGroupID := i } }
  | .nh i => { r with Details := some { detailsOf r with NextHopIndex := i } }
  | .mpls i => { r with Details := some { detailsOf r with MPLSLabel := i } }
  | .opType c => { r with Details := some { detailsOf r with Type_ := c } }
  | .prog x => { r with ProgrammingResult := Gen.programmingResultMap x }

theorem gen_result_step (r : COpResult) (c : GResCall) : runRes r c = resSpec r c := by
  cases c <;> cases hd : r.Details <;>
    simp [runRes, resSpec, detailsOf, emptyDetails, hd, flRWithCurrentServerElectionID, flRWithSuccessfulSessionParams,
      flRWithOperationID, flRWithIPv4Operation, flRWithIPv6Operation, flRWithNextHopGroupOperation,
      flRWithNextHopOperation, flRWithMPLSOperation, flRWithOperationType, flRWithProgrammingResult]

theorem gen_result_chain (cs : List GResCall) (r : COpResult) : cs.foldl runRes r = cs.foldl resSpec r := by
  induction cs generalizing r with
  | nil => rfl
  | cons c t ih => simp only [List.foldl_cons]; rw [gen_result_step, ih]

/-- `AsResult` hands out the result as built, and leaves the builder as it is -/
theorem gen_result_asResult (r : COpResult) : Gen.flRAsResult r = (some r, r) := rfl

/-- whether a call writes into the details record -/
def GResCall.inDetails : GResCall → Bool
  | .v4 _ | .v6 _ | .nhg _ | .nh _ | .mpls _ | .opType _ => true
  | _ => false

/-- a result on which no operation-describing method was called has **no** details record — the
checkers of `chk` then ignore the details of what they compare it with (the documented meaning of
a want without details) -/
theorem gen_result_no_details (cs : List GResCall) (h : ∀ c ∈ cs, c.inDetails = false) :
    (cs.foldl runRes emptyRes).Details = none := by
  have := fold_frame runRes (fun t => t.Details) cs emptyRes (by
    intro c hc t
    have := h c hc
    rw [gen_result_step]
    cases c <;> first | rfl | simp [GResCall.inDetails] at this)
  exact this.trans rfl

/-- … and once one was called it has one, for good -/
theorem gen_result_details_stay (r : COpResult) (c : GResCall) (h : r.Details.isSome) : (runRes r c).Details.isSome := by
  rw [gen_result_step]
  cases c <;> simp_all [resSpec]

/-- the operation type a result carries is the one given last; the methods naming the key leave it alone -/
theorem gen_result_type_last (pre rest : List GResCall) (r : COpResult) (c : Nat)
    (h : ∀ x ∈ rest, ∀ c', x ≠ .opType c') :
    (detailsOf ((pre ++ .opType c :: rest).foldl runRes r)).Type_ = c := by
  apply fold_last runRes (fun t => (detailsOf t).Type_)
  · intro t; rw [gen_result_step]; simp [resSpec, detailsOf]
  · intro x hx t
    rw [gen_result_step]
    cases x with
    | opType c' => exact absurd rfl (h _ hx c')
    | _ => simp [resSpec, detailsOf]

/-- the keys of different entry kinds live in different fields: naming an IPv4 prefix does not
touch the IPv6 prefix, a group id not the next-hop index, … (a result is never of two kinds by
accident of the builder) -/
theorem gen_result_keys_independent (r : COpResult) (p : String) (i : Nat) :
    (detailsOf (runRes r (.v4 p))).IPv6Prefix = (detailsOf r).IPv6Prefix ∧
    (detailsOf (runRes r (.v6 p))).IPv4Prefix = (detailsOf r).IPv4Prefix ∧
    (detailsOf (runRes r (.nhg i))).NextHopIndex = (detailsOf r).NextHopIndex ∧
    (detailsOf (runRes r (.nh i))).NextHopGroupID = (detailsOf r).NextHopGroupID ∧
    (detailsOf (runRes r (.mpls i))).NextHopGroupID = (detailsOf r).NextHopGroupID ∧
    (detailsOf (runRes r (.nhg i))).MPLSLabel = (detailsOf r).MPLSLabel := by
  simp [gen_result_step, resSpec, detailsOf]

theorem gen_result_translated :
    Gen.flNewOperationResult_problem = none ∧ Gen.flRWithCurrentServerElectionID_problem = none ∧
    Gen.flRWithSuccessfulSessionParams_problem = none ∧ Gen.flRWithOperationID_problem = none ∧
    Gen.flRWithIPv4Operation_problem = none ∧ Gen.flRWithIPv6Operation_problem = none ∧
    Gen.flRWithNextHopGroupOperation_problem = none ∧ Gen.flRWithNextHopOperation_problem = none ∧
    Gen.flRWithMPLSOperation_problem = none ∧ Gen.flRWithOperationType_problem = none ∧
    Gen.flRWithProgrammingResult_problem = none ∧ Gen.flRAsResult_problem = none :=
  ⟨rfl, rfl, rfl, rfl, rfl, rfl, rfl, rfl, rfl, rfl, rfl, rfl⟩

end Gribi.GenEquiv
