/-
The tie by translation, the fluent client's Modify wrapper (`fluent/fluent.go`): `AddEntry`,
`DeleteEntry`, `ReplaceEntry` (each builds one request with `entriesToModifyRequest` and queues it
with `g.parent.c.Q`), `UpdateElectionID`, `Enqueue`, `InjectRequest`. See
`Gribi/Props/GenEquiv/Base.lean` and `Fluent.lean` (the request builder these call).

The calls are composed into a run of the fluent client (`flStep` / `flRun`): the state is what the
Go client keeps between calls — the operation counter and the election id most recently set —
and the output is the sequence of requests queued on the client. Proved for every sequence of
calls: ids are consecutive across calls of any kind, a request carries the stamp of the election
id *most recently set before it* (C18's "current election id"), `UpdateElectionID` queues exactly
one request carrying the two words given, pre-formed requests pass through unchanged and in order,
a call whose entries cannot be built queues nothing and fails the test.
-/
import Gribi.Gen.FlAddEntry
import Gribi.Gen.FlDeleteEntry
import Gribi.Gen.FlReplaceEntry
import Gribi.Gen.FlUpdateElectionID
import Gribi.Gen.FlEnqueue
import Gribi.Gen.FlInjectRequest
import Gribi.Gen.FlCWithPersistence
import Gribi.Gen.FlCWithFIBACK
import Gribi.Gen.FlCWithRedundancyMode
import Gribi.Gen.FlCWithInitialElectionID
import Gribi.Props.GenEquiv.Fluent
namespace Gribi.GenEquiv
open Gribi Gribi.Gen

/-- `AddEntry` / `DeleteEntry` / `ReplaceEntry` on entries whose messages can be built and carry
no explicit id: the test goes on, the counter advances by the number of entries, and exactly one
request is queued — the one `modifySpec` describes, with the operation type of the method -/
theorem gen_flAddEntry (conn : Option GRIBIConnection) (cur : Option U128) (opErr : Status)
    (es : List AFTOperation) (n : Nat) (h : ∀ e ∈ es, e.Id = 0) :
    Gen.flAddEntry (es.map some) (some ()) conn cur opErr n =
      (true, n + es.length, [Eff.flQ (some { Operation := modifySpec AFTOperation_ADD conn cur n es })]) := by
  simp [Gen.flAddEntry, gen_fluent_modify _ conn cur opErr es n h]

theorem gen_flDeleteEntry (conn : Option GRIBIConnection) (cur : Option U128) (opErr : Status)
    (es : List AFTOperation) (n : Nat) (h : ∀ e ∈ es, e.Id = 0) :
    Gen.flDeleteEntry (es.map some) (some ()) conn cur opErr n =
      (true, n + es.length, [Eff.flQ (some { Operation := modifySpec AFTOperation_DELETE conn cur n es })]) := by
  simp [Gen.flDeleteEntry, gen_fluent_modify _ conn cur opErr es n h]

theorem gen_flReplaceEntry (conn : Option GRIBIConnection) (cur : Option U128) (opErr : Status)
    (es : List AFTOperation) (n : Nat) (h : ∀ e ∈ es, e.Id = 0) :
    Gen.flReplaceEntry (es.map some) (some ()) conn cur opErr n =
      (true, n + es.length, [Eff.flQ (some { Operation := modifySpec AFTOperation_REPLACE conn cur n es })]) := by
  simp [Gen.flReplaceEntry, gen_fluent_modify _ conn cur opErr es n h]

/-- the three methods differ only in the operation type they request -/
theorem gen_flTypes : AFTOperation_ADD = 1 ∧ AFTOperation_REPLACE = 2 ∧ AFTOperation_DELETE = 3 := ⟨rfl, rfl, rfl⟩

/-- entries that cannot be built (an `OpProto()` that fails, an explicit id): the test is failed
(`t.Fatalf`) and **nothing is queued** -/
theorem gen_flAddEntry_rejects (conn : Option GRIBIConnection) (cur : Option U128) (opErr : Status)
    (e : AFTOperation) (rest : List (Option AFTOperation)) (n : Nat) (h : e.Id ≠ 0) :
    (Gen.flAddEntry (some e :: rest) (some ()) conn cur opErr n).1 = false ∧
    (Gen.flAddEntry (some e :: rest) (some ()) conn cur opErr n).2.2 = [] ∧
    (Gen.flAddEntry (none :: rest) (some ()) conn cur opErr n).1 = false ∧
    (Gen.flAddEntry (none :: rest) (some ()) conn cur opErr n).2.2 = [] := by
  have hr := gen_fluent_modify_rejects AFTOperation_ADD conn cur opErr e rest n h
  obtain ⟨h1, h2⟩ := hr
  refine ⟨?_, ?_, ?_, ?_⟩
  · simp only [Gen.flAddEntry]
    cases hx : (entriesToModifyRequest AFTOperation_ADD (some e :: rest) (some ()) conn cur opErr n).2.1 with
    | none => exact absurd hx h1
    | some _ => rfl
  · simp only [Gen.flAddEntry]
    cases hx : (entriesToModifyRequest AFTOperation_ADD (some e :: rest) (some ()) conn cur opErr n).2.1 with
    | none => exact absurd hx h1
    | some _ => rfl
  · simp only [Gen.flAddEntry]
    cases hx : (entriesToModifyRequest AFTOperation_ADD (none :: rest) (some ()) conn cur opErr n).2.1 with
    | none => exact absurd hx h2
    | some _ => rfl
  · simp only [Gen.flAddEntry]
    cases hx : (entriesToModifyRequest AFTOperation_ADD (none :: rest) (some ()) conn cur opErr n).2.1 with
    | none => exact absurd hx h2
    | some _ => rfl

/-- `UpdateElectionID(low, high)`: the client's current election id becomes exactly these two
words — whatever it was, lower or higher — and exactly one request is queued, carrying them -/
theorem gen_flUpdateElectionID (lo hi : UInt64) (cur : Option U128) :
    Gen.flUpdateElectionID lo hi cur =
      (some { lo := lo, hi := hi }, [Eff.flQElec (some { ElectionId := some { lo := lo, hi := hi } })]) := rfl

/-- `Enqueue` queues the requests it is given, each as it is, in the order given -/
theorem enqueue_loop : ∀ (l : List (Option ReqTok)) (effs : List Eff),
    Gen.flEnqueue.loop1 l effs = effs ++ l.map Eff.flQTok := by
  intro l
  induction l with
  | nil => intro effs; simp [Gen.flEnqueue.loop1]
  | cons m t ih => intro effs; rw [Gen.flEnqueue.loop1, ih]; simp

theorem gen_flEnqueue (l : List (Option ReqTok)) : Gen.flEnqueue l = l.map Eff.flQTok := by
  simp [Gen.flEnqueue, enqueue_loop]

theorem gen_flInjectRequest (m : Option ReqTok) : Gen.flInjectRequest m = [Eff.flQTok m] := rfl

/-! ### a run of the fluent client -/

/-- the calls an application makes on `c.Modify()` -/
inductive FlCall where
  | add (es : List AFTOperation) | delete (es : List AFTOperation) | replace (es : List AFTOperation)
  | updateElection (lo hi : UInt64) | enqueue (l : List (Option ReqTok)) | inject (m : Option ReqTok)

/-- what the client keeps between calls -/
structure FlState where
  opCount : Nat
  curElec : Option U128
  /-- the requests queued so far, oldest first -/
  queued : List Eff := []

/-- one call, by the generated functions (the client's mode `conn` does not change during a run) -/
def flStep (conn : Option GRIBIConnection) (opErr : Status) (s : FlState) : FlCall → FlState
  | .add es => let r := Gen.flAddEntry (es.map some) (some ()) conn s.curElec opErr s.opCount
               { s with opCount := r.2.1, queued := s.queued ++ r.2.2 }
  | .delete es => let r := Gen.flDeleteEntry (es.map some) (some ()) conn s.curElec opErr s.opCount
                  { s with opCount := r.2.1, queued := s.queued ++ r.2.2 }
  | .replace es => let r := Gen.flReplaceEntry (es.map some) (some ()) conn s.curElec opErr s.opCount
                   { s with opCount := r.2.1, queued := s.queued ++ r.2.2 }
  | .updateElection lo hi => let r := Gen.flUpdateElectionID lo hi s.curElec
                             { s with curElec := r.1, queued := s.queued ++ r.2 }
  | .enqueue l => { s with queued := s.queued ++ Gen.flEnqueue l }
  | .inject m => { s with queued := s.queued ++ Gen.flInjectRequest m }

def flRun (conn : Option GRIBIConnection) (opErr : Status) (s : FlState) (cs : List FlCall) : FlState :=
  cs.foldl (flStep conn opErr) s

/-- the entries of a call carry no explicit id (the builders never set one) -/
def FlCall.wf : FlCall → Prop
  | .add es | .delete es | .replace es => ∀ e ∈ es, e.Id = 0
  | _ => True

/-- the number of operations a call issues -/
def FlCall.ops : FlCall → Nat
  | .add es | .delete es | .replace es => es.length
  | _ => 0

/-- the election id that is current after a sequence of calls -/
def elecAfter (cur : Option U128) : List FlCall → Option U128
  | [] => cur
  | .updateElection lo hi :: t => elecAfter (some { lo := lo, hi := hi }) t
  | _ :: t => elecAfter cur t

/-- one step said directly -/
theorem flStep_spec (conn : Option GRIBIConnection) (opErr : Status) (s : FlState) (c : FlCall) (h : c.wf) :
    flStep conn opErr s c =
      match c with
      | .add es => { s with opCount := s.opCount + es.length,
                            queued := s.queued ++ [Eff.flQ (some { Operation := modifySpec AFTOperation_ADD conn s.curElec s.opCount es })] }
      | .delete es => { s with opCount := s.opCount + es.length,
                               queued := s.queued ++ [Eff.flQ (some { Operation := modifySpec AFTOperation_DELETE conn s.curElec s.opCount es })] }
      | .replace es => { s with opCount := s.opCount + es.length,
                                queued := s.queued ++ [Eff.flQ (some { Operation := modifySpec AFTOperation_REPLACE conn s.curElec s.opCount es })] }
      | .updateElection lo hi => { s with curElec := some { lo := lo, hi := hi },
                                          queued := s.queued ++ [Eff.flQElec (some { ElectionId := some { lo := lo, hi := hi } })] }
      | .enqueue l => { s with queued := s.queued ++ l.map Eff.flQTok }
      | .inject m => { s with queued := s.queued ++ [Eff.flQTok m] } := by
  cases c with
  | add es => simp only [flStep, gen_flAddEntry conn s.curElec opErr es s.opCount h]
  | delete es => simp only [flStep, gen_flDeleteEntry conn s.curElec opErr es s.opCount h]
  | replace es => simp only [flStep, gen_flReplaceEntry conn s.curElec opErr es s.opCount h]
  | updateElection lo hi => rfl
  | enqueue l => simp only [flStep, gen_flEnqueue]
  | inject m => rfl

/-- **ids across calls**: after any sequence of calls the counter has advanced by the total
number of operations issued — so the ids of one run are 1, 2, 3, … without gap or repetition,
whatever kinds of calls are mixed -/
theorem flRun_count (conn : Option GRIBIConnection) (opErr : Status) (cs : List FlCall) (s : FlState)
    (h : ∀ c ∈ cs, c.wf) :
    (flRun conn opErr s cs).opCount = s.opCount + (cs.map FlCall.ops).sum := by
  induction cs generalizing s with
  | nil => simp [flRun]
  | cons c t ih =>
    have hc := h c (List.mem_cons_self ..)
    have ht : ∀ x ∈ t, x.wf := fun x hx => h x (List.mem_cons_of_mem _ hx)
    simp only [flRun, List.foldl_cons, List.map_cons, List.sum_cons] at ih ⊢
    rw [ih _ ht, flStep_spec conn opErr s c hc]
    cases c <;> simp [FlCall.ops, Nat.add_assoc]

/-- **current election id**: after any sequence of calls the client's election id is the one of
the last `UpdateElectionID` (or the initial one if there was none) -/
theorem flRun_elec (conn : Option GRIBIConnection) (opErr : Status) (cs : List FlCall) (s : FlState)
    (h : ∀ c ∈ cs, c.wf) :
    (flRun conn opErr s cs).curElec = elecAfter s.curElec cs := by
  induction cs generalizing s with
  | nil => simp [flRun, elecAfter]
  | cons c t ih =>
    have hc := h c (List.mem_cons_self ..)
    have ht : ∀ x ∈ t, x.wf := fun x hx => h x (List.mem_cons_of_mem _ hx)
    simp only [flRun, List.foldl_cons] at ih ⊢
    rw [ih _ ht, flStep_spec conn opErr s c hc]
    cases c <;> simp [elecAfter]

/-- **what an `AddEntry` after a run queues**: one request whose operations are numbered from the
run's counter on and stamped with the election id that is current *then* -/
theorem flRun_then_add (conn : Option GRIBIConnection) (opErr : Status) (cs : List FlCall) (s : FlState)
    (es : List AFTOperation) (h : ∀ c ∈ cs, c.wf) (he : ∀ e ∈ es, e.Id = 0) :
    (flRun conn opErr s (cs ++ [.add es])).queued =
      (flRun conn opErr s cs).queued ++
        [Eff.flQ (some { Operation := modifySpec AFTOperation_ADD conn (elecAfter s.curElec cs)
                          (s.opCount + (cs.map FlCall.ops).sum) es })] := by
  simp only [flRun, List.foldl_append, List.foldl_cons, List.foldl_nil]
  have := flStep_spec conn opErr (List.foldl (flStep conn opErr) s cs) (.add es) he
  rw [this]
  have hc := flRun_count conn opErr cs s h
  have hl := flRun_elec conn opErr cs s h
  simp only [flRun] at hc hl
  simp [hc, hl]

/-- queued requests are never taken back or changed by later calls: the queue only grows at its end -/
theorem flRun_prefix (conn : Option GRIBIConnection) (opErr : Status) (cs : List FlCall) (s : FlState) :
    ∃ more, (flRun conn opErr s cs).queued = s.queued ++ more := by
  induction cs generalizing s with
  | nil => exact ⟨[], by simp [flRun]⟩
  | cons c t ih =>
    simp only [flRun, List.foldl_cons] at ih ⊢
    obtain ⟨m, hm⟩ := ih (flStep conn opErr s c)
    have : ∃ a, (flStep conn opErr s c).queued = s.queued ++ a := by
      cases c <;> exact ⟨_, rfl⟩
    obtain ⟨a, ha⟩ := this
    exact ⟨a ++ m, by rw [hm, ha, List.append_assoc]⟩

/-! ### the connection builder: what the client will negotiate, and its first election id -/

/-- each of the four setters changes what it names and nothing else; `WithInitialElectionID` sets
the connection's initial id **and** the client's current id to exactly the two words given -/
theorem gen_conn_setters (p f : Bool) (m : Int) (e c : Option U128) (m' : Int) (lo hi : UInt64) :
    Gen.flCWithPersistence p f m e c = (true, f, m, e, c) ∧
    Gen.flCWithFIBACK p f m e c = (p, true, m, e, c) ∧
    Gen.flCWithRedundancyMode m' p f m e c = (p, f, m', e, c) ∧
    Gen.flCWithInitialElectionID lo hi p f m e c = (p, f, m, some { lo := lo, hi := hi }, some { lo := lo, hi := hi }) :=
  ⟨rfl, rfl, rfl, rfl⟩

/-- from the connection builder to the wire: the operations of the first `AddEntry` after
`WithInitialElectionID(lo, hi)` on an elected-primary client are stamped with (lo, hi) -/
theorem gen_conn_initial_stamp (p f : Bool) (m : Int) (e c : Option U128) (lo hi : UInt64) (opErr : Status)
    (es : List AFTOperation) (n : Nat) (h : ∀ x ∈ es, x.Id = 0) (hn : ∀ x ∈ es, x.ElectionId = none) :
    let cur := (Gen.flCWithInitialElectionID lo hi p f m e c).2.2.2.2
    (Gen.flAddEntry (es.map some) (some ()) (some { redundMode := 2 }) cur opErr n).2.2 =
      [Eff.flQ (some { Operation := modifySpec AFTOperation_ADD (some { redundMode := 2 }) (some { lo := lo, hi := hi }) n es })] ∧
    ∀ o ∈ modifySpec AFTOperation_ADD (some { redundMode := 2 }) (some { lo := lo, hi := hi }) n es,
      o.ElectionId = some { lo := lo, hi := hi } := by
  refine ⟨?_, ?_⟩
  · simp only [(gen_conn_setters p f m e c 0 lo hi).2.2.2]
    rw [gen_flAddEntry _ _ opErr es n h]
  · intro o ho
    have hf := modifySpec_fields AFTOperation_ADD (some { redundMode := 2 }) (some ({ lo := lo, hi := hi } : U128)) es n
    have : (o.Op, o.ElectionId, o.Body) ∈ (modifySpec AFTOperation_ADD (some { redundMode := 2 }) (some { lo := lo, hi := hi }) n es).map
        (fun o => (o.Op, o.ElectionId, o.Body)) := List.mem_map.mpr ⟨o, ho, rfl⟩
    rw [hf] at this
    obtain ⟨x, hx, hxe⟩ := List.mem_map.mp this
    have h2 : stampSpec (some { redundMode := 2 }) (some { lo := lo, hi := hi }) x = o.ElectionId := by
      have := congrArg (fun t => t.2.1) hxe
      exact this
    rw [← h2]
    simp [stampSpec, hn x hx, elected]

theorem gen_conn_translated :
    Gen.flCWithPersistence_problem = none ∧ Gen.flCWithFIBACK_problem = none ∧ Gen.flCWithRedundancyMode_problem = none ∧
    Gen.flCWithInitialElectionID_problem = none := ⟨rfl, rfl, rfl, rfl⟩

/-! ### the hypotheses are satisfiable (tests, not theorems): a concrete run -/

/-- two entries, an election update, one more entry: ids 1, 2 and 3; the first request is stamped
with the initial id, the last with the updated one; the update is queued between them -/
example :
    let e : AFTOperation := { Id := 0, ElectionId := none, Op := 0 }
    let s0 : FlState := { opCount := 0, curElec := some { lo := 1, hi := 0 } }
    let cs : List FlCall := [.add [e, e], .updateElection 7 0, .add [e]]
    (∀ c ∈ cs, c.wf) ∧
    (flRun (some { redundMode := 2 }) ⟨.Unknown, .none⟩ s0 cs).opCount = 3 ∧
    (flRun (some { redundMode := 2 }) ⟨.Unknown, .none⟩ s0 cs).curElec = some { lo := 7, hi := 0 } ∧
    (flRun (some { redundMode := 2 }) ⟨.Unknown, .none⟩ s0 cs).queued =
      [Eff.flQ (some { Operation := [{ e with Id := 1, Op := AFTOperation_ADD, ElectionId := some { lo := 1, hi := 0 } },
                                      { e with Id := 2, Op := AFTOperation_ADD, ElectionId := some { lo := 1, hi := 0 } }] }),
       Eff.flQElec (some { ElectionId := some { lo := 7, hi := 0 } }),
       Eff.flQ (some { Operation := [{ e with Id := 3, Op := AFTOperation_ADD, ElectionId := some { lo := 7, hi := 0 } }] })] := by
  refine ⟨?_, ?_, ?_, ?_⟩
  · intro c hc
    simp only [List.mem_cons, List.mem_nil_iff, or_false] at hc
    rcases hc with rfl | rfl | rfl <;> simp [FlCall.wf]
  · decide
  · decide
  · decide

theorem gen_flmodify_translated :
    Gen.flAddEntry_problem = none ∧ Gen.flDeleteEntry_problem = none ∧ Gen.flReplaceEntry_problem = none ∧
    Gen.flUpdateElectionID_problem = none ∧ Gen.flEnqueue_problem = none ∧ Gen.flInjectRequest_problem = none :=
  ⟨rfl, rfl, rfl, rfl, rfl, rfl⟩

end Gribi.GenEquiv
