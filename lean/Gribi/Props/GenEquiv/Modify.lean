/-
The tie by translation, `server.modifyEntry`: see `Gribi/Props/GenEquiv/Base.lean`.
-/
import Gribi.Gen.ModifyEntry
import Gribi.Props.GenEquiv.Gate
namespace Gribi.GenEquiv
open Gribi Gribi.Gen

/-- an operation as `modifyEntry` looks at it -/
def gop (op : Op) : AFTOperation :=
  { Id := op.id, ElectionId := op.elec,
    Op := match op.ty with | .invalid => 0 | .add => 1 | .replace => 2 | .delete => 3 }

def astOf : AftStatus → AftSt
  | .failed => .FAILED | .rib => .RIB_PROGRAMMED | .fib => .FIB_PROGRAMMED

/-- the model's `resultsOf` on bare ids -/
def resultsIds (fib : Bool) (oks fails : List Nat) : List (Nat × AftStatus) :=
  (oks.flatMap (fun id => if fib then [(id, .rib), (id, .fib)] else [(id, .rib)])) ++ fails.map (fun id => (id, .failed))

theorem resultsOf_ids (fib : Bool) (o : Rib.Out) :
    Server.resultsOf fib o = resultsIds fib (o.oks.map (·.id)) o.fails := by
  unfold Server.resultsOf resultsIds
  rw [List.flatMap_map]

def conv (x : Nat × AftStatus) : Nat × AftSt := (x.1, astOf x.2)

theorem foldl_snoc {α β : Type} (l : List α) (g : α → List β) (f : List β → α → List β)
    (hf : ∀ acc x, f acc x = acc ++ g x) (init : List β) : l.foldl f init = init ++ l.flatMap g := by
  induction l generalizing init with
  | nil => simp
  | cons x xs ih => simp [List.foldl_cons, hf, ih, List.append_assoc]

/-- the two loops of `modifyEntry` build the model's result list -/
theorem loops_eq (fib : Bool) (oks fails : List Nat) :
    (fails.map OpResult.mk).foldl (fun acc x => acc ++ [(x.ID, AftSt.FAILED)])
      ((oks.map OpResult.mk).foldl (fun acc x =>
        if fib = true then acc ++ [(x.ID, AftSt.RIB_PROGRAMMED)] ++ [(x.ID, AftSt.FIB_PROGRAMMED)]
        else acc ++ [(x.ID, AftSt.RIB_PROGRAMMED)]) [])
      = (resultsIds fib oks fails).map conv := by
  rw [foldl_snoc (fails.map OpResult.mk) (fun x => [(x.ID, AftSt.FAILED)]) _ (by intros; rfl)]
  rw [foldl_snoc (oks.map OpResult.mk)
    (fun x => if fib = true then [(x.ID, AftSt.RIB_PROGRAMMED), (x.ID, AftSt.FIB_PROGRAMMED)] else [(x.ID, AftSt.RIB_PROGRAMMED)]) _
    (by intro acc x; cases fib <;> simp)]
  unfold resultsIds
  simp only [List.nil_append, List.map_append, List.flatMap_map, List.map_map, List.map_flatMap]
  congr 1
  · congr 1; funext id; cases fib <;> simp [conv, astOf]
  · induction fails with
    | nil => simp
    | cons x xs ih => simp_all [conv, astOf]

/-- the outcome of the RIB call as `modifyEntry` reports it -/
def ribOutcome (fib : Bool) (oks fails : List Nat) (err : Option Status) (eff : Eff) :
    Option MResp × Option Status × List Eff :=
  match err with
  | some _ => (none, some ⟨.Unimplemented, .modify .UNKNOWN⟩, [eff])
  | none => (some (.results ((resultsIds fib oks fails).map conv)), none, [eff])

/-- `server.modifyEntry` (as the source says now), for every operation, election state, session
and every outcome of the RIB calls: the election gate is evaluated first and, unless it says
proceed, no RIB call is made (the effect list is empty) and the answer is the gate's; an
operation type other than ADD / REPLACE / DELETE is answered FAILED without a RIB call; else
exactly one RIB call is made (AddEntry for ADD and REPLACE, DeleteEntry for DELETE), a fatal
error of it ends the RPC with Unimplemented, and otherwise the response is the model's
`resultsOf`: RIB_PROGRAMMED for each acknowledged id, immediately followed by FIB_PROGRAMMED
for the same id when FIB acknowledgement was negotiated, then FAILED for each failed id. -/
theorem gen_modifyEntry (c : Nat) (snap : Server.ElecSnap) (ed : ElectionDetails) (h : SnapRel c snap ed)
    (op : Op) (fib : Bool) (ni : String) (niR : Option Unit)
    (oksA failsA oksD failsD : List Nat) (errA errD : Option Status) :
    Gen.modifyEntry (some ()) ni (some (gop op)) fib (some ed) niR true true
        (oksA.map OpResult.mk) (failsA.map OpResult.mk) errA (oksD.map OpResult.mk) (failsD.map OpResult.mk) errD =
      match Server.gate c op.elec snap with
      | .fatal t => (none, some (statusOf t), [])
      | .failed => (some (.results [(op.id, .FAILED)]), none, [])
      | .proceed =>
        match op.ty with
        | .invalid => (some (.results [(op.id, .FAILED)]), none, [])
        | .delete => ribOutcome fib oksD failsD errD (.deleteEntry ni (some (gop op)))
        | _ => ribOutcome fib oksA failsA errA (.addEntry ni (some (gop op))) := by
  have hg := gen_gate op.id c op.elec snap ed h
  simp only [Gen.modifyEntry, gop, hg]
  cases hgate : Server.gate c op.elec snap with
  | fatal t => simp [gateOut]
  | failed => simp [gateOut]
  | proceed =>
    simp only [gateOut, if_true]
    cases hty : op.ty with
    | invalid => simp [AFTOperation_ADD, AFTOperation_REPLACE, AFTOperation_DELETE]
    | add =>
      cases errA with
      | some e => simp [AFTOperation_ADD, ribOutcome]
      | none =>
        simp only [AFTOperation_ADD, ribOutcome, if_true]
        have := loops_eq fib oksA failsA
        simp only [List.append_assoc] at this ⊢
        cases fib <;> simp_all
    | replace =>
      cases errA with
      | some e => simp [AFTOperation_ADD, AFTOperation_REPLACE, ribOutcome]
      | none =>
        simp only [AFTOperation_ADD, AFTOperation_REPLACE, ribOutcome]
        have := loops_eq fib oksA failsA
        simp only [List.append_assoc] at this ⊢
        cases fib <;> simp_all
    | delete =>
      cases errD with
      | some e => simp [AFTOperation_ADD, AFTOperation_REPLACE, AFTOperation_DELETE, ribOutcome]
      | none =>
        simp only [AFTOperation_ADD, AFTOperation_REPLACE, AFTOperation_DELETE, ribOutcome]
        have := loops_eq fib oksD failsD
        simp only [List.append_assoc] at this ⊢
        cases fib <;> simp_all

/-- a nil operation, a nil RIB or an unknown / invalid network instance is an Internal error
and no RIB call is made -/
theorem gen_modifyEntry_internal (ni : String) (fib : Bool) (ed : Option ElectionDetails) (niR : Option Unit)
    (a b c d : List OpResult) (e f : Option Status) (niOk niValid : Bool) :
    Gen.modifyEntry (some ()) ni none fib ed niR niOk niValid a b e c d f = (none, some ⟨.Internal, .none⟩, []) := by
  simp [Gen.modifyEntry]

theorem gen_modifyEntry_translated : Gen.modifyEntry_problem = none := rfl

end Gribi.GenEquiv
