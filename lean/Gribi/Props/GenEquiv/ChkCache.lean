/-
The tie by translation, `chk.HasResultsCache` (chk/chk.go). See `Gribi/Props/GenEquiv/Base.lean`.

The generated definition builds the six Go maps (by operation id, next-hop-group id, next-hop
index, IPv4 prefix, IPv6 prefix, label) and looks each want up in one of them; the model
`Chk.hasResultsCache` says "the last result with that key". The theorem: for every list of results
and wants and both settings of IgnoreOperationID, with `HasResult` (the comparison itself, which
rests on `cmp.Equal`) as the model's `Chk.hasResult`, the code passes exactly when the model does.
-/
import Gribi.Gen.HasResultsCache
import Gribi.Gen.HasResult
import Gribi.Model.Chk
namespace Gribi.GenEquiv.ChkCache
open Gribi Gribi.Gen

def absD (d : OpDetailsResults) : Chk.Details :=
  { ty := d.Type_, nh := d.NextHopIndex, nhg := d.NextHopGroupID, v4 := d.IPv4Prefix, v6 := d.IPv6Prefix, mpls := d.MPLSLabel }

def absR (r : COpResult) : Chk.OpRes :=
  { opId := r.OperationID, prog := r.ProgrammingResult,
    elec := r.CurrentServerElectionID.map (fun u => (u.hi.toNat, u.lo.toNat)),
    params := r.SessionParameters.map (·.Status), clientErr := r.ClientError, serverErr := r.ServerError,
    details := r.Details.map absD }

/-- the key under which the model files a result by its details -/
def keyOf (r : COpResult) : Option Chk.DKey := (absR r).details.bind Chk.dkey

/-- a Go map filled by a loop of assignments `m[sel r] = r` (for the results that have a key) -/
def index {κ : Type} [DecidableEq κ] (sel : COpResult → Option κ) (m : Map κ COpResult) (l : List COpResult) : Map κ COpResult :=
  l.foldl (fun m r => match sel r with | some k => Map.insert m k r | none => m) m

/-- looking a key up in such a map finds the *last* result filed under it -/
theorem get?_index {κ : Type} [DecidableEq κ] (sel : COpResult → Option κ) (l : List COpResult) (m : Map κ COpResult) (k : κ) :
    Map.get? (index sel m l) k =
      match l.reverse.find? (fun r => sel r == some k) with
      | some r => some r
      | none => Map.get? m k := by
  induction l generalizing m with
  | nil => simp [index]
  | cons r t ih =>
    have hstep : index sel m (r :: t) = index sel (match sel r with | some k => Map.insert m k r | none => m) t := by
      simp [index]
    rw [hstep, ih, List.reverse_cons, List.find?_append]
    cases hf : t.reverse.find? (fun r => sel r == some k) with
    | some x => simp
    | none =>
      simp only [Option.none_or, List.find?_cons, List.find?_nil]
      cases hs : sel r with
      | none => simp
      | some k' =>
        by_cases hk : k' = k
        · subst hk; simp
        · have : ¬ (some k' == some k) = true := by simpa using hk
          simp [this, Map.get?_insert_ne _ _ hk]

/-! the six selectors of the code, in the order of its `switch` -/
def selOp (r : COpResult) : Option Nat := some r.OperationID
def selNHG (r : COpResult) : Option Nat :=
  match r.Details with
  | none => none
  | some d => if d.NextHopGroupID ≠ 0 then some d.NextHopGroupID else none
def selNH (r : COpResult) : Option Nat :=
  match r.Details with
  | none => none
  | some d => if d.NextHopGroupID ≠ 0 then none else if d.NextHopIndex ≠ 0 then some d.NextHopIndex else none
def selV4 (r : COpResult) : Option String :=
  match r.Details with
  | none => none
  | some d => if d.NextHopGroupID ≠ 0 then none else if d.NextHopIndex ≠ 0 then none
      else if d.IPv4Prefix ≠ "" then some d.IPv4Prefix else none
def selV6 (r : COpResult) : Option String :=
  match r.Details with
  | none => none
  | some d => if d.NextHopGroupID ≠ 0 then none else if d.NextHopIndex ≠ 0 then none
      else if d.IPv4Prefix ≠ "" then none else if d.IPv6Prefix ≠ "" then some d.IPv6Prefix else none
def selMPLS (r : COpResult) : Option Nat :=
  match r.Details with
  | none => none
  | some d => if d.NextHopGroupID ≠ 0 then none else if d.NextHopIndex ≠ 0 then none
      else if d.IPv4Prefix ≠ "" then none else if d.IPv6Prefix ≠ "" then none
      else if d.MPLSLabel ≠ 0 then some d.MPLSLabel else none

/-- the loop over the results fills the six maps -/
theorem loop1_eq (wants : List COpResult) (ig : Bool) (hr : List (Option COpResult) → Option COpResult → Bool) :
    ∀ (l : List COpResult) (m1 m2 m3 : Map Nat COpResult) (m4 m5 : Map String COpResult) (m6 : Map Nat COpResult),
      hasResultsCache.loop1 wants ig hr l m1 m2 m3 m4 m5 m6 =
        hasResultsCache.loop1 wants ig hr [] (index selOp m1 l) (index selNHG m2 l) (index selNH m3 l)
          (index selV4 m4 l) (index selV6 m5 l) (index selMPLS m6 l) := by
  intro l
  induction l with
  | nil => intros; simp [index]
  | cons r t ih =>
    intro m1 m2 m3 m4 m5 m6
    conv => lhs; unfold hasResultsCache.loop1
    have hcons : ∀ {κ : Type} [DecidableEq κ] (sel : COpResult → Option κ) (m : Map κ COpResult),
        index sel m (r :: t) = index sel (match sel r with | some k => Map.insert m k r | none => m) t := by
      intro κ _ sel m; simp [index]
    simp only [hcons]
    cases hd : r.Details with
    | none => simp [ih, selOp, selNHG, selNH, selV4, selV6, selMPLS, hd]
    | some d =>
      by_cases h1 : d.NextHopGroupID ≠ 0
      · simp [ih, selOp, selNHG, selNH, selV4, selV6, selMPLS, hd, h1]
      · by_cases h2 : d.NextHopIndex ≠ 0
        · simp [ih, selOp, selNHG, selNH, selV4, selV6, selMPLS, hd, h1, h2]
        · by_cases h3 : d.IPv4Prefix ≠ ""
          · simp [ih, selOp, selNHG, selNH, selV4, selV6, selMPLS, hd, h1, h2, h3]
          · by_cases h4 : d.IPv6Prefix ≠ ""
            · simp [ih, selOp, selNHG, selNH, selV4, selV6, selMPLS, hd, h1, h2, h3, h4]
            · by_cases h5 : d.MPLSLabel ≠ 0 <;>
                simp [ih, selOp, selNHG, selNH, selV4, selV6, selMPLS, hd, h1, h2, h3, h4, h5]


theorem loop3_eq (hr : List (Option COpResult) → Option COpResult → Bool) (m : Map Nat COpResult) :
    ∀ (l : List COpResult), hasResultsCache.loop1.loop3 hr m l = l.all (fun w => hr [Map.get? m w.OperationID] (some w)) := by
  intro l
  induction l with
  | nil => simp [hasResultsCache.loop1.loop3]
  | cons w t ih =>
    unfold hasResultsCache.loop1.loop3
    by_cases h : hr [Map.get? m w.OperationID] (some w) = true <;> simp [h, ih]

/-- what the code does with one want when operation ids are ignored -/
def wantByKey (hr : List (Option COpResult) → Option COpResult → Bool) (m2 m3 : Map Nat COpResult) (m4 m5 : Map String COpResult)
    (m6 : Map Nat COpResult) (w : COpResult) : Bool :=
  match w.Details with
  | none => false
  | some d =>
    if d.NextHopGroupID ≠ 0 then hr [Map.get? m2 d.NextHopGroupID] (some w)
    else if d.NextHopIndex ≠ 0 then hr [Map.get? m3 d.NextHopIndex] (some w)
    else if d.IPv4Prefix ≠ "" then hr [Map.get? m4 d.IPv4Prefix] (some w)
    else if d.IPv6Prefix ≠ "" then hr [Map.get? m5 d.IPv6Prefix] (some w)
    else if d.MPLSLabel ≠ 0 then hr [Map.get? m6 d.MPLSLabel] (some w)
    else false

theorem loop2_eq (hr : List (Option COpResult) → Option COpResult → Bool) (m2 m3 : Map Nat COpResult) (m4 m5 : Map String COpResult)
    (m6 : Map Nat COpResult) :
    ∀ (l : List COpResult), hasResultsCache.loop1.loop2 hr m2 m3 m4 m5 m6 l = l.all (wantByKey hr m2 m3 m4 m5 m6) := by
  intro l
  induction l with
  | nil => simp [hasResultsCache.loop1.loop2]
  | cons w t ih =>
    unfold hasResultsCache.loop1.loop2
    simp only [List.all_cons, wantByKey, ih]
    cases hd : w.Details with
    | none => simp
    | some d =>
      by_cases h1 : d.NextHopGroupID ≠ 0
      · by_cases hh : hr [Map.get? m2 d.NextHopGroupID] (some w) = true <;> simp [h1, hh]
      · by_cases h2 : d.NextHopIndex ≠ 0
        · by_cases hh : hr [Map.get? m3 d.NextHopIndex] (some w) = true <;> simp [h1, h2, hh]
        · by_cases h3 : d.IPv4Prefix ≠ ""
          · by_cases hh : hr [Map.get? m4 d.IPv4Prefix] (some w) = true <;> simp [h1, h2, h3, hh]
          · by_cases h4 : d.IPv6Prefix ≠ ""
            · by_cases hh : hr [Map.get? m5 d.IPv6Prefix] (some w) = true <;> simp [h1, h2, h3, h4, hh]
            · by_cases h5 : d.MPLSLabel ≠ 0
              · by_cases hh : hr [Map.get? m6 d.MPLSLabel] (some w) = true <;> simp [h1, h2, h3, h4, h5, hh]
              · simp [h1, h2, h3, h4, h5]

/-- `HasResultsCache` in terms of the six indexes -/
theorem gen_cache_shape (res wants : List COpResult) (ig : Bool) (hr : List (Option COpResult) → Option COpResult → Bool) :
    Gen.hasResultsCache res wants ig hr =
      if ig then wants.all (wantByKey hr (index selNHG [] res) (index selNH [] res) (index selV4 [] res) (index selV6 [] res)
          (index selMPLS [] res))
      else wants.all (fun w => hr [Map.get? (index selOp [] res) w.OperationID] (some w)) := by
  unfold Gen.hasResultsCache
  simp only []
  rw [loop1_eq]
  unfold hasResultsCache.loop1
  simp only [loop2_eq, loop3_eq]

/-! ### against the model -/

/-- the model's "last result with this key", on the code's results -/
theorem lastBy_map {κ : Type} [DecidableEq κ] (res : List COpResult) (key : Chk.OpRes → Option κ) (k : κ) :
    Chk.lastBy (res.map absR) key k = (res.reverse.find? (fun r => key (absR r) == some k)).map absR := by
  unfold Chk.lastBy
  rw [← List.map_reverse, List.find?_map]
  rfl

theorem get?_index_nil {κ : Type} [DecidableEq κ] (sel : COpResult → Option κ) (l : List COpResult) (k : κ) :
    Map.get? (index sel [] l) k = l.reverse.find? (fun r => sel r == some k) := by
  rw [get?_index]
  cases l.reverse.find? (fun r => sel r == some k) <;> simp

/-- the selectors of the code are the model's key, kind by kind -/
theorem sel_key (r : COpResult) :
    (∀ n, selNHG r = some n ↔ keyOf r = some (.nhg n)) ∧ (∀ n, selNH r = some n ↔ keyOf r = some (.nh n)) ∧
    (∀ p, selV4 r = some p ↔ keyOf r = some (.v4 p)) ∧ (∀ p, selV6 r = some p ↔ keyOf r = some (.v6 p)) ∧
    (∀ n, selMPLS r = some n ↔ keyOf r = some (.mpls n)) := by
  unfold selNHG selNH selV4 selV6 selMPLS keyOf absR
  cases hd : r.Details with
  | none => simp
  | some d =>
    simp only [Option.map_some, Option.bind_some, Chk.dkey, absD]
    by_cases h1 : d.NextHopGroupID = 0 <;> by_cases h2 : d.NextHopIndex = 0 <;> by_cases h3 : d.IPv4Prefix = "" <;>
      by_cases h4 : d.IPv6Prefix = "" <;> by_cases h5 : d.MPLSLabel = 0 <;> simp [h1, h2, h3, h4, h5] <;>
      (intros; constructor <;> intro h <;> simp_all)


/-- `HasResult` as the model's `Chk.hasResult` -/
def hrModel (o : Chk.Opts) (l : List (Option COpResult)) (w : Option COpResult) : Bool :=
  match w with
  | some w => Chk.hasResult (l.map (·.map absR)) (absR w) o
  | none => false

theorem find_congr (l : List COpResult) (p q : COpResult → Bool) (h : ∀ r, p r = q r) : l.find? p = l.find? q := by
  have : p = q := funext h
  rw [this]

/-- `HasResultsCache` = the model's `Chk.hasResultsCache`, for every list of results and wants and
both settings of `IgnoreOperationID` -/
theorem gen_hasResultsCache (res wants : List COpResult) (o : Chk.Opts) :
    Gen.hasResultsCache res wants o.ignoreOpId (hrModel o) = Chk.hasResultsCache (res.map absR) (wants.map absR) o := by
  rw [gen_cache_shape]
  unfold Chk.hasResultsCache
  cases hig : o.ignoreOpId with
  | false =>
    simp only [Bool.false_eq_true, if_false, Bool.not_false, if_true, List.all_map]
    congr 1
    funext w
    simp only [Function.comp, hrModel, List.map_cons, List.map_nil]
    rw [get?_index_nil, lastBy_map]
    have : (fun r => selOp r == some w.OperationID) = (fun r => (some (absR r).opId : Option Nat) == some (absR w).opId) := by
      funext r; simp [selOp, absR]
    rw [this]
  | true =>
    simp only [if_true, Bool.not_true, Bool.false_eq_true, if_false, List.all_map]
    congr 1
    funext w
    simp only [Function.comp, wantByKey]
    cases hd : w.Details with
    | none => simp [absR, hd]
    | some d =>
      have hwd : (absR w).details = some (absD d) := by simp [absR, hd]
      simp only [hwd]
      have hfind : ∀ {κ : Type} [DecidableEq κ] (sel : COpResult → Option κ) (k : κ) (dk : Chk.DKey)
          (hsel : ∀ r, sel r = some k ↔ keyOf r = some dk),
          hrModel o [Map.get? (index sel [] res) k] (some w) =
            Chk.hasResult [Chk.lastBy (res.map absR) (fun r => r.details.bind Chk.dkey) dk] (absR w) o := by
        intro κ _ sel k dk hsel
        simp only [hrModel, List.map_cons, List.map_nil]
        rw [get?_index_nil, lastBy_map]
        have : (fun r => sel r == some k) = (fun r => ((absR r).details.bind Chk.dkey) == some dk) := by
          funext r
          rw [Bool.eq_iff_iff]
          simp only [beq_iff_eq]
          exact hsel r
        rw [this]
      have hs := fun r => sel_key r
      by_cases h1 : d.NextHopGroupID = 0
      · by_cases h2 : d.NextHopIndex = 0
        · by_cases h3 : d.IPv4Prefix = ""
          · by_cases h4 : d.IPv6Prefix = ""
            · by_cases h5 : d.MPLSLabel = 0
              · simp [Chk.dkey, absD, h1, h2, h3, h4, h5]
              · simp only [Chk.dkey, absD, h1, h2, h3, h4, h5, ne_eq, not_true_eq_false, not_false_eq_true, if_false, if_true]
                exact hfind selMPLS d.MPLSLabel (.mpls d.MPLSLabel) (fun r => (hs r).2.2.2.2 _)
            · simp only [Chk.dkey, absD, h1, h2, h3, h4, ne_eq, not_true_eq_false, not_false_eq_true, if_false, if_true]
              exact hfind selV6 d.IPv6Prefix (.v6 d.IPv6Prefix) (fun r => (hs r).2.2.2.1 _)
          · simp only [Chk.dkey, absD, h1, h2, h3, ne_eq, not_true_eq_false, not_false_eq_true, if_false, if_true]
            exact hfind selV4 d.IPv4Prefix (.v4 d.IPv4Prefix) (fun r => (hs r).2.2.1 _)
        · simp only [Chk.dkey, absD, h1, h2, ne_eq, not_true_eq_false, not_false_eq_true, if_false, if_true]
          exact hfind selNH d.NextHopIndex (.nh d.NextHopIndex) (fun r => (hs r).2.1 _)
      · simp only [Chk.dkey, absD, h1, ne_eq, not_false_eq_true, if_true]
        exact hfind selNHG d.NextHopGroupID (.nhg d.NextHopGroupID) (fun r => (hs r).1 _)


/-! ### `HasResult` -/

/-- `cmp.Equal(r, want, IgnoreFields(OpResult{}, ignore...), protocmp.Transform())`: field-wise
equality of the two results outside the ignored fields; a nil result equals only nil -/
def cmpEq (r w : Option COpResult) (ignore : List String) : Bool :=
  match r, w with
  | some r, some w =>
    (ignore.contains "Timestamp" || r.Timestamp == w.Timestamp) && (ignore.contains "Latency" || r.Latency == w.Latency) &&
    (ignore.contains "CurrentServerElectionID" || r.CurrentServerElectionID == w.CurrentServerElectionID) &&
    (ignore.contains "SessionParameters" || r.SessionParameters == w.SessionParameters) &&
    (ignore.contains "OperationID" || r.OperationID == w.OperationID) &&
    (ignore.contains "ClientError" || r.ClientError == w.ClientError) &&
    (ignore.contains "ServerError" || r.ServerError == w.ServerError) &&
    (ignore.contains "ProgrammingResult" || r.ProgrammingResult == w.ProgrammingResult) &&
    (ignore.contains "Details" || r.Details == w.Details)
  | none, none => true
  | _, _ => false

theorem found_any (p : Option COpResult → Bool) (l : List (Option COpResult)) :
    l.foldl (fun acc r => if p r = true then true else acc) false = l.any p := by
  have : ∀ (acc : Bool), l.foldl (fun acc r => if p r = true then true else acc) acc = (acc || l.any p) := by
    induction l with
    | nil => intro acc; simp
    | cons x t ih =>
      intro acc
      simp only [List.foldl_cons, ih, List.any_cons]
      cases p x <;> cases acc <;> simp
  simpa using this false

theorem absD_inj (a b : OpDetailsResults) : absD a = absD b ↔ a = b := by
  cases a; cases b; simp [absD]

theorem elec_inj (a b : Option U128) :
    (a.map (fun u => (u.hi.toNat, u.lo.toNat)) = b.map (fun u => (u.hi.toNat, u.lo.toNat))) ↔ a = b := by
  cases a with
  | none => cases b <;> simp
  | some x =>
    cases b with
    | none => simp
    | some y =>
      obtain ⟨xh, xl⟩ := x
      obtain ⟨yh, yl⟩ := y
      simp only [Option.map_some, Option.some.injEq, Prod.mk.injEq, U128.mk.injEq]
      constructor
      · rintro ⟨h1, h2⟩; exact ⟨UInt64.toNat_inj.mp h1, UInt64.toNat_inj.mp h2⟩
      · rintro ⟨h1, h2⟩; exact ⟨by rw [h1], by rw [h2]⟩

theorem params_inj (a b : Option SessionParametersResult) : (a.map (·.Status) = b.map (·.Status)) ↔ a = b := by
  cases a with
  | none => cases b <;> simp
  | some x => cases b with
    | none => simp
    | some y => cases x; cases y; simp

theorem details_inj (a b : Option OpDetailsResults) : (a.map absD = b.map absD) ↔ a = b := by
  cases a with
  | none => cases b <;> simp
  | some x => cases b with
    | none => simp
    | some y => simp [absD_inj]

/-- the comparison `HasResult` makes for one result, with the ignore list it builds from the want
and the two options, is the model's `eqModulo` -/
theorem cmpEq_eqModulo (r want : COpResult) (o : Chk.Opts) :
    cmpEq (some r) (some want)
      (["Timestamp", "Latency"] ++ (if want.Details.isNone then ["Details"] else []) ++
        (if o.ignoreOpId then ["OperationID"] else []) ++ (if o.includeServerErr then [] else ["ServerError"])) =
      Chk.eqModulo o (absR r) (absR want) := by
  rw [Bool.eq_iff_iff]
  obtain ⟨ig, inc⟩ := o
  cases hd : want.Details <;> cases ig <;> cases inc <;>
    simp [cmpEq, Chk.eqModulo, absR, hd, elec_inj, params_inj, details_inj, absD_inj] <;> (constructor <;> intro h <;> simp_all)


/-- `HasResult` = the model's `Chk.hasResult`: with `cmp.Equal` read as field-wise equality outside
the ignored fields, the helper passes exactly when some (non-nil) result equals the want under the
model's `eqModulo` — Timestamp and Latency never compared, Details only when the want gives them,
OperationID unless IgnoreOperationID, ServerError only with IncludeServerError -/
theorem gen_hasResult (res : List (Option COpResult)) (want : COpResult) (o : Chk.Opts) :
    Gen.hasResult res want o.ignoreOpId o.includeServerErr cmpEq =
      Chk.hasResult (res.map (·.map absR)) (absR want) o := by
  have hany : ∀ (ig : List String)
      (hig : ig = ["Timestamp", "Latency"] ++ (if want.Details.isNone then ["Details"] else []) ++
        (if o.ignoreOpId then ["OperationID"] else []) ++ (if o.includeServerErr then [] else ["ServerError"])),
      res.any (fun r => cmpEq r (some want) ig) = Chk.hasResult (res.map (·.map absR)) (absR want) o := by
    intro ig hig
    unfold Chk.hasResult
    rw [List.any_map]
    congr 1
    funext r
    cases r with
    | none => simp [cmpEq]
    | some r => simp only [Function.comp, Option.map_some]; rw [hig, cmpEq_eqModulo]
  unfold Gen.hasResult
  obtain ⟨ig, inc⟩ := o
  cases hd : want.Details <;> cases ig <;> cases inc <;>
    simp only [Bool.false_eq_true, if_false, if_true] <;>
    (rw [show ∀ (opts : List String), (res.foldl (fun acc r => if cmpEq r (some want) opts = true then true else acc) false) =
        res.any (fun r => cmpEq r (some want) opts) from fun opts => found_any _ _]
     rw [hany _ (by simp [hd])]
     cases Chk.hasResult (res.map (·.map absR)) (absR want) _ <;> rfl)

/-- the two together: `HasResultsCache` calling the generated `HasResult` (only `cmp.Equal` left
as field-wise equality) = the model's `hasResultsCache` -/
theorem gen_hasResultsCache_full (res wants : List COpResult) (o : Chk.Opts) :
    Gen.hasResultsCache res wants o.ignoreOpId
        (fun l w => match w with
          | some w => Gen.hasResult l w o.ignoreOpId o.includeServerErr cmpEq
          | none => false) =
      Chk.hasResultsCache (res.map absR) (wants.map absR) o := by
  rw [← gen_hasResultsCache]
  congr 1
  funext l w
  cases w with
  | none => rfl
  | some w => simp [hrModel, gen_hasResult]

theorem gen_chkcache_translated : Gen.hasResultsCache_problem = none ∧ Gen.hasResult_problem = none := ⟨rfl, rfl⟩

end Gribi.GenEquiv.ChkCache
