/-
The tie by translation, `chk.GetResponseHasEntries` (chk/chk.go): the helper with which a test
asserts that the entries it wants are in a `Get` response. The Go code indexes the response into a
map from network instance to a local struct of five maps (one per entry type) and then looks each
wanted entry up; the theorem says that for every response and every list of wanted entries the
helper passes exactly when every wanted entry is well formed and some response entry of the same
network instance, the same type and the same key was indexed. See `Gribi/Props/GenEquiv/Base.lean`.
-/
import Gribi.Gen.GetResponseHasEntries
import Gribi.Model.Chk
namespace Gribi.GenEquiv.ChkGet
open Gribi Gribi.Gen

/-- the type and key under which an entry is indexed or looked up -/
inductive GKey where
  | nhg (id : Nat) | nh (idx : Nat) | v4 (p : String) | v6 (p : String) | mpls (l : Nat)
  deriving DecidableEq, Repr

/-- the key a *wanted* entry is looked up by (the getters' zero values for a missing message;
the label is read with `GetLabelUint64()` whatever the oneof holds) -/
def wantKey : GEntryKind → GKey
  | .NextHopGroup x => .nhg ((x.map (·.Id)).getD 0)
  | .NextHop x => .nh ((x.map (·.Index)).getD 0)
  | .Ipv4 x => .v4 ((x.map (·.Prefix)).getD "")
  | .Ipv6 x => .v6 ((x.map (·.Prefix)).getD "")
  | .Mpls x => .mpls ((x.map (·.LabelUint64)).getD 0)

/-- the key a *response* entry is indexed by: none for id/index 0, an empty prefix, a label that
is not the uint64 member, or no entry at all -/
def respKey (e : GAFTEntry) : Option GKey :=
  match e.Entry with
  | none => none
  | some (.NextHopGroup x) => if (x.map (·.Id)).getD 0 ≠ 0 then some (.nhg ((x.map (·.Id)).getD 0)) else none
  | some (.NextHop x) => if (x.map (·.Index)).getD 0 ≠ 0 then some (.nh ((x.map (·.Index)).getD 0)) else none
  | some (.Ipv4 x) => if (x.map (·.Prefix)).getD "" ≠ "" then some (.v4 ((x.map (·.Prefix)).getD "")) else none
  | some (.Ipv6 x) => if (x.map (·.Prefix)).getD "" ≠ "" then some (.v6 ((x.map (·.Prefix)).getD "")) else none
  | some (.Mpls x) => if (x.map (·.LabelIsUint64)).getD false = true then some (.mpls ((x.map (·.LabelUint64)).getD 0)) else none

/-- what `GetResponseHasEntries` decides, stated on the two lists -/
def getSpec (resp : List GAFTEntry) (wants : List (Option GAFTEntry)) : Bool :=
  wants.all fun w =>
    match w with
    | none => false
    | some p =>
      p.NetworkInstance ≠ "" &&
      match p.Entry with
      | none => false
      | some k => resp.any fun e => e.NetworkInstance == p.NetworkInstance && respKey e == some (wantKey k)

def cacheHas (c : GetCache) : GKey → Bool
  | .nhg n => (Map.get? c.nhg n).isSome
  | .nh n => (Map.get? c.nh n).isSome
  | .v4 s => (Map.get? c.ipv4 s).isSome
  | .v6 s => (Map.get? c.ipv6 s).isSome
  | .mpls n => (Map.get? c.mpls n).isSome

def look (m : Map String GetCache) (ni : String) (k : GKey) : Bool :=
  match Map.get? m ni with
  | none => false
  | some c => cacheHas c k

def cachePut (c : GetCache) (r : GAFTEntry) : GKey → GetCache
  | .nhg n => { c with nhg := Map.insert c.nhg n r }
  | .nh n => { c with nh := Map.insert c.nh n r }
  | .v4 s => { c with ipv4 := Map.insert c.ipv4 s r }
  | .v6 s => { c with ipv6 := Map.insert c.ipv6 s r }
  | .mpls n => { c with mpls := Map.insert c.mpls n r }

/-- one iteration of the indexing loop -/
def stepG (m : Map String GetCache) (r : GAFTEntry) : Map String GetCache :=
  let c : GetCache := (Map.get? m r.NetworkInstance).getD {}
  let m1 := if (Map.get? m r.NetworkInstance).isSome then m else Map.insert m r.NetworkInstance c
  match respKey r with
  | none => m1
  | some k => Map.insert m1 r.NetworkInstance (cachePut c r k)

set_option linter.unusedSimpArgs false in
theorem loop1_step (wants : List (Option GAFTEntry)) (r : GAFTEntry) (l : List GAFTEntry) (m : Map String GetCache) :
    getResponseHasEntries.loop1 wants (r :: l) m = getResponseHasEntries.loop1 wants l (stepG m r) := by
  rw [getResponseHasEntries.loop1]
  rcases r with ⟨ni, e⟩
  simp only [stepG, respKey]
  cases hm : Map.get? m ni with
  | none =>
    rcases e with _ | (x | x | x | x | x)
    · simp
    all_goals
      simp only [Option.isSome_none, Option.getD_none, Bool.false_eq_true, if_false]
      split <;> rename_i h <;> simp [h, cachePut]
  | some c =>
    rcases e with _ | (x | x | x | x | x)
    · simp
    all_goals
      simp only [Option.isSome_some, Option.getD_some, if_true]
      split <;> rename_i h <;> simp [h, cachePut]

theorem cacheHas_put (c : GetCache) (r : GAFTEntry) (k k' : GKey) :
    cacheHas (cachePut c r k) k' = (cacheHas c k' || k == k') := by
  cases k <;> cases k' <;> simp [cacheHas, cachePut, Map.get?_insert] <;>
    (rename_i a b; by_cases h : a = b <;> simp [h])

theorem cacheHas_empty (k : GKey) : cacheHas {} k = false := by
  cases k <;> rfl

/-- the index after one more response entry holds what it held, and that entry under its key -/
theorem look_step (m : Map String GetCache) (r : GAFTEntry) (ni : String) (k : GKey) :
    look (stepG m r) ni k = (look m ni k || (r.NetworkInstance == ni && respKey r == some k)) := by
  unfold stepG look
  cases hk : respKey r with
  | none =>
    cases hm : Map.get? m r.NetworkInstance with
    | some c => simp
    | none =>
      by_cases hn : r.NetworkInstance = ni
      · subst hn; simp [hm, cacheHas_empty]
      · simp [Map.get?_insert, hn]
  | some k0 =>
    by_cases hn : r.NetworkInstance = ni
    · subst hn
      cases hm : Map.get? m r.NetworkInstance with
      | some c => simp [cacheHas_put]
      | none => simp [cacheHas_put, cacheHas_empty]
    · cases hm : Map.get? m r.NetworkInstance with
      | some c => simp [Map.get?_insert, hn]
      | none => simp [Map.get?_insert, hn]

/-- what the lookup loop decides on an index -/
def wantOK (f : String → GKey → Bool) (w : Option GAFTEntry) : Bool :=
  match w with
  | none => false
  | some p =>
    p.NetworkInstance ≠ "" &&
    match p.Entry with
    | none => false
    | some k => f p.NetworkInstance (wantKey k)

theorem loop2_eq (m : Map String GetCache) (wants : List (Option GAFTEntry)) :
    getResponseHasEntries.loop1.loop2 m wants = wants.all (wantOK (look m)) := by
  induction wants with
  | nil => simp [getResponseHasEntries.loop1.loop2]
  | cons w t ih =>
    rw [getResponseHasEntries.loop1.loop2.eq_def]
    rcases w with _ | ⟨ni, e⟩
    · simp [wantOK]
    · by_cases hni : ni = ""
      · simp [wantOK, hni]
      · rcases e with _ | (x | x | x | x | x)
        · simp [wantOK, hni]
        all_goals
          simp only [hni, if_false, List.all_cons, wantOK, look, wantKey, ← ih]
          cases hm : Map.get? m ni with
          | none => simp
          | some c =>
            simp only [cacheHas]
            split <;> rename_i h <;> simp only [h] <;> simp [hni]

theorem loop1_eq (wants : List (Option GAFTEntry)) :
    ∀ (l : List GAFTEntry) (m : Map String GetCache),
      getResponseHasEntries.loop1 wants l m =
        wants.all (wantOK fun ni k =>
          look m ni k || l.any fun e => e.NetworkInstance == ni && respKey e == some k) := by
  intro l
  induction l with
  | nil =>
    intro m
    rw [getResponseHasEntries.loop1, loop2_eq]
    simp
  | cons r t ih =>
    intro m
    rw [loop1_step, ih]
    congr 2
    funext ni k
    simp [look_step, Bool.or_assoc]

/-- **`GetResponseHasEntries`** passes exactly when every wanted entry is non-nil, names a network
instance, has an entry, and some response entry of that network instance is indexed under the
wanted type and key — for every response and every list of wanted entries. (A nil response and an
entry whose conversion to a protobuf fails end the test: the result `false`.) -/
theorem gen_getResponseHasEntries (resp : List GAFTEntry) (wants : List (Option GAFTEntry)) (pe : Status) :
    Gen.getResponseHasEntries (some ⟨resp⟩) wants pe = getSpec resp wants := by
  unfold Gen.getResponseHasEntries getSpec
  simp only [loop1_eq]
  congr 1

/-- a nil response is an empty one (`GetEntry()` of a nil message) -/
theorem gen_getResponseHasEntries_nil (wants : List (Option GAFTEntry)) (pe : Status) :
    Gen.getResponseHasEntries none wants pe = getSpec [] wants := by
  unfold Gen.getResponseHasEntries getSpec
  simp only [Option.map, Option.getD, loop1_eq]
  congr 1

/-! ### the same statement on the hand-written model `Chk.getResponseHasEntries`

The model (driven by the differential harness) renders numeric keys as strings; `num` is any
injective rendering with `num 0 = "0"` (Go's `fmt.Sprint`). -/

structure Rendering (num : Nat → String) : Prop where
  inj : ∀ a b, num a = num b → a = b
  zero : num 0 = "0"

def kindKey (num : Nat → String) : GKey → Chk.EKind × String
  | .nhg n => (.nhg, num n)
  | .nh n => (.nh, num n)
  | .v4 s => (.v4, s)
  | .v6 s => (.v6, s)
  | .mpls n => (.mpls, num n)

/-- a response entry as the model sees it: an entry without a type, or a label that is not the
uint64 member, is of kind `other` (never indexed) -/
def absR (num : Nat → String) (e : GAFTEntry) : Chk.GEntry :=
  match e.Entry with
  | none => ⟨e.NetworkInstance, .other, ""⟩
  | some (.Mpls x) =>
    if (x.map (·.LabelIsUint64)).getD false then ⟨e.NetworkInstance, .mpls, num ((x.map (·.LabelUint64)).getD 0)⟩
    else ⟨e.NetworkInstance, .other, ""⟩
  | some k => ⟨e.NetworkInstance, (kindKey num (wantKey k)).1, (kindKey num (wantKey k)).2⟩

/-- a wanted entry as the model sees it (nil, or without a type: never found) -/
def absW (num : Nat → String) (w : Option GAFTEntry) : Chk.GEntry :=
  match w with
  | none => ⟨"", .other, ""⟩
  | some p =>
    match p.Entry with
    | none => ⟨p.NetworkInstance, .other, ""⟩
    | some k => ⟨p.NetworkInstance, (kindKey num (wantKey k)).1, (kindKey num (wantKey k)).2⟩

theorem kindKey_inj (num : Nat → String) (hn : Rendering num) (a b : GKey) :
    kindKey num a = kindKey num b ↔ a = b := by
  constructor
  · intro h
    cases a <;> cases b <;> simp [kindKey] at h <;> first | (rw [hn.inj _ _ h]) | (rw [h])
  · intro h; rw [h]

theorem absR_match (num : Nat → String) (hn : Rendering num) (e : GAFTEntry) (k : GKey) :
    (Chk.indexable (absR num e) && (absR num e).kind == (kindKey num k).1 && (absR num e).key == (kindKey num k).2)
      = (respKey e == some k) := by
  have hz : ∀ n, (num n = "0") ↔ n = 0 := fun n =>
    ⟨fun h => hn.inj _ _ (h.trans hn.zero.symm), fun h => by rw [h, hn.zero]⟩
  have hi : ∀ a b, num a = num b ↔ a = b := fun a b => ⟨hn.inj _ _, fun h => by rw [h]⟩
  rw [Bool.eq_iff_iff]
  rcases e with ⟨ni, _ | (x | x | x | x | x)⟩
  · cases k <;> simp [absR, respKey, Chk.indexable, kindKey]
  case some.Mpls =>
    by_cases hf : (x.map (·.LabelIsUint64)).getD false = true
    · cases k <;> simp [absR, respKey, hf, Chk.indexable, kindKey, hi]
    · cases k <;> simp [absR, respKey, hf, Chk.indexable, kindKey]
  all_goals
    cases k <;> simp [absR, respKey, kindKey, wantKey, Chk.indexable, hi, hz] <;>
      (intro h; subst h; simp_all)

theorem absR_ni (num : Nat → String) (e : GAFTEntry) : (absR num e).ni = e.NetworkInstance := by
  rcases e with ⟨ni, _ | (x | x | x | x | x)⟩ <;> simp [absR]
  split <;> rfl

theorem any_and_any {α : Type} (l : List α) (f g : α → Bool) (h : ∀ a, g a = true → f a = true) :
    (l.any f && l.any g) = l.any g := by
  rw [Bool.eq_iff_iff]
  simp only [Bool.and_eq_true, List.any_eq_true]
  constructor
  · exact fun x => x.2
  · rintro ⟨a, ha, hg⟩
    exact ⟨⟨a, ha, h a hg⟩, a, ha, hg⟩

/-- the specification above is the hand-written model's `getResponseHasEntries` on the rendered
entries -/
theorem getSpec_model (num : Nat → String) (hn : Rendering num) (resp : List GAFTEntry)
    (wants : List (Option GAFTEntry)) :
    getSpec resp wants = Chk.getResponseHasEntries (resp.map (absR num)) (wants.map (absW num)) := by
  unfold getSpec Chk.getResponseHasEntries
  rw [List.all_map]
  congr 1
  funext w
  simp only [Function.comp, List.any_map]
  rcases w with _ | ⟨ni, e⟩
  · simp [absW]
  · cases e with
    | none => simp [absW]
    | some k =>
      have hk : (kindKey num (wantKey k)).1 ≠ Chk.EKind.other := by cases k <;> simp [kindKey, wantKey]
      simp only [absW, ne_eq, hk, not_false_eq_true, decide_true, Bool.and_true]
      rw [Bool.and_assoc, any_and_any]
      · congr 2
        funext e
        rw [← absR_match num hn e (wantKey k)]
        simp only [Function.comp, absR_ni]
        cases Chk.indexable (absR num e) <;> cases (e.NetworkInstance == ni) <;> simp
      · intro a ha
        simp only [Function.comp, absR_ni, Bool.and_eq_true] at ha ⊢
        exact ha.1.1.2

/-- **`GetResponseHasEntries` = the model's `getResponseHasEntries`**, for every response, every
list of wanted entries and every injective rendering of the numeric keys -/
theorem gen_getResponseHasEntries_model (num : Nat → String) (hn : Rendering num) (resp : List GAFTEntry)
    (wants : List (Option GAFTEntry)) (pe : Status) :
    Gen.getResponseHasEntries (some ⟨resp⟩) wants pe =
      Chk.getResponseHasEntries (resp.map (absR num)) (wants.map (absW num)) := by
  rw [gen_getResponseHasEntries, getSpec_model num hn]

/-- soundness in the words of the property: when the helper passes, every wanted entry is in the
response (same network instance, same type, same key) -/
theorem get_pass_present (resp : List GAFTEntry) (wants : List (Option GAFTEntry)) (pe : Status)
    (h : Gen.getResponseHasEntries (some ⟨resp⟩) wants pe = true) :
    ∀ w ∈ wants, ∃ p k, w = some p ∧ p.Entry = some k ∧
      ∃ e ∈ resp, e.NetworkInstance = p.NetworkInstance ∧ respKey e = some (wantKey k) := by
  rw [gen_getResponseHasEntries] at h
  intro w hw
  have := (List.all_eq_true.mp h) w hw
  rcases w with _ | p
  · simp at this
  · cases hk : p.Entry with
    | none => simp [hk] at this
    | some k =>
      simp only [hk, Bool.and_eq_true, List.any_eq_true, beq_iff_eq] at this
      obtain ⟨_, e, he, h1, h2⟩ := this
      exact ⟨p, k, rfl, hk, e, he, h1, h2⟩

/-- completeness: an entry the response does not hold (under the wanted key) fails the helper -/
theorem get_absent_fails (resp : List GAFTEntry) (wants : List (Option GAFTEntry)) (pe : Status)
    (p : GAFTEntry) (k : GKey) (hw : some p ∈ wants) (hk : p.Entry.map wantKey = some k)
    (habs : ∀ e ∈ resp, e.NetworkInstance = p.NetworkInstance → respKey e ≠ some k) :
    Gen.getResponseHasEntries (some ⟨resp⟩) wants pe = false := by
  rw [gen_getResponseHasEntries]
  cases hr : getSpec resp wants with
  | false => rfl
  | true =>
    exfalso
    have := (List.all_eq_true.mp hr) _ hw
    cases hk' : p.Entry with
    | none => simp [hk'] at this
    | some k' =>
      simp only [hk', Option.map_some, Option.some.injEq] at hk
      subst hk
      simp only [hk', Bool.and_eq_true, List.any_eq_true, beq_iff_eq] at this
      obtain ⟨_, e, he, h1, h2⟩ := this
      exact habs e he h1 h2

theorem gen_chkget_translated : Gen.getResponseHasEntries_problem = none := rfl

/-- non-vacuity: a response with a group and a label entry, wanted and unwanted entries -/
example :
    Gen.getResponseHasEntries (some ⟨[⟨"DEFAULT", some (.NextHopGroup (some ⟨7⟩))⟩, ⟨"VRF", some (.Mpls (some ⟨100, true⟩))⟩]⟩)
      [some ⟨"DEFAULT", some (.NextHopGroup (some ⟨7⟩))⟩, some ⟨"VRF", some (.Mpls (some ⟨100, true⟩))⟩] ⟨.Unknown, .none⟩ = true ∧
    Gen.getResponseHasEntries (some ⟨[⟨"DEFAULT", some (.NextHopGroup (some ⟨7⟩))⟩]⟩)
      [some ⟨"VRF", some (.NextHopGroup (some ⟨7⟩))⟩] ⟨.Unknown, .none⟩ = false := by
  constructor <;> rfl

end Gribi.GenEquiv.ChkGet
