/-
The tie by translation. `Gribi/Gen/*.lean` are regenerated from /repo's Go sources on every
check run (by /verif/translate). The theorems in `Gribi/Props/GenEquiv/*` state, for every
input, that each generated definition — what the Go function says now — computes what the
hand-written model computes. They are re-elaborated and re-checked by the kernel on every
run; a change of the Go function that changes its decision for any input makes the
corresponding theorem fail. Nothing is specific to a sample of inputs: election ids range over
all 2^128 values, selectors over every case.
-/
import Gribi.GenPrelude
import Gribi.Model.Server
import Gribi.Props.C05
namespace Gribi.GenEquiv
open Gribi Gribi.Gen

/-! ### translation of the model's vocabulary into the generated one -/

def codeOf : Code → GCode
  | .ok => .OK | .unknown => .Unknown | .invalidArgument => .InvalidArgument
  | .failedPrecondition => .FailedPrecondition | .unimplemented => .Unimplemented | .internal => .Internal

def detOf : Reason → Details
  | .none => .none
  | .unknown => .modify .UNKNOWN
  | .unsupportedParams => .modify .UNSUPPORTED_PARAMS
  | .modifyNotAllowed => .modify .MODIFY_NOT_ALLOWED
  | .paramsDiffer => .modify .PARAMS_DIFFER_FROM_OTHER_CLIENTS
  | .elecInAllPrimary => .modify .ELECTION_ID_IN_ALL_PRIMARY

def statusOf (t : Term) : Status := ⟨codeOf t.code, detOf t.reason⟩

def fdetOf : Server.FlushReason → Details
  | .none => .none
  | .unspecifiedNI => .flush .UNSPECIFIED_NETWORK_INSTANCE
  | .invalidNI => .flush .INVALID_NETWORK_INSTANCE
  | .unspecifiedElection => .flush .UNSPECIFIED_ELECTION_BEHAVIOR
  | .elecInAllPrimary => .flush .ELECTION_ID_IN_ALL_PRIMARY
  | .invalidElec => .flush .INVALID_ELECTION_ID
  | .notPrimary => .flush .NOT_PRIMARY

def fstatusOf (r : Server.FlushRes) : Status := ⟨codeOf r.code, fdetOf r.reason⟩

theorem codeOf_inj : ∀ a b, codeOf a = codeOf b → a = b := by
  intro a b; cases a <;> cases b <;> simp [codeOf]
theorem detOf_inj : ∀ a b, detOf a = detOf b → a = b := by
  intro a b; cases a <;> cases b <;> simp [detOf]
theorem fdetOf_inj : ∀ a b, fdetOf a = fdetOf b → a = b := by
  intro a b; cases a <;> cases b <;> simp [fdetOf]

/-! ### uint128 comparison -/

theorem u128_eta (c : U128) : u128 c.lo c.hi = c := rfl

/-- `Cmp` is the three-way comparison of the 128-bit values -/
theorem cmp_cases (a b : U128) :
    (cmp a b = -1 ∧ a.toNat < b.toNat) ∨ (cmp a b = 0 ∧ a = b) ∨ (cmp a b = 1 ∧ b.toNat < a.toNat) := by
  have hlt := C05.u128_lt_iff a b
  have hgt := C05.u128_lt_iff b a
  unfold U128.lt at hlt hgt
  simp only [Bool.or_eq_true, decide_eq_true_eq, Bool.and_eq_true, beq_iff_eq] at hlt hgt
  unfold cmp
  by_cases h1 : a.hi < b.hi
  · simp only [h1, if_true]; exact Or.inl ⟨trivial, hlt.mp (Or.inl h1)⟩
  · by_cases h2 : b.hi < a.hi
    · simp only [h1, h2, if_false, if_true]; exact Or.inr (Or.inr ⟨trivial, hgt.mp (Or.inl h2)⟩)
    · have hhi : a.hi = b.hi := by
        apply UInt64.toNat_inj.mp
        have : ¬ a.hi.toNat < b.hi.toNat := fun x => h1 (UInt64.lt_iff_toNat_lt.mpr x)
        have : ¬ b.hi.toNat < a.hi.toNat := fun x => h2 (UInt64.lt_iff_toNat_lt.mpr x)
        omega
      by_cases h3 : a.lo < b.lo
      · simp only [h1, h2, h3, if_false, if_true]; exact Or.inl ⟨trivial, hlt.mp (Or.inr ⟨hhi, h3⟩)⟩
      · by_cases h4 : b.lo < a.lo
        · simp only [h1, h2, h3, h4, if_false, if_true]
          exact Or.inr (Or.inr ⟨trivial, hgt.mp (Or.inr ⟨hhi.symm, h4⟩)⟩)
        · have hlo : a.lo = b.lo := by
            apply UInt64.toNat_inj.mp
            have : ¬ a.lo.toNat < b.lo.toNat := fun x => h3 (UInt64.lt_iff_toNat_lt.mpr x)
            have : ¬ b.lo.toNat < a.lo.toNat := fun x => h4 (UInt64.lt_iff_toNat_lt.mpr x)
            omega
          simp only [h1, h2, h3, h4, if_false]
          refine Or.inr (Or.inl ⟨trivial, ?_⟩)
          cases a; cases b; simp_all

theorem lt_irrefl' (a : U128) : ¬ a.toNat < a.toNat := Nat.lt_irrefl _

/-- the model's `lt`/`le` in terms of `Cmp` -/
theorem lt_iff_cmp (a b : U128) : U128.lt a b = true ↔ cmp a b = -1 := by
  rw [C05.u128_lt_iff]
  rcases cmp_cases a b with ⟨h, h'⟩ | ⟨h, h'⟩ | ⟨h, h'⟩ <;> simp [h] <;> first | omega | (subst h'; omega) | skip
  all_goals omega

theorem le_iff_cmp (a b : U128) : U128.le a b = true ↔ cmp a b ≠ 1 := by
  rw [C05.u128_le_iff]
  rcases cmp_cases a b with ⟨h, h'⟩ | ⟨h, h'⟩ | ⟨h, h'⟩ <;> simp [h] <;> first | omega | (subst h'; omega) | skip

theorem eq_iff_cmp (a b : U128) : a = b ↔ cmp a b = 0 := by
  rcases cmp_cases a b with ⟨h, h'⟩ | ⟨h, h'⟩ | ⟨h, h'⟩ <;> simp [h]
  · intro e; subst e; omega
  · exact h'
  · intro e; subst e; omega

theorem equals_iff (a b : U128) : equals a b = true ↔ a = b := by
  unfold equals; cases a; cases b; simp

theorem isZero_iff (e : U128) : e.isZero = true ↔ e = u128 0 0 := by
  unfold U128.isZero u128; cases e; simp

end Gribi.GenEquiv
