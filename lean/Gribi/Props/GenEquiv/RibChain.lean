/-
The chain from the code to the model's `classify`, for an ADD / REPLACE:

  `addEntryInternal` (module RibAdd)  calls  `AddIPv4` … (module RibTable)  which call  `checkFn` =
  `canResolve` (module Rib).

Each link is a theorem about a definition regenerated from the Go source. Composed: the outcome
of the table-level add, with the translated `canResolve` as its semantic check, is the model's
`Rib.classify` — failed for good / held / installed — and `addEntryInternal` acts on that outcome
as the model's `add` does (answer FAILED and forget; hold without answering; acknowledge, then
retry everything held).
-/
import Gribi.Props.GenEquiv.Rib
import Gribi.Props.GenEquiv.RibTable
import Gribi.Props.GenEquiv.RibAdd
namespace Gribi.GenEquiv.RibChain
open Gribi Gribi.Gen Gribi.GenEquiv Gribi.GenEquiv.RibTable Gribi.GenEquiv.RibAdd

/-- what the caller of a table-level add concludes from its three results -/
def tryOfResult (r : Bool × Option Unit × Option Status × List Eff) : Rib.Try :=
  if r.2.2.1.isSome then .err else if r.1 then .ok else .hold

/-- the table-level add, with the translated `canResolve` as its check and a merge that does not
fail, decides exactly the model's `classify` (schema validation, explicit-replace existence,
resolution — in this order) -/
theorem table_classify (s : Rib) (op : Op) (d : NI) (hni : op.ni ≠ "") (hk : s.hasNI op.ni = true)
    (kind : Nat) (elems : NewAfts → List NewElem) (c : NewRIB) (installed hook : Option Unit) (name : String)
    (f1 f2 : String → Nat → Bool) :
    tryOfResult (tableAddSpec kind elems false (decide (op.ty = .replace)) (some ())
        (if op.cls = .wf then some c else none) (s.has (op.ni, op.key)) installed (some ())
        (Gen.canResolve op.ni (some (candOf op.key op.pl)) none d (fun n => s.hasNI n) (fun n g => s.has (n, .nhg g))
          (fun n i => s.has (n, .nh i)) f1 f2).1
        (Gen.canResolve op.ni (some (candOf op.key op.pl)) none d (fun n => s.hasNI n) (fun n g => s.has (n, .nhg g))
          (fun n i => s.has (n, .nh i)) f1 f2).2
        none hook name) = Rib.classify s op := by
  rw [gen_canResolve s d op.ni op.key op.pl hni hk, classify_eq]
  by_cases hc : op.cls = .wf
  · by_cases hr : op.ty = .replace
    · by_cases hh : s.has (op.ni, op.key) = true
      · cases ht : resolveTry s op.ni op.key op.pl <;> simp [tableAddSpec, tryOfResult, tryOut, hc, hr, hh]
      · simp [tableAddSpec, tryOfResult, hc, hr, hh]
    · cases ht : resolveTry s op.ni op.key op.pl <;>
        cases hh : s.has (op.ni, op.key) <;> simp [tableAddSpec, tryOfResult, tryOut, hc, hr]
  · simp [tableAddSpec, tryOfResult, hc]


/-- `addEntryInternal` acts on the outcome of the table-level add as the model's `add` acts on
`classify`: for every `self`, with the three results of the table-level add as its oracles -/
theorem add_by_try (self : Self) (ni : String) (o : AFTOperationC) (e : AFTEntry) (niKnown niValid : String → Bool)
    (r : Bool × Option Unit × Option Status × List Eff) (hookErr : Option Status) (noFwd : Bool)
    (oks fails : List RibOpResult) (stack : List Nat) (pend : Map Nat PendingEntry)
    (hfresh : o.Id ∉ stack) (hk : niKnown ni = true) (hv : niValid ni = true) (he : o.Entry = some e)
    (hh : hookOf e = none ∨ hookErr = none) :
    Gen.addEntryInternal self ni o niKnown niValid r.1 r.2.1 r.2.2.1 hookErr noFwd oks fails stack pend =
      match tryOfResult r with
      | .err => (none, oks, fails ++ [⟨o.Id⟩], o.Id :: stack, Map.erase pend o.Id, [addEff ni (decide (o.Op = AFTOperation_REPLACE)) e])
      | .hold =>
        if noFwd then (none, oks, fails ++ [⟨o.Id⟩], stack, pend, [addEff ni (decide (o.Op = AFTOperation_REPLACE)) e])
        else (none, oks, fails, stack, Map.insert pend o.Id ⟨ni, o⟩, [addEff ni (decide (o.Op = AFTOperation_REPLACE)) e])
      | .ok =>
        retry self ((Map.erase pend o.Id).map (·.2)) (oks ++ [⟨o.Id⟩]) fails (o.Id :: stack) (Map.erase pend o.Id)
          ([addEff ni (decide (o.Op = AFTOperation_REPLACE)) e] ++ refEff ni r.2.1 e ++
            (match hookOf e with
             | some (aft, key) => [Eff.resolvedHook constants_Add ni aft key]
             | none => [])) := by
  obtain ⟨done, orig, err, effs⟩ := r
  cases err with
  | some x =>
    simp only [tryOfResult, Option.isSome_some, if_true]
    exact add_failed self ni o niKnown niValid orig hookErr noFwd oks fails stack pend e x done hfresh hk hv he
  | none =>
    cases done with
    | true =>
      simp only [tryOfResult, Option.isSome_none, Bool.false_eq_true, if_false, if_true]
      exact add_installed self ni o niKnown niValid orig hookErr noFwd oks fails stack pend e hfresh hk hv he hh
    | false =>
      simp only [tryOfResult, Option.isSome_none, Bool.false_eq_true, if_false]
      cases noFwd with
      | true => simpa using add_unresolved_nofwd self ni o niKnown niValid orig hookErr oks fails stack pend e hfresh hk hv he
      | false => simpa using add_held self ni o niKnown niValid orig hookErr oks fails stack pend e hfresh hk hv he


/-! ### the same chain for a DELETE -/

/-- what the caller of a table-level delete concludes from its three results -/
def dtryOfResult (r : Bool × Option Unit × Option Status × List Eff) : Rib.DTry :=
  if r.2.2.1.isSome then .err else if !r.1 then .refd else if r.2.1.isSome then .ok else .absent

/-- the kind's own refusal of a key that names nothing -/
def preErrOf : Key → Bool
  | .mpls l => decide (l > Rib.maxLabel)
  | .nhg g => decide (g = 0)
  | .nh i => decide (i = 0)
  | _ => false

/-- the table-level delete of a well-formed request, with the translated `canDelete` as its check,
decides exactly the model's `classifyDel` (refused / still referenced / not installed / removed) -/
theorem table_classifyDel (s : Rib) (op : Op) (d : NI) (hni : op.ni ≠ "") (hk : s.hasNI op.ni = true) (hc : op.cls = .wf)
    (kind : Nat) (useKeyErr : Bool) (hook : Option Unit) (name : String) :
    dtryOfResult (tableDelSpec kind (preErrOf op.key) useKeyErr false (some ())
        (if s.has (op.ni, op.key) then some () else none) none (some ())
        (Gen.canDelete op.ni (some (candOf op.key op.pl)) none d (fun n => s.hasNI n) (fun n g => s.has (n, .nhg g))
          (fun n i => s.has (n, .nh i)) (fun n g => decide (Rib.cnt s.nhgRef (n, g) > 0))
          (fun n i => decide (Rib.cnt s.nhRef (n, i) > 0))).1
        (Gen.canDelete op.ni (some (candOf op.key op.pl)) none d (fun n => s.hasNI n) (fun n g => s.has (n, .nhg g))
          (fun n i => s.has (n, .nh i)) (fun n g => decide (Rib.cnt s.nhgRef (n, g) > 0))
          (fun n i => decide (Rib.cnt s.nhRef (n, i) > 0))).2
        hook name) = Rib.classifyDel s op := by
  rw [gen_canDelete s d op.ni op.key op.pl hni hk, classifyDel_eq]
  simp only [hc, ne_eq, not_true_eq_false, if_false]
  cases hkey : op.key with
  | v4 p =>
    by_cases hh : s.has (op.ni, Key.v4 p) = true <;>
      simp [tableDelSpec, dtryOfResult, preErrOf, delTry, dtryOut, hh]
  | v6 p =>
    by_cases hh : s.has (op.ni, Key.v6 p) = true <;>
      simp [tableDelSpec, dtryOfResult, preErrOf, delTry, dtryOut, hh]
  | mpls l =>
    by_cases hl : l > Rib.maxLabel
    · simp [tableDelSpec, dtryOfResult, preErrOf, hl]
    · by_cases hh : s.has (op.ni, Key.mpls l) = true <;>
        simp [tableDelSpec, dtryOfResult, preErrOf, delTry, dtryOut, hh, hl]
  | nhg g =>
    by_cases hg : g = 0
    · simp [tableDelSpec, dtryOfResult, preErrOf, delTry, hg]
    · by_cases hh : s.has (op.ni, Key.nhg g) = true
      · by_cases hr : Rib.cnt s.nhgRef (op.ni, g) > 0 <;>
          simp [tableDelSpec, dtryOfResult, preErrOf, delTry, dtryOut, hh, hg, hr]
      · simp [tableDelSpec, dtryOfResult, preErrOf, delTry, dtryOut, hh, hg]
  | nh i =>
    by_cases hg : i = 0
    · simp [tableDelSpec, dtryOfResult, preErrOf, delTry, hg]
    · by_cases hh : s.has (op.ni, Key.nh i) = true
      · by_cases hr : Rib.cnt s.nhRef (op.ni, i) > 0 <;>
          simp [tableDelSpec, dtryOfResult, preErrOf, delTry, dtryOut, hh, hg, hr]
      · simp [tableDelSpec, dtryOfResult, preErrOf, delTry, dtryOut, hh, hg]

end Gribi.GenEquiv.RibChain
