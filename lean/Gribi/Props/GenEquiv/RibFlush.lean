/-
The tie by translation, `rib.RIB.Flush` (rib/rib.go): what a flush of a list of network instances
does, as the sequence of calls it makes on the instances' tables and counters. A RIBHolder is
represented by the name of its instance; the tables are read where the Go code ranges over them
(`v4 ni`, `v6 ni`, `mpls ni`, `nhgs ni`, and — after the backup groups have been deleted —
`nhgsRest ni`, then `nhs ni`); the results of the deletes are oracles. The theorem gives the
sequence for every list of instances, every content of the tables and every outcome of the deletes:

* every IPv4, then every IPv6, then every MPLS entry of the instance: the reference it holds on its
  next-hop-group is given back (in the instance the entry names, when that instance can be found)
  and the entry is deleted;
* then the groups that are the backup of an installed group and are themselves installed, each once;
* then every group still in the table; then every next-hop;
* the errors of the deletes are collected, and the flush fails exactly when there is one.

See `Gribi/Props/GenEquiv/Base.lean`.
-/
import Gribi.Gen.RibFlush
namespace Gribi.GenEquiv.RibFlush
open Gribi Gribi.Gen

section
variable (refName : String → String → String) (refErr : String → String → Option Status)

/-- the calls for one IPv4 / IPv6 / MPLS entry: give the group's reference back, delete the entry -/
def topEffs {κ : Type} (del : String → κ → Eff) (ni : String) (e : κ × OrigTop) : List Eff :=
  (match refErr ni e.2.NextHopGroupNetworkInstance with
   | none => [Eff.decNHGRef (refName ni e.2.NextHopGroupNetworkInstance) e.2.NextHopGroup]
   | some _ => []) ++ [del ni e.1]

/-- one step of the search for backup groups: `(seen, backups so far)` -/
def backupStep (m : Map Nat FlNHG) (st : List Nat × List Nat) (e : Nat × FlNHG) : List Nat × List Nat :=
  match e.2.BackupNextHopGroup with
  | none => st
  | some id => if (Map.get? m id).isSome && !st.1.contains id then (id :: st.1, st.2 ++ [id]) else st

/-- the backup groups that `Flush` deletes first -/
def backupsOf (m : Map Nat FlNHG) : List Nat := (m.foldl (backupStep m) ([], [])).2
end

theorem loop2_eq (refName : String → String → String) (refErr del : String → String → Option Status) (ni : String) :
    ∀ (l : List (String × OrigTop)) (errs : List Status) (effs : List Eff),
      ribFlush.loop1.loop2 refName refErr del ni l errs effs =
        Sum.inr (errs ++ l.filterMap (fun e => del ni e.1),
                 effs ++ l.flatMap (topEffs refName refErr (Eff.flDelStr 4) ni)) := by
  intro l
  induction l with
  | nil => intro errs effs; simp [ribFlush.loop1.loop2]
  | cons e t ih =>
    intro errs effs
    rw [ribFlush.loop1.loop2]
    cases h1 : refErr ni e.2.NextHopGroupNetworkInstance <;> cases h2 : del ni e.1 <;>
      simp [ih, topEffs, h1, h2]

theorem loop3_eq (refName : String → String → String) (refErr del : String → String → Option Status) (ni : String) :
    ∀ (l : List (String × OrigTop)) (errs : List Status) (effs : List Eff),
      ribFlush.loop1.loop3 refName refErr del ni l errs effs =
        Sum.inr (errs ++ l.filterMap (fun e => del ni e.1),
                 effs ++ l.flatMap (topEffs refName refErr (Eff.flDelStr 6) ni)) := by
  intro l
  induction l with
  | nil => intro errs effs; simp [ribFlush.loop1.loop3]
  | cons e t ih =>
    intro errs effs
    rw [ribFlush.loop1.loop3]
    cases h1 : refErr ni e.2.NextHopGroupNetworkInstance <;> cases h2 : del ni e.1 <;>
      simp [ih, topEffs, h1, h2]

theorem loop4_eq (refName : String → String → String) (refErr : String → String → Option Status)
    (del : String → Nat → Option Status) (ni : String) :
    ∀ (l : List (Nat × OrigTop)) (errs : List Status) (effs : List Eff),
      ribFlush.loop1.loop4 refName refErr del ni l errs effs =
        Sum.inr (errs ++ l.filterMap (fun e => del ni e.1),
                 effs ++ l.flatMap (topEffs refName refErr (Eff.flDelNat 1) ni)) := by
  intro l
  induction l with
  | nil => intro errs effs; simp [ribFlush.loop1.loop4]
  | cons e t ih =>
    intro errs effs
    rw [ribFlush.loop1.loop4]
    cases h1 : refErr ni e.2.NextHopGroupNetworkInstance <;> cases h2 : del ni e.1 <;>
      simp [ih, topEffs, h1, h2]

theorem loop5_eq (nhgs : String → Map Nat FlNHG) (ni : String) :
    ∀ (l : List (Nat × FlNHG)) (seen bk : List Nat) (effs : List Eff),
      ribFlush.loop1.loop5 nhgs ni l seen bk effs =
        Sum.inr ((l.foldl (backupStep (nhgs ni)) (seen, bk)).1, (l.foldl (backupStep (nhgs ni)) (seen, bk)).2, effs) := by
  intro l
  induction l with
  | nil => intro seen bk effs; simp [ribFlush.loop1.loop5]
  | cons e t ih =>
    intro seen bk effs
    rw [ribFlush.loop1.loop5]
    cases hb : e.2.BackupNextHopGroup with
    | none => simp [ih, backupStep, hb]
    | some id =>
      cases hm : Map.get? (nhgs ni) id with
      | none => simp [ih, backupStep, hb, hm]
      | some g =>
        by_cases hs : id ∈ seen
        · simp [ih, backupStep, hb, hm, hs]
        · simp [ih, backupStep, hb, hm, hs]

theorem loop6_eq (del : String → Nat → Option Status) (ni : String) :
    ∀ (l : List Nat) (errs : List Status) (effs : List Eff),
      ribFlush.loop1.loop6 del ni l errs effs =
        Sum.inr (errs ++ l.filterMap (fun id => del ni id), effs ++ l.map (Eff.flDelNat 2 ni)) := by
  intro l
  induction l with
  | nil => intro errs effs; simp [ribFlush.loop1.loop6]
  | cons e t ih =>
    intro errs effs
    rw [ribFlush.loop1.loop6]
    cases h2 : del ni e <;> simp [ih, h2]

theorem loop7_eq (del : String → Nat → Option Status) (ni : String) :
    ∀ (l : List (Nat × FlNHG)) (errs : List Status) (effs : List Eff),
      ribFlush.loop1.loop7 del ni l errs effs =
        Sum.inr (errs ++ l.filterMap (fun e => del ni e.1), effs ++ l.map (fun e => Eff.flDelNat 2 ni e.1)) := by
  intro l
  induction l with
  | nil => intro errs effs; simp [ribFlush.loop1.loop7]
  | cons e t ih =>
    intro errs effs
    rw [ribFlush.loop1.loop7]
    cases h2 : del ni e.1 <;> simp [ih, h2]

theorem loop8_eq (del : String → Nat → Option Status) (ni : String) :
    ∀ (l : List (Nat × Unit)) (errs : List Status) (effs : List Eff),
      ribFlush.loop1.loop8 del ni l errs effs =
        Sum.inr (errs ++ l.filterMap (fun e => del ni e.1), effs ++ l.map (fun e => Eff.flDelNat 3 ni e.1)) := by
  intro l
  induction l with
  | nil => intro errs effs; simp [ribFlush.loop1.loop8]
  | cons e t ih =>
    intro errs effs
    rw [ribFlush.loop1.loop8]
    cases h2 : del ni e.1 <;> simp [ih, h2]

section
variable (v4 v6 : String → Map String OrigTop) (mpls : String → Map Nat OrigTop)
  (nhgs nhgsRest : String → Map Nat FlNHG) (nhs : String → Map Nat Unit)
  (refName : String → String → String) (refErr : String → String → Option Status)
  (del4 del6 : String → String → Option Status) (delM delG delH : String → Nat → Option Status)

/-- the calls of the flush of one instance, in order -/
def niEffs (ni : String) : List Eff :=
  (v4 ni).flatMap (topEffs refName refErr (Eff.flDelStr 4) ni) ++
  (v6 ni).flatMap (topEffs refName refErr (Eff.flDelStr 6) ni) ++
  (mpls ni).flatMap (topEffs refName refErr (Eff.flDelNat 1) ni) ++
  (backupsOf (nhgs ni)).map (Eff.flDelNat 2 ni) ++
  (nhgsRest ni).map (fun e => Eff.flDelNat 2 ni e.1) ++
  (nhs ni).map (fun e => Eff.flDelNat 3 ni e.1)

/-- the errors of the deletes of one instance, in order -/
def niErrs (ni : String) : List Status :=
  (v4 ni).filterMap (fun e => del4 ni e.1) ++
  (v6 ni).filterMap (fun e => del6 ni e.1) ++
  (mpls ni).filterMap (fun e => delM ni e.1) ++
  (backupsOf (nhgs ni)).filterMap (fun id => delG ni id) ++
  (nhgsRest ni).filterMap (fun e => delG ni e.1) ++
  (nhs ni).filterMap (fun e => delH ni e.1)

theorem loop1_eq :
    ∀ (l : List String) (errs : List Status) (effs : List Eff),
      ribFlush.loop1 v4 v6 mpls nhgs nhgsRest nhs refName refErr del4 del6 delM delG delH l errs effs =
        Sum.inr (errs ++ l.flatMap (niErrs v4 v6 mpls nhgs nhgsRest nhs del4 del6 delM delG delH),
                 effs ++ l.flatMap (niEffs v4 v6 mpls nhgs nhgsRest nhs refName refErr)) := by
  intro l
  induction l with
  | nil => intro errs effs; simp [ribFlush.loop1]
  | cons ni t ih =>
    intro errs effs
    rw [ribFlush.loop1]
    simp only [loop2_eq, loop3_eq, loop4_eq, loop5_eq, loop6_eq, loop7_eq, loop8_eq, ih]
    simp [niErrs, niEffs, backupsOf, List.append_assoc]

/-- **`Flush`**: the calls it makes are those of each instance in turn, and it fails exactly when
one of the deletes did, with their errors in order -/
theorem gen_ribFlush (nis : List String) :
    Gen.ribFlush nis v4 v6 mpls nhgs nhgsRest nhs refName refErr del4 del6 delM delG delH =
      (let errs := nis.flatMap (niErrs v4 v6 mpls nhgs nhgsRest nhs del4 del6 delM delG delH)
       if errs = [] then none else some ⟨errs⟩,
       nis.flatMap (niEffs v4 v6 mpls nhgs nhgsRest nhs refName refErr)) := by
  unfold Gen.ribFlush
  simp only [loop1_eq, List.nil_append]
  generalize nis.flatMap (niErrs v4 v6 mpls nhgs nhgsRest nhs del4 del6 delM delG delH) = errs
  cases errs <;> simp
end

/-! ### what the backup search finds -/

theorem backup_fold (m : Map Nat FlNHG) :
    ∀ (l : List (Nat × FlNHG)) (st : List Nat × List Nat),
      (∀ id, id ∈ st.1 ↔ id ∈ st.2) → st.2.Nodup →
      (∀ id, id ∈ (l.foldl (backupStep m) st).1 ↔ id ∈ (l.foldl (backupStep m) st).2) ∧
      (l.foldl (backupStep m) st).2.Nodup ∧
      (∀ id, id ∈ (l.foldl (backupStep m) st).2 ↔
        id ∈ st.2 ∨ ((∃ e ∈ l, e.2.BackupNextHopGroup = some id) ∧ (Map.get? m id).isSome = true)) := by
  intro l
  induction l with
  | nil => intro st h1 h2; simp [h1, h2]
  | cons e t ih =>
    intro st h1 h2
    simp only [List.foldl_cons]
    cases hb : e.2.BackupNextHopGroup with
    | none =>
      have hst : backupStep m st e = st := by simp [backupStep, hb]
      rw [hst]
      obtain ⟨a, b, c⟩ := ih st h1 h2
      refine ⟨a, b, fun id => ?_⟩
      rw [c id]
      simp [hb]
    | some id0 =>
      by_cases hc : (Map.get? m id0).isSome = true ∧ id0 ∉ st.1
      · have hst : backupStep m st e = (id0 :: st.1, st.2 ++ [id0]) := by
          simp [backupStep, hb, hc.1, hc.2]
        rw [hst]
        have h1' : ∀ id, id ∈ (id0 :: st.1, st.2 ++ [id0]).1 ↔ id ∈ (id0 :: st.1, st.2 ++ [id0]).2 := by
          intro id; simp [h1 id]; constructor <;> (intro h; rcases h with h | h <;> simp [h])
        have h2' : (id0 :: st.1, st.2 ++ [id0]).2.Nodup := by
          simp only [List.nodup_append, List.nodup_cons, List.not_mem_nil, not_false_eq_true,
            List.nodup_nil, and_self, List.mem_cons, or_false, true_and]
          refine ⟨h2, fun a ha b hb' => ?_⟩
          subst hb'
          intro hab; subst hab
          exact hc.2 ((h1 a).mpr ha)
        obtain ⟨a, b, c⟩ := ih _ h1' h2'
        refine ⟨a, b, fun id => ?_⟩
        rw [c id]
        simp only [List.mem_append, List.mem_cons, List.not_mem_nil, or_false, exists_eq_or_imp, hb,
          Option.some.injEq]
        constructor
        · rintro ((h | h) | h)
          · exact Or.inl h
          · subst h; exact Or.inr ⟨Or.inl rfl, hc.1⟩
          · exact Or.inr ⟨Or.inr h.1, h.2⟩
        · rintro (h | ⟨h | h, hm⟩)
          · exact Or.inl (Or.inl h)
          · exact Or.inl (Or.inr h.symm)
          · exact Or.inr ⟨h, hm⟩
      · have hst : backupStep m st e = st := by
          simp only [backupStep, hb]
          by_cases hm : (Map.get? m id0).isSome = true
          · have : id0 ∈ st.1 := by
              apply Classical.byContradiction; intro hn; exact hc ⟨hm, hn⟩
            simp [hm, this]
          · simp [hm]
        rw [hst]
        obtain ⟨a, b, c⟩ := ih st h1 h2
        refine ⟨a, b, fun id => ?_⟩
        rw [c id]
        simp only [List.mem_cons, exists_eq_or_imp, hb, Option.some.injEq]
        constructor
        · rintro (h | ⟨h, hm⟩)
          · exact Or.inl h
          · exact Or.inr ⟨Or.inr h, hm⟩
        · rintro (h | ⟨h | h, hm⟩)
          · exact Or.inl h
          · subst h
            have : id0 ∈ st.1 := by
              apply Classical.byContradiction; intro hn; exact hc ⟨hm, hn⟩
            exact Or.inl ((h1 _).mp this)
          · exact Or.inr ⟨h, hm⟩

/-- the groups deleted first are exactly the installed groups that are the backup of an installed
group -/
theorem mem_backupsOf (m : Map Nat FlNHG) (id : Nat) :
    id ∈ backupsOf m ↔ (∃ e ∈ m, e.2.BackupNextHopGroup = some id) ∧ (Map.get? m id).isSome = true := by
  have := (backup_fold m m ([], []) (by simp) (by simp)).2.2 id
  simpa [backupsOf] using this

/-- each of them once -/
theorem backupsOf_nodup (m : Map Nat FlNHG) : (backupsOf m).Nodup :=
  (backup_fold m m ([], []) (by simp) (by simp)).2.1

/-- the instance whose table a call of `Flush` deletes from -/
def delNI : Eff → Option String
  | .flDelStr _ ni _ => some ni
  | .flDelNat _ ni _ => some ni
  | _ => none

theorem topEffs_delNI {κ : Type} (refName : String → String → String) (refErr : String → String → Option Status)
    (del : String → κ → Eff) (n : String) (hd : ∀ k, delNI (del n k) = some n) (e : κ × OrigTop) :
    ∀ eff ∈ topEffs refName refErr del n e, delNI eff = none ∨ delNI eff = some n := by
  intro eff h
  simp only [topEffs, List.mem_append, List.mem_cons, List.not_mem_nil, or_false] at h
  rcases h with h | h
  · split at h
    · simp only [List.mem_cons, List.not_mem_nil, or_false] at h; subst h; exact Or.inl rfl
    · simp at h
  · subst h; exact Or.inr (hd _)

/-! ### consequences, in the words of the properties -/

section
variable (v4 v6 : String → Map String OrigTop) (mpls : String → Map Nat OrigTop)
  (nhgs nhgsRest : String → Map Nat FlNHG) (nhs : String → Map Nat Unit)
  (refName : String → String → String) (refErr : String → String → Option Status)
  (del4 del6 : String → String → Option Status) (delM delG delH : String → Nat → Option Status)

theorem niEffs_delNI (n : String) :
    ∀ eff ∈ niEffs v4 v6 mpls nhgs nhgsRest nhs refName refErr n, delNI eff = none ∨ delNI eff = some n := by
  intro eff h
  simp only [niEffs, List.mem_append, List.mem_flatMap, List.mem_map] at h
  rcases h with (((((⟨e, _, h⟩ | ⟨e, _, h⟩) | ⟨e, _, h⟩) | ⟨e, _, h⟩) | ⟨e, _, h⟩) | ⟨e, _, h⟩)
  · exact topEffs_delNI refName refErr _ n (fun _ => rfl) e eff h
  · exact topEffs_delNI refName refErr _ n (fun _ => rfl) e eff h
  · exact topEffs_delNI refName refErr _ n (fun _ => rfl) e eff h
  · subst h; exact Or.inr rfl
  · subst h; exact Or.inr rfl
  · subst h; exact Or.inr rfl

/-- only the requested instances have entries deleted (C08) -/
theorem flush_only_requested (nis : List String) :
    ∀ eff ∈ (Gen.ribFlush nis v4 v6 mpls nhgs nhgsRest nhs refName refErr del4 del6 delM delG delH).2,
      ∀ ni, delNI eff = some ni → ni ∈ nis := by
  rw [gen_ribFlush]
  intro eff h ni hd
  simp only [List.mem_flatMap] at h
  obtain ⟨n, hn, h⟩ := h
  rcases niEffs_delNI v4 v6 mpls nhgs nhgsRest nhs refName refErr n eff h with h' | h'
  · rw [h'] at hd; cases hd
  · rw [h'] at hd; cases hd; exact hn

/-- every entry of a requested instance is deleted: IPv4, IPv6, MPLS, the groups left after the
backups, the next-hops (C08) -/
theorem flush_deletes_all (nis : List String) (ni : String) (hni : ni ∈ nis) :
    let effs := (Gen.ribFlush nis v4 v6 mpls nhgs nhgsRest nhs refName refErr del4 del6 delM delG delH).2
    (∀ e ∈ v4 ni, Eff.flDelStr 4 ni e.1 ∈ effs) ∧ (∀ e ∈ v6 ni, Eff.flDelStr 6 ni e.1 ∈ effs) ∧
    (∀ e ∈ mpls ni, Eff.flDelNat 1 ni e.1 ∈ effs) ∧ (∀ e ∈ nhgsRest ni, Eff.flDelNat 2 ni e.1 ∈ effs) ∧
    (∀ e ∈ nhs ni, Eff.flDelNat 3 ni e.1 ∈ effs) := by
  rw [gen_ribFlush]
  simp only [List.mem_flatMap]
  refine ⟨fun e he => ⟨ni, hni, ?_⟩, fun e he => ⟨ni, hni, ?_⟩, fun e he => ⟨ni, hni, ?_⟩,
    fun e he => ⟨ni, hni, ?_⟩, fun e he => ⟨ni, hni, ?_⟩⟩ <;>
    simp only [niEffs, topEffs, List.mem_append, List.mem_flatMap, List.mem_map, List.mem_cons,
      List.not_mem_nil, or_false]
  · exact Or.inl (Or.inl (Or.inl (Or.inl (Or.inl ⟨e, he, Or.inr rfl⟩))))
  · exact Or.inl (Or.inl (Or.inl (Or.inl (Or.inr ⟨e, he, Or.inr rfl⟩))))
  · exact Or.inl (Or.inl (Or.inl (Or.inr ⟨e, he, Or.inr rfl⟩)))
  · exact Or.inl (Or.inr ⟨e, he, rfl⟩)
  · exact Or.inr ⟨e, he, rfl⟩

/-- the reference each IPv4 / IPv6 / MPLS entry of a requested instance holds on its group is given
back, in the instance the entry names (C03: the counters follow the flush) -/
theorem flush_unrefs (nis : List String) (ni : String) (hni : ni ∈ nis) :
    let effs := (Gen.ribFlush nis v4 v6 mpls nhgs nhgsRest nhs refName refErr del4 del6 delM delG delH).2
    (∀ e ∈ v4 ni, refErr ni e.2.NextHopGroupNetworkInstance = none →
      Eff.decNHGRef (refName ni e.2.NextHopGroupNetworkInstance) e.2.NextHopGroup ∈ effs) ∧
    (∀ e ∈ v6 ni, refErr ni e.2.NextHopGroupNetworkInstance = none →
      Eff.decNHGRef (refName ni e.2.NextHopGroupNetworkInstance) e.2.NextHopGroup ∈ effs) ∧
    (∀ e ∈ mpls ni, refErr ni e.2.NextHopGroupNetworkInstance = none →
      Eff.decNHGRef (refName ni e.2.NextHopGroupNetworkInstance) e.2.NextHopGroup ∈ effs) := by
  rw [gen_ribFlush]
  simp only [List.mem_flatMap]
  refine ⟨fun e he hr => ⟨ni, hni, ?_⟩, fun e he hr => ⟨ni, hni, ?_⟩, fun e he hr => ⟨ni, hni, ?_⟩⟩ <;>
    simp only [niEffs, topEffs, List.mem_append, List.mem_flatMap, List.mem_map, List.mem_cons,
      List.not_mem_nil, or_false]
  · exact Or.inl (Or.inl (Or.inl (Or.inl (Or.inl ⟨e, he, Or.inl (by simp [hr])⟩))))
  · exact Or.inl (Or.inl (Or.inl (Or.inl (Or.inr ⟨e, he, Or.inl (by simp [hr])⟩))))
  · exact Or.inl (Or.inl (Or.inl (Or.inr ⟨e, he, Or.inl (by simp [hr])⟩)))

/-- the flush reports success exactly when no delete failed -/
theorem flush_ok_iff (nis : List String) :
    (Gen.ribFlush nis v4 v6 mpls nhgs nhgsRest nhs refName refErr del4 del6 delM delG delH).1 = none ↔
      nis.flatMap (niErrs v4 v6 mpls nhgs nhgsRest nhs del4 del6 delM delG delH) = [] := by
  rw [gen_ribFlush]
  simp only
  split <;> simp_all
end

/-! ### the counters, exactly -/

section
variable (refName : String → String → String) (refErr : String → String → Option Status)

/-- does the entry hold a reference on group `g` of instance `t` that the flush gives back? -/
def holdsRef {κ : Type} (ni t : String) (g : Nat) (e : κ × OrigTop) : Bool :=
  (refErr ni e.2.NextHopGroupNetworkInstance).isNone && refName ni e.2.NextHopGroupNetworkInstance == t &&
    e.2.NextHopGroup == g

theorem count_topEffs {κ : Type} (del : String → κ → Eff) (hdel : ∀ a b t g, del a b ≠ Eff.decNHGRef t g)
    (ni t : String) (g : Nat) : ∀ (l : List (κ × OrigTop)),
    (l.flatMap (topEffs refName refErr del ni)).count (Eff.decNHGRef t g) = l.countP (holdsRef refName refErr ni t g) := by
  intro l
  induction l with
  | nil => rfl
  | cons e tl ih =>
    simp only [List.flatMap_cons, List.count_append, ih, List.countP_cons]
    have hd : [del ni e.1].count (Eff.decNHGRef t g) = 0 := by
      simp [hdel]
    unfold topEffs holdsRef
    cases hr : refErr ni e.2.NextHopGroupNetworkInstance with
    | some x => simp [hd]
    | none =>
      by_cases h1 : refName ni e.2.NextHopGroupNetworkInstance = t <;> by_cases h2 : e.2.NextHopGroup = g <;>
        simp [hd, h1, h2] <;> omega
end

section
variable (v4 v6 : String → Map String OrigTop) (mpls : String → Map Nat OrigTop)
  (nhgs nhgsRest : String → Map Nat FlNHG) (nhs : String → Map Nat Unit)
  (refName : String → String → String) (refErr : String → String → Option Status)

/-- **the group counters follow the flush exactly**: flushing an instance gives back, for every
group `g` of every instance `t`, as many references as the instance's IPv4, IPv6 and MPLS entries
hold on it — one `decNHGRefCount` per referring entry, none for anything else (C03: deletion
protection stays consistent with what remains; C08) -/
theorem flush_unref_count (ni t : String) (g : Nat) :
    (niEffs v4 v6 mpls nhgs nhgsRest nhs refName refErr ni).count (Eff.decNHGRef t g) =
      (v4 ni).countP (holdsRef refName refErr ni t g) + (v6 ni).countP (holdsRef refName refErr ni t g) +
      (mpls ni).countP (holdsRef refName refErr ni t g) := by
  unfold niEffs
  simp only [List.count_append]
  rw [count_topEffs refName refErr (Eff.flDelStr 4) (by intros; simp),
      count_topEffs refName refErr (Eff.flDelStr 6) (by intros; simp),
      count_topEffs refName refErr (Eff.flDelNat 1) (by intros; simp)]
  have z1 : ∀ (l : List Nat), (l.map (Eff.flDelNat 2 ni)).count (Eff.decNHGRef t g) = 0 := by
    intro l; induction l <;> simp_all
  have z2 : ∀ (l : List (Nat × FlNHG)), (l.map (fun e => Eff.flDelNat 2 ni e.1)).count (Eff.decNHGRef t g) = 0 := by
    intro l; induction l <;> simp_all
  have z3 : ∀ (l : List (Nat × Unit)), (l.map (fun e => Eff.flDelNat 3 ni e.1)).count (Eff.decNHGRef t g) = 0 := by
    intro l; induction l <;> simp_all
  rw [z1, z2, z3]
  omega
end

theorem gen_ribflush_translated : Gen.ribFlush_problem = none := rfl

/-- non-vacuity: one instance with a prefix pointing at group 1 of another instance, group 1 with
backup group 2, both installed, one next-hop; nothing fails -/
example :
    Gen.ribFlush ["A"] (fun _ => [("1.0.0.0/8", ⟨"B", 1, "", 0⟩)]) (fun _ => []) (fun _ => [])
      (fun _ => [(1, ⟨some 2⟩), (2, ⟨none⟩)]) (fun _ => [(1, ⟨some 2⟩)]) (fun _ => [(7, ())])
      (fun _ n => n) (fun _ _ => none) (fun _ _ => none) (fun _ _ => none) (fun _ _ => none) (fun _ _ => none)
      (fun _ _ => none) =
    (none, [Eff.decNHGRef "B" 1, Eff.flDelStr 4 "A" "1.0.0.0/8", Eff.flDelNat 2 "A" 2, Eff.flDelNat 2 "A" 1,
      Eff.flDelNat 3 "A" 7]) := by
  decide

end Gribi.GenEquiv.RibFlush
