/-
The tie by translation, the table-level adds of a network instance (rib/rib.go `AddIPv4`,
`AddIPv6`, `AddMPLS`, `AddNextHopGroup`, `AddNextHop`). See `Gribi/Props/GenEquiv/Base.lean`.

All five have one shape (`tableAddSpec`), which is the order of tests the model's `Rib.classify`
assumes: nil checks, schema validation of the one-entry candidate (`candidateRIB`), the existence
test of an explicit REPLACE, the semantic check (`checkFn` = `canResolve`: error → never
installable; not ok → try again later), and only then the merge into the table and the
post-change notifications, one per entry of the candidate. The theorems hold for every outcome
of every call the functions make.
-/
import Gribi.Gen.AddIPv4
import Gribi.Gen.AddIPv6
import Gribi.Gen.AddMPLS
import Gribi.Gen.AddNextHopGroup
import Gribi.Gen.AddNextHop
import Gribi.Gen.DeleteIPv4
import Gribi.Gen.DeleteIPv6
import Gribi.Gen.DeleteMPLS
import Gribi.Gen.DeleteNextHopGroup
import Gribi.Gen.DeleteNextHop
import Gribi.Gen.LocklessDeleteIPv4
import Gribi.Gen.LocklessDeleteIPv6
import Gribi.Gen.LocklessDeleteMPLS
import Gribi.Gen.LocklessDeleteNHG
import Gribi.Gen.LocklessDeleteNH
namespace Gribi.GenEquiv.RibTable
open Gribi Gribi.Gen

/-- the common shape of the five table-level adds -/
def tableAddSpec (kind : Nat) (elems : NewAfts → List NewElem) (eNil : Bool) (explicitReplace : Bool) (rr : Option Unit)
    (nr : Option NewRIB) (exists_ : Bool) (installed : Option Unit) (checkFn : Option Unit) (checkOk : Bool)
    (checkErr doErr : Option Status) (hook : Option Unit) (name : String) : Bool × Option Unit × Option Status × List Eff :=
  if rr.isNone || eNil then (false, none, some ⟨.Unknown, .none⟩, [])
  else match nr with
    | none => (false, none, some ⟨.Unknown, .none⟩, [])                    -- the entry violates the schema
    | some c =>
      if explicitReplace && !exists_ then (false, none, some ⟨.Unknown, .none⟩, [])   -- REPLACE of nothing
      else if checkFn.isSome && checkErr.isSome then (false, none, checkErr, [])    -- can never be installed
      else if checkFn.isSome && !checkOk then (false, none, none, [])              -- not now: try again later
      else match doErr with
        | some _ => (false, none, doErr, [Eff.tableAdd kind nr])
        | none =>
          (true, if exists_ then installed else none, none,
            [Eff.tableAdd kind nr] ++
              (if hook.isSome then (elems c.Afts).map (fun x => Eff.postHook constants_Add name (some x)) else []))


theorem addIPv4_loop1 (name : String) (orig : Option Unit) : ∀ (l : List NewElem) (effs : List Eff),
    addIPv4.join1.join2.loop1 name orig l effs = (true, orig, none, effs ++ l.map (fun x => Eff.postHook constants_Add name (some x))) := by
  intro l
  induction l with
  | nil => intro effs; simp [addIPv4.join1.join2.loop1]
  | cons x t ih => intro effs; unfold addIPv4.join1.join2.loop1; simp [ih]

theorem addIPv4_loop2 (name : String) (orig : Option Unit) : ∀ (l : List NewElem) (effs : List Eff),
    addIPv4.join3.join4.loop2 name orig l effs = (true, orig, none, effs ++ l.map (fun x => Eff.postHook constants_Add name (some x))) := by
  intro l
  induction l with
  | nil => intro effs; simp [addIPv4.join3.join4.loop2]
  | cons x t ih => intro effs; unfold addIPv4.join3.join4.loop2; simp [ih]

/-- `AddIPv4` has the common shape -/
theorem gen_addIPv4 (e : Option IPv4EntryC) (explicitReplace : Bool) (rr : Option Unit) (nr : Option NewRIB) (candErr : Status)
    (exists_ : Bool) (installed : Option Unit) (checkFn : Option Unit) (checkOk : Bool) (checkErr doErr : Option Status)
    (hook : Option Unit) (name : String) (implicit : Bool) (now : Int) :
    Gen.addIPv4 e explicitReplace rr nr candErr exists_ installed checkFn checkOk checkErr doErr hook name implicit now =
      tableAddSpec 4 (·.Ipv4Entry) e.isNone explicitReplace rr nr exists_ installed checkFn checkOk checkErr doErr hook name := by
  unfold Gen.addIPv4 tableAddSpec
  cases rr <;> cases e <;> cases nr <;> cases explicitReplace <;> cases exists_ <;> cases checkFn <;> cases checkErr <;>
    cases checkOk <;> cases doErr <;> cases hook <;>
    simp [addIPv4.join1, addIPv4.join1.join2, addIPv4.join3, addIPv4.join3.join4, addIPv4_loop1, addIPv4_loop2]

theorem addIPv6_loop1 (name : String) (orig : Option Unit) : ∀ (l : List NewElem) (effs : List Eff),
    addIPv6.join1.join2.loop1 name orig l effs = (true, orig, none, effs ++ l.map (fun x => Eff.postHook constants_Add name (some x))) := by
  intro l
  induction l with
  | nil => intro effs; simp [addIPv6.join1.join2.loop1]
  | cons x t ih => intro effs; unfold addIPv6.join1.join2.loop1; simp [ih]

theorem addIPv6_loop2 (name : String) (orig : Option Unit) : ∀ (l : List NewElem) (effs : List Eff),
    addIPv6.join3.join4.loop2 name orig l effs = (true, orig, none, effs ++ l.map (fun x => Eff.postHook constants_Add name (some x))) := by
  intro l
  induction l with
  | nil => intro effs; simp [addIPv6.join3.join4.loop2]
  | cons x t ih => intro effs; unfold addIPv6.join3.join4.loop2; simp [ih]

/-- `AddIPv6` has the common shape -/
theorem gen_addIPv6 (e : Option IPv6EntryC) (explicitReplace : Bool) (rr : Option Unit) (nr : Option NewRIB) (candErr : Status)
    (exists_ : Bool) (installed : Option Unit) (checkFn : Option Unit) (checkOk : Bool) (checkErr doErr : Option Status)
    (hook : Option Unit) (name : String) (implicit : Bool) (now : Int) :
    Gen.addIPv6 e explicitReplace rr nr candErr exists_ installed checkFn checkOk checkErr doErr hook name implicit now =
      tableAddSpec 6 (·.Ipv6Entry) e.isNone explicitReplace rr nr exists_ installed checkFn checkOk checkErr doErr hook name := by
  unfold Gen.addIPv6 tableAddSpec
  cases rr <;> cases e <;> cases nr <;> cases explicitReplace <;> cases exists_ <;> cases checkFn <;> cases checkErr <;>
    cases checkOk <;> cases doErr <;> cases hook <;>
    simp [addIPv6.join1, addIPv6.join1.join2, addIPv6.join3, addIPv6.join3.join4, addIPv6_loop1, addIPv6_loop2]

theorem addMPLS_loop1 (name : String) (orig : Option Unit) : ∀ (l : List NewElem) (effs : List Eff),
    addMPLS.join1.join2.loop1 name orig l effs = (true, orig, none, effs ++ l.map (fun x => Eff.postHook constants_Add name (some x))) := by
  intro l
  induction l with
  | nil => intro effs; simp [addMPLS.join1.join2.loop1]
  | cons x t ih => intro effs; unfold addMPLS.join1.join2.loop1; simp [ih]

theorem addMPLS_loop2 (name : String) (orig : Option Unit) : ∀ (l : List NewElem) (effs : List Eff),
    addMPLS.join3.join4.loop2 name orig l effs = (true, orig, none, effs ++ l.map (fun x => Eff.postHook constants_Add name (some x))) := by
  intro l
  induction l with
  | nil => intro effs; simp [addMPLS.join3.join4.loop2]
  | cons x t ih => intro effs; unfold addMPLS.join3.join4.loop2; simp [ih]

/-- `AddMPLS` has the common shape -/
theorem gen_addMPLS (e : Option LabelEntryC) (explicitReplace : Bool) (rr : Option Unit) (nr : Option NewRIB) (candErr : Status)
    (exists_ : Bool) (installed : Option Unit) (checkFn : Option Unit) (checkOk : Bool) (checkErr doErr : Option Status)
    (hook : Option Unit) (name : String) (implicit : Bool) (now : Int) :
    Gen.addMPLS e explicitReplace rr nr candErr exists_ installed checkFn checkOk checkErr doErr hook name implicit now =
      tableAddSpec 1 (·.LabelEntry) e.isNone explicitReplace rr nr exists_ installed checkFn checkOk checkErr doErr hook name := by
  unfold Gen.addMPLS tableAddSpec
  cases rr <;> cases e <;> cases nr <;> cases explicitReplace <;> cases exists_ <;> cases checkFn <;> cases checkErr <;>
    cases checkOk <;> cases doErr <;> cases hook <;>
    simp [addMPLS.join1, addMPLS.join1.join2, addMPLS.join3, addMPLS.join3.join4, addMPLS_loop1, addMPLS_loop2]

theorem addNextHopGroup_loop1 (name : String) (orig : Option Unit) : ∀ (l : List NewElem) (effs : List Eff),
    addNextHopGroup.join1.join2.loop1 name orig l effs = (true, orig, none, effs ++ l.map (fun x => Eff.postHook constants_Add name (some x))) := by
  intro l
  induction l with
  | nil => intro effs; simp [addNextHopGroup.join1.join2.loop1]
  | cons x t ih => intro effs; unfold addNextHopGroup.join1.join2.loop1; simp [ih]

theorem addNextHopGroup_loop2 (name : String) (orig : Option Unit) : ∀ (l : List NewElem) (effs : List Eff),
    addNextHopGroup.join3.join4.loop2 name orig l effs = (true, orig, none, effs ++ l.map (fun x => Eff.postHook constants_Add name (some x))) := by
  intro l
  induction l with
  | nil => intro effs; simp [addNextHopGroup.join3.join4.loop2]
  | cons x t ih => intro effs; unfold addNextHopGroup.join3.join4.loop2; simp [ih]

/-- `AddNextHopGroup` has the common shape -/
theorem gen_addNextHopGroup (e : Option NHGEntryC) (explicitReplace : Bool) (rr : Option Unit) (nr : Option NewRIB) (candErr : Status)
    (exists_ : Bool) (installed : Option Unit) (checkFn : Option Unit) (checkOk : Bool) (checkErr doErr : Option Status)
    (hook : Option Unit) (name : String) (implicit : Bool) (now : Int) :
    Gen.addNextHopGroup e explicitReplace rr nr candErr exists_ installed checkFn checkOk checkErr doErr hook name implicit now =
      tableAddSpec 2 (·.NextHopGroup) e.isNone explicitReplace rr nr exists_ installed checkFn checkOk checkErr doErr hook name := by
  unfold Gen.addNextHopGroup tableAddSpec
  cases rr <;> cases e <;> cases nr <;> cases explicitReplace <;> cases exists_ <;> cases checkFn <;> cases checkErr <;>
    cases checkOk <;> cases doErr <;> cases hook <;>
    simp [addNextHopGroup.join1, addNextHopGroup.join1.join2, addNextHopGroup.join3, addNextHopGroup.join3.join4, addNextHopGroup_loop1, addNextHopGroup_loop2]

theorem addNextHop_loop1 (name : String) (orig : Option Unit) : ∀ (l : List NewElem) (effs : List Eff),
    addNextHop.join1.join2.loop1 name orig l effs = (true, orig, none, effs ++ l.map (fun x => Eff.postHook constants_Add name (some x))) := by
  intro l
  induction l with
  | nil => intro effs; simp [addNextHop.join1.join2.loop1]
  | cons x t ih => intro effs; unfold addNextHop.join1.join2.loop1; simp [ih]

theorem addNextHop_loop2 (name : String) (orig : Option Unit) : ∀ (l : List NewElem) (effs : List Eff),
    addNextHop.join3.join4.loop2 name orig l effs = (true, orig, none, effs ++ l.map (fun x => Eff.postHook constants_Add name (some x))) := by
  intro l
  induction l with
  | nil => intro effs; simp [addNextHop.join3.join4.loop2]
  | cons x t ih => intro effs; unfold addNextHop.join3.join4.loop2; simp [ih]

/-- `AddNextHop` has the common shape -/
theorem gen_addNextHop (e : Option NHEntryC) (explicitReplace : Bool) (rr : Option Unit) (nr : Option NewRIB) (candErr : Status)
    (exists_ : Bool) (installed : Option Unit) (checkFn : Option Unit) (checkOk : Bool) (checkErr doErr : Option Status)
    (hook : Option Unit) (name : String) (implicit : Bool) (now : Int) :
    Gen.addNextHop e explicitReplace rr nr candErr exists_ installed checkFn checkOk checkErr doErr hook name implicit now =
      tableAddSpec 3 (·.NextHop) e.isNone explicitReplace rr nr exists_ installed checkFn checkOk checkErr doErr hook name := by
  unfold Gen.addNextHop tableAddSpec
  cases rr <;> cases e <;> cases nr <;> cases explicitReplace <;> cases exists_ <;> cases checkFn <;> cases checkErr <;>
    cases checkOk <;> cases doErr <;> cases hook <;>
    simp [addNextHop.join1, addNextHop.join1.join2, addNextHop.join3, addNextHop.join3.join4, addNextHop_loop1, addNextHop_loop2]


/-! ### the table-level deletes -/

/-- the common shape of the five table-level deletes: nil checks, the kind's own refusal of a key
that names nothing (`preErr`: group id 0, next-hop index 0, a label that is not a uint64 or exceeds
32 bits), schema validation of the key (top-level entries), the semantic check (`checkFn` =
`canDelete`), and only then the removal and one post-change notification carrying the entry that
was installed (nil when none was). The payload of the request is never looked at. -/
def tableDelSpec (kind : Nat) (preErr useKeyErr : Bool) (eNil : Bool) (rr installed : Option Unit) (keyErr : Option Status)
    (checkFn : Option Unit) (checkOk : Bool) (checkErr : Option Status) (hook : Option Unit) (name : String) :
    Bool × Option Unit × Option Status × List Eff :=
  if eNil || rr.isNone then (false, none, some ⟨.Unknown, .none⟩, [])
  else if preErr then (false, none, some ⟨.Unknown, .none⟩, [])
  else if useKeyErr && keyErr.isSome then (false, none, keyErr, [])
  else if checkFn.isSome && checkErr.isSome then (false, none, checkErr, [])
  else if checkFn.isSome && !checkOk then (false, none, none, [])
  else (true, installed, none,
    [Eff.tableDel kind] ++ (if hook.isSome then [Eff.postHookDel constants_Delete name installed] else []))

/-- `DeleteIPv4` has the common shape -/
theorem gen_deleteIPv4 (e : Option IPv4EntryC) (rr installed : Option Unit) (keyErr : Option Status) (checkFn : Option Unit) (checkOk : Bool)
    (checkErr : Option Status) (hook : Option Unit) (name : String) (now : Int) (isUint : Bool) :
    Gen.deleteIPv4 e rr installed keyErr checkFn checkOk checkErr hook name now isUint =
      tableDelSpec 4 (false) true e.isNone rr installed keyErr checkFn checkOk checkErr hook name := by
  unfold Gen.deleteIPv4 tableDelSpec
  cases e <;> cases rr <;> cases keyErr <;> cases checkFn <;> cases checkErr <;> cases checkOk <;> cases hook <;> cases isUint <;>
    simp [deleteIPv4.join1] <;> (split <;> simp_all)

/-- `DeleteIPv6` has the common shape -/
theorem gen_deleteIPv6 (e : Option IPv6EntryC) (rr installed : Option Unit) (keyErr : Option Status) (checkFn : Option Unit) (checkOk : Bool)
    (checkErr : Option Status) (hook : Option Unit) (name : String) (now : Int) (isUint : Bool) :
    Gen.deleteIPv6 e rr installed keyErr checkFn checkOk checkErr hook name now isUint =
      tableDelSpec 6 (false) true e.isNone rr installed keyErr checkFn checkOk checkErr hook name := by
  unfold Gen.deleteIPv6 tableDelSpec
  cases e <;> cases rr <;> cases keyErr <;> cases checkFn <;> cases checkErr <;> cases checkOk <;> cases hook <;> cases isUint <;>
    simp [deleteIPv6.join1] <;> (split <;> simp_all)

/-- `DeleteMPLS` has the common shape -/
theorem gen_deleteMPLS (e : Option LabelEntryC) (rr installed : Option Unit) (keyErr : Option Status) (checkFn : Option Unit) (checkOk : Bool)
    (checkErr : Option Status) (hook : Option Unit) (name : String) (now : Int) (isUint : Bool) :
    Gen.deleteMPLS e rr installed keyErr checkFn checkOk checkErr hook name now isUint =
      tableDelSpec 1 (!isUint || decide (((e.map (·.LabelUint64)).getD 0) > 4294967295)) true e.isNone rr installed keyErr checkFn checkOk checkErr hook name := by
  unfold Gen.deleteMPLS tableDelSpec
  cases e <;> cases rr <;> cases keyErr <;> cases checkFn <;> cases checkErr <;> cases checkOk <;> cases hook <;> cases isUint <;>
    simp [deleteMPLS.join1] <;> (split <;> simp_all)

/-- `DeleteNextHopGroup` has the common shape -/
theorem gen_deleteNextHopGroup (e : Option NHGEntryC) (rr installed : Option Unit) (keyErr : Option Status) (checkFn : Option Unit) (checkOk : Bool)
    (checkErr : Option Status) (hook : Option Unit) (name : String) (now : Int) (isUint : Bool) :
    Gen.deleteNextHopGroup e rr installed keyErr checkFn checkOk checkErr hook name now isUint =
      tableDelSpec 2 (decide (((e.map (·.Id)).getD 0) = 0)) false e.isNone rr installed keyErr checkFn checkOk checkErr hook name := by
  unfold Gen.deleteNextHopGroup tableDelSpec
  cases e <;> cases rr <;> cases keyErr <;> cases checkFn <;> cases checkErr <;> cases checkOk <;> cases hook <;> cases isUint <;>
    simp [deleteNextHopGroup.join1] <;> (split <;> simp_all)

/-- `DeleteNextHop` has the common shape -/
theorem gen_deleteNextHop (e : Option NHEntryC) (rr installed : Option Unit) (keyErr : Option Status) (checkFn : Option Unit) (checkOk : Bool)
    (checkErr : Option Status) (hook : Option Unit) (name : String) (now : Int) (isUint : Bool) :
    Gen.deleteNextHop e rr installed keyErr checkFn checkOk checkErr hook name now isUint =
      tableDelSpec 3 (decide (((e.map (·.Index)).getD 0) = 0)) false e.isNone rr installed keyErr checkFn checkOk checkErr hook name := by
  unfold Gen.deleteNextHop tableDelSpec
  cases e <;> cases rr <;> cases keyErr <;> cases checkFn <;> cases checkErr <;> cases checkOk <;> cases hook <;> cases isUint <;>
    simp [deleteNextHop.join1] <;> (split <;> simp_all)


/-! ### the lockless deletes `Flush` uses -/

/-- the common shape: a key that is not in the table is an error and nothing changes; otherwise
(for a group: one next-hop decrement per member first) the key is removed from the table, and
*then* the post-change hook is called, once, with the entry that was removed -/
def locklessSpec {κ : Type} [DecidableEq κ] (kind : Nat) (members : Bool) (key : κ) (hook : Option Unit) (name : String)
    (tbl : Map κ TblEntry) : Option Status × Map κ TblEntry × List Eff :=
  match Map.get? tbl key with
  | none => (some ⟨.Unknown, .none⟩, tbl, [])
  | some e =>
    (none, Map.erase tbl key,
      (if members then e.NextHop.map (fun m => Eff.decNHRef name m.Key) else []) ++ [Eff.tableDel kind] ++
        (if hook.isSome then [Eff.postHookTbl constants_Delete name (some e)] else []))

theorem gen_locklessDeleteIPv4 (key : String) (hook : Option Unit) (name : String) (now : Int) (tbl : Map String TblEntry) :
    Gen.locklessDeleteIPv4 key hook name now tbl = locklessSpec 4 false key hook name tbl := by
  unfold Gen.locklessDeleteIPv4 locklessSpec
  cases h : Map.get? tbl key <;> cases hook <;> simp

theorem gen_locklessDeleteIPv6 (key : String) (hook : Option Unit) (name : String) (now : Int) (tbl : Map String TblEntry) :
    Gen.locklessDeleteIPv6 key hook name now tbl = locklessSpec 6 false key hook name tbl := by
  unfold Gen.locklessDeleteIPv6 locklessSpec
  cases h : Map.get? tbl key <;> cases hook <;> simp

theorem gen_locklessDeleteMPLS (key : Nat) (hook : Option Unit) (name : String) (now : Int) (tbl : Map Nat TblEntry) :
    Gen.locklessDeleteMPLS key hook name now tbl = locklessSpec 1 false key hook name tbl := by
  unfold Gen.locklessDeleteMPLS locklessSpec
  cases h : Map.get? tbl key <;> cases hook <;> simp

theorem gen_locklessDeleteNH (key : Nat) (hook : Option Unit) (name : String) (now : Int) (tbl : Map Nat TblEntry) :
    Gen.locklessDeleteNH key hook name now tbl = locklessSpec 3 false key hook name tbl := by
  unfold Gen.locklessDeleteNH locklessSpec
  cases h : Map.get? tbl key <;> cases hook <;> simp

theorem locklessNHG_loop (key : Nat) (hook : Option Unit) (name : String) (tbl : Map Nat TblEntry) :
    ∀ (l : List OrigNHGMember) (effs : List Eff),
      locklessDeleteNHG.loop1 key hook name tbl l effs =
        (none, Map.erase tbl key, effs ++ l.map (fun m => Eff.decNHRef name m.Key) ++ [Eff.tableDel 2] ++
          (if hook.isSome then [Eff.postHookTbl constants_Delete name (Map.get? tbl key)] else [])) := by
  intro l
  induction l with
  | nil => intro effs; unfold locklessDeleteNHG.loop1; cases hook <;> simp
  | cons m t ih => intro effs; unfold locklessDeleteNHG.loop1; simp [ih]

theorem gen_locklessDeleteNHG (key : Nat) (hook : Option Unit) (name : String) (now : Int) (tbl : Map Nat TblEntry) :
    Gen.locklessDeleteNHG key hook name now tbl = locklessSpec 2 true key hook name tbl := by
  unfold Gen.locklessDeleteNHG locklessSpec
  cases h : Map.get? tbl key with
  | none => simp
  | some e => simp [locklessNHG_loop, h]

theorem gen_ribtable_translated :
    Gen.addIPv4_problem = none ∧ Gen.addIPv6_problem = none ∧ Gen.addMPLS_problem = none ∧
    Gen.addNextHopGroup_problem = none ∧ Gen.addNextHop_problem = none ∧
    Gen.deleteIPv4_problem = none ∧ Gen.deleteIPv6_problem = none ∧ Gen.deleteMPLS_problem = none ∧
    Gen.deleteNextHopGroup_problem = none ∧ Gen.deleteNextHop_problem = none ∧
    Gen.locklessDeleteIPv4_problem = none ∧ Gen.locklessDeleteIPv6_problem = none ∧ Gen.locklessDeleteMPLS_problem = none ∧
    Gen.locklessDeleteNHG_problem = none ∧ Gen.locklessDeleteNH_problem = none :=
  ⟨rfl, rfl, rfl, rfl, rfl, rfl, rfl, rfl, rfl, rfl, rfl, rfl, rfl, rfl, rfl⟩

end Gribi.GenEquiv.RibTable
