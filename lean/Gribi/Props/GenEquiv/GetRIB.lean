/-
The tie by translation, `RIBHolder.GetRIB` (rib/rib.go): what one network instance contributes to
a Get. The instance's tables are read under its read lock (the translator checks that every read,
conversion and send happens while `r.mu` is held), the conversion of an installed entry to its
protobuf is an oracle, and so is each `select`: whether the reader has gone away when an entry is
reached, and whether a message is delivered. The theorem says that for every filter, every content
of the five tables and every behaviour of the reader, `GetRIB` is one walk over the rows of the
selected tables in the order IPv4, IPv6, MPLS, next-hop-groups, next-hops: one message per entry,
carrying the instance's name and the entry under its own type, until the reader goes away or a
conversion fails (the only error). See `Gribi/Props/GenEquiv/Base.lean`.
-/
import Gribi.Gen.GetRIB
namespace Gribi.GenEquiv.GetRIB
open Gribi Gribi.Gen

/-- an installed entry as the walk meets it -/
structure Row where
  /-- the reader had gone away when the entry was reached -/
  stop : Bool
  /-- the entry could be converted to its protobuf -/
  conv : Bool
  /-- the message built for it -/
  msg : Option GetResponseG
  /-- the message was taken by the reader (it had not gone away) -/
  deliv : Bool

def Row.good (r : Row) : Bool := !r.stop && r.conv && r.deliv

/-- the walk: `Sum.inl` = GetRIB returns (with this error), `Sum.inr` = the next table follows -/
def walkFrom : List Row → List Eff → (Option Status × List Eff) ⊕ List Eff
  | [], effs => Sum.inr effs
  | r :: t, effs =>
    if r.stop then Sum.inl (none, effs)
    else if !r.conv then Sum.inl (some ⟨GCode.Internal, Details.none⟩, effs)
    else if r.deliv then walkFrom t (effs ++ [Eff.getEmit r.msg])
    else Sum.inl (none, effs)

def finish : (Option Status × List Eff) ⊕ List Eff → Option Status × List Eff
  | Sum.inl r => r
  | Sum.inr effs => (none, effs)

theorem walkFrom_append (a b : List Row) : ∀ effs,
    walkFrom (a ++ b) effs = match walkFrom a effs with
      | Sum.inl r => Sum.inl r
      | Sum.inr effs' => walkFrom b effs' := by
  induction a with
  | nil => intro effs; rfl
  | cons r t ih =>
    intro effs
    simp only [List.cons_append, walkFrom]
    split
    · rfl
    · split
      · rfl
      · split
        · exact ih _
        · rfl

/-- the walk in closed form: the messages of the rows before the first one that is not good; an
error exactly when that row is a failed conversion the reader was still there for -/
theorem walkFrom_eq (rows : List Row) : ∀ effs,
    walkFrom rows effs =
      match rows.dropWhile Row.good with
      | [] => Sum.inr (effs ++ (rows.takeWhile Row.good).map (fun r => Eff.getEmit r.msg))
      | r :: _ => Sum.inl (if !r.stop && !r.conv then some ⟨GCode.Internal, Details.none⟩ else none,
                           effs ++ (rows.takeWhile Row.good).map (fun r => Eff.getEmit r.msg)) := by
  induction rows with
  | nil => intro effs; simp [walkFrom]
  | cons r t ih =>
    intro effs
    rcases r with ⟨s, c, m, d⟩
    cases s <;> cases c <;> cases d <;>
      simp [walkFrom, Row.good, List.dropWhile, List.takeWhile, ih, List.append_assoc]

theorem dropWhile_all {α : Type} (p : α → Bool) : ∀ (l : List α), (∀ x ∈ l, p x = true) → l.dropWhile p = []
  | [], _ => rfl
  | a :: t, h => by
    have ha : p a = true := h a (by simp)
    simp only [List.dropWhile, ha]
    exact dropWhile_all p t (fun x hx => h x (by simp [hx]))

theorem takeWhile_all {α : Type} (p : α → Bool) : ∀ (l : List α), (∀ x ∈ l, p x = true) → l.takeWhile p = l
  | [], _ => rfl
  | a :: t, h => by
    have ha : p a = true := h a (by simp)
    simp only [List.takeWhile, ha]
    rw [takeWhile_all p t (fun x hx => h x (by simp [hx]))]

section
variable (name : String) (delivered : Option GetResponseG → Bool)

def msgOf (k : GEntryKind) : Option GetResponseG := some ⟨[⟨name, some k⟩]⟩

def rowOf {κ α : Type} (stop : κ → Bool) (conv : Option TblEntry → Option α) (mk : Option α → GEntryKind)
    (e : κ × TblEntry) : Row :=
  { stop := stop e.1, conv := (conv (some e.2)).isSome, msg := msgOf name (mk (conv (some e.2))),
    deliv := delivered (msgOf name (mk (conv (some e.2)))) }

theorem loop1_eq (convH : Option TblEntry → Option GIndex) (stopH : Nat → Bool) :
    ∀ (l : List (Nat × TblEntry)) (effs : List Eff),
      getRIB.join1.join2.join3.join4.join5.loop1 name convH delivered stopH l effs =
        walkFrom (l.map (rowOf name delivered stopH convH GEntryKind.NextHop)) effs := by
  intro l
  induction l with
  | nil => intro effs; simp [getRIB.join1.join2.join3.join4.join5.loop1, walkFrom]
  | cons e t ih =>
    intro effs
    rw [getRIB.join1.join2.join3.join4.join5.loop1]
    simp only [List.map_cons, walkFrom, rowOf, msgOf]
    cases stopH e.1 <;> cases h : convH (some e.2) <;> simp [ih]

theorem loop2_eq (convG : Option TblEntry → Option GId) (stopG : Nat → Bool) :
    ∀ (l : List (Nat × TblEntry)) (effs : List Eff),
      getRIB.join1.join2.join3.join4.loop2 name convG delivered stopG l effs =
        walkFrom (l.map (rowOf name delivered stopG convG GEntryKind.NextHopGroup)) effs := by
  intro l
  induction l with
  | nil => intro effs; simp [getRIB.join1.join2.join3.join4.loop2, walkFrom]
  | cons e t ih =>
    intro effs
    rw [getRIB.join1.join2.join3.join4.loop2]
    simp only [List.map_cons, walkFrom, rowOf, msgOf]
    cases stopG e.1 <;> cases h : convG (some e.2) <;> simp [ih]

theorem loop3_eq (convM : Option TblEntry → Option GLabel) (stopM : Nat → Bool) :
    ∀ (l : List (Nat × TblEntry)) (effs : List Eff),
      getRIB.join1.join2.join3.loop3 name convM delivered stopM l effs =
        walkFrom (l.map (rowOf name delivered stopM convM GEntryKind.Mpls)) effs := by
  intro l
  induction l with
  | nil => intro effs; simp [getRIB.join1.join2.join3.loop3, walkFrom]
  | cons e t ih =>
    intro effs
    rw [getRIB.join1.join2.join3.loop3]
    simp only [List.map_cons, walkFrom, rowOf, msgOf]
    cases stopM e.1 <;> cases h : convM (some e.2) <;> simp [ih]

theorem loop4_eq (conv6 : Option TblEntry → Option GPrefix) (stop6 : String → Bool) :
    ∀ (l : List (String × TblEntry)) (effs : List Eff),
      getRIB.join1.join2.loop4 name conv6 delivered stop6 l effs =
        walkFrom (l.map (rowOf name delivered stop6 conv6 GEntryKind.Ipv6)) effs := by
  intro l
  induction l with
  | nil => intro effs; simp [getRIB.join1.join2.loop4, walkFrom]
  | cons e t ih =>
    intro effs
    rw [getRIB.join1.join2.loop4]
    simp only [List.map_cons, walkFrom, rowOf, msgOf]
    cases stop6 e.1 <;> cases h : conv6 (some e.2) <;> simp [ih]

theorem loop5_eq (conv4 : Option TblEntry → Option GPrefix) (stop4 : String → Bool) :
    ∀ (l : List (String × TblEntry)) (effs : List Eff),
      getRIB.join1.loop5 name conv4 delivered stop4 l effs =
        walkFrom (l.map (rowOf name delivered stop4 conv4 GEntryKind.Ipv4)) effs := by
  intro l
  induction l with
  | nil => intro effs; simp [getRIB.join1.loop5, walkFrom]
  | cons e t ih =>
    intro effs
    rw [getRIB.join1.loop5]
    simp only [List.map_cons, walkFrom, rowOf, msgOf]
    cases stop4 e.1 <;> cases h : conv4 (some e.2) <;> simp [ih]

variable (v4 v6 : Map String TblEntry) (mpls nhgs nhs : Map Nat TblEntry)
  (conv4 conv6 : Option TblEntry → Option GPrefix) (convM : Option TblEntry → Option GLabel)
  (convG : Option TblEntry → Option GId) (convH : Option TblEntry → Option GIndex)
  (stop4 stop6 : String → Bool) (stopM stopG stopH : Nat → Bool)

/-- the tables a filter selects: `ALL` stands for the five supported ones -/
def effective (filter : List Nat) : List Nat :=
  if filter.contains AFTType_ALL then [AFTType_IPV4, AFTType_MPLS, AFTType_NEXTHOP, AFTType_NEXTHOP_GROUP, AFTType_IPV6]
  else filter

/-- the rows of the selected tables, in the order `GetRIB` walks them -/
def rowsOf (f : List Nat) : List Row :=
  (if f.contains AFTType_IPV4 then v4.map (rowOf name delivered stop4 conv4 GEntryKind.Ipv4) else []) ++
  (if f.contains AFTType_IPV6 then v6.map (rowOf name delivered stop6 conv6 GEntryKind.Ipv6) else []) ++
  (if f.contains AFTType_MPLS then mpls.map (rowOf name delivered stopM convM GEntryKind.Mpls) else []) ++
  (if f.contains AFTType_NEXTHOP_GROUP then nhgs.map (rowOf name delivered stopG convG GEntryKind.NextHopGroup) else []) ++
  (if f.contains AFTType_NEXTHOP then nhs.map (rowOf name delivered stopH convH GEntryKind.NextHop) else [])

/-- **`GetRIB`** is the walk over the rows of the selected tables -/
theorem gen_getRIB (filter : List Nat) (c4e c6e cMe cGe cHe : Option TblEntry → Status) :
    Gen.getRIB filter name v4 v6 mpls nhgs nhs conv4 c4e conv6 c6e convM cMe convG cGe convH cHe delivered
        stop4 stop6 stopM stopG stopH =
      finish (walkFrom (rowsOf name delivered v4 v6 mpls nhgs nhs conv4 conv6 convM convG convH
        stop4 stop6 stopM stopG stopH (effective filter)) []) := by
  have key : ∀ f, getRIB.join1 name v4 v6 mpls nhgs nhs conv4 conv6 convM convG convH delivered
        stop4 stop6 stopM stopG stopH f [] =
      finish (walkFrom (rowsOf name delivered v4 v6 mpls nhgs nhs conv4 conv6 convM convG convH
        stop4 stop6 stopM stopG stopH f) []) := by
    intro f
    unfold getRIB.join1 getRIB.join1.join2 getRIB.join1.join2.join3 getRIB.join1.join2.join3.join4
      getRIB.join1.join2.join3.join4.join5
    simp only [loop1_eq, loop2_eq, loop3_eq, loop4_eq, loop5_eq, rowsOf, walkFrom_append]
    by_cases h4 : f.contains AFTType_IPV4 = true <;> by_cases h6 : f.contains AFTType_IPV6 = true <;>
      by_cases hm : f.contains AFTType_MPLS = true <;> by_cases hg : f.contains AFTType_NEXTHOP_GROUP = true <;>
      by_cases hh : f.contains AFTType_NEXTHOP = true <;>
      simp only [h4, h6, hm, hg, hh, if_true, if_false, Bool.false_eq_true, walkFrom] <;>
      (repeat' split) <;> simp_all [finish]
  unfold Gen.getRIB effective
  by_cases h : filter.contains AFTType_ALL = true
  · simp only [h, if_true]; exact key _
  · simp only [h, if_false, Bool.false_eq_true]; exact key _

/-- what `GetRIB` hands to the RPC is always a prefix of the selected rows' messages, in order:
nothing is invented, nothing is sent twice, and it is cut short only where the reader went away or
a conversion failed -/
theorem getRIB_emits (filter : List Nat) (c4e c6e cMe cGe cHe : Option TblEntry → Status) :
    (Gen.getRIB filter name v4 v6 mpls nhgs nhs conv4 c4e conv6 c6e convM cMe convG cGe convH cHe delivered
        stop4 stop6 stopM stopG stopH).2 =
      ((rowsOf name delivered v4 v6 mpls nhgs nhs conv4 conv6 convM convG convH
        stop4 stop6 stopM stopG stopH (effective filter)).takeWhile Row.good).map (fun r => Eff.getEmit r.msg) := by
  rw [gen_getRIB, walkFrom_eq]
  split <;> simp [finish]

/-- with a reader that stays and entries that convert, `GetRIB` succeeds and hands over exactly one
message per entry of every selected table (C07: complete and filtered) -/
theorem getRIB_complete (filter : List Nat) (c4e c6e cMe cGe cHe : Option TblEntry → Status)
    (hgood : ∀ r ∈ rowsOf name delivered v4 v6 mpls nhgs nhs conv4 conv6 convM convG convH
        stop4 stop6 stopM stopG stopH (effective filter), r.good = true) :
    Gen.getRIB filter name v4 v6 mpls nhgs nhs conv4 c4e conv6 c6e convM cMe convG cGe convH cHe delivered
        stop4 stop6 stopM stopG stopH =
      (none, (rowsOf name delivered v4 v6 mpls nhgs nhs conv4 conv6 convM convG convH
        stop4 stop6 stopM stopG stopH (effective filter)).map (fun r => Eff.getEmit r.msg)) := by
  rw [gen_getRIB, walkFrom_eq]
  have h1 := dropWhile_all _ _ hgood
  have h2 := takeWhile_all _ _ hgood
  rw [h1, h2]
  simp [finish]

/-- the only error is a failed conversion met while the reader was still there -/
theorem getRIB_error (filter : List Nat) (c4e c6e cMe cGe cHe : Option TblEntry → Status) (e : Status)
    (h : (Gen.getRIB filter name v4 v6 mpls nhgs nhs conv4 c4e conv6 c6e convM cMe convG cGe convH cHe delivered
        stop4 stop6 stopM stopG stopH).1 = some e) :
    e = ⟨GCode.Internal, Details.none⟩ ∧
    ∃ r ∈ rowsOf name delivered v4 v6 mpls nhgs nhs conv4 conv6 convM convG convH
        stop4 stop6 stopM stopG stopH (effective filter), r.stop = false ∧ r.conv = false := by
  rw [gen_getRIB, walkFrom_eq] at h
  split at h
  · simp [finish] at h
  · rename_i r t hd
    simp only [finish] at h
    have hm : r ∈ rowsOf name delivered v4 v6 mpls nhgs nhs conv4 conv6 convM convG convH
        stop4 stop6 stopM stopG stopH (effective filter) := by
      have : r ∈ List.dropWhile Row.good (rowsOf name delivered v4 v6 mpls nhgs nhs conv4 conv6 convM convG convH
        stop4 stop6 stopM stopG stopH (effective filter)) := by rw [hd]; simp
      exact (List.dropWhile_sublist Row.good).subset this
    by_cases hc : (!r.stop && !r.conv) = true
    · simp only [hc, if_true, Option.some.injEq] at h
      simp only [Bool.and_eq_true, Bool.not_eq_eq_eq_not, Bool.not_true] at hc
      exact ⟨h.symm, r, hm, hc.1, hc.2⟩
    · simp [hc] at h

/-- every message carries the instance's own name and exactly one entry -/
theorem row_msg {κ α : Type} (stop : κ → Bool) (conv : Option TblEntry → Option α) (mk : Option α → GEntryKind)
    (e : κ × TblEntry) :
    (rowOf name delivered stop conv mk e).msg = some ⟨[⟨name, some (mk (conv (some e.2)))⟩]⟩ := rfl

/-- a table that the filter does not select contributes no row: with a filter naming one type the
rows are that table's (shown for IPv4 and for next-hop-groups; `ALL` selects the five tables) -/
theorem rowsOf_ipv4 :
    rowsOf name delivered v4 v6 mpls nhgs nhs conv4 conv6 convM convG convH stop4 stop6 stopM stopG stopH
        (effective [AFTType_IPV4]) = v4.map (rowOf name delivered stop4 conv4 GEntryKind.Ipv4) := by
  simp [rowsOf, effective, AFTType_IPV4, AFTType_ALL, AFTType_IPV6, AFTType_MPLS, AFTType_NEXTHOP_GROUP, AFTType_NEXTHOP]

theorem rowsOf_nhg :
    rowsOf name delivered v4 v6 mpls nhgs nhs conv4 conv6 convM convG convH stop4 stop6 stopM stopG stopH
        (effective [AFTType_NEXTHOP_GROUP]) = nhgs.map (rowOf name delivered stopG convG GEntryKind.NextHopGroup) := by
  simp [rowsOf, effective, AFTType_IPV4, AFTType_ALL, AFTType_IPV6, AFTType_MPLS, AFTType_NEXTHOP_GROUP, AFTType_NEXTHOP]

theorem rowsOf_all :
    rowsOf name delivered v4 v6 mpls nhgs nhs conv4 conv6 convM convG convH stop4 stop6 stopM stopG stopH
        (effective [AFTType_ALL]) =
      v4.map (rowOf name delivered stop4 conv4 GEntryKind.Ipv4) ++ v6.map (rowOf name delivered stop6 conv6 GEntryKind.Ipv6) ++
      mpls.map (rowOf name delivered stopM convM GEntryKind.Mpls) ++
      nhgs.map (rowOf name delivered stopG convG GEntryKind.NextHopGroup) ++
      nhs.map (rowOf name delivered stopH convH GEntryKind.NextHop) := by
  simp [rowsOf, effective, AFTType_IPV4, AFTType_ALL, AFTType_IPV6, AFTType_MPLS, AFTType_NEXTHOP_GROUP, AFTType_NEXTHOP]
end

theorem gen_getrib_translated : Gen.getRIB_problem = none := rfl

/-- non-vacuity: two prefixes and a group; the reader leaves before the second prefix -/
example :
    Gen.getRIB [AFTType_ALL] "DEFAULT" [("1.0.0.0/8", ⟨[]⟩), ("2.0.0.0/8", ⟨[]⟩)] [] [] [(7, ⟨[]⟩)] []
      (fun _ => some ⟨"p"⟩) default (fun _ => none) default (fun _ => none) default (fun _ => some ⟨7⟩) default
      (fun _ => none) default (fun _ => true) (fun k => k == "2.0.0.0/8") (fun _ => false) (fun _ => false)
      (fun _ => false) (fun _ => false) =
    (none, [Eff.getEmit (some ⟨[⟨"DEFAULT", some (.Ipv4 (some ⟨"p"⟩))⟩]⟩)]) := by
  decide

end Gribi.GenEquiv.GetRIB
