/-
The tie by translation, `rib.(*RIB).canResolve` and `canDelete` — the two functions that decide
whether an ADD / REPLACE is installable now and whether a DELETE is allowed: see
`Gribi/Props/GenEquiv/Base.lean`.

The candidate RIB (one ygot struct holding exactly the entry of the operation) is represented with
each of its maps as a *list in an arbitrary order*; the next-hops a group lists are an arbitrary
list, so the theorems hold for every order in which Go may walk the map — the order-dependence
that was defect D22 cannot come back without breaking `gen_canResolve`.
-/
import Gribi.Gen.CanResolve
import Gribi.Gen.CheckCandidate
import Gribi.Gen.CanDelete
import Gribi.Props.GenEquiv.Base
import Gribi.Model.Rib
namespace Gribi.GenEquiv
open Gribi Gribi.Gen

def nhOf (n : Nat) : CandNH := ⟨n, n⟩

def emptyAfts : CandAfts := { NextHop := [], NextHopGroup := [], Ipv4Entry := [], Ipv6Entry := [], LabelEntry := [] }

/-- the candidate RIB built for an operation on `key` with payload `p` -/
def candOf (key : Key) (p : Payload) : CandRIB :=
  ⟨some (match key with
    | .nh i => { emptyAfts with NextHop := [nhOf i] }
    | .nhg g => { emptyAfts with NextHopGroup := [⟨g, g, p.nhs.map nhOf⟩] }
    | .v4 _ => { emptyAfts with Ipv4Entry := [⟨0, p.grp, p.grpNI⟩] }
    | .v6 _ => { emptyAfts with Ipv6Entry := [⟨0, p.grp, p.grpNI⟩] }
    | .mpls _ => { emptyAfts with LabelEntry := [⟨0, p.grp, p.grpNI⟩] })⟩

/-- the part of the model's `classify` that is `canResolve` -/
def resolveTry (s : Rib) (ni : NI) (key : Key) (p : Payload) : Rib.Try :=
  match key with
  | .nh i => if i = 0 then .err else .ok
  | .nhg g =>
    if g = 0 ∨ p.nhs = [] ∨ p.nhs.contains 0 then .err
    else if p.nhs.all (fun n => s.has (ni, .nh n)) then .ok else .hold
  | _ =>
    if p.grp = 0 then .err
    else if p.grpNI ≠ "" ∧ ¬ s.hasNI p.grpNI then .err
    else if s.has (Rib.tgtNI ni p, .nhg p.grp) then .ok else .hold

theorem classify_eq (s : Rib) (op : Op) :
    Rib.classify s op =
      if op.cls ≠ .wf then .err
      else if op.ty = .replace ∧ ¬ s.has (op.ni, op.key) then .err
      else resolveTry s op.ni op.key op.pl := by
  unfold Rib.classify resolveTry
  cases op.key <;> rfl

def tryOut : Rib.Try → Bool × Option Status
  | .err => (false, some ⟨.Unknown, .none⟩)
  | .hold => (false, none)
  | .ok => (true, none)

/-- second loop over a group's next-hops: all installed? -/
theorem loop13_spec (nhExists : String → Nat → Bool) (ni : String) : ∀ (l : List CandNH),
    canResolve.loop1.loop8.loop12.loop13 nhExists ni l =
      if l.all (fun n => nhExists ni n.Index) then (true, none) else (false, none) := by
  intro l
  induction l with
  | nil => simp [canResolve.loop1.loop8.loop12.loop13]
  | cons x xs ih =>
    unfold canResolve.loop1.loop8.loop12.loop13
    by_cases h : nhExists ni x.Index = true
    · simp [h, ih]
    · simp [h]

/-- first loop over a group's next-hops: any zero index rejects the group, whatever the order -/
theorem loop12_spec (nhExists : String → Nat → Bool) (ni : String) (g : CandNHG) : ∀ (l : List CandNH),
    canResolve.loop1.loop8.loop12 nhExists ni g l =
      if l.any (fun n => n.Index = 0) then (false, some ⟨.Unknown, .none⟩)
      else canResolve.loop1.loop8.loop12.loop13 nhExists ni g.NextHop := by
  intro l
  induction l with
  | nil => simp [canResolve.loop1.loop8.loop12]
  | cons x xs ih =>
    unfold canResolve.loop1.loop8.loop12
    by_cases h : x.Index = 0
    · simp [h]
    · simp [h, ih]

theorem any_zero_map (l : List Nat) : (l.map nhOf).any (fun n => n.Index = 0) = l.contains 0 := by
  induction l with
  | nil => simp
  | cons x xs ih => simp [nhOf, ih, List.contains_cons, eq_comm]

theorem all_map (s : Rib) (ni : NI) (l : List Nat) :
    (l.map nhOf).all (fun n => s.has (ni, Key.nh n.Index)) = l.all (fun n => s.has (ni, Key.nh n)) := by
  induction l with
  | nil => simp
  | cons x xs ih => simp only [List.map_cons, List.all_cons, ih]; rfl

/-- `canResolve` (as the source says now) = the resolution part of the model's `classify`, for
every key, payload (the next-hops of a group in **any order**) and RIB state: zero ids, an empty
group, a zero next-hop index anywhere in the group and an unknown group instance are errors
(never held); a group resolves when all its next-hops are installed in its own instance; a
top-level entry when its group is installed in the named, or else its own, instance. -/
theorem gen_canResolve (s : Rib) (d ni : NI) (key : Key) (p : Payload) (hni : ni ≠ "") (hk : s.hasNI ni = true)
    (f1 f2 : String → Nat → Bool) :
    Gen.canResolve ni (some (candOf key p)) none d (fun n => s.hasNI n) (fun n g => s.has (n, .nhg g))
        (fun n i => s.has (n, .nh i)) f1 f2 = tryOut (resolveTry s ni key p) := by
  cases key with
  | nh i =>
    by_cases h : i = 0 <;>
      simp [Gen.canResolve, canResolve.loop1, candOf, emptyAfts, nhOf, resolveTry, tryOut, h]
  | nhg g =>
    simp only [Gen.canResolve, canResolve.loop1, candOf, emptyAfts, Option.bind, hni, if_false, hk, if_true,
      canResolve.loop1.loop8, loop12_spec, loop13_spec, any_zero_map, all_map, resolveTry, List.length_map]
    by_cases hg : g = 0
    · simp [hg, tryOut]
    · by_cases he : p.nhs = []
      · simp [hg, he, tryOut]
      · have hl : ¬ p.nhs.length = 0 := by
          intro x; exact he (List.length_eq_zero_iff.mp x)
        by_cases hz : 0 ∈ p.nhs
        · simp [hg, he, hl, hz, tryOut]
        · by_cases ha : (p.nhs.all fun n => s.has (ni, Key.nh n)) = true
          · simp [hg, he, hl, hz, ha, tryOut]
          · simp [hg, he, hl, hz, ha, tryOut]
  | v4 k =>
    simp only [Gen.canResolve, canResolve.loop1, candOf, emptyAfts, Option.bind, hni, if_false, hk, if_true,
      canResolve.loop1.loop8, canResolve.loop1.loop8.loop9, resolveTry, Rib.tgtNI]
    by_cases hg : p.grp = 0
    · simp [hg, tryOut]
    · by_cases hn : p.grpNI = ""
      · by_cases hh : s.has (ni, Key.nhg p.grp) = true <;> simp [hg, hn, hh, tryOut]
      · by_cases hkn : s.hasNI p.grpNI = true
        · by_cases hh : s.has (p.grpNI, Key.nhg p.grp) = true <;> simp [hg, hn, hkn, hh, tryOut]
        · simp [hg, hn, hkn, tryOut]
  | v6 k =>
    simp only [Gen.canResolve, canResolve.loop1, candOf, emptyAfts, Option.bind, hni, if_false, hk, if_true,
      canResolve.loop1.loop8, canResolve.loop1.loop8.loop9, canResolve.loop1.loop8.loop9.loop10, resolveTry, Rib.tgtNI]
    by_cases hg : p.grp = 0
    · simp [hg, tryOut]
    · by_cases hn : p.grpNI = ""
      · by_cases hh : s.has (ni, Key.nhg p.grp) = true <;> simp [hg, hn, hh, tryOut]
      · by_cases hkn : s.hasNI p.grpNI = true
        · by_cases hh : s.has (p.grpNI, Key.nhg p.grp) = true <;> simp [hg, hn, hkn, hh, tryOut]
        · simp [hg, hn, hkn, tryOut]
  | mpls k =>
    simp only [Gen.canResolve, canResolve.loop1, candOf, emptyAfts, Option.bind, hni, if_false, hk, if_true,
      canResolve.loop1.loop8, canResolve.loop1.loop8.loop9, canResolve.loop1.loop8.loop9.loop10,
      canResolve.loop1.loop8.loop9.loop10.loop11, resolveTry, Rib.tgtNI]
    by_cases hg : p.grp = 0
    · simp [hg, tryOut]
    · by_cases hn : p.grpNI = ""
      · by_cases hh : s.has (ni, Key.nhg p.grp) = true <;> simp [hg, hn, hh, tryOut]
      · by_cases hkn : s.hasNI p.grpNI = true
        · by_cases hh : s.has (p.grpNI, Key.nhg p.grp) = true <;> simp [hg, hn, hkn, hh, tryOut]
        · simp [hg, hn, hkn, tryOut]

/-- the candidate built from one entry passes `checkCandidate` (exactly one entry, no unsupported
table): the `none` given for that oracle in `gen_canResolve` / `gen_canDelete` is what the code computes -/
theorem gen_checkCandidate_single (key : Key) (p : Payload) :
    ∀ a, (candOf key p).Afts = some a → Gen.checkCandidate a = none := by
  intro a h
  cases key <;> simp [candOf, emptyAfts] at h <;> subst h <;> simp [Gen.checkCandidate]

/-- and it refuses an empty candidate, one with two entries, or one with an unsupported table -/
theorem gen_checkCandidate (a : CandAfts) :
    Gen.checkCandidate a = none ↔
      a.MacEntry = [] ∧ a.PolicyForwardingEntry = [] ∧
      a.Ipv6Entry.length + a.LabelEntry.length + a.Ipv4Entry.length + a.NextHopGroup.length + a.NextHop.length = 1 := by
  unfold Gen.checkCandidate
  by_cases h1 : a.MacEntry.length ≠ 0
  · simp [h1]; intro h; simp [h] at h1
  · by_cases h2 : a.PolicyForwardingEntry.length ≠ 0
    · simp [h1, h2]; intro _ h; simp [h] at h2
    · have e1 : a.MacEntry = [] := by simpa using h1
      have e2 : a.PolicyForwardingEntry = [] := by simpa using h2
      simp only [h1, h2, if_false, e1, e2, true_and]
      generalize a.Ipv6Entry.length + a.LabelEntry.length + a.Ipv4Entry.length + a.NextHopGroup.length + a.NextHop.length = n
      by_cases hz : n = 0
      · simp [hz]
      · by_cases hg : n > 1
        · simp [hz, hg]; omega
        · simp [hz, hg]; omega

theorem gen_canResolve_translated : Gen.canResolve_problem = none ∧ Gen.checkCandidate_problem = none := ⟨rfl, rfl⟩

/-! ### canDelete -/

/-- the part of the model's `classifyDel` that is `canDelete` -/
def delTry (s : Rib) (ni : NI) (key : Key) : Rib.DTry :=
  match key with
  | .nhg g =>
    if g = 0 then .err
    else if ¬ s.has (ni, key) then .absent
    else if Rib.cnt s.nhgRef (ni, g) > 0 then .refd else .ok
  | .nh i =>
    if i = 0 then .err
    else if ¬ s.has (ni, key) then .absent
    else if Rib.cnt s.nhRef (ni, i) > 0 then .refd else .ok
  | _ => if s.has (ni, key) then .ok else .absent

theorem classifyDel_eq (s : Rib) (op : Op) :
    Rib.classifyDel s op =
      if op.cls ≠ .wf then .err
      else match op.key with
        | .mpls l => if l > Rib.maxLabel then .err else delTry s op.ni op.key
        | _ => delTry s op.ni op.key := by
  unfold Rib.classifyDel delTry
  cases op.key <;> rfl

def dtryOut : Rib.DTry → Bool × Option Status
  | .err => (false, some ⟨.Unknown, .none⟩)
  | .refd => (false, none)
  | .absent => (true, none)
  | .ok => (true, none)

/-- `canDelete` (as the source says now) = the deletion rule of the model's `classifyDel`, for
every key and RIB state: an IPv4 / IPv6 / label entry can always be removed; a group or next-hop
with id 0 is an error; one that is not installed can be "removed"; an installed one exactly when
its reference counter is zero. -/
theorem gen_canDelete (s : Rib) (d ni : NI) (key : Key) (p : Payload) (hni : ni ≠ "") (hk : s.hasNI ni = true) :
    Gen.canDelete ni (some (candOf key p)) none d (fun n => s.hasNI n) (fun n g => s.has (n, .nhg g))
        (fun n i => s.has (n, .nh i)) (fun n g => decide (Rib.cnt s.nhgRef (n, g) > 0))
        (fun n i => decide (Rib.cnt s.nhRef (n, i) > 0)) = dtryOut (delTry s ni key) := by
  cases key with
  | nh i =>
    simp only [Gen.canDelete, candOf, emptyAfts, Option.bind, hni, if_false, hk, if_true, List.length_nil,
      ne_eq, not_true_eq_false, canDelete.loop3, canDelete.loop3.loop4, nhOf, delTry]
    by_cases h0 : i = 0
    · simp [h0, dtryOut]
    · by_cases hh : s.has (ni, Key.nh i) = true
      · by_cases hc : Rib.cnt s.nhRef (ni, i) > 0 <;> simp [h0, hh, hc, dtryOut]
      · simp [h0, hh, dtryOut]
  | nhg g =>
    simp only [Gen.canDelete, candOf, emptyAfts, Option.bind, hni, if_false, hk, if_true, List.length_nil,
      ne_eq, not_true_eq_false, canDelete.loop3, delTry]
    by_cases h0 : g = 0
    · simp [h0, dtryOut]
    · by_cases hh : s.has (ni, Key.nhg g) = true
      · by_cases hc : Rib.cnt s.nhgRef (ni, g) > 0 <;> simp [h0, hh, hc, dtryOut]
      · simp [h0, hh, dtryOut]
  | v4 k =>
    by_cases hh : s.has (ni, Key.v4 k) = true <;>
      simp [Gen.canDelete, candOf, emptyAfts, hni, hk, delTry, dtryOut, hh]
  | v6 k =>
    by_cases hh : s.has (ni, Key.v6 k) = true <;>
      simp [Gen.canDelete, candOf, emptyAfts, hni, hk, delTry, dtryOut, hh]
  | mpls k =>
    by_cases hh : s.has (ni, Key.mpls k) = true <;>
      simp [Gen.canDelete, candOf, emptyAfts, hni, hk, delTry, dtryOut, hh]

/-- an unknown network instance is an error for both functions -/
theorem gen_rib_unknown_ni (s : Rib) (d ni : NI) (key : Key) (p : Payload) (hni : ni ≠ "") (hk : s.hasNI ni = false)
    (a b c e : String → Nat → Bool) (hnh : ∀ i, key ≠ .nh i) :
    (Gen.canResolve ni (some (candOf key p)) none d (fun n => s.hasNI n) a b c e).2 ≠ none ∧
    (Gen.canDelete ni (some (candOf key p)) none d (fun n => s.hasNI n) a b c e).2 ≠ none := by
  cases key with
  | nh i => exact absurd rfl (hnh i)
  | nhg g => simp [Gen.canResolve, Gen.canDelete, canResolve.loop1, candOf, emptyAfts, hni, hk]
  | v4 k => simp [Gen.canResolve, Gen.canDelete, canResolve.loop1, candOf, emptyAfts, hni, hk]
  | v6 k => simp [Gen.canResolve, Gen.canDelete, canResolve.loop1, candOf, emptyAfts, hni, hk]
  | mpls k => simp [Gen.canResolve, Gen.canDelete, canResolve.loop1, candOf, emptyAfts, hni, hk]

theorem gen_canDelete_translated : Gen.canDelete_problem = none := rfl

end Gribi.GenEquiv
