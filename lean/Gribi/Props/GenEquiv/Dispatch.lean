/-
The tie by translation, one iteration of the receive loop of `Server.Modify`: see
`Gribi/Props/GenEquiv/Base.lean`.
-/
import Gribi.Gen.ModifyDispatch
import Gribi.Props.GenEquiv.Base
namespace Gribi.GenEquiv
open Gribi Gribi.Gen

/-- The receive loop of `Server.Modify` (as the source says now), for every combination of the
three fields of a ModifyRequest, every value of the first-message flag and every outcome of the
handlers it calls:
* more than one of parameters / election id / operations populated: the RPC ends with
  InvalidArgument and **no handler is called** (the model's `.multi`);
* no field populated: Unimplemented, no handler called (the model's `.empty`);
* parameters only: `checkParams` is called with the current first-message flag, then
  `updateParams`; the first error ends the RPC; otherwise the response is written;
* election id only: `runElection`; its error ends the RPC, otherwise the response is written;
* operations only: `doModify`, nothing written by the loop itself;
and the first-message flag is set after every message that did not end the RPC. -/
theorem gen_dispatch (cid : String) (p : Option SessionParameters) (e : Option U128) (o : Option Unit)
    (gotmsg : Bool) (cpRes elRes : Option MResp) (cpErr upErr elErr : Option Status) :
    Gen.modifyDispatch cid (some ⟨p, e, o⟩) gotmsg cpRes cpErr upErr elRes elErr =
      match p, e, o with
      | none, none, none => .term (some ⟨.Unimplemented, .none⟩) []
      | some _, none, none =>
        (match cpErr with
         | some x => .term (some x) [.checkParams cid p gotmsg]
         | none =>
           match upErr with
           | some x => .term (some x) [.checkParams cid p gotmsg, .updateParams cid p]
           | none => .cont true [.checkParams cid p gotmsg, .updateParams cid p, .send cpRes])
      | none, some _, none =>
        (match elErr with
         | some x => .term (some x) [.runElection cid e]
         | none => .cont true [.runElection cid e, .send elRes])
      | none, none, some _ => .cont true [.doModify cid]
      | _, _, _ => .term (some ⟨.InvalidArgument, .none⟩) [] := by
  cases p <;> cases e <;> cases o <;> cases cpErr <;> cases upErr <;> cases elErr <;>
    simp [Gen.modifyDispatch]

/-- the two statuses are the ones the model gives to `.multi` and `.empty` -/
theorem gen_dispatch_model (s : Server) (c : Nat) (cs : Sess) (h : s.sess.get? c = some cs) :
    ((s.recv c .multi).map (fun r => r.2.term.map statusOf)) = some (some ⟨.InvalidArgument, .none⟩) ∧
    ((s.recv c .empty).map (fun r => r.2.term.map statusOf)) = some (some ⟨.Unimplemented, .none⟩) := by
  simp [Server.recv, h, statusOf, codeOf, detOf]

theorem gen_dispatch_translated : Gen.modifyDispatch_problem = none := rfl

end Gribi.GenEquiv
