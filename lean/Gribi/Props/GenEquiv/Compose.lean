/-
Composition: the generated functions, wired together the way `Server.Modify` wires them (the
receive loop's dispatch, then the handler, then `deleteClient` when the RPC ends), act on the
session table and the election register exactly as one step `Server.recv` of the model does.

Here the oracles of the individual translations are discharged by the other translations: the
`consistent` flag of `checkParams` is what `checkClientsConsistent` computes on the same table,
`setClientParams` / `updateParams` / `storeClientElectionID` are the generated ones, the session
state `runElection` reads is what `getClientStateCopy` returns. What remains abstract is the RIB
(the calls `AddEntry` / `DeleteEntry` / `Flush` / `GetRIB`) and the goroutine plumbing of the RPC.
-/
import Gribi.Props.GenEquiv.Session
import Gribi.Props.GenEquiv.Params
import Gribi.Props.GenEquiv.Dispatch
namespace Gribi.GenEquiv
open Gribi Gribi.Gen

/-- the code's server state (session table, election id, primary) that corresponds to the model's -/
structure GState where
  cs : Map String ClientState
  cur : Option U128
  master : String

def gstateOf (nm : Nat → String) (s : Server) : GState :=
  { cs := tableOf nm s.sess, cur := s.curElec, master := masterStr nm s.curMaster }

/-- a session-parameters message, as the code handles it: `checkParams` (its consistency oracle
answered by `checkClientsConsistent`, its store performed by `setClientParams`), then
`updateParams`; the first error ends the RPC and `deleteClient` removes the session -/
def runParams (id : String) (p : SessionParameters) (gotmsg : Bool) (g : GState) : Option Status × GState :=
  let cp : ClientParams :=
    { Persist := decide (p.Persistence = SessionParameters_PRESERVE),
      ExpectElecID := decide (p.Redundancy = SessionParameters_SINGLE_PRIMARY),
      FIBAck := decide (p.AckType = SessionParameters_RIB_AND_FIB_ACK) }
  let cons := Gen.checkClientsConsistent id (some cp) g.cs
  let setR := Gen.setClientParams id cp g.cs
  let chk := Gen.checkParams id (some p) gotmsg cons.1 cons.2.1 setR.1
  match chk.2.1 with
  | some e => (some e, { g with cs := Gen.deleteClient id g.cs })
  | none =>
    let up := Gen.updateParams id p setR.2
    match up.1 with
    | some e => (some e, { g with cs := Gen.deleteClient id up.2 })
    | none => (none, { g with cs := up.2 })

theorem erase_insert_same {α β : Type} [DecidableEq α] (m : Map α β) (k : α) (v : β) :
    Map.erase (Map.insert m k v) k = Map.erase m k := by
  simp [Map.insert, Map.erase, List.filter_filter]

theorem insert_insert_same {α β : Type} [DecidableEq α] (m : Map α β) (k : α) (a b : β) :
    Map.insert (Map.insert m k a) k b = Map.insert m k b := by
  simp [Map.insert, Map.erase, List.filter_filter]

/-- the receive loop's first-message flag is not part of the session table -/
theorem tableOf_gotMsg (nm : Nat → String) (hn : Naming nm) (m : Map Nat Sess) (c : Nat) (p : Params) (sp b b' : Bool)
    (le : Option U128) :
    tableOf nm (m.insert c ⟨p, sp, b, le⟩) = tableOf nm (m.insert c ⟨p, sp, b', le⟩) := by
  rw [← insert_tableOf nm hn, ← insert_tableOf nm hn]
  rfl

theorem gparams_paramsOf (red pers ack : Nat) :
    ({ Persist := decide (pers = SessionParameters_PRESERVE), ExpectElecID := decide (red = SessionParameters_SINGLE_PRIMARY),
       FIBAck := decide (ack = SessionParameters_RIB_AND_FIB_ACK) } : ClientParams) = gparams (Server.paramsOf red pers ack) := by
  simp [gparams, Server.paramsOf, SessionParameters_PRESERVE, SessionParameters_SINGLE_PRIMARY,
    SessionParameters_RIB_AND_FIB_ACK]
  exact ⟨dec_beq_one pers, dec_beq_one red, dec_beq_one ack⟩

/-- **A session-parameters message, end to end.** For every server state, session and wire value of
the three enumerations: the composed generated code ends the RPC with the model's status, or
accepts exactly when the model does, and the resulting session table is the model's. -/
theorem compose_params (nm : Nat → String) (hn : Naming nm) (s : Server) (c : Nat) (x : Sess) (red pers ack : Nat)
    (h : s.sess.get? c = some x) :
    runParams (nm c) ⟨red, pers, ack⟩ x.gotMsg (gstateOf nm s) =
      let r := Server.finish c (Server.doParams s c x red pers ack)
      (r.2.term.map statusOf, gstateOf nm r.1) := by
  unfold runParams
  simp only [gstateOf, gparams_paramsOf, gen_checkClientsConsistent nm hn,
    gen_setClientParams nm hn s c x _ h, gen_checkParams, doParams_factors]
  cases hc : checkParamsModel x.gotMsg red pers
      (s.sess.all fun e => e.1 == c || e.2.params == Server.paramsOf red pers ack) with
  | some t =>
    simp [Server.finish, gen_deleteClient nm hn, Server.drop]
  | none =>
    simp only
    have hu := gen_updateParams nm hn { s with sess := s.sess.insert c { x with params := Server.paramsOf red pers ack } } c
      { x with params := Server.paramsOf red pers ack } red pers ack (by simp)
    simp only at hu
    rw [hu]
    by_cases hs : x.setParams = true
    · simp only [hs, if_true, Server.finish]
      have hd : ∀ M : Map Nat Sess, Gen.deleteClient (nm c) (tableOf nm M) = tableOf nm (Map.erase M c) := by
        intro M
        have := gen_deleteClient nm hn { s with sess := M } c
        simpa [Server.drop] using this
      simp only [hd, erase_insert_same, statusOf, codeOf, detOf, Server.drop, Option.map_some]
    · simp only [hs, Bool.false_eq_true, if_false, Server.finish, insert_insert_same, Option.map_none]
      rw [tableOf_gotMsg nm hn s.sess c _ true x.gotMsg true]

/-- an election announcement, as the code handles it: `runElection` reads the session through
`getClientStateCopy`, stores the id through `storeClientElectionID`, compares and sets the
register; an error ends the RPC and `deleteClient` removes the session -/
def runElec (id : String) (e : U128) (g : GState) : Option MResp × Option Status × GState :=
  let cp := Gen.getClientStateCopy id g.cs
  let st := Gen.storeClientElectionID id (some e) g.cs
  let r := Gen.runElection id e cp.1 ⟨.Unknown, .none⟩ st.1 g.cur g.master
  match r.2.1 with
  | some err => (none, some err, { g with cs := Gen.deleteClient id g.cs })
  | none => (r.1, none, { cs := st.2, cur := r.2.2.1, master := r.2.2.2.1 })

/-- **An election announcement, end to end.** Same rejections, same response, same register, same
session table as the model's `doElec` followed by `finish`. -/
theorem compose_elec (nm : Nat → String) (hn : Naming nm) (s : Server) (c : Nat) (x : Sess) (e : U128)
    (h : s.sess.get? c = some x) :
    runElec (nm c) e (gstateOf nm s) =
      let r := Server.finish c (Server.doElec s c x e)
      ((match r.2.resps with | [.elec cur] => some (.elec cur) | _ => none), r.2.term.map statusOf, gstateOf nm r.1) := by
  unfold runElec
  simp only [gstateOf, gen_getClientStateCopy nm hn, h, gen_storeClientElectionID nm hn s c x e h, gen_runElection]
  unfold Server.doElec
  by_cases hx : x.params.expectElec = true
  · by_cases hz : e.isZero = true
    · simp [hx, hz, Server.finish, gen_deleteClient nm hn, Server.drop]
    · by_cases hnm : Server.isNewMaster e s.curElec = true
      · simp [hx, hz, hnm, Server.finish, masterStr]
        exact tableOf_gotMsg nm hn _ _ _ _ _ _ _
      · simp [hx, hz, hnm, Server.finish, masterStr]
        exact tableOf_gotMsg nm hn _ _ _ _ _ _ _
  · simp [hx, Server.finish, gen_deleteClient nm hn, Server.drop]

/-- connecting and going away are `newClient` and `deleteClient` -/
theorem compose_connect_close (nm : Nat → String) (hn : Naming nm) (s : Server) (c : Nat) (hfresh : s.sess.get? c = none) :
    (Gen.newClient (nm c) (gstateOf nm s).cs).2 = (gstateOf nm (s.connect c)).cs ∧
    Gen.deleteClient (nm c) (gstateOf nm s).cs = (gstateOf nm (s.close c)).cs := by
  constructor
  · simp [gstateOf, gen_newClient nm hn s c hfresh]
  · simp [gstateOf, gen_deleteClient nm hn, Server.close]

end Gribi.GenEquiv
