/-
The tie by translation, `Server.doModify` (one operations message of a Modify stream): see
`Gribi/Props/GenEquiv/Base.lean`. Responses written to the stream (`resCh <- r`), the error that
ends the RPC (`errCh <- e`) and the calls of `modifyEntry` are recorded, in order, as effects.
-/
import Gribi.Gen.DoModify
import Gribi.Props.GenEquiv.Election
import Gribi.Props.GenEquiv.Gate
namespace Gribi.GenEquiv
open Gribi Gribi.Gen

/-- the election record `doModify` hands to `modifyEntry` for every operation of the message -/
def recordOf (cid : String) (cs : ClientState) (elec : ElectionDetails) : ElectionDetails :=
  { elec with client := cid, clientLatest := cs.lastElecID }

/-- what the loop over the operations of one message does -/
def modLoop (cid : String) (cs : ClientState) (elec : ElectionDetails) (niKnown : String → Bool)
    (meRes : Option AFTOperation → Option MResp) (meErr : Option AFTOperation → Option Status) :
    List AFTOperation → List Eff
  | [] => []
  | o :: rest =>
    if o.NetworkInstance = "" ∨ niKnown o.NetworkInstance = false then
      -- answered in-band, `modifyEntry` is not called, the batch goes on
      Eff.send (some (.results [(o.Id, .FAILED)])) :: modLoop cid cs elec niKnown meRes meErr rest
    else
      let call := Eff.modifyEntry o.NetworkInstance (some o) cs.params.FIBAck (some (recordOf cid cs elec))
      match meErr (some o) with
      | some e => [call, Eff.sendErr (some e)]            -- the error ends the RPC: nothing after it
      | none => call :: Eff.send (meRes (some o)) :: modLoop cid cs elec niKnown meRes meErr rest

theorem doModify_loop_spec (cid : String) (cs : ClientState) (elec : ElectionDetails) (k : String → Bool)
    (meRes : Option AFTOperation → Option MResp) (meErr : Option AFTOperation → Option Status) :
    ∀ (l : List AFTOperation) (e : List Eff),
      doModify.loop1 elec k meRes meErr cs cid l e = e ++ modLoop cid cs elec k meRes meErr l := by
  intro l
  induction l with
  | nil => intro e; simp [doModify.loop1, modLoop]
  | cons o rest ih =>
    intro e
    unfold doModify.loop1
    by_cases h1 : o.NetworkInstance = ""
    · simp [h1, ih, modLoop]
    · by_cases h2 : k o.NetworkInstance = true
      · cases hm : meErr (some o) with
        | none => simp [h1, h2, hm, ih, modLoop, recordOf]
        | some x => simp [h1, h2, hm, modLoop, recordOf]
      · simp [h1, h2, ih, modLoop]

/-- `Server.doModify` (as the source says now), for every message, session state, election state
and every behaviour of `modifyEntry`: an unknown session ends the RPC with Internal; a session that
has not negotiated SINGLE_PRIMARY with PRESERVE ends it with Unimplemented / UNSUPPORTED_PARAMS
before any operation is looked at; otherwise the election record is taken **once** for the
message (the server's primary and id, this session's last announced id) and each operation in
turn is answered FAILED in-band when its instance is empty or unknown (without a call of
`modifyEntry`), or handed to `modifyEntry` with that record and the session's acknowledgement
mode; a fatal error of `modifyEntry` ends the RPC and **no later operation of the message is
processed**; its response is written otherwise. -/
theorem gen_doModify (cid : String) (ops : List AFTOperation) (cs : Option ClientState) (csOk : Bool)
    (elec : ElectionDetails) (k : String → Bool)
    (meRes : Option AFTOperation → Option MResp) (meErr : Option AFTOperation → Option Status) :
    Gen.doModify cid ops cs csOk elec k meRes meErr =
      match cs with
      | none => [Eff.sendErr (some ⟨.Internal, .none⟩)]
      | some c =>
        if c.params.ExpectElecID = true ∧ c.params.Persist = true then modLoop cid c elec k meRes meErr ops
        else [Eff.sendErr (some ⟨.Unimplemented, .modify .UNSUPPORTED_PARAMS⟩)] := by
  cases cs with
  | none => simp [Gen.doModify]
  | some c =>
    by_cases h1 : c.params.ExpectElecID = true <;> by_cases h2 : c.params.Persist = true <;>
      simp [Gen.doModify, h1, h2, doModify_loop_spec]

/-- the record handed to `modifyEntry` is the model's election snapshot of the message: with the
server's register as `getElection` returns it, this session as the client and its last announced
id, `SnapRel` (the hypothesis of `gen_gate` / `gen_modifyEntry`) holds. -/
theorem record_snapRel (nm : Nat → String) (hn : Naming nm) (s : Server) (c : Nat) (cs : Sess) :
    SnapRel c { master := s.curMaster, cur := s.curElec, clientLatest := cs.lastElec }
      (recordOf (nm c) (gsess cs) { master := masterStr nm s.curMaster, ID := s.curElec, client := "", clientLatest := none }) := by
  refine ⟨rfl, rfl, ?_, ?_⟩
  · cases hm : s.curMaster with
    | none => simp [recordOf, masterStr]
    | some m => simp [recordOf, masterStr, hn.ne m]
  · intro m hm
    simp only [recordOf, masterStr] at *
    rw [hm] at *
    constructor
    · intro h; rw [h]
    · intro h; exact hn.inj _ _ h

/-- the model's `doOps` rejects an un-negotiated session with the same status -/
theorem gen_doModify_model (s : Server) (c : Nat) (cs : Sess) (l : List (Op × List Rib.CEv))
    (h : cs.params.expectElec = false ∨ cs.params.persist = false) (hl : l.all (fun e => e.2 == []) = true) :
    (Server.doOps s c cs l).map (fun r => r.2.term.map statusOf) =
      some (some ⟨.Unimplemented, .modify .UNSUPPORTED_PARAMS⟩) := by
  unfold Server.doOps
  have hl' : ∀ (a : Op) (b : List Rib.CEv), (a, b) ∈ l → b = [] := by
    intro a b hm
    have := List.all_eq_true.mp hl (a, b) hm
    simpa using this
  rcases h with h | h <;> (simp [h, statusOf, codeOf, detOf]; exact hl')

theorem gen_doModify_translated : Gen.doModify_problem = none := rfl

end Gribi.GenEquiv
