/-
The client's accounting, end to end: a *run* of the functions regenerated from
client/gribiclient.go (`Q` and `handleModifyResponse` as translated, the sending flag and the two
error counters as the code's callers maintain them) stays related to the run of the model `Cl`
that C13 is proved about, for every sequence of requests and responses — so C13's conservation law
holds of the data the generated functions compute.
-/
import Gribi.Props.GenEquiv.Client
import Gribi.Props.C13
namespace Gribi.GenEquiv.ClientRun
open Gribi Gribi.Gen Gribi.GenEquiv.Client

/-- the client's data the translated functions work on -/
structure CState where
  sending : Bool := false
  sendq : List ModifyRequestC := []
  pend : Map Nat PendingOp := []
  pe : Option ElectionReqDetails := none
  pp : Option SessionParamReqDetails := none
  rq : List (Option COpResult) := []
  sendErrs : Nat := 0
  recvErrs : Nat := 0

inductive CEv where
  | q (m : ModifyRequestC) (now : Int)
  | startSending
  | recv (m : ModifyResponseC) (now : Int)
  | recvErr
  | sendErr

/-- one event, computed by the generated functions -/
def cstep (sp : Option SessionParameters) (opFrom : Nat → Nat) (c : CState) : CEv → CState
  | .q m now =>
    let r := Gen.clientQ m now c.sending c.pend c.pe c.pp c.sendq
    { c with pend := r.1, pe := r.2.1, pp := r.2.2.1, sendq := r.2.2.2.1,
             sendErrs := c.sendErrs + (r.2.2.2.2.filter isSendErr).length }
  | .startSending => { c with sending := true, sendq := [] }
  | .recv m now =>
    let r := Gen.handleModifyResponse (some m) now false sp opFrom c.pend c.pe c.pp c.rq
    { c with pend := r.2.1, pe := r.2.2.1, pp := r.2.2.2.1, rq := r.2.2.2.2,
             recvErrs := c.recvErrs + (if r.1.isSome then 1 else 0) }
  | .recvErr => { c with recvErrs := c.recvErrs + 1 }
  | .sendErr => { c with sendErrs := c.sendErrs + 1 }

def crun (sp : Option SessionParameters) (opFrom : Nat → Nat) (c : CState) (evs : List CEv) : CState :=
  evs.foldl (cstep sp opFrom) c

section
variable (f : OpDetailsResults → Cl.OpInfo) (opFrom : Nat → Nat)

def absEv : CEv → Cl.Ev
  | .q m _ => .q (absReq f opFrom m)
  | .startSending => .startSending
  | .recv m _ => .recv (absResp m)
  | .recvErr => .recvErr
  | .sendErr => .sendErr

/-- the model's state describes the client's data -/
structure FullRel (s : Cl.State) (sp : Option SessionParameters) (c : CState) : Prop where
  rel : Rel f opFrom s sp c.pend c.pe c.pp c.rq
  sendq : s.sendq = c.sendq.map (absReq f opFrom)
  sending : s.sending = c.sending
  sendErrs : s.sendErrs = c.sendErrs
  recvErrs : s.recvErrs = c.recvErrs

theorem clearOp_keeps (s : Cl.State) (r : Nat × Cl.Status) :
    (Cl.clearOp s r).1.sendq = s.sendq ∧ (Cl.clearOp s r).1.sending = s.sending ∧
    (Cl.clearOp s r).1.sendErrs = s.sendErrs ∧ (Cl.clearOp s r).1.recvErrs = s.recvErrs := by
  unfold Cl.clearOp
  cases Map.get? s.pendOps r.1 <;> simp <;> split <;> simp

theorem clearOps_keeps (l : List (Nat × Cl.Status)) : ∀ (s : Cl.State),
    (Cl.clearOps s l).1.sendq = s.sendq ∧ (Cl.clearOps s l).1.sending = s.sending ∧
    (Cl.clearOps s l).1.sendErrs = s.sendErrs ∧ (Cl.clearOps s l).1.recvErrs = s.recvErrs := by
  induction l with
  | nil => intro s; simp [Cl.clearOps]
  | cons r t ih =>
    intro s
    simp only [Cl.clearOps]
    have h1 := clearOp_keeps s r
    cases h : (Cl.clearOp s r).2 with
    | true =>
      simp only [if_true]
      have h2 := ih (Cl.clearOp s r).1
      exact ⟨h2.1.trans h1.1, h2.2.1.trans h1.2.1, h2.2.2.1.trans h1.2.2.1, h2.2.2.2.trans h1.2.2.2⟩
    | false => simpa using h1

theorem recv_keeps (s : Cl.State) (m : Cl.Resp) :
    (Cl.recv s m).1.sendq = s.sendq ∧ (Cl.recv s m).1.sending = s.sending ∧ (Cl.recv s m).1.sendErrs = s.sendErrs ∧
    (Cl.recv s m).1.recvErrs = s.recvErrs + (if (Cl.recv s m).2 then 0 else 1) := by
  unfold Cl.recv
  by_cases hp : Cl.populated m > 1
  · simp [hp]
  · simp only [hp, if_false]
    have hk := clearOps_keeps m.results (Cl.noteParams (Cl.noteElec s m) m)
    have hn : (Cl.noteParams (Cl.noteElec s m) m).sendq = s.sendq ∧ (Cl.noteParams (Cl.noteElec s m) m).sending = s.sending ∧
        (Cl.noteParams (Cl.noteElec s m) m).sendErrs = s.sendErrs ∧ (Cl.noteParams (Cl.noteElec s m) m).recvErrs = s.recvErrs := by
      unfold Cl.noteParams Cl.noteElec
      cases m.elec <;> cases m.params <;> simp
    cases h : (Cl.clearOps (Cl.noteParams (Cl.noteElec s m) m) m.results).2 with
    | true => simp only [if_true]; exact ⟨hk.1.trans hn.1, hk.2.1.trans hn.2.1, hk.2.2.1.trans hn.2.2.1, by simpa using hk.2.2.2.trans hn.2.2.2⟩
    | false =>
      simp only [Bool.false_eq_true, if_false]
      exact ⟨hk.1.trans hn.1, hk.2.1.trans hn.2.1, hk.2.2.1.trans hn.2.2.1, by simp [hk.2.2.2.trans hn.2.2.2]⟩

theorem q_recvErrs (s : Cl.State) (m : Cl.Req) : (Cl.q s m).recvErrs = s.recvErrs := by
  unfold Cl.q
  simp only []
  split <;> split <;> (try split) <;> rfl

/-- one event keeps the relation -/
theorem step_rel {s : Cl.State} {sp : Option SessionParameters} {c : CState} (h : FullRel f opFrom s sp c) (e : CEv) :
    FullRel f opFrom (Cl.step s (absEv f opFrom e)) sp (cstep sp opFrom c e) := by
  obtain ⟨hr, hq, hs, hse, hre⟩ := h
  cases e with
  | q m now =>
    have := gen_clientQ f opFrom hr c.sendq hq m now
    rw [hs] at this
    obtain ⟨h1, h2, h3, h4, _⟩ := this
    exact ⟨h1, h2, h3, h4.trans (by rw [hse]; rfl), (q_recvErrs s (absReq f opFrom m)).trans hre⟩
  | startSending =>
    exact ⟨⟨hr.fib, hr.pend, hr.elec, hr.params, hr.res⟩, by simp [Cl.step, absEv, Cl.startSending, cstep],
      by simp [Cl.step, absEv, Cl.startSending, cstep], by simpa [Cl.step, absEv, Cl.startSending, cstep] using hse,
      by simpa [Cl.step, absEv, Cl.startSending, cstep] using hre⟩
  | recv m now =>
    have h1 := gen_handleModifyResponse f opFrom hr m now
    have h2 := recv_keeps s (absResp m)
    refine ⟨h1.1, h2.1.trans hq, h2.2.1.trans hs, h2.2.2.1.trans hse, ?_⟩
    simp only [Cl.step, absEv, cstep]
    rw [h2.2.2.2, hre, h1.2]
    cases (Gen.handleModifyResponse (some m) now false sp opFrom c.pend c.pe c.pp c.rq).1 <;> simp
  | recvErr =>
    exact ⟨⟨hr.fib, hr.pend, hr.elec, hr.params, hr.res⟩, hq, hs, hse, by simp [Cl.step, absEv, Cl.recvErr, cstep, hre]⟩
  | sendErr =>
    exact ⟨⟨hr.fib, hr.pend, hr.elec, hr.params, hr.res⟩, hq, hs, by simp [Cl.step, absEv, Cl.sendErr, cstep, hse], hre⟩

/-- every run keeps the relation -/
theorem run_rel (sp : Option SessionParameters) (evs : List CEv) : ∀ (s : Cl.State) (c : CState), FullRel f opFrom s sp c →
    FullRel f opFrom (Cl.run s (evs.map (absEv f opFrom))) sp (crun sp opFrom c evs) := by
  induction evs with
  | nil => intro s c h; simpa [Cl.run, crun] using h
  | cons e t ih =>
    intro s c h
    simp only [List.map_cons, Cl.run, List.foldl_cons, crun]
    exact ih _ _ (step_rel f opFrom h e)

theorem init_rel (sp : Option SessionParameters) : FullRel f opFrom { fibMode := fibMode sp } sp {} :=
  ⟨⟨rfl, rfl, rfl, rfl, rfl⟩, rfl, rfl, rfl, rfl⟩

/-- **conservation, of the generated functions**: after any sequence of requests and responses
processed by the functions regenerated from the Go source, every operation id that was accepted
into the pending set k times is accounted for exactly: k = (completing results recorded for it in
the result queue) + (1 if it is in the pending map) -/
theorem code_conservation (sp : Option SessionParameters) (evs : List CEv) (id : Nat) :
    C13.acceptedCount (Cl.run { fibMode := fibMode sp } (evs.map (absEv f opFrom))) id =
      (absResq f (crun sp opFrom {} evs).rq).countP (C13.isCompletion (fibMode sp) id) +
        (if (Map.get? (crun sp opFrom {} evs).pend id).isSome then 1 else 0) := by
  have hrel := run_rel f opFrom sp evs _ _ (init_rel f opFrom sp)
  have hc := C13.c13_conservation (fibMode sp) (evs.map (absEv f opFrom)) id
  rw [hc]
  unfold C13.completions C13.pendBit
  rw [hrel.rel.res, hrel.rel.pend, hrel.rel.fib]
  simp [Map.has, get?_absPend]

end
end Gribi.GenEquiv.ClientRun
