/-
The tie by translation, the reconciler's `diff` (rib/reconciler/reconcile.go). See
`Gribi/Props/GenEquiv/Base.lean`.

`diff` walks the union of the network instances of both RIBs and, per instance, ten loops over
ygot maps (five that emit ADD / REPLACE for intended entries the target lacks or holds differently,
five that emit DELETE for entries only the target has), appending to nine buckets and drawing ids
from an atomic counter. The generated definition has 13 local loops and 13 join points; the
theorem says it equals `diffSpec`, a fold of ten simple passes per instance, for every pair of
contents, every `reflect.DeepEqual`, every explicit-replace set and every order of every map.
It is stated for operation builders (`v4Operation` …) that do not fail (they convert an installed
entry back to its protobuf).
-/
import Gribi.Gen.ReconDiff
namespace Gribi.GenEquiv.Recon
open Gribi Gribi.Gen

abbrev MK := Nat → String → Nat → Option ReconEnt → Option ReconOp
abbrev MK' := Nat → String → Nat → ReconEnt → ReconOp

/-- an ADD / REPLACE pass over one table of one instance: an intended entry the target lacks is an
ADD (into the Add bucket); one the target holds with a different payload is an ADD — a REPLACE when
explicit replaces were asked for that table — into the Replace bucket; equal ones emit nothing.
Each emitted operation takes the next id. -/
def addPass (mk : MK') (deepEq : Option ReconEnt → Option ReconEnt → Bool) (expl : Bool) (ni : String)
    (dst : List ReconEnt) (same : ReconEnt → ReconEnt → Bool) :
    List ReconEnt → Nat → List ReconOp → List ReconOp → Nat × List ReconOp × List ReconOp
  | [], id, rep, add => (id, rep, add)
  | e :: t, id, rep, add =>
    match dst.find? (same e) with
    | none => addPass mk deepEq expl ni dst same t (id + 1) rep (add ++ [mk AFTOperation_ADD ni (id + 1) e])
    | some d =>
      if deepEq (some e) (some d) then addPass mk deepEq expl ni dst same t id rep add
      else addPass mk deepEq expl ni dst same t (id + 1)
        (rep ++ [mk (if expl then AFTOperation_REPLACE else AFTOperation_ADD) ni (id + 1) e]) add

/-- a DELETE pass: an entry only the target has is a DELETE with the next id -/
def delPass (mk : MK') (ni : String) (src : List ReconEnt) (same : ReconEnt → ReconEnt → Bool) :
    List ReconEnt → Nat → List ReconOp → Nat × List ReconOp
  | [], id, del => (id, del)
  | e :: t, id, del =>
    match src.find? (same e) with
    | none => delPass mk ni src same t (id + 1) (del ++ [mk AFTOperation_DELETE ni (id + 1) e])
    | some _ => delPass mk ni src same t id del

def sameS (e : ReconEnt) : ReconEnt → Bool := fun x => decide (x.KeyS = e.KeyS)
def sameN (e : ReconEnt) : ReconEnt → Bool := fun x => decide (x.KeyN = e.KeyN)

theorem loop4_eq (deepEq : Option ReconEnt → Option ReconEnt → Bool) (mk : MK) (mk' : MK') (mkErr : Status) (expl : List Nat) (ni : String)
    (b1 b2 b3 b4 b5 b6 b7 : List ReconOp) (dstNI : ReconNI)
    (hmk : ∀ m n i e, mk m n i (some e) = some (mk' m n i e)) :
    ∀ (l : List ReconEnt) (id : Nat) (rep add : List ReconOp),
      reconDiff.join1.loop3.join2.join3.loop4 deepEq mk mkErr expl ni b1 b2 b3 b4 b5 b6 b7 dstNI l id rep add =
        Sum.inr (addPass mk' deepEq (expl.contains AFTType_IPV4) ni dstNI.Afts.Ipv4Entry sameS l id rep add) := by
  intro l
  induction l with
  | nil => intros; simp [reconDiff.join1.loop3.join2.join3.loop4, addPass]
  | cons e t ih =>
    intro id rep add
    unfold reconDiff.join1.loop3.join2.join3.loop4
    have hs : (fun x : ReconEnt => decide (x.KeyS = e.KeyS)) = sameS e := rfl
    simp only [hs, addPass]
    cases hf : dstNI.Afts.Ipv4Entry.find? (sameS e) with
    | none => simp [reconDiff.join1.loop3.join2.join3.loop4.join4, hmk, ih]
    | some d =>
      by_cases hd : deepEq (some e) (some d) = true
      · simp [hd, ih]
      · by_cases hx : AFTType_IPV4 ∈ expl <;>
          simp [hd, hx, reconDiff.join1.loop3.join2.join3.loop4.join5, hmk, ih]


theorem loop5_eq (deepEq : Option ReconEnt → Option ReconEnt → Bool) (mk : MK) (mk' : MK') (mkErr : Status) (expl : List Nat) (ni : String)
    (b1 b2 b3 b4 b5 b6 b7 : List ReconOp) (dstNI : ReconNI)
    (hmk : ∀ m n i e, mk m n i (some e) = some (mk' m n i e)) :
    ∀ (l : List ReconEnt) (id : Nat) (rep add : List ReconOp),
      reconDiff.join1.loop3.join2.join3.loop5 deepEq mk mkErr expl ni b1 b2 b3 b4 b5 b6 b7 dstNI l id rep add =
        Sum.inr (addPass mk' deepEq (expl.contains AFTType_IPV6) ni dstNI.Afts.Ipv6Entry sameS l id rep add) := by
  intro l
  induction l with
  | nil => intros; simp [reconDiff.join1.loop3.join2.join3.loop5, addPass]
  | cons e t ih =>
    intro id rep add
    unfold reconDiff.join1.loop3.join2.join3.loop5
    have hs : (fun x : ReconEnt => decide (x.KeyS = e.KeyS)) = sameS e := rfl
    simp only [hs, addPass]
    cases hf : dstNI.Afts.Ipv6Entry.find? (sameS e) with
    | none => simp [reconDiff.join1.loop3.join2.join3.loop5.join6, hmk, ih]
    | some d =>
      by_cases hd : deepEq (some e) (some d) = true
      · simp [hd, ih]
      · by_cases hx : AFTType_IPV6 ∈ expl <;>
          simp [hd, hx, reconDiff.join1.loop3.join2.join3.loop5.join7, hmk, ih]

theorem loop6_eq (deepEq : Option ReconEnt → Option ReconEnt → Bool) (mk : MK) (mk' : MK') (mkErr : Status) (expl : List Nat) (ni : String)
    (b1 b2 b3 b4 b5 b6 b7 : List ReconOp) (dstNI : ReconNI)
    (hmk : ∀ m n i e, mk m n i (some e) = some (mk' m n i e)) :
    ∀ (l : List ReconEnt) (id : Nat) (rep add : List ReconOp),
      reconDiff.join1.loop3.join2.join3.loop6 deepEq mk mkErr expl ni b1 b2 b3 b4 b5 b6 b7 dstNI l id rep add =
        Sum.inr (addPass mk' deepEq (expl.contains AFTType_MPLS) ni dstNI.Afts.LabelEntry sameN l id rep add) := by
  intro l
  induction l with
  | nil => intros; simp [reconDiff.join1.loop3.join2.join3.loop6, addPass]
  | cons e t ih =>
    intro id rep add
    unfold reconDiff.join1.loop3.join2.join3.loop6
    have hs : (fun x : ReconEnt => decide (x.KeyN = e.KeyN)) = sameN e := rfl
    simp only [hs, addPass]
    cases hf : dstNI.Afts.LabelEntry.find? (sameN e) with
    | none => simp [reconDiff.join1.loop3.join2.join3.loop6.join8, hmk, ih]
    | some d =>
      by_cases hd : deepEq (some e) (some d) = true
      · simp [hd, ih]
      · by_cases hx : AFTType_MPLS ∈ expl <;>
          simp [hd, hx, reconDiff.join1.loop3.join2.join3.loop6.join9, hmk, ih]

theorem loop7_eq (deepEq : Option ReconEnt → Option ReconEnt → Bool) (mk : MK) (mk' : MK') (mkErr : Status) (expl : List Nat) (ni : String)
    (b1 b2 b3 b4 b5 b6 b7 : List ReconOp) (dstNI : ReconNI)
    (hmk : ∀ m n i e, mk m n i (some e) = some (mk' m n i e)) :
    ∀ (l : List ReconEnt) (id : Nat) (rep add : List ReconOp),
      reconDiff.join1.loop3.join2.join3.loop7 deepEq mk mkErr expl ni b1 b2 b3 b4 b5 dstNI b6 b7 l id rep add =
        Sum.inr (addPass mk' deepEq (expl.contains AFTType_NEXTHOP_GROUP) ni dstNI.Afts.NextHopGroup sameN l id rep add) := by
  intro l
  induction l with
  | nil => intros; simp [reconDiff.join1.loop3.join2.join3.loop7, addPass]
  | cons e t ih =>
    intro id rep add
    unfold reconDiff.join1.loop3.join2.join3.loop7
    have hs : (fun x : ReconEnt => decide (x.KeyN = e.KeyN)) = sameN e := rfl
    simp only [hs, addPass]
    cases hf : dstNI.Afts.NextHopGroup.find? (sameN e) with
    | none => simp [reconDiff.join1.loop3.join2.join3.loop7.join10, hmk, ih]
    | some d =>
      by_cases hd : deepEq (some e) (some d) = true
      · simp [hd, ih]
      · by_cases hx : AFTType_NEXTHOP_GROUP ∈ expl <;>
          simp [hd, hx, reconDiff.join1.loop3.join2.join3.loop7.join11, hmk, ih]

theorem loop8_eq (deepEq : Option ReconEnt → Option ReconEnt → Bool) (mk : MK) (mk' : MK') (mkErr : Status) (expl : List Nat) (ni : String)
    (b1 b2 b3 b4 b5 b6 b7 : List ReconOp) (dstNI : ReconNI)
    (hmk : ∀ m n i e, mk m n i (some e) = some (mk' m n i e)) :
    ∀ (l : List ReconEnt) (id : Nat) (rep add : List ReconOp),
      reconDiff.join1.loop3.join2.join3.loop8 deepEq mk mkErr expl ni b1 b2 b3 dstNI b4 b5 b6 b7 l id rep add =
        Sum.inr (addPass mk' deepEq (expl.contains AFTType_NEXTHOP) ni dstNI.Afts.NextHop sameN l id rep add) := by
  intro l
  induction l with
  | nil => intros; simp [reconDiff.join1.loop3.join2.join3.loop8, addPass]
  | cons e t ih =>
    intro id rep add
    unfold reconDiff.join1.loop3.join2.join3.loop8
    have hs : (fun x : ReconEnt => decide (x.KeyN = e.KeyN)) = sameN e := rfl
    simp only [hs, addPass]
    cases hf : dstNI.Afts.NextHop.find? (sameN e) with
    | none => simp [reconDiff.join1.loop3.join2.join3.loop8.join12, hmk, ih]
    | some d =>
      by_cases hd : deepEq (some e) (some d) = true
      · simp [hd, ih]
      · by_cases hx : AFTType_NEXTHOP ∈ expl <;>
          simp [hd, hx, reconDiff.join1.loop3.join2.join3.loop8.join13, hmk, ih]

theorem loop9_eq (mk : MK) (mk' : MK') (mkErr : Status) (ni : String)
    (b1 b2 b3 b4 b5 b6 b7 b8 : List ReconOp) (srcNI : ReconNI)
    (hmk : ∀ m n i e, mk m n i (some e) = some (mk' m n i e)) :
    ∀ (l : List ReconEnt) (id : Nat) (del : List ReconOp),
      reconDiff.join1.loop3.join2.join3.loop9 mk mkErr ni b1 b2 srcNI b3 b4 b5 b6 b7 b8 l id del =
        Sum.inr (delPass mk' ni srcNI.Afts.Ipv4Entry sameS l id del) := by
  intro l
  induction l with
  | nil => intros; simp [reconDiff.join1.loop3.join2.join3.loop9, delPass]
  | cons e t ih =>
    intro id del
    unfold reconDiff.join1.loop3.join2.join3.loop9
    have hs : (fun x : ReconEnt => decide (x.KeyS = e.KeyS)) = sameS e := rfl
    simp only [hs, delPass]
    cases hf : srcNI.Afts.Ipv4Entry.find? (sameS e) with
    | none => simp [hmk, ih]
    | some d => simp [ih]

theorem loop10_eq (mk : MK) (mk' : MK') (mkErr : Status) (ni : String)
    (b1 b2 b3 b4 b5 b6 b7 b8 : List ReconOp) (srcNI : ReconNI)
    (hmk : ∀ m n i e, mk m n i (some e) = some (mk' m n i e)) :
    ∀ (l : List ReconEnt) (id : Nat) (del : List ReconOp),
      reconDiff.join1.loop3.join2.join3.loop10 mk mkErr ni b1 b2 srcNI b3 b4 b5 b6 b7 b8 l id del =
        Sum.inr (delPass mk' ni srcNI.Afts.Ipv6Entry sameS l id del) := by
  intro l
  induction l with
  | nil => intros; simp [reconDiff.join1.loop3.join2.join3.loop10, delPass]
  | cons e t ih =>
    intro id del
    unfold reconDiff.join1.loop3.join2.join3.loop10
    have hs : (fun x : ReconEnt => decide (x.KeyS = e.KeyS)) = sameS e := rfl
    simp only [hs, delPass]
    cases hf : srcNI.Afts.Ipv6Entry.find? (sameS e) with
    | none => simp [hmk, ih]
    | some d => simp [ih]

theorem loop11_eq (mk : MK) (mk' : MK') (mkErr : Status) (ni : String)
    (b1 b2 b3 b4 b5 b6 b7 b8 : List ReconOp) (srcNI : ReconNI)
    (hmk : ∀ m n i e, mk m n i (some e) = some (mk' m n i e)) :
    ∀ (l : List ReconEnt) (id : Nat) (del : List ReconOp),
      reconDiff.join1.loop3.join2.join3.loop11 mk mkErr ni b1 b2 srcNI b3 b4 b5 b6 b7 b8 l id del =
        Sum.inr (delPass mk' ni srcNI.Afts.LabelEntry sameN l id del) := by
  intro l
  induction l with
  | nil => intros; simp [reconDiff.join1.loop3.join2.join3.loop11, delPass]
  | cons e t ih =>
    intro id del
    unfold reconDiff.join1.loop3.join2.join3.loop11
    have hs : (fun x : ReconEnt => decide (x.KeyN = e.KeyN)) = sameN e := rfl
    simp only [hs, delPass]
    cases hf : srcNI.Afts.LabelEntry.find? (sameN e) with
    | none => simp [hmk, ih]
    | some d => simp [ih]

theorem loop12_eq (mk : MK) (mk' : MK') (mkErr : Status) (ni : String)
    (b1 b2 b3 b4 b5 b6 b7 b8 : List ReconOp) (srcNI : ReconNI)
    (hmk : ∀ m n i e, mk m n i (some e) = some (mk' m n i e)) :
    ∀ (l : List ReconEnt) (id : Nat) (del : List ReconOp),
      reconDiff.join1.loop3.join2.join3.loop12 mk mkErr ni b1 srcNI b2 b3 b4 b5 b6 b7 b8 l id del =
        Sum.inr (delPass mk' ni srcNI.Afts.NextHopGroup sameN l id del) := by
  intro l
  induction l with
  | nil => intros; simp [reconDiff.join1.loop3.join2.join3.loop12, delPass]
  | cons e t ih =>
    intro id del
    unfold reconDiff.join1.loop3.join2.join3.loop12
    have hs : (fun x : ReconEnt => decide (x.KeyN = e.KeyN)) = sameN e := rfl
    simp only [hs, delPass]
    cases hf : srcNI.Afts.NextHopGroup.find? (sameN e) with
    | none => simp [hmk, ih]
    | some d => simp [ih]

theorem loop13_eq (mk : MK) (mk' : MK') (mkErr : Status) (ni : String)
    (b1 b2 b3 b4 b5 b6 b7 b8 : List ReconOp) (srcNI : ReconNI)
    (hmk : ∀ m n i e, mk m n i (some e) = some (mk' m n i e)) :
    ∀ (l : List ReconEnt) (id : Nat) (del : List ReconOp),
      reconDiff.join1.loop3.join2.join3.loop13 mk mkErr ni srcNI b1 b2 b3 b4 b5 b6 b7 b8 l id del =
        Sum.inr (delPass mk' ni srcNI.Afts.NextHop sameN l id del) := by
  intro l
  induction l with
  | nil => intros; simp [reconDiff.join1.loop3.join2.join3.loop13, delPass]
  | cons e t ih =>
    intro id del
    unfold reconDiff.join1.loop3.join2.join3.loop13
    have hs : (fun x : ReconEnt => decide (x.KeyN = e.KeyN)) = sameN e := rfl
    simp only [hs, delPass]
    cases hf : srcNI.Afts.NextHop.find? (sameN e) with
    | none => simp [hmk, ih]
    | some d => simp [ih]


/-! ### one network instance, all instances -/

abbrev St := Nat × List ReconOp × List ReconOp × List ReconOp × List ReconOp × List ReconOp × List ReconOp × List ReconOp × List ReconOp × List ReconOp

/-- what `diff` does for one network instance `ni` (an instance missing on one side counts as
empty there): the five ADD / REPLACE passes in the order IPv4, IPv6, MPLS, groups, next-hops, then
the five DELETE passes in the same order; ids run through all of them. The state is
(id, Replace.TopLevel, Add.TopLevel, Replace.NHG, Add.NHG, Replace.NH, Add.NH, Delete.TopLevel,
Delete.NHG, Delete.NH). -/
def niStep (deepEq : Option ReconEnt → Option ReconEnt → Bool) (mk4 mk6 mkM mkG mkN : MK') (expl : List Nat)
    (srcC dstC : Map String ReconNI) (st : St) (ni : String) : St :=
  let s := (Map.get? srcC ni).getD {}
  let d := (Map.get? dstC ni).getD {}
  let r4 := addPass mk4 deepEq (expl.contains AFTType_IPV4) ni d.Afts.Ipv4Entry sameS s.Afts.Ipv4Entry st.1 st.2.1 st.2.2.1
  let r6 := addPass mk6 deepEq (expl.contains AFTType_IPV6) ni d.Afts.Ipv6Entry sameS s.Afts.Ipv6Entry r4.1 r4.2.1 r4.2.2
  let rM := addPass mkM deepEq (expl.contains AFTType_MPLS) ni d.Afts.LabelEntry sameN s.Afts.LabelEntry r6.1 r6.2.1 r6.2.2
  let rG := addPass mkG deepEq (expl.contains AFTType_NEXTHOP_GROUP) ni d.Afts.NextHopGroup sameN s.Afts.NextHopGroup rM.1 st.2.2.2.1 st.2.2.2.2.1
  let rN := addPass mkN deepEq (expl.contains AFTType_NEXTHOP) ni d.Afts.NextHop sameN s.Afts.NextHop rG.1 st.2.2.2.2.2.1 st.2.2.2.2.2.2.1
  let d4 := delPass mk4 ni s.Afts.Ipv4Entry sameS d.Afts.Ipv4Entry rN.1 st.2.2.2.2.2.2.2.1
  let d6 := delPass mk6 ni s.Afts.Ipv6Entry sameS d.Afts.Ipv6Entry d4.1 d4.2
  let dM := delPass mkM ni s.Afts.LabelEntry sameN d.Afts.LabelEntry d6.1 d6.2
  let dG := delPass mkG ni s.Afts.NextHopGroup sameN d.Afts.NextHopGroup dM.1 st.2.2.2.2.2.2.2.2.1
  let dN := delPass mkN ni s.Afts.NextHop sameN d.Afts.NextHop dG.1 st.2.2.2.2.2.2.2.2.2
  (dN.1, rM.2.1, rM.2.2, rG.2.1, rG.2.2, rN.2.1, rN.2.2, dM.2, dG.2, dN.2)

theorem default_ni : ({ Afts := default } : ReconNI) = {} := rfl

theorem loop3_eq (deepEq : Option ReconEnt → Option ReconEnt → Bool) (mk4 mk6 mkM mkG mkN : MK) (mk4' mk6' mkM' mkG' mkN' : MK')
    (mkErr : Status) (expl : List Nat) (srcC dstC : Map String ReconNI)
    (h4 : ∀ m n i e, mk4 m n i (some e) = some (mk4' m n i e)) (h6 : ∀ m n i e, mk6 m n i (some e) = some (mk6' m n i e))
    (hM : ∀ m n i e, mkM m n i (some e) = some (mkM' m n i e)) (hG : ∀ m n i e, mkG m n i (some e) = some (mkG' m n i e))
    (hN : ∀ m n i e, mkN m n i (some e) = some (mkN' m n i e)) :
    ∀ (l : List String) (id : Nat) (a b c d e f g h i : List ReconOp),
      reconDiff.join1.loop3 deepEq mk4 mk6 mkM mkG mkN mkErr expl srcC dstC l id a b c d e f g h i =
        Sum.inr (l.foldl (niStep deepEq mk4' mk6' mkM' mkG' mkN' expl srcC dstC) (id, a, b, c, d, e, f, g, h, i)) := by
  intro l
  induction l with
  | nil => intros; simp [reconDiff.join1.loop3]
  | cons ni t ih =>
    intro id a b c d e f g h i
    unfold reconDiff.join1.loop3
    simp only [List.foldl_cons]
    cases hs : Map.get? srcC ni <;> cases hd : Map.get? dstC ni <;>
      simp [reconDiff.join1.loop3.join2, reconDiff.join1.loop3.join2.join3, default_ni,
        loop4_eq _ _ mk4' _ _ _ _ _ _ _ _ _ _ _ h4, loop5_eq _ _ mk6' _ _ _ _ _ _ _ _ _ _ _ h6,
        loop6_eq _ _ mkM' _ _ _ _ _ _ _ _ _ _ _ hM, loop7_eq _ _ mkG' _ _ _ _ _ _ _ _ _ _ _ hG,
        loop8_eq _ _ mkN' _ _ _ _ _ _ _ _ _ _ _ hN,
        loop9_eq _ mk4' _ _ _ _ _ _ _ _ _ _ _ h4, loop10_eq _ mk6' _ _ _ _ _ _ _ _ _ _ _ h6,
        loop11_eq _ mkM' _ _ _ _ _ _ _ _ _ _ _ hM, loop12_eq _ mkG' _ _ _ _ _ _ _ _ _ _ _ hG,
        loop13_eq _ mkN' _ _ _ _ _ _ _ _ _ _ _ hN, ih, niStep, hs, hd]


/-- the network instances `diff` walks: those of the intended RIB, then those only the target has,
each once (the order within each is the order of the Go map) -/
def nisOf (srcC dstC : Map String ReconNI) : List String :=
  dstC.foldl (fun l e => if l.contains e.1 then l else l ++ [e.1])
    (srcC.foldl (fun l e => if l.contains e.1 then l else l ++ [e.1]) [])

theorem loop1_eq : ∀ (l : List (String × ReconNI)) (acc : List String),
    reconDiff.join1.loop1 l acc = Sum.inr (l.foldl (fun l e => if l.contains e.1 then l else l ++ [e.1]) acc) := by
  intro l
  induction l with
  | nil => intro acc; simp [reconDiff.join1.loop1]
  | cons x t ih => intro acc; unfold reconDiff.join1.loop1; simp [ih]

theorem loop2_eq : ∀ (l : List (String × ReconNI)) (acc : List String),
    reconDiff.join1.loop2 l acc = Sum.inr (l.foldl (fun l e => if l.contains e.1 then l else l ++ [e.1]) acc) := by
  intro l
  induction l with
  | nil => intro acc; simp [reconDiff.join1.loop2]
  | cons x t ih => intro acc; unfold reconDiff.join1.loop2; simp [ih]

/-- the explicit-replace set as `diff` reads it: ALL stands for the five tables -/
def explOf (expl : List Nat) : List Nat :=
  if expl.contains AFTType_ALL then [AFTType_IPV4, AFTType_IPV6, AFTType_MPLS, AFTType_NEXTHOP, AFTType_NEXTHOP_GROUP] else expl

/-- **`diff` = `diffSpec`**: nil RIBs and unreadable contents are errors and nothing is emitted;
otherwise the state is folded through `niStep` over the union of the network instances. -/
theorem gen_reconDiff (src dst : Option Unit) (expl : List Nat) (srcC dstC : Map String ReconNI) (srcErr dstErr : Option Status)
    (deepEq : Option ReconEnt → Option ReconEnt → Bool) (mk4 mk6 mkM mkG mkN : MK) (mk4' mk6' mkM' mkG' mkN' : MK') (mkErr : Status)
    (h4 : ∀ m n i e, mk4 m n i (some e) = some (mk4' m n i e)) (h6 : ∀ m n i e, mk6 m n i (some e) = some (mk6' m n i e))
    (hM : ∀ m n i e, mkM m n i (some e) = some (mkM' m n i e)) (hG : ∀ m n i e, mkG m n i (some e) = some (mkG' m n i e))
    (hN : ∀ m n i e, mkN m n i (some e) = some (mkN' m n i e))
    (id : Nat) (addNH addNHG addTop repNH repNHG repTop delNH delNHG delTop : List ReconOp) :
    Gen.reconDiff src dst expl srcC srcErr dstC dstErr () deepEq mk4 mk6 mkM mkG mkN mkErr id addNH addNHG addTop repNH repNHG repTop
        delNH delNHG delTop =
      if src.isNone || dst.isNone || srcErr.isSome || dstErr.isSome then
        (none, some ⟨.Unknown, .none⟩, id, addNH, addNHG, addTop, repNH, repNHG, repTop, delNH, delNHG, delTop)
      else
        let r := (nisOf srcC dstC).foldl (niStep deepEq mk4' mk6' mkM' mkG' mkN' (explOf expl) srcC dstC)
          (id, repTop, addTop, repNHG, addNHG, repNH, addNH, delTop, delNHG, delNH)
        (some (), none, r.1, r.2.2.2.2.2.2.1, r.2.2.2.2.1, r.2.2.1, r.2.2.2.2.2.1, r.2.2.2.1, r.2.1,
          r.2.2.2.2.2.2.2.2.2, r.2.2.2.2.2.2.2.2.1, r.2.2.2.2.2.2.2.1) := by
  unfold Gen.reconDiff
  cases src <;> cases dst <;> cases srcErr <;> cases dstErr <;>
    simp [reconDiff.join1, loop1_eq, loop2_eq, nisOf, explOf,
      loop3_eq deepEq mk4 mk6 mkM mkG mkN mk4' mk6' mkM' mkG' mkN' mkErr _ srcC dstC h4 h6 hM hG hN] <;>
    (split <;> simp_all)


/-! ### what a pass emits (for builders that put the entry they are given into the operation) -/

section
variable (mk : MK') (hE : ∀ m n i e, (mk m n i e).Entry = some e) (hI : ∀ m n i e, (mk m n i e).Id = i)
  (deepEq : Option ReconEnt → Option ReconEnt → Bool) (expl : Bool) (ni : String) (dst : List ReconEnt)
  (same : ReconEnt → ReconEnt → Bool)

/-- the intended entries the target lacks -/
def absent (e : ReconEnt) : Bool := (dst.find? (same e)).isNone
/-- the intended entries the target holds with a different payload -/
def differs (e : ReconEnt) : Bool :=
  match dst.find? (same e) with
  | some d => !deepEq (some e) (some d)
  | none => false

include hE in
/-- the Add bucket receives exactly the intended entries absent from the target, in order; the
Replace bucket exactly those held differently; nothing else is touched -/
theorem addPass_emits : ∀ (l : List ReconEnt) (id : Nat) (rep add : List ReconOp),
    ((addPass mk deepEq expl ni dst same l id rep add).2.2.map (·.Entry) =
        add.map (·.Entry) ++ (l.filter (absent dst same)).map some) ∧
    ((addPass mk deepEq expl ni dst same l id rep add).2.1.map (·.Entry) =
        rep.map (·.Entry) ++ (l.filter (differs deepEq dst same)).map some) := by
  intro l
  induction l with
  | nil => intros; simp [addPass]
  | cons e t ih =>
    intro id rep add
    simp only [addPass]
    cases hf : dst.find? (same e) with
    | none =>
      have := ih (id + 1) rep (add ++ [mk AFTOperation_ADD ni (id + 1) e])
      simp [absent, differs, hf, this.1, this.2, hE]
    | some d =>
      by_cases hd : deepEq (some e) (some d) = true
      · have := ih id rep add
        simp [absent, differs, hf, hd, this.1, this.2]
      · have := ih (id + 1) (rep ++ [mk (if expl then AFTOperation_REPLACE else AFTOperation_ADD) ni (id + 1) e]) add
        simp [absent, differs, hf, hd, this.1, this.2, hE]

/-- every emitted operation takes the next id: the counter advances by the number of operations -/
theorem addPass_count : ∀ (l : List ReconEnt) (id : Nat) (rep add : List ReconOp),
    (addPass mk deepEq expl ni dst same l id rep add).1 + rep.length + add.length =
      id + (addPass mk deepEq expl ni dst same l id rep add).2.1.length + (addPass mk deepEq expl ni dst same l id rep add).2.2.length := by
  intro l
  induction l with
  | nil => intros; simp [addPass]
  | cons e t ih =>
    intro id rep add
    simp only [addPass]
    cases hf : dst.find? (same e) with
    | none => have := ih (id + 1) rep (add ++ [mk AFTOperation_ADD ni (id + 1) e]); simp at this ⊢; omega
    | some d =>
      by_cases hd : deepEq (some e) (some d) = true
      · have := ih id rep add; simp [hd] at this ⊢; omega
      · have := ih (id + 1) (rep ++ [mk (if expl then AFTOperation_REPLACE else AFTOperation_ADD) ni (id + 1) e]) add
        simp [hd] at this ⊢; omega

include hE in
/-- the Delete bucket receives exactly the target's entries the intended RIB lacks, in order -/
theorem delPass_emits (src : List ReconEnt) : ∀ (l : List ReconEnt) (id : Nat) (del : List ReconOp),
    (delPass mk ni src same l id del).2.map (·.Entry) = del.map (·.Entry) ++ (l.filter (absent src same)).map some ∧
    (delPass mk ni src same l id del).1 + del.length = id + (delPass mk ni src same l id del).2.length := by
  intro l
  induction l with
  | nil => intros; simp [delPass]
  | cons e t ih =>
    intro id del
    simp only [delPass]
    cases hf : src.find? (same e) with
    | none =>
      have := ih (id + 1) (del ++ [mk AFTOperation_DELETE ni (id + 1) e])
      refine ⟨by simp [absent, hf, this.1, hE], ?_⟩
      have h2 := this.2
      simp at h2 ⊢; omega
    | some d =>
      have := ih id del
      exact ⟨by simp [absent, hf, this.1], this.2⟩

end

theorem gen_recon_translated : Gen.reconDiff_problem = none := rfl

end Gribi.GenEquiv.Recon
