/-
The tie by translation, the encapsulation-header builders of the fluent API (`fluent/fluent.go`:
`MPLSEncapHeader().WithLabels(…)`, `UDPV6EncapHeader().WithDSCP(…)…`, `EncapProto()`): see
`Gribi/Props/GenEquiv/Base.lean`, `FluentBuilders.lean` and the model's `Fluent.Hdr`.

Proved for every state and argument: the constructors create a header of the right protobuf type
(MPLS = 4, UDPv6 = 8, through the table `encapMap`) with an empty payload; `WithLabels` appends
the labels given, in order, to those already there; each UDPv6 setter sets exactly its field;
`EncapProto` returns the header as built. The abstraction maps a header to the model's `Hdr`.
-/
import Gribi.Gen.FlNewMPLSEncapHeader
import Gribi.Gen.FlHWithLabels
import Gribi.Gen.FlHMplsEncapProto
import Gribi.Gen.FlNewUDPV6EncapHeader
import Gribi.Gen.FlHWithDSCP
import Gribi.Gen.FlHWithDstIP
import Gribi.Gen.FlHWithDstUDPPort
import Gribi.Gen.FlHWithIPTTL
import Gribi.Gen.FlHWithSrcIP
import Gribi.Gen.FlHWithSrcUDPPort
import Gribi.Gen.FlHUdpEncapProto
import Gribi.Props.GenEquiv.FluentBuilders
namespace Gribi.GenEquiv
open Gribi Gribi.Gen Gribi.Fluent

def absMplsHdr (pb : EhMplsHdrB) : Hdr := .mpls (pb.Mpls.MplsLabelStack.map (·.MplsLabelStackUint64))

def absUdpHdr (pb : EhUdpHdrB) : Hdr :=
  .udp6 { dscp := pb.UdpV6.Dscp.map (·.Value), dstIp := pb.UdpV6.DstIp.map (·.Value),
          dstPort := pb.UdpV6.DstUdpPort.map (·.Value), ttl := pb.UdpV6.IpTtl.map (·.Value),
          srcIp := pb.UdpV6.SrcIp.map (·.Value), srcPort := pb.UdpV6.SrcUdpPort.map (·.Value) }

/-- the constructors: the protobuf type of the header (what the model renders as `e4` / `e8`) and
an empty payload -/
theorem gen_header_constructors :
    (Gen.flNewMPLSEncapHeader.map (fun b => (b.pb.Type_, absMplsHdr b.pb))) = some (4, .mpls []) ∧
    (Gen.flNewUDPV6EncapHeader.map (fun b => (b.pb.Type_, absUdpHdr b.pb))) = some (8, .udp6 {}) :=
  ⟨rfl, rfl⟩

theorem labels_loop : ∀ (ls : List Nat) (pb : EhMplsHdrB),
    Gen.flHWithLabels.loop1 ls pb =
      { pb with Mpls := { pb.Mpls with MplsLabelStack := pb.Mpls.MplsLabelStack ++ ls.map (fun l => ⟨l⟩) } } := by
  intro ls
  induction ls with
  | nil => intro pb; simp [Gen.flHWithLabels.loop1]
  | cons l t ih => intro pb; rw [Gen.flHWithLabels.loop1]; simp only []; rw [ih]; simp [List.append_assoc]

/-- `WithLabels(labels…)` appends the labels, in order, to the stack the header already has (the
header's type is untouched) -/
theorem gen_header_withLabels (ls : List Nat) (pb : EhMplsHdrB) :
    absMplsHdr (Gen.flHWithLabels ls pb) =
      .mpls (pb.Mpls.MplsLabelStack.map (·.MplsLabelStackUint64) ++ ls) ∧
    (Gen.flHWithLabels ls pb).Type_ = pb.Type_ := by
  simp [Gen.flHWithLabels, labels_loop, absMplsHdr, List.map_map, Function.comp_def]

inductive GUdpCall where
  | dscp (v : Nat) | dstIp (a : String) | dstPort (p : Nat) | ttl (t : Nat) | srcIp (a : String) | srcPort (p : Nat)
  deriving DecidableEq, Repr

def runUdp (pb : EhUdpHdrB) : GUdpCall → EhUdpHdrB
  | .dscp v => flHWithDSCP v pb
  | .dstIp a => flHWithDstIP a pb
  | .dstPort p => flHWithDstUDPPort p pb
  | .ttl t => flHWithIPTTL t pb
  | .srcIp a => flHWithSrcIP a pb
  | .srcPort p => flHWithSrcUDPPort p pb

def udpSpec (u : Udp6) : GUdpCall → Udp6
  | .dscp v => { u with dscp := some v }
  | .dstIp a => { u with dstIp := some a }
  | .dstPort p => { u with dstPort := some p }
  | .ttl t => { u with ttl := some t }
  | .srcIp a => { u with srcIp := some a }
  | .srcPort p => { u with srcPort := some p }

def udpOf : Hdr → Udp6
  | .udp6 u => u
  | _ => {}

/-- each UDPv6 setter sets exactly the field it names (source and destination are not swapped,
port and address not confused), and leaves the header's type alone -/
theorem gen_header_udp_step (pb : EhUdpHdrB) (c : GUdpCall) :
    absUdpHdr (runUdp pb c) = .udp6 (udpSpec (udpOf (absUdpHdr pb)) c) ∧ (runUdp pb c).Type_ = pb.Type_ := by
  cases c <;> exact ⟨rfl, rfl⟩

theorem gen_header_udp_chain (cs : List GUdpCall) (pb : EhUdpHdrB) :
    absUdpHdr (cs.foldl runUdp pb) = .udp6 (cs.foldl udpSpec (udpOf (absUdpHdr pb))) := by
  induction cs generalizing pb with
  | nil => rfl
  | cons c t ih =>
    simp only [List.foldl_cons]
    rw [ih, (gen_header_udp_step pb c).1]
    rfl

/-- `EncapProto` returns the header as built -/
theorem gen_header_encapProto (m : EhMplsHdrB) (u : EhUdpHdrB) :
    Gen.flHMplsEncapProto m = (some m, m) ∧ Gen.flHUdpEncapProto u = (some u, u) := ⟨rfl, rfl⟩

theorem gen_headers_translated :
    Gen.flNewMPLSEncapHeader_problem = none ∧ Gen.flHWithLabels_problem = none ∧ Gen.flHMplsEncapProto_problem = none ∧
    Gen.flNewUDPV6EncapHeader_problem = none ∧ Gen.flHWithDSCP_problem = none ∧ Gen.flHWithDstIP_problem = none ∧
    Gen.flHWithDstUDPPort_problem = none ∧ Gen.flHWithIPTTL_problem = none ∧ Gen.flHWithSrcIP_problem = none ∧
    Gen.flHWithSrcUDPPort_problem = none ∧ Gen.flHUdpEncapProto_problem = none :=
  ⟨rfl, rfl, rfl, rfl, rfl, rfl, rfl, rfl, rfl, rfl, rfl⟩

end Gribi.GenEquiv
