/-
The tie by translation, the reference counters of a `RIBHolder` (rib/rib.go): `incNHGRefCount`,
`decNHGRefCount`, `nhgReferenced`, `incNHRefCount`, `decNHRefCount`, `nhReferenced` (Go maps of
`uint64` counters, a missing key reading as 0, arithmetic modulo 2^64) and `refdRIB`, the lookup
of the instance in which an entry's group lives. The theorems say that they are the model's
`Rib.cnt` / `Rib.inc` / `Rib.dec` on the instance's share of the model's counter map, and the
model's `Rib.tgtNI` guarded by `hasNI`. See `Gribi/Props/GenEquiv/Base.lean`.
-/
import Gribi.Gen.IncNHGRefCount
import Gribi.Gen.DecNHGRefCount
import Gribi.Gen.NhgReferenced
import Gribi.Gen.IncNHRefCount
import Gribi.Gen.DecNHRefCount
import Gribi.Gen.NhReferenced
import Gribi.Gen.RefdRIB
import Gribi.Model.Rib
namespace Gribi.GenEquiv.RibCount
open Gribi Gribi.Gen

/-- a counter of the code's map -/
def cntOf (c : Map Nat Nat) (i : Nat) : Nat := (Map.get? c i).getD 0

/-- the code's map of one instance holds the model's counters of that instance -/
def Agrees (c : Map Nat Nat) (m : Map (NI × Nat) Nat) (ni : NI) : Prop :=
  ∀ j, cntOf c j = Rib.cnt m (ni, j)

theorem cnt_insert (m : Map (NI × Nat) Nat) (k k' : NI × Nat) (v : Nat) :
    Rib.cnt (m.insert k v) k' = if k = k' then v else Rib.cnt m k' := by
  unfold Rib.cnt
  rw [Map.get?_insert]
  split <;> rfl

theorem cntOf_insert (c : Map Nat Nat) (i j v : Nat) :
    cntOf (Map.insert c i v) j = if i = j then v else cntOf c j := by
  unfold cntOf
  rw [Map.get?_insert]
  split <;> rfl

/-- `incNHGRefCount` adds one to the counter of `i` and leaves the others (below 2^64 - 1) -/
theorem gen_inc (i : Nat) (c : Map Nat Nat) (hb : cntOf c i < 18446744073709551615) (j : Nat) :
    cntOf (Gen.incNHGRefCount i c) j = if i = j then cntOf c i + 1 else cntOf c j := by
  have : incU64 (cntOf c i) = cntOf c i + 1 := by unfold incU64; split <;> omega
  simp only [Gen.incNHGRefCount]
  rw [cntOf_insert]
  split
  · exact this
  · rfl

/-- `decNHGRefCount` takes one off the counter of `i` unless it is 0 (it never wraps) -/
theorem gen_dec (i : Nat) (c : Map Nat Nat) (j : Nat) :
    cntOf (Gen.decNHGRefCount i c) j = if i = j then cntOf c i - 1 else cntOf c j := by
  simp only [Gen.decNHGRefCount]
  by_cases h0 : (Map.get? c i).getD 0 = 0
  · simp only [h0, if_true]
    split
    · rename_i h; subst h; unfold cntOf; omega
    · rfl
  · simp only [h0, if_false]
    rw [cntOf_insert]
    have : decU64 ((Map.get? c i).getD 0) = cntOf c i - 1 := by
      unfold decU64 cntOf; split <;> omega
    split
    · exact this
    · rfl

theorem gen_referenced (i : Nat) (c : Map Nat Nat) :
    Gen.nhgReferenced i c = (decide (cntOf c i > 0), c) := rfl

/-- the next-hop counters are the same three functions -/
theorem nh_same (i : Nat) (c : Map Nat Nat) :
    Gen.incNHRefCount i c = Gen.incNHGRefCount i c ∧ Gen.decNHRefCount i c = Gen.decNHGRefCount i c ∧
    Gen.nhReferenced i c = Gen.nhgReferenced i c := ⟨rfl, rfl, rfl⟩

/-- **the counters are the model's**: on the share of instance `ni`, `incNHGRefCount` is `Rib.inc` -/
theorem inc_model (c : Map Nat Nat) (m : Map (NI × Nat) Nat) (ni : NI) (i : Nat) (h : Agrees c m ni)
    (hb : Rib.cnt m (ni, i) < 18446744073709551615) :
    Agrees (Gen.incNHGRefCount i c) (Rib.inc m (ni, i)) ni := by
  intro j
  rw [gen_inc i c (by rw [h i]; exact hb) j]
  unfold Rib.inc
  rw [cnt_insert]
  by_cases hij : i = j
  · subst hij; simp [h i]
  · have : ¬ ((ni, i) : NI × Nat) = (ni, j) := by intro e; exact hij (by injection e)
    simp [hij, this, h j]

/-- … `decNHGRefCount` is `Rib.dec` (which refuses to go below zero, as the code does) -/
theorem dec_model (c : Map Nat Nat) (m : Map (NI × Nat) Nat) (ni : NI) (i : Nat) (h : Agrees c m ni) :
    Agrees (Gen.decNHGRefCount i c) (Rib.dec m (ni, i)) ni := by
  intro j
  rw [gen_dec i c j]
  unfold Rib.dec
  by_cases h0 : Rib.cnt m (ni, i) = 0
  · simp only [h0, if_true]
    by_cases hij : i = j
    · subst hij; simp [h i, h0]
    · simp [hij, h j]
  · simp only [h0, if_false]
    rw [cnt_insert]
    by_cases hij : i = j
    · subst hij; simp [h i]
    · have : ¬ ((ni, i) : NI × Nat) = (ni, j) := by intro e; exact hij (by injection e)
      simp [hij, this, h j]

/-- … and a change to another instance's share does not touch this one's -/
theorem other_instance (c : Map Nat Nat) (m : Map (NI × Nat) Nat) (ni ni' : NI) (i : Nat) (hne : ni' ≠ ni)
    (h : Agrees c m ni) : Agrees c (Rib.inc m (ni', i)) ni ∧ Agrees c (Rib.dec m (ni', i)) ni := by
  have hk : ∀ j, ¬ ((ni', i) : NI × Nat) = (ni, j) := fun j e => hne (by injection e)
  constructor
  · intro j; unfold Rib.inc; rw [cnt_insert]; simp [hk j, h j]
  · intro j; unfold Rib.dec
    split
    · exact h j
    · rw [cnt_insert]; simp [hk j, h j]

/-- `nhgReferenced` is the model's test `cnt > 0` -/
theorem referenced_model (c : Map Nat Nat) (m : Map (NI × Nat) Nat) (ni : NI) (i : Nat) (h : Agrees c m ni) :
    (Gen.nhgReferenced i c).1 = decide (Rib.cnt m (ni, i) > 0) := by
  rw [gen_referenced, h i]

/-- **`refdRIB`**: the entry's own instance when it names none, the named one when it exists,
otherwise InvalidArgument -/
theorem gen_refdRIB (ni ref : String) (known : String → Bool) :
    Gen.refdRIB ni ref known =
      if ref = "" then (some ni, none)
      else if known ref then (some ref, none)
      else (none, some ⟨GCode.InvalidArgument, Details.none⟩) := by
  unfold Gen.refdRIB
  by_cases h : ref = "" <;> by_cases hk : known ref = true <;> simp [h, hk]

/-- on the model: the holder found is `Rib.tgtNI`, found exactly when the model has that instance -/
theorem refdRIB_model (s : Rib) (ni : NI) (p : Payload) (hni : s.hasNI ni = true) :
    Gen.refdRIB ni p.grpNI s.hasNI =
      if s.hasNI (Rib.tgtNI ni p) then (some (Rib.tgtNI ni p), none)
      else (none, some ⟨GCode.InvalidArgument, Details.none⟩) := by
  rw [gen_refdRIB]
  unfold Rib.tgtNI
  by_cases h : p.grpNI = "" <;> simp [h, hni]

theorem gen_ribcount_translated :
    Gen.incNHGRefCount_problem = none ∧ Gen.decNHGRefCount_problem = none ∧ Gen.nhgReferenced_problem = none ∧
    Gen.incNHRefCount_problem = none ∧ Gen.decNHRefCount_problem = none ∧ Gen.nhReferenced_problem = none ∧
    Gen.refdRIB_problem = none := ⟨rfl, rfl, rfl, rfl, rfl, rfl, rfl⟩

end Gribi.GenEquiv.RibCount
