/-
The tie by translation. `Gribi/Gen/*.lean` are regenerated from /repo's Go sources on every
check run (by /verif/translate). The theorems in `Gribi/Props/GenEquiv/*` state, for every
input, that each generated definition — what the Go function says now — computes what the
hand-written model computes. They are re-elaborated and re-checked by the kernel on every
run; a change of the Go function that changes its decision for any input makes the
corresponding theorem fail. Nothing is specific to a sample of inputs: election ids range over
all 2^128 values, selectors over every case.
-/
import Gribi.Gen.IsNewMaster
import Gribi.Props.GenEquiv.Base
namespace Gribi.GenEquiv
open Gribi Gribi.Gen

/-! ### isNewMaster -/

/-- `server.isNewMaster` (as the source says now) wins exactly when the model says so, reports
"same id" exactly for an equal id, and never returns an error — for all 2^256 pairs. -/
theorem gen_isNewMaster (cand : U128) (exist : Option U128) :
    Gen.isNewMaster cand exist = (Server.isNewMaster cand exist, decide (exist = some cand), none) := by
  cases exist with
  | none => simp [Gen.isNewMaster, Server.isNewMaster]
  | some e =>
    have hle := le_iff_cmp e cand
    simp only [Gen.isNewMaster, Server.isNewMaster, u128_eta]
    rcases cmp_cases cand e with ⟨h, h'⟩ | ⟨h, h'⟩ | ⟨h, h'⟩
    · have hne : ¬ (e = cand) := by intro x; subst x; omega
      have : U128.le e cand = false := by
        rw [Bool.eq_false_iff]; intro hc
        have := (C05.u128_le_iff e cand).mp hc; omega
      simp [h, this, hne, Ne.symm hne, equals_iff]
    · subst h'
      have : U128.le cand cand = true := (C05.u128_le_iff _ _).mpr (Nat.le_refl _)
      simp [h, this, equals_iff]
    · have hne : ¬ (e = cand) := by intro x; subst x; omega
      have : U128.le e cand = true := (C05.u128_le_iff _ _).mpr (Nat.le_of_lt h')
      simp [h, this, hne, Ne.symm hne, equals_iff]

theorem gen_isNewMaster_translated : Gen.isNewMaster_problem = none := rfl

end Gribi.GenEquiv
