/-
The tie by translation, `Server.doGet` (request validation and fan-out of the Get RPC): see
`Gribi/Props/GenEquiv/Base.lean`.

`doGet` reports errors by sending them to the RPC handler (`errCh <- e`), which ends the RPC
with the first one it receives; each `GetRIB(filter, …)` call streams the entries of one
network instance. Both are recorded, in order, as effects.
-/
import Gribi.Gen.DoGet
import Gribi.Props.GenEquiv.Base
namespace Gribi.GenEquiv
open Gribi Gribi.Gen

/-- the AFT types `doGet` serves, by wire number -/
def supportedAft (a : Nat) : Bool := a == 1 || a == 2 || a == 3 || a == 4 || a == 5 || a == 6

/-- the model's reading of the wire number (the driver's `getAftOf`) -/
def aftOf (n : Nat) : Server.GetAft :=
  match n with
  | 1 => .sel .all | 2 => .sel .v4 | 3 => .sel .v6 | 4 => .sel .mpls | 5 => .sel .nh | 6 => .sel .nhg
  | _ => .other

theorem supported_iff (a : Nat) : supportedAft a = true ↔ aftOf a ≠ .other := by
  unfold supportedAft aftOf
  match a with
  | 0 => simp
  | 1 => simp
  | 2 => simp
  | 3 => simp
  | 4 => simp
  | 5 => simp
  | 6 => simp
  | (n + 7) => simp

/-- what the loop over the selected instances does when `GetRIB` itself does not fail -/
def getLoop (niKnown : String → Bool) (filter : List Nat) : List String → List Eff
  | [] => []
  | n :: rest =>
    if niKnown n then Eff.getRIB n filter :: getLoop niKnown filter rest
    else [Eff.sendErr (some ⟨.InvalidArgument, .none⟩)]

theorem loop1_spec (k : String → Bool) (f : List Nat) (v : Nat) : ∀ (l : List String) (e : List Eff),
    doGet.loop1 k (fun _ => none) f v l e = e ++ getLoop k (v :: f) l := by
  intro l; induction l with
  | nil => intro e; simp [doGet.loop1, getLoop]
  | cons x xs ih => intro e; unfold doGet.loop1; by_cases h : k x = true <;> simp [h, ih, getLoop]
theorem loop2_spec (k : String → Bool) (f : List Nat) : ∀ (l : List String) (e : List Eff),
    doGet.loop2 k (fun _ => none) f l e = e ++ getLoop k f l := by
  intro l; induction l with
  | nil => intro e; simp [doGet.loop2, getLoop]
  | cons x xs ih => intro e; unfold doGet.loop2; by_cases h : k x = true <;> simp [h, ih, getLoop]
theorem loop3_spec (k : String → Bool) (f : List Nat) (v : Nat) : ∀ (l : List String) (e : List Eff),
    doGet.loop3 k (fun _ => none) f v l e = e ++ getLoop k (v :: f) l := by
  intro l; induction l with
  | nil => intro e; simp [doGet.loop3, getLoop]
  | cons x xs ih => intro e; unfold doGet.loop3; by_cases h : k x = true <;> simp [h, ih, getLoop]
theorem loop4_spec (k : String → Bool) (f : List Nat) : ∀ (l : List String) (e : List Eff),
    doGet.loop4 k (fun _ => none) f l e = e ++ getLoop k f l := by
  intro l; induction l with
  | nil => intro e; simp [doGet.loop4, getLoop]
  | cons x xs ih => intro e; unfold doGet.loop4; by_cases h : k x = true <;> simp [h, ih, getLoop]
theorem loop5_spec (k : String → Bool) (f : List Nat) (v : Nat) : ∀ (l : List String) (e : List Eff),
    doGet.loop5 k (fun _ => none) f v l e = e ++ getLoop k (v :: f) l := by
  intro l; induction l with
  | nil => intro e; simp [doGet.loop5, getLoop]
  | cons x xs ih => intro e; unfold doGet.loop5; by_cases h : k x = true <;> simp [h, ih, getLoop]
theorem loop6_spec (k : String → Bool) (f : List Nat) : ∀ (l : List String) (e : List Eff),
    doGet.loop6 k (fun _ => none) f l e = e ++ getLoop k f l := by
  intro l; induction l with
  | nil => intro e; simp [doGet.loop6, getLoop]
  | cons x xs ih => intro e; unfold doGet.loop6; by_cases h : k x = true <;> simp [h, ih, getLoop]

def greqOf (ni : Server.NiSel) (aft : Nat) : GetRequestG :=
  { NetworkInstance := (match ni with | .unset => none | .all => some .All | .name n => some (.Name n)), Aft := aft }

/-- the instances a Get request selects -/
def getTargets (s : Server) : Server.NiSel → List String
  | .all => s.rib.nis
  | .name n => [n]
  | .unset => []

/-- `doGet` (as the source says now), for every request and server state (with a `GetRIB` that does
not fail): the empty instance name is rejected before anything is streamed; an unsupported AFT
type is reported first; then the selected instances — the named one, or all the RIB knows, or
none — are streamed in order with the filter holding exactly the requested type, an unknown
instance ending the walk with InvalidArgument. -/
theorem gen_doGet (s : Server) (ni : Server.NiSel) (aft : Nat) :
    Gen.doGet (some (greqOf ni aft)) s.rib.nis (fun n => s.rib.hasNI n) (fun _ => none) =
      if ni = .name "" then [Eff.sendErr (some ⟨.InvalidArgument, .none⟩)]
      else if supportedAft aft then getLoop (fun n => s.rib.hasNI n) [aft] (getTargets s ni)
      else Eff.sendErr (some ⟨.Unimplemented, .none⟩) :: getLoop (fun n => s.rib.hasNI n) [] (getTargets s ni) := by
  have hs : (aft = AFTType_ALL ∨ aft = AFTType_IPV4 ∨ aft = AFTType_NEXTHOP ∨ aft = AFTType_NEXTHOP_GROUP ∨
      aft = AFTType_MPLS ∨ aft = AFTType_IPV6) ↔ supportedAft aft = true := by
    simp only [AFTType_ALL, AFTType_IPV4, AFTType_NEXTHOP, AFTType_NEXTHOP_GROUP, AFTType_MPLS, AFTType_IPV6,
      supportedAft, Bool.or_eq_true, beq_iff_eq]
    omega
  cases ni with
  | unset =>
    by_cases h : supportedAft aft = true
    · simp [Gen.doGet, greqOf, getTargets, hs, h, loop5_spec, getLoop]
    · simp [Gen.doGet, greqOf, getTargets, hs, h, loop6_spec, getLoop]
  | all =>
    by_cases h : supportedAft aft = true
    · simp [Gen.doGet, greqOf, getTargets, hs, h, loop3_spec]
    · simp [Gen.doGet, greqOf, getTargets, hs, h, loop4_spec]
  | name n =>
    by_cases hn : n = ""
    · simp [Gen.doGet, greqOf, hn]
    · by_cases h : supportedAft aft = true
      · simp [Gen.doGet, greqOf, getTargets, hs, h, hn, loop1_spec]
      · simp [Gen.doGet, greqOf, getTargets, hs, h, hn, loop2_spec]

def isErr : Eff → Bool
  | .sendErr _ => true
  | _ => false

theorem getLoop_all_known (s : Server) (f : List Nat) : ∀ (l : List String), (∀ n ∈ l, s.rib.hasNI n = true) →
    getLoop (fun n => s.rib.hasNI n) f l = l.map (fun n => Eff.getRIB n f) := by
  intro l
  induction l with
  | nil => intro _; simp [getLoop]
  | cons x xs ih =>
    intro h
    have hx := h x (List.mem_cons_self ..)
    simp [getLoop, hx, ih (fun n hn => h n (List.mem_cons_of_mem _ hn))]

/-- … and that is the model's `Server.get`: the RPC fails exactly when the model says so, and
otherwise `GetRIB` is called, with the filter holding exactly the requested table, once for each
instance the model collects entries from. -/
theorem gen_doGet_model (s : Server) (ni : Server.NiSel) (aft : Nat) :
    let effs := Gen.doGet (some (greqOf ni aft)) s.rib.nis (fun n => s.rib.hasNI n) (fun _ => none)
    (effs.any isErr = false ↔ (s.get ni (aftOf aft)).isSome = true) ∧
    ((s.get ni (aftOf aft)).isSome = true → effs = (getTargets s ni).map (fun n => Eff.getRIB n [aft])) := by
  simp only [gen_doGet]
  have hsup := supported_iff aft
  cases ni with
  | unset =>
    by_cases h : supportedAft aft = true
    · have : aftOf aft ≠ .other := hsup.mp h
      cases ha : aftOf aft <;> simp_all [getTargets, getLoop, Server.get]
    · have : aftOf aft = .other := by
        cases ha : aftOf aft with
        | other => rfl
        | sel a => exact absurd (hsup.mpr (by simp [ha])) h
      simp [h, this, getTargets, getLoop, Server.get, isErr]
  | all =>
    have hall : ∀ n ∈ s.rib.nis, s.rib.hasNI n = true := by
      intro n hn; simp [Rib.hasNI, hn]
    by_cases h : supportedAft aft = true
    · have : aftOf aft ≠ .other := hsup.mp h
      cases ha : aftOf aft with
      | other => exact absurd ha this
      | sel a =>
        simp [h, getTargets, getLoop_all_known s _ _ hall, Server.get, isErr, List.any_map, Function.comp_def]
    · have : aftOf aft = .other := by
        cases ha : aftOf aft with
        | other => rfl
        | sel a => exact absurd (hsup.mpr (by simp [ha])) h
      simp [h, this, getTargets, Server.get, isErr]
  | name n =>
    by_cases hn : n = ""
    · subst hn
      cases ha : aftOf aft <;> simp [Server.get, isErr]
    · by_cases h : supportedAft aft = true
      · have : aftOf aft ≠ .other := hsup.mp h
        cases ha : aftOf aft with
        | other => exact absurd ha this
        | sel a =>
          by_cases hk : s.rib.hasNI n = true
          · simp [h, hn, getTargets, getLoop, hk, Server.get, isErr]
          · simp [h, hn, getTargets, getLoop, hk, Server.get, isErr]
      · have : aftOf aft = .other := by
          cases ha : aftOf aft with
          | other => rfl
          | sel a => exact absurd (hsup.mpr (by simp [ha])) h
        simp [h, hn, this, getTargets, Server.get, isErr]

/-- a nil request is rejected -/
theorem gen_doGet_nil (known : List String) (k : String → Bool) (g : String → Option Status) :
    Gen.doGet none known k g = [Eff.sendErr (some ⟨.InvalidArgument, .none⟩)] := by
  simp [Gen.doGet]

theorem gen_doGet_translated : Gen.doGet_problem = none := rfl

end Gribi.GenEquiv
