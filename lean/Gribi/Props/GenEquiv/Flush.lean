/-
The tie by translation. `Gribi/Gen/*.lean` are regenerated from /repo's Go sources on every
check run (by /verif/translate). The theorems in `Gribi/Props/GenEquiv/*` state, for every
input, that each generated definition — what the Go function says now — computes what the
hand-written model computes. They are re-elaborated and re-checked by the kernel on every
run; a change of the Go function that changes its decision for any input makes the
corresponding theorem fail. Nothing is specific to a sample of inputs: election ids range over
all 2^128 values, selectors over every case.
-/
import Gribi.Gen.CheckFlushRequest
import Gribi.Props.GenEquiv.Base
namespace Gribi.GenEquiv
open Gribi Gribi.Gen

/-! ### checkFlushRequest -/

/-- a FlushRequest as the getters show it -/
def reqOf (ni : Server.NiSel) (el : Server.FlushElec) : FlushRequest :=
  { NetworkInstance := if ni = .unset then none else some (),
    Override := if el = .override then some () else none,
    Id := match el with | .id e => some e | _ => none }

/-- `Server.checkFlushRequest` (as the source says now) = the model's decision table
`checkFlush`, for every instance selector, election field and election state. -/
theorem gen_checkFlush (cur : Option U128) (ni : Server.NiSel) (el : Server.FlushElec) :
    Gen.checkFlushRequest (some (reqOf ni el)) cur = (Server.checkFlush cur ni el).map fstatusOf := by
  by_cases hni : ni = .unset
  · simp [Gen.checkFlushRequest, reqOf, Server.checkFlush, hni, fstatusOf, codeOf, fdetOf]
  · cases el with
    | override => simp [Gen.checkFlushRequest, reqOf, Server.checkFlush, hni]
    | unset =>
      cases cur <;> simp [Gen.checkFlushRequest, reqOf, Server.checkFlush, hni, fstatusOf, codeOf, fdetOf]
    | id e =>
      cases cur with
      | none => simp [Gen.checkFlushRequest, reqOf, Server.checkFlush, hni, fstatusOf, codeOf, fdetOf]
      | some c =>
        simp only [Gen.checkFlushRequest, reqOf, Server.checkFlush, hni, if_false, u128_eta]
        by_cases hz : e.isZero = true
        · have : equals (u128 0 0) e = true := (equals_iff _ _).mpr ((isZero_iff e).mp hz).symm
          simp [hz, this, fstatusOf, codeOf, fdetOf]
        · have : ¬ equals (u128 0 0) e = true := fun x => hz ((isZero_iff e).mpr ((equals_iff _ _).mp x).symm)
          simp only [this, hz, if_false, Bool.false_eq_true]
          rcases cmp_cases e c with ⟨hx, hx'⟩ | ⟨hx, hx'⟩ | ⟨hx, hx'⟩
          · have : U128.lt e c = true := (C05.u128_lt_iff _ _).mpr hx'
            simp [hx, this, fstatusOf, codeOf, fdetOf]
          · subst hx'
            have : U128.lt e e = false := by
              rw [Bool.eq_false_iff]; intro hc'; have := (C05.u128_lt_iff _ _).mp hc'; omega
            simp [hx, this]
          · have : U128.lt e c = false := by
              rw [Bool.eq_false_iff]; intro hc'; have := (C05.u128_lt_iff _ _).mp hc'; omega
            simp [hx, this]

theorem gen_checkFlush_translated : Gen.checkFlushRequest_problem = none := rfl

end Gribi.GenEquiv
