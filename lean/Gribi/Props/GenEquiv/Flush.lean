/-
The tie by translation. `Gribi/Gen/*.lean` are regenerated from /repo's Go sources on every
check run (by /verif/translate). The theorems in `Gribi/Props/GenEquiv/*` state, for every
input, that each generated definition — what the Go function says now — computes what the
hand-written model computes. They are re-elaborated and re-checked by the kernel on every
run; a change of the Go function that changes its decision for any input makes the
corresponding theorem fail. Nothing is specific to a sample of inputs: election ids range over
all 2^128 values, selectors over every case.
-/
import Gribi.Gen.CheckFlushRequest
import Gribi.Gen.Flush
import Gribi.Props.GenEquiv.Base
namespace Gribi.GenEquiv
open Gribi Gribi.Gen

/-! ### checkFlushRequest -/

def idOf : Server.FlushElec → Option U128
  | .id e => some e
  | _ => none

/-- a FlushRequest as the getters show it -/
def reqOf (ni : Server.NiSel) (el : Server.FlushElec) : FlushRequest :=
  { NetworkInstance := (match ni with | .unset => none | .all => some .All | .name n => some (.Name n)),
    Override := if el = .override then some () else none,
    Id := idOf el }

/-- `Server.checkFlushRequest` (as the source says now) = the model's decision table
`checkFlush`, for every instance selector, election field and election state. -/
theorem gen_checkFlush (cur : Option U128) (ni : Server.NiSel) (el : Server.FlushElec) :
    Gen.checkFlushRequest (some (reqOf ni el)) cur = (Server.checkFlush cur ni el).map fstatusOf := by
  have hN : ni = .unset ∨ ∃ x, (reqOf ni el).NetworkInstance = some x := by
    cases ni <;> simp [reqOf]
  rcases hN with hni | ⟨x, hx⟩
  · simp [Gen.checkFlushRequest, reqOf, Server.checkFlush, hni, fstatusOf, codeOf, fdetOf]
  · have hni : ¬ ni = .unset := by intro h; subst h; simp [reqOf] at hx
    have hO : (reqOf ni el).Override = if el = .override then some () else none := rfl
    have hI : (reqOf ni el).Id = idOf el := rfl
    simp only [Gen.checkFlushRequest, hx, hO, hI, idOf]
    cases el with
    | override => simp [Server.checkFlush, hni]
    | unset =>
      cases cur <;> simp [Server.checkFlush, hni, fstatusOf, codeOf, fdetOf]
    | id e =>
      cases cur with
      | none => simp [Server.checkFlush, hni, fstatusOf, codeOf, fdetOf]
      | some c =>
        simp only [Server.checkFlush, hni, if_false, u128_eta, reduceCtorEq]
        by_cases hz : e.isZero = true
        · have : equals (u128 0 0) e = true := (equals_iff _ _).mpr ((isZero_iff e).mp hz).symm
          simp [hz, this, fstatusOf, codeOf, fdetOf]
        · have : ¬ equals (u128 0 0) e = true := fun x => hz ((isZero_iff e).mpr ((equals_iff _ _).mp x).symm)
          simp only [this, hz, if_false, Bool.false_eq_true]
          rcases cmp_cases e c with ⟨hx, hx'⟩ | ⟨hx, hx'⟩ | ⟨hx, hx'⟩
          · have : U128.lt e c = true := (C05.u128_lt_iff _ _).mpr hx'
            simp [hx, this, fstatusOf, codeOf, fdetOf]
          · subst hx'
            have : U128.lt e e = false := by
              rw [Bool.eq_false_iff]; intro hc'; have := (C05.u128_lt_iff _ _).mp hc'; omega
            simp [hx, this]
          · have : U128.lt e c = false := by
              rw [Bool.eq_false_iff]; intro hc'; have := (C05.u128_lt_iff _ _).mp hc'; omega
            simp [hx, this]

/-! ### Server.Flush -/

/-- the instances a Flush request names -/
def targets (s : Server) : Server.NiSel → List String
  | .all => s.rib.nis
  | .name n => [n]
  | .unset => []

/-- `Server.Flush` (as the source says now) composed with `checkFlushRequest` (as the source says
now) = the model's `Server.flush`, for every request and server state: a request the decision
table rejects is answered with that status and **the RIB is not called**; a named instance the
RIB does not know is answered InvalidArgument / INVALID_NETWORK_INSTANCE without a RIB call;
otherwise the RIB's Flush is called once, with exactly the named instance, or with all the
instances the RIB knows, and the answer is OK. -/
theorem gen_flush (s : Server) (ni : Server.NiSel) (el : Server.FlushElec) (niR : Option Unit) :
    Gen.flush (some (reqOf ni el)) (Gen.checkFlushRequest (some (reqOf ni el)) s.curElec)
        s.rib.nis niR (fun n => s.rib.hasNI n) none =
      let res := (s.flush ni el).2.1
      if res.code = .ok then (some .OK, none, [Eff.flush (targets s ni)])
      else (none, some (fstatusOf res), []) := by
  rw [gen_checkFlush]
  unfold Server.flush
  cases hc : Server.checkFlush s.curElec ni el with
  | some r =>
    have hr : r.code ≠ .ok := by
      unfold Server.checkFlush at hc
      repeat' split at hc
      all_goals first | (cases hc; simp) | (cases hc)
    simp [Gen.flush, hr]
  | none =>
    cases ni with
    | unset => simp [Server.checkFlush] at hc
    | all => simp [Gen.flush, reqOf, targets]
    | name n =>
      by_cases hk : s.rib.hasNI n = true
      · simp [Gen.flush, reqOf, targets, hk]
      · simp [Gen.flush, reqOf, targets, hk, fstatusOf, codeOf, fdetOf]

/-- an error of the RIB's Flush is reported as Internal -/
theorem gen_flush_internal (s : Server) (niR : Option Unit) (e : Status) :
    Gen.flush (some (reqOf .all .override)) none s.rib.nis niR (fun n => s.rib.hasNI n) (some e) =
      (none, some ⟨.Internal, .none⟩, [Eff.flush s.rib.nis]) := by
  simp [Gen.flush, reqOf]

theorem gen_flush_translated : Gen.flush_problem = none := rfl

theorem gen_checkFlush_translated : Gen.checkFlushRequest_problem = none := rfl

end Gribi.GenEquiv
