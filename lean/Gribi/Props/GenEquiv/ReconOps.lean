/-
The tie by translation, the reconciler's operation builders `v4Operation`, `v6Operation`,
`mplsOperation`, `nhgOperation`, `nhOperation` (rib/reconciler/reconcile.go) — the functions that
`diff`'s translation (`Recon.lean`) takes as the oracles `mk4` … `mkN`. See
`Gribi/Props/GenEquiv/Base.lean`.

What `rib.ConcreteXXXProto` returns is opaque (it is the ygot-to-protobuf conversion, tied by the
correspondence runs of C07 and C15); what the builders do with it is not: each puts the converted
entry into the wrapper of **its own** table, with the id the counter holds at the call, the
network instance and the method it was given, and fails exactly when the conversion fails.
-/
import Gribi.Gen.ReconV4Operation
import Gribi.Gen.ReconV6Operation
import Gribi.Gen.ReconMplsOperation
import Gribi.Gen.ReconNhgOperation
import Gribi.Gen.ReconNhOperation
namespace Gribi.GenEquiv.ReconOps
open Gribi Gribi.Gen

/-- the conversion succeeded: the operation is (id now, instance, method, the entry in the
wrapper of the builder's own table) and there is no error -/
theorem gen_reconOps_ok (method : Nat) (ni : String) (idNow : Nat) (c : ConvTok) (convErr : Status) :
    Gen.reconV4Operation method ni idNow (some c) convErr =
      (some { Id := idNow, NetworkInstance := ni, Op := method, Entry := some (.Ipv4 (some c)) }, none) ∧
    Gen.reconV6Operation method ni idNow (some c) convErr =
      (some { Id := idNow, NetworkInstance := ni, Op := method, Entry := some (.Ipv6 (some c)) }, none) ∧
    Gen.reconMplsOperation method ni idNow (some c) convErr =
      (some { Id := idNow, NetworkInstance := ni, Op := method, Entry := some (.Mpls (some c)) }, none) ∧
    Gen.reconNhgOperation method ni idNow (some c) convErr =
      (some { Id := idNow, NetworkInstance := ni, Op := method, Entry := some (.NextHopGroup (some c)) }, none) ∧
    Gen.reconNhOperation method ni idNow (some c) convErr =
      (some { Id := idNow, NetworkInstance := ni, Op := method, Entry := some (.NextHop (some c)) }, none) :=
  ⟨rfl, rfl, rfl, rfl, rfl⟩

/-- the conversion failed: no operation, an error — and that is the only way a builder fails -/
theorem gen_reconOps_err (method : Nat) (ni : String) (idNow : Nat) (convErr : Status) :
    (Gen.reconV4Operation method ni idNow none convErr).1 = none ∧ (Gen.reconV4Operation method ni idNow none convErr).2.isSome ∧
    (Gen.reconV6Operation method ni idNow none convErr).1 = none ∧ (Gen.reconV6Operation method ni idNow none convErr).2.isSome ∧
    (Gen.reconMplsOperation method ni idNow none convErr).1 = none ∧ (Gen.reconMplsOperation method ni idNow none convErr).2.isSome ∧
    (Gen.reconNhgOperation method ni idNow none convErr).1 = none ∧ (Gen.reconNhgOperation method ni idNow none convErr).2.isSome ∧
    (Gen.reconNhOperation method ni idNow none convErr).1 = none ∧ (Gen.reconNhOperation method ni idNow none convErr).2.isSome :=
  ⟨rfl, rfl, rfl, rfl, rfl, rfl, rfl, rfl, rfl, rfl⟩

/-- a builder's result never depends on anything but its arguments, the counter's value at the
call and the conversion's result: in particular two calls with different counter values give
operations with different ids (`diff` advances the counter before each call: `Recon.addPass`) -/
theorem gen_reconOps_id (method : Nat) (ni : String) (i j : Nat) (c : ConvTok) (e : Status) (h : i ≠ j) :
    (Gen.reconV4Operation method ni i (some c) e).1 ≠ (Gen.reconV4Operation method ni j (some c) e).1 := by
  simp [(gen_reconOps_ok method ni i c e).1, (gen_reconOps_ok method ni j c e).1, h]

theorem gen_reconOps_translated :
    Gen.reconV4Operation_problem = none ∧ Gen.reconV6Operation_problem = none ∧ Gen.reconMplsOperation_problem = none ∧
    Gen.reconNhgOperation_problem = none ∧ Gen.reconNhOperation_problem = none := ⟨rfl, rfl, rfl, rfl, rfl⟩

end Gribi.GenEquiv.ReconOps
