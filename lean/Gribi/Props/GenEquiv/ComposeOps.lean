/-
Composition, one operation end to end: `doModify` for a message with one operation, its
`modifyEntry` oracle answered by the generated `modifyEntry` itself, whose RIB oracles are answered
by the model's RIB (`Rib.add` / `Rib.del`): what is written to the stream — the response, or the
error that ends the RPC — is the model's `Server.modifyOne`, and `modifyEntry` is called exactly
once, with the session's acknowledgement mode and the election record of the message.

A message with several operations iterates this step: the generated loop is `modLoop`
(`doModify_loop_spec`), the model's is `modifyLoop`, and both thread the RIB from one operation to
the next. (The oracles of a translated loop are functions of the call's arguments, so a theorem
about a whole batch in one piece would need the operations of the batch to be pairwise distinct;
the step is stated instead.)
-/
import Gribi.Props.GenEquiv.DoModify
import Gribi.Props.GenEquiv.Modify
namespace Gribi.GenEquiv
open Gribi Gribi.Gen

/-- an operation as `doModify` sees it (with its network instance) -/
def gopNI (op : Op) : AFTOperation := { gop op with NetworkInstance := op.ni }

/-- `gen_modifyEntry` for the operation carrying its network instance (`modifyEntry` does not read it) -/
theorem gen_modifyEntry_ni (c : Nat) (snap : Server.ElecSnap) (ed : ElectionDetails) (h : SnapRel c snap ed)
    (op : Op) (fib : Bool) (ni : String) (niR : Option Unit)
    (oksA failsA oksD failsD : List Nat) (errA errD : Option Status) :
    Gen.modifyEntry (some ()) ni (some (gopNI op)) fib (some ed) niR true true
        (oksA.map OpResult.mk) (failsA.map OpResult.mk) errA (oksD.map OpResult.mk) (failsD.map OpResult.mk) errD =
      match Server.gate c op.elec snap with
      | .fatal t => (none, some (statusOf t), [])
      | .failed => (some (.results [(op.id, .FAILED)]), none, [])
      | .proceed =>
        match op.ty with
        | .invalid => (some (.results [(op.id, .FAILED)]), none, [])
        | .delete => ribOutcome fib oksD failsD errD (.deleteEntry ni (some (gopNI op)))
        | _ => ribOutcome fib oksA failsA errA (.addEntry ni (some (gopNI op))) := by
  have hg := gen_gate op.id c op.elec snap ed h
  simp only [Gen.modifyEntry, gop, gopNI, hg]
  cases hgate : Server.gate c op.elec snap with
  | fatal t => simp [gateOut]
  | failed => simp [gateOut]
  | proceed =>
    simp only [gateOut, if_true]
    cases hty : op.ty with
    | invalid => simp [AFTOperation_ADD, AFTOperation_REPLACE, AFTOperation_DELETE]
    | add =>
      cases errA with
      | some e => simp [AFTOperation_ADD, ribOutcome]
      | none =>
        simp only [AFTOperation_ADD, ribOutcome, if_true]
        have := loops_eq fib oksA failsA
        simp only [List.append_assoc] at this ⊢
        cases fib <;> simp_all
    | replace =>
      cases errA with
      | some e => simp [AFTOperation_ADD, AFTOperation_REPLACE, ribOutcome]
      | none =>
        simp only [AFTOperation_ADD, AFTOperation_REPLACE, ribOutcome]
        have := loops_eq fib oksA failsA
        simp only [List.append_assoc] at this ⊢
        cases fib <;> simp_all
    | delete =>
      cases errD with
      | some e => simp [AFTOperation_ADD, AFTOperation_REPLACE, AFTOperation_DELETE, ribOutcome]
      | none =>
        simp only [AFTOperation_ADD, AFTOperation_REPLACE, AFTOperation_DELETE, ribOutcome]
        have := loops_eq fib oksD failsD
        simp only [List.append_assoc] at this ⊢
        cases fib <;> simp_all

/-- what `modifyEntry` returns for the model's answer to one operation -/
def outOf : Resp ⊕ Term → Option MResp × Option Status
  | .inr t => (none, some (statusOf t))
  | .inl (.results l) => (some (.results (l.map conv)), none)
  | .inl _ => (none, none)

/-- the error the RIB call returns when the model's RIB says the call is fatal -/
def errOfOut (o : Rib.Out) : Option Status := if o.fatal then some ⟨.Unknown, .none⟩ else none

/-- **`modifyEntry` against the model's RIB = the model's `modifyOne`.** The RIB oracles of the
generated `modifyEntry` are what the model's `Rib.add` / `Rib.del` return for this operation (only
the one for the operation's type is read); its response and error are the model's. -/
theorem modifyEntry_modifyOne (c : Nat) (snap : Server.ElecSnap) (ed : ElectionDetails) (h : SnapRel c snap ed)
    (r : Rib) (op : Op) (script : List Rib.CEv) (fib : Bool) (niR : Option Unit)
    (ra : Rib) (oa : Rib.Out) (hadd : (op.ty = .add ∨ op.ty = .replace) → r.add op script = some (ra, oa))
    (hscript : ¬ (op.ty = .add ∨ op.ty = .replace) → script = [])
    (hgate : Server.gate c op.elec snap ≠ .proceed → script = []) :
    ∃ r' o m, Server.modifyOne r c fib snap op script = some (r', o, m) ∧
      let me := Gen.modifyEntry (some ()) op.ni (some (gopNI op)) fib (some ed) niR true true
        ((oa.oks.map (·.id)).map OpResult.mk) (oa.fails.map OpResult.mk) (errOfOut oa)
        (((r.del op).2.oks.map (·.id)).map OpResult.mk) ((r.del op).2.fails.map OpResult.mk) (errOfOut (r.del op).2)
      (me.1, me.2.1) = outOf m := by
  rw [gen_modifyEntry_ni c snap ed h]
  unfold Server.modifyOne
  cases hg : Server.gate c op.elec snap with
  | fatal t =>
    have hs := hgate (by rw [hg]; simp)
    exact ⟨r, {}, .inr t, by simp [hs], by simp [outOf]⟩
  | failed =>
    have hs := hgate (by rw [hg]; simp)
    exact ⟨r, {}, .inl (.results [(op.id, .failed)]), by simp [hs], by simp [outOf, conv, astOf]⟩
  | proceed =>
    cases hty : op.ty with
    | invalid =>
      have hs := hscript (by simp [hty])
      exact ⟨r, {}, .inl (.results [(op.id, .failed)]), by simp [hs], by simp [outOf, conv, astOf]⟩
    | delete =>
      have hs := hscript (by simp [hty])
      simp only [hs, if_true]
      by_cases hf : (r.del op).2.fatal = true
      · exact ⟨(r.del op).1, (r.del op).2, .inr ⟨.unimplemented, .unknown⟩, by simp [hf],
          by simp [ribOutcome, errOfOut, hf, outOf, statusOf, codeOf, detOf]⟩
      · refine ⟨(r.del op).1, (r.del op).2, .inl (.results (Server.resultsOf fib (r.del op).2)), by simp [hf], ?_⟩
        simp [ribOutcome, errOfOut, hf, outOf, resultsOf_ids]
    | add =>
      have ha := hadd (Or.inl hty)
      simp only [ha]
      by_cases hf : oa.fatal = true
      · exact ⟨ra, oa, .inr ⟨.unimplemented, .unknown⟩, by simp [hf],
          by simp [ribOutcome, errOfOut, hf, outOf, statusOf, codeOf, detOf]⟩
      · refine ⟨ra, oa, .inl (.results (Server.resultsOf fib oa)), by simp [hf], ?_⟩
        simp [ribOutcome, errOfOut, hf, outOf, resultsOf_ids]
    | replace =>
      have ha := hadd (Or.inr hty)
      simp only [ha]
      by_cases hf : oa.fatal = true
      · exact ⟨ra, oa, .inr ⟨.unimplemented, .unknown⟩, by simp [hf],
          by simp [ribOutcome, errOfOut, hf, outOf, statusOf, codeOf, detOf]⟩
      · refine ⟨ra, oa, .inl (.results (Server.resultsOf fib oa)), by simp [hf], ?_⟩
        simp [ribOutcome, errOfOut, hf, outOf, resultsOf_ids]

/-- **One operation, end to end**: `doModify` for a one-operation message of a session that has
negotiated SINGLE_PRIMARY / PRESERVE, with `modifyEntry`'s answer `me`: the instance is checked
first (empty or unknown: FAILED in-band and `modifyEntry` is not called), else `modifyEntry` is
called once with the session's acknowledgement mode and the message's election record, and its
response is written, or its error ends the RPC -/
theorem compose_one_op (nm : Nat → String) (s : Server) (c : Nat) (x : Sess)
    (hx : x.params.expectElec = true ∧ x.params.persist = true) (op : Op) (me : Option MResp × Option Status) :
    Gen.doModify (nm c) [gopNI op] (some (gsess x)) true
        { master := masterStr nm s.curMaster, ID := s.curElec, client := "", clientLatest := none }
        (fun n => s.rib.hasNI n) (fun _ => me.1) (fun _ => me.2) =
      if op.ni = "" ∨ s.rib.hasNI op.ni = false then [Eff.send (some (.results [(op.id, .FAILED)]))]
      else
        let call := Eff.modifyEntry op.ni (some (gopNI op)) x.params.fibAck
          (some (recordOf (nm c) (gsess x) { master := masterStr nm s.curMaster, ID := s.curElec, client := "", clientLatest := none }))
        match me.2 with
        | some e => [call, Eff.sendErr (some e)]
        | none => [call, Eff.send me.1] := by
  rw [gen_doModify]
  simp only [gsess, gparams, hx, and_self, if_true, modLoop, gopNI, gop]
  by_cases h1 : op.ni = ""
  · simp [h1]
  · by_cases h2 : s.rib.hasNI op.ni = true
    · cases hm : me.2 <;> simp [h1, h2, hm, recordOf]
    · simp [h1, h2]

end Gribi.GenEquiv
