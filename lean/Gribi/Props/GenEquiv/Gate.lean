/-
The tie by translation. `Gribi/Gen/*.lean` are regenerated from /repo's Go sources on every
check run (by /verif/translate). The theorems in `Gribi/Props/GenEquiv/*` state, for every
input, that each generated definition — what the Go function says now — computes what the
hand-written model computes. They are re-elaborated and re-checked by the kernel on every
run; a change of the Go function that changes its decision for any input makes the
corresponding theorem fail. Nothing is specific to a sample of inputs: election ids range over
all 2^128 values, selectors over every case.
-/
import Gribi.Gen.CheckElectionForModify
import Gribi.Props.GenEquiv.Base
namespace Gribi.GenEquiv
open Gribi Gribi.Gen

/-! ### checkElectionForModify -/

/-- the three outcomes of the gate as the Go function returns them -/
def gateOut (opID : Nat) : Server.Gate → Option MResp × Bool × Option Status
  | .proceed => (none, true, none)
  | .failed => (some (.results [(opID, .FAILED)]), false, none)
  | .fatal t => (none, false, some (statusOf t))

/-- how the model's election snapshot (sessions are numbers, "no primary" is `none`) is seen by
the Go code (sessions are non-empty strings, "no primary" is the empty string) -/
structure SnapRel (c : Nat) (snap : Server.ElecSnap) (ed : ElectionDetails) : Prop where
  id : ed.ID = snap.cur
  latest : ed.clientLatest = snap.clientLatest
  noMaster : snap.master = none ↔ ed.master = ""
  isMaster : ∀ m, snap.master = some m → (c = m ↔ ed.client = ed.master)

/-- `server.checkElectionForModify` (as the source says now) = the model's `gate`, for every
operation stamp, every election state and every session. -/
theorem gen_gate (opID c : Nat) (oe : Option U128) (snap : Server.ElecSnap) (ed : ElectionDetails)
    (h : SnapRel c snap ed) :
    Gen.checkElectionForModify opID oe (some ed) = gateOut opID (Server.gate c oe snap) := by
  obtain ⟨hid, hlat, hnm, him⟩ := h
  cases oe with
  | none => simp [Gen.checkElectionForModify, Server.gate, gateOut, statusOf, codeOf, detOf]
  | some o =>
    simp only [Gen.checkElectionForModify, Server.gate, u128_eta]
    cases hm : snap.master with
    | none =>
      have : ed.master = "" := hnm.mp hm
      simp [this, gateOut, statusOf, codeOf, detOf]
    | some m =>
      have hne : ¬ ed.master = "" := fun x => by rw [hnm.mpr x] at hm; cases hm
      simp only [hne, if_false]
      rw [hid, hlat]
      cases hc : snap.cur with
      | none => simp [gateOut, statusOf, codeOf, detOf]
      | some cu =>
        cases hl : snap.clientLatest with
        | none => simp [gateOut, statusOf, codeOf, detOf]
        | some la =>
          have hmm := him m hm
          by_cases hcm : c = m
          · have hcl : ed.client = ed.master := hmm.mp hcm
            simp only [hcl, ne_eq, not_true_eq_false, if_false, hcm]
            by_cases hol : o = la
            · subst hol
              have h0 : cmp o o = 0 := (eq_iff_cmp o o).mp rfl
              simp only [h0, not_true_eq_false, if_false]
              rcases cmp_cases o cu with ⟨hx, hx'⟩ | ⟨hx, hx'⟩ | ⟨hx, hx'⟩
              · have h1 : U128.lt cu o = false := by
                  rw [Bool.eq_false_iff]; intro hc'; have := (C05.u128_lt_iff _ _).mp hc'; omega
                have h2 : U128.lt o cu = true := (C05.u128_lt_iff _ _).mpr hx'
                simp [hx, h1, h2, gateOut]
              · subst hx'
                have h1 : U128.lt o o = false := by
                  rw [Bool.eq_false_iff]; intro hc'; have := (C05.u128_lt_iff _ _).mp hc'; omega
                simp [hx, h1, gateOut]
              · have h1 : U128.lt cu o = true := (C05.u128_lt_iff _ _).mpr hx'
                simp [hx, h1, gateOut, statusOf, codeOf, detOf]
            · have h0 : cmp o la ≠ 0 := fun x => hol ((eq_iff_cmp o la).mpr x)
              simp [h0, hol, gateOut]
          · have hcl : ¬ ed.client = ed.master := fun x => hcm (hmm.mpr x)
            simp [hcl, hcm, gateOut]

/-- a missing election record is an Internal error (the model has no such state: `doModify`
always passes a record) -/
theorem gen_gate_nil (opID : Nat) (o : U128) :
    Gen.checkElectionForModify opID (some o) none = (none, false, some ⟨.Internal, .none⟩) := by
  simp [Gen.checkElectionForModify]

theorem gen_gate_translated : Gen.checkElectionForModify_problem = none := rfl

end Gribi.GenEquiv
