/-
The tie by translation, the RIB's orchestration of a DELETE (rib/rib.go `DeleteEntry`). See
`Gribi/Props/GenEquiv/Base.lean`. The theorem holds for every outcome of the table-level
`DeleteXXX` call (`removed`, the removed entry, an error), of `refdRIB`, of the resolved-entry
hook, and every order of the removed group's next-hop map.
-/
import Gribi.Gen.DeleteEntry
namespace Gribi.GenEquiv.RibDel
open Gribi Gribi.Gen

/-- the table-level call made for an entry -/
def delEff (ni : String) : AFTEntry → Eff
  | .Ipv4 e => .delIPv4 ni e
  | .Ipv6 e => .delIPv6 ni e
  | .Mpls e => .delMPLS ni e
  | .NextHopGroup e => .delNHG ni e
  | .NextHop e => .delNH ni e

/-- what a successful delete of an entry of this kind still has to do: for a top-level entry that
was installed, the table and key to announce; for a group, its members -/
inductive After where
  | top (aft : Nat) (key : AnyKey) (o : OrigTop)
  | nhg (g : OrigNHG)
  | nothing

def afterOf (origTop : Option OrigTop) (origNHG : Option OrigNHG) : AFTEntry → After
  | .Ipv4 _ => match origTop with | some o => .top constants_IPv4 (.str o.Prefix) o | none => .nothing
  | .Ipv6 _ => match origTop with | some o => .top constants_IPv6 (.str o.Prefix) o | none => .nothing
  | .Mpls _ => match origTop with | some o => .top constants_MPLS (.num o.Label) o | none => .nothing
  | .NextHopGroup _ => match origNHG with | some g => .nhg g | none => .nothing
  | .NextHop _ => .nothing

/-- `DeleteEntry` said directly -/
def delSpec (ni : String) (op : Option AFTOperationC) (niKnown niValid : String → Bool) (removed : Bool)
    (origTop : Option OrigTop) (origNHG : Option OrigNHG) (delErr : Option Status) (refName : String → String → String)
    (refErr : String → String → Option Status) (hookErr : Option Status) :
    List RibOpResult × List RibOpResult × Option Status × List Eff :=
  if !(niKnown ni && niValid ni) then ([], [], some ⟨.Unknown, .none⟩, [])
  else match op with
    | none => ([], [], some ⟨.InvalidArgument, .none⟩, [])
    | some op =>
      match op.Entry with
      | none => ([], [], some ⟨.InvalidArgument, .none⟩, [])
      | some e =>
        let call := [delEff ni e]
        match delErr with
        | some _ => ([], [⟨op.Id⟩], none, call)                 -- refused: answered FAILED, nothing else
        | none =>
          if !removed then ([], [⟨op.Id⟩], none, call)          -- still referenced: answered FAILED
          else match afterOf origTop origNHG e with
            | .nothing => ([⟨op.Id⟩], [], none, call)            -- was not installed (or a next-hop): acknowledged
            | .nhg g => ([⟨op.Id⟩], [], none, call ++ g.NextHop.map (fun m => Eff.decNHRef ni m.Key))
            | .top aft key o =>
              -- the entry is gone: its group gives back one reference — unless the group's instance
              -- is one the RIB does not know (possible only without the check function), where there
              -- is no counter; the DELETE is acknowledged and announced either way
              let effs := call ++
                (match refErr ni o.NextHopGroupNetworkInstance with
                 | some _ => []
                 | none => [Eff.decNHGRef (refName ni o.NextHopGroupNetworkInstance) o.NextHopGroup]) ++
                [Eff.resolvedHook constants_Delete ni aft key]
              match hookErr with
              | none => ([⟨op.Id⟩], [], none, effs)
              | some _ => ([⟨op.Id⟩], [], some ⟨.Unknown, .none⟩, effs)

theorem loop1_eq (ni niR : String) (hookErr : Option Status) (op : AFTOperationC) :
    ∀ (l : List OrigNHGMember) (effs : List Eff),
      deleteEntry.join1.loop1 ni hookErr niR op l effs =
        ([⟨op.Id⟩], [], none, effs ++ l.map (fun m => Eff.decNHRef niR m.Key)) := by
  intro l
  induction l with
  | nil => intro effs; simp [deleteEntry.join1.loop1, deleteEntry.join1.join2]
  | cons m rest ih => intro effs; unfold deleteEntry.join1.loop1; simp [ih]

/-- `DeleteEntry` = `delSpec` -/
theorem gen_deleteEntry (ni : String) (op : Option AFTOperationC) (niKnown niValid : String → Bool) (removed : Bool)
    (origTop : Option OrigTop) (origNHG : Option OrigNHG) (delErr : Option Status) (refName : String → String → String)
    (refErr : String → String → Option Status) (hookErr : Option Status) :
    Gen.deleteEntry ni op niKnown niValid removed origTop origNHG delErr refName refErr hookErr =
      delSpec ni op niKnown niValid removed origTop origNHG delErr refName refErr hookErr := by
  unfold Gen.deleteEntry delSpec
  by_cases hk : niKnown ni = true
  · by_cases hv : niValid ni = true
    · simp only [hk, hv, if_true, Bool.and_self, Bool.not_true, Bool.false_eq_true, if_false]
      cases op with
      | none => rfl
      | some o =>
        obtain ⟨oid, oop, oent⟩ := o
        cases oent with
        | none => simp
        | some e =>
          cases e <;> cases delErr <;> cases removed <;> cases origTop <;> cases origNHG <;> cases hookErr <;>
            simp [deleteEntry.join1, deleteEntry.join1.join2, loop1_eq, delEff, afterOf] <;>
            (split <;> simp_all)
    · simp [hk, hv]
  · simp [hk]

/-! ### corollaries -/

/-- a refused delete, or one of an entry that is still referenced, is answered FAILED and nothing
else happens: no counter is decremented and nothing is announced -/
theorem del_failed (ni : String) (o : AFTOperationC) (e : AFTEntry) (niKnown niValid : String → Bool) (removed : Bool)
    (origTop : Option OrigTop) (origNHG : Option OrigNHG) (delErr : Option Status) (refName : String → String → String)
    (refErr : String → String → Option Status) (hookErr : Option Status)
    (hk : niKnown ni = true) (hv : niValid ni = true) (he : o.Entry = some e) (h : delErr.isSome ∨ removed = false) :
    Gen.deleteEntry ni (some o) niKnown niValid removed origTop origNHG delErr refName refErr hookErr =
      ([], [⟨o.Id⟩], none, [delEff ni e]) := by
  rw [gen_deleteEntry]
  cases delErr with
  | some err => simp [delSpec, hk, hv, he]
  | none =>
    have : removed = false := by simpa using h
    simp [delSpec, hk, hv, he, this]

/-- a removed group gives back one reference per member of the *installed* group, whatever the
order of its map, and is not announced to the resolved-entry hook -/
theorem del_group (ni : String) (o : AFTOperationC) (x : Option NHGEntryC) (g : OrigNHG) (niKnown niValid : String → Bool)
    (origTop : Option OrigTop) (refName : String → String → String) (refErr : String → String → Option Status) (hookErr : Option Status)
    (hk : niKnown ni = true) (hv : niValid ni = true) (he : o.Entry = some (.NextHopGroup x)) :
    Gen.deleteEntry ni (some o) niKnown niValid true origTop (some g) none refName refErr hookErr =
      ([⟨o.Id⟩], [], none, [Eff.delNHG ni x] ++ g.NextHop.map (fun m => Eff.decNHRef ni m.Key)) := by
  rw [gen_deleteEntry]
  simp [delSpec, hk, hv, he, afterOf, delEff]

/-- a DELETE that has removed an IPv4, IPv6 or MPLS entry is acknowledged and announced whatever the
lookup of the group's instance says (the repair of D24: before it, an unknown instance — reachable
without the check function — made `DeleteEntry` return an error *after* the entry was gone); the
counter is given back exactly when the instance is known -/
theorem del_removed_top (ni : String) (o : AFTOperationC) (e : AFTEntry) (niKnown niValid : String → Bool)
    (t : OrigTop) (origNHG : Option OrigNHG) (refName : String → String → String) (refErr : String → String → Option Status)
    (aft : Nat) (key : AnyKey)
    (hk : niKnown ni = true) (hv : niValid ni = true) (he : o.Entry = some e) (ha : afterOf (some t) origNHG e = .top aft key t) :
    (Gen.deleteEntry ni (some o) niKnown niValid true (some t) origNHG none refName refErr none).1 = [⟨o.Id⟩] ∧
    (Gen.deleteEntry ni (some o) niKnown niValid true (some t) origNHG none refName refErr none).2.1 = [] ∧
    (Gen.deleteEntry ni (some o) niKnown niValid true (some t) origNHG none refName refErr none).2.2.1 = none ∧
    Eff.resolvedHook constants_Delete ni aft key ∈
      (Gen.deleteEntry ni (some o) niKnown niValid true (some t) origNHG none refName refErr none).2.2.2 := by
  rw [gen_deleteEntry]
  simp [delSpec, hk, hv, he, ha]

theorem gen_ribdel_translated : Gen.deleteEntry_problem = none := rfl

end Gribi.GenEquiv.RibDel
