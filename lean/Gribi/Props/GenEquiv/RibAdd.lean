/-
The tie by translation, the RIB's orchestration of an ADD / REPLACE (rib/rib.go):
`addEntryInternal` with `getPending`, `addPending`, `rmPending`. See `Gribi/Props/GenEquiv/Base.lean`.

`addEntryInternal` calls itself for every held operation once an operation has been installed.
The generated definition is the *functional* of that recursion: it takes the function to call for
the retries as its first argument (`self`), passes it the results so far, the set of operations
already handled in this call tree, the held operations and the effects recorded so far, and takes
the new ones back. The theorem below holds for every `self`, every outcome of the table-level
`AddXXX` call (`done`, `orig`, `addErr`), of the resolved-entry hook, and every set of held
operations in every order (`getPending` ranges over a Go map).
-/
import Gribi.Gen.AddEntryInternal
import Gribi.Gen.RibAddEntry
namespace Gribi.GenEquiv.RibAdd
open Gribi Gribi.Gen

abbrev St := List RibOpResult × List RibOpResult × List Nat × Map Nat PendingEntry × List Eff
abbrev Self := String → AFTOperationC → List RibOpResult → List RibOpResult → List Nat → Map Nat PendingEntry → List Eff → Option Status × St

/-- retry the held operations in the order given, stopping at the first fatal error -/
def retry (self : Self) : List PendingEntry → List RibOpResult → List RibOpResult → List Nat → Map Nat PendingEntry → List Eff → Option Status × St
  | [], oks, fails, stack, pend, effs => (none, oks, fails, stack, pend, effs)
  | e :: rest, oks, fails, stack, pend, effs =>
    let r := self e.ni e.op oks fails stack pend effs
    match r.1 with
    | none => retry self rest r.2.1 r.2.2.1 r.2.2.2.1 r.2.2.2.2.1 r.2.2.2.2.2
    | some err => (some err, r.2)

/-- the table-level call made for an entry -/
def addEff (ni : String) (rep : Bool) : AFTEntry → Eff
  | .Ipv4 e => .addIPv4 ni e rep
  | .Ipv6 e => .addIPv6 ni e rep
  | .Mpls e => .addMPLS ni e rep
  | .NextHopGroup e => .addNHG ni e rep
  | .NextHop e => .addNH ni e rep

/-- the reference-counter maintenance after a successful install -/
def refEff (ni : String) (orig : Option Unit) : AFTEntry → List Eff
  | .Ipv4 e => [.handleReferences ni orig (e.bind (·.Ipv4Entry))]
  | .Ipv6 e => [.handleReferences ni orig (e.bind (·.Ipv6Entry))]
  | .Mpls e => [.handleReferences ni orig (e.bind (·.LabelEntry))]
  | .NextHopGroup e => [.handleNHGReferences ni orig (e.bind (·.NextHopGroup))]
  | .NextHop _ => []

/-- the resolved-entry notification of an installed entry: table and key (top-level entries only;
the code tests the IPv4 prefix, then the label, then the IPv6 prefix for being set) -/
def hookOf : AFTEntry → Option (Nat × AnyKey)
  | .Ipv4 e => if (e.map (·.Prefix)).getD "" ≠ "" then some (constants_IPv4, .str ((e.map (·.Prefix)).getD "")) else none
  | .Ipv6 e => if (e.map (·.Prefix)).getD "" ≠ "" then some (constants_IPv6, .str ((e.map (·.Prefix)).getD "")) else none
  | .Mpls e => if (e.map (·.LabelUint64)).getD 0 ≠ 0 then some (constants_MPLS, .num ((e.map (·.LabelUint64)).getD 0)) else none
  | _ => none

/-- `addEntryInternal` said directly -/
def addSpec (self : Self) (ni : String) (op : AFTOperationC) (niKnown niValid : String → Bool) (done : Bool) (orig : Option Unit)
    (addErr hookErr : Option Status) (noFwd : Bool) (oks fails : List RibOpResult) (stack : List Nat) (pend : Map Nat PendingEntry) :
    Option Status × St :=
  if stack.contains op.Id then (none, oks, fails, stack, pend, [])            -- already handled in this call tree
  else if !(niKnown ni && niValid ni) then (some ⟨.Unknown, .none⟩, oks, fails, stack, pend, [])
  else match op.Entry with
    | none => (some ⟨.Unimplemented, .none⟩, oks, fails, stack, pend, [])
    | some e =>
      let call := [addEff ni (decide (op.Op = AFTOperation_REPLACE)) e]
      match addErr with
      | some _ =>
        -- failed for good: answered FAILED, no longer held, never retried in this call tree
        (none, oks, fails ++ [⟨op.Id⟩], op.Id :: stack, Map.erase pend op.Id, call)
      | none =>
        if done then
          let effs := call ++ refEff ni orig e
          let pend1 := Map.erase pend op.Id
          match hookOf e with
          | some (aft, key) =>
            let effs := effs ++ [.resolvedHook constants_Add ni aft key]
            match hookErr with
            | some _ => (some ⟨.Unknown, .none⟩, oks ++ [⟨op.Id⟩], fails, op.Id :: stack, pend1, effs)
            | none => retry self (pend1.map (·.2)) (oks ++ [⟨op.Id⟩]) fails (op.Id :: stack) pend1 effs
          | none => retry self (pend1.map (·.2)) (oks ++ [⟨op.Id⟩]) fails (op.Id :: stack) pend1 effs
        else if noFwd then (none, oks, fails ++ [⟨op.Id⟩], stack, pend, call)   -- unresolved and forward references disabled
        else (none, oks, fails, stack, Map.insert pend op.Id ⟨ni, op⟩, call)    -- held

theorem getPending_eq (pend : Map Nat PendingEntry) : Gen.getPending pend = (pend.map (·.2), pend) := by
  unfold Gen.getPending
  simp only
  congr 1
  have : ∀ (l : List (Nat × PendingEntry)) (acc : List PendingEntry),
      List.foldl (fun acc e => acc ++ [e.2]) acc l = acc ++ l.map (·.2) := by
    intro l
    induction l with
    | nil => simp
    | cons x xs ih => intro acc; simp [ih]
  simpa using this pend []

theorem loop1_eq (self : Self) :
    ∀ (l : List PendingEntry) oks fails stack pend effs,
      addEntryInternal.join1.join2.join3.join4.loop1 self l oks fails stack pend effs = retry self l oks fails stack pend effs := by
  intro l
  induction l with
  | nil => intros; simp [addEntryInternal.join1.join2.join3.join4.loop1, retry]
  | cons e rest ih =>
    intro oks fails stack pend effs
    unfold addEntryInternal.join1.join2.join3.join4.loop1
    simp only [retry]
    cases h : (self e.ni e.op oks fails stack pend effs).1 with
    | none => simp [ih]
    | some err => simp


/-- `addEntryInternal` (one level of the recursion, for every `self`) = `addSpec` -/
theorem gen_addEntryInternal (self : Self) (ni : String) (op : AFTOperationC) (niKnown niValid : String → Bool) (done : Bool)
    (orig : Option Unit) (addErr hookErr : Option Status) (noFwd : Bool) (oks fails : List RibOpResult) (stack : List Nat)
    (pend : Map Nat PendingEntry) :
    Gen.addEntryInternal self ni op niKnown niValid done orig addErr hookErr noFwd oks fails stack pend =
      addSpec self ni op niKnown niValid done orig addErr hookErr noFwd oks fails stack pend := by
  unfold Gen.addEntryInternal addSpec
  by_cases hs : op.Id ∈ stack
  · simp [hs]
  · by_cases hk : niKnown ni = true
    · by_cases hv : niValid ni = true
      · have key : ∀ rep : Bool,
            addEntryInternal.join1 self ni op done orig addErr hookErr noFwd oks fails stack pend ni rep [] =
            (match op.Entry with
              | none => (some ⟨.Unimplemented, .none⟩, oks, fails, stack, pend, [])
              | some e =>
                match addErr with
                | some _ => (none, oks, fails ++ [⟨op.Id⟩], op.Id :: stack, Map.erase pend op.Id, [addEff ni rep e])
                | none =>
                  if done then
                    match hookOf e with
                    | some (aft, key) =>
                      match hookErr with
                      | some _ => (some ⟨.Unknown, .none⟩, oks ++ [⟨op.Id⟩], fails, op.Id :: stack, Map.erase pend op.Id,
                          [addEff ni rep e] ++ refEff ni orig e ++ [.resolvedHook constants_Add ni aft key])
                      | none => retry self ((Map.erase pend op.Id).map (·.2)) (oks ++ [⟨op.Id⟩]) fails (op.Id :: stack)
                          (Map.erase pend op.Id) ([addEff ni rep e] ++ refEff ni orig e ++ [.resolvedHook constants_Add ni aft key])
                    | none => retry self ((Map.erase pend op.Id).map (·.2)) (oks ++ [⟨op.Id⟩]) fails (op.Id :: stack)
                        (Map.erase pend op.Id) ([addEff ni rep e] ++ refEff ni orig e)
                  else if noFwd then (none, oks, fails ++ [⟨op.Id⟩], stack, pend, [addEff ni rep e])
                  else (none, oks, fails, stack, Map.insert pend op.Id ⟨ni, op⟩, [addEff ni rep e])) := by
          intro rep
          unfold addEntryInternal.join1
          cases he : op.Entry with
          | none => simp
          | some e =>
            cases e <;> cases addErr <;> cases done <;> cases noFwd <;> cases hookErr <;>
              simp [addEntryInternal.join1.join2, addEntryInternal.join1.join2.join3, addEntryInternal.join1.join2.join3.join4,
                loop1_eq, getPending_eq, Gen.rmPending, Gen.addPending, addEff, refEff, hookOf] <;>
              (split <;> simp_all)
        by_cases hr : op.Op = AFTOperation_REPLACE
        · simp only [hk, hv, hr, if_true, if_false, key]
          simp
        · simp only [hk, hv, hr, if_true, if_false, key]
          simp
      · simp [hs, hk, hv]
    · simp [hs, hk]


/-! ### what the theorem says, case by case (corollaries of `gen_addEntryInternal`) -/

section
variable (self : Self) (ni : String) (op : AFTOperationC) (niKnown niValid : String → Bool) (orig : Option Unit)
  (hookErr : Option Status) (noFwd : Bool) (oks fails : List RibOpResult) (stack : List Nat) (pend : Map Nat PendingEntry)

/-- an operation whose table-level add fails is answered FAILED once, is no longer held, is marked
as handled, and nothing else happens: no reference counter is touched, no notification is sent,
no held operation is retried -/
theorem add_failed (e : AFTEntry) (err : Status) (done : Bool) (hfresh : op.Id ∉ stack) (hk : niKnown ni = true) (hv : niValid ni = true)
    (he : op.Entry = some e) :
    Gen.addEntryInternal self ni op niKnown niValid done orig (some err) hookErr noFwd oks fails stack pend =
      (none, oks, fails ++ [⟨op.Id⟩], op.Id :: stack, Map.erase pend op.Id, [addEff ni (decide (op.Op = AFTOperation_REPLACE)) e]) := by
  rw [gen_addEntryInternal]
  simp [addSpec, hfresh, hk, hv, he]

/-- an operation that cannot be resolved yet is held under its id together with its network
instance, and is *not answered* (forward references allowed) -/
theorem add_held (e : AFTEntry) (hfresh : op.Id ∉ stack) (hk : niKnown ni = true) (hv : niValid ni = true) (he : op.Entry = some e) :
    Gen.addEntryInternal self ni op niKnown niValid false orig none hookErr false oks fails stack pend =
      (none, oks, fails, stack, Map.insert pend op.Id ⟨ni, op⟩, [addEff ni (decide (op.Op = AFTOperation_REPLACE)) e]) := by
  rw [gen_addEntryInternal]
  simp [addSpec, hfresh, hk, hv, he]

/-- … and is answered FAILED at once when forward references are disabled -/
theorem add_unresolved_nofwd (e : AFTEntry) (hfresh : op.Id ∉ stack) (hk : niKnown ni = true) (hv : niValid ni = true) (he : op.Entry = some e) :
    Gen.addEntryInternal self ni op niKnown niValid false orig none hookErr true oks fails stack pend =
      (none, oks, fails ++ [⟨op.Id⟩], stack, pend, [addEff ni (decide (op.Op = AFTOperation_REPLACE)) e]) := by
  rw [gen_addEntryInternal]
  simp [addSpec, hfresh, hk, hv, he]

/-- an installed operation is acknowledged first, its references are counted, it is no longer
held, and then **every** other held operation — of whatever network instance and table — is
retried, in the order of the map, with the acknowledgement already recorded -/
theorem add_installed (e : AFTEntry) (hfresh : op.Id ∉ stack) (hk : niKnown ni = true) (hv : niValid ni = true) (he : op.Entry = some e)
    (hh : hookOf e = none ∨ hookErr = none) :
    Gen.addEntryInternal self ni op niKnown niValid true orig none hookErr noFwd oks fails stack pend =
      retry self ((Map.erase pend op.Id).map (·.2)) (oks ++ [⟨op.Id⟩]) fails (op.Id :: stack) (Map.erase pend op.Id)
        ([addEff ni (decide (op.Op = AFTOperation_REPLACE)) e] ++ refEff ni orig e ++
          (match hookOf e with
           | some (aft, key) => [Eff.resolvedHook constants_Add ni aft key]
           | none => [])) := by
  rw [gen_addEntryInternal]
  cases hookE : hookOf e with
  | none => simp [addSpec, hfresh, hk, hv, he, hookE]
  | some ak =>
    obtain ⟨aft, key⟩ := ak
    cases hh with
    | inl h => simp [hookE] at h
    | inr h => subst h; simp [addSpec, hfresh, hk, hv, he, hookE]

/-- an operation already handled in this call tree is not handled again -/
theorem add_once (done : Bool) (addErr : Option Status) (h : op.Id ∈ stack) :
    Gen.addEntryInternal self ni op niKnown niValid done orig addErr hookErr noFwd oks fails stack pend =
      (none, oks, fails, stack, pend, []) := by
  rw [gen_addEntryInternal]
  simp [addSpec, h]

end

/-- the retries keep what was acknowledged before them, in order: whatever `self` does, if it only
ever appends to the acknowledgements then so does the cascade -/
theorem retry_extends (self : Self)
    (hself : ∀ ni op oks fails stack pend effs, ∃ t, (self ni op oks fails stack pend effs).2.1 = oks ++ t) :
    ∀ (l : List PendingEntry) oks fails stack pend effs, ∃ t, (retry self l oks fails stack pend effs).2.1 = oks ++ t := by
  intro l
  induction l with
  | nil => intro oks fails stack pend effs; exact ⟨[], by simp [retry]⟩
  | cons e rest ih =>
    intro oks fails stack pend effs
    obtain ⟨t1, h1⟩ := hself e.ni e.op oks fails stack pend effs
    simp only [retry]
    cases h : (self e.ni e.op oks fails stack pend effs).1 with
    | none =>
      simp only
      obtain ⟨t2, h2⟩ := ih (self e.ni e.op oks fails stack pend effs).2.1 (self e.ni e.op oks fails stack pend effs).2.2.1
        (self e.ni e.op oks fails stack pend effs).2.2.2.1 (self e.ni e.op oks fails stack pend effs).2.2.2.2.1
        (self e.ni e.op oks fails stack pend effs).2.2.2.2.2
      exact ⟨t1 ++ t2, by rw [h2, h1, List.append_assoc]⟩
    | some err => exact ⟨t1, by simpa using h1⟩

/-- `AddEntry`: an empty instance name is refused without touching anything; otherwise
`addEntryInternal` is called once, from empty result lists, and what it leaves in them is returned
**as it is** (in acknowledgement order, nothing added, dropped or reordered) — or, on a fatal
error, nothing but the error -/
theorem gen_ribAddEntry (ni : String) (op : Option AFTOperationC) (oksOut failsOut : List RibOpResult) (intErr : Option Status) :
    Gen.ribAddEntry ni op oksOut failsOut intErr =
      if ni = "" then ([], [], some ⟨.Unknown, .none⟩, [])
      else match intErr with
        | none => (oksOut, failsOut, none, [Eff.addEntryInternal ni op])
        | some e => ([], [], some e, [Eff.addEntryInternal ni op]) := by
  unfold Gen.ribAddEntry
  by_cases h : ni = "" <;> cases intErr <;> simp [h]

theorem gen_ribadd_translated :
    Gen.addEntryInternal_problem = none ∧ Gen.getPending_problem = none ∧ Gen.addPending_problem = none ∧
    Gen.rmPending_problem = none ∧ Gen.ribAddEntry_problem = none := ⟨rfl, rfl, rfl, rfl, rfl⟩

end Gribi.GenEquiv.RibAdd
