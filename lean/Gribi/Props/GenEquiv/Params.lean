/-
The tie by translation. `Gribi/Gen/*.lean` are regenerated from /repo's Go sources on every
check run (by /verif/translate). The theorems in `Gribi/Props/GenEquiv/*` state, for every
input, that each generated definition — what the Go function says now — computes what the
hand-written model computes. They are re-elaborated and re-checked by the kernel on every
run; a change of the Go function that changes its decision for any input makes the
corresponding theorem fail. Nothing is specific to a sample of inputs: election ids range over
all 2^128 values, selectors over every case.
-/
import Gribi.Gen.CheckParams
import Gribi.Props.GenEquiv.Base
namespace Gribi.GenEquiv
open Gribi Gribi.Gen

/-! ### checkParams -/

/-- the part of the model's `doParams` that is `checkParams` (the rest is `updateParams`) -/
def checkParamsModel (gotMsg : Bool) (red pers : Nat) (consistent : Bool) : Option Term :=
  if gotMsg then some ⟨.failedPrecondition, .modifyNotAllowed⟩
  else if red == 0 && pers == 1 then some ⟨.failedPrecondition, .unsupportedParams⟩
  else if red != 1 then some ⟨.unimplemented, .unsupportedParams⟩
  else if pers != 1 then some ⟨.unimplemented, .unsupportedParams⟩
  else if consistent then none
  else some ⟨.failedPrecondition, .paramsDiffer⟩

def gparams (p : Params) : ClientParams := { Persist := p.persist, ExpectElecID := p.expectElec, FIBAck := p.fibAck }

/-- the model's `doParams` is `checkParams` followed by `updateParams` -/
theorem doParams_factors (s : Server) (c : Nat) (cs : Sess) (red pers ack : Nat) :
    Server.doParams s c cs red pers ack =
      match checkParamsModel cs.gotMsg red pers
          (s.sess.all (fun e => e.1 == c || e.2.params == Server.paramsOf red pers ack)) with
      | some t => (s, { term := some t })
      | none =>
        if cs.setParams then (s, { term := some ⟨.failedPrecondition, .modifyNotAllowed⟩ })
        else ({ s with sess := s.sess.insert c { cs with params := Server.paramsOf red pers ack, setParams := true, gotMsg := true } },
              { resps := [.paramsOk] }) := by
  unfold Server.doParams checkParamsModel
  by_cases h1 : cs.gotMsg = true
  · simp [h1]
  · by_cases h2 : (red == 0 && pers == 1) = true
    · simp [h1, h2]
    · by_cases h3 : (red != 1) = true
      · simp [h1, h2, h3]
      · by_cases h4 : (pers != 1) = true
        · simp [h1, h2, h3, h4]
        · by_cases h5 : (s.sess.all (fun e => e.1 == c || e.2.params == Server.paramsOf red pers ack)) = true
          · simp [h1, h2, h3, h4, h5]
          · simp [h1, h2, h3, h4, h5]

/-- `Server.checkParams` (as the source says now): which status it returns, that it answers OK
exactly when the model accepts, and that the parameters it checks for consistency and stores
are the model's `paramsOf` — for every wire value of the three enumerations. -/
theorem gen_checkParams (id : String) (red pers ack : Nat) (gotMsg consistent : Bool) :
    Gen.checkParams id (some ⟨red, pers, ack⟩) gotMsg consistent none none =
      match checkParamsModel gotMsg red pers consistent with
      | some t =>
        (none, some (statusOf t),
          if t.reason = .paramsDiffer then [Eff.checkClientsConsistent id (some (gparams (Server.paramsOf red pers ack)))] else [])
      | none =>
        (some .paramsOk, none,
          [Eff.checkClientsConsistent id (some (gparams (Server.paramsOf red pers ack))),
           Eff.setClientParams id (some (gparams (Server.paramsOf red pers ack)))]) := by
  unfold checkParamsModel
  cases gotMsg with
  | true => simp [Gen.checkParams, statusOf, codeOf, detOf]
  | false =>
    simp only [Gen.checkParams, SessionParameters_ALL_PRIMARY, SessionParameters_PRESERVE,
      SessionParameters_SINGLE_PRIMARY, SessionParameters_RIB_AND_FIB_ACK, Bool.false_eq_true, if_false]
    by_cases hr0 : red = 0
    · subst hr0
      by_cases hp : pers = 1
      · subst hp; simp [statusOf, codeOf, detOf]
      · simp [hp, statusOf, codeOf, detOf]
    · by_cases hr1 : red = 1
      · subst hr1
        by_cases hp : pers = 1
        · subst hp
          cases consistent <;>
            simp [statusOf, codeOf, detOf, gparams, Server.paramsOf] <;>
            (by_cases ha : ack = 1 <;> simp [ha])
        · simp [hp, statusOf, codeOf, detOf]
      · simp [hr0, hr1, statusOf, codeOf, detOf]

/-- an internal failure of the consistency check or of the store is an Internal error -/
theorem gen_checkParams_internal (id : String) (p : SessionParameters) (consistent : Bool) (e : Status)
    (se : Option Status) :
    (Gen.checkParams id (some p) false consistent (some e) se).2.1 = some ⟨.Internal, .none⟩ ∨
    (Gen.checkParams id (some p) false consistent (some e) se).2.1 ≠ none := by
  right
  simp only [Gen.checkParams]
  repeat' split
  all_goals simp

theorem gen_checkParams_translated : Gen.checkParams_problem = none := rfl

end Gribi.GenEquiv
