/-
The tie by translation, the client's accounting (client/gribiclient.go): `handleModifyRequest`
(`addPendingOp`, `updatePendingElection`, `pendingSessionParams`) and `handleModifyResponse`
(`clearPendingElection`, `clearPendingSessionParams`, `clearPendingOp`). See
`Gribi/Props/GenEquiv/Base.lean`.

The generated definitions work on the client's own data (`map[uint64]*PendingOp`, the two
pending markers, the result queue of `*OpResult`); the hand-written model `Gribi.Cl` of
`Gribi/Model/Client.lean` (the one C13 and C14 are proved about) keeps of each pending operation
an `OpInfo`. The theorems below hold for *every* function `f` from the details the code reports
(`OpDetailsResults`) to `OpInfo`, for every `constants.OpFromAFTOp`, every clock value, every
message: on related states the code and the model take the same step and end in related states.

The package variable `TreatRIBACKAsCompletedInFIBACKMode` is `false` unless a caller sets it; the
model describes that setting, and the theorems are stated for it (`treat = false`).
-/
import Gribi.Gen.HandleModifyRequest
import Gribi.Gen.HandleModifyResponse
import Gribi.Gen.IsConverged
import Gribi.Gen.ClientQ
import Gribi.Model.Client
namespace Gribi.GenEquiv.Client
open Gribi Gribi.Gen

/-- `spb.AFTResult_Status` by wire number as the model's status -/
def statusOf (n : Nat) : Cl.Status :=
  if n = 1 then .failed else if n = 2 then .rib else if n = 3 then .fib else if n = 4 then .fibFailed else .other

/-- what `clearPendingOp` reports about an operation: its type and the key of its entry -/
def detOf (opFrom : Nat → Nat) (o : AFTOperationC) : OpDetailsResults :=
  let d : OpDetailsResults :=
    { Type_ := opFrom o.Op, NextHopIndex := 0, NextHopGroupID := 0, IPv4Prefix := "", IPv6Prefix := "", MPLSLabel := 0 }
  match o.Entry with
  | some (.Ipv4 e) => { d with IPv4Prefix := (e.map (·.Prefix)).getD "" }
  | some (.Ipv6 e) => { d with IPv6Prefix := (e.map (·.Prefix)).getD "" }
  | some (.Mpls e) => { d with MPLSLabel := (e.map (·.LabelUint64)).getD 0 }
  | some (.NextHopGroup e) => { d with NextHopGroupID := (e.map (·.Id)).getD 0 }
  | some (.NextHop e) => { d with NextHopIndex := (e.map (·.Index)).getD 0 }
  | none => d

section
variable (f : OpDetailsResults → Cl.OpInfo) (opFrom : Nat → Nat)

/-- the model's view of an operation of a request -/
def opOf (o : AFTOperationC) : Nat × Cl.OpInfo := (o.Id, f (detOf opFrom o))

/-- the model's pending set -/
def absPend (m : Map Nat PendingOp) : Map Nat Cl.OpInfo := m.map (fun e => (e.1, f (detOf opFrom e.2.Op)))

/-- the model's view of a result -/
def absRes (r : COpResult) : Cl.Res :=
  if r.CurrentServerElectionID.isSome then { isElec := true, clientErr := r.ClientError != "" }
  else if r.SessionParameters.isSome then { isParams := true, clientErr := r.ClientError != "" }
  else { opId := r.OperationID, status := some (statusOf r.ProgrammingResult), details := r.Details.map f }

def absResq (q : List (Option COpResult)) : List (Option Cl.Res) := q.map (·.map (absRes f))

/-- the model's view of a request -/
def absReq (m : ModifyRequestC) : Cl.Req :=
  { ops := m.Operation.map (opOf f opFrom), elec := m.ElectionId.isSome, params := m.Params.isSome }

/-- the model's view of a response -/
def absResp (m : ModifyResponseC) : Cl.Resp :=
  { results := (m.Result.getD []).map (fun r => (r.Id, statusOf r.Status)), hasResults := m.Result.isSome,
    elec := m.ElectionId.isSome, params := m.SessionParamsResult.isSome }

theorem get?_absPend (m : Map Nat PendingOp) (k : Nat) :
    Map.get? (absPend f opFrom m) k = (Map.get? m k).map (fun p => f (detOf opFrom p.Op)) := by
  induction m with
  | nil => simp [absPend]
  | cons e t ih =>
    obtain ⟨a, b⟩ := e
    simp only [absPend, List.map_cons, Map.get?_cons] at ih ⊢
    by_cases h : a = k <;> simp [h, ih]

theorem erase_absPend (m : Map Nat PendingOp) (k : Nat) :
    Map.erase (absPend f opFrom m) k = absPend f opFrom (Map.erase m k) := by
  induction m with
  | nil => simp [absPend, Map.erase]
  | cons e t ih =>
    obtain ⟨a, b⟩ := e
    simp only [absPend, Map.erase, List.map_cons, List.filter_cons] at ih ⊢
    by_cases h : a = k <;> simp [h, ih]

theorem insert_absPend (m : Map Nat PendingOp) (k : Nat) (p : PendingOp) :
    Map.insert (absPend f opFrom m) k (f (detOf opFrom p.Op)) = absPend f opFrom (Map.insert m k p) := by
  unfold Map.insert
  rw [erase_absPend]
  simp [absPend]

/-! ### the request side -/

/-- `addPendingOp`: refused when the id is pending, otherwise the operation is recorded under its id -/
theorem gen_addPendingOp (op : AFTOperationC) (now : Int) (pend : Map Nat PendingOp) :
    Gen.addPendingOp op now pend =
      if (absPend f opFrom pend).has op.Id then (some ⟨.Unknown, .none⟩, pend)
      else (none, Map.insert pend op.Id ⟨now, op⟩) := by
  simp only [Gen.addPendingOp, Map.has, get?_absPend]
  cases h : Map.get? pend op.Id <;> simp

/-- the loop of `handleModifyRequest` is the model's `addOps`, and the code after the loop sets the
two markers -/
theorem request_loop (m : ModifyRequestC) (now : Int) (pe : Option ElectionReqDetails) (pp : Option SessionParamReqDetails)
    (log : List (Nat × Cl.OpInfo)) :
    ∀ (ops : List AFTOperationC) (pend : Map Nat PendingOp),
      let r := handleModifyRequest.loop1 m now pe pp ops pend
      let a := Cl.addOps (absPend f opFrom pend) log (ops.map (opOf f opFrom))
      absPend f opFrom r.2.1 = a.1 ∧ r.1.isNone = a.2.2 ∧
      (a.2.2 = true → r.2.2.1.isSome = (pe.isSome || m.ElectionId.isSome) ∧ r.2.2.2.isSome = (pp.isSome || m.Params.isSome)) ∧
      (a.2.2 = false → r.2.2.1 = pe ∧ r.2.2.2 = pp) := by
  intro ops
  induction ops generalizing log with
  | nil =>
    intro pend
    unfold handleModifyRequest.loop1
    simp only [List.map_nil, Cl.addOps]
    cases he : m.ElectionId <;> cases hp : m.Params <;>
      simp [Gen.updatePendingElection, Gen.pendingSessionParams]
  | cons o rest ih =>
    intro pend
    unfold handleModifyRequest.loop1
    simp only [List.map_cons, opOf, Cl.addOps, gen_addPendingOp f opFrom]
    by_cases h : (absPend f opFrom pend).has o.Id = true
    · simp [h]
    · simp only [h, Bool.false_eq_true, if_false]
      have := ih (log ++ [(o.Id, f (detOf opFrom o))]) (Map.insert pend o.Id ⟨now, o⟩)
      rw [← insert_absPend] at this
      simpa [opOf] using this

/-- `handleModifyRequest` = the accounting half of the model's `q` -/
theorem gen_handleModifyRequest (m : ModifyRequestC) (now : Int) (pend : Map Nat PendingOp)
    (pe : Option ElectionReqDetails) (pp : Option SessionParamReqDetails) (log : List (Nat × Cl.OpInfo)) :
    let r := Gen.handleModifyRequest m now pend pe pp
    let a := Cl.addOps (absPend f opFrom pend) log ((absReq f opFrom m).ops)
    absPend f opFrom r.2.1 = a.1 ∧ r.1.isNone = a.2.2 ∧
    (a.2.2 = true → r.2.2.1.isSome = (pe.isSome || (absReq f opFrom m).elec) ∧ r.2.2.2.isSome = (pp.isSome || (absReq f opFrom m).params)) ∧
    (a.2.2 = false → r.2.2.1 = pe ∧ r.2.2.2 = pp) :=
  request_loop f opFrom m now pe pp log m.Operation pend

end

/-! ### the response side -/

/-- the session negotiated RIB_AND_FIB_ACK -/
def fibMode (sp : Option SessionParameters) : Bool := (sp.map (·.AckType)).getD 0 == SessionParameters_RIB_AND_FIB_ACK

/-- the status ends the operation -/
def terminalN (fib : Bool) (st : Nat) : Bool :=
  st = AFTResult_FIB_FAILED || st = AFTResult_FIB_PROGRAMMED || st = AFTResult_FAILED || (st = AFTResult_RIB_PROGRAMMED && !fib)

/-- `clearPendingOp` said directly -/
def clearSpec (opFrom : Nat → Nat) (op : AFTResultC) (now : Int) (sp : Option SessionParameters) (pend : Map Nat PendingOp) :
    Option COpResult × Option Status × Map Nat PendingOp :=
  match Map.get? pend op.Id with
  | none =>
    if op.Status = AFTResult_RIB_PROGRAMMED ∧ fibMode sp = true then
      (some { Timestamp := now, Latency := 0, CurrentServerElectionID := none, SessionParameters := none, OperationID := op.Id,
              ClientError := "", ServerError := "", ProgrammingResult := op.Status, Details := none }, none, pend)
    else (none, some ⟨.Unknown, .none⟩, pend)
  | some p =>
    (some { Timestamp := now, Latency := now - p.Timestamp, CurrentServerElectionID := none, SessionParameters := none,
            OperationID := op.Id, ClientError := "", ServerError := (op.ErrorDetails.map (·.ErrorMessage)).getD "",
            ProgrammingResult := op.Status, Details := some (detOf opFrom p.Op) }, none,
     if terminalN (fibMode sp) op.Status then Map.erase pend op.Id else pend)

theorem gen_clearPendingOp (opFrom : Nat → Nat) (op : AFTResultC) (now : Int) (sp : Option SessionParameters) (pend : Map Nat PendingOp) :
    Gen.clearPendingOp op now false sp opFrom pend = clearSpec opFrom op now sp pend := by
  unfold Gen.clearPendingOp clearSpec
  simp only [Bool.false_eq_true, if_false]
  cases hg : Map.get? pend op.Id with
  | none =>
    simp only [fibMode]
    by_cases h1 : op.Status = AFTResult_FIB_PROGRAMMED
    · simp [h1, AFTResult_FIB_PROGRAMMED, AFTResult_RIB_PROGRAMMED]
    · by_cases h2 : op.Status = AFTResult_RIB_PROGRAMMED
      · by_cases h3 : (sp.map (·.AckType)).getD 0 = SessionParameters_RIB_AND_FIB_ACK <;> simp [h2, h3]
      · simp [h1, h2]
  | some p =>
    simp only [fibMode, terminalN, detOf]
    by_cases h1 : op.Status = AFTResult_FIB_FAILED
    · cases he : p.Op.Entry with
      | none => simp [h1]
      | some e => cases e <;> simp [h1]
    · by_cases h2 : op.Status = AFTResult_FIB_PROGRAMMED
      · cases he : p.Op.Entry with
        | none => simp [h2]
        | some e => cases e <;> simp [h2]
      · by_cases h3 : op.Status = AFTResult_RIB_PROGRAMMED
        · by_cases h4 : (sp.map (·.AckType)).getD 0 = SessionParameters_RIB_AND_FIB_ACK
          · cases he : p.Op.Entry with
            | none => simp [h3, h4, AFTResult_RIB_PROGRAMMED, AFTResult_FIB_FAILED, AFTResult_FIB_PROGRAMMED, AFTResult_FAILED]
            | some e => cases e <;> simp [h3, h4, AFTResult_RIB_PROGRAMMED, AFTResult_FIB_FAILED, AFTResult_FIB_PROGRAMMED, AFTResult_FAILED]
          · cases he : p.Op.Entry with
            | none => simp [h3, h4, AFTResult_RIB_PROGRAMMED, AFTResult_FIB_FAILED, AFTResult_FIB_PROGRAMMED, AFTResult_FAILED]
            | some e => cases e <;> simp [h3, h4, AFTResult_RIB_PROGRAMMED, AFTResult_FIB_FAILED, AFTResult_FIB_PROGRAMMED, AFTResult_FAILED]
        · by_cases h5 : op.Status = AFTResult_FAILED
          · cases he : p.Op.Entry with
            | none => simp [h5, AFTResult_RIB_PROGRAMMED, AFTResult_FIB_FAILED, AFTResult_FIB_PROGRAMMED, AFTResult_FAILED]
            | some e => cases e <;> simp [h5, AFTResult_RIB_PROGRAMMED, AFTResult_FIB_FAILED, AFTResult_FIB_PROGRAMMED, AFTResult_FAILED]
          · cases he : p.Op.Entry with
            | none => simp [h1, h2, h3, h5]
            | some e => cases e <;> simp [h1, h2, h3, h5]

/-- the loop over the results of a response, said directly: every result is cleared in turn and
its `OpResult` (nil when the clearing fails) is appended; the first failure ends the loop -/
def clearLoop (opFrom : Nat → Nat) (now : Int) (sp : Option SessionParameters) :
    List AFTResultC → Map Nat PendingOp → List (Option COpResult) → Option Status × Map Nat PendingOp × List (Option COpResult)
  | [], pend, rq => (none, pend, rq)
  | r :: rest, pend, rq =>
    let c := clearSpec opFrom r now sp pend
    match c.2.1 with
    | none => clearLoop opFrom now sp rest c.2.2 (rq ++ [c.1])
    | some _ => (some ⟨.Unknown, .none⟩, c.2.2, rq ++ [c.1])

theorem loop2_eq (opFrom : Nat → Nat) (now : Int) (sp : Option SessionParameters) (pe : Option ElectionReqDetails) (pp : Option SessionParamReqDetails) :
    ∀ (l : List AFTResultC) (pend : Map Nat PendingOp) (rq : List (Option COpResult)),
      handleModifyResponse.loop1.loop2 now false sp opFrom pe pp l pend rq =
        ((clearLoop opFrom now sp l pend rq).1, (clearLoop opFrom now sp l pend rq).2.1, pe, pp, (clearLoop opFrom now sp l pend rq).2.2) := by
  intro l
  induction l with
  | nil => intro pend rq; simp [handleModifyResponse.loop1.loop2, clearLoop]
  | cons r rest ih =>
    intro pend rq
    unfold handleModifyResponse.loop1.loop2
    simp only [gen_clearPendingOp, clearLoop]
    cases h : (clearSpec opFrom r now sp pend).2.1 <;> simp [ih]

theorem loop3_eq (opFrom : Nat → Nat) (now : Int) (sp : Option SessionParameters) (pe : Option ElectionReqDetails) (pp : Option SessionParamReqDetails) :
    ∀ (l : List AFTResultC) (pend : Map Nat PendingOp) (rq : List (Option COpResult)),
      handleModifyResponse.loop1.loop3 now false sp opFrom pe pp l pend rq =
        ((clearLoop opFrom now sp l pend rq).1, (clearLoop opFrom now sp l pend rq).2.1, pe, pp, (clearLoop opFrom now sp l pend rq).2.2) := by
  intro l
  induction l with
  | nil => intro pend rq; simp [handleModifyResponse.loop1.loop3, clearLoop]
  | cons r rest ih =>
    intro pend rq
    unfold handleModifyResponse.loop1.loop3
    simp only [gen_clearPendingOp, clearLoop]
    cases h : (clearSpec opFrom r now sp pend).2.1 <;> simp [ih]

theorem loop4_eq (opFrom : Nat → Nat) (now : Int) (sp : Option SessionParameters) (pe : Option ElectionReqDetails) (pp : Option SessionParamReqDetails) :
    ∀ (l : List AFTResultC) (pend : Map Nat PendingOp) (rq : List (Option COpResult)),
      handleModifyResponse.loop1.loop4 now false sp opFrom pp pe l pend rq =
        ((clearLoop opFrom now sp l pend rq).1, (clearLoop opFrom now sp l pend rq).2.1, pe, pp, (clearLoop opFrom now sp l pend rq).2.2) := by
  intro l
  induction l with
  | nil => intro pend rq; simp [handleModifyResponse.loop1.loop4, clearLoop]
  | cons r rest ih =>
    intro pend rq
    unfold handleModifyResponse.loop1.loop4
    simp only [gen_clearPendingOp, clearLoop]
    cases h : (clearSpec opFrom r now sp pend).2.1 <;> simp [ih]

theorem loop5_eq (opFrom : Nat → Nat) (now : Int) (sp : Option SessionParameters) (pe : Option ElectionReqDetails) (pp : Option SessionParamReqDetails) :
    ∀ (l : List AFTResultC) (pend : Map Nat PendingOp) (rq : List (Option COpResult)),
      handleModifyResponse.loop1.loop5 now false sp opFrom pe pp l pend rq =
        ((clearLoop opFrom now sp l pend rq).1, (clearLoop opFrom now sp l pend rq).2.1, pe, pp, (clearLoop opFrom now sp l pend rq).2.2) := by
  intro l
  induction l with
  | nil => intro pend rq; simp [handleModifyResponse.loop1.loop5, clearLoop]
  | cons r rest ih =>
    intro pend rq
    unfold handleModifyResponse.loop1.loop5
    simp only [gen_clearPendingOp, clearLoop]
    cases h : (clearSpec opFrom r now sp pend).2.1 <;> simp [ih]


section
variable (f : OpDetailsResults → Cl.OpInfo) (opFrom : Nat → Nat)

/-- the model's state `s` describes the client's data -/
structure Rel (s : Cl.State) (sp : Option SessionParameters) (pend : Map Nat PendingOp)
    (pe : Option ElectionReqDetails) (pp : Option SessionParamReqDetails) (rq : List (Option COpResult)) : Prop where
  fib : s.fibMode = fibMode sp
  pend : s.pendOps = absPend f opFrom pend
  elec : s.pendElec = pe.isSome
  params : s.pendParams = pp.isSome
  res : s.results = absResq f rq

theorem statusOf_rib (n : Nat) : statusOf n = .rib ↔ n = AFTResult_RIB_PROGRAMMED := by
  unfold statusOf AFTResult_RIB_PROGRAMMED
  by_cases h1 : n = 1
  · simp [h1]
  · by_cases h2 : n = 2
    · simp [h2]
    · by_cases h3 : n = 3
      · simp [h3]
      · by_cases h4 : n = 4 <;> simp [h1, h2, h3, h4]

theorem terminal_eq (fib : Bool) (n : Nat) : Cl.terminal fib (statusOf n) = terminalN fib n := by
  unfold statusOf terminalN AFTResult_FIB_FAILED AFTResult_FIB_PROGRAMMED AFTResult_FAILED AFTResult_RIB_PROGRAMMED
  by_cases h1 : n = 1
  · simp [h1, Cl.terminal]
  · by_cases h2 : n = 2
    · simp [h2, Cl.terminal]
    · by_cases h3 : n = 3
      · simp [h3, Cl.terminal]
      · by_cases h4 : n = 4 <;> simp [h1, h2, h3, h4, Cl.terminal]

/-- one result: `clearPendingOp` and appending its `OpResult` = the model's `clearOp` -/
theorem clearOp_rel {s : Cl.State} {sp : Option SessionParameters} {pend : Map Nat PendingOp}
    {pe : Option ElectionReqDetails} {pp : Option SessionParamReqDetails} {rq : List (Option COpResult)}
    (h : Rel f opFrom s sp pend pe pp rq) (r : AFTResultC) (now : Int) :
    Rel f opFrom (Cl.clearOp s (r.Id, statusOf r.Status)).1 sp (clearSpec opFrom r now sp pend).2.2 pe pp
        (rq ++ [(clearSpec opFrom r now sp pend).1]) ∧
      (Cl.clearOp s (r.Id, statusOf r.Status)).2 = (clearSpec opFrom r now sp pend).2.1.isNone := by
  obtain ⟨hf, hp, he, hpp, hr⟩ := h
  rcases s with ⟨fibM, sending, sendq, pendOps, pendElec, pendParams, results, sendErrs, recvErrs, accepted⟩
  simp only at hf hp he hpp hr
  subst hf hp he hpp hr
  unfold Cl.clearOp clearSpec
  simp only [get?_absPend]
  cases hg : Map.get? pend r.Id with
  | none =>
    simp only [Option.map_none, statusOf_rib]
    by_cases hc : r.Status = AFTResult_RIB_PROGRAMMED ∧ fibMode sp = true
    · simp only [hc, and_self, if_true]
      refine ⟨⟨hc.2.symm, rfl, rfl, rfl, ?_⟩, rfl⟩
      simp [absResq, absRes]
    · simp only [hc, if_false]
      refine ⟨⟨rfl, rfl, rfl, rfl, ?_⟩, rfl⟩
      simp [absResq]
  | some p =>
    simp only [Option.map_some, terminal_eq]
    refine ⟨⟨rfl, ?_, rfl, rfl, ?_⟩, rfl⟩
    · by_cases ht : terminalN (fibMode sp) r.Status = true
      · simp [ht, erase_absPend]
      · simp [ht]
    · simp [absResq, absRes]

/-- the loop over the results = the model's `clearOps` -/
theorem clearOps_rel (sp : Option SessionParameters) (pe : Option ElectionReqDetails) (pp : Option SessionParamReqDetails) (now : Int) :
    ∀ (l : List AFTResultC) (s : Cl.State) (pend : Map Nat PendingOp) (rq : List (Option COpResult)),
      Rel f opFrom s sp pend pe pp rq →
      Rel f opFrom (Cl.clearOps s (l.map (fun r => (r.Id, statusOf r.Status)))).1 sp (clearLoop opFrom now sp l pend rq).2.1 pe pp
          (clearLoop opFrom now sp l pend rq).2.2 ∧
        (Cl.clearOps s (l.map (fun r => (r.Id, statusOf r.Status)))).2 = (clearLoop opFrom now sp l pend rq).1.isNone := by
  intro l
  induction l with
  | nil => intro s pend rq h; simpa [Cl.clearOps, clearLoop] using h
  | cons r rest ih =>
    intro s pend rq h
    have h1 := clearOp_rel f opFrom h r now
    simp only [List.map_cons, Cl.clearOps, clearLoop]
    cases hc : (clearSpec opFrom r now sp pend).2.1 with
    | none =>
      rw [hc] at h1
      have h2 : (Cl.clearOp s (r.Id, statusOf r.Status)).2 = true := by simpa using h1.2
      simp only [h2, if_true]
      exact ih _ _ _ h1.1
    | some e =>
      rw [hc] at h1
      have h2 : (Cl.clearOp s (r.Id, statusOf r.Status)).2 = false := by simpa using h1.2
      simp only [h2, Bool.false_eq_true, if_false]
      exact ⟨h1.1, rfl⟩

end

section
variable (f : OpDetailsResults → Cl.OpInfo) (opFrom : Nat → Nat)

/-- a nil response is refused and nothing changes -/
theorem gen_handleModifyResponse_nil (now : Int) (sp : Option SessionParameters) (pend : Map Nat PendingOp)
    (pe : Option ElectionReqDetails) (pp : Option SessionParamReqDetails) (rq : List (Option COpResult)) :
    Gen.handleModifyResponse none now false sp opFrom pend pe pp rq = (some ⟨.Unknown, .none⟩, pend, pe, pp, rq) := rfl

/-- an election id in the response: the pending election is cleared and a result is appended -/
def stepElec (now : Int) (m : ModifyResponseC) (pe : Option ElectionReqDetails) (rq : List (Option COpResult)) :
    Option ElectionReqDetails × List (Option COpResult) :=
  match m.ElectionId with
  | none => (pe, rq)
  | some e => ((Gen.clearPendingElection now pe).2,
      rq ++ [some { (Gen.clearPendingElection now pe).1 with CurrentServerElectionID := some e }])

/-- a session-parameters result in the response -/
def stepParams (now : Int) (m : ModifyResponseC) (pp : Option SessionParamReqDetails) (rq : List (Option COpResult)) :
    Option SessionParamReqDetails × List (Option COpResult) :=
  match m.SessionParamsResult with
  | none => (pp, rq)
  | some r => ((Gen.clearPendingSessionParams now pp).2,
      rq ++ [some { (Gen.clearPendingSessionParams now pp).1 with SessionParameters := some r }])

/-- the shape of `handleModifyResponse`: a message with more than one of the three fields is
refused; otherwise election, parameters and results are handled in this order -/
theorem gen_response_shape (m : ModifyResponseC) (now : Int) (sp : Option SessionParameters) (pend : Map Nat PendingOp)
    (pe : Option ElectionReqDetails) (pp : Option SessionParamReqDetails) (rq : List (Option COpResult)) :
    Gen.handleModifyResponse (some m) now false sp opFrom pend pe pp rq =
      if Cl.populated (absResp m) > 1 then (some ⟨.Unknown, .none⟩, pend, pe, pp, rq)
      else
        let e := stepElec now m pe rq
        let p := stepParams now m pp e.2
        let r := clearLoop opFrom now sp (m.Result.getD []) pend p.2
        (r.1, r.2.1, e.1, p.1, r.2.2) := by
  obtain ⟨res, el, sr⟩ := m
  cases res <;> cases el <;> cases sr <;>
    simp [Gen.handleModifyResponse, handleModifyResponse.loop1, loop2_eq, loop3_eq, loop4_eq, absResp,
      Cl.populated, stepElec, stepParams]

theorem noteElec_rel {s : Cl.State} {sp : Option SessionParameters} {pend : Map Nat PendingOp}
    {pe : Option ElectionReqDetails} {pp : Option SessionParamReqDetails} {rq : List (Option COpResult)}
    (h : Rel f opFrom s sp pend pe pp rq) (m : ModifyResponseC) (now : Int) :
    Rel f opFrom (Cl.noteElec s (absResp m)) sp pend (stepElec now m pe rq).1 pp (stepElec now m pe rq).2 := by
  obtain ⟨hf, hp, he, hpp, hr⟩ := h
  unfold Cl.noteElec stepElec absResp
  cases hm : m.ElectionId with
  | none => simpa using ⟨hf, hp, he, hpp, hr⟩
  | some e =>
    cases pe with
    | none => refine ⟨hf, hp, ?_, hpp, ?_⟩ <;> simp_all [Gen.clearPendingElection, absResq, absRes]
    | some d => refine ⟨hf, hp, ?_, hpp, ?_⟩ <;> simp_all [Gen.clearPendingElection, absResq, absRes]

theorem noteParams_rel {s : Cl.State} {sp : Option SessionParameters} {pend : Map Nat PendingOp}
    {pe : Option ElectionReqDetails} {pp : Option SessionParamReqDetails} {rq : List (Option COpResult)}
    (h : Rel f opFrom s sp pend pe pp rq) (m : ModifyResponseC) (now : Int) :
    Rel f opFrom (Cl.noteParams s (absResp m)) sp pend pe (stepParams now m pp rq).1 (stepParams now m pp rq).2 := by
  obtain ⟨hf, hp, he, hpp, hr⟩ := h
  unfold Cl.noteParams stepParams absResp
  cases hm : m.SessionParamsResult with
  | none => simpa using ⟨hf, hp, he, hpp, hr⟩
  | some e =>
    cases pp with
    | none => refine ⟨hf, hp, he, ?_, ?_⟩ <;> simp_all [Gen.clearPendingSessionParams, absResq, absRes]
    | some d => refine ⟨hf, hp, he, ?_, ?_⟩ <;> simp_all [Gen.clearPendingSessionParams, absResq, absRes]

/-- `handleModifyResponse` = the model's `recv`: on related states the code and the model end in
related states, and the code returns an error exactly when the model's receiver stops -/
theorem gen_handleModifyResponse {s : Cl.State} {sp : Option SessionParameters} {pend : Map Nat PendingOp}
    {pe : Option ElectionReqDetails} {pp : Option SessionParamReqDetails} {rq : List (Option COpResult)}
    (h : Rel f opFrom s sp pend pe pp rq) (m : ModifyResponseC) (now : Int) :
    Rel f opFrom (Cl.recv s (absResp m)).1 sp
        (Gen.handleModifyResponse (some m) now false sp opFrom pend pe pp rq).2.1
        (Gen.handleModifyResponse (some m) now false sp opFrom pend pe pp rq).2.2.1
        (Gen.handleModifyResponse (some m) now false sp opFrom pend pe pp rq).2.2.2.1
        (Gen.handleModifyResponse (some m) now false sp opFrom pend pe pp rq).2.2.2.2 ∧
      (Cl.recv s (absResp m)).2 = (Gen.handleModifyResponse (some m) now false sp opFrom pend pe pp rq).1.isNone := by
  have hkeep : ∀ (s' : Cl.State) (n : Nat) pend' pe' pp' rq', Rel f opFrom s' sp pend' pe' pp' rq' →
      Rel f opFrom { s' with recvErrs := n } sp pend' pe' pp' rq' := by
    intro s' n pend' pe' pp' rq' h'
    exact ⟨h'.fib, h'.pend, h'.elec, h'.params, h'.res⟩
  rw [gen_response_shape]
  unfold Cl.recv
  by_cases hpop : Cl.populated (absResp m) > 1
  · simp only [hpop, if_true]
    exact ⟨hkeep _ _ _ _ _ _ h, rfl⟩
  · simp only [hpop, if_false]
    have h1 := noteElec_rel f opFrom h m now
    have h2 := noteParams_rel f opFrom h1 m now
    have h3 := clearOps_rel f opFrom sp _ _ now (m.Result.getD []) _ _ _ h2
    have hres : (absResp m).results = (m.Result.getD []).map (fun r => (r.Id, statusOf r.Status)) := rfl
    rw [hres]
    cases hok : (Cl.clearOps (Cl.noteParams (Cl.noteElec s (absResp m)) (absResp m))
        ((m.Result.getD []).map (fun r => (r.Id, statusOf r.Status)))).2 with
    | true =>
      simp only [if_true]
      exact ⟨h3.1, by rw [← h3.2, hok]⟩
    | false =>
      simp only [Bool.false_eq_true, if_false]
      exact ⟨hkeep _ _ _ _ _ _ h3.1, by rw [← h3.2, hok]⟩

end

/-! ### convergence -/

/-- `pendingQueue.Len` counts the pending operations and the two markers -/
theorem gen_pendingQueueLen (q : PendingQueue) :
    Gen.pendingQueueLen (some q) = q.Ops.length + (if q.Election.isSome then 1 else 0) + (if q.SessionParams.isSome then 1 else 0) := by
  obtain ⟨ops, el, sp⟩ := q
  unfold Gen.pendingQueueLen
  cases sp <;> cases el <;> simp <;> omega

/-- `isConverged` is the model's test: nothing queued to be sent, nothing pending -/
theorem gen_isConverged (f : OpDetailsResults → Cl.OpInfo) (opFrom : Nat → Nat) (sendq : List ModifyRequestC) (q : PendingQueue) :
    Gen.isConverged sendq (some q) =
      decide (sendq.map (absReq f opFrom) = [] ∧ absPend f opFrom q.Ops = [] ∧ (!q.Election.isSome) = true ∧ (!q.SessionParams.isSome) = true) := by
  obtain ⟨ops, el, sp⟩ := q
  unfold Gen.isConverged
  rw [gen_pendingQueueLen]
  rw [Bool.eq_iff_iff]
  cases sendq <;> cases ops <;> cases el <;> cases sp <;> simp [absPend]

/-- with it, one round of `AwaitConverged` on an error-free client is the model's `await` -/
theorem gen_await_converged (f : OpDetailsResults → Cl.OpInfo) (opFrom : Nat → Nat) (s : Cl.State) (sendq : List ModifyRequestC) (q : PendingQueue)
    (hq : s.sendq = sendq.map (absReq f opFrom)) (hp : s.pendOps = absPend f opFrom q.Ops)
    (he : s.pendElec = q.Election.isSome) (hpp : s.pendParams = q.SessionParams.isSome)
    (hs : s.sendErrs = 0) (hr : s.recvErrs = 0) :
    Cl.await s = if Gen.isConverged sendq (some q) then .converged else .notYet := by
  rw [gen_isConverged f opFrom]
  unfold Cl.await
  simp [hq, hp, he, hpp, hs, hr]


/-! ### `Q` -/

def isSendErr : Eff → Bool
  | .addSendErr _ => true
  | _ => false

/-- `Q` = the model's `q`: the accounting of `handleModifyRequest`, an error recorded as a send
error, and the request appended to the send queue exactly when the client is not sending yet
(otherwise it is handed to the sender) -/
theorem gen_clientQ (f : OpDetailsResults → Cl.OpInfo) (opFrom : Nat → Nat) {s : Cl.State} {sp : Option SessionParameters}
    {pend : Map Nat PendingOp} {pe : Option ElectionReqDetails} {pp : Option SessionParamReqDetails} {rq : List (Option COpResult)}
    (h : Rel f opFrom s sp pend pe pp rq) (sendq : List ModifyRequestC) (hq : s.sendq = sendq.map (absReq f opFrom))
    (m : ModifyRequestC) (now : Int) :
    Rel f opFrom (Cl.q s (absReq f opFrom m)) sp
        (Gen.clientQ m now s.sending pend pe pp sendq).1 (Gen.clientQ m now s.sending pend pe pp sendq).2.1
        (Gen.clientQ m now s.sending pend pe pp sendq).2.2.1 rq ∧
      (Cl.q s (absReq f opFrom m)).sendq = (Gen.clientQ m now s.sending pend pe pp sendq).2.2.2.1.map (absReq f opFrom) ∧
      (Cl.q s (absReq f opFrom m)).sending = s.sending ∧
      (Cl.q s (absReq f opFrom m)).sendErrs = s.sendErrs + ((Gen.clientQ m now s.sending pend pe pp sendq).2.2.2.2.filter isSendErr).length ∧
      (Eff.clientq (some m) ∈ (Gen.clientQ m now s.sending pend pe pp sendq).2.2.2.2 ↔ s.sending = true) := by
  have hm := gen_handleModifyRequest f opFrom m now pend pe pp s.accepted
  obtain ⟨hf, hp, he, hpp, hr⟩ := h
  simp only at hm
  obtain ⟨h1, h2, h3, h4⟩ := hm
  unfold Gen.clientQ Cl.q
  simp only [hp]
  cases hok : (Cl.addOps (absPend f opFrom pend) s.accepted (absReq f opFrom m).ops).2.2 with
  | true =>
    rw [hok] at h2 h3
    have hnone : (Gen.handleModifyRequest m now pend pe pp).1 = none := by
      cases hx : (Gen.handleModifyRequest m now pend pe pp).1 <;> simp_all
    obtain ⟨h3a, h3b⟩ := h3 rfl
    simp only [hnone]
    cases hs : s.sending <;>
      (refine ⟨⟨hf, h1.symm, ?_, ?_, hr⟩, ?_, ?_, ?_, ?_⟩ <;> simp_all [isSendErr])
  | false =>
    rw [hok] at h2 h4
    obtain ⟨e, hsome⟩ : ∃ e, (Gen.handleModifyRequest m now pend pe pp).1 = some e := by
      cases hx : (Gen.handleModifyRequest m now pend pe pp).1 <;> simp_all
    obtain ⟨h4a, h4b⟩ := h4 rfl
    simp only [hsome]
    cases hs : s.sending <;>
      (refine ⟨⟨hf, h1.symm, ?_, ?_, hr⟩, ?_, ?_, ?_, ?_⟩ <;> first | rfl | simp_all)

theorem gen_client_translated :
    Gen.addPendingOp_problem = none ∧ Gen.updatePendingElection_problem = none ∧ Gen.pendingSessionParams_problem = none ∧
    Gen.handleModifyRequest_problem = none ∧ Gen.clearPendingElection_problem = none ∧
    Gen.clearPendingSessionParams_problem = none ∧ Gen.clearPendingOp_problem = none ∧
    Gen.handleModifyResponse_problem = none ∧ Gen.pendingQueueLen_problem = none ∧ Gen.isConverged_problem = none ∧
    Gen.clientQ_problem = none :=
  ⟨rfl, rfl, rfl, rfl, rfl, rfl, rfl, rfl, rfl, rfl, rfl⟩

end Gribi.GenEquiv.Client
