/-
`rib.Flush` against the model, for the group counters. `RibFlush.flush_unref_count` counts the
`decNHGRefCount` calls the code makes; here those calls are applied to the model's counter map
(`RibRef.applyEffs`) with the tables read from the model's own entries, and the result is compared
with what the model's `flushNI` leaves: for every group of every instance the two counters are
equal — whatever the order in which the code walks its tables and the model its entries (`dec`
stops at zero, so the counter after any sequence of decrements is the counter before minus their
number, truncated). This is the clause "leaves deletion protection consistent with what remains"
of C08, on the code's own calls.
-/
import Gribi.Props.GenEquiv.RibFlush
import Gribi.Props.GenEquiv.RibRef
namespace Gribi.GenEquiv.FlushModel
open Gribi Gribi.Gen Gribi.GenEquiv.RibRef Gribi.GenEquiv.RibFlush

/-- applying a list of calls to the model changes the counter of group `k` by the number of
`decNHGRefCount(k)` among them, when no call in the list increments a group counter -/
theorem cnt_applyEffs (k : Rib.CKey) : ∀ (l : List Eff) (s : Rib), (∀ e ∈ l, ∀ ni id, e ≠ Eff.incNHGRef ni id) →
    Rib.cnt (applyEffs s l).nhgRef k = Rib.cnt s.nhgRef k - l.count (Eff.decNHGRef k.1 k.2) := by
  intro l
  induction l with
  | nil => intro s _; simp [applyEffs]
  | cons e t ih =>
    intro s h
    have ht : ∀ e ∈ t, ∀ ni id, e ≠ Eff.incNHGRef ni id := fun e he => h e (List.mem_cons_of_mem _ he)
    have he := h e (List.mem_cons_self ..)
    simp only [applyEffs, List.foldl_cons] at ih ⊢
    rw [ih _ ht]
    cases e with
    | decNHGRef ni id =>
      simp only [applyEff, Rib.cnt_dec, List.count_cons]
      by_cases hk : k = (ni, id)
      · subst hk; simp; omega
      · have : ¬ (Eff.decNHGRef ni id == Eff.decNHGRef k.1 k.2) = true := by
          intro e; simp at e; exact hk (by rcases k with ⟨a, b⟩; simp_all)
        simp [hk, this]
    | incNHGRef ni id => exact absurd rfl (he ni id)
    | _ => simp [applyEff]

/-- the model's flush of one instance changes the counter of group `k` by the number of the
instance's IPv4, IPv6 and MPLS entries that point at it (in an instance the RIB has) -/
theorem cnt_unref_fold (ni : NI) (k : Rib.CKey) : ∀ (l : List (EKey × Payload)) (s : Rib),
    Rib.cnt (l.foldl (fun s e => Rib.unref s ni e.1.2 e.2) s).nhgRef k =
      Rib.cnt s.nhgRef k -
        l.countP (fun e => e.1.2.isTop && s.hasNI (Rib.tgtNI ni e.2) && decide ((Rib.tgtNI ni e.2, e.2.grp) = k)) := by
  intro l
  induction l with
  | nil => intro s; simp
  | cons e t ih =>
    intro s
    simp only [List.foldl_cons, List.countP_cons]
    rw [ih]
    have hni : ∀ x, (Rib.unref s ni e.1.2 e.2).hasNI x = s.hasNI x := by
      intro x
      unfold Rib.unref Rib.decG
      cases e.1.2 <;> simp [Rib.hasNI] <;> split <;> rfl
    simp only [hni]
    cases hk : e.1.2 with
    | nh i => simp [Rib.unref, Key.isTop]
    | nhg g => simp [Rib.unref, Key.isTop]
    | v4 p | v6 p | mpls p =>
      simp only [Rib.unref, Rib.decG, Key.isTop, Bool.true_and]
      by_cases hh : s.hasNI (Rib.tgtNI ni e.2) = true
      · simp only [hh, if_true, Rib.cnt_dec, Bool.true_and]
        by_cases hkk : (Rib.tgtNI ni e.2, e.2.grp) = k
        · subst hkk; simp; omega
        · have : ¬ k = (Rib.tgtNI ni e.2, e.2.grp) := fun x => hkk x.symm
          simp [hkk, this]
      · simp [hh]

/-! ### the tables of an instance, read from the model -/

def tblV4 (s : Rib) (ni : String) : Map String OrigTop :=
  s.ents.filterMap (fun e => if e.1.1 = ni then match e.1.2 with | .v4 p => some (p, origTopOf e.2) | _ => none else none)
def tblV6 (s : Rib) (ni : String) : Map String OrigTop :=
  s.ents.filterMap (fun e => if e.1.1 = ni then match e.1.2 with | .v6 p => some (p, origTopOf e.2) | _ => none else none)
def tblM (s : Rib) (ni : String) : Map Nat OrigTop :=
  s.ents.filterMap (fun e => if e.1.1 = ni then match e.1.2 with | .mpls l => some (l, origTopOf e.2) | _ => none else none)

theorem countP_filterMap {α β : Type} (f : α → Option β) (p : β → Bool) : ∀ (l : List α),
    (l.filterMap f).countP p = l.countP (fun a => (f a).any p) := by
  intro l
  induction l with
  | nil => rfl
  | cons a t ih =>
    simp only [List.filterMap_cons, List.countP_cons]
    cases h : f a with
    | none => simp [ih]
    | some b => simp [List.countP_cons, ih]

/-- the code's test "this entry holds a reference on `k` that is given back" is the model's -/
theorem holdsRef_model {κ : Type} (s : Rib) (ni : NI) (hni : s.hasNI ni = true) (k : Rib.CKey) (key : κ) (pl : Payload) :
    holdsRef refNameM (refErrM s) ni k.1 k.2 (key, origTopOf pl) =
      (s.hasNI (Rib.tgtNI ni pl) && decide ((Rib.tgtNI ni pl, pl.grp) = k)) := by
  rcases k with ⟨t, g⟩
  rw [Bool.eq_iff_iff]
  unfold holdsRef refNameM refErrM origTopOf Rib.tgtNI
  by_cases hg : pl.grpNI = ""
  · simp [hg, hni, Prod.ext_iff]
  · by_cases hh : s.hasNI pl.grpNI = true
    · simp [hg, hh, Prod.ext_iff]
    · simp [hg, hh, Prod.ext_iff]

/-- the four ways of counting, as predicates on the model's entries -/
def q4 (s : Rib) (ni : NI) (k : Rib.CKey) (a : EKey × Payload) : Bool :=
  (if a.1.1 = ni then match a.1.2 with | .v4 p => some (p, origTopOf a.2) | _ => none else none).any
    (holdsRef refNameM (refErrM s) ni k.1 k.2)
def q6 (s : Rib) (ni : NI) (k : Rib.CKey) (a : EKey × Payload) : Bool :=
  (if a.1.1 = ni then match a.1.2 with | .v6 p => some (p, origTopOf a.2) | _ => none else none).any
    (holdsRef refNameM (refErrM s) ni k.1 k.2)
def qm (s : Rib) (ni : NI) (k : Rib.CKey) (a : EKey × Payload) : Bool :=
  (if a.1.1 = ni then match a.1.2 with | .mpls l => some (l, origTopOf a.2) | _ => none else none).any
    (holdsRef refNameM (refErrM s) ni k.1 k.2)
def qM (s : Rib) (ni : NI) (k : Rib.CKey) (a : EKey × Payload) : Bool :=
  a.1.2.isTop && s.hasNI (Rib.tgtNI ni a.2) && decide ((Rib.tgtNI ni a.2, a.2.grp) = k) && a.1.1 == ni

theorem q_sum (s : Rib) (ni : NI) (hni : s.hasNI ni = true) (k : Rib.CKey) : ∀ (l : List (EKey × Payload)),
    l.countP (q4 s ni k) + l.countP (q6 s ni k) + l.countP (qm s ni k) = l.countP (qM s ni k) := by
  intro l
  induction l with
  | nil => rfl
  | cons e t ih =>
    simp only [List.countP_cons]
    have head : ((if q4 s ni k e = true then 1 else 0) + (if q6 s ni k e = true then 1 else 0) +
        (if qm s ni k e = true then 1 else 0) : Nat) = (if qM s ni k e = true then 1 else 0) := by
      unfold q4 q6 qm qM
      by_cases hn : e.1.1 = ni
      · cases hk : e.1.2 <;> simp [hn, Key.isTop, holdsRef_model s ni hni k]
      · have hn' : (e.1.1 == ni) = false := by simpa using hn
        simp [hn, hn']
    omega

/-- the references the code's flush gives back on group `k` are the ones the model's does -/
theorem referrers_agree (s : Rib) (ni : NI) (hni : s.hasNI ni = true) (k : Rib.CKey) :
    (tblV4 s ni).countP (holdsRef refNameM (refErrM s) ni k.1 k.2) +
    (tblV6 s ni).countP (holdsRef refNameM (refErrM s) ni k.1 k.2) +
    (tblM s ni).countP (holdsRef refNameM (refErrM s) ni k.1 k.2) =
      (s.entsOf ni).countP (fun e => e.1.2.isTop && s.hasNI (Rib.tgtNI ni e.2) && decide ((Rib.tgtNI ni e.2, e.2.grp) = k)) := by
  unfold tblV4 tblV6 tblM Rib.entsOf
  rw [countP_filterMap, countP_filterMap, countP_filterMap, List.countP_filter]
  exact q_sum s ni hni k s.ents

/-- **the group counters after the code's flush of an instance are the model's**: applying the
calls `Flush` makes for instance `ni` (with the tables read from the model's entries) to the
model's counters leaves, for every group `k`, the counter that the model's `flushNI` leaves -/
theorem flush_counters_model (s : Rib) (ni : NI) (hni : s.hasNI ni = true)
    (nhgs nhgsRest : String → Map Nat FlNHG) (nhs : String → Map Nat Unit) (k : Rib.CKey) :
    Rib.cnt (applyEffs s (niEffs (tblV4 s) (tblV6 s) (tblM s) nhgs nhgsRest nhs refNameM (refErrM s) ni)).nhgRef k =
      Rib.cnt (s.flushNI ni).1.nhgRef k := by
  have hno : ∀ e ∈ niEffs (tblV4 s) (tblV6 s) (tblM s) nhgs nhgsRest nhs refNameM (refErrM s) ni,
      ∀ n id, e ≠ Eff.incNHGRef n id := by
    intro e he n id hx
    subst hx
    simp only [niEffs, topEffs, List.mem_append, List.mem_flatMap, List.mem_map, List.mem_cons, List.not_mem_nil,
      or_false] at he
    rcases he with (((((⟨x, _, h⟩ | ⟨x, _, h⟩) | ⟨x, _, h⟩) | ⟨x, _, h⟩) | ⟨x, _, h⟩) | ⟨x, _, h⟩)
    all_goals first
      | (rcases h with h | h
         · split at h <;> simp at h
         · cases h)
      | cases h
  rw [cnt_applyEffs k _ s hno]
  have hc := flush_unref_count (tblV4 s) (tblV6 s) (tblM s) nhgs nhgsRest nhs refNameM (refErrM s) ni k.1 k.2
  rw [hc, referrers_agree s ni hni k]
  unfold Rib.flushNI
  simp only
  rw [cnt_unref_fold]

end Gribi.GenEquiv.FlushModel
