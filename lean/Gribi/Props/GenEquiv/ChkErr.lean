/-
The tie by translation, chk's error-count helpers (chk/chk.go): `clientError`, `HasNSendErrors`,
`HasNRecvErrors`. An `error` is represented by what the helpers look at (nil / a
`*client.ClientErr` with its two lists / anything else); the theorems say that for every error and
every count the helpers pass exactly when the model's `Chk.hasNSendErrors` / `hasNRecvErrors` do.
See `Gribi/Props/GenEquiv/Base.lean`.
-/
import Gribi.Gen.ClientError
import Gribi.Gen.HasNSendErrors
import Gribi.Gen.HasNRecvErrors
import Gribi.Model.Chk
namespace Gribi.GenEquiv.ChkErr
open Gribi Gribi.Gen

/-- the model's view of an error; `st` renders a receive error (which of them are gRPC statuses
does not matter to the two counting helpers) -/
def absErr (st : Option GStatus → Option Chk.St) : Option ErrView → Chk.CErr
  | none => .nil
  | some ⟨none⟩ => .other
  | some ⟨some ce⟩ => .clientErr ce.Send.length (ce.Recv.map st)

/-- `clientError` hands back the `*client.ClientErr` an error holds; it fails the test (and does
not return: none) for nil and for any other error -/
theorem gen_clientError (err : Option ErrView) :
    Gen.clientError err = err.bind (·.AsClientErr) := by
  unfold Gen.clientError
  cases h : err.bind (fun v => v.AsClientErr) <;> simp

/-- **`HasNSendErrors`** = the model's, for every error and count -/
theorem gen_hasNSendErrors (st : Option GStatus → Option Chk.St) (err : Option ErrView) (count : Nat) :
    Gen.hasNSendErrors err count = Chk.hasNSendErrors (absErr st err) count := by
  unfold Gen.hasNSendErrors
  rcases err with _ | ⟨_ | ce⟩
  · by_cases h : count = 0 <;> simp [gen_clientError, absErr, Chk.hasNSendErrors, h]
  · simp [gen_clientError, absErr, Chk.hasNSendErrors]
  · by_cases h : ce.Send.length = count <;> simp [gen_clientError, absErr, Chk.hasNSendErrors, h]

/-- **`HasNRecvErrors`** = the model's -/
theorem gen_hasNRecvErrors (st : Option GStatus → Option Chk.St) (err : Option ErrView) (count : Nat) :
    Gen.hasNRecvErrors err count = Chk.hasNRecvErrors (absErr st err) count := by
  unfold Gen.hasNRecvErrors
  rcases err with _ | ⟨_ | ce⟩
  · by_cases h : count = 0 <;> simp [gen_clientError, absErr, Chk.hasNRecvErrors, h]
  · simp [gen_clientError, absErr, Chk.hasNRecvErrors]
  · by_cases h : ce.Recv.length = count <;> simp [gen_clientError, absErr, Chk.hasNRecvErrors, h]

/-- in the words of the property: the helper passes exactly when the error is absent and none is
expected, or is a ClientErr with exactly that many send errors -/
theorem send_pass_iff (err : Option ErrView) (count : Nat) :
    Gen.hasNSendErrors err count = true ↔
      (err = none ∧ count = 0) ∨ ∃ ce, err = some ⟨some ce⟩ ∧ ce.Send.length = count := by
  rw [gen_hasNSendErrors (fun _ => none)]
  rcases err with _ | ⟨_ | ce⟩ <;> simp [absErr, Chk.hasNSendErrors]

theorem gen_chkerr_translated :
    Gen.clientError_problem = none ∧ Gen.hasNSendErrors_problem = none ∧ Gen.hasNRecvErrors_problem = none :=
  ⟨rfl, rfl, rfl⟩

end Gribi.GenEquiv.ChkErr
