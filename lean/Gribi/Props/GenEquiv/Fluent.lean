/-
The tie by translation, `fluent.(*gRIBIModify).entriesToModifyRequest` (the function behind
AddEntry / ReplaceEntry / DeleteEntry): see `Gribi/Props/GenEquiv/Base.lean`.

An entry is represented by the AFTOperation its `OpProto()` returns; `Body` stands for everything
of that message the function never looks at (network instance, the entry itself).
-/
import Gribi.Gen.EntriesToModifyRequest
import Gribi.Props.GenEquiv.Base
import Gribi.Model.Fluent
namespace Gribi.GenEquiv
open Gribi Gribi.Gen

/-- the client is in elected-primary mode -/
def elected (conn : Option GRIBIConnection) : Bool :=
  match conn with
  | some c => c.redundMode == 2
  | none => false

/-- the election id an operation leaves with: its own if the entry specified one, else — in
elected-primary mode only — the client's current one -/
def stampSpec (conn : Option GRIBIConnection) (cur : Option U128) (e : AFTOperation) : Option U128 :=
  match e.ElectionId with
  | some x => some x
  | none => if elected conn then cur else none

/-- what the call must produce from the entries' own messages: ids count up from the counter,
the requested type, the stamp; everything else untouched -/
def modifySpec (ty : Nat) (conn : Option GRIBIConnection) (cur : Option U128) : Nat → List AFTOperation → List AFTOperation
  | _, [] => []
  | n, e :: rest => { e with Id := n + 1, Op := ty, ElectionId := stampSpec conn cur e } :: modifySpec ty conn cur (n + 1) rest

theorem loop_spec (ty : Nat) (conn : Option GRIBIConnection) (cur : Option U128) :
    ∀ (es : List AFTOperation) (n : Nat) (m : ModifyRequestF), (∀ e ∈ es, e.Id = 0) →
      Gen.entriesToModifyRequest.loop1 ty (some ()) conn cur (es.map some) n m =
        (some { Operation := m.Operation ++ modifySpec ty conn cur n es }, none, n + es.length) := by
  intro es
  induction es with
  | nil => intro n m _; simp [Gen.entriesToModifyRequest.loop1, modifySpec]
  | cons e rest ih =>
    intro n m h
    have h0 : e.Id = 0 := h e (List.mem_cons_self ..)
    have hr : ∀ x ∈ rest, x.Id = 0 := fun x hx => h x (List.mem_cons_of_mem _ hx)
    simp only [List.map_cons, Gen.entriesToModifyRequest.loop1, h0, ne_eq, not_true_eq_false, if_false]
    cases conn with
    | none =>
      simp only [ih (n + 1) _ hr, modifySpec, stampSpec, elected]
      cases e.ElectionId <;> simp [Nat.add_assoc, Nat.add_comm 1]
    | some c =>
      by_cases hm : c.redundMode = 2
      · simp only [hm, if_true]
        cases he : e.ElectionId with
        | none => simp [ih (n + 1) _ hr, modifySpec, stampSpec, elected, hm, he, Nat.add_assoc, Nat.add_comm 1]
        | some x => simp [ih (n + 1) _ hr, modifySpec, stampSpec, elected, hm, he, Nat.add_assoc, Nat.add_comm 1]
      · simp only [hm, if_false]
        cases he : e.ElectionId <;>
          simp [ih (n + 1) _ hr, modifySpec, stampSpec, elected, hm, he, Nat.add_assoc, Nat.add_comm 1]

/-- `entriesToModifyRequest` (as the source says now), for every list of entries whose messages
carry no explicit id, every operation type, client mode, current election id and counter: one
ModifyRequest whose k-th operation is the k-th entry's own message with id `counter + k`, the
requested type and the stamp of `stampSpec` — and nothing else changed; the counter advances by
the number of entries. -/
theorem gen_fluent_modify (ty : Nat) (conn : Option GRIBIConnection) (cur : Option U128) (opErr : Status)
    (es : List AFTOperation) (n : Nat) (h : ∀ e ∈ es, e.Id = 0) :
    Gen.entriesToModifyRequest ty (es.map some) (some ()) conn cur opErr n =
      (some { Operation := modifySpec ty conn cur n es }, none, n + es.length) := by
  simp [Gen.entriesToModifyRequest, loop_spec ty conn cur es n _ h]

/-- ids: distinct, strictly increasing, starting right after the counter -/
theorem modifySpec_ids (ty : Nat) (conn : Option GRIBIConnection) (cur : Option U128) :
    ∀ (es : List AFTOperation) (n : Nat), (modifySpec ty conn cur n es).map (·.Id) = (List.range es.length).map (fun k => n + k + 1) := by
  intro es
  induction es with
  | nil => intro n; simp [modifySpec]
  | cons e rest ih =>
    intro n
    simp only [modifySpec, List.map_cons, ih (n + 1), List.length_cons, List.range_succ_eq_map, List.map_map]
    simp [Function.comp_def, Nat.add_assoc, Nat.add_comm 1]

/-- type, stamp and untouched remainder of every operation -/
theorem modifySpec_fields (ty : Nat) (conn : Option GRIBIConnection) (cur : Option U128) :
    ∀ (es : List AFTOperation) (n : Nat),
      (modifySpec ty conn cur n es).map (fun o => (o.Op, o.ElectionId, o.Body)) =
        es.map (fun e => (ty, stampSpec conn cur e, e.Body)) := by
  intro es
  induction es with
  | nil => intro n; simp [modifySpec]
  | cons e rest ih => intro n; simp [modifySpec, ih (n + 1)]

/-- an entry whose `OpProto()` fails, or that carries an explicit id, makes the call fail -/
theorem gen_fluent_modify_rejects (ty : Nat) (conn : Option GRIBIConnection) (cur : Option U128) (opErr : Status)
    (e : AFTOperation) (rest : List (Option AFTOperation)) (n : Nat) (h : e.Id ≠ 0) :
    (Gen.entriesToModifyRequest ty (some e :: rest) (some ()) conn cur opErr n).2.1 ≠ none ∧
    (Gen.entriesToModifyRequest ty (none :: rest) (some ()) conn cur opErr n).2.1 ≠ none := by
  simp [Gen.entriesToModifyRequest, Gen.entriesToModifyRequest.loop1, h]

/-- the stamp the code computes is the model's `stampOf` (the hand-written fluent model that the
C18 theorems and the fluent correspondence are about) -/
theorem stamp_agrees (conv : Nat × Nat → U128) (c : Fluent.Client) (e : Fluent.Entry) (conn : Option GRIBIConnection)
    (cur : Option U128) (op : AFTOperation)
    (hm : elected conn = c.elected) (hc : cur = c.curElec.map conv) (he : op.ElectionId = e.elec.map conv) :
    stampSpec conn cur op = (Fluent.stampOf c e).map conv := by
  unfold stampSpec Fluent.stampOf
  rw [he, hm, hc]
  cases e.elec <;> cases c.elected <;> simp

/-- the counter of the model advances as the code's does -/
theorem count_agrees (c : Fluent.Client) (ty : Nat) : ∀ (es : List Fluent.Entry) (c : Fluent.Client),
    (c.modify ty es).1.opCount = c.opCount + es.length := by
  intro es
  induction es with
  | nil => intro c; simp [Fluent.Client.modify]
  | cons e rest ih =>
    intro c
    simp only [Fluent.Client.modify, List.length_cons]
    rw [ih]
    simp [Nat.add_assoc, Nat.add_comm 1]

theorem gen_fluent_translated : Gen.entriesToModifyRequest_problem = none := rfl

end Gribi.GenEquiv
