/-
The tie by translation, the fluent builders (`fluent/fluent.go`): the `With…`/`Add…` methods,
`OpProto` and `EntryProto` of `ipv4Entry`, `ipv6Entry`, `labelEntry`, `nextHopGroupEntry`, and the
setters of the Get and Flush request builders. See `Gribi/Props/GenEquiv/Base.lean`.

A builder is its state: the protobuf under construction, the network instance, the explicit
election id. The generated functions act on that state; the abstraction maps it to the model's
builder record (`Gribi.Fluent.TopB`, `LabelB`, `NhgB`). Proved, for every state and every
argument:

* each generated setter acts on the abstraction as the model's `apply` of the corresponding call
  (so a chain of calls is the model's fold of them: `gen_*_chain`);
* `OpProto` / `EntryProto` return a message that decodes to exactly the abstraction of the
  state (network instance, entry kind, every field, the election id — which `EntryProto`
  leaves out) and leave the state as it is;
* "exactly what was set": in the message a chain of calls ends in, a field carries the argument
  of the last call that sets it, and is absent when no call of the chain sets it
  (`fold_last`, `fold_frame` and their instances).

What the translator itself checks while generating: the builder's protobuf pointer is handed
out only as `proto.Clone` of it, and the methods return their receiver.
-/
import Gribi.Gen.Fl4WithPrefix
import Gribi.Gen.Fl4WithNetworkInstance
import Gribi.Gen.Fl4WithNextHopGroup
import Gribi.Gen.Fl4WithNextHopGroupNetworkInstance
import Gribi.Gen.Fl4WithMetadata
import Gribi.Gen.Fl4WithElectionID
import Gribi.Gen.Fl4OpProto
import Gribi.Gen.Fl4EntryProto
import Gribi.Gen.Fl6WithPrefix
import Gribi.Gen.Fl6WithNetworkInstance
import Gribi.Gen.Fl6WithNextHopGroup
import Gribi.Gen.Fl6WithNextHopGroupNetworkInstance
import Gribi.Gen.Fl6WithMetadata
import Gribi.Gen.Fl6WithElectionID
import Gribi.Gen.Fl6OpProto
import Gribi.Gen.Fl6EntryProto
import Gribi.Gen.FlLWithLabel
import Gribi.Gen.FlLWithNetworkInstance
import Gribi.Gen.FlLWithNextHopGroup
import Gribi.Gen.FlLWithNextHopGroupNetworkInstance
import Gribi.Gen.FlLWithPoppedLabelStack
import Gribi.Gen.FlLOpProto
import Gribi.Gen.FlLEntryProto
import Gribi.Gen.FlGWithID
import Gribi.Gen.FlGWithNetworkInstance
import Gribi.Gen.FlGWithBackupNHG
import Gribi.Gen.FlGAddNextHop
import Gribi.Gen.FlGWithElectionID
import Gribi.Gen.FlGOpProto
import Gribi.Gen.FlGEntryProto
import Gribi.Gen.FlNewIPv4Entry
import Gribi.Gen.FlNewIPv6Entry
import Gribi.Gen.FlNewLabelEntry
import Gribi.Gen.FlNewNextHopGroupEntry
import Gribi.Gen.FlNewNextHopEntry
import Gribi.Gen.FlNWithIndex
import Gribi.Gen.FlNWithNetworkInstance
import Gribi.Gen.FlNWithIPAddress
import Gribi.Gen.FlNWithInterfaceRef
import Gribi.Gen.FlNWithSubinterfaceRef
import Gribi.Gen.FlNWithMacAddress
import Gribi.Gen.FlNWithIPinIP
import Gribi.Gen.FlNWithNextHopNetworkInstance
import Gribi.Gen.FlNWithPopTopLabel
import Gribi.Gen.FlNWithDecapsulateHeader
import Gribi.Gen.FlNWithEncapsulateHeader
import Gribi.Gen.FlNWithElectionID
import Gribi.Gen.FlNOpProto
import Gribi.Gen.FlNEntryProto
import Gribi.Gen.FlNewGet
import Gribi.Gen.FlNewFlush
import Gribi.Gen.FlGetAllNetworkInstances
import Gribi.Gen.FlGetWithNetworkInstance
import Gribi.Gen.FlGetWithAFT
import Gribi.Gen.FlFlushWithElectionID
import Gribi.Gen.FlFlushWithElectionOverride
import Gribi.Gen.FlFlushWithNetworkInstance
import Gribi.Gen.FlFlushWithAllNetworkInstances
import Gribi.Props.GenEquiv.Base
import Gribi.Model.Fluent
namespace Gribi.GenEquiv
open Gribi Gribi.Gen Gribi.Fluent

/-! ### folds: frame and last write, for any state machine -/

/-- calls that leave an observation alone leave it alone together -/
theorem fold_frame {σ κ α : Type} (ap : σ → κ → σ) (obs : σ → α) (cs : List κ) (s : σ)
    (h : ∀ c ∈ cs, ∀ t, obs (ap t c) = obs t) : obs (cs.foldl ap s) = obs s := by
  induction cs generalizing s with
  | nil => rfl
  | cons c t ih =>
    simp only [List.foldl_cons]
    rw [ih (ap s c) (fun c' hc' => h c' (List.mem_cons_of_mem _ hc')), h c (List.mem_cons_self ..)]

/-- the last call that sets an observation decides it, whatever came before -/
theorem fold_last {σ κ α : Type} (ap : σ → κ → σ) (obs : σ → α) (pre : List κ) (c0 : κ) (rest : List κ)
    (s : σ) (v : α) (hset : ∀ t, obs (ap t c0) = v) (h : ∀ c ∈ rest, ∀ t, obs (ap t c) = obs t) :
    obs ((pre ++ c0 :: rest).foldl ap s) = v := by
  rw [List.foldl_append, List.foldl_cons, fold_frame ap obs rest _ h, hset]

/-! ### IPv4 / IPv6 entries -/

/-- the explicit election id as the model holds it -/
def elecOf (e : Option U128) : Option (Nat × Nat) := e.map (fun u => (u.lo.toNat, u.hi.toNat))

def absTopEntry (pfx ni : String) (t : TopEntryB) (e : Option U128) : TopB :=
  { pfx := pfx, ni := ni, nhg := t.NextHopGroup.map (·.Value),
    nhgNI := t.NextHopGroupNetworkInstance.map (·.Value),
    metadata := t.EntryMetadata.map (·.Value), elec := elecOf e }

abbrev St4 := Ipv4KeyB × String × Option U128
abbrev St6 := Ipv6KeyB × String × Option U128

def abs4 (s : St4) : TopB := absTopEntry s.1.Prefix s.2.1 s.1.Ipv4Entry s.2.2
def abs6 (s : St6) : TopB := absTopEntry s.1.Prefix s.2.1 s.1.Ipv6Entry s.2.2

/-- what `IPv4Entry()` / `IPv6Entry()` allocate -/
def init4 : St4 := ({ Prefix := "", Ipv4Entry := { NextHopGroup := none, NextHopGroupNetworkInstance := none, EntryMetadata := none } }, "", none)
def init6 : St6 := ({ Prefix := "", Ipv6Entry := { NextHopGroup := none, NextHopGroupNetworkInstance := none, EntryMetadata := none } }, "", none)

theorem abs4_init : abs4 init4 = {} := rfl
theorem abs6_init : abs6 init6 = {} := rfl

/-- a call on the code's builder (the election id words are `uint64`) -/
inductive GTopCall where
  | prefix_ (p : String) | ni (n : String) | nhg (g : Nat) | nhgNI (n : String)
  | metadata (b : String) | elec (lo hi : UInt64)
  deriving DecidableEq, Repr

def GTopCall.toModel : GTopCall → TopCall
  | .prefix_ p => .prefix_ p | .ni n => .ni n | .nhg g => .nhg g | .nhgNI n => .nhgNI n
  | .metadata b => .metadata b | .elec lo hi => .elec lo.toNat hi.toNat

/-- the generated method for each call -/
def run4 (s : St4) : GTopCall → St4
  | .prefix_ p => fl4WithPrefix p s.1 s.2.1 s.2.2
  | .ni n => fl4WithNetworkInstance n s.1 s.2.1 s.2.2
  | .nhg g => fl4WithNextHopGroup g s.1 s.2.1 s.2.2
  | .nhgNI n => fl4WithNextHopGroupNetworkInstance n s.1 s.2.1 s.2.2
  | .metadata b => fl4WithMetadata b s.1 s.2.1 s.2.2
  | .elec lo hi => fl4WithElectionID lo hi s.1 s.2.1 s.2.2

def run6 (s : St6) : GTopCall → St6
  | .prefix_ p => fl6WithPrefix p s.1 s.2.1 s.2.2
  | .ni n => fl6WithNetworkInstance n s.1 s.2.1 s.2.2
  | .nhg g => fl6WithNextHopGroup g s.1 s.2.1 s.2.2
  | .nhgNI n => fl6WithNextHopGroupNetworkInstance n s.1 s.2.1 s.2.2
  | .metadata b => fl6WithMetadata b s.1 s.2.1 s.2.2
  | .elec lo hi => fl6WithElectionID lo hi s.1 s.2.1 s.2.2

/-- every generated IPv4 setter is the model's `apply` of its call -/
theorem gen_top4_step (s : St4) (c : GTopCall) : abs4 (run4 s c) = (abs4 s).apply c.toModel := by
  obtain ⟨pb, ni, e⟩ := s
  cases c <;> rfl

theorem gen_top6_step (s : St6) (c : GTopCall) : abs6 (run6 s c) = (abs6 s).apply c.toModel := by
  obtain ⟨pb, ni, e⟩ := s
  cases c <;> rfl

/-- a chain of calls on the code's builder is the model's fold of the same calls -/
theorem gen_top4_chain (cs : List GTopCall) (s : St4) :
    abs4 (cs.foldl run4 s) = (cs.map GTopCall.toModel).foldl TopB.apply (abs4 s) := by
  induction cs generalizing s with
  | nil => rfl
  | cons c t ih => simp only [List.foldl_cons, List.map_cons]; rw [ih, gen_top4_step]

theorem gen_top6_chain (cs : List GTopCall) (s : St6) :
    abs6 (cs.foldl run6 s) = (cs.map GTopCall.toModel).foldl TopB.apply (abs6 s) := by
  induction cs generalizing s with
  | nil => rfl
  | cons c t ih => simp only [List.foldl_cons, List.map_cons]; rw [ih, gen_top6_step]

/-! decoding of the emitted messages: which model entry a message is -/

def decodeEntry (ni : String) (e : Option U128) : Option EntryB → Option Entry
  | some (.Ipv4 (some k)) => some (.v4 (absTopEntry k.Prefix ni k.Ipv4Entry e))
  | some (.Ipv6 (some k)) => some (.v6 (absTopEntry k.Prefix ni k.Ipv6Entry e))
  | some (.Mpls (some k)) =>
    some (.label { label := k.Label.map (fun | .U64 l => l), ni := ni,
                   nhg := k.LabelEntry.NextHopGroup.map (·.Value),
                   nhgNI := k.LabelEntry.NextHopGroupNetworkInstance.map (·.Value),
                   popped := some (k.LabelEntry.PoppedMplsLabelStack.map (·.PoppedMplsLabelStackUint64)),
                   elec := elecOf e })
  | some (.NextHopGroup (some k)) =>
    some (.nhg { id := k.Id, ni := ni, backup := k.NextHopGroup.BackupNextHopGroup.map (·.Value),
                 nhs := k.NextHopGroup.NextHop.map (fun m => (m.Index, ((m.NextHop.bind (·.Weight)).map (·.Value)).getD 0)),
                 elec := elecOf e })
  | _ => none

def decodeOp (o : Option AFTOperationB) : Option Entry := o.bind (fun m => decodeEntry m.NetworkInstance m.ElectionId m.Entry)
def decodeEnt (o : Option AFTEntryB) : Option Entry := o.bind (fun m => decodeEntry m.NetworkInstance none m.Entry)

/-- the `Repr`-free comparison of entries: by kind and builder record -/
def Entry.same : Entry → Entry → Prop
  | .v4 a, .v4 b => a = b
  | .v6 a, .v6 b => a = b
  | .label a, .label b => a = b
  | .nhg a, .nhg b => a = b
  | _, _ => False

/-- `OpProto` of the IPv4 builder: the message is the builder's state, entry kind IPv4, with its
election id; no error; the builder is unchanged -/
theorem gen_top4_opProto (s : St4) :
    decodeOp (fl4OpProto s.1 s.2.1 s.2.2).1 = some (.v4 (abs4 s)) ∧
    (fl4OpProto s.1 s.2.1 s.2.2).2.1 = none ∧ (fl4OpProto s.1 s.2.1 s.2.2).2.2 = s := by
  obtain ⟨pb, ni, e⟩ := s
  exact ⟨rfl, rfl, rfl⟩

/-- `EntryProto`: the same without the election id -/
theorem gen_top4_entryProto (s : St4) :
    decodeEnt (fl4EntryProto s.1 s.2.1 s.2.2).1 = some (.v4 { abs4 s with elec := none }) ∧
    (fl4EntryProto s.1 s.2.1 s.2.2).2.1 = none ∧ (fl4EntryProto s.1 s.2.1 s.2.2).2.2 = s := by
  obtain ⟨pb, ni, e⟩ := s
  exact ⟨rfl, rfl, rfl⟩

theorem gen_top6_opProto (s : St6) :
    decodeOp (fl6OpProto s.1 s.2.1 s.2.2).1 = some (.v6 (abs6 s)) ∧
    (fl6OpProto s.1 s.2.1 s.2.2).2.1 = none ∧ (fl6OpProto s.1 s.2.1 s.2.2).2.2 = s := by
  obtain ⟨pb, ni, e⟩ := s
  exact ⟨rfl, rfl, rfl⟩

theorem gen_top6_entryProto (s : St6) :
    decodeEnt (fl6EntryProto s.1 s.2.1 s.2.2).1 = some (.v6 { abs6 s with elec := none }) ∧
    (fl6EntryProto s.1 s.2.1 s.2.2).2.1 = none ∧ (fl6EntryProto s.1 s.2.1 s.2.2).2.2 = s := by
  obtain ⟨pb, ni, e⟩ := s
  exact ⟨rfl, rfl, rfl⟩

/-- the whole chain, from the constructor to the message: the operation an IPv4 builder emits
after any chain of calls is the model's builder after the same calls -/
theorem gen_top4_emits (cs : List GTopCall) :
    decodeOp (fl4OpProto (cs.foldl run4 init4).1 (cs.foldl run4 init4).2.1 (cs.foldl run4 init4).2.2).1 =
      some (.v4 ((cs.map GTopCall.toModel).foldl TopB.apply {})) := by
  rw [(gen_top4_opProto _).1, gen_top4_chain, abs4_init]

theorem gen_top6_emits (cs : List GTopCall) :
    decodeOp (fl6OpProto (cs.foldl run6 init6).1 (cs.foldl run6 init6).2.1 (cs.foldl run6 init6).2.2).1 =
      some (.v6 ((cs.map GTopCall.toModel).foldl TopB.apply {})) := by
  rw [(gen_top6_opProto _).1, gen_top6_chain, abs6_init]

/-! "exactly what was set", on the generated functions -/

/-- which field of the entry a call sets -/
def GTopCall.tag : GTopCall → Nat
  | .prefix_ _ => 0 | .ni _ => 1 | .nhg _ => 2 | .nhgNI _ => 3 | .metadata _ => 4 | .elec _ _ => 5

/-- the next-hop-group the emitted IPv4 operation carries is the argument of the last
`WithNextHopGroup` of the chain -/
theorem gen_top4_nhg_last (pre rest : List GTopCall) (g : Nat) (s : St4)
    (h : ∀ c ∈ rest, c.tag ≠ 2) :
    (abs4 ((pre ++ .nhg g :: rest).foldl run4 s)).nhg = some g := by
  apply fold_last run4 (fun t => (abs4 t).nhg)
  · intro t; rw [gen_top4_step]; rfl
  · intro c hc t
    rw [gen_top4_step]
    have := h c hc
    cases c <;> first | rfl | exact absurd rfl this

/-- … and there is none when the chain has no such call -/
theorem gen_top4_nhg_unset (cs : List GTopCall) (h : ∀ c ∈ cs, c.tag ≠ 2) :
    (abs4 (cs.foldl run4 init4)).nhg = none := by
  have := fold_frame run4 (fun t => (abs4 t).nhg) cs init4 (by
    intro c hc t
    rw [gen_top4_step]
    have := h c hc
    cases c <;> first | rfl | exact absurd rfl this)
  exact this.trans rfl

/-- every field at once: a call changes the field it names and no other (IPv4; the IPv6 builder
has the same abstraction, so `gen_top6_step` gives the same) -/
theorem gen_top4_frame (s : St4) (c : GTopCall) :
    (c.tag ≠ 0 → (abs4 (run4 s c)).pfx = (abs4 s).pfx) ∧ (c.tag ≠ 1 → (abs4 (run4 s c)).ni = (abs4 s).ni) ∧
    (c.tag ≠ 2 → (abs4 (run4 s c)).nhg = (abs4 s).nhg) ∧ (c.tag ≠ 3 → (abs4 (run4 s c)).nhgNI = (abs4 s).nhgNI) ∧
    (c.tag ≠ 4 → (abs4 (run4 s c)).metadata = (abs4 s).metadata) ∧ (c.tag ≠ 5 → (abs4 (run4 s c)).elec = (abs4 s).elec) := by
  rw [gen_top4_step]
  cases c <;> simp [GTopCall.tag, GTopCall.toModel, TopB.apply]

theorem gen_top6_frame (s : St6) (c : GTopCall) :
    (c.tag ≠ 0 → (abs6 (run6 s c)).pfx = (abs6 s).pfx) ∧ (c.tag ≠ 1 → (abs6 (run6 s c)).ni = (abs6 s).ni) ∧
    (c.tag ≠ 2 → (abs6 (run6 s c)).nhg = (abs6 s).nhg) ∧ (c.tag ≠ 3 → (abs6 (run6 s c)).nhgNI = (abs6 s).nhgNI) ∧
    (c.tag ≠ 4 → (abs6 (run6 s c)).metadata = (abs6 s).metadata) ∧ (c.tag ≠ 5 → (abs6 (run6 s c)).elec = (abs6 s).elec) := by
  rw [gen_top6_step]
  cases c <;> simp [GTopCall.tag, GTopCall.toModel, TopB.apply]

/-! ### label entries -/

abbrev StL := LabelKeyB × String × Option U128

/-- the code's label builder has no explicit election id method; `popped` is the list itself
(the protobuf does not tell an empty list from none) -/
structure LabelObs where
  label : Option Nat
  ni : String
  nhg : Option Nat
  nhgNI : Option String
  popped : List Nat
  deriving DecidableEq, Repr

def absL (s : StL) : LabelObs :=
  { label := s.1.Label.map (fun | .U64 l => l), ni := s.2.1,
    nhg := s.1.LabelEntry.NextHopGroup.map (·.Value),
    nhgNI := s.1.LabelEntry.NextHopGroupNetworkInstance.map (·.Value),
    popped := s.1.LabelEntry.PoppedMplsLabelStack.map (·.PoppedMplsLabelStackUint64) }

def obsOfLabelB (b : LabelB) : LabelObs :=
  { label := b.label, ni := b.ni, nhg := b.nhg, nhgNI := b.nhgNI, popped := b.popped.getD [] }

def initL : StL := ({ Label := none, LabelEntry := { NextHopGroup := none, NextHopGroupNetworkInstance := none, PoppedMplsLabelStack := [] } }, "", none)

inductive GLabelCall where
  | label (l : Nat) | ni (n : String) | nhg (g : Nat) | nhgNI (n : String) | popped (ls : List Nat)
  deriving DecidableEq, Repr

def GLabelCall.toModel : GLabelCall → LabelCall
  | .label l => .label l | .ni n => .ni n | .nhg g => .nhg g | .nhgNI n => .nhgNI n | .popped ls => .popped ls

def runL (s : StL) : GLabelCall → StL
  | .label l => flLWithLabel l s.1 s.2.1 s.2.2
  | .ni n => flLWithNetworkInstance n s.1 s.2.1 s.2.2
  | .nhg g => flLWithNextHopGroup g s.1 s.2.1 s.2.2
  | .nhgNI n => flLWithNextHopGroupNetworkInstance n s.1 s.2.1 s.2.2
  | .popped ls => flLWithPoppedLabelStack ls s.1 s.2.1 s.2.2

/-- the loop of `WithPoppedLabelStack` appends the labels, in order, to the stack it has -/
theorem popped_loop (ni : String) (e : Option U128) (ls : List Nat) (pb : LabelKeyB) :
    flLWithPoppedLabelStack.loop1 ni e ls pb =
      ({ pb with LabelEntry := { pb.LabelEntry with
          PoppedMplsLabelStack := pb.LabelEntry.PoppedMplsLabelStack ++ ls.map (fun l => ⟨l⟩) } }, ni, e) := by
  induction ls generalizing pb with
  | nil => simp [flLWithPoppedLabelStack.loop1]
  | cons l t ih =>
    rw [flLWithPoppedLabelStack.loop1]
    simp only []
    rw [ih]
    simp [List.append_assoc]

/-- `WithPoppedLabelStack(labels…)` replaces the stack by exactly the labels given, in order -/
theorem gen_label_popped (ls : List Nat) (s : StL) :
    absL (runL s (.popped ls)) = { absL s with popped := ls } := by
  obtain ⟨pb, ni, e⟩ := s
  simp only [runL, flLWithPoppedLabelStack, popped_loop, absL]
  simp [List.map_map, Function.comp_def]

theorem gen_label_step (s : StL) (c : GLabelCall) (b : LabelB) (hb : absL s = obsOfLabelB b) :
    absL (runL s c) = obsOfLabelB (b.apply c.toModel) := by
  cases c with
  | popped ls => rw [gen_label_popped, hb]; rfl
  | label l => obtain ⟨pb, ni, e⟩ := s; simp only [absL, obsOfLabelB, LabelObs.mk.injEq] at hb ⊢; simp_all [runL, flLWithLabel, GLabelCall.toModel, LabelB.apply]
  | ni n => obtain ⟨pb, ni, e⟩ := s; simp only [absL, obsOfLabelB, LabelObs.mk.injEq] at hb ⊢; simp_all [runL, flLWithNetworkInstance, GLabelCall.toModel, LabelB.apply]
  | nhg g => obtain ⟨pb, ni, e⟩ := s; simp only [absL, obsOfLabelB, LabelObs.mk.injEq] at hb ⊢; simp_all [runL, flLWithNextHopGroup, GLabelCall.toModel, LabelB.apply]
  | nhgNI n => obtain ⟨pb, ni, e⟩ := s; simp only [absL, obsOfLabelB, LabelObs.mk.injEq] at hb ⊢; simp_all [runL, flLWithNextHopGroupNetworkInstance, GLabelCall.toModel, LabelB.apply]

/-- a chain of calls on the code's label builder is the model's fold of the same calls -/
theorem gen_label_chain (cs : List GLabelCall) (s : StL) (b : LabelB) (hb : absL s = obsOfLabelB b) :
    absL (cs.foldl runL s) = obsOfLabelB ((cs.map GLabelCall.toModel).foldl LabelB.apply b) := by
  induction cs generalizing s b with
  | nil => exact hb
  | cons c t ih => simp only [List.foldl_cons, List.map_cons]; exact ih _ _ (gen_label_step s c b hb)

theorem absL_init : absL initL = obsOfLabelB {} := rfl

/-- the election id of a label builder is never set: no method of it assigns one -/
theorem gen_label_elec (s : StL) (c : GLabelCall) : (runL s c).2.2 = s.2.2 := by
  obtain ⟨pb, ni, e⟩ := s
  cases c with
  | popped ls => simp [runL, flLWithPoppedLabelStack, popped_loop]
  | _ => rfl

/-- `OpProto` / `EntryProto` of the label builder: the message carries the builder's protobuf,
kind MPLS, its network instance, its election id; the builder is unchanged -/
theorem gen_label_opProto (s : StL) :
    (flLOpProto s.1 s.2.1 s.2.2).1 = some { NetworkInstance := s.2.1, Entry := some (.Mpls (some s.1)), ElectionId := s.2.2 } ∧
    (flLOpProto s.1 s.2.1 s.2.2).2.1 = none ∧ (flLOpProto s.1 s.2.1 s.2.2).2.2 = s := by
  obtain ⟨pb, ni, e⟩ := s
  exact ⟨rfl, rfl, rfl⟩

theorem gen_label_entryProto (s : StL) :
    (flLEntryProto s.1 s.2.1 s.2.2).1 = some { NetworkInstance := s.2.1, Entry := some (.Mpls (some s.1)) } ∧
    (flLEntryProto s.1 s.2.1 s.2.2).2.1 = none ∧ (flLEntryProto s.1 s.2.1 s.2.2).2.2 = s := by
  obtain ⟨pb, ni, e⟩ := s
  exact ⟨rfl, rfl, rfl⟩

/-! ### next-hop groups -/

abbrev StG := NhgKeyB × String × Option U128

def absG (s : StG) : NhgB :=
  { id := s.1.Id, ni := s.2.1, backup := s.1.NextHopGroup.BackupNextHopGroup.map (·.Value),
    nhs := s.1.NextHopGroup.NextHop.map (fun m => (m.Index, ((m.NextHop.bind (·.Weight)).map (·.Value)).getD 0)),
    elec := elecOf s.2.2 }

def initG : StG := ({ Id := 0, NextHopGroup := { BackupNextHopGroup := none, NextHop := [] } }, "", none)

theorem absG_init : absG initG = {} := rfl

inductive GNhgCall where
  | id (i : Nat) | ni (n : String) | backup (b : Nat) | addNh (idx w : Nat) | elec (lo hi : UInt64)
  deriving DecidableEq, Repr

def GNhgCall.toModel : GNhgCall → NhgCall
  | .id i => .id i | .ni n => .ni n | .backup b => .backup b | .addNh i w => .addNh i w
  | .elec lo hi => .elec lo.toNat hi.toNat

def runG (s : StG) : GNhgCall → StG
  | .id i => flGWithID i s.1 s.2.1 s.2.2
  | .ni n => flGWithNetworkInstance n s.1 s.2.1 s.2.2
  | .backup b => flGWithBackupNHG b s.1 s.2.1 s.2.2
  | .addNh i w => flGAddNextHop i w s.1 s.2.1 s.2.2
  | .elec lo hi => flGWithElectionID lo hi s.1 s.2.1 s.2.2

/-- every generated next-hop-group method is the model's `apply` of its call (`AddNextHop`
appends one member with its weight, the others overwrite) -/
theorem gen_nhg_step (s : StG) (c : GNhgCall) : absG (runG s c) = (absG s).apply c.toModel := by
  obtain ⟨pb, ni, e⟩ := s
  cases c with
  | addNh i w => simp [runG, flGAddNextHop, absG, GNhgCall.toModel, NhgB.apply]
  | _ => rfl

theorem gen_nhg_chain (cs : List GNhgCall) (s : StG) :
    absG (cs.foldl runG s) = (cs.map GNhgCall.toModel).foldl NhgB.apply (absG s) := by
  induction cs generalizing s with
  | nil => rfl
  | cons c t ih => simp only [List.foldl_cons, List.map_cons]; rw [ih, gen_nhg_step]

theorem gen_nhg_opProto (s : StG) :
    decodeOp (flGOpProto s.1 s.2.1 s.2.2).1 = some (.nhg (absG s)) ∧
    (flGOpProto s.1 s.2.1 s.2.2).2.1 = none ∧ (flGOpProto s.1 s.2.1 s.2.2).2.2 = s := by
  obtain ⟨pb, ni, e⟩ := s
  exact ⟨rfl, rfl, rfl⟩

theorem gen_nhg_entryProto (s : StG) :
    decodeEnt (flGEntryProto s.1 s.2.1 s.2.2).1 = some (.nhg { absG s with elec := none }) ∧
    (flGEntryProto s.1 s.2.1 s.2.2).2.1 = none ∧ (flGEntryProto s.1 s.2.1 s.2.2).2.2 = s := by
  obtain ⟨pb, ni, e⟩ := s
  exact ⟨rfl, rfl, rfl⟩

theorem gen_nhg_emits (cs : List GNhgCall) :
    decodeOp (flGOpProto (cs.foldl runG initG).1 (cs.foldl runG initG).2.1 (cs.foldl runG initG).2.2).1 =
      some (.nhg ((cs.map GNhgCall.toModel).foldl NhgB.apply {})) := by
  rw [(gen_nhg_opProto _).1, gen_nhg_chain, absG_init]

/-- every member the code's builder holds has a weight (so the decoding above loses nothing):
`AddNextHop` is the only method that touches the members and it always attaches one -/
def weighted (s : StG) : Prop := ∀ m ∈ s.1.NextHopGroup.NextHop, ∃ n w, m.NextHop = some n ∧ n.Weight = some w

theorem weighted_init : weighted initG := by simp [weighted, initG]

theorem gen_nhg_weighted (s : StG) (c : GNhgCall) (h : weighted s) : weighted (runG s c) := by
  obtain ⟨pb, ni, e⟩ := s
  cases c with
  | addNh i w =>
    intro m hm
    simp only [runG, flGAddNextHop, List.mem_append, List.mem_singleton] at hm
    rcases hm with hm | hm
    · exact h m hm
    · subst hm; exact ⟨_, _, rfl, rfl⟩
  | _ => exact h

/-! ### next-hops

Translated: the constructor, every `With…` method except `WithPushedLabelStack` (its loop assigns
through a pointer that nothing in the loop's text says is non-nil) and `AddEncapHeader` (headers
are values of an interface type); `OpProto`, `EntryProto`. The payload message is allocated by
the first method that needs it. -/

abbrev StN := NhKeyB × String × Option U128

/-- what the translated methods can set, as the rendering sees it (the header choices by their
protobuf number) -/
structure NhObs where
  index : Nat
  ni : String
  hasNh : Bool
  ip : Option String
  ifName : Option String
  subIf : Option Nat
  mac : Option String
  ipInIp : Option (String × String)
  nhNI : Option String
  popTop : Bool
  decapE : Nat
  encapE : Nat
  elec : Option (Nat × Nat)
  deriving DecidableEq, Repr

def absN (s : StN) : NhObs :=
  let nh := s.1.NextHop
  { index := s.1.Index, ni := s.2.1, hasNh := nh.isSome,
    ip := (nh.bind (·.IpAddress)).map (·.Value),
    ifName := ((nh.bind (·.InterfaceRef)).bind (·.Interface)).map (·.Value),
    subIf := ((nh.bind (·.InterfaceRef)).bind (·.Subinterface)).map (·.Value),
    mac := (nh.bind (·.MacAddress)).map (·.Value),
    ipInIp := (nh.bind (·.IpInIp)).map (fun x => ((x.SrcIp.map (·.Value)).getD "", (x.DstIp.map (·.Value)).getD "")),
    nhNI := (nh.bind (·.NetworkInstance)).map (·.Value),
    popTop := ((nh.bind (·.PopTopLabel)).map (·.Value)).getD false,
    decapE := (nh.map (·.DecapsulateHeader)).getD 0,
    encapE := (nh.map (·.EncapsulateHeader)).getD 0,
    elec := elecOf s.2.2 }

def obsOfNhB (b : NhB) : NhObs :=
  { index := b.index, ni := b.ni, hasNh := b.hasNh, ip := b.ip, ifName := b.ifName, subIf := b.subIf, mac := b.mac,
    ipInIp := b.ipInIp, nhNI := b.nhNI, popTop := b.popTop, decapE := hdrEnum b.decap, encapE := hdrEnum b.encap,
    elec := b.elec }

def initN : StN := ({ Index := 0, NextHop := none }, "", none)

theorem absN_init : absN initN = obsOfNhB {} := rfl

inductive GNhCall where
  | index (i : Nat) | ni (n : String) | ip (a : String) | ifRef (n : String) | subIfRef (n : String) (s : Nat)
  | mac (m : String) | ipInIp (src dst : String) | nhNI (n : String) | popTop
  | decap (h : Int) | encap (h : Int) | elec (lo hi : UInt64)
  deriving DecidableEq, Repr

def GNhCall.toModel : GNhCall → NhCall
  | .index i => .index i | .ni n => .ni n | .ip a => .ip a | .ifRef n => .ifRef n | .subIfRef n s => .subIfRef n s
  | .mac m => .mac m | .ipInIp s d => .ipInIp s d | .nhNI n => .nhNI n | .popTop => .popTop
  | .decap h => .decap h.toNat | .encap h => .encap h.toNat | .elec lo hi => .elec lo.toNat hi.toNat

def runN (s : StN) : GNhCall → StN
  | .index i => flNWithIndex i s.1 s.2.1 s.2.2
  | .ni n => flNWithNetworkInstance n s.1 s.2.1 s.2.2
  | .ip a => flNWithIPAddress a s.1 s.2.1 s.2.2
  | .ifRef n => flNWithInterfaceRef n s.1 s.2.1 s.2.2
  | .subIfRef n k => flNWithSubinterfaceRef n k s.1 s.2.1 s.2.2
  | .mac m => flNWithMacAddress m s.1 s.2.1 s.2.2
  | .ipInIp a b => flNWithIPinIP a b s.1 s.2.1 s.2.2
  | .nhNI n => flNWithNextHopNetworkInstance n s.1 s.2.1 s.2.2
  | .popTop => flNWithPopTopLabel s.1 s.2.1 s.2.2
  | .decap h => flNWithDecapsulateHeader h s.1 s.2.1 s.2.2
  | .encap h => flNWithEncapsulateHeader h s.1 s.2.1 s.2.2
  | .elec lo hi => flNWithElectionID lo hi s.1 s.2.1 s.2.2

/-- the table behind `WithDecapsulateHeader` / `WithEncapsulateHeader` is the model's `hdrEnum`:
IPinIP, MPLS, UDPV6 name the protobuf types 2, 4, 8; anything else (negative numbers included)
names none -/
theorem encapTable (f : Int → Nat)
    (hf : ∀ k, f k = if k = 1 then EncapType_IPV4 else if k = 2 then EncapType_MPLS else if k = 3 then EncapType_UDPV6 else 0)
    (h : Int) : f h = hdrEnum h.toNat := by
  rw [hf]
  by_cases h1 : h = 1
  · subst h1; rfl
  by_cases h2 : h = 2
  · subst h2; rfl
  by_cases h3 : h = 3
  · subst h3; rfl
  simp only [h1, h2, h3, if_false]
  have hn : h.toNat ≠ 1 ∧ h.toNat ≠ 2 ∧ h.toNat ≠ 3 := by omega
  generalize h.toNat = n at hn
  match n, hn with
  | 0, _ => rfl
  | 1, hh => exact absurd rfl hh.1
  | 2, hh => exact absurd rfl hh.2.1
  | 3, hh => exact absurd rfl hh.2.2
  | _ + 4, _ => rfl

theorem gen_encapMap (h : Int) :
    Gen.flNWithDecapsulateHeader_encapMap h = hdrEnum h.toNat ∧ Gen.flNWithEncapsulateHeader_encapMap h = hdrEnum h.toNat :=
  ⟨encapTable _ (fun _ => rfl) h, encapTable _ (fun _ => rfl) h⟩

/-- every translated next-hop method is the model's `apply` of its call, whether the payload
message existed before the call or is allocated by it -/
theorem gen_nh_step (s : StN) (c : GNhCall) (b : NhB) (hb : absN s = obsOfNhB b) :
    absN (runN s c) = obsOfNhB (b.apply c.toModel) := by
  obtain ⟨pb, ni, e⟩ := s
  obtain ⟨idx, nh⟩ := pb
  simp only [absN, obsOfNhB, NhObs.mk.injEq] at hb
  obtain ⟨h1, h2, h3, h4, h5, h6, h7, h8, h9, h10, h11, h12, h13⟩ := hb
  cases c <;> cases nh <;>
    simp [absN, obsOfNhB, runN, GNhCall.toModel, NhB.apply, (gen_encapMap _).1, (gen_encapMap _).2, flNWithIndex, flNWithNetworkInstance,
      flNWithIPAddress, flNWithInterfaceRef, flNWithSubinterfaceRef, flNWithMacAddress, flNWithIPinIP,
      flNWithNextHopNetworkInstance, flNWithPopTopLabel, flNWithDecapsulateHeader, flNWithEncapsulateHeader,
      flNWithElectionID, elecOf, ← h1, ← h2, ← h3, ← h4, ← h5, ← h6, ← h7, ← h8, ← h9, ← h10, ← h11, ← h12, ← h13]

theorem gen_nh_chain (cs : List GNhCall) (s : StN) (b : NhB) (hb : absN s = obsOfNhB b) :
    absN (cs.foldl runN s) = obsOfNhB ((cs.map GNhCall.toModel).foldl NhB.apply b) := by
  induction cs generalizing s b with
  | nil => exact hb
  | cons c t ih => simp only [List.foldl_cons, List.map_cons]; exact ih _ _ (gen_nh_step s c b hb)

/-- the parts of the payload the translated methods do not own (the pushed label stack, the
encapsulation headers) are left exactly as they are by every one of them -/
theorem gen_nh_frame (s : StN) (c : GNhCall) :
    ((runN s c).1.NextHop.map (·.PushedMplsLabelStack)).getD [] = (s.1.NextHop.map (·.PushedMplsLabelStack)).getD [] ∧
    ((runN s c).1.NextHop.map (·.EncapHeader)).getD 0 = (s.1.NextHop.map (·.EncapHeader)).getD 0 := by
  obtain ⟨pb, ni, e⟩ := s
  obtain ⟨idx, nh⟩ := pb
  cases c <;> cases nh <;> simp [runN, flNWithIndex, flNWithNetworkInstance,
      flNWithIPAddress, flNWithInterfaceRef, flNWithSubinterfaceRef, flNWithMacAddress, flNWithIPinIP,
      flNWithNextHopNetworkInstance, flNWithPopTopLabel, flNWithDecapsulateHeader, flNWithEncapsulateHeader,
      flNWithElectionID]

theorem gen_nh_opProto (s : StN) :
    (flNOpProto s.1 s.2.1 s.2.2).1 = some { NetworkInstance := s.2.1, Entry := some (.NextHop (some s.1)), ElectionId := s.2.2 } ∧
    (flNOpProto s.1 s.2.1 s.2.2).2.1 = none ∧ (flNOpProto s.1 s.2.1 s.2.2).2.2 = s := by
  obtain ⟨pb, ni, e⟩ := s
  exact ⟨rfl, rfl, rfl⟩

theorem gen_nh_entryProto (s : StN) :
    (flNEntryProto s.1 s.2.1 s.2.2).1 = some { NetworkInstance := s.2.1, Entry := some (.NextHop (some s.1)) } ∧
    (flNEntryProto s.1 s.2.1 s.2.2).2.1 = none ∧ (flNEntryProto s.1 s.2.1 s.2.2).2.2 = s := by
  obtain ⟨pb, ni, e⟩ := s
  exact ⟨rfl, rfl, rfl⟩

theorem gen_nh_constructor :
    Gen.flNewNextHopEntry = some { pb := initN.1, ni := initN.2.1, electionID := initN.2.2 } := rfl

theorem gen_nh_translated :
    Gen.flNewNextHopEntry_problem = none ∧ Gen.flNWithIndex_problem = none ∧ Gen.flNWithNetworkInstance_problem = none ∧
    Gen.flNWithIPAddress_problem = none ∧ Gen.flNWithInterfaceRef_problem = none ∧ Gen.flNWithSubinterfaceRef_problem = none ∧
    Gen.flNWithMacAddress_problem = none ∧ Gen.flNWithIPinIP_problem = none ∧ Gen.flNWithNextHopNetworkInstance_problem = none ∧
    Gen.flNWithPopTopLabel_problem = none ∧ Gen.flNWithDecapsulateHeader_problem = none ∧
    Gen.flNWithEncapsulateHeader_problem = none ∧ Gen.flNWithElectionID_problem = none ∧ Gen.flNOpProto_problem = none ∧
    Gen.flNEntryProto_problem = none := ⟨rfl, rfl, rfl, rfl, rfl, rfl, rfl, rfl, rfl, rfl, rfl, rfl, rfl, rfl, rfl⟩

/-! ### the Get and Flush request builders -/

inductive GGetCall where
  | all | name (ni : String) | aft (a : Int)
  deriving DecidableEq, Repr

def runGet (r : GetRequestG) : GGetCall → GetRequestG
  | .all => flGetAllNetworkInstances r
  | .name ni => flGetWithNetworkInstance ni r
  | .aft a => flGetWithAFT a r

/-- the table behind `WithAFT`: each fluent AFT constant names the protobuf AFT type of the same
table (in particular `IPv6` names `IPV6` and `NextHop` names `NEXTHOP`), anything else `INVALID` -/
theorem gen_aftMap (a : Int) :
    Gen.aftMap a = if a = 1 then AFTType_ALL else if a = 2 then AFTType_IPV4 else if a = 3 then AFTType_NEXTHOP_GROUP
      else if a = 4 then AFTType_NEXTHOP else if a = 5 then AFTType_IPV6 else AFTType_INVALID := rfl

/-- each Get setter changes the field it names and no other -/
theorem gen_get_step (r : GetRequestG) (c : GGetCall) :
    runGet r c = match c with
      | .all => { r with NetworkInstance := some .All }
      | .name ni => { r with NetworkInstance := some (.Name ni) }
      | .aft a => { r with Aft := Gen.aftMap a } := by
  cases c <;> rfl

/-- the request a chain of Get setters ends in names the instance of the last instance call -/
theorem gen_get_ni_last (pre rest : List GGetCall) (r : GetRequestG) (ni : String)
    (h : ∀ c ∈ rest, ∃ a, c = .aft a) :
    ((pre ++ .name ni :: rest).foldl runGet r).NetworkInstance = some (.Name ni) := by
  apply fold_last runGet (fun t => t.NetworkInstance)
  · intro t; rfl
  · intro c hc t; obtain ⟨a, rfl⟩ := h c hc; rfl

theorem gen_get_all_last (pre rest : List GGetCall) (r : GetRequestG)
    (h : ∀ c ∈ rest, ∃ a, c = .aft a) :
    ((pre ++ .all :: rest).foldl runGet r).NetworkInstance = some .All := by
  apply fold_last runGet (fun t => t.NetworkInstance)
  · intro t; rfl
  · intro c hc t; obtain ⟨a, rfl⟩ := h c hc; rfl

theorem gen_get_aft_last (pre rest : List GGetCall) (r : GetRequestG) (a : Int)
    (h : ∀ c ∈ rest, ∀ a', c ≠ .aft a') :
    ((pre ++ .aft a :: rest).foldl runGet r).Aft = Gen.aftMap a := by
  apply fold_last runGet (fun t => t.Aft)
  · intro t; rfl
  · intro c hc t
    cases c with
    | aft a' => exact absurd rfl (h _ hc a')
    | _ => rfl

inductive GFlushCall where
  | elec (lo hi : UInt64) | override | name (ni : String) | all
  deriving DecidableEq, Repr

def runFlush (r : FlushRequestB) : GFlushCall → FlushRequestB
  | .elec lo hi => flFlushWithElectionID lo hi r
  | .override => flFlushWithElectionOverride r
  | .name ni => flFlushWithNetworkInstance ni r
  | .all => flFlushWithAllNetworkInstances r

/-- each Flush setter changes the oneof it names and not the other -/
theorem gen_flush_step (r : FlushRequestB) (c : GFlushCall) :
    runFlush r c = match c with
      | .elec lo hi => { r with Election := some (.Id (some { lo := lo, hi := hi })) }
      | .override => { r with Election := some .Override }
      | .name ni => { r with NetworkInstance := some (.Name ni) }
      | .all => { r with NetworkInstance := some .All } := by
  cases c <;> rfl

def GFlushCall.isElec : GFlushCall → Bool
  | .elec _ _ | .override => true
  | _ => false

/-- the election choice of the request a chain ends in is the last one made: an explicit id
with exactly the two words given, or the override; untouched by the instance setters -/
theorem gen_flush_elec_last (pre rest : List GFlushCall) (r : FlushRequestB) (lo hi : UInt64)
    (h : ∀ c ∈ rest, c.isElec = false) :
    ((pre ++ .elec lo hi :: rest).foldl runFlush r).Election = some (.Id (some { lo := lo, hi := hi })) := by
  apply fold_last runFlush (fun t => t.Election)
  · intro t; rfl
  · intro c hc t
    have := h c hc
    cases c <;> first | rfl | simp [GFlushCall.isElec] at this

theorem gen_flush_override_last (pre rest : List GFlushCall) (r : FlushRequestB)
    (h : ∀ c ∈ rest, c.isElec = false) :
    ((pre ++ .override :: rest).foldl runFlush r).Election = some .Override := by
  apply fold_last runFlush (fun t => t.Election)
  · intro t; rfl
  · intro c hc t
    have := h c hc
    cases c <;> first | rfl | simp [GFlushCall.isElec] at this

theorem gen_flush_ni_last (pre rest : List GFlushCall) (r : FlushRequestB) (ni : String)
    (h : ∀ c ∈ rest, c.isElec = true) :
    ((pre ++ .name ni :: rest).foldl runFlush r).NetworkInstance = some (.Name ni) := by
  apply fold_last runFlush (fun t => t.NetworkInstance)
  · intro t; rfl
  · intro c hc t
    have := h c hc
    cases c <;> first | rfl | simp [GFlushCall.isElec] at this

/-- a request nobody set an election choice on carries none (the server then answers
`UNSPECIFIED_ELECTION_BEHAVIOR` in single-primary mode) -/
theorem gen_flush_elec_unset (cs : List GFlushCall) (h : ∀ c ∈ cs, c.isElec = false) :
    (cs.foldl runFlush { Election := none, NetworkInstance := none }).Election = none := by
  have := fold_frame runFlush (fun t => t.Election) cs { Election := none, NetworkInstance := none } (by
    intro c hc t
    have := h c hc
    cases c <;> first | rfl | simp [GFlushCall.isElec] at this)
  exact this.trans rfl

/-- the constructors allocate the states the chains above start from (`init4`, `init6`, `initL`,
`initG`): an empty protobuf with its payload message, no instance, no election id -/
theorem gen_constructors :
    Gen.flNewIPv4Entry = some { pb := init4.1, ni := init4.2.1, electionID := init4.2.2 } ∧
    Gen.flNewIPv6Entry = some { pb := init6.1, ni := init6.2.1, electionID := init6.2.2 } ∧
    Gen.flNewLabelEntry = some { pb := initL.1, ni := initL.2.1, electionID := initL.2.2 } ∧
    Gen.flNewNextHopGroupEntry = some { pb := initG.1, ni := initG.2.1, electionID := initG.2.2 } :=
  ⟨rfl, rfl, rfl, rfl⟩

theorem gen_constructors_translated :
    Gen.flNewIPv4Entry_problem = none ∧ Gen.flNewIPv6Entry_problem = none ∧ Gen.flNewLabelEntry_problem = none ∧
    Gen.flNewNextHopGroupEntry_problem = none := ⟨rfl, rfl, rfl, rfl⟩

/-- `c.Get()` / `c.Flush()` start from an empty request **every time they are called** (the
generated definitions take no state: nothing of an earlier chain can be in what they return) -/
theorem gen_request_constructors :
    Gen.flNewGet = some { pb := { NetworkInstance := none, Aft := AFTType_INVALID } } ∧
    Gen.flNewFlush = some { pb := { Election := none, NetworkInstance := none } } ∧
    Gen.flNewGet_problem = none ∧ Gen.flNewFlush_problem = none := ⟨rfl, rfl, rfl, rfl⟩

/-- a Get chain without an instance call names no instance; one without `WithAFT` names no table -/
theorem gen_get_unset (cs : List GGetCall) :
    ((∀ c ∈ cs, ∃ a, c = .aft a) →
      (cs.foldl runGet { NetworkInstance := none, Aft := AFTType_INVALID }).NetworkInstance = none) ∧
    ((∀ c ∈ cs, ∀ a, c ≠ .aft a) →
      (cs.foldl runGet { NetworkInstance := none, Aft := AFTType_INVALID }).Aft = AFTType_INVALID) := by
  constructor
  · intro h
    exact (fold_frame runGet (fun t => t.NetworkInstance) cs _ (by
      intro c hc t; obtain ⟨a, rfl⟩ := h c hc; rfl)).trans rfl
  · intro h
    exact (fold_frame runGet (fun t => t.Aft) cs _ (by
      intro c hc t
      cases c with
      | aft a => exact absurd rfl (h _ hc a)
      | _ => rfl)).trans rfl

theorem gen_builders_translated :
    Gen.fl4WithPrefix_problem = none ∧ Gen.fl4WithNetworkInstance_problem = none ∧ Gen.fl4WithNextHopGroup_problem = none ∧
    Gen.fl4WithNextHopGroupNetworkInstance_problem = none ∧ Gen.fl4WithMetadata_problem = none ∧
    Gen.fl4WithElectionID_problem = none ∧ Gen.fl4OpProto_problem = none ∧ Gen.fl4EntryProto_problem = none ∧
    Gen.fl6WithPrefix_problem = none ∧ Gen.fl6WithNetworkInstance_problem = none ∧ Gen.fl6WithNextHopGroup_problem = none ∧
    Gen.fl6WithNextHopGroupNetworkInstance_problem = none ∧ Gen.fl6WithMetadata_problem = none ∧
    Gen.fl6WithElectionID_problem = none ∧ Gen.fl6OpProto_problem = none ∧ Gen.fl6EntryProto_problem = none ∧
    Gen.flLWithLabel_problem = none ∧ Gen.flLWithNetworkInstance_problem = none ∧ Gen.flLWithNextHopGroup_problem = none ∧
    Gen.flLWithNextHopGroupNetworkInstance_problem = none ∧ Gen.flLWithPoppedLabelStack_problem = none ∧
    Gen.flLOpProto_problem = none ∧ Gen.flLEntryProto_problem = none ∧
    Gen.flGWithID_problem = none ∧ Gen.flGWithNetworkInstance_problem = none ∧ Gen.flGWithBackupNHG_problem = none ∧
    Gen.flGAddNextHop_problem = none ∧ Gen.flGWithElectionID_problem = none ∧ Gen.flGOpProto_problem = none ∧
    Gen.flGEntryProto_problem = none ∧
    Gen.flGetAllNetworkInstances_problem = none ∧ Gen.flGetWithNetworkInstance_problem = none ∧ Gen.flGetWithAFT_problem = none ∧
    Gen.flFlushWithElectionID_problem = none ∧ Gen.flFlushWithElectionOverride_problem = none ∧
    Gen.flFlushWithNetworkInstance_problem = none ∧ Gen.flFlushWithAllNetworkInstances_problem = none := by
  refine ⟨rfl, rfl, rfl, rfl, rfl, rfl, rfl, rfl, rfl, rfl, rfl, rfl, rfl, rfl, rfl, rfl, rfl, rfl, rfl, rfl, rfl, rfl, rfl,
    rfl, rfl, rfl, rfl, rfl, rfl, rfl, rfl, rfl, rfl, rfl, rfl, rfl, rfl⟩

end Gribi.GenEquiv
