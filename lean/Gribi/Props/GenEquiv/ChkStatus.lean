/-
The tie by translation, `chk.HasRecvClientErrorWithStatus` (chk/chk.go): the helper with which a
test asserts that the client saw a receive error with a given gRPC status. A status is its code,
message and (opaque) details; `*status.Status`, its protobuf and their copies are one structure;
what `status.FromError` makes of a receive error is how the error is represented (none: not a
status). The theorem gives the pass condition for every error, every wanted status and every list
of options, and shows it equal to the hand-written model's `Chk.hasRecvStatus`.
See `Gribi/Props/GenEquiv/Base.lean`.
-/
import Gribi.Gen.HasRecvStatus
import Gribi.Props.GenEquiv.ChkErr
namespace Gribi.GenEquiv.ChkStatus
open Gribi Gribi.Gen

/-- does the receive error `e` match the acceptable status `wo`? (`f1`: AllowUnimplemented was
given, `f2`: IgnoreDetails was given) -/
def matchP (f1 f2 : Bool) (e wo : Option GStatus) : Bool :=
  match e with
  | none => false
  | some s =>
    let ns : GStatus := if (wo.map (·.Message)).getD "" = "" then { s with Message := "" } else s
    let ns : GStatus := if (f1 && (wo.map (·.Code)).getD 0 == 12) || f2 then { ns with Details := none } else ns
    decide (some ns = wo)

theorem loop3_eq (f1 f2 : Bool) (e : Option GStatus) : ∀ (l : List (Option GStatus)) (found : Bool),
    hasRecvStatus.loop2.loop3 f1 f2 e l found = Sum.inr (found || l.any (matchP f1 f2 e)) := by
  intro l
  induction l with
  | nil => intro found; simp [hasRecvStatus.loop2.loop3]
  | cons wo t ih =>
    intro found
    rw [hasRecvStatus.loop2.loop3.eq_def]
    cases e with
    | none => simp [ih, matchP]
    | some s =>
      simp only [ih, matchP, List.any_cons]
      by_cases hm : (wo.map (fun v => v.Message)).getD "" = "" <;>
        by_cases hc : (wo.map (fun v => v.Code)).getD 0 = 12 <;>
        cases f1 <;> cases f2 <;> simp [hm, hc] <;>
        (split <;> simp_all)

theorem loop2_eq (okMsgs : List (Option GStatus)) (f1 f2 : Bool) : ∀ (l : List (Option GStatus)) (found : Bool),
    hasRecvStatus.loop2 okMsgs f1 f2 l found =
      Sum.inr (found || l.any (fun e => okMsgs.any (matchP f1 f2 e))) := by
  intro l
  induction l with
  | nil => intro found; simp [hasRecvStatus.loop2]
  | cons e t ih =>
    intro found
    rw [hasRecvStatus.loop2]
    simp [loop3_eq, ih, Bool.or_assoc]

/-- the acceptable statuses one option adds -/
def optMsgs (want : GStatus) (o : ErrOptG) : List (Option GStatus) :=
  (if o.IsAllowUnimplemented then [some ⟨12, "", none⟩] else []) ++
  (if o.IsIgnoreDetails then [some { want with Details := none }] else [])

theorem loop1_eq (want : GStatus) : ∀ (l : List ErrOptG) (ok : List (Option GStatus)) (f1 f2 : Bool),
    hasRecvStatus.loop1 want l ok f1 f2 =
      Sum.inr (ok ++ l.flatMap (optMsgs want), f1 || l.any (·.IsAllowUnimplemented), f2 || l.any (·.IsIgnoreDetails)) := by
  intro l
  induction l with
  | nil => intro ok f1 f2; simp [hasRecvStatus.loop1]
  | cons o t ih =>
    intro ok f1 f2
    rw [hasRecvStatus.loop1]
    cases h1 : o.IsAllowUnimplemented <;> cases h2 : o.IsIgnoreDetails <;>
      simp [ih, optMsgs, h1, h2, List.append_assoc]

/-- what `HasRecvClientErrorWithStatus` decides -/
def recvSpec (err : Option ErrView) (want : GStatus) (opts : List ErrOptG) : Bool :=
  let allow := opts.any (·.IsAllowUnimplemented)
  let ign := opts.any (·.IsIgnoreDetails)
  match err.bind (·.AsClientErr) with
  | none => false
  | some ce => ce.Recv.any (fun e => (some want :: opts.flatMap (optMsgs want)).any (matchP allow ign e))

/-- **`HasRecvClientErrorWithStatus`** passes exactly when the error is a ClientErr one of whose
receive errors is a status that matches one of the acceptable statuses — the wanted one, plain
`Unimplemented` with `AllowUnimplemented()`, the wanted one without details with `IgnoreDetails()`
— where the message is compared only if the acceptable status has one, and the details are dropped
for `Unimplemented` under `AllowUnimplemented()` and always under `IgnoreDetails()` -/
theorem gen_hasRecvStatus (err : Option ErrView) (want : GStatus) (opts : List ErrOptG) :
    Gen.hasRecvStatus err want opts = recvSpec err want opts := by
  unfold Gen.hasRecvStatus recvSpec
  simp only [loop1_eq, ChkErr.gen_clientError]
  cases h : err.bind (fun v => v.AsClientErr) with
  | none => simp
  | some ce =>
    simp only [loop2_eq, Bool.false_or, List.singleton_append]
    cases ce.Recv.any (fun e => (some want :: opts.flatMap (optMsgs want)).any
      (matchP (opts.any (·.IsAllowUnimplemented)) (opts.any (·.IsIgnoreDetails)) e)) <;> simp

/-! ### the same on the hand-written model -/

/-- a rendering of a status for the model: `rd` renders the details, injectively, nil as "" -/
structure DetRender (rd : Option String → String) : Prop where
  inj : ∀ a b, rd a = rd b → a = b
  nil : rd none = ""

def absSt (rd : Option String → String) (s : GStatus) : Chk.St := ⟨s.Code, s.Message, rd s.Details⟩

theorem absSt_inj (rd : Option String → String) (h : DetRender rd) (a b : GStatus) :
    absSt rd a = absSt rd b ↔ a = b := by
  constructor
  · intro e
    rcases a with ⟨c1, m1, d1⟩; rcases b with ⟨c2, m2, d2⟩
    simp only [absSt, Chk.St.mk.injEq] at e
    obtain ⟨e1, e2, e3⟩ := e
    subst e1; subst e2
    rw [h.inj _ _ e3]
  · intro e; rw [e]

/-- with one option of each kind at most what matters is which kinds were given: the model's flags -/
theorem matchP_model (rd : Option String → String) (h : DetRender rd) (f1 f2 : Bool) (s wo : GStatus) :
    matchP f1 f2 (some s) (some wo) =
      (let w := absSt rd wo
       let ns := if w.msg == "" then { absSt rd s with msg := "" } else absSt rd s
       let ns := if (f1 && w.code == Chk.unimplemented) || f2 then { ns with det := "" } else ns
       ns == w) := by
  simp only [matchP, Option.map_some, Option.getD_some, Option.some.injEq, absSt, Chk.unimplemented]
  rw [Bool.eq_iff_iff]
  by_cases hm : wo.Message = "" <;> by_cases hd : ((f1 && wo.Code == 12) || f2) = true <;>
    simp only [hm, hd, if_true, if_false, beq_self_eq_true, decide_eq_true_eq, beq_iff_eq, Chk.St.mk.injEq,
      Bool.false_eq_true] <;>
    rcases s with ⟨c1, m1, d1⟩ <;> rcases wo with ⟨c2, m2, d2⟩ <;>
    simp only [GStatus.mk.injEq] <;>
    constructor <;> intro e <;> simp_all
  · rw [← e.2.2]; exact h.nil
  · exact h.inj _ _ (by rw [e.2, h.nil])
  · exact h.inj _ _ e.2
  · rw [← e.2.2]; exact h.nil
  · exact h.inj _ _ (by rw [e.2.2, h.nil])
  · exact h.inj _ _ e.2.2

/-- **`HasRecvClientErrorWithStatus` = the model's `hasRecvStatus`** when each kind of option is
given at most once (the order and repetition of options only repeat acceptable statuses) -/
theorem gen_hasRecvStatus_model (rd : Option String → String) (h : DetRender rd)
    (err : Option ErrView) (want : GStatus) (allow ign : Bool) :
    Gen.hasRecvStatus err want ((if allow then [⟨true, false⟩] else []) ++ (if ign then [⟨false, true⟩] else [])) =
      Chk.hasRecvStatus (ChkErr.absErr (fun e => e.map (absSt rd)) err) (absSt rd want) allow ign := by
  rw [gen_hasRecvStatus]
  unfold recvSpec Chk.hasRecvStatus
  rcases err with _ | ⟨_ | ce⟩
  · simp [ChkErr.absErr]
  · simp [ChkErr.absErr]
  · simp only [Option.bind_some, ChkErr.absErr, List.any_map]
    congr 1
    funext e
    cases e with
    | none => simp [matchP, Function.comp]
    | some s =>
      simp only [Function.comp, Option.map_some]
      have hflags : (((if allow then [(⟨true, false⟩ : ErrOptG)] else []) ++ (if ign then [(⟨false, true⟩ : ErrOptG)] else [])).any (·.IsAllowUnimplemented)) = allow ∧
          (((if allow then [(⟨true, false⟩ : ErrOptG)] else []) ++ (if ign then [(⟨false, true⟩ : ErrOptG)] else [])).any (·.IsIgnoreDetails)) = ign := by
        cases allow <;> cases ign <;> simp
      rw [hflags.1, hflags.2]
      cases allow <;> cases ign <;>
        simp [optMsgs, matchP_model rd h, absSt, h.nil, Chk.unimplemented]

theorem gen_chkstatus_translated : Gen.hasRecvStatus_problem = none := rfl

/-- non-vacuity: an Unimplemented error passes a check for FailedPrecondition only with AllowUnimplemented -/
example :
    Gen.hasRecvStatus (some ⟨some ⟨[], [some ⟨12, "not supported", some "d"⟩]⟩⟩) ⟨9, "", none⟩ [⟨true, false⟩] = true ∧
    Gen.hasRecvStatus (some ⟨some ⟨[], [some ⟨12, "not supported", some "d"⟩]⟩⟩) ⟨9, "", none⟩ [] = false := by
  constructor <;> decide

end Gribi.GenEquiv.ChkStatus
