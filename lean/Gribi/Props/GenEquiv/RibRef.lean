/-
The tie by translation, the reference counters (rib/rib.go `handleReferences`,
`handleNHGReferences`). See `Gribi/Props/GenEquiv/Base.lean`.

The generated definitions return the counter operations they perform, in order
(`incNHGRef / decNHGRef / incNHRef / decNHRef` on the holder of a named instance). Folding those
operations over the model's counters gives exactly what the model's `Rib.reref` computes, for
every old and new payload, every set of instances, and (for groups) every member list with
repetitions and every order of the replaced group's map.
-/
import Gribi.Gen.HandleReferences
import Gribi.Gen.HandleNHGReferences
import Gribi.Model.Rib
import Gribi.Lemmas.Counters
namespace Gribi.GenEquiv.RibRef
open Gribi Gribi.Gen

/-- a counter operation applied to the model's two counter maps -/
def applyEff (s : Rib) : Eff → Rib
  | .incNHGRef ni id => { s with nhgRef := Rib.inc s.nhgRef (ni, id) }
  | .decNHGRef ni id => { s with nhgRef := Rib.dec s.nhgRef (ni, id) }
  | .incNHRef ni id => { s with nhRef := Rib.inc s.nhRef (ni, id) }
  | .decNHRef ni id => { s with nhRef := Rib.dec s.nhRef (ni, id) }
  | _ => s

def applyEffs (s : Rib) (l : List Eff) : Rib := l.foldl applyEff s

/-- `refdRIB` over the model's instances: the named instance, or the entry's own; an error when
the named one does not exist -/
def refNameM (ni ref : String) : String := if ref = "" then ni else ref
def refErrM (s : Rib) (_ni ref : String) : Option Status :=
  if ref = "" ∨ s.hasNI ref then none else some ⟨.InvalidArgument, .none⟩

/-- the protobuf payload of a top-level entry -/
def newTopOf (p : Payload) : NewTop :=
  { NextHopGroupNetworkInstance := some ⟨p.grpNI⟩, NextHopGroup := some ⟨p.grp⟩ }

/-- the installed entry that was replaced -/
def origTopOf (p : Payload) : OrigTop :=
  { NextHopGroupNetworkInstance := p.grpNI, NextHopGroup := p.grp }

@[simp] theorem hasNI_nhgRef (s : Rib) (m : Map (NI × Nat) Nat) (x : NI) : ({ s with nhgRef := m } : Rib).hasNI x = s.hasNI x := rfl
@[simp] theorem hasNI_nhRef (s : Rib) (m : Map (NI × Nat) Nat) (x : NI) : ({ s with nhRef := m } : Rib).hasNI x = s.hasNI x := rfl

theorem hasNI_applyEff (s : Rib) (e : Eff) (ni : NI) : (applyEff s e).hasNI ni = s.hasNI ni := by
  cases e <;> rfl

/-- `handleReferences` = the model's `reref` for a top-level entry (the entry's own instance
exists: `addEntryInternal` has checked it) -/
theorem gen_handleReferences (s : Rib) (ni : NI) (key : Key) (htop : key.isTop = true) (hni : s.hasNI ni = true)
    (old : Option Payload) (new : Payload) :
    applyEffs s (Gen.handleReferences ni (old.map origTopOf) (some (newTopOf new)) refNameM (refErrM s)) =
      Rib.reref s ni key old new := by
  have hk : Rib.reref s ni key old new =
      (match old with
       | none => Rib.incG s ni new
       | some o => if o.grpNI = new.grpNI ∧ o.grp = new.grp then s else Rib.incG (Rib.decG s ni o) ni new) := by
    cases key with
    | v4 _ => rfl
    | v6 _ => rfl
    | mpls _ => rfl
    | nhg _ => simp [Key.isTop] at htop
    | nh _ => simp [Key.isTop] at htop
  rw [hk]
  have hown : ∀ (t : Rib), t.hasNI ni = true → ∀ p : Payload, p.grpNI = "" → t.hasNI (Rib.tgtNI ni p) = true := by
    intro t ht p hp; simp [Rib.tgtNI, hp, ht]
  cases old with
  | none =>
    simp only [Option.map_none, Gen.handleReferences, handleReferences.join1, newTopOf, refNameM, refErrM, Rib.incG, Rib.tgtNI]
    by_cases hg : new.grpNI = ""
    · simp [hg, hni, applyEffs, applyEff]
    · by_cases hh : s.hasNI new.grpNI = true <;> simp [hg, hh, applyEffs, applyEff]
  | some o =>
    simp only [Option.map_some, Gen.handleReferences, handleReferences.join1, newTopOf, origTopOf, refNameM, refErrM,
      Rib.incG, Rib.decG, Rib.tgtNI]
    by_cases h1 : new.grpNI = o.grpNI
    · by_cases h2 : new.grp = o.grp
      · simp [h1, h2, applyEffs]
      · have h2' : ¬ o.grp = new.grp := fun h => h2 h.symm
        by_cases hg : o.grpNI = ""
        · simp [h1, h2, h2', hg, hni, applyEffs, applyEff]
        · by_cases hh : s.hasNI o.grpNI = true <;> simp [h1, h2, h2', hg, hh, applyEffs, applyEff]
    · have h1' : ¬ o.grpNI = new.grpNI := fun h => h1 h.symm
      by_cases hg : o.grpNI = "" <;> by_cases hg2 : new.grpNI = "" <;>
        by_cases hh : s.hasNI o.grpNI = true <;> by_cases hh2 : s.hasNI new.grpNI = true <;>
        simp_all [applyEffs, applyEff]


/-! ### groups -/

/-- the members the code counts: first occurrences, in order -/
def firsts : List Nat → List Nat → List Nat
  | _, [] => []
  | seen, n :: t => if seen.contains n then firsts seen t else n :: firsts (n :: seen) t

theorem mem_firsts (seen l : List Nat) (n : Nat) : n ∈ firsts seen l ↔ n ∈ l ∧ n ∉ seen := by
  induction l generalizing seen with
  | nil => simp [firsts]
  | cons a t ih =>
    unfold firsts
    by_cases h : seen.contains a = true
    · have ha : a ∈ seen := by simpa using h
      simp only [h, if_true, ih, List.mem_cons]
      constructor
      · rintro ⟨h1, h2⟩; exact ⟨Or.inr h1, h2⟩
      · rintro ⟨h1 | h1, h2⟩
        · subst h1; exact absurd ha h2
        · exact ⟨h1, h2⟩
    · have ha : a ∉ seen := by simpa using h
      simp only [h, Bool.false_eq_true, if_false, List.mem_cons, ih]
      constructor
      · rintro (h1 | ⟨h1, h2⟩)
        · subst h1; exact ⟨Or.inl rfl, ha⟩
        · exact ⟨Or.inr h1, fun hs => h2 (Or.inr hs)⟩
      · rintro ⟨h1 | h1, h2⟩
        · exact Or.inl h1
        · by_cases hna : n = a
          · exact Or.inl hna
          · exact Or.inr ⟨h1, fun hs => by cases hs with
              | inl h => exact hna h
              | inr h => exact h2 h⟩

theorem nodup_firsts (seen l : List Nat) : (firsts seen l).Nodup := by
  induction l generalizing seen with
  | nil => simp [firsts]
  | cons a t ih =>
    unfold firsts
    by_cases h : a ∈ seen
    · simp [h, ih]
    · simp only [List.contains_iff_mem, h, if_false, List.nodup_cons]
      refine ⟨?_, ih _⟩
      rw [mem_firsts]
      simp

theorem nhg_loop2 (ni : String) : ∀ (l : List OrigNHGMember) (effs : List Eff),
    handleNHGReferences.loop1.loop2 ni l effs = effs ++ l.map (fun m => Eff.decNHRef ni m.Index) := by
  intro l
  induction l with
  | nil => intro effs; simp [handleNHGReferences.loop1.loop2]
  | cons m t ih => intro effs; unfold handleNHGReferences.loop1.loop2; simp [ih]

theorem nhg_loop1 (ni : String) (orig : Option OrigNHG) : ∀ (l : List NewNHGMember) (seen : List Nat) (effs : List Eff),
    handleNHGReferences.loop1 ni orig l seen effs =
      effs ++ (firsts seen (l.map (·.Index))).map (fun n => Eff.incNHRef ni n) ++
        (match orig with
         | none => []
         | some o => o.NextHop.map (fun m => Eff.decNHRef ni m.Index)) := by
  intro l
  induction l with
  | nil =>
    intro seen effs
    unfold handleNHGReferences.loop1
    cases orig <;> simp [firsts, nhg_loop2]
  | cons m t ih =>
    intro seen effs
    unfold handleNHGReferences.loop1
    by_cases h : m.Index ∈ seen
    · simp [h, ih, firsts]
    · simp [h, ih, firsts]

/-- `handleNHGReferences` performs: one increment per distinct member of the new group (first
occurrences, in order), then one decrement per member of the replaced group -/
theorem gen_handleNHGReferences_effs (ni : String) (orig : Option OrigNHG) (new : NewNHG) :
    Gen.handleNHGReferences ni orig new =
      (firsts [] (new.NextHop.map (·.Index))).map (fun n => Eff.incNHRef ni n) ++
        (match orig with
         | none => []
         | some o => o.NextHop.map (fun m => Eff.decNHRef ni m.Index)) := by
  unfold Gen.handleNHGReferences
  simp [nhg_loop1]

theorem applyEffs_append (s : Rib) (a b : List Eff) : applyEffs s (a ++ b) = applyEffs (applyEffs s a) b := by
  simp [applyEffs, List.foldl_append]

theorem applyEffs_inc (s : Rib) (ni : String) (l : List Nat) :
    applyEffs s (l.map (fun n => Eff.incNHRef ni n)) = { s with nhRef := Rib.incL s.nhRef ni l } := by
  induction l generalizing s with
  | nil => simp [applyEffs, Rib.incL]
  | cons a t ih =>
    simp only [List.map_cons, applyEffs, List.foldl_cons] at ih ⊢
    rw [ih]
    simp [applyEff, Rib.incL]

theorem applyEffs_dec (s : Rib) (ni : String) (l : List Nat) :
    applyEffs s (l.map (fun n => Eff.decNHRef ni n)) = { s with nhRef := Rib.decL s.nhRef ni l } := by
  induction l generalizing s with
  | nil => simp [applyEffs, Rib.decL]
  | cons a t ih =>
    simp only [List.map_cons, applyEffs, List.foldl_cons] at ih ⊢
    rw [ih]
    simp [applyEff, Rib.decL]

/-- `handleNHGReferences` = the model's `reref` for a group, counter by counter. The members of
the replaced group are the entries of the installed group's map: distinct, and exactly the indices
its payload listed -/
theorem gen_handleNHGReferences (s : Rib) (ni : NI) (g : Nat) (old : Option Payload) (newp : Payload)
    (orig : Option OrigNHG) (new : NewNHG) (hnew : new.NextHop.map (·.Index) = newp.nhs)
    (hold : match old, orig with
      | none, none => True
      | some o, some og => (og.NextHop.map (·.Index)).Nodup ∧ ∀ n, n ∈ og.NextHop.map (·.Index) ↔ n ∈ o.nhs
      | _, _ => False) (x : NI × Nat) :
    Rib.cnt (applyEffs s (Gen.handleNHGReferences ni orig new)).nhRef x = Rib.cnt (Rib.reref s ni (.nhg g) old newp).nhRef x ∧
    (applyEffs s (Gen.handleNHGReferences ni orig new)).nhgRef = (Rib.reref s ni (.nhg g) old newp).nhgRef := by
  rw [gen_handleNHGReferences_effs, applyEffs_append, applyEffs_inc, hnew]
  cases old with
  | none =>
    cases orig with
    | some og => simp at hold
    | none =>
      simp only [applyEffs, List.foldl_nil, Rib.reref]
      refine ⟨?_, by first | rfl | trivial⟩
      rw [Rib.cnt_incL _ _ _ (nodup_firsts _ _), Rib.cnt_incL _ _ _ (Rib.nodup_dedup _)]
      simp [mem_firsts, Rib.mem_dedup]
  | some o =>
    cases orig with
    | none => simp at hold
    | some og =>
      obtain ⟨hnd, hmem⟩ := hold
      have : og.NextHop.map (fun m => Eff.decNHRef ni m.Index) = (og.NextHop.map (·.Index)).map (fun n => Eff.decNHRef ni n) := by
        simp [List.map_map]
      simp only [this, applyEffs_dec, Rib.reref]
      refine ⟨?_, by first | rfl | trivial⟩
      rw [Rib.cnt_decL _ _ _ hnd, Rib.cnt_decL _ _ _ (Rib.nodup_dedup _),
        Rib.cnt_incL _ _ _ (nodup_firsts _ _), Rib.cnt_incL _ _ _ (Rib.nodup_dedup _)]
      simp [mem_firsts, Rib.mem_dedup, hmem]

theorem gen_ribref_translated : Gen.handleReferences_problem = none ∧ Gen.handleNHGReferences_problem = none := ⟨rfl, rfl⟩

end Gribi.GenEquiv.RibRef
