/-
Non-vacuity: concrete, non-trivial histories that satisfy the hypotheses of the property
theorems (checked by kernel evaluation, `decide`), and small corollaries stated on them.
These are tests of the statements, labelled as such; the theorems are in C01/C02/C03/C16.
-/
import Gribi.Props.C02
import Gribi.Props.C16
namespace Gribi.Examples
open Gribi Rib

def nhOp (id : Nat) (ni : NI) (idx : Nat) : Op :=
  { id := id, ty := .add, ni := ni, key := .nh idx, pl := { body := "nh" } }
def nhgOp (id : Nat) (ni : NI) (g : Nat) (nhs : List Nat) : Op :=
  { id := id, ty := .add, ni := ni, key := .nhg g, pl := { nhs := nhs, body := "nhg" } }
def v4Op (id : Nat) (ty : OpType) (ni : NI) (p : String) (g : Nat) (gni : NI := "") : Op :=
  { id := id, ty := ty, ni := ni, key := .v4 p, pl := { grp := g, grpNI := gni, body := "v4" } }
def delOp (id : Nat) (ni : NI) (k : Key) : Op := { id := id, ty := .delete, ni := ni, key := k, pl := {} }

/-- a 10-step history: a forward reference resolved transitively, a cross-instance group
reference, a delete refused because of it, a retarget, deletes, and a full flush -/
def hist : List Rib.In :=
  [ .addNI "V",
    .setHook,
    .add (v4Op 1 .add "V" "1.0.0.0/8" 1 "D") [],          -- held: group D/1 missing
    .add (nhgOp 2 "D" 1 [1]) [],                           -- held: next-hop D/1 missing
    .add (nhOp 3 "D" 1) [.ok 2, .ok 1],                    -- resolves both, transitively
    .del (delOp 4 "D" (.nhg 1)),                           -- refused: V's entry points at it
    .add (nhgOp 5 "V" 7 [9]) [],                           -- held for ever
    .del (delOp 6 "V" (.v4 "1.0.0.0/8")),
    .del (delOp 7 "D" (.nhg 1)),                           -- now allowed
    .flush ["D", "V"] ]

example : (run (Rib.new "D") hist).isSome = true := by decide
example : ∀ i ∈ hist, C01.inWf i := by decide
-- acknowledgements, step by step
example : (run (Rib.new "D") hist).map (fun r => r.2.map (fun o => (o.oks.map (·.id), o.fails))) =
    some [([], []), ([], []), ([], []), ([], []), ([3, 2, 1], []), ([], [4]), ([], []), ([6], []), ([7], []), ([], [])] := by
  decide
-- the held operation 5 survives the flush, and nothing is installed
example : (run (Rib.new "D") hist).map (fun r => (r.1.ents.length, r.1.pend.map (·.1))) = some (0, [5]) := by decide

/-- C02, transitivity: the chain NH ← NHG ← IPv4 submitted in each of the six orders ends with
all three acknowledged by the last submission, none resent. -/
def chainOps : List Op := [nhOp 1 "D" 1, nhgOp 2 "D" 1 [1], v4Op 3 .add "D" "1.0.0.0/8" 1]

def ackedIds (ins : List Rib.In) : Option (List Nat) :=
  (run (Rib.new "D") ins).map (fun r => (r.2.map (fun o => o.oks.map (·.id))).flatten)

example : ackedIds [.add (nhOp 1 "D" 1) [], .add (nhgOp 2 "D" 1 [1]) [], .add (v4Op 3 .add "D" "1.0.0.0/8" 1) []] = some [1, 2, 3] := by decide
example : ackedIds [.add (nhOp 1 "D" 1) [], .add (v4Op 3 .add "D" "1.0.0.0/8" 1) [], .add (nhgOp 2 "D" 1 [1]) [.ok 3]] = some [1, 2, 3] := by decide
example : ackedIds [.add (nhgOp 2 "D" 1 [1]) [], .add (nhOp 1 "D" 1) [.ok 2], .add (v4Op 3 .add "D" "1.0.0.0/8" 1) []] = some [1, 2, 3] := by decide
example : ackedIds [.add (nhgOp 2 "D" 1 [1]) [], .add (v4Op 3 .add "D" "1.0.0.0/8" 1) [], .add (nhOp 1 "D" 1) [.ok 2, .ok 3]] = some [1, 2, 3] := by decide
example : ackedIds [.add (v4Op 3 .add "D" "1.0.0.0/8" 1) [], .add (nhOp 1 "D" 1) [], .add (nhgOp 2 "D" 1 [1]) [.ok 3]] = some [1, 2, 3] := by decide
example : ackedIds [.add (v4Op 3 .add "D" "1.0.0.0/8" 1) [], .add (nhgOp 2 "D" 1 [1]) [], .add (nhOp 1 "D" 1) [.ok 2, .ok 3]] = some [1, 2, 3] := by decide
-- an order the model does NOT accept: the entry cannot be acknowledged before its group
example : ackedIds [.add (v4Op 3 .add "D" "1.0.0.0/8" 1) [], .add (nhgOp 2 "D" 1 [1]) [], .add (nhOp 1 "D" 1) [.ok 3, .ok 2]] = none := by decide
-- nor one that leaves a resolvable operation held
example : ackedIds [.add (v4Op 3 .add "D" "1.0.0.0/8" 1) [], .add (nhgOp 2 "D" 1 [1]) [], .add (nhOp 1 "D" 1) [.ok 2]] = none := by decide

/-- the order-dependent case: a held ADD and a held REPLACE of one key waiting for one group;
both orders are accepted and give different outcomes — which is why the theorems quantify over
every accepted cascade rather than fixing one. -/
def twoHeld (script : List CEv) : List Rib.In :=
  [ .add (nhOp 1 "D" 1) [],
    .add (nhgOp 2 "D" 1 [1]) [],
    .add (v4Op 3 .add "D" "1.0.0.0/8" 1) [],
    .add (v4Op 4 .add "D" "1.0.0.0/8" 5) [],          -- held: group 5 missing
    .add (v4Op 5 .replace "D" "1.0.0.0/8" 5) [],      -- held: group 5 missing
    .del (delOp 6 "D" (.v4 "1.0.0.0/8")),
    .add (nhgOp 7 "D" 5 [1]) script ]
example : ((run (Rib.new "D") (twoHeld [.ok 4, .ok 5])).map (fun r => (r.2.map (fun o => (o.oks.map (·.id), o.fails))).getLast?)) =
    some (some ([7, 4, 5], [])) := by decide
example : ((run (Rib.new "D") (twoHeld [.fail 5, .ok 4])).map (fun r => (r.2.map (fun o => (o.oks.map (·.id), o.fails))).getLast?)) =
    some (some ([7, 4], [5])) := by decide
-- but the REPLACE cannot be acknowledged before the ADD re-creates its key
example : (run (Rib.new "D") (twoHeld [.ok 5, .ok 4])).isSome = false := by decide

/-- C03: the refused delete of `hist` is refused exactly because of the cross-instance referrer -/
example : ((run (Rib.new "D") (hist.take 5)).map (fun r => r.1.classifyDel (delOp 4 "D" (.nhg 1)))) = some .refd := by decide
example : ((run (Rib.new "D") (hist.take 8)).map (fun r => r.1.classifyDel (delOp 7 "D" (.nhg 1)))) = some .ok := by decide

/-- C02 disallowed: with forward references off the same submissions fail at once and nothing is held -/
example : (run (Rib.new "D" false) [.add (v4Op 1 .add "D" "1.0.0.0/8" 1) [], .add (nhgOp 2 "D" 1 [1]) []]).map
    (fun r => (r.2.map (·.fails), r.1.pend.length)) = some ([[1], [2]], 0) := by decide

/-- C16: folding the notifications of `hist` (hook registered at step 2) gives the final contents -/
example : (run (Rib.new "D") hist).map (fun r => (C16.foldHooks [] (C16.allHooks r.2)).length) = some 0 := by decide
example : (run (Rib.new "D") (hist.take 7)).map
    (fun r => ((C16.foldHooks [] (C16.allHooks r.2)).map (·.1), r.1.ents.map (·.1))) =
    some ([("V", Key.v4 "1.0.0.0/8"), ("D", Key.nhg 1), ("D", Key.nh 1)], [("V", Key.v4 "1.0.0.0/8"), ("D", Key.nhg 1), ("D", Key.nh 1)]) := by
  decide

/-- the label bound: DELETE of 2^32+100 is refused and label 100 stays (repaired D6) -/
example : let s := (run (Rib.new "D") [.add (nhOp 1 "D" 1) [], .add (nhgOp 2 "D" 1 [1]) [],
      .add { id := 3, ty := .add, ni := "D", key := .mpls 100, pl := { grp := 1 } } []]).map (·.1)
    s.map (fun s => ((s.del (delOp 4 "D" (.mpls (2 ^ 32 + 100)))).2.fails, (s.del (delOp 4 "D" (.mpls (2 ^ 32 + 100)))).1.ents.length)) =
      some ([4], 3) := by decide

end Gribi.Examples
