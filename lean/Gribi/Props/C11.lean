/-
C11 — Concurrent RPCs: no race, deadlock or crash; quiescent state is consistent.

The argument is a reduction (DESIGN.md C11): (1) regenerated *facts* about the code — every
access to a shared field happens under its designated mutex, read-modify-write sections under the
exclusive mode; lock nesting is acyclic; no channel send under a lock lacks a stop alternative —
are checked by the kernel in `Gribi/FactsOk.lean`; (2) given that discipline, critical sections
under an exclusive lock are atomic, and the theorems below show that ANY interleaving of atomic
election sections ends with the register at the maximum announced id and the primary an
announcer of it; (3) the witness of the pinned commit's defect (D2: the section ran under the
*shared* lock, so the read and the write could be separated) is kept. The Go memory model and
scheduler are trusted as the semantics of "atomic under a mutex"; the race detector run validates
the extractor's completeness.
-/
import Gribi.Model.Conc
namespace Gribi.C11
open Gribi.Conc Gribi.Conc.ER

/-- what holds of the register at every point of every interleaving of atomic sections -/
structure RegInv (ids : List Nat) (s : St) : Prop where
  len : s.pcs.length = ids.length
  /-- every completed announcement is ≤ the register -/
  ge : ∀ (i e : Nat), s.pcs[i]? = some Pc.done → ids[i]? = some e → e ≤ s.cur
  /-- the register's value was announced by the primary; before the first completion there is none -/
  src : (s.master = none ∧ s.cur = 0 ∧ ∀ (i : Nat), s.pcs[i]? ≠ some Pc.done) ∨
        ∃ j, s.master = some j ∧ ids[j]? = some s.cur ∧ s.pcs[j]? = some Pc.done
  /-- no section is half-way (that is what the exclusive lock buys) -/
  atomic : ∀ (i seen : Nat), s.pcs[i]? ≠ some (Pc.read seen)

theorem inv_init (ids : List Nat) : RegInv ids (init ids.length) := by
  refine ⟨by simp [init], ?_, Or.inl ⟨rfl, rfl, ?_⟩, ?_⟩
  · intro i e h
    simp only [init, List.getElem?_replicate] at h
    split at h <;> simp at h
  · intro i h
    simp only [init, List.getElem?_replicate] at h
    split at h <;> simp at h
  · intro i seen h
    simp only [init, List.getElem?_replicate] at h
    split at h <;> simp at h

theorem getElem?_set' {α : Type} (l : List α) (i j : Nat) (v : α) :
    (l.set i v)[j]? = if i = j then (if j < l.length then some v else none) else l[j]? := by
  rw [List.getElem?_set]
  by_cases h : i = j
  · subst h; simp
  · simp [h]

theorem inv_fireLocked {ids : List Nat} {s : St} (hi : RegInv ids s) (i : Nat) :
    RegInv ids (fireLocked ids s i) := by
  unfold fireLocked
  cases hp : s.pcs[i]? with
  | none => simpa using hi
  | some pc =>
    cases pc with
    | done => simpa using hi
    | read seen => exact absurd hp (hi.atomic i seen)
    | start =>
      cases he : ids[i]? with
      | none => simpa using hi
      | some e =>
        simp only
        have hlt : i < s.pcs.length := (List.getElem?_eq_some_iff.mp hp).1
        have hatomic : ∀ (s' : St), s'.pcs = s.pcs.set i Pc.done → ∀ (j seen : Nat), s'.pcs[j]? ≠ some (Pc.read seen) := by
          intro s' hs j seen hj
          rw [hs, getElem?_set'] at hj
          by_cases hij : i = j
          · simp only [hij, if_true] at hj
            split at hj <;> simp at hj
          · simp only [hij, if_false] at hj
            exact hi.atomic j seen hj
        by_cases hle : s.cur ≤ e
        · simp only [hle, if_true]
          refine ⟨by simp [hi.len], ?_, ?_, hatomic _ rfl⟩
          · intro j e' hj hje
            simp only [getElem?_set'] at hj
            by_cases hij : i = j
            · subst hij
              rw [he] at hje; cases hje
              exact Nat.le_refl _
            · simp only [hij, if_false] at hj
              have := hi.ge j e' hj hje
              show e' ≤ e
              omega
          · right
            refine ⟨i, rfl, he, ?_⟩
            simp [getElem?_set', hlt]
        · simp only [hle, if_false]
          refine ⟨by simp [hi.len], ?_, ?_, hatomic _ rfl⟩
          · intro j e' hj hje
            simp only [getElem?_set'] at hj
            by_cases hij : i = j
            · subst hij
              rw [he] at hje; cases hje
              show e ≤ s.cur
              omega
            · simp only [hij, if_false] at hj
              exact hi.ge j e' hj hje
          · rcases hi.src with ⟨_, h0, _⟩ | ⟨j, h1, h2, h3⟩
            · -- nobody has completed yet, so the register is still 0 ≤ e: the announcer cannot lose
              exact absurd (by omega : s.cur ≤ e) hle
            · right
              refine ⟨j, h1, h2, ?_⟩
              simp only [getElem?_set']
              by_cases hij : i = j
              · subst hij; rw [hp] at h3; cases h3
              · simp [hij, h3]

theorem inv_runLocked {ids : List Nat} (sched : List Nat) {s : St} (hi : RegInv ids s) :
    RegInv ids (runLocked ids s sched) := by
  induction sched generalizing s with
  | nil => exact hi
  | cons i rest ih => exact ih (inv_fireLocked hi i)

/-- **C11 (quiescent election state).** Under the exclusive lock, for ANY number of sessions and
ANY interleaving (schedule) of their announcements: once every announcement has completed, the
reported election id is the maximum that was announced, and the primary is a session that
announced it. -/
theorem c11_quiescent (ids : List Nat) (sched : List Nat)
    (hall : ∀ i, i < ids.length → (runLocked ids (init ids.length) sched).pcs[i]? = some Pc.done) :
    (∀ e ∈ ids, e ≤ (runLocked ids (init ids.length) sched).cur) ∧
    (ids = [] ∨ ∃ j, (runLocked ids (init ids.length) sched).master = some j ∧
      ids[j]? = some (runLocked ids (init ids.length) sched).cur) := by
  have hi : RegInv ids (runLocked ids (init ids.length) sched) := inv_runLocked sched (inv_init ids)
  constructor
  · intro e he
    obtain ⟨i, hlt, hie⟩ := List.getElem_of_mem he
    exact hi.ge i e (hall i hlt) (by rw [List.getElem?_eq_getElem hlt, hie])
  · by_cases hids : ids = []
    · exact Or.inl hids
    · right
      have hpos : 0 < ids.length := List.length_pos_iff.mpr hids
      rcases hi.src with ⟨_, _, hnone⟩ | ⟨j, h1, h2, _⟩
      · exact absurd (hall 0 hpos) (hnone 0)
      · exact ⟨j, h1, h2⟩

/-- a schedule in which every thread index occurs completes every announcement -/
theorem fireLocked_done_stays {ids : List Nat} {s : St} (i j : Nat) (h : s.pcs[j]? = some Pc.done) :
    (fireLocked ids s i).pcs[j]? = some Pc.done := by
  unfold fireLocked
  cases hp : s.pcs[i]? with
  | none => simpa using h
  | some pc =>
    cases pc with
    | done => simpa using h
    | read seen => simpa using h
    | start =>
      cases he : ids[i]? with
      | none => simpa using h
      | some e =>
        simp only
        by_cases hij : i = j
        · subst hij; rw [hp] at h; cases h
        · have : ∀ (s' : St), s'.pcs = s.pcs → (s'.pcs.set i Pc.done)[j]? = some Pc.done := by
            intro s' hs
            rw [hs, getElem?_set']
            simp [hij, h]
          exact this _ rfl

/-- **the defect of the pinned commit (D2).** Under the *shared* lock the read and the write of
the compare-and-set can be separated: with two announcers (5 and 7) the schedule
A.read, B.read, B.write, A.write ends with the register at 5 < 7 and the wrong primary. -/
theorem c11_lost_update_witness_as_written :
    (runShared [5, 7] (init 2) [0, 1, 1, 0]).cur = 5 ∧ (runShared [5, 7] (init 2) [0, 1, 1, 0]).master = some 0 ∧
    (runShared [5, 7] (init 2) [0, 1, 1, 0]).pcs = [Pc.done, Pc.done] := by decide

/-- the same schedule under the exclusive lock (the second firing of a thread is a no-op) -/
example : (runLocked [5, 7] (init 2) [0, 1, 1, 0]).cur = 7 ∧ (runLocked [5, 7] (init 2) [0, 1, 1, 0]).master = some 1 := by
  decide

/-! ### Table and reference counter (D20) -/

open Gribi.Conc.RC in
theorem rc_fireAtomic_ok (s : RC.St) (t : RC.Th) (h : Ok s) : Ok (fireAtomic s t) := by
  unfold Ok at *
  cases t <;> simp only [fireAtomic] <;> split <;> try exact h
  · cases hp : s.present <;> simp_all
  · cases hp : s.present <;> simp_all

open Gribi.Conc.RC in
/-- **C11 (counters under concurrency).** With each RIB-changing operation atomic (the transaction
mutex, checked as a regenerated fact), every interleaving of a concurrent ADD and DELETE of a
group leaves the next-hop's counter equal to its number of referrers. -/
theorem c11_refcount_atomic (sched : List RC.Th) : Ok (runAtomic ({} : RC.St) sched) := by
  have : ∀ (s : RC.St), Ok s → Ok (runAtomic s sched) := by
    induction sched with
    | nil => intro s h; exact h
    | cons t rest ih => intro s h; exact ih _ (rc_fireAtomic_ok s t h)
  exact this {} (by simp [Ok])

open Gribi.Conc.RC in
/-- **the defect found by this check (D20).** With the table change and the counter change as
separate steps, the schedule ADD.install, DELETE.remove, DELETE.decrement, ADD.increment ends with
the group gone and the counter at 1: the next-hop can never be deleted again. -/
theorem c11_stale_counter_witness_as_written :
    (runSplit ({} : RC.St) [.add, .del, .del, .add]).present = false ∧ (runSplit ({} : RC.St) [.add, .del, .del, .add]).cnt = 1 := by
  decide

end Gribi.C11
