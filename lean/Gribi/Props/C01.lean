/-
C01 — Installed state equals the fold of acknowledged operations.

For every history of AddEntry / DeleteEntry / Flush / AddNetworkInstance / SetPostChangeHook
calls on the RIB model, with forward references allowed or not, and for every cascade order
the model accepts, the installed entries are exactly the result of applying the
*acknowledged* operations (those reported as programmed, in report order; flushes) to the
initial contents under gRIBI semantics. Operations answered FAILED and operations that are
held leave no trace.
-/
import Gribi.Lemmas.RibBasic
namespace Gribi.C01
open Gribi Rib Spec

/-- ADD/REPLACE operations go to `AddEntry`, DELETE operations to `DeleteEntry` (this is the
dispatch of `server.modifyEntry`, proved for the server model in `Props/C04`). -/
def inWf : Rib.In → Prop
  | .add op _ => op.ty = .add ∨ op.ty = .replace
  | .del op => op.ty = .delete
  | _ => True

instance (i : Rib.In) : Decidable (inWf i) := by
  cases i <;> simp only [inWf] <;> infer_instance

/-- every held operation is an ADD or REPLACE -/
def PendWf (s : Rib) : Prop :=
  ∀ id op, s.pend.get? id = some op → (op.ty = .add ∨ op.ty = .replace)

/-- what the step acknowledged -/
def acks (i : Rib.In) (o : Rib.Out) : List Ack :=
  match i with
  | .flush nis => [.flushed nis]
  | _ => o.oks.map .prog

def acksAll : List Rib.In → List Rib.Out → List Ack
  | i :: is, o :: os => acks i o ++ acksAll is os
  | _, _ => []

theorem applyAck_equiv {a b : Map EKey Payload} (h : a ≃ₘ b) (x : Ack) : applyAck a x ≃ₘ applyAck b x := by
  cases x with
  | prog op =>
    simp only [applyAck]
    split
    · exact h.insert _ _
    · exact h.insert _ _
    · exact h.erase _
    · exact h
  | flushed nis =>
    simp only [applyAck]
    exact h.eraseP _

theorem foldl_applyAck_equiv (l : List Ack) {a b : Map EKey Payload} (h : a ≃ₘ b) :
    l.foldl applyAck a ≃ₘ l.foldl applyAck b := by
  induction l generalizing a b with
  | nil => exact h
  | cons x xs ih => exact ih (applyAck_equiv h x)

theorem pendWf_erase {s : Rib} (h : PendWf s) (id : Nat) (s' : Rib) (hp : s'.pend = s.pend.erase id) : PendWf s' := by
  intro id' op hg
  rw [hp, Map.get?_erase] at hg
  split at hg
  · cases hg
  · exact h id' op hg

theorem fire_ents {s s' : Rib} {ev : CEv} {o : Out} (h : fire s ev = some (s', o)) (hp : PendWf s) :
    s'.ents = (o.oks.map Ack.prog).foldl applyAck s.ents ∧ PendWf s' := by
  unfold fire at h
  cases ev with
  | ok id =>
    simp only at h
    split at h
    · cases h
    · rename_i op hop
      split at h
      · cases h
        have hty := hp id op hop
        refine ⟨?_, ?_⟩
        · simp only [List.map, List.foldl, applyAck, install_ents]
          rcases hty with h1 | h1 <;> simp [h1]
        · apply pendWf_erase (s := s) hp id
          simp
      · cases h
  | fail id =>
    simp only at h
    split at h
    · cases h
    · split at h
      · cases h
        exact ⟨rfl, pendWf_erase hp id _ rfl⟩
      · cases h

theorem runCascade_ents {s s' : Rib} {script : List CEv} {o : Out}
    (h : runCascade s script = some (s', o)) (hp : PendWf s) :
    s'.ents = (o.oks.map Ack.prog).foldl applyAck s.ents ∧ PendWf s' := by
  induction script generalizing s o with
  | nil =>
    simp only [runCascade, Option.some.injEq, Prod.mk.injEq] at h
    obtain ⟨rfl, rfl⟩ := h
    exact ⟨rfl, hp⟩
  | cons ev rest ih =>
    simp only [runCascade] at h
    split at h
    · cases h
    · rename_i s1 o1 h1
      split at h
      · cases h
      · rename_i s2 o2 h2
        cases h
        obtain ⟨e1, p1⟩ := fire_ents h1 hp
        obtain ⟨e2, p2⟩ := ih h2 p1
        refine ⟨?_, p2⟩
        rw [e2, e1]
        simp [Out.append, List.foldl_append]

theorem add_ents {s s' : Rib} {op : Op} {script : List CEv} {o : Out}
    (h : Rib.add s op script = some (s', o)) (hp : PendWf s) (hty : op.ty = .add ∨ op.ty = .replace) :
    s'.ents = (o.oks.map Ack.prog).foldl applyAck s.ents ∧ PendWf s' := by
  unfold Rib.add at h
  split at h
  · split at h
    · cases h; exact ⟨rfl, hp⟩
    · cases h
  · split at h
    · -- err
      split at h
      · cases h; exact ⟨rfl, pendWf_erase hp op.id _ rfl⟩
      · cases h
    · -- hold
      split at h
      · cases h
      · split at h
        · cases h
          refine ⟨rfl, ?_⟩
          intro id' op' hg
          simp only [Map.get?_insert] at hg
          split at hg
          · cases hg; exact hty
          · exact hp id' op' hg
        · cases h; exact ⟨rfl, hp⟩
    · -- ok
      simp only at h
      split at h
      · cases h
      · rename_i s2 o2 hc
        split at h
        · cases h
          have hp1 : PendWf { (install s op).1 with pend := (install s op).1.pend.erase op.id } := by
            apply pendWf_erase (s := s) hp op.id
            simp
          obtain ⟨e2, p2⟩ := runCascade_ents hc hp1
          refine ⟨?_, p2⟩
          rw [e2]
          simp only [Out.append, List.map_append, List.foldl_append, List.map, List.foldl, applyAck, install_ents]
          rcases hty with h1 | h1 <;> simp [h1]
        · cases h

theorem del_ents (s : Rib) (op : Op) (hty : op.ty = .delete) :
    (Rib.del s op).1.ents ≃ₘ ((Rib.del s op).2.oks.map Ack.prog).foldl applyAck s.ents ∧
    (Rib.del s op).1.pend = s.pend := by
  unfold Rib.del
  split
  · exact ⟨MapEquiv.refl _, rfl⟩
  · split
    · exact ⟨MapEquiv.refl _, rfl⟩
    · exact ⟨MapEquiv.refl _, rfl⟩
    · -- absent: erase of an absent key changes nothing observable
      rename_i habs
      refine ⟨?_, rfl⟩
      simp only [List.map, List.foldl, applyAck, hty]
      intro k
      rw [Map.get?_erase]
      split
      · rename_i hk
        subst hk
        -- classifyDel = absent means the key is not installed
        have : s.has (op.ni, op.key) = false := by
          unfold classifyDel at habs
          split at habs
          · cases habs
          · split at habs <;> (repeat' split at habs) <;> simp_all
        simpa [Rib.has, Map.has] using this
      · rfl
    · split
      · exact ⟨by
          rename_i hnone
          simp only [List.map, List.foldl, applyAck, hty]
          intro k
          rw [Map.get?_erase]
          split
          · rename_i hk; subst hk; exact hnone
          · rfl, rfl⟩
      · refine ⟨?_, by simp⟩
        simp only [List.map, List.foldl, applyAck, hty, unref_ents]
        exact MapEquiv.refl _

theorem flushNI_ents (s : Rib) (ni : NI) :
    (flushNI s ni).1.ents = s.ents.eraseP (fun k => k.1 == ni) ∧ (flushNI s ni).1.pend = s.pend := by
  unfold flushNI
  simp only
  have : ∀ (l : Map EKey Payload) (s : Rib),
      (l.foldl (fun s e => unref s ni e.1.2 e.2) s).ents = s.ents ∧
      (l.foldl (fun s e => unref s ni e.1.2 e.2) s).pend = s.pend := by
    intro l
    induction l with
    | nil => intro s; exact ⟨rfl, rfl⟩
    | cons e t ih =>
      intro s
      simp only [List.foldl]
      obtain ⟨h1, h2⟩ := ih (unref s ni e.1.2 e.2)
      exact ⟨by rw [h1]; simp, by rw [h2]; simp⟩
  obtain ⟨h1, h2⟩ := this (s.entsOf ni) s
  exact ⟨by rw [h1], h2⟩

theorem flush_ents (s : Rib) (nis : List NI) :
    (flush s nis).1.ents ≃ₘ s.ents.eraseP (fun k => nis.contains k.1) ∧ (flush s nis).1.pend = s.pend := by
  induction nis generalizing s with
  | nil =>
    refine ⟨?_, rfl⟩
    intro k; simp [flush, Map.get?_eraseP]
  | cons ni rest ih =>
    simp only [flush]
    obtain ⟨h1, h2⟩ := flushNI_ents s ni
    obtain ⟨h3, h4⟩ := ih (flushNI s ni).1
    refine ⟨?_, by rw [h4, h2]⟩
    intro k
    rw [h3 k, h1]
    simp only [Map.get?_eraseP, List.contains_cons]
    by_cases hk : k.1 = ni
    · simp [hk]
    · have : (k.1 == ni) = false := by simpa using hk
      simp [this]

/-- one step: the new contents are the old contents with this step's acknowledgements applied -/
theorem step_ents {s s' : Rib} {i : Rib.In} {o : Out} (h : step s i = some (s', o))
    (hp : PendWf s) (hw : inWf i) :
    s'.ents ≃ₘ (acks i o).foldl applyAck s.ents ∧ PendWf s' := by
  cases i with
  | add op script =>
    obtain ⟨e, p⟩ := add_ents h hp hw
    exact ⟨by rw [e]; exact MapEquiv.refl _, p⟩
  | del op =>
    simp only [step, Option.some.injEq] at h
    obtain ⟨e, p⟩ := del_ents s op hw
    rw [h] at e p
    refine ⟨e, ?_⟩
    intro id op' hg
    rw [p] at hg
    exact hp id op' hg
  | flush nis =>
    simp only [step, Option.some.injEq, Prod.mk.injEq] at h
    obtain ⟨rfl, rfl⟩ := h
    obtain ⟨e, p⟩ := flush_ents s nis
    refine ⟨?_, ?_⟩
    · simpa [acks, applyAck] using e
    · intro id op' hg
      rw [p] at hg
      exact hp id op' hg
  | addNI ni =>
    simp only [step, Option.some.injEq, Prod.mk.injEq] at h
    obtain ⟨rfl, rfl⟩ := h
    refine ⟨?_, ?_⟩
    · simp only [acks, List.map, List.foldl]
      unfold addNI; split <;> exact MapEquiv.refl _
    · intro id op' hg
      have : (addNI s ni).1.pend = s.pend := by unfold addNI; split <;> rfl
      rw [this] at hg
      exact hp id op' hg
  | setHook =>
    simp only [step, Option.some.injEq, Prod.mk.injEq] at h
    obtain ⟨rfl, rfl⟩ := h
    exact ⟨MapEquiv.refl _, hp⟩

/-- **C01.** After any accepted history, the installed entries are the fold of the
acknowledged operations over the initial contents. -/
theorem c01_fold {s s' : Rib} {ins : List Rib.In} {outs : List Out}
    (h : run s ins = some (s', outs)) (hp : PendWf s) (hw : ∀ i ∈ ins, inWf i) :
    s'.ents ≃ₘ (acksAll ins outs).foldl applyAck s.ents := by
  induction ins generalizing s outs with
  | nil =>
    simp only [run, Option.some.injEq, Prod.mk.injEq] at h
    obtain ⟨rfl, rfl⟩ := h
    exact MapEquiv.refl _
  | cons i rest ih =>
    simp only [run] at h
    split at h
    · cases h
    · rename_i s1 o1 h1
      split at h
      · cases h
      · rename_i s2 os h2
        cases h
        obtain ⟨e1, p1⟩ := step_ents h1 hp (hw i List.mem_cons_self)
        have e2 := ih h2 p1 (fun j hj => hw j (List.mem_cons_of_mem _ hj))
        simp only [acksAll, List.foldl_append]
        exact e2.trans (foldl_applyAck_equiv _ e1)

/-- from an empty RIB: contents = `Spec.fold` of the acknowledgements -/
theorem c01_fold_from_new (dflt : NI) (fwd : Bool) {s' : Rib} {ins : List Rib.In} {outs : List Out}
    (h : run (Rib.new dflt fwd) ins = some (s', outs)) (hw : ∀ i ∈ ins, inWf i) :
    s'.ents ≃ₘ Spec.fold (acksAll ins outs) := by
  have := c01_fold h (by intro id op hg; simp [Rib.new] at hg) hw
  simpa [Spec.fold, Rib.new] using this

/-- a step that acknowledges nothing (FAILED, held, fatal) leaves the contents unchanged -/
theorem c01_failed_no_trace {s s' : Rib} {i : Rib.In} {o : Out} (h : step s i = some (s', o))
    (hp : PendWf s) (hw : inWf i) (hno : acks i o = []) : s'.ents ≃ₘ s.ents := by
  have := (step_ents h hp hw).1
  rw [hno] at this
  exact this

/-- DELETE removes only the named key -/
theorem c01_delete_only_named (s : Rib) (op : Op) (k : EKey)
    (hk : k ≠ (op.ni, op.key)) : (Rib.del s op).1.ents.get? k = s.ents.get? k := by
  unfold Rib.del
  split
  · rfl
  · split
    · rfl
    · rfl
    · rfl
    · split
      · rfl
      · simp [Map.get?_erase, Ne.symm hk]

/-- DELETE is idempotent: deleting a key that is not installed succeeds and changes nothing -/
theorem c01_delete_idempotent (s : Rib) (op : Op) (h : classifyDel s op = .absent)
    (hni : ¬ (op.cls = .noEntry ∨ ¬ s.hasNI op.ni)) :
    (Rib.del s op).1 = s ∧ (Rib.del s op).2.oks = [op] ∧ (Rib.del s op).2.fails = [] := by
  unfold Rib.del
  rw [if_neg hni]
  simp [h]

end Gribi.C01
