/-
C05 — Primary = highest 128-bit election id; reported id is the running maximum.

* the comparison is the order of unsigned 128-bit integers, for all 2^256 pairs;
* after any history of events (announcements by any number of sessions interleaved with
  every other kind of event) the server's election id is the maximum of the accepted
  announcements, it never decreases, every election response carries it, and the primary is
  the last announcer of a running maximum; a lower announcement changes neither.
-/
import Gribi.Model.Server
namespace Gribi.C05
open Gribi Server

theorem u128_le_iff (a b : U128) : U128.le a b = true ↔ a.toNat ≤ b.toNat := by
  unfold U128.le U128.toNat
  have h1 := a.hi.toNat_lt
  have h2 := a.lo.toNat_lt
  have h3 := b.hi.toNat_lt
  have h4 := b.lo.toNat_lt
  simp only [Bool.or_eq_true, decide_eq_true_eq, Bool.and_eq_true, beq_iff_eq,
    UInt64.lt_iff_toNat_lt, UInt64.le_iff_toNat_le, ← UInt64.toNat_inj]
  constructor
  · rintro (h | ⟨h, h'⟩)
    · have : (a.hi.toNat + 1) * 2 ^ 64 ≤ b.hi.toNat * 2 ^ 64 := Nat.mul_le_mul_right _ h
      omega
    · rw [h]; omega
  · intro h
    by_cases hlt : a.hi.toNat < b.hi.toNat
    · exact Or.inl hlt
    · right
      have hge : b.hi.toNat ≤ a.hi.toNat := by omega
      have : b.hi.toNat * 2 ^ 64 ≤ a.hi.toNat * 2 ^ 64 := Nat.mul_le_mul_right _ hge
      by_cases heq : a.hi.toNat = b.hi.toNat
      · exact ⟨heq, by rw [heq] at h; omega⟩
      · exfalso
        have : (b.hi.toNat + 1) * 2 ^ 64 ≤ a.hi.toNat * 2 ^ 64 := Nat.mul_le_mul_right _ (by omega)
        omega

theorem u128_lt_iff (a b : U128) : U128.lt a b = true ↔ a.toNat < b.toNat := by
  unfold U128.lt U128.toNat
  have h1 := a.hi.toNat_lt
  have h2 := a.lo.toNat_lt
  have h3 := b.hi.toNat_lt
  have h4 := b.lo.toNat_lt
  simp only [Bool.or_eq_true, decide_eq_true_eq, Bool.and_eq_true, beq_iff_eq,
    UInt64.lt_iff_toNat_lt, ← UInt64.toNat_inj]
  constructor
  · rintro (h | ⟨h, h'⟩)
    · have : (a.hi.toNat + 1) * 2 ^ 64 ≤ b.hi.toNat * 2 ^ 64 := Nat.mul_le_mul_right _ h
      omega
    · rw [h]; omega
  · intro h
    by_cases hlt : a.hi.toNat < b.hi.toNat
    · exact Or.inl hlt
    · right
      by_cases heq : a.hi.toNat = b.hi.toNat
      · exact ⟨heq, by rw [heq] at h; omega⟩
      · exfalso
        have : (b.hi.toNat + 1) * 2 ^ 64 ≤ a.hi.toNat * 2 ^ 64 := Nat.mul_le_mul_right _ (by omega)
        omega

theorem u128_toNat_inj (a b : U128) : a.toNat = b.toNat ↔ a = b := by
  constructor
  · intro h
    unfold U128.toNat at h
    have h1 := a.lo.toNat_lt
    have h2 := b.lo.toNat_lt
    have hhi : a.hi.toNat = b.hi.toNat := by
      by_cases hlt : a.hi.toNat < b.hi.toNat
      · have : (a.hi.toNat + 1) * 2 ^ 64 ≤ b.hi.toNat * 2 ^ 64 := Nat.mul_le_mul_right _ hlt
        omega
      · by_cases hgt : b.hi.toNat < a.hi.toNat
        · have : (b.hi.toNat + 1) * 2 ^ 64 ≤ a.hi.toNat * 2 ^ 64 := Nat.mul_le_mul_right _ hgt
          omega
        · omega
    have hlo : a.lo.toNat = b.lo.toNat := by rw [hhi] at h; omega
    cases a; cases b
    simp only [U128.mk.injEq]
    exact ⟨UInt64.toNat_inj.mp hhi, UInt64.toNat_inj.mp hlo⟩
  · intro h; rw [h]

/-- **C05 (comparison).** The candidate becomes primary iff it is not lower than the current
id, as unsigned 128-bit integers — for all pairs of ids. -/
theorem c05_cmp (c e : U128) : isNewMaster c (some e) = decide (e.toNat ≤ c.toNat) := by
  unfold isNewMaster
  rw [Bool.eq_iff_iff]
  simp only [decide_eq_true_eq]
  exact u128_le_iff e c

/-- the comparison as written at the pinned commit is wrong: the witness of defect D1 -/
theorem c05_cmp_buggy_counterexample :
    isNewMasterGo ⟨1, 5⟩ (some ⟨2, 1⟩) = true ∧ ¬ ((⟨2, 1⟩ : U128).toNat ≤ (⟨1, 5⟩ : U128).toNat) := by
  decide

/-- value of the election register as a number (`none` = nothing learnt yet = 0) -/
def regNat : Option U128 → Nat
  | none => 0
  | some e => e.toNat

/-- the accepted announcement of a step, if any: who announced what -/
def annOf : Ev → EvOut → Option (Nat × U128)
  | .msg c (.elec e), .msg _ o => if o.term.isNone then some (c, e) else none
  | _, _ => none

theorem doParams_elec (s : Server) (c : Nat) (cs : Sess) (a b d : Nat) :
    (doParams s c cs a b d).1.curElec = s.curElec ∧ (doParams s c cs a b d).1.curMaster = s.curMaster := by
  unfold doParams
  split
  · exact ⟨rfl, rfl⟩
  · split
    · exact ⟨rfl, rfl⟩
    · split
      · exact ⟨rfl, rfl⟩
      · split
        · exact ⟨rfl, rfl⟩
        · simp only
          split
          · split <;> exact ⟨rfl, rfl⟩
          · exact ⟨rfl, rfl⟩

theorem doElec_accept (s : Server) (c : Nat) (cs : Sess) (e : U128)
    (h1 : cs.params.expectElec = true) (h2 : e.isZero = false) :
    (doElec s c cs e).2.term = none ∧
    (doElec s c cs e).2.resps = [.elec (doElec s c cs e).1.curElec] ∧
    (if isNewMaster e s.curElec then (doElec s c cs e).1.curElec = some e ∧ (doElec s c cs e).1.curMaster = some c
     else (doElec s c cs e).1.curElec = s.curElec ∧ (doElec s c cs e).1.curMaster = s.curMaster) := by
  unfold doElec
  simp only [h1, h2, Bool.not_true, Bool.false_eq_true, if_false]
  by_cases hn : isNewMaster e s.curElec = true <;> simp [hn]

theorem doElec_reject (s : Server) (c : Nat) (cs : Sess) (e : U128)
    (h : ¬ (cs.params.expectElec = true ∧ e.isZero = false)) :
    (doElec s c cs e).2.term.isNone = false ∧ (doElec s c cs e).1 = s := by
  unfold doElec
  by_cases h1 : cs.params.expectElec = true
  · have h2 : e.isZero = true := by
      cases hz : e.isZero
      · exact absurd ⟨h1, hz⟩ h
      · rfl
    simp [h1, h2]
  · have h1' : cs.params.expectElec = false := by simpa using h1
    simp [h1']

theorem finish_fst_elec (c : Nat) (r : Server × MsgOut) :
    (finish c r).1.curElec = r.1.curElec ∧ (finish c r).1.curMaster = r.1.curMaster ∧ (finish c r).2 = r.2 := by
  unfold finish
  split <;> exact ⟨rfl, rfl, rfl⟩

theorem doOps_elec {s s' : Server} {c : Nat} {cs : Sess} {l : List (Op × List Rib.CEv)} {o : MsgOut}
    (h : doOps s c cs l = some (s', o)) : s'.curElec = s.curElec ∧ s'.curMaster = s.curMaster := by
  unfold doOps at h
  split at h
  · split at h
    · cases h; exact ⟨rfl, rfl⟩
    · cases h
  · simp only at h
    split at h
    · cases h
    · cases h; exact ⟨rfl, rfl⟩

theorem drop_elec (s : Server) (c : Nat) : (s.drop c).curElec = s.curElec ∧ (s.drop c).curMaster = s.curMaster :=
  ⟨rfl, rfl⟩

/-- what one step does to the election register -/
theorem step_elec {s s' : Server} {ev : Ev} {out : EvOut} (h : step s ev = some (s', out)) :
    match annOf ev out with
    | some (c, e) =>
      ¬ e.isZero = true ∧
      (if isNewMaster e s.curElec then s'.curElec = some e ∧ s'.curMaster = some c
       else s'.curElec = s.curElec ∧ s'.curMaster = s.curMaster) ∧
      (∃ o, out = .msg c o ∧ o.resps = [.elec s'.curElec])
    | none => s'.curElec = s.curElec ∧ s'.curMaster = s.curMaster := by
  cases ev with
  | connect c =>
    simp only [step, Option.some.injEq, Prod.mk.injEq] at h
    obtain ⟨rfl, rfl⟩ := h
    exact ⟨rfl, rfl⟩
  | close c =>
    simp only [step, Option.some.injEq, Prod.mk.injEq] at h
    obtain ⟨rfl, rfl⟩ := h
    exact ⟨rfl, rfl⟩
  | get ni aft =>
    simp only [step, Option.some.injEq, Prod.mk.injEq] at h
    obtain ⟨rfl, rfl⟩ := h
    exact ⟨rfl, rfl⟩
  | flush ni el =>
    simp only [step, Option.some.injEq, Prod.mk.injEq] at h
    obtain ⟨rfl, rfl⟩ := h
    simp only [annOf]
    unfold Server.flush
    split
    · exact ⟨rfl, rfl⟩
    · split
      · exact ⟨rfl, rfl⟩
      · exact ⟨rfl, rfl⟩
      · split <;> exact ⟨rfl, rfl⟩
  | msg c m =>
    simp only [step, Option.map_eq_some_iff] at h
    obtain ⟨⟨s1, o⟩, hr, heq⟩ := h
    simp only [Prod.mk.injEq] at heq
    obtain ⟨rfl, rfl⟩ := heq
    unfold recv at hr
    split at hr
    · cases hr
    · rename_i cs hcs
      cases m with
      | multi => simp only [Option.some.injEq, Prod.mk.injEq] at hr; obtain ⟨rfl, rfl⟩ := hr; exact ⟨rfl, rfl⟩
      | empty => simp only [Option.some.injEq, Prod.mk.injEq] at hr; obtain ⟨rfl, rfl⟩ := hr; exact ⟨rfl, rfl⟩
      | params a b d =>
        simp only [Option.some.injEq] at hr
        have h1 := doParams_elec s c cs a b d
        have h2 := finish_fst_elec c (doParams s c cs a b d)
        rw [hr] at h2
        simp only [annOf]
        exact ⟨h2.1.trans h1.1, h2.2.1.trans h1.2⟩
      | ops l =>
        simp only [Option.map_eq_some_iff] at hr
        obtain ⟨⟨s2, o2⟩, hd, heq⟩ := hr
        have h1 := doOps_elec hd
        have h2 := finish_fst_elec c (s2, o2)
        rw [heq] at h2
        simp only [annOf]
        exact ⟨h2.1.trans h1.1, h2.2.1.trans h1.2⟩
      | elec e =>
        simp only [Option.some.injEq] at hr
        have h2 := finish_fst_elec c (doElec s c cs e)
        rw [hr] at h2
        obtain ⟨he, hm, ho⟩ := h2
        simp only at he hm ho
        simp only [annOf]
        by_cases hacc : cs.params.expectElec = true ∧ e.isZero = false
        · obtain ⟨a1, a2, a3⟩ := doElec_accept s c cs e hacc.1 hacc.2
          rw [ho, a1]
          simp only [Option.isNone_none, if_true]
          refine ⟨by simp [hacc.2], ?_, ⟨_, rfl, ?_⟩⟩
          · rw [he, hm]; exact a3
          · rw [a2, he]
        · obtain ⟨r1, r2⟩ := doElec_reject s c cs e hacc
          rw [ho, r1]
          simp only [Bool.false_eq_true, if_false]
          rw [he, hm, r2]
          exact ⟨rfl, rfl⟩

/-- the register after one more accepted announcement -/
def upd (cur : Option U128) (e : U128) : Option U128 := if isNewMaster e cur then some e else cur

theorem regNat_upd (cur : Option U128) (e : U128) : regNat (upd cur e) = max (regNat cur) e.toNat := by
  unfold upd
  cases cur with
  | none => simp [isNewMaster, regNat]
  | some c =>
    have := u128_le_iff c e
    by_cases h : isNewMaster e (some c) = true
    · have h' : c.toNat ≤ e.toNat := this.mp h
      rw [if_pos h]
      simp only [regNat]
      omega
    · have h' : ¬ c.toNat ≤ e.toNat := fun hh => h (this.mpr hh)
      rw [if_neg h]
      simp only [regNat]
      omega

def anns : List Ev → List EvOut → List (Nat × U128)
  | e :: es, o :: os => (match annOf e o with | some a => [a] | none => []) ++ anns es os
  | _, _ => []

/-- **C05 (running maximum).** After any history of events the election id is the fold of the
accepted announcements with "take the candidate if it is not lower"; its numeric value is the
maximum announced so far, hence it never decreases, and a lower announcement leaves both the
id and the primary unchanged. -/
theorem c05_max {s s' : Server} {evs : List Ev} {outs : List EvOut} (h : run s evs = some (s', outs)) :
    s'.curElec = (anns evs outs).foldl (fun cur a => upd cur a.2) s.curElec := by
  induction evs generalizing s outs with
  | nil =>
    simp only [run, Option.some.injEq, Prod.mk.injEq] at h
    obtain ⟨rfl, rfl⟩ := h
    rfl
  | cons e rest ih =>
    simp only [run] at h
    split at h
    · cases h
    · rename_i s1 o1 h1
      split at h
      · cases h
      · rename_i s2 os h2
        cases h
        have hs := step_elec h1
        have := ih h2
        simp only [anns, List.foldl_append]
        rw [this]
        congr 1
        cases ha : annOf e o1 with
        | none => rw [ha] at hs; simp [hs.1]
        | some a =>
          obtain ⟨c, x⟩ := a
          rw [ha] at hs
          simp only [List.foldl, upd]
          split
          · rename_i hnm; simp [hnm] at hs; exact hs.2.1.1
          · rename_i hnm; simp [hnm] at hs; exact hs.2.1.1

theorem c05_value {s s' : Server} {evs : List Ev} {outs : List EvOut} (h : run s evs = some (s', outs)) :
    regNat s'.curElec = ((anns evs outs).map (fun a => a.2.toNat)).foldl max (regNat s.curElec) := by
  rw [c05_max h]
  generalize s.curElec = cur
  induction (anns evs outs) generalizing cur with
  | nil => rfl
  | cons a t ih => simp only [List.foldl, List.map]; rw [ih, regNat_upd]

/-- monotonicity, one step -/
theorem c05_monotone {s s' : Server} {ev : Ev} {out : EvOut} (h : step s ev = some (s', out)) :
    regNat s.curElec ≤ regNat s'.curElec := by
  have hs := step_elec h
  cases ha : annOf ev out with
  | none => rw [ha] at hs; rw [hs.1]; exact Nat.le_refl _
  | some a =>
    obtain ⟨c, e⟩ := a
    rw [ha] at hs
    have hu : s'.curElec = upd s.curElec e := by
      unfold upd
      split
      · rename_i hnm; simp [hnm] at hs; exact hs.2.1.1
      · rename_i hnm; simp [hnm] at hs; exact hs.2.1.1
    rw [hu, regNat_upd]
    omega

/-- every election response carries the register's new value (the running maximum) -/
theorem c05_reply {s s' : Server} {ev : Ev} {out : EvOut} {c : Nat} {e : U128}
    (h : step s ev = some (s', out)) (ha : annOf ev out = some (c, e)) :
    ∃ o, out = .msg c o ∧ o.resps = [.elec s'.curElec] ∧ regNat s'.curElec = max (regNat s.curElec) e.toNat := by
  have hs := step_elec h
  rw [ha] at hs
  obtain ⟨o, h1, h2⟩ := hs.2.2
  refine ⟨o, h1, h2, ?_⟩
  have hu : s'.curElec = upd s.curElec e := by
    unfold upd
    split
    · rename_i hnm; have := hs.2.1; simp [hnm] at this; exact this.1
    · rename_i hnm; have := hs.2.1; simp [hnm] at this; exact this.1
  rw [hu, regNat_upd]

/-- a lower announcement never takes the primary role away, an announcement that is not lower
makes its session the primary -/
theorem c05_primary {s s' : Server} {ev : Ev} {out : EvOut} {c : Nat} {e : U128}
    (h : step s ev = some (s', out)) (ha : annOf ev out = some (c, e)) :
    (e.toNat < regNat s.curElec → s'.curMaster = s.curMaster ∧ s'.curElec = s.curElec) ∧
    (regNat s.curElec ≤ e.toNat → s'.curMaster = some c ∧ s'.curElec = some e) := by
  have hs := step_elec h
  rw [ha] at hs
  have key := hs.2.1
  cases hc : s.curElec with
  | none =>
    rw [hc] at key
    simp only [isNewMaster, if_true] at key
    exact ⟨fun hlt => by simp [regNat] at hlt, fun _ => ⟨key.2, key.1⟩⟩
  | some cur =>
    rw [hc] at key
    have hle := u128_le_iff cur e
    constructor
    · intro hlt
      have : ¬ isNewMaster e (some cur) = true := fun hh => by
        have := hle.mp hh
        simp [regNat] at hlt
        omega
      simp only [this] at key
      exact ⟨key.2, key.1⟩
    · intro hge
      have : isNewMaster e (some cur) = true := hle.mpr (by simpa [regNat] using hge)
      simp only [this, if_true] at key
      exact ⟨key.2, key.1⟩

/-- non-vacuity: three sessions, ids spanning both words, a repeat, a decrease and a tie -/
example :
    let s0 := Server.new "D" []
    let evs : List Ev := [.connect 1, .msg 1 (.params 1 1 0), .connect 2, .msg 2 (.params 1 1 0),
      .connect 3, .msg 3 (.params 1 1 0),
      .msg 1 (.elec ⟨2, 1⟩), .msg 2 (.elec ⟨1, 5⟩), .msg 3 (.elec ⟨2, 1⟩), .msg 2 (.elec ⟨2, 2⟩), .msg 1 (.elec ⟨0, 9⟩)]
    (run s0 evs).map (fun r => (r.1.curElec, r.1.curMaster, anns evs r.2)) =
      some (some ⟨2, 2⟩, some 2, [(1, ⟨2, 1⟩), (2, ⟨1, 5⟩), (3, ⟨2, 1⟩), (2, ⟨2, 2⟩), (1, ⟨0, 9⟩)]) := by
  decide

end Gribi.C05
