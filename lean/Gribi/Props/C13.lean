/-
C13 — Client accounting: operations are queued, pending or resulted; converged = answered.

For every sequence of client events (requests queued by the application, responses of ANY
server — delayed, reordered, batched, interleaved with election / parameter responses, or
violating the protocol — and stream errors) the conservation law holds: for each id, the number
of times it was accepted into the pending set equals the number of terminal results recorded
for it (with the details of that operation) plus one if it is still pending.
-/
import Gribi.Model.Client
namespace Gribi.C13
open Gribi Cl

/-- a recorded terminal result for `id`, carrying the operation's details -/
def isCompletion (fibMode : Bool) (id : Nat) (r : Option Res) : Bool :=
  match r with
  | some r => r.opId == id && r.details.isSome && (match r.status with | some st => terminal fibMode st | none => false)
  | none => false

def completions (s : State) (id : Nat) : Nat := s.results.countP (isCompletion s.fibMode id)
def acceptedCount (s : State) (id : Nat) : Nat := s.accepted.countP (fun e => e.1 == id)

/-- 1 if `id` is pending, else 0 -/
def pendBit (m : Map Nat OpInfo) (id : Nat) : Nat := if m.has id then 1 else 0

theorem pendBit_insert (m : Map Nat OpInfo) (k id : Nat) (v : OpInfo) :
    pendBit (m.insert k v) id = if k = id then 1 else pendBit m id := by
  unfold pendBit Map.has
  rw [Map.get?_insert]
  by_cases h : k = id <;> simp [h]

theorem pendBit_erase (m : Map Nat OpInfo) (k id : Nat) :
    pendBit (m.erase k) id = if k = id then 0 else pendBit m id := by
  unfold pendBit Map.has
  rw [Map.get?_erase]
  by_cases h : k = id <;> simp [h]

theorem pendBit_of_get_none {m : Map Nat OpInfo} {id : Nat} (h : m.get? id = none) : pendBit m id = 0 := by
  simp [pendBit, Map.has, h]

theorem pendBit_of_get_some {m : Map Nat OpInfo} {id : Nat} {v : OpInfo} (h : m.get? id = some v) : pendBit m id = 1 := by
  simp [pendBit, Map.has, h]

/-- the conservation law with its supporting facts -/
structure Inv (s : State) : Prop where
  nodup : Map.NoDupKeys s.pendOps
  conserve : ∀ id, acceptedCount s id = completions s id + pendBit s.pendOps id
  pendLogged : ∀ id info, s.pendOps.get? id = some info → (id, info) ∈ s.accepted
  resLogged : ∀ r info, some r ∈ s.results → r.details = some info → (r.opId, info) ∈ s.accepted

theorem inv_init (fib : Bool) : Inv { fibMode := fib } := by
  refine ⟨Map.nodup_nil, ?_, ?_, ?_⟩
  · intro id; simp [acceptedCount, completions, pendBit, Map.has]
  · intro id info h; simp at h
  · intro r info h; simp at h

/-- `addOps` keeps the law; everything it does not touch is passed through -/
theorem addOps_inv (fib : Bool) (results : List (Option Res)) (ops : List (Nat × OpInfo))
    (pend : Map Nat OpInfo) (log : List (Nat × OpInfo))
    (hn : Map.NoDupKeys pend)
    (hc : ∀ id, log.countP (fun e => e.1 == id) = results.countP (isCompletion fib id) + pendBit pend id)
    (hp : ∀ id info, pend.get? id = some info → (id, info) ∈ log)
    (hr : ∀ r info, some r ∈ results → r.details = some info → (r.opId, info) ∈ log) :
    Map.NoDupKeys (addOps pend log ops).1 ∧
    (∀ id, (addOps pend log ops).2.1.countP (fun e => e.1 == id) =
      results.countP (isCompletion fib id) + pendBit (addOps pend log ops).1 id) ∧
    (∀ id info, (addOps pend log ops).1.get? id = some info → (id, info) ∈ (addOps pend log ops).2.1) ∧
    (∀ r info, some r ∈ results → r.details = some info → (r.opId, info) ∈ (addOps pend log ops).2.1) := by
  induction ops generalizing pend log with
  | nil => exact ⟨hn, hc, hp, hr⟩
  | cons e rest ih =>
    obtain ⟨id0, info0⟩ := e
    simp only [addOps]
    by_cases hh : pend.has id0 = true
    · simp only [hh, if_true]
      exact ⟨hn, hc, hp, hr⟩
    · simp only [hh, Bool.false_eq_true, if_false]
      apply ih
      · exact Map.nodup_insert hn _ _
      · intro id
        rw [List.countP_append, hc id, pendBit_insert]
        by_cases hid : id0 = id
        · subst hid
          have : pendBit pend id0 = 0 := by
            have : pend.has id0 = false := by simpa using hh
            simp [pendBit, this]
          simp [this]
        · have : ¬ id = id0 := fun h => hid h.symm
          simp [hid, this]
      · intro id info hg
        rw [Map.get?_insert] at hg
        split at hg
        · rename_i hk; cases hg; subst hk; simp
        · exact List.mem_append_left _ (hp id info hg)
      · intro r info h1 h2
        exact List.mem_append_left _ (hr r info h1 h2)

theorem inv_q {s : State} (hi : Inv s) (m : Req) : Inv (q s m) := by
  have key := addOps_inv s.fibMode s.results m.ops s.pendOps s.accepted hi.nodup hi.conserve hi.pendLogged hi.resLogged
  unfold q
  simp only
  have build : ∀ (pe pp : Bool) (se : Nat) (sq : List Req),
      Inv { s with pendOps := (addOps s.pendOps s.accepted m.ops).1, accepted := (addOps s.pendOps s.accepted m.ops).2.1,
                   pendElec := pe, pendParams := pp, sendErrs := se, sendq := sq } :=
    fun _ _ _ _ => ⟨key.1, key.2.1, key.2.2.1, key.2.2.2⟩
  split <;> split <;> apply build

/-- one result of a response -/
theorem inv_clearOp {s : State} (hi : Inv s) (r : Nat × Status) : Inv (clearOp s r).1 := by
  unfold clearOp
  cases hg : s.pendOps.get? r.1 with
  | none =>
    simp only
    split
    · -- permissive late RIB ack: a result without details, not a completion
      refine ⟨hi.nodup, ?_, hi.pendLogged, ?_⟩
      · intro id
        have := hi.conserve id
        simp only [acceptedCount, completions, List.countP_append] at this ⊢
        rw [this]
        simp [isCompletion]
      · intro r' info h1 h2
        simp only [List.mem_append, List.mem_singleton] at h1
        rcases h1 with h1 | h1
        · exact hi.resLogged r' info h1 h2
        · cases h1; simp at h2
    · refine ⟨hi.nodup, ?_, hi.pendLogged, ?_⟩
      · intro id
        have := hi.conserve id
        simp only [acceptedCount, completions, List.countP_append] at this ⊢
        rw [this]
        simp [isCompletion]
      · intro r' info h1 h2
        simp only [List.mem_append, List.mem_singleton] at h1
        rcases h1 with h1 | h1
        · exact hi.resLogged r' info h1 h2
        · cases h1
  | some info =>
    simp only
    by_cases ht : terminal s.fibMode r.2 = true
    · simp only [ht, if_true]
      refine ⟨Map.nodup_erase hi.nodup _, ?_, ?_, ?_⟩
      · intro id
        have := hi.conserve id
        simp only [acceptedCount, completions, List.countP_append] at this ⊢
        rw [this, pendBit_erase]
        by_cases hid : r.1 = id
        · subst hid
          rw [pendBit_of_get_some hg]
          simp [isCompletion, ht]
        · simp [isCompletion, hid]
      · intro id info' hg'
        rw [Map.get?_erase] at hg'
        split at hg'
        · cases hg'
        · exact hi.pendLogged id info' hg'
      · intro r' info' h1 h2
        simp only [List.mem_append, List.mem_singleton] at h1
        rcases h1 with h1 | h1
        · exact hi.resLogged r' info' h1 h2
        · cases h1
          simp only [Option.some.injEq] at h2
          subst h2
          exact hi.pendLogged r.1 info hg
    · simp only [ht, Bool.false_eq_true, if_false]
      have hf : terminal s.fibMode r.2 = false := by simpa using ht
      refine ⟨hi.nodup, ?_, hi.pendLogged, ?_⟩
      · intro id
        have := hi.conserve id
        simp only [acceptedCount, completions, List.countP_append] at this ⊢
        rw [this]
        simp [isCompletion, hf]
      · intro r' info' h1 h2
        simp only [List.mem_append, List.mem_singleton] at h1
        rcases h1 with h1 | h1
        · exact hi.resLogged r' info' h1 h2
        · cases h1
          simp only [Option.some.injEq] at h2
          subst h2
          exact hi.pendLogged r.1 info hg

theorem clearOp_fib (s : State) (r : Nat × Status) : (clearOp s r).1.fibMode = s.fibMode := by
  unfold clearOp; split
  · split <;> rfl
  · rfl

theorem inv_clearOps {s : State} (hi : Inv s) (l : List (Nat × Status)) : Inv (clearOps s l).1 := by
  induction l generalizing s with
  | nil => exact hi
  | cons r rest ih =>
    simp only [clearOps]
    split
    · exact ih (inv_clearOp hi r)
    · exact inv_clearOp hi r

/-- changes that do not touch the accounted fields -/
theorem inv_of_same {s s' : State} (hi : Inv s) (h1 : s'.pendOps = s.pendOps) (h2 : s'.accepted = s.accepted)
    (h3 : s'.fibMode = s.fibMode) (h4 : ∀ id, completions s' id = completions s id)
    (h5 : ∀ r info, some r ∈ s'.results → r.details = some info → (r.opId, info) ∈ s.accepted) : Inv s' := by
  refine ⟨by rw [h1]; exact hi.nodup, ?_, ?_, ?_⟩
  · intro id
    have := hi.conserve id
    simp only [acceptedCount] at this ⊢
    rw [h1, h2, h4]
    exact this
  · intro id info h; rw [h1] at h; rw [h2]; exact hi.pendLogged id info h
  · intro r info a b; rw [h2]; exact h5 r info a b

theorem inv_noteElec {s : State} (hi : Inv s) (m : Resp) : Inv (noteElec s m) := by
  unfold noteElec
  split
  · refine ⟨hi.nodup, ?_, hi.pendLogged, ?_⟩
    · intro id
      have := hi.conserve id
      simp only [acceptedCount, completions, List.countP_append] at this ⊢
      rw [this]
      simp [isCompletion]
    · intro r info h1 h2
      simp only [List.mem_append, List.mem_singleton] at h1
      rcases h1 with h1 | h1
      · exact hi.resLogged r info h1 h2
      · cases h1; simp at h2
  · exact hi

theorem inv_noteParams {s : State} (hi : Inv s) (m : Resp) : Inv (noteParams s m) := by
  unfold noteParams
  split
  · refine ⟨hi.nodup, ?_, hi.pendLogged, ?_⟩
    · intro id
      have := hi.conserve id
      simp only [acceptedCount, completions, List.countP_append] at this ⊢
      rw [this]
      simp [isCompletion]
    · intro r info h1 h2
      simp only [List.mem_append, List.mem_singleton] at h1
      rcases h1 with h1 | h1
      · exact hi.resLogged r info h1 h2
      · cases h1; simp at h2
  · exact hi

theorem inv_recv {s : State} (hi : Inv s) (m : Resp) : Inv (recv s m).1 := by
  unfold recv
  split
  · exact inv_of_same hi rfl rfl rfl (fun _ => rfl) hi.resLogged
  · have step3 := inv_clearOps (inv_noteParams (inv_noteElec hi m) m) m.results
    simp only
    split
    · exact step3
    · exact inv_of_same step3 rfl rfl rfl (fun _ => rfl) step3.resLogged

theorem inv_step {s : State} (hi : Inv s) (e : Ev) : Inv (step s e) := by
  cases e with
  | q m => exact inv_q hi m
  | startSending => exact inv_of_same hi rfl rfl rfl (fun _ => rfl) hi.resLogged
  | recv m => exact inv_recv hi m
  | recvErr => exact inv_of_same hi rfl rfl rfl (fun _ => rfl) hi.resLogged
  | sendErr => exact inv_of_same hi rfl rfl rfl (fun _ => rfl) hi.resLogged
  | reset => exact inv_init s.fibMode

theorem inv_run (evs : List Ev) : ∀ (s : State), Inv s → Inv (run s evs) := by
  induction evs with
  | nil => intro s h; exact h
  | cons e rest ih =>
    intro s h
    have h1 : Inv (step s e) := inv_step h e
    exact ih (step s e) h1

/-- **C13 (conservation).** After any sequence of events — whatever the server sends — every
operation id satisfies: (times accepted) = (terminal results recorded for it, with the
operation's own type and key) + (1 if still pending). Nothing is lost, nothing completes twice. -/
theorem c13_conservation (fib : Bool) (evs : List Ev) :
    ∀ id, acceptedCount (run { fibMode := fib } evs) id =
      completions (run { fibMode := fib } evs) id + pendBit (run { fibMode := fib } evs).pendOps id := by
  exact (inv_run evs _ (inv_init fib)).conserve

/-- **C13 (details).** Every result that carries details carries those of an operation that was
accepted with that id. -/
theorem c13_details (fib : Bool) (evs : List Ev) (r : Res) (info : OpInfo)
    (h : some r ∈ (run { fibMode := fib } evs).results) (hd : r.details = some info) :
    (r.opId, info) ∈ (run { fibMode := fib } evs).accepted := by
  exact (inv_run evs _ (inv_init fib)).resLogged r info h hd

/-- **C13 (a RIB acknowledgement alone never completes an operation in FIB-ack mode).** -/
theorem c13_rib_not_terminal_in_fib (s : State) (hf : s.fibMode = true) (id : Nat) (info : OpInfo)
    (hp : s.pendOps.get? id = some info) :
    (clearOp s (id, .rib)).1.pendOps = s.pendOps ∧ (clearOp s (id, .rib)).2 = true := by
  simp [clearOp, hp, terminal, hf]

/-- **C13 (converged ⇔ answered).** `AwaitConverged` reports success exactly when nothing is
queued or pending and no error was recorded, and returns the recorded errors otherwise. -/
theorem c13_converged_iff (s : State) :
    (await s = .converged ↔
      (s.sendErrs = 0 ∧ s.recvErrs = 0 ∧ s.sendq = [] ∧ s.pendOps = [] ∧ s.pendElec = false ∧ s.pendParams = false)) ∧
    (∀ a b, await s = .errors a b ↔ ((s.sendErrs ≠ 0 ∨ s.recvErrs ≠ 0) ∧ a = s.sendErrs ∧ b = s.recvErrs)) := by
  unfold await
  by_cases h : s.sendErrs ≠ 0 ∨ s.recvErrs ≠ 0
  · rw [if_pos h]
    constructor
    · constructor
      · intro h'; cases h'
      · rintro ⟨h1, h2, _⟩
        rcases h with h | h
        · exact absurd h1 h
        · exact absurd h2 h
    · intro a b
      constructor
      · intro h'; cases h'; exact ⟨h, rfl, rfl⟩
      · rintro ⟨_, rfl, rfl⟩; rfl
  · rw [if_neg h]
    have h' : s.sendErrs = 0 ∧ s.recvErrs = 0 := by omega
    by_cases hc : s.sendq = [] ∧ s.pendOps = [] ∧ (!s.pendElec) = true ∧ (!s.pendParams) = true
    · rw [if_pos hc]
      constructor
      · constructor
        · intro _
          exact ⟨h'.1, h'.2, hc.1, hc.2.1, by simpa using hc.2.2.1, by simpa using hc.2.2.2⟩
        · intro _; rfl
      · intro a b
        constructor
        · intro h''; cases h''
        · rintro ⟨h'', _⟩; exact absurd h'' h
    · rw [if_neg hc]
      constructor
      · constructor
        · intro h''; cases h''
        · rintro ⟨_, _, a, b, c, d⟩
          exact absurd ⟨a, b, by simp [c], by simp [d]⟩ hc
      · intro a b
        constructor
        · intro h''; cases h''
        · rintro ⟨h'', _⟩; exact absurd h'' h

/-- **C13 (violations surface).** A result for an id that is not pending — an unknown id, or a
second terminal result after the first removed it — records a receive error and stops the
receiver; the only tolerated case is a late RIB acknowledgement in FIB-ack mode. -/
theorem c13_violations_surface (s : State) (id : Nat) (st : Status) (rest : List (Nat × Status))
    (hunk : s.pendOps.get? id = none) (hperm : ¬ (st = .rib ∧ s.fibMode = true)) :
    (recv s { results := (id, st) :: rest, hasResults := true }).2 = false ∧
    (recv s { results := (id, st) :: rest, hasResults := true }).1.recvErrs = s.recvErrs + 1 := by
  have h1 : (clearOp s (id, st)).2 = false := by
    unfold clearOp
    simp only [hunk]
    split
    · rename_i h; exact absurd h hperm
    · rfl
  have h2 : (clearOp s (id, st)).1.recvErrs = s.recvErrs := by
    unfold clearOp
    simp only [hunk]
    split <;> rfl
  simp [recv, populated, noteElec, noteParams, clearOps, h1, h2]

/-- after a terminal result the id is no longer pending, so a duplicate is such a violation -/
theorem c13_terminal_removes (s : State) (hn : Map.NoDupKeys s.pendOps) (id : Nat) (st : Status) (info : OpInfo)
    (hp : s.pendOps.get? id = some info) (ht : terminal s.fibMode st = true) :
    (clearOp s (id, st)).1.pendOps.get? id = none := by
  simp [clearOp, hp, ht]

/-- non-vacuity: a FIB-mode exchange with reordering, a late RIB ack, and a duplicate -/
example :
    let i : OpInfo := { ty := 1, kind := 4, key := "1" }
    let s := run { fibMode := true } [.startSending, .q { params := true }, .q { elec := true },
      .q { ops := [(1, i), (2, i)] }, .recv { params := true }, .recv { elec := true },
      .recv { results := [(2, .rib), (1, .rib)], hasResults := true },
      .recv { results := [(2, .fib)], hasResults := true }]
    (await s, s.pendOps.map (·.1), completions s 2, completions s 1,
     await (step s (.recv { results := [(1, .fib), (2, .rib)], hasResults := true })),
     await (step s (.recv { results := [(2, .fib)], hasResults := true }))) =
    (.notYet, [1], 1, 0, .converged, .errors 0 1) := by decide

end Gribi.C13
