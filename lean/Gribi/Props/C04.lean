/-
C04 — Only the elected primary's correctly stamped operations change the RIB.

An AFT operation reaches the RIB only if it arrives on the session of the current primary and
carries an election id equal both to the id that session last announced and to the server's
current id (which, by C05, is the highest id learnt). Every other operation is answered FAILED
or ends that RPC, and leaves contents, held operations, counters and election state untouched.
-/
import Gribi.Props.C05
namespace Gribi.C04
open Gribi Server

/-- **C04 (the gate).** `checkElectionForModify` lets an operation through exactly when the
sender is the primary and the stamp equals its last announced id and the current id. -/
theorem gate_proceed_iff (c : Nat) (oe : Option U128) (snap : ElecSnap) :
    gate c oe snap = .proceed ↔
      ∃ e, oe = some e ∧ snap.master = some c ∧ snap.cur = some e ∧ snap.clientLatest = some e := by
  unfold gate
  cases oe with
  | none => simp
  | some e =>
    cases hm : snap.master with
    | none => simp
    | some m =>
      cases hcur : snap.cur with
      | none => simp
      | some cur =>
        cases hl : snap.clientLatest with
        | none => simp
        | some latest =>
          simp only [Option.some.injEq, exists_eq_left']
          by_cases h1 : c = m
          · subst h1
            by_cases h2 : e = latest
            · subst h2
              by_cases h3 : U128.lt cur e = true
              · have := (C05.u128_lt_iff cur e).mp h3
                simp only [ne_eq, not_true_eq_false, if_false, h3, if_true, reduceCtorEq, true_and, and_true, false_iff]
                intro heq
                rw [heq] at this
                omega
              · by_cases h4 : U128.lt e cur = true
                · have := (C05.u128_lt_iff e cur).mp h4
                  simp only [ne_eq, not_true_eq_false, if_false, h3, h4, if_true, reduceCtorEq, true_and, and_true, false_iff]
                  intro heq
                  rw [heq] at this
                  omega
                · have a : ¬ cur.toNat < e.toNat := fun h => h3 ((C05.u128_lt_iff cur e).mpr h)
                  have b : ¬ e.toNat < cur.toNat := fun h => h4 ((C05.u128_lt_iff e cur).mpr h)
                  have hce : cur = e := (C05.u128_toNat_inj cur e).mp (by omega)
                  subst hce
                  have h3' : U128.lt cur cur = false := by simpa using h3
                  simp [h3']
            · have h2' : ¬ latest = e := fun h => h2 h.symm
              simp [h2, h2']
          · have : ¬ m = c := fun h => h1 h.symm
            simp [h1, this]

/-- **C04 (a rejected operation changes nothing).** -/
theorem c04_gate {r r' : Rib} {c : Nat} {fib : Bool} {snap : ElecSnap} {op : Op} {script : List Rib.CEv}
    {o : Rib.Out} {resp : Resp ⊕ Term} (hg : gate c op.elec snap ≠ .proceed)
    (h : modifyOne r c fib snap op script = some (r', o, resp)) :
    r' = r ∧ o.oks = [] ∧ (resp = .inl (.results [(op.id, .failed)]) ∨ ∃ t, resp = .inr t) := by
  unfold modifyOne at h
  cases hgate : gate c op.elec snap with
  | proceed => exact absurd hgate hg
  | failed =>
    simp only [hgate] at h
    split at h
    · cases h; exact ⟨rfl, rfl, Or.inl rfl⟩
    · cases h
  | fatal t =>
    simp only [hgate] at h
    split at h
    · cases h; exact ⟨rfl, rfl, Or.inr ⟨t, rfl⟩⟩
    · cases h

/-- a whole request of rejected operations: the RIB is untouched and every response is a
single FAILED (or the RPC ended) -/
theorem c04_loop {r r' : Rib} {c : Nat} {fib : Bool} {snap : ElecSnap} {l : List (Op × List Rib.CEv)}
    {out : MsgOut} (hall : ∀ e ∈ l, gate c e.1.elec snap ≠ .proceed)
    (h : modifyLoop r c fib snap l = some (r', out)) :
    r' = r ∧ ∀ resp ∈ out.resps, ∃ id, resp = .results [(id, .failed)] := by
  induction l generalizing r out with
  | nil =>
    simp only [modifyLoop, Option.some.injEq, Prod.mk.injEq] at h
    obtain ⟨rfl, rfl⟩ := h
    exact ⟨rfl, by intro resp hr; simp at hr⟩
  | cons e rest ih =>
    obtain ⟨op, script⟩ := e
    simp only [modifyLoop] at h
    have hrest : ∀ e ∈ rest, gate c e.1.elec snap ≠ .proceed := fun e he => hall e (List.mem_cons_of_mem _ he)
    split at h
    · split at h
      · cases h
      · split at h
        · cases h
        · rename_i r2 o2 h2
          cases h
          obtain ⟨a, b⟩ := ih hrest h2
          refine ⟨a, ?_⟩
          intro resp hr
          simp only [List.mem_cons] at hr
          rcases hr with rfl | hr
          · exact ⟨op.id, rfl⟩
          · exact b resp hr
    · split at h
      · cases h
      · rename_i r1 ro t h1
        cases h
        have := c04_gate (hall (op, script) List.mem_cons_self) h1
        exact ⟨this.1, by intro resp hr; simp at hr⟩
      · rename_i r1 ro resp1 h1
        have hg := c04_gate (hall (op, script) List.mem_cons_self) h1
        split at h
        · cases h
        · rename_i r2 o2 h2
          cases h
          obtain ⟨rfl, _, hresp⟩ := hg
          obtain ⟨a, b⟩ := ih hrest h2
          refine ⟨a, ?_⟩
          intro resp hr
          simp only [List.mem_cons] at hr
          rcases hr with rfl | hr
          · rcases hresp with h' | ⟨t, h'⟩
            · cases h'; exact ⟨op.id, rfl⟩
            · cases h'
          · exact b resp hr

/-- the session `c` is the primary and its last announced id is the server's current id -/
def IsPrimary (s : Server) (c : Nat) : Prop :=
  s.curMaster = some c ∧ ∃ e, s.curElec = some e ∧ (s.sess.get? c).bind (·.lastElec) = some e

/-- **C04 (only the primary).** Operations received on a session that is not the primary with
a matching last id — superseded, never elected, or holding a stale id — leave the RIB (contents,
held operations, counters) and the election state exactly as they were, whatever they are
stamped with. -/
theorem c04_not_primary {s s' : Server} {c : Nat} {l : List (Op × List Rib.CEv)} {out : MsgOut}
    (h : recv s c (.ops l) = some (s', out)) (hnp : ¬ IsPrimary s c) :
    s'.rib = s.rib ∧ s'.curElec = s.curElec ∧ s'.curMaster = s.curMaster := by
  unfold recv at h
  split at h
  · cases h
  · rename_i cs hcs
    simp only [Option.map_eq_some_iff] at h
    obtain ⟨⟨s2, o2⟩, hd, heq⟩ := h
    have hf := C05.finish_fst_elec c (s2, o2)
    have hrib : (finish c (s2, o2)).1.rib = s2.rib := by unfold finish; split <;> rfl
    rw [heq] at hf hrib
    simp only at hf hrib
    unfold doOps at hd
    split at hd
    · split at hd
      · cases hd; exact ⟨hrib, hf.1, hf.2.1⟩
      · cases hd
    · simp only at hd
      split at hd
      · cases hd
      · rename_i r' o hloop
        cases hd
        have hall : ∀ e ∈ l, gate c e.1.elec ⟨s.curMaster, s.curElec, cs.lastElec⟩ ≠ .proceed := by
          intro e _ hp
          obtain ⟨x, _, hm, hc, hl⟩ := (gate_proceed_iff c e.1.elec _).mp hp
          exact hnp ⟨hm, x, hc, by simp only at hl; simp [hcs, hl]⟩
        have := c04_loop hall hloop
        exact ⟨by rw [hrib]; exact this.1, hf.1, hf.2.1⟩

/-- **C04 (wrong stamp).** Even on the primary's session, a request whose operations all carry
an id different from the current one (stale, future, mismatching in either word, or none)
changes nothing. -/
theorem c04_wrong_stamp {s s' : Server} {c : Nat} {l : List (Op × List Rib.CEv)} {out : MsgOut}
    (h : recv s c (.ops l) = some (s', out)) (hst : ∀ e ∈ l, e.1.elec ≠ s.curElec ∨ s.curElec = none) :
    s'.rib = s.rib ∧ s'.curElec = s.curElec ∧ s'.curMaster = s.curMaster := by
  unfold recv at h
  split at h
  · cases h
  · rename_i cs hcs
    simp only [Option.map_eq_some_iff] at h
    obtain ⟨⟨s2, o2⟩, hd, heq⟩ := h
    have hf := C05.finish_fst_elec c (s2, o2)
    have hrib : (finish c (s2, o2)).1.rib = s2.rib := by unfold finish; split <;> rfl
    rw [heq] at hf hrib
    simp only at hf hrib
    unfold doOps at hd
    split at hd
    · split at hd
      · cases hd; exact ⟨hrib, hf.1, hf.2.1⟩
      · cases hd
    · simp only at hd
      split at hd
      · cases hd
      · rename_i r' o hloop
        cases hd
        have hall : ∀ e ∈ l, gate c e.1.elec ⟨s.curMaster, s.curElec, cs.lastElec⟩ ≠ .proceed := by
          intro e he hp
          obtain ⟨x, hx, _, hc, _⟩ := (gate_proceed_iff c e.1.elec _).mp hp
          rcases hst e he with h1 | h1
          · exact h1 (by rw [hx]; exact hc.symm)
          · simp only at hc; rw [h1] at hc; cases hc
        have := c04_loop hall hloop
        exact ⟨by rw [hrib]; exact this.1, hf.1, hf.2.1⟩

/-- events other than operations and flushes never touch the RIB -/
theorem c04_other_events {s s' : Server} {ev : Ev} {out : EvOut} (h : step s ev = some (s', out))
    (hno : (∀ c l, ev ≠ .msg c (.ops l)) ∧ (∀ ni el, ev ≠ .flush ni el)) : s'.rib = s.rib := by
  cases ev with
  | connect c => simp only [step, Option.some.injEq, Prod.mk.injEq] at h; obtain ⟨rfl, _⟩ := h; rfl
  | close c => simp only [step, Option.some.injEq, Prod.mk.injEq] at h; obtain ⟨rfl, _⟩ := h; rfl
  | get ni aft => simp only [step, Option.some.injEq, Prod.mk.injEq] at h; obtain ⟨rfl, _⟩ := h; rfl
  | flush ni el => exact absurd rfl (hno.2 ni el)
  | msg c m =>
    simp only [step, Option.map_eq_some_iff] at h
    obtain ⟨⟨s1, o⟩, hr, heq⟩ := h
    simp only [Prod.mk.injEq] at heq
    obtain ⟨rfl, _⟩ := heq
    unfold recv at hr
    split at hr
    · cases hr
    · rename_i cs hcs
      have hfr : ∀ r : Server × MsgOut, (finish c r).1.rib = r.1.rib := by
        intro r; unfold finish; split <;> rfl
      cases m with
      | multi => simp only [Option.some.injEq, Prod.mk.injEq] at hr; obtain ⟨rfl, _⟩ := hr; rfl
      | empty => simp only [Option.some.injEq, Prod.mk.injEq] at hr; obtain ⟨rfl, _⟩ := hr; rfl
      | ops l => exact absurd rfl (hno.1 c l)
      | params a b d =>
        simp only [Option.some.injEq] at hr
        have := hfr (doParams s c cs a b d)
        rw [hr] at this
        rw [this]
        unfold doParams
        split
        · rfl
        · split
          · rfl
          · split
            · rfl
            · split
              · rfl
              · simp only
                split
                · split <;> rfl
                · rfl
      | elec e =>
        simp only [Option.some.injEq] at hr
        have := hfr (doElec s c cs e)
        rw [hr] at this
        rw [this]
        unfold doElec
        split
        · rfl
        · split
          · rfl
          · simp only
            split <;> rfl

/-- non-vacuity: a superseded primary's correctly self-stamped operation is rejected, the new
primary's is programmed -/
example :
    let nh : Op := { id := 1, ty := .add, ni := "D", key := .nh 1, pl := {}, elec := some ⟨0, 5⟩ }
    let nh2 : Op := { id := 2, ty := .add, ni := "D", key := .nh 2, pl := {}, elec := some ⟨0, 7⟩ }
    let evs : List Ev := [.connect 1, .msg 1 (.params 1 1 0), .msg 1 (.elec ⟨0, 5⟩),
      .connect 2, .msg 2 (.params 1 1 0), .msg 2 (.elec ⟨0, 7⟩),
      .msg 1 (.ops [(nh, [])]), .msg 2 (.ops [(nh2, [])])]
    (run (Server.new "D" []) evs).map (fun r => r.1.rib.ents.map (·.1)) = some [("D", Key.nh 2)] := by
  decide

end Gribi.C04
