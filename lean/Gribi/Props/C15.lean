/-
C15 — Reconciler output converges the target RIB to the intended RIB.

Stated on `Recon.diff` / `Recon.ops` (model of rib/reconciler `diff` and of the documented sending
order) and the RIB model (`Rib.add`, `Rib.del`, reference checking on). This file: the clauses
about the operation set itself (equal RIBs give nothing; ids). The convergence theorem is in
`Gribi/Props/C15Conv.lean`.
-/
import Gribi.Model.Recon
import Gribi.Lemmas.RibBasic
namespace Gribi.C15
open Gribi Recon

theorem get?_self_ne_none (m : Ents) {e : EKey × Payload} (h : e ∈ m) : m.get? e.1 ≠ none := by
  induction m with
  | nil => cases h
  | cons x t ih =>
    obtain ⟨a, b⟩ := x
    rw [Map.get?_cons]
    by_cases hk : a = e.1
    · simp [hk]
    · simp only [hk, if_false]
      cases h with
      | head => exact absurd rfl hk
      | tail _ h' => exact ih h'

theorem toAdd_self (I : Ents) : toAdd I I = [] := by
  unfold toAdd
  apply List.filter_eq_nil_iff.mpr
  intro e he
  have := get?_self_ne_none I he
  cases h : I.get? e.1 with
  | none => exact absurd h this
  | some p => simp

theorem toDelete_self (I : Ents) : toDelete I I = [] := toAdd_self I

theorem toReplace_self (I : Ents) (hn : Map.NoDupKeys I) : toReplace I I = [] := by
  unfold toReplace
  apply List.filter_eq_nil_iff.mpr
  intro e he
  have : I.get? e.1 = some e.2 := Map.get?_of_mem_nodup hn (k := e.1) (v := e.2) he
  simp [this]

/-- **C15 (equal RIBs).** Reconciling a RIB with itself yields no operations, whatever the base. -/
theorem c15_equal_empty (I : Ents) (hn : Map.NoDupKeys I) (base : Nat) : ops I I base = [] := by
  simp [ops, diff, installs, removals, Ops.of, toAdd_self, toDelete_self, toReplace_self I hn, number]

theorem number_ids (b : Nat) (l : List (OpType × (EKey × Payload))) :
    (number b l).map (·.id) = List.range' (b + 1) l.length := by
  induction l generalizing b with
  | nil => simp [number]
  | cons x rest ih =>
    simp only [number, List.map_cons, List.length_cons, mkOp]
    rw [ih (b + 1)]
    simp [List.range'_succ]

/-- **C15 (ids).** The generated operation ids are exactly `base + 1, …, base + n`, in sending
order: distinct and counting up from the supplied base. -/
theorem c15_ids (I T : Ents) (base : Nat) :
    (ops I T base).map (·.id) = List.range' (base + 1) (ops I T base).length := by
  unfold ops
  rw [number_ids]
  congr 1
  have : ∀ (b : Nat) (l : List (OpType × (EKey × Payload))), (number b l).length = l.length := by
    intro b l
    induction l generalizing b with
    | nil => simp [number]
    | cons x rest ih => simp [number, ih]
  rw [this]

theorem c15_ids_nodup (I T : Ents) (base : Nat) : ((ops I T base).map (·.id)).Nodup := by
  rw [c15_ids]; exact List.nodup_range'

/-- every operation is an ADD of an entry of the intended RIB or a DELETE of an entry only the
target has; nothing else is ever sent -/
theorem c15_ops_sound (I T : Ents) (base : Nat) (op : Op) (h : op ∈ ops I T base) :
    (op.ty = .add ∧ ((op.ni, op.key), op.pl) ∈ I) ∨
    (op.ty = .delete ∧ ((op.ni, op.key), op.pl) ∈ T ∧ I.get? (op.ni, op.key) = none) := by
  have hnum : ∀ (b : Nat) (l : List (OpType × (EKey × Payload))) (op : Op), op ∈ number b l →
      ∃ x ∈ l, op.ty = x.1 ∧ ((op.ni, op.key), op.pl) = x.2 := by
    intro b l
    induction l generalizing b with
    | nil => intro op h; simp [number] at h
    | cons x rest ih =>
      intro op h
      simp only [number, List.mem_cons] at h
      rcases h with h | h
      · subst h; exact ⟨x, List.mem_cons_self, rfl, rfl⟩
      · obtain ⟨y, hy, h1, h2⟩ := ih (b + 1) op h
        exact ⟨y, List.mem_cons_of_mem _ hy, h1, h2⟩
  obtain ⟨x, hx, hty, he⟩ := hnum _ _ op h
  simp only [List.mem_append, List.mem_map] at hx
  rcases hx with ⟨e, hein, rfl⟩ | ⟨e, hein, rfl⟩
  · left
    refine ⟨hty, ?_⟩
    rw [he]
    simp only [installs, diff, Ops.of, List.mem_append, List.mem_filter, toAdd, toReplace] at hein
    rcases hein with ((((⟨⟨h, _⟩, _⟩ | ⟨⟨h, _⟩, _⟩) | ⟨⟨h, _⟩, _⟩) | ⟨⟨h, _⟩, _⟩) | ⟨⟨h, _⟩, _⟩) | ⟨⟨h, _⟩, _⟩ <;> exact h
  · right
    refine ⟨hty, ?_⟩
    rw [he]
    simp only [removals, diff, Ops.of, List.mem_append, List.mem_filter, toDelete] at hein
    have : e ∈ T ∧ (I.get? e.1).isNone = true := by
      rcases hein with (⟨⟨h, h'⟩, _⟩ | ⟨⟨h, h'⟩, _⟩) | ⟨⟨h, h'⟩, _⟩ <;> exact ⟨h, h'⟩
    refine ⟨this.1, ?_⟩
    have h2 := this.2
    have he' : e.1 = (op.ni, op.key) := by
      have := congrArg Prod.fst he
      exact this.symm
    rw [he'] at h2
    simpa [Option.isNone_iff_eq_none] using h2

end Gribi.C15
