/-
C17 — chk assertion helpers pass exactly when the expected item is present.
-/
import Gribi.Model.Chk
namespace Gribi.C17
open Gribi.Chk

/-- **C17 (HasResult).** Passes iff some given result equals the wanted one outside the
documented ignore set. -/
theorem c17_hasResult_iff (res : List (Option OpRes)) (w : OpRes) (o : Opts) :
    hasResult res w o = true ↔ ∃ r, some r ∈ res ∧ eqModulo o r w = true := by
  unfold hasResult
  rw [List.any_eq_true]
  constructor
  · rintro ⟨x, hx, h⟩
    cases x with
    | none => simp at h
    | some r => exact ⟨r, hx, h⟩
  · rintro ⟨r, hr, h⟩
    exact ⟨some r, hr, h⟩

theorem lastBy_mem {κ : Type} [DecidableEq κ] (res : List OpRes) (key : OpRes → Option κ) (k : κ) (r : OpRes)
    (h : lastBy res key k = some r) : r ∈ res ∧ key r = some k := by
  unfold lastBy at h
  have h1 := List.mem_of_find?_eq_some h
  have h2 := List.find?_some h
  exact ⟨by simpa using h1, by simpa using h2⟩

/-- **C17 (cache is sound).** The cached checker never passes where the plain one fails:
whenever `HasResultsCache` passes, every wanted result is found by `HasResult` in the full list.
In particular a wanted IPv6 or MPLS result that is absent makes it fail. -/
theorem c17_cache_sound (res wants : List OpRes) (o : Opts) (h : hasResultsCache res wants o = true) :
    ∀ w ∈ wants, hasResult (res.map some) w o = true := by
  intro w hw
  unfold hasResultsCache at h
  have single : ∀ (x : Option OpRes), hasResult [x] w o = true → (∀ r, x = some r → r ∈ res) →
      hasResult (res.map some) w o = true := by
    intro x hx hmem
    rw [c17_hasResult_iff] at hx ⊢
    obtain ⟨r, hr, he⟩ := hx
    simp only [List.mem_singleton] at hr
    exact ⟨r, List.mem_map.mpr ⟨r, hmem r hr.symm, rfl⟩, he⟩
  split at h
  · rw [List.all_eq_true] at h
    exact single _ (h w hw) (fun r hr => (lastBy_mem res _ _ r hr).1)
  · rw [List.all_eq_true] at h
    have := h w hw
    split at this
    · cases this
    · split at this
      · cases this
      · exact single _ this (fun r hr => (lastBy_mem res _ _ r hr).1)

/-- a result can be looked up: its key occurs once -/
def UniqueBy {κ : Type} [DecidableEq κ] (res : List OpRes) (key : OpRes → Option κ) : Prop :=
  ∀ r1 ∈ res, ∀ r2 ∈ res, ∀ k, key r1 = some k → key r2 = some k → r1 = r2

theorem lastBy_of_unique {κ : Type} [DecidableEq κ] (res : List OpRes) (key : OpRes → Option κ)
    (hu : UniqueBy res key) (r : OpRes) (hr : r ∈ res) (k : κ) (hk : key r = some k) :
    lastBy res key k = some r := by
  unfold lastBy
  have hex : ∃ x ∈ res.reverse, (key x == some k) = true := ⟨r, by simpa using hr, by simp [hk]⟩
  cases hf : res.reverse.find? (fun x => key x == some k) with
  | none =>
    rw [List.find?_eq_none] at hf
    obtain ⟨x, hx, hxk⟩ := hex
    exact absurd hxk (hf x hx)
  | some x =>
    have h1 := List.mem_of_find?_eq_some hf
    have h2 := List.find?_some hf
    have : x = r := hu x (by simpa using h1) r hr k (by simpa using h2) hk
    rw [this]

/-- **C17 (cache agrees when keys are unique), by operation id.** -/
theorem c17_cache_complete_by_id (res wants : List OpRes) (o : Opts) (hi : o.ignoreOpId = false)
    (hu : UniqueBy res (fun r => some r.opId))
    (h : ∀ w ∈ wants, hasResult (res.map some) w o = true) : hasResultsCache res wants o = true := by
  unfold hasResultsCache
  simp only [hi, Bool.not_false, if_true]
  rw [List.all_eq_true]
  intro w hw
  obtain ⟨r, hr, he⟩ := (c17_hasResult_iff _ _ _).mp (h w hw)
  have hr' : r ∈ res := by
    obtain ⟨x, hx, hxe⟩ := List.mem_map.mp hr
    cases hxe; exact hx
  have hid : r.opId = w.opId := by
    unfold eqModulo at he
    simp only [hi, Bool.false_or, Bool.and_eq_true, beq_iff_eq] at he
    exact he.1.1.1.1.1.2
  have := lastBy_of_unique res _ hu r hr' w.opId (by simp [hid])
  rw [this]
  exact (c17_hasResult_iff _ _ _).mpr ⟨r, by simp, he⟩

/-- **C17 (cache agrees when keys are unique), ignoring operation ids.** Every want must carry
details naming a key (the helper reports a test error otherwise). -/
theorem c17_cache_complete_by_key (res wants : List OpRes) (o : Opts) (hi : o.ignoreOpId = true)
    (hu : UniqueBy res (fun r => r.details.bind dkey))
    (hk : ∀ w ∈ wants, ∃ d k, w.details = some d ∧ dkey d = some k)
    (h : ∀ w ∈ wants, hasResult (res.map some) w o = true) : hasResultsCache res wants o = true := by
  unfold hasResultsCache
  simp only [hi, Bool.not_true, Bool.false_eq_true, if_false]
  rw [List.all_eq_true]
  intro w hw
  obtain ⟨d, k, hd, hkk⟩ := hk w hw
  obtain ⟨r, hr, he⟩ := (c17_hasResult_iff _ _ _).mp (h w hw)
  have hr' : r ∈ res := by
    obtain ⟨x, hx, hxe⟩ := List.mem_map.mp hr
    cases hxe; exact hx
  have hdet : r.details = w.details := by
    unfold eqModulo at he
    simp only [hd, Option.isNone_some, Bool.false_or, Bool.and_eq_true, beq_iff_eq] at he
    rw [hd]; exact he.1.1.1.1.1.1
  simp only [hd, hkk]
  have := lastBy_of_unique res _ hu r hr' k (by simp [hdet, hd, hkk])
  rw [this]
  exact (c17_hasResult_iff _ _ _).mpr ⟨r, by simp, he⟩

/-- **C17 (Get responses).** Passes iff every wanted entry names an instance and a kind, its
instance occurs in the response, and an entry of that kind and key in that instance is present
(keys 0 and "" are never indexed — the guard of the code, stated). -/
theorem c17_get_iff (resp wants : List GEntry) :
    getResponseHasEntries resp wants = true ↔
      ∀ w ∈ wants, w.ni ≠ "" ∧ w.kind ≠ .other ∧ (∃ e ∈ resp, e.ni = w.ni) ∧
        ∃ e ∈ resp, indexable e = true ∧ e.ni = w.ni ∧ e.kind = w.kind ∧ e.key = w.key := by
  unfold getResponseHasEntries
  rw [List.all_eq_true]
  constructor
  · intro h w hw
    have := h w hw
    simp only [Bool.and_eq_true, decide_eq_true_eq, List.any_eq_true, beq_iff_eq] at this
    obtain ⟨⟨⟨h1, h2⟩, ⟨e1, he1, hn1⟩⟩, ⟨e2, he2, h3⟩⟩ := this
    exact ⟨h1, h2, ⟨e1, he1, hn1⟩, ⟨e2, he2, h3.1.1.1, h3.1.1.2, h3.1.2, h3.2⟩⟩
  · intro h w hw
    obtain ⟨h1, h2, ⟨e1, he1, hn1⟩, ⟨e2, he2, a, b, c, d⟩⟩ := h w hw
    simp only [Bool.and_eq_true, decide_eq_true_eq, List.any_eq_true, beq_iff_eq]
    exact ⟨⟨⟨h1, h2⟩, ⟨e1, he1, hn1⟩⟩, ⟨e2, he2, ⟨⟨a, b⟩, c⟩, d⟩⟩

/-- **C17 (no kind is accepted without being looked up).** An absent wanted entry of any
kind — IPv6 and MPLS included — makes the helper fail. -/
theorem c17_no_vacuous (resp : List GEntry) (w : GEntry) (wants : List GEntry) (hw : w ∈ wants)
    (habs : ∀ e ∈ resp, ¬ (e.ni = w.ni ∧ e.kind = w.kind ∧ e.key = w.key)) :
    getResponseHasEntries resp wants = false := by
  cases h : getResponseHasEntries resp wants with
  | false => rfl
  | true =>
    obtain ⟨_, _, _, ⟨e, he, _, a, b, c⟩⟩ := (c17_get_iff resp wants).mp h w hw
    exact absurd ⟨a, b, c⟩ (habs e he)

/-- **C17 (error counts).** -/
theorem c17_counts (e : CErr) (n : Nat) :
    (hasNSendErrors e n = true ↔
      (e matches .nil ∧ n = 0) ∨ ∃ s r, e = .clientErr s r ∧ s = n) ∧
    (hasNRecvErrors e n = true ↔
      (e matches .nil ∧ n = 0) ∨ ∃ s r, e = .clientErr s r ∧ r.length = n) := by
  cases e with
  | nil => simp [hasNSendErrors, hasNRecvErrors]
  | other => simp [hasNSendErrors, hasNRecvErrors]
  | clientErr s r =>
    simp only [hasNSendErrors, hasNRecvErrors, beq_iff_eq, CErr.clientErr.injEq, reduceCtorEq, false_and, false_or]
    constructor
    · constructor
      · intro h; exact ⟨s, r, ⟨rfl, rfl⟩, h⟩
      · rintro ⟨s', r', ⟨rfl, rfl⟩, h⟩; exact h
    · constructor
      · intro h; exact ⟨s, r, ⟨rfl, rfl⟩, h⟩
      · rintro ⟨s', r', ⟨rfl, rfl⟩, h⟩; exact h

/-- **C17 (status).** Without options the helper passes iff some receive error is a status with
the wanted code and details, and the wanted message when one is given -/
theorem c17_status_plain (send : Nat) (recv : List (Option St)) (want : St) :
    hasRecvStatus (.clientErr send recv) want false false = true ↔
      ∃ s, some s ∈ recv ∧ s.code = want.code ∧ s.det = want.det ∧ (want.msg = "" ∨ s.msg = want.msg) := by
  unfold hasRecvStatus
  simp only [Bool.false_eq_true, if_false, List.append_nil, Bool.false_and, Bool.or_false]
  rw [List.any_eq_true]
  constructor
  · rintro ⟨x, hx, h⟩
    cases x with
    | none => simp at h
    | some s =>
      simp only [List.any_cons, List.any_nil, Bool.or_false] at h
      refine ⟨s, hx, ?_⟩
      by_cases hm : want.msg = ""
      · simp only [hm, beq_self_eq_true, if_true, beq_iff_eq] at h
        rw [← h]; simp
      · have : (want.msg == "") = false := by simpa using hm
        simp only [this, Bool.false_eq_true, if_false, beq_iff_eq] at h
        rw [h]; simp
  · rintro ⟨s, hs, h1, h2, h3⟩
    refine ⟨some s, hs, ?_⟩
    simp only [List.any_cons, List.any_nil, Bool.or_false]
    by_cases hm : want.msg = ""
    · simp only [hm, beq_self_eq_true, if_true, beq_iff_eq]
      cases s; cases want; simp_all
    · have : (want.msg == "") = false := by simpa using hm
      simp only [this, Bool.false_eq_true, if_false, beq_iff_eq]
      rcases h3 with h3 | h3
      · exact absurd h3 hm
      · cases s; cases want; simp_all

/-- a non-ClientErr error, or no error at all, never satisfies a status want -/
theorem c17_status_needs_clienterr (want : St) (a b : Bool) :
    hasRecvStatus .nil want a b = false ∧ hasRecvStatus .other want a b = false := ⟨rfl, rfl⟩

/-- non-vacuity -/
example :
    let r6 : OpRes := { opId := 3, prog := 3, details := some { ty := 1, v6 := "2001:db8::/32" } }
    let rm : OpRes := { opId := 4, prog := 3, details := some { ty := 1, mpls := 100 } }
    let w6 : OpRes := { opId := 0, prog := 3, details := some { ty := 1, v6 := "2001:db8:1::/48" } }
    hasResultsCache [r6, rm] [w6] { ignoreOpId := true } = false ∧
    hasResultsCache [r6, rm] [{ r6 with opId := 9 }, { rm with opId := 0 }] { ignoreOpId := true } = true ∧
    getResponseHasEntries [⟨"D", .v6, "2001:db8::/32"⟩] [⟨"D", .mpls, "100"⟩] = false := by decide

end Gribi.C17
