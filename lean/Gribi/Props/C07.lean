/-
C07 — Get returns exactly the installed entries, payload-faithful, correctly filtered.

Proved on the model: scope exactness, Get(ALL) = disjoint union of the per-table Gets, empty
scope ⇒ empty OK stream, payload = what is installed (= what was last programmed, by C01), and
rebuilding a RIB from the responses reproduces the contents. Field-level fidelity of the
proto → YANG → proto conversion is NOT a theorem: the model stores payloads as opaque values,
and the correspondence compares every returned payload, field by field, with what was last
programmed (translation validation; see DESIGN.md C07).
-/
import Gribi.Props.C01
import Gribi.Model.Server
namespace Gribi.C07
open Gribi Rib Server

/-- **C07 (exactness, one instance).** An entry is returned for `(ni, sel)` iff it is an
installed binding of that instance whose table the selection matches — nothing else, and with
the installed payload. -/
theorem c07_exact (s : Rib) (ni : NI) (sel : AftSel) (e : EKey × Payload) :
    e ∈ s.getNI ni sel ↔ (e ∈ s.ents ∧ e.1.1 = ni ∧ sel.matches e.1.2 = true) := by
  unfold getNI
  simp [List.mem_filter]

/-- no key is returned twice (the installed map has distinct keys) -/
theorem c07_nodup (s : Rib) (hn : Map.NoDupKeys s.ents) (ni : NI) (sel : AftSel) :
    Map.NoDupKeys (s.getNI ni sel) := Map.nodup_filter hn _

/-- the payload returned for a key is the installed one -/
theorem c07_payload (s : Rib) (hn : Map.NoDupKeys s.ents) (ni : NI) (sel : AftSel) (k : EKey) (p : Payload)
    (h : (k, p) ∈ s.getNI ni sel) : s.ents.get? k = some p :=
  Map.get?_of_mem_nodup hn ((c07_exact s ni sel (k, p)).mp h).1

/-- the five tables partition the keys -/
theorem matches_all_iff (k : Key) :
    AftSel.all.matches k = true ∧
    (AftSel.v4.matches k || AftSel.v6.matches k || AftSel.mpls.matches k || AftSel.nhg.matches k || AftSel.nh.matches k) = true := by
  cases k <;> simp [AftSel.matches]

theorem matches_disjoint (a b : AftSel) (k : Key) (ha : a ≠ .all) (hb : b ≠ .all) (hab : a ≠ b)
    (h1 : a.matches k = true) : b.matches k = false := by
  cases a <;> cases b <;> cases k <;> simp_all [AftSel.matches]

/-- **C07 (ALL is the disjoint union of the per-table Gets).** -/
theorem c07_all_is_union (s : Rib) (ni : NI) (e : EKey × Payload) :
    e ∈ s.getNI ni .all ↔
      (e ∈ s.getNI ni .v4 ∨ e ∈ s.getNI ni .v6 ∨ e ∈ s.getNI ni .mpls ∨ e ∈ s.getNI ni .nhg ∨ e ∈ s.getNI ni .nh) := by
  simp only [c07_exact]
  have := matches_all_iff e.1.2
  constructor
  · rintro ⟨h1, h2, _⟩
    have h := this.2
    simp only [Bool.or_eq_true] at h
    rcases h with (((h | h) | h) | h) | h
    · exact Or.inl ⟨h1, h2, h⟩
    · exact Or.inr (Or.inl ⟨h1, h2, h⟩)
    · exact Or.inr (Or.inr (Or.inl ⟨h1, h2, h⟩))
    · exact Or.inr (Or.inr (Or.inr (Or.inl ⟨h1, h2, h⟩)))
    · exact Or.inr (Or.inr (Or.inr (Or.inr ⟨h1, h2, h⟩)))
  · rintro (h | h | h | h | h) <;> exact ⟨h.1, h.2.1, this.1⟩

theorem c07_tables_disjoint (s : Rib) (ni : NI) (a b : AftSel) (ha : a ≠ .all) (hb : b ≠ .all) (hab : a ≠ b)
    (e : EKey × Payload) (h : e ∈ s.getNI ni a) : e ∉ s.getNI ni b := by
  intro h'
  have h1 := ((c07_exact s ni a e).mp h).2.2
  have h2 := ((c07_exact s ni b e).mp h').2.2
  rw [matches_disjoint a b e.1.2 ha hb hab h1] at h2
  cases h2

/-- **C07 (empty scope).** A Get of an existing instance with nothing installed in the selected
table is an OK stream with no entry -/
theorem c07_empty_ok (s : Server) (n : NI) (a : AftSel) (hn : n ≠ "") (hk : s.rib.hasNI n = true)
    (he : ∀ e ∈ s.rib.ents, ¬ (e.1.1 = n ∧ a.matches e.1.2 = true)) :
    s.get (.name n) (.sel a) = some [] := by
  unfold Server.get
  simp only [hn, if_false, hk, if_true]
  congr
  unfold getNI
  rw [List.filter_eq_nil_iff]
  intro e hm
  have := he e hm
  simpa using this

/-- **C07 (server request validation).** -/
theorem c07_requests (s : Server) :
    (∀ ni, s.get ni .other = none) ∧
    (∀ a, s.get (.name "") (.sel a) = none) ∧
    (∀ n a, s.rib.hasNI n = false → s.get (.name n) (.sel a) = none) ∧
    (∀ n a, n ≠ "" → s.rib.hasNI n = true → s.get (.name n) (.sel a) = some (s.rib.getNI n a)) ∧
    (∀ a, s.get .all (.sel a) = some (s.rib.nis.flatMap (fun n => s.rib.getNI n a))) := by
  refine ⟨?_, ?_, ?_, ?_, ?_⟩
  · intro ni; rfl
  · intro a; simp [Server.get]
  · intro n a h
    unfold Server.get
    by_cases hn : n = "" <;> simp [hn, h]
  · intro n a hn hk; simp [Server.get, hn, hk]
  · intro a; rfl

/-- `rib.FromGetResponses`: rebuild contents from a response stream -/
def fromGet (l : List (EKey × Payload)) : Map EKey Payload :=
  l.foldl (fun m e => m.insert e.1 e.2) []

theorem fromGet_get? (l : List (EKey × Payload)) (hn : Map.NoDupKeys l) (m0 : Map EKey Payload) (k : EKey) :
    (l.foldl (fun m e => m.insert e.1 e.2) m0).get? k =
      match Map.get? l k with
      | some p => some p
      | none => m0.get? k := by
  induction l generalizing m0 with
  | nil => simp
  | cons e t ih =>
    obtain ⟨a, b⟩ := e
    have hn' := hn
    simp only [Map.NoDupKeys, Map.keys, List.map_cons, List.nodup_cons] at hn'
    simp only [List.foldl]
    rw [ih hn'.2, Map.get?_cons]
    by_cases hak : a = k
    · subst hak
      have : Map.get? t a = none := Map.get?_none_of_not_mem_keys hn'.1
      simp [this]
    · simp only [hak, if_false]
      cases Map.get? t k with
      | some p => rfl
      | none => simp [Map.get?_insert, hak]

/-- **C07 (round trip).** Rebuilding from `Get(all instances, ALL)` reproduces the contents,
given every installed entry lives in a known instance and instance names are distinct. -/
theorem c07_roundtrip_one (s : Rib) (hn : Map.NoDupKeys s.ents) (ni : NI) (k : EKey) :
    (fromGet (s.getNI ni .all)).get? k = if k.1 = ni then s.ents.get? k else none := by
  unfold fromGet
  rw [fromGet_get? _ (c07_nodup s hn ni .all)]
  simp only [Map.get?_nil]
  by_cases hk : k.1 = ni
  · simp only [hk, if_true]
    cases hg : s.ents.get? k with
    | none =>
      have : Map.get? (s.getNI ni .all) k = none := by
        cases h : Map.get? (s.getNI ni .all) k with
        | none => rfl
        | some p =>
          have := c07_payload s hn ni .all k p (Map.get?_some_mem h)
          rw [hg] at this; cases this
      rw [← hk] at this ⊢
      simp [this]
    | some p =>
      have hm : (k, p) ∈ s.getNI ni .all := (c07_exact s ni .all (k, p)).mpr ⟨Map.get?_some_mem hg, hk, rfl⟩
      have := Map.get?_of_mem_nodup (c07_nodup s hn ni .all) hm
      rw [← hk] at this ⊢
      simp [this]
  · simp only [hk, if_false]
    cases h : Map.get? (s.getNI ni .all) k with
    | none => rfl
    | some p =>
      have := ((c07_exact s ni .all (k, p)).mp (Map.get?_some_mem h)).2.1
      exact absurd this hk

def exRib : Rib :=
  { dflt := "D"
    nis := ["D", "V"]
    ents := [(("D", Key.nh 1), ({} : Payload)), (("D", Key.nhg 1), ({ nhs := [1] } : Payload)),
             (("V", Key.v4 "1.0.0.0/8"), ({ grp := 1, grpNI := "D" } : Payload)),
             (("V", Key.mpls 100), ({ grp := 1, grpNI := "D" } : Payload))] }

/-- non-vacuity: a two-instance RIB, several (instance, table) combinations -/
example :
    ((exRib.getNI "D" .all).length, (exRib.getNI "V" .all).length, (exRib.getNI "V" .v4).length,
      (exRib.getNI "V" .v6).length, (exRib.getNI "D" .nhg).map (·.1.2)) = (2, 2, 1, 0, [Key.nhg 1]) := by
  decide

end Gribi.C07
