/-
C09 — Session negotiation / protocol violations: specified status, no side effects.
-/
import Gribi.Props.C04
namespace Gribi.C09
open Gribi Server

/-- **C09 (acceptance).** Session parameters are accepted iff they are the first message, were
not set before, name SINGLE_PRIMARY (1) with PRESERVE (1) — either acknowledgement type — and
equal the parameters of every other live session (a session that has connected but not yet
negotiated counts with its default parameters, as in the code). -/
theorem c09_params_accept_iff (s : Server) (c : Nat) (cs : Sess) (red pers ack : Nat) :
    (doParams s c cs red pers ack).2.term = none ↔
      (cs.gotMsg = false ∧ red = 1 ∧ pers = 1 ∧ cs.setParams = false ∧
        ∀ e ∈ s.sess, e.1 = c ∨ e.2.params = paramsOf red pers ack) := by
  unfold doParams
  by_cases h1 : cs.gotMsg = true
  · simp [h1]
  · have h1' : cs.gotMsg = false := by simpa using h1
    simp only [h1', Bool.false_eq_true, if_false, true_and]
    by_cases h2 : (red == 0 && pers == 1) = true
    · simp only [h2, if_true, reduceCtorEq, false_iff]
      simp only [Bool.and_eq_true, beq_iff_eq] at h2
      intro h; omega
    · simp only [h2, Bool.false_eq_true, if_false]
      by_cases h3 : red = 1
      · subst h3
        by_cases h4 : pers = 1
        · subst h4
          simp only [bne_self_eq_false, Bool.false_eq_true, if_false, true_and]
          by_cases h5 : (s.sess.all fun e => e.1 == c || e.2.params == paramsOf 1 1 ack) = true
          · simp only [h5, if_true]
            have h5' : ∀ e ∈ s.sess, e.1 = c ∨ e.2.params = paramsOf 1 1 ack := by
              rw [List.all_eq_true] at h5
              intro e he
              have := h5 e he
              simpa using this
            by_cases h6 : cs.setParams = true
            · simp [h6]
            · have h6' : cs.setParams = false := by simpa using h6
              simp only [h6', Bool.false_eq_true, if_false, true_and, true_iff]
              intro e he; exact h5' e he
          · simp only [h5, Bool.false_eq_true, if_false, reduceCtorEq, false_iff, not_and]
            intro _ hall
            apply h5
            rw [List.all_eq_true]
            intro e he
            simpa using hall e he
        · have : (pers != 1) = true := by simpa using h4
          simp [this, h4]
      · have : (red != 1) = true := by simpa using h3
        simp [this, h3]

/-- **C09 (status of each violation).** -/
theorem c09_codes (s : Server) (c : Nat) (cs : Sess) (hcs : s.sess.get? c = some cs) :
    -- more than one of params / election id / operations
    ((recv s c .multi).map (·.2.term) = some (some ⟨.invalidArgument, .none⟩)) ∧
    -- a message with no field
    ((recv s c .empty).map (·.2.term) = some (some ⟨.unimplemented, .none⟩)) ∧
    -- parameters after another message
    (cs.gotMsg = true → ∀ a b d, (recv s c (.params a b d)).map (·.2.term) = some (some ⟨.failedPrecondition, .modifyNotAllowed⟩)) ∧
    -- ALL_PRIMARY with PRESERVE; other unsupported modes
    (cs.gotMsg = false → ∀ d, (recv s c (.params 0 1 d)).map (·.2.term) = some (some ⟨.failedPrecondition, .unsupportedParams⟩)) ∧
    (cs.gotMsg = false → ∀ a b d, ¬ (a = 0 ∧ b = 1) → (a ≠ 1 ∨ b ≠ 1) →
      (recv s c (.params a b d)).map (·.2.term) = some (some ⟨.unimplemented, .unsupportedParams⟩)) ∧
    -- parameters that differ from another live session's
    (cs.gotMsg = false → ∀ d, (∃ e ∈ s.sess, e.1 ≠ c ∧ e.2.params ≠ paramsOf 1 1 d) →
      (recv s c (.params 1 1 d)).map (·.2.term) = some (some ⟨.failedPrecondition, .paramsDiffer⟩)) ∧
    -- an election id from a session that has not negotiated SINGLE_PRIMARY
    (cs.params.expectElec = false → ∀ e, (recv s c (.elec e)).map (·.2.term) = some (some ⟨.failedPrecondition, .elecInAllPrimary⟩)) ∧
    -- a zero election id
    (cs.params.expectElec = true → ∀ e, e.isZero = true → (recv s c (.elec e)).map (·.2.term) = some (some ⟨.invalidArgument, .none⟩)) ∧
    -- operations from a session that has not negotiated SINGLE_PRIMARY / PRESERVE
    ((cs.params.expectElec = false ∨ cs.params.persist = false) → ∀ l, (∀ e ∈ l, e.2 = []) →
      (recv s c (.ops l)).map (·.2.term) = some (some ⟨.unimplemented, .unsupportedParams⟩)) := by
  have hfin : ∀ r : Server × MsgOut, (finish c r).2 = r.2 := by intro r; unfold finish; split <;> rfl
  refine ⟨?_, ?_, ?_, ?_, ?_, ?_, ?_, ?_, ?_⟩
  · simp [recv, hcs]
  · simp [recv, hcs]
  · intro h a b d
    simp [recv, hcs, hfin, doParams, h]
  · intro h d
    simp [recv, hcs, hfin, doParams, h]
  · intro h a b d hn hor
    simp only [recv, hcs, Option.map_some, hfin, doParams, h, Bool.false_eq_true, if_false]
    have h2 : (a == 0 && b == 1) = false := by
      cases h2 : (a == 0 && b == 1)
      · rfl
      · simp only [Bool.and_eq_true, beq_iff_eq] at h2; exact absurd h2 hn
    simp only [h2, Bool.false_eq_true, if_false]
    by_cases ha : a = 1
    · have hb : b ≠ 1 := by rcases hor with h' | h'; exact absurd ha h'; exact h'
      have : (b != 1) = true := by simpa using hb
      simp [ha, this]
    · have : (a != 1) = true := by simpa using ha
      simp [this]
  · intro h d ⟨e, he, hne, hp⟩
    simp only [recv, hcs, Option.map_some, hfin, doParams, h, Bool.false_eq_true, if_false]
    have hall : (s.sess.all fun x => x.1 == c || x.2.params == paramsOf 1 1 d) = false := by
      rw [List.all_eq_false]
      exact ⟨e, he, by simp [hne, hp]⟩
    simp [hall]
  · intro h e
    simp [recv, hcs, hfin, doElec, h]
  · intro h e hz
    simp [recv, hcs, hfin, doElec, h, hz]
  · intro h l hl
    have hb : (!cs.params.expectElec || !cs.params.persist) = true := by
      rcases h with h | h <;> simp [h]
    have hs : l.all (fun e => e.2 == []) = true := by
      rw [List.all_eq_true]; intro e he; simp [hl e he]
    simp only [recv, hcs, doOps, hb, if_true, hs, Option.map_some, hfin]

/-- other sessions are never touched by a message on session `c` -/
theorem c09_others_untouched {s s' : Server} {c : Nat} {m : Msg} {o : MsgOut}
    (h : recv s c m = some (s', o)) (c' : Nat) (hne : c' ≠ c) : s'.sess.get? c' = s.sess.get? c' := by
  have hne' : c ≠ c' := fun h => hne h.symm
  have hfin : ∀ r : Server × MsgOut, (finish c r).1.sess.get? c' = r.1.sess.get? c' := by
    intro r; unfold finish; split
    · simp [Server.drop, Map.get?_erase, hne']
    · rfl
  unfold recv at h
  split at h
  · cases h
  · rename_i cs hcs
    cases m with
    | multi => simp only [Option.some.injEq, Prod.mk.injEq] at h; obtain ⟨rfl, _⟩ := h; simp [Server.drop, Map.get?_erase, hne']
    | empty => simp only [Option.some.injEq, Prod.mk.injEq] at h; obtain ⟨rfl, _⟩ := h; simp [Server.drop, Map.get?_erase, hne']
    | params a b d =>
      simp only [Option.some.injEq] at h
      have := hfin (doParams s c cs a b d)
      rw [h] at this
      rw [this]
      unfold doParams
      split
      · rfl
      · split
        · rfl
        · split
          · rfl
          · split
            · rfl
            · simp only
              split
              · split
                · rfl
                · simp [Map.get?_insert, hne']
              · rfl
    | elec e =>
      simp only [Option.some.injEq] at h
      have := hfin (doElec s c cs e)
      rw [h] at this
      rw [this]
      unfold doElec
      split
      · rfl
      · split
        · rfl
        · simp only
          split <;> simp [Map.get?_insert, hne']
    | ops l =>
      simp only [Option.map_eq_some_iff] at h
      obtain ⟨⟨s2, o2⟩, hd, heq⟩ := h
      have := hfin (s2, o2)
      rw [heq] at this
      rw [this]
      unfold doOps at hd
      split at hd
      · split at hd
        · cases hd; rfl
        · cases hd
      · simp only at hd
        split at hd
        · cases hd
        · cases hd; simp [Map.get?_insert, hne']

/-- **C09 (no side effects, footprint removed).** A message that is not an operations message and
ends the RPC leaves the server exactly as it was, minus the session's own entry: RIB, election
state and every other session are untouched, and the failed session no longer constrains anyone. -/
theorem c09_noop {s s' : Server} {c : Nat} {m : Msg} {o : MsgOut} (h : recv s c m = some (s', o))
    (hterm : o.term.isSome = true) (hm : ∀ l, m ≠ .ops l) : s' = s.drop c := by
  unfold recv at h
  split at h
  · cases h
  · rename_i cs hcs
    cases m with
    | multi => simp only [Option.some.injEq, Prod.mk.injEq] at h; exact h.1.symm
    | empty => simp only [Option.some.injEq, Prod.mk.injEq] at h; exact h.1.symm
    | ops l => exact absurd rfl (hm l)
    | params a b d =>
      simp only [Option.some.injEq] at h
      have key : ∀ r : Server × MsgOut, r.2.term.isSome = true → r.1 = s → (finish c r).1 = s.drop c := by
        intro r hr hs; unfold finish
        cases ht : r.2.term with
        | none => simp [ht] at hr
        | some t => simp [hs]
      have h2 : (finish c (doParams s c cs a b d)).2 = (doParams s c cs a b d).2 := by unfold finish; split <;> rfl
      rw [h] at h2
      simp only at h2
      have hs : (doParams s c cs a b d).2.term.isSome = true → (doParams s c cs a b d).1 = s := by
        unfold doParams
        split
        · intro _; rfl
        · split
          · intro _; rfl
          · split
            · intro _; rfl
            · split
              · intro _; rfl
              · simp only
                split
                · split
                  · intro _; rfl
                  · intro h'; simp at h'
                · intro _; rfl
      rw [h2] at hterm
      have := key _ hterm (hs hterm)
      rw [h] at this
      exact this
    | elec e =>
      simp only [Option.some.injEq] at h
      have h2 : (finish c (doElec s c cs e)).2 = (doElec s c cs e).2 := by unfold finish; split <;> rfl
      rw [h] at h2
      simp only at h2
      rw [h2] at hterm
      by_cases hacc : cs.params.expectElec = true ∧ e.isZero = false
      · have := (C05.doElec_accept s c cs e hacc.1 hacc.2).1
        rw [this] at hterm
        simp at hterm
      · obtain ⟨r1, r2⟩ := C05.doElec_reject s c cs e hacc
        have : (finish c (doElec s c cs e)).1 = s.drop c := by
          unfold finish
          cases ht : (doElec s c cs e).2.term with
          | none => simp [ht] at hterm
          | some t => simp [r2]
        rw [h] at this
        exact this

/-- after the session's exit it is gone from the session table, so a later session's
parameters are no longer compared with it -/
theorem c09_footprint (s : Server) (c : Nat) :
    (s.drop c).sess.get? c = none ∧ (s.drop c).rib = s.rib ∧ (s.drop c).curElec = s.curElec := by
  simp [Server.drop]

/-- an operation without an election id ends the RPC (FailedPrecondition) and changes nothing,
whenever it is reached -/
theorem c09_op_without_id (r : Rib) (c : Nat) (fib : Bool) (snap : ElecSnap) (op : Op)
    (h : op.elec = none) :
    modifyOne r c fib snap op [] = some (r, {}, .inr ⟨.failedPrecondition, .unknown⟩) := by
  simp [modifyOne, gate, h]

end Gribi.C09
