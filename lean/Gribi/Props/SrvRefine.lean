/-
Refinement: every step of the server model acts on its RIB by a run of the RIB model. Whatever the
sessions, elections, gates, protocol violations, disconnects, Gets and Flushes, the RIB inside
the server only ever changes through `Rib.add`, `Rib.del` and `Rib.flush` — so every theorem
proved for all RIB histories (counters = referrers, closure, …) holds in every reachable server
state.
-/
import Gribi.Model.Server
import Gribi.Props.C03
namespace Gribi.SrvRefine
open Gribi Server

theorem rib_run_cons (r : Rib) (i : Rib.In) (rest : List Rib.In) :
    Rib.run r (i :: rest) = match Rib.step r i with
      | none => none
      | some (r1, o) => match Rib.run r1 rest with
        | none => none
        | some (r2, os) => some (r2, o :: os) := rfl

theorem rib_run_append {r r1 r2 : Rib} {a b : List Rib.In} {oa ob : List Rib.Out}
    (h1 : Rib.run r a = some (r1, oa)) (h2 : Rib.run r1 b = some (r2, ob)) :
    Rib.run r (a ++ b) = some (r2, oa ++ ob) := by
  induction a generalizing r oa with
  | nil =>
    simp only [Rib.run, Option.some.injEq, Prod.mk.injEq] at h1
    obtain ⟨rfl, rfl⟩ := h1
    exact h2
  | cons i rest ih =>
    rw [rib_run_cons] at h1
    rw [List.cons_append, rib_run_cons]
    cases hs : Rib.step r i with
    | none => simp [hs] at h1
    | some p =>
      obtain ⟨rm, o⟩ := p
      simp only [hs] at h1 ⊢
      cases hr : Rib.run rm rest with
      | none => simp [hr] at h1
      | some p2 =>
        obtain ⟨rr, os⟩ := p2
        simp only [hr, Option.some.injEq, Prod.mk.injEq] at h1
        obtain ⟨rfl, rfl⟩ := h1
        rw [ih hr]
        rfl

/-- one operation of a batch: at most one RIB step -/
theorem modifyOne_refines {r r' : Rib} {c : Nat} {fib : Bool} {snap : ElecSnap} {op : Op} {script : List Rib.CEv}
    {ro : Rib.Out} {res : Resp ⊕ Term} (h : modifyOne r c fib snap op script = some (r', ro, res)) :
    ∃ ins outs, Rib.run r ins = some (r', outs) := by
  unfold modifyOne at h
  split at h
  · split at h
    · simp only [Option.some.injEq, Prod.mk.injEq] at h; obtain ⟨rfl, _⟩ := h; exact ⟨[], [], rfl⟩
    · cases h
  · split at h
    · simp only [Option.some.injEq, Prod.mk.injEq] at h; obtain ⟨rfl, _⟩ := h; exact ⟨[], [], rfl⟩
    · cases h
  · split at h
    · split at h
      · simp only [Option.some.injEq, Prod.mk.injEq] at h; obtain ⟨rfl, _⟩ := h; exact ⟨[], [], rfl⟩
      · cases h
    · split at h
      · simp only at h
        refine ⟨[Rib.In.del op], [(r.del op).2], ?_⟩
        have hr : r' = (r.del op).1 := by
          split at h <;> (simp only [Option.some.injEq, Prod.mk.injEq] at h; exact h.1.symm)
        rw [hr]
        rfl
      · cases h
    · cases ha : r.add op script with
      | none => simp [ha] at h
      | some p =>
        obtain ⟨r1, o1⟩ := p
        simp only [ha] at h
        refine ⟨[Rib.In.add op script], [o1], ?_⟩
        have hr : r' = r1 := by
          split at h <;> (simp only [Option.some.injEq, Prod.mk.injEq] at h; exact h.1.symm)
        rw [hr, rib_run_cons]
        simp only [Rib.step, ha]
        rfl

theorem modifyLoop_refines {c : Nat} {fib : Bool} {snap : ElecSnap} (l : List (Op × List Rib.CEv))
    {r r' : Rib} {o : MsgOut} (h : modifyLoop r c fib snap l = some (r', o)) :
    ∃ ins outs, Rib.run r ins = some (r', outs) := by
  induction l generalizing r o with
  | nil =>
    simp only [modifyLoop, Option.some.injEq, Prod.mk.injEq] at h
    obtain ⟨rfl, _⟩ := h
    exact ⟨[], [], rfl⟩
  | cons x rest ih =>
    obtain ⟨op, script⟩ := x
    simp only [modifyLoop] at h
    split at h
    · split at h
      · cases h
      · cases hr : modifyLoop r c fib snap rest with
        | none => simp [hr] at h
        | some p =>
          obtain ⟨r2, o2⟩ := p
          simp only [hr, Option.some.injEq, Prod.mk.injEq] at h
          obtain ⟨rfl, _⟩ := h
          exact ih hr
    · cases hm : modifyOne r c fib snap op script with
      | none => simp [hm] at h
      | some m =>
        obtain ⟨r1, ro, res⟩ := m
        obtain ⟨i1, o1, h1⟩ := modifyOne_refines hm
        cases res with
        | inr t =>
          simp only [hm, Option.some.injEq, Prod.mk.injEq] at h
          obtain ⟨rfl, _⟩ := h
          exact ⟨i1, o1, h1⟩
        | inl resp =>
          simp only [hm] at h
          cases hr : modifyLoop r1 c fib snap rest with
          | none => simp [hr] at h
          | some p =>
            obtain ⟨r2, o2⟩ := p
            simp only [hr, Option.some.injEq, Prod.mk.injEq] at h
            obtain ⟨rfl, _⟩ := h
            obtain ⟨i2, o2', h2⟩ := ih hr
            exact ⟨i1 ++ i2, o1 ++ o2', rib_run_append h1 h2⟩

theorem drop_rib (s : Server) (c : Nat) : (s.drop c).rib = s.rib := rfl

theorem finish_rib (c : Nat) (r : Server × MsgOut) : (finish c r).1.rib = r.1.rib := by
  unfold finish; split <;> rfl

theorem doParams_rib (s : Server) (c : Nat) (cs : Sess) (a b d : Nat) : (doParams s c cs a b d).1.rib = s.rib := by
  unfold doParams
  split
  · rfl
  · split
    · rfl
    · split
      · rfl
      · split
        · rfl
        · dsimp only
          split
          · split <;> rfl
          · rfl

theorem doElec_rib (s : Server) (c : Nat) (cs : Sess) (e : U128) : (doElec s c cs e).1.rib = s.rib := by
  unfold doElec
  split
  · rfl
  · split
    · rfl
    · simp only; split <;> rfl

/-- **refinement, one event.** -/
theorem step_refines {s s' : Server} {ev : Ev} {o : EvOut} (h : step s ev = some (s', o)) :
    ∃ ins outs, Rib.run s.rib ins = some (s'.rib, outs) := by
  cases ev with
  | connect c => simp only [step, Option.some.injEq, Prod.mk.injEq] at h; obtain ⟨rfl, _⟩ := h; exact ⟨[], [], rfl⟩
  | close c => simp only [step, Option.some.injEq, Prod.mk.injEq] at h; obtain ⟨rfl, _⟩ := h; exact ⟨[], [], rfl⟩
  | get ni aft => simp only [step, Option.some.injEq, Prod.mk.injEq] at h; obtain ⟨rfl, _⟩ := h; exact ⟨[], [], rfl⟩
  | flush ni el =>
    simp only [step, Option.some.injEq, Prod.mk.injEq] at h
    obtain ⟨hs, _⟩ := h
    rw [← hs]
    unfold Server.flush
    cases hc : checkFlush s.curElec ni el with
    | some r => exact ⟨[], [], rfl⟩
    | none =>
      cases ni with
      | unset => exact ⟨[], [], rfl⟩
      | all => exact ⟨[Rib.In.flush s.rib.nis], [{ hooks := (s.rib.flush s.rib.nis).2 }], rfl⟩
      | name n =>
        simp only
        by_cases hn : s.rib.hasNI n = true
        · simp only [hn, if_true]
          exact ⟨[Rib.In.flush [n]], [{ hooks := (s.rib.flush [n]).2 }], rfl⟩
        · simp only [hn, Bool.false_eq_true, if_false]
          exact ⟨[], [], rfl⟩
  | msg c m =>
    simp only [step] at h
    cases hr : s.recv c m with
    | none => simp [hr] at h
    | some p =>
      simp only [hr, Option.map, Option.some.injEq, Prod.mk.injEq] at h
      obtain ⟨hs, _⟩ := h
      rw [← hs]
      unfold recv at hr
      cases hg : s.sess.get? c with
      | none => simp [hg] at hr
      | some cs =>
        simp only [hg] at hr
        cases m with
        | multi => simp only [Option.some.injEq] at hr; rw [← hr]; exact ⟨[], [], rfl⟩
        | empty => simp only [Option.some.injEq] at hr; rw [← hr]; exact ⟨[], [], rfl⟩
        | params a b d =>
          simp only [Option.some.injEq] at hr; rw [← hr, finish_rib, doParams_rib]; exact ⟨[], [], rfl⟩
        | elec e =>
          simp only [Option.some.injEq] at hr; rw [← hr, finish_rib, doElec_rib]; exact ⟨[], [], rfl⟩
        | ops l =>
          simp only at hr
          cases hd : doOps s c cs l with
          | none => simp [hd] at hr
          | some q =>
            simp only [hd, Option.map, Option.some.injEq] at hr
            rw [← hr, finish_rib]
            unfold doOps at hd
            split at hd
            · split at hd
              · simp only [Option.some.injEq] at hd; rw [← hd]; exact ⟨[], [], rfl⟩
              · cases hd
            · cases hl : modifyLoop s.rib c cs.params.fibAck
                  { master := s.curMaster, cur := s.curElec, clientLatest := cs.lastElec } l with
              | none => simp [hl] at hd
              | some x =>
                obtain ⟨r2, o2⟩ := x
                simp only [hl, Option.some.injEq] at hd
                rw [← hd]
                exact modifyLoop_refines l hl

/-- **refinement, whole histories.** -/
theorem run_refines {s s' : Server} {evs : List Ev} {os : List EvOut} (h : run s evs = some (s', os)) :
    ∃ ins outs, Rib.run s.rib ins = some (s'.rib, outs) := by
  induction evs generalizing s os with
  | nil =>
    simp only [run, Option.some.injEq, Prod.mk.injEq] at h
    obtain ⟨rfl, _⟩ := h
    exact ⟨[], [], rfl⟩
  | cons ev rest ih =>
    simp only [run] at h
    cases hs : step s ev with
    | none => simp [hs] at h
    | some p =>
      obtain ⟨s1, o⟩ := p
      simp only [hs] at h
      cases hr : run s1 rest with
      | none => simp [hr] at h
      | some p2 =>
        obtain ⟨s2, os2⟩ := p2
        simp only [hr, Option.some.injEq, Prod.mk.injEq] at h
        obtain ⟨rfl, _⟩ := h
        obtain ⟨i1, o1, h1⟩ := step_refines hs
        obtain ⟨i2, o2, h2⟩ := ih hr
        exact ⟨i1 ++ i2, o1 ++ o2, rib_run_append h1 h2⟩

/-- the server's initial RIB is itself reached by a RIB run from the empty RIB -/
theorem new_refines (d : NI) (vrfs : List NI) (fwd hook : Bool) :
    ∃ ins outs, Rib.run (Rib.new d fwd) ins = some ((Server.new d vrfs fwd hook).rib, outs) := by
  have hfold : ∀ (l : List NI) (r : Rib), ∃ ins outs, Rib.run r ins = some (l.foldl (fun r n => (r.addNI n).1) r, outs) := by
    intro l
    induction l with
    | nil => intro r; exact ⟨[], [], rfl⟩
    | cons n rest ih =>
      intro r
      obtain ⟨i2, o2, h2⟩ := ih (r.addNI n).1
      exact ⟨[Rib.In.addNI n] ++ i2, [{}] ++ o2, rib_run_append (r1 := (r.addNI n).1) rfl h2⟩
  unfold Server.new
  simp only
  cases hook with
  | false => exact hfold vrfs _
  | true =>
    obtain ⟨i2, o2, h2⟩ := hfold vrfs (Rib.new d fwd).setHook
    exact ⟨[Rib.In.setHook] ++ i2, [{}] ++ o2, rib_run_append (r1 := (Rib.new d fwd).setHook) rfl h2⟩

/-- **C03 at the server.** In every state the server model can reach from a new server — any
number of sessions, any interleaving of their parameters, announcements, batches, protocol
violations, disconnects, Gets and Flushes — every reference counter of the RIB equals the number
of installed referrers. -/
theorem srv_refinv (d : NI) (vrfs : List NI) (fwd hook : Bool) {s' : Server} {evs : List Ev} {os : List EvOut}
    (h : run (Server.new d vrfs fwd hook) evs = some (s', os)) : Gribi.Rib.Inv s'.rib := by
  obtain ⟨i1, o1, h1⟩ := new_refines d vrfs fwd hook
  obtain ⟨i2, o2, h2⟩ := run_refines h
  exact C03.c03_refinv d fwd (rib_run_append h1 h2)

end Gribi.SrvRefine
