/-
C06 — every operation is answered exactly once, to its sender only, RIB before FIB.

RIB level (`Rib.add`, `Rib.del`, the cascade): which ids an output answers, that an answered
operation is no longer held, that nothing is answered twice — within a step and over a whole
history of operations with fresh ids. Server level (`resultsOf`, `modifyOne`, `modifyLoop`): one
response per operation of a batch, the FIB acknowledgement right after the RIB acknowledgement
of the same id and only when negotiated, and the ids a response may carry: the operation's own
or those of operations that were held — which is exactly where the known finding D5 lives (held
operations have no owner, so the response of the session whose operation resolves them carries
their ids).
-/
import Gribi.Model.Server
import Gribi.Lemmas.RibBasic
import Gribi.Props.C03
namespace Gribi.C06
open Gribi Rib

/-- held operations are filed under their own id -/
def PendKeyed (s : Rib) : Prop := ∀ id op, s.pend.get? id = some op → op.id = id

/-- the ids an output gives a terminal verdict for -/
def answered (o : Out) : List Nat := o.oks.map (·.id) ++ o.fails

theorem answered_append (a b : Out) : answered (a.append b) = a.oks.map (·.id) ++ b.oks.map (·.id) ++ (a.fails ++ b.fails) := by
  simp [answered, Out.append]

theorem mem_answered_append (a b : Out) (id : Nat) : id ∈ answered (a.append b) ↔ id ∈ answered a ∨ id ∈ answered b := by
  simp only [answered, Out.append, List.map_append, List.mem_append, List.mem_map]
  constructor
  · rintro ((h | h) | (h | h))
    · exact Or.inl (Or.inl h)
    · exact Or.inr (Or.inl h)
    · exact Or.inl (Or.inr h)
    · exact Or.inr (Or.inr h)
  · rintro ((h | h) | (h | h))
    · exact Or.inl (Or.inl h)
    · exact Or.inr (Or.inl h)
    · exact Or.inl (Or.inr h)
    · exact Or.inr (Or.inr h)

/-- what one cascade event does to the held set and which single id it answers -/
theorem fire_answered {s s' : Rib} {ev : CEv} {o : Out} (h : fire s ev = some (s', o)) (hk : PendKeyed s) :
    (∃ id, answered o = [id] ∧ s.pend.has id = true ∧ s'.pend = s.pend.erase id) ∧ PendKeyed s' := by
  unfold fire at h
  cases ev with
  | ok id =>
    simp only at h
    cases hg : s.pend.get? id with
    | none => simp [hg] at h
    | some op =>
      simp only [hg] at h
      split at h
      · simp only [Option.some.injEq, Prod.mk.injEq] at h
        obtain ⟨hs, ho⟩ := h
        have hid : op.id = id := hk id op hg
        refine ⟨⟨id, ?_, by simp [Map.has, hg], ?_⟩, ?_⟩
        · rw [← ho]; simp [answered, hid]
        · rw [← hs]; simp
        · intro i x hx
          rw [← hs] at hx
          simp only [install_pend, Map.get?_erase] at hx
          split at hx
          · cases hx
          · exact hk i x hx
      · cases h
  | fail id =>
    simp only at h
    cases hg : s.pend.get? id with
    | none => simp [hg] at h
    | some op =>
      simp only [hg] at h
      split at h
      · simp only [Option.some.injEq, Prod.mk.injEq] at h
        obtain ⟨hs, ho⟩ := h
        refine ⟨⟨id, ?_, by simp [Map.has, hg], ?_⟩, ?_⟩
        · rw [← ho]; simp [answered]
        · rw [← hs]
        · intro i x hx
          rw [← hs] at hx
          simp only [Map.get?_erase] at hx
          split at hx
          · cases hx
          · exact hk i x hx
      · cases h

/-- the facts about a state change that the accounting needs -/
structure Acct (s s' : Rib) (o : Out) (own : Option Nat) : Prop where
  /-- nothing is answered twice -/
  nodup : (answered o).Nodup
  /-- only the operation itself and operations that were held are answered -/
  src : ∀ id ∈ answered o, some id = own ∨ s.pend.has id = true
  /-- an answered operation is not held afterwards -/
  gone : ∀ id ∈ answered o, s'.pend.get? id = none
  /-- nothing but the operation itself becomes held -/
  held : ∀ id, s'.pend.has id = true → some id = own ∨ s.pend.has id = true
  keyed : PendKeyed s'

theorem has_erase_of {m : Map Nat Op} {k id : Nat} (h : (m.erase k).has id = true) : m.has id = true ∧ id ≠ k := by
  simp only [Map.has, Map.get?_erase] at h ⊢
  split at h
  · simp at h
  · rename_i hne; exact ⟨h, fun e => hne e.symm⟩

theorem runCascade_acct {s s' : Rib} {script : List CEv} {o : Out}
    (h : runCascade s script = some (s', o)) (hk : PendKeyed s) : Acct s s' o none := by
  induction script generalizing s o with
  | nil =>
    simp only [runCascade, Option.some.injEq, Prod.mk.injEq] at h
    obtain ⟨rfl, rfl⟩ := h
    exact ⟨by simp [answered], by simp [answered], by simp [answered], fun id hid => Or.inr hid, hk⟩
  | cons ev rest ih =>
    simp only [runCascade] at h
    cases hf : fire s ev with
    | none => simp [hf] at h
    | some r1 =>
      obtain ⟨s1, o1⟩ := r1
      simp only [hf] at h
      cases hr : runCascade s1 rest with
      | none => simp [hr] at h
      | some r2 =>
        obtain ⟨s2, o2⟩ := r2
        simp only [hr, Option.some.injEq, Prod.mk.injEq] at h
        obtain ⟨rfl, rfl⟩ := h
        obtain ⟨⟨id1, ha1, hin1, hp1⟩, hk1⟩ := fire_answered hf hk
        have a2 := ih hr hk1
        have hsub : ∀ id, s1.pend.has id = true → s.pend.has id = true ∧ id ≠ id1 := by
          intro id hid; rw [hp1] at hid; exact has_erase_of hid
        refine ⟨?_, ?_, ?_, ?_, a2.keyed⟩
        · -- nodup: the first id is not among the later ones (it is no longer held)
          have hperm : ∀ id, id ∈ answered (o1.append o2) ↔ id ∈ answered o1 ∨ id ∈ answered o2 := mem_answered_append o1 o2
          have hnot : id1 ∉ answered o2 := by
            intro hm
            rcases a2.src id1 hm with h | h
            · cases h
            · exact (hsub id1 h).2 rfl
          -- answered (o1.append o2) is a rearrangement of answered o1 ++ answered o2; prove nodup directly
          have hd2 := a2.nodup
          simp only [answered, Out.append, List.map_append] at hd2 ⊢
          simp only [answered] at ha1 hnot
          -- o1 answers exactly [id1]: either oks = [op] with fails = [] or the other way round
          have hcases : (o1.oks.map (·.id) = [id1] ∧ o1.fails = []) ∨ (o1.oks.map (·.id) = [] ∧ o1.fails = [id1]) := by
            cases hx : o1.oks.map (·.id) with
            | nil => rw [hx] at ha1; simp at ha1; exact Or.inr ⟨rfl, ha1⟩
            | cons a t =>
              rw [hx] at ha1
              simp only [List.cons_append, List.cons.injEq] at ha1
              obtain ⟨rfl, ht⟩ := ha1
              have : t = [] ∧ o1.fails = [] := by
                cases t with
                | nil => exact ⟨rfl, by simpa using ht⟩
                | cons b t' => simp at ht
              exact Or.inl ⟨by rw [this.1], this.2⟩
          simp only [List.mem_append, not_or] at hnot
          rcases hcases with ⟨h1, h2⟩ | ⟨h1, h2⟩
          · rw [h1, h2]
            simp only [List.cons_append, List.nil_append, List.nodup_cons, List.mem_append, not_or]
            exact ⟨⟨hnot.1, hnot.2⟩, hd2⟩
          · rw [h1, h2]
            simp only [List.nil_append, List.cons_append]
            rw [List.nodup_append] at hd2 ⊢
            refine ⟨hd2.1, ?_, ?_⟩
            · simp only [List.nodup_cons]; exact ⟨hnot.2, hd2.2.1⟩
            · intro a ha b hb
              simp only [List.mem_cons] at hb
              rcases hb with rfl | hb
              · intro e; subst e; exact hnot.1 ha
              · exact hd2.2.2 a ha b hb
        · intro id hid
          rcases (mem_answered_append o1 o2 id).mp hid with h | h
          · rw [ha1] at h; simp only [List.mem_singleton] at h; subst h; exact Or.inr hin1
          · rcases a2.src id h with h' | h'
            · cases h'
            · exact Or.inr (hsub id h').1
        · intro id hid
          rcases (mem_answered_append o1 o2 id).mp hid with h | h
          · rw [ha1] at h; simp only [List.mem_singleton] at h; subst h
            -- id1 was erased by the first event and nothing re-adds it
            cases hg : s2.pend.get? id with
            | none => rfl
            | some x =>
              have : s2.pend.has id = true := by simp [Map.has, hg]
              rcases a2.held id this with h' | h'
              · cases h'
              · exact absurd rfl (hsub id h').2
          · exact a2.gone id h
        · intro id hid
          rcases a2.held id hid with h' | h'
          · cases h'
          · exact Or.inr (hsub id h').1

/-- **C06 (one ADD/REPLACE).** For an operation whose id is not currently held: nothing is
answered twice; only the operation itself and held operations are answered; whatever is answered
is no longer held; only the operation itself can become held. -/
theorem add_acct {s s' : Rib} {op : Op} {script : List CEv} {o : Out}
    (h : Rib.add s op script = some (s', o)) (hk : PendKeyed s) (hfresh : s.pend.get? op.id = none) :
    Acct s s' o (some op.id) := by
  unfold Rib.add at h
  split at h
  · split at h
    · simp only [Option.some.injEq, Prod.mk.injEq] at h
      obtain ⟨rfl, rfl⟩ := h
      exact ⟨by simp [answered], by simp [answered], by simp [answered], fun id hid => Or.inr hid, hk⟩
    · cases h
  · split at h
    · -- err
      split at h
      · simp only [Option.some.injEq, Prod.mk.injEq] at h
        obtain ⟨rfl, rfl⟩ := h
        refine ⟨by simp [answered], by simp [answered], ?_, ?_, ?_⟩
        · intro id hid; simp only [answered, List.map_nil, List.nil_append, List.mem_singleton] at hid
          subst hid; simp
        · intro id hid; exact Or.inr (has_erase_of hid).1
        · intro i x hx
          simp only [Map.get?_erase] at hx
          split at hx
          · cases hx
          · exact hk i x hx
      · cases h
    · -- hold
      split at h
      · cases h
      · split at h
        · simp only [Option.some.injEq, Prod.mk.injEq] at h
          obtain ⟨rfl, rfl⟩ := h
          refine ⟨by simp [answered], by simp [answered], by simp [answered], ?_, ?_⟩
          · intro id hid
            simp only [Map.has, Map.get?_insert] at hid
            split at hid
            · rename_i he; exact Or.inl (by rw [he])
            · exact Or.inr hid
          · intro i x hx
            simp only [Map.get?_insert] at hx
            split at hx
            · rename_i he; cases hx; exact he
            · exact hk i x hx
        · simp only [Option.some.injEq, Prod.mk.injEq] at h
          obtain ⟨rfl, rfl⟩ := h
          refine ⟨by simp [answered], by simp [answered], ?_, fun id hid => Or.inr hid, hk⟩
          intro id hid
          simp only [answered, List.map_nil, List.nil_append, List.mem_singleton] at hid
          subst hid; exact hfresh
    · -- ok
      simp only at h
      split at h
      · cases h
      · rename_i s2 o2 hc
        split at h
        · simp only [Option.some.injEq, Prod.mk.injEq] at h
          obtain ⟨rfl, rfl⟩ := h
          have hk1 : PendKeyed { (install s op).1 with pend := (install s op).1.pend.erase op.id } := by
            intro i x hx
            simp only [install_pend, Map.get?_erase] at hx
            split at hx
            · cases hx
            · exact hk i x hx
          have a2 := runCascade_acct hc hk1
          have hsub : ∀ id, ({ (install s op).1 with pend := (install s op).1.pend.erase op.id } : Rib).pend.has id = true →
              s.pend.has id = true ∧ id ≠ op.id := by
            intro id hid
            simp only [install_pend] at hid
            exact has_erase_of hid
          have hnot : op.id ∉ answered o2 := by
            intro hm
            rcases a2.src op.id hm with h | h
            · cases h
            · exact (hsub op.id h).2 rfl
          refine ⟨?_, ?_, ?_, ?_, a2.keyed⟩
          · have hd2 := a2.nodup
            simp only [answered, Out.append, List.map_cons, List.map_nil, List.cons_append, List.nil_append,
              List.nodup_cons] at hd2 ⊢
            simp only [answered] at hnot
            exact ⟨hnot, hd2⟩
          · intro id hid
            simp only [answered, Out.append, List.map_cons, List.map_nil, List.cons_append, List.nil_append,
              List.mem_cons] at hid
            rcases hid with rfl | hid
            · exact Or.inl rfl
            · rcases a2.src id (by simpa [answered] using hid) with h' | h'
              · cases h'
              · exact Or.inr (hsub id h').1
          · intro id hid
            simp only [answered, Out.append, List.map_cons, List.map_nil, List.cons_append, List.nil_append,
              List.mem_cons] at hid
            rcases hid with rfl | hid
            · cases hg : s2.pend.get? op.id with
              | none => rfl
              | some x =>
                have : s2.pend.has op.id = true := by simp [Map.has, hg]
                rcases a2.held op.id this with h' | h'
                · cases h'
                · exact absurd rfl (hsub op.id h').2
            · exact a2.gone id (by simpa [answered] using hid)
          · intro id hid
            rcases a2.held id hid with h' | h'
            · cases h'
            · exact Or.inr (hsub id h').1
        · cases h

/-- **C06 (one DELETE).** -/
theorem del_acct (s : Rib) (op : Op) (hk : PendKeyed s) (hfresh : s.pend.get? op.id = none) :
    Acct s (Rib.del s op).1 (Rib.del s op).2 (some op.id) := by
  have hp : (Rib.del s op).1.pend = s.pend := (C03.del_pend s op).1
  have hans : answered (Rib.del s op).2 = [] ∨ answered (Rib.del s op).2 = [op.id] := by
    unfold Rib.del
    split
    · left; simp [answered]
    · split
      · right; simp [answered]
      · right; simp [answered]
      · right; simp [answered]
      · split <;> (right; simp [answered])
  refine ⟨?_, ?_, ?_, ?_, ?_⟩
  · rcases hans with h | h <;> rw [h] <;> simp
  · intro id hid
    rcases hans with h | h
    · rw [h] at hid; cases hid
    · rw [h] at hid; simp only [List.mem_singleton] at hid; subst hid; exact Or.inl rfl
  · intro id hid
    rw [hp]
    rcases hans with h | h
    · rw [h] at hid; cases hid
    · rw [h] at hid; simp only [List.mem_singleton] at hid; subst hid; exact hfresh
  · intro id hid; rw [hp] at hid; exact Or.inr hid
  · intro i x hx; rw [hp] at hx; exact hk i x hx

/-! ### histories -/

/-- the id an input submits, if any -/
def submits : Rib.In → Option Nat
  | .add op _ => some op.id
  | .del op => some op.id
  | _ => none

theorem step_acct {s s' : Rib} {i : Rib.In} {o : Out} (h : Rib.step s i = some (s', o)) (hk : PendKeyed s)
    (hfresh : ∀ id, submits i = some id → s.pend.get? id = none) : Acct s s' o (submits i) := by
  cases i with
  | add op script => exact add_acct h hk (hfresh op.id rfl)
  | del op =>
    simp only [Rib.step, Option.some.injEq] at h
    have h1 : (Rib.del s op).1 = s' := by rw [h]
    have h2 : (Rib.del s op).2 = o := by rw [h]
    rw [← h1, ← h2]
    exact del_acct s op hk (hfresh op.id rfl)
  | flush nis =>
    simp only [Rib.step, Option.some.injEq, Prod.mk.injEq] at h
    obtain ⟨rfl, rfl⟩ := h
    have hp : (flush s nis).1.pend = s.pend := (C03.flush_pend s nis).1
    exact ⟨by simp [answered], by simp [answered], by simp [answered],
      fun id hid => Or.inr (by rw [hp] at hid; exact hid), fun i x hx => hk i x (by rw [hp] at hx; exact hx)⟩
  | addNI ni =>
    simp only [Rib.step, Option.some.injEq, Prod.mk.injEq] at h
    obtain ⟨rfl, rfl⟩ := h
    have hp : (addNI s ni).1.pend = s.pend := by unfold addNI; split <;> rfl
    exact ⟨by simp [answered], by simp [answered], by simp [answered],
      fun id hid => Or.inr (by rw [hp] at hid; exact hid), fun i x hx => hk i x (by rw [hp] at hx; exact hx)⟩
  | setHook =>
    simp only [Rib.step, Option.some.injEq, Prod.mk.injEq] at h
    obtain ⟨rfl, rfl⟩ := h
    exact ⟨by simp [answered], by simp [answered], by simp [answered],
      fun id hid => Or.inr hid, fun i x hx => hk i x hx⟩

/-- the ids submitted by a list of inputs, in order -/
def submitted (ins : List Rib.In) : List Nat := ins.filterMap submits

/-- accounting invariant of a history: what has been answered so far is duplicate-free, was
submitted, and is not held; what is held was submitted -/
structure Hist (sub ans : List Nat) (s : Rib) : Prop where
  nodup : ans.Nodup
  ansSub : ∀ id ∈ ans, id ∈ sub
  heldSub : ∀ id, s.pend.has id = true → id ∈ sub
  disjoint : ∀ id ∈ ans, s.pend.get? id = none
  keyed : PendKeyed s

theorem hist_step {sub ans : List Nat} {s s' : Rib} {i : Rib.In} {o : Out}
    (hh : Hist sub ans s) (h : Rib.step s i = some (s', o))
    (hnew : ∀ id, submits i = some id → id ∉ sub) :
    Hist (sub ++ (submits i).toList) (ans ++ answered o) s' := by
  have hfresh : ∀ id, submits i = some id → s.pend.get? id = none := by
    intro id hid
    cases hg : s.pend.get? id with
    | none => rfl
    | some x => exact absurd (hh.heldSub id (by simp [Map.has, hg])) (hnew id hid)
  have a := step_acct h hh.keyed hfresh
  refine ⟨?_, ?_, ?_, ?_, a.keyed⟩
  · rw [List.nodup_append]
    refine ⟨hh.nodup, a.nodup, ?_⟩
    intro x hx y hy hxy
    subst hxy
    rcases a.src x hy with h' | h'
    · exact hnew x h'.symm (hh.ansSub x hx)
    · have := hh.disjoint x hx
      simp [Map.has, this] at h'
  · intro id hid
    simp only [List.mem_append] at hid ⊢
    rcases hid with h' | h'
    · exact Or.inl (hh.ansSub id h')
    · rcases a.src id h' with h'' | h''
      · right; rw [← h'']; simp
      · exact Or.inl (hh.heldSub id h'')
  · intro id hid
    simp only [List.mem_append]
    rcases a.held id hid with h' | h'
    · right; rw [← h']; simp
    · exact Or.inl (hh.heldSub id h')
  · intro id hid
    simp only [List.mem_append] at hid
    rcases hid with h' | h'
    · -- answered earlier: not held before; it can only be held now if it is the new id, which is fresh
      cases hg : s'.pend.get? id with
      | none => rfl
      | some x =>
        have : s'.pend.has id = true := by simp [Map.has, hg]
        rcases a.held id this with h'' | h''
        · exact absurd (hh.ansSub id h') (hnew id h''.symm)
        · have := hh.disjoint id h'
          simp [Map.has, this] at h''
    · exact a.gone id h'

/-- all ids answered by a list of outputs -/
def answeredAll (outs : List Out) : List Nat := outs.flatMap answered

/-- the submitted ids are pairwise distinct -/
def FreshIds (ins : List Rib.In) : Prop := (submitted ins).Nodup

theorem hist_run {sub ans : List Nat} {s s' : Rib} {ins : List Rib.In} {outs : List Out}
    (hh : Hist sub ans s) (h : Rib.run s ins = some (s', outs))
    (hfresh : (sub ++ submitted ins).Nodup) :
    Hist (sub ++ submitted ins) (ans ++ answeredAll outs) s' := by
  induction ins generalizing sub ans s outs with
  | nil =>
    simp only [Rib.run, Option.some.injEq, Prod.mk.injEq] at h
    obtain ⟨rfl, rfl⟩ := h
    simpa [submitted, answeredAll] using hh
  | cons i rest ih =>
    simp only [Rib.run] at h
    cases hs : Rib.step s i with
    | none => simp [hs] at h
    | some r1 =>
      obtain ⟨s1, o⟩ := r1
      simp only [hs] at h
      cases hr : Rib.run s1 rest with
      | none => simp [hr] at h
      | some r2 =>
        obtain ⟨s2, os⟩ := r2
        simp only [hr, Option.some.injEq, Prod.mk.injEq] at h
        obtain ⟨rfl, rfl⟩ := h
        have hsplit : submitted (i :: rest) = (submits i).toList ++ submitted rest := by
          simp only [submitted, List.filterMap_cons]
          cases submits i <;> simp
        have hnew : ∀ id, submits i = some id → id ∉ sub := by
          intro id hid hin
          rw [hsplit, hid] at hfresh
          simp only [Option.toList_some, List.singleton_append] at hfresh
          rw [List.nodup_append] at hfresh
          exact hfresh.2.2 id hin id (List.mem_cons_self) rfl
        have h1 := hist_step hh hs hnew
        have hfresh' : ((sub ++ (submits i).toList) ++ submitted rest).Nodup := by
          rw [List.append_assoc, ← hsplit]; exact hfresh
        have h2 := ih h1 hr hfresh'
        rw [hsplit, ← List.append_assoc]
        simpa [answeredAll, List.append_assoc] using h2

/-- **C06 (at most once, all histories).** Starting from an empty RIB, for every history whose
operations carry pairwise distinct ids (and every cascade order the implementation may choose):
no id ever receives two verdicts — neither the same verdict twice nor a failure and a success —
every id that receives a verdict was submitted, and an operation that received its verdict is
not held any more. -/
theorem c06_at_most_once (d : NI) (f : Bool) {s' : Rib} {ins : List Rib.In} {outs : List Out}
    (h : Rib.run (Rib.new d f) ins = some (s', outs)) (hfresh : FreshIds ins) :
    (answeredAll outs).Nodup ∧ (∀ id ∈ answeredAll outs, id ∈ submitted ins) ∧
    (∀ id ∈ answeredAll outs, s'.pend.get? id = none) ∧ (∀ id, s'.pend.has id = true → id ∈ submitted ins) := by
  have h0 : Hist [] [] (Rib.new d f) :=
    ⟨List.nodup_nil, by simp, by simp [Rib.new, Map.has], by simp, by intro i x hx; simp [Rib.new] at hx⟩
  have := hist_run h0 h (by simpa [FreshIds] using hfresh)
  simp only [List.nil_append] at this
  exact ⟨this.nodup, this.ansSub, this.disjoint, this.heldSub⟩

/-! ### server level: the shape of responses -/

open Server in
/-- **C06 (RIB before FIB).** In the results built for one operation's outcome, a FIB
acknowledgement appears only when FIB acknowledgement was negotiated, and then immediately after
the RIB acknowledgement of the same id. -/
theorem c06_rib_then_fib (fib : Bool) (o : Out) :
    (fib = false → ∀ x ∈ resultsOf fib o, x.2 ≠ AftStatus.fib) ∧
    (∀ (pre suf : List (Nat × AftStatus)) (id : Nat), resultsOf fib o = pre ++ (id, AftStatus.fib) :: suf →
      ∃ pre', pre = pre' ++ [(id, AftStatus.rib)]) := by
  constructor
  · intro hf x hx
    subst hf
    simp only [resultsOf, List.mem_append, List.mem_flatMap, List.mem_map] at hx
    rcases hx with ⟨op, _, h⟩ | ⟨id, _, h⟩
    · simp at h; rw [h]; simp
    · rw [← h]; simp
  · -- by induction over the acknowledged operations
    intro pre suf id h
    unfold resultsOf at h
    generalize o.oks = oks at h
    induction oks generalizing pre with
    | nil =>
      simp only [List.flatMap_nil, List.nil_append] at h
      have : (id, AftStatus.fib) ∈ o.fails.map (fun id => (id, AftStatus.failed)) := by
        rw [h]; simp
      simp at this
    | cons op rest ih =>
      simp only [List.flatMap_cons] at h
      cases fib with
      | false =>
        simp only [Bool.false_eq_true, if_false, List.cons_append, List.nil_append] at h
        cases pre with
        | nil => simp at h
        | cons p pre' =>
          simp only [List.cons_append, List.cons.injEq] at h
          obtain ⟨_, h⟩ := h
          obtain ⟨q, hq⟩ := ih pre' h
          exact ⟨p :: q, by rw [hq]; rfl⟩
      | true =>
        simp only [if_true, List.cons_append, List.nil_append] at h
        cases pre with
        | nil => simp at h
        | cons p pre' =>
          simp only [List.cons_append, List.cons.injEq] at h
          obtain ⟨hp, h⟩ := h
          cases pre' with
          | nil =>
            simp only [List.nil_append, List.cons.injEq, Prod.mk.injEq] at h
            exact ⟨[], by rw [← hp, h.1.1]; rfl⟩
          | cons p2 pre'' =>
            simp only [List.cons_append, List.cons.injEq] at h
            obtain ⟨_, h⟩ := h
            obtain ⟨q, hq⟩ := ih pre'' h
            exact ⟨p :: p2 :: q, by rw [hq]; rfl⟩

open Server in
/-- **C06 (one response per operation).** A batch that does not end the RPC is answered with
exactly one response per operation, in order. -/
theorem c06_one_response_per_op (c : Nat) (fib : Bool) (snap : ElecSnap)
    (l : List (Op × List Rib.CEv)) (r : Rib) {r' : Rib} {o : MsgOut}
    (h : modifyLoop r c fib snap l = some (r', o)) (hopen : o.term = none) : o.resps.length = l.length := by
  induction l generalizing r r' o with
  | nil =>
    simp only [modifyLoop, Option.some.injEq, Prod.mk.injEq] at h
    obtain ⟨_, rfl⟩ := h; rfl
  | cons x rest ih =>
    obtain ⟨op, script⟩ := x
    simp only [modifyLoop] at h
    split at h
    · split at h
      · cases h
      · cases hr : modifyLoop r c fib snap rest with
        | none => simp [hr] at h
        | some r2 =>
          obtain ⟨r2, o2⟩ := r2
          simp only [hr, Option.some.injEq, Prod.mk.injEq] at h
          obtain ⟨rfl, rfl⟩ := h
          have hopen2 : o2.term = none := hopen
          simp only [List.length_cons]
          rw [ih r hr hopen2]
    · cases hm : modifyOne r c fib snap op script with
      | none => simp [hm] at h
      | some m =>
        obtain ⟨r1, ro, res⟩ := m
        cases res with
        | inr t =>
          simp only [hm, Option.some.injEq, Prod.mk.injEq] at h
          obtain ⟨_, rfl⟩ := h
          simp at hopen
        | inl resp =>
          simp only [hm] at h
          cases hr : modifyLoop r1 c fib snap rest with
          | none => simp [hr] at h
          | some r2 =>
            obtain ⟨r2, o2⟩ := r2
            simp only [hr, Option.some.injEq, Prod.mk.injEq] at h
            obtain ⟨rfl, rfl⟩ := h
            have hopen2 : o2.term = none := hopen
            simp only [List.length_cons]
            rw [ih r1 hr hopen2]

open Server in
theorem mem_resultsOf {fib : Bool} {o : Out} {x : Nat × AftStatus} (h : x ∈ resultsOf fib o) : x.1 ∈ answered o := by
  simp only [resultsOf, List.mem_append, List.mem_flatMap, List.mem_map] at h
  simp only [answered, List.mem_append, List.mem_map]
  rcases h with ⟨op, hop, hx⟩ | ⟨id, hid, hx⟩
  · left
    refine ⟨op, hop, ?_⟩
    split at hx
    · simp only [List.mem_cons, List.not_mem_nil, or_false] at hx
      rcases hx with rfl | rfl <;> rfl
    · simp only [List.mem_singleton] at hx; rw [hx]
  · right; rw [← hx]; exact hid

open Server in
/-- **C06 (whose results a response carries).** The response to one operation carries results
only for that operation's own id and for ids of operations that were held when it arrived. With
held operations keyed by id and no owner, the second kind may have been sent by another session:
that is the known finding D5, and the only way a foreign id can appear. -/
theorem c06_results_src (r : Rib) (c : Nat) (fib : Bool) (snap : ElecSnap) (op : Op) (script : List Rib.CEv)
    {r' : Rib} {ro : Out} {rs : List (Nat × AftStatus)}
    (h : modifyOne r c fib snap op script = some (r', ro, .inl (.results rs)))
    (hk : PendKeyed r) (hfresh : r.pend.get? op.id = none) :
    ∀ x ∈ rs, x.1 = op.id ∨ r.pend.has x.1 = true := by
  unfold modifyOne at h
  split at h
  · split at h <;> simp at h
  · split at h
    · simp only [Option.some.injEq, Prod.mk.injEq, Sum.inl.injEq, Resp.results.injEq] at h
      obtain ⟨_, _, rfl⟩ := h
      intro x hx; simp only [List.mem_singleton] at hx; left; rw [hx]
    · simp at h
  · split at h
    · split at h
      · simp only [Option.some.injEq, Prod.mk.injEq, Sum.inl.injEq, Resp.results.injEq] at h
        obtain ⟨_, _, rfl⟩ := h
        intro x hx; simp only [List.mem_singleton] at hx; left; rw [hx]
      · simp at h
    · split at h
      · simp only at h
        split at h
        · simp at h
        · simp only [Option.some.injEq, Prod.mk.injEq, Sum.inl.injEq, Resp.results.injEq] at h
          obtain ⟨_, hro, rfl⟩ := h
          intro x hx
          have a := del_acct r op hk hfresh
          rcases a.src x.1 (mem_resultsOf hx) with h' | h'
          · left; exact (Option.some.inj h')
          · exact Or.inr h'
      · simp at h
    · cases ha : r.add op script with
      | none => simp [ha] at h
      | some p =>
        obtain ⟨r1, o1⟩ := p
        simp only [ha] at h
        split at h
        · simp at h
        · simp only [Option.some.injEq, Prod.mk.injEq, Sum.inl.injEq, Resp.results.injEq] at h
          obtain ⟨_, _, rfl⟩ := h
          intro x hx
          have a := add_acct ha hk hfresh
          rcases a.src x.1 (mem_resultsOf hx) with h' | h'
          · left; exact (Option.some.inj h')
          · exact Or.inr h'

end Gribi.C06
