/-
C15 — convergence: sending `Recon.ops I T base` in order to a RIB whose contents are `T`
programs every operation and leaves the contents equal to `I`.
-/
import Gribi.Props.C15
import Gribi.Props.C01
import Gribi.Props.C02
import Gribi.Props.C03
namespace Gribi.C15
open Gribi Rib Spec Recon

/-- the static conditions every installed entry satisfies (what `classify` / `classifyDel` test
besides references) -/
def StaticOk (s : Rib) (k : EKey) (p : Payload) : Prop :=
  s.hasNI k.1 = true ∧
  match k.2 with
  | .nh i => i ≠ 0
  | .nhg g => g ≠ 0 ∧ p.nhs ≠ [] ∧ p.nhs.contains 0 = false
  | .mpls l => p.grp ≠ 0 ∧ (p.grpNI = "" ∨ s.hasNI p.grpNI = true) ∧ l ≤ maxLabel
  | _ => p.grp ≠ 0 ∧ (p.grpNI = "" ∨ s.hasNI p.grpNI = true)

/-- a quiet, consistent RIB: counters = referrers, nothing dangles, nothing held -/
structure G (s : Rib) : Prop where
  inv : Inv s
  closed : C02.Closed s
  pend : s.pend = []

theorem staticOk_congr {s s' : Rib} (hn : s'.nis = s.nis) {k : EKey} {p : Payload} (h : StaticOk s k p) :
    StaticOk s' k p := by
  unfold StaticOk hasNI at *
  rw [hn]
  exact h

theorem classify_ok_op {s : Rib} (op : Op) (hcls : op.cls = .wf) (hty : op.ty = .add)
    (hs : StaticOk s (op.ni, op.key) op.pl)
    (hr : entryResolved s.ents (op.ni, op.key) op.pl = true) : classify s op = .ok := by
  unfold classify
  have h0 : ¬ (op.cls ≠ Cls.wf) := by simp [hcls]
  have h1 : ¬ (op.ty = OpType.replace ∧ ¬ s.has (op.ni, op.key) = true) := by
    rw [hty]; intro h; cases h.1
  rw [if_neg h0, if_neg h1]
  unfold StaticOk at hs
  unfold entryResolved at hr
  obtain ⟨_, hs⟩ := hs
  split
  · rename_i i hk
    simp only [hk] at hs
    simp [hs]
  · rename_i g hk
    simp only [hk] at hs hr
    obtain ⟨hg, hne, h0⟩ := hs
    have : ¬ (g = 0 ∨ op.pl.nhs = [] ∨ op.pl.nhs.contains 0 = true) := by
      rintro (h | h | h)
      · exact hg h
      · exact hne h
      · rw [h0] at h; cases h
    rw [if_neg this]
    have hr' : (op.pl.nhs.all fun n => s.has (op.ni, Key.nh n)) = true := hr
    rw [if_pos hr']
  · rename_i k hnh hnhg
    have hgrp : op.pl.grp ≠ 0 ∧ (op.pl.grpNI = "" ∨ s.hasNI op.pl.grpNI = true) := by
      cases hk : op.key with
      | nh i => exact absurd hk (hnh i)
      | nhg g => exact absurd hk (hnhg g)
      | v4 x => simp only [hk] at hs; exact hs
      | v6 x => simp only [hk] at hs; exact hs
      | mpls l => simp only [hk] at hs; exact ⟨hs.1, hs.2.1⟩
    have hres : s.ents.has (tgtNI op.ni op.pl, Key.nhg op.pl.grp) = true := by
      cases hk : op.key with
      | nh i => exact absurd hk (hnh i)
      | nhg g => exact absurd hk (hnhg g)
      | v4 x => simp only [hk] at hr; exact hr
      | v6 x => simp only [hk] at hr; exact hr
      | mpls l => simp only [hk] at hr; exact hr
    rw [if_neg hgrp.1]
    have : ¬ (op.pl.grpNI ≠ "" ∧ ¬ s.hasNI op.pl.grpNI = true) := by
      rintro ⟨a, b⟩; rcases hgrp.2 with h | h
      · exact a h
      · exact b h
    rw [if_neg this]
    have hres' : s.has (tgtNI op.ni op.pl, Key.nhg op.pl.grp) = true := hres
    rw [if_pos hres']

theorem classify_ok_of {s : Rib} (id : Nat) (e : EKey × Payload) (hs : StaticOk s e.1 e.2)
    (hr : entryResolved s.ents e.1 e.2 = true) : classify s (mkOp id .add e) = .ok :=
  classify_ok_op (mkOp id .add e) rfl rfl hs hr

/-- one ADD of a statically valid, resolvable entry on a quiet RIB: programmed, contents
updated, RIB still quiet and consistent -/
theorem add_step_op {s : Rib} (hg : G s) (op : Op) (hcls : op.cls = .wf) (hty : op.ty = .add)
    (hs : StaticOk s (op.ni, op.key) op.pl)
    (hr : entryResolved s.ents (op.ni, op.key) op.pl = true) :
    ∃ s' o, Rib.add s op [] = some (s', o) ∧ o.oks = [op] ∧ o.fails = [] ∧
      o.fatal = false ∧ s'.ents = s.ents.insert (op.ni, op.key) op.pl ∧ G s' ∧ s'.nis = s.nis := by
  have hc := classify_ok_op op hcls hty hs hr
  have hni : s.hasNI op.ni = true := hs.1
  have h0 : ¬ (op.cls = Cls.noEntry ∨ ¬ s.hasNI op.ni = true) := by
    rintro (h | h)
    · rw [hcls] at h; cases h
    · exact h hni
  have hq : quiescent { (install s op).1 with pend := (install s op).1.pend.erase op.id } = true := by
    simp [quiescent, hg.pend, Map.erase]
  have h : Rib.add s op [] = some ({ (install s op).1 with pend := (install s op).1.pend.erase op.id },
      ({ oks := [op], hooks := (install s op).2,
         resolved := if op.key.isTop then [(true, op.ni, op.key)] else [] } : Out).append {}) := by
    unfold Rib.add
    rw [if_neg h0, hc]
    simp only [runCascade]
    rw [if_pos hq]
  have hpendni : C03.PendNI s := by intro i op' hh; rw [hg.pend] at hh; simp at hh
  refine ⟨_, _, h, ?_, ?_, ?_, ?_, ?_, ?_⟩
  · simp [Out.append]
  · simp [Out.append]
  · simp [Out.append]
  · simp
  · refine ⟨(C03.inv_add h hg.inv hpendni).1, C02.closed_add h hg.closed, ?_⟩
    simp [hg.pend, Map.erase]
  · simp

theorem add_step {s : Rib} (hg : G s) (id : Nat) (e : EKey × Payload) (hs : StaticOk s e.1 e.2)
    (hr : entryResolved s.ents e.1 e.2 = true) :
    ∃ s' o, Rib.add s (mkOp id .add e) [] = some (s', o) ∧ o.oks = [mkOp id .add e] ∧ o.fails = [] ∧
      o.fatal = false ∧ s'.ents = s.ents.insert e.1 e.2 ∧ G s' ∧ s'.nis = s.nis :=
  add_step_op hg (mkOp id .add e) rfl rfl hs hr

/-- entry `(k, q)` refers to the group / next-hop `tgt` -/
def Refs (k : EKey) (q : Payload) (tgt : EKey) : Prop :=
  match tgt.2 with
  | .nhg g => qNhg tgt.1 g (k, q) = true
  | .nh i => qNh tgt.1 i (k, q) = true
  | _ => False

theorem classifyDel_ok {s : Rib} (hi : Inv s) (op : Op) (hcls : op.cls = .wf) (p : Payload)
    (hget : s.ents.get? (op.ni, op.key) = some p) (hs : StaticOk s (op.ni, op.key) p)
    (hun : ∀ k q, s.ents.get? k = some q → ¬ Refs k q (op.ni, op.key)) : classifyDel s op = .ok := by
  unfold classifyDel
  have h0 : ¬ (op.cls ≠ Cls.wf) := by simp [hcls]
  rw [if_neg h0]
  have hhas : s.has (op.ni, op.key) = true := by simp [Rib.has, Map.has, hget]
  unfold StaticOk at hs
  obtain ⟨_, hs⟩ := hs
  split
  · rename_i g hk
    simp only [hk] at hs
    rw [if_neg hs.1]
    have h1 : ¬ (¬ s.has (op.ni, op.key) = true) := by simp [hhas]
    rw [if_neg h1]
    have hz : cnt s.nhgRef (op.ni, g) = 0 := by
      rw [hi.nhg op.ni g]
      by_cases hp : 0 < nhgReferrers s.ents op.ni g
      · obtain ⟨k, q, h1, h2⟩ := (C03.nhgReferrers_pos_iff hi.nodup op.ni g).mp hp
        have := hun k q h1
        unfold Refs at this
        simp only [hk] at this
        exact absurd h2 this
      · omega
    have h2 : ¬ (cnt s.nhgRef (op.ni, g) > 0) := by omega
    rw [if_neg h2]
  · rename_i i hk
    simp only [hk] at hs
    rw [if_neg hs]
    have h1 : ¬ (¬ s.has (op.ni, op.key) = true) := by simp [hhas]
    rw [if_neg h1]
    have hz : cnt s.nhRef (op.ni, i) = 0 := by
      rw [hi.nh op.ni i]
      by_cases hp : 0 < nhReferrers s.ents op.ni i
      · obtain ⟨k, q, h1, h2⟩ := (C03.nhReferrers_pos_iff hi.nodup op.ni i).mp hp
        have := hun k q h1
        unfold Refs at this
        simp only [hk] at this
        exact absurd h2 this
      · omega
    have h2 : ¬ (cnt s.nhRef (op.ni, i) > 0) := by omega
    rw [if_neg h2]
  · rename_i l hk
    simp only [hk] at hs
    have h1 : ¬ (l > maxLabel) := by omega
    rw [if_neg h1, if_pos hhas]
  · rw [if_pos hhas]

/-- one DELETE of an installed, statically valid, unreferenced entry on a quiet RIB -/
theorem del_step_op {s : Rib} (hg : G s) (op : Op) (hcls : op.cls = .wf) (hty : op.ty = .delete) (p : Payload)
    (hget : s.ents.get? (op.ni, op.key) = some p) (hs : StaticOk s (op.ni, op.key) p)
    (hun : ∀ k q, s.ents.get? k = some q → ¬ Refs k q (op.ni, op.key)) :
    (Rib.del s op).2.oks = [op] ∧ (Rib.del s op).2.fails = [] ∧ (Rib.del s op).2.fatal = false ∧
      (Rib.del s op).1.ents = s.ents.erase (op.ni, op.key) ∧ G (Rib.del s op).1 ∧ (Rib.del s op).1.nis = s.nis := by
  have hc := classifyDel_ok hg.inv op hcls p hget hs hun
  have hni : s.hasNI op.ni = true := hs.1
  have h0 : ¬ (op.cls = Cls.noEntry ∨ ¬ s.hasNI op.ni = true) := by
    rintro (h | h)
    · rw [hcls] at h; cases h
    · exact h hni
  have hG : G (Rib.del s op).1 := by
    refine ⟨inv_del hg.inv op, C02.closed_del hg.closed hg.inv op, ?_⟩
    rw [(C03.del_pend s op).1, hg.pend]
  have hn := (C03.del_pend s op).2
  refine ⟨?_, ?_, ?_, ?_, hG, hn⟩ <;>
  · unfold Rib.del
    rw [if_neg h0, hc]
    simp [hget]

/-! ### list-of-entries folds -/

def insAll (m : Ents) (L : List (EKey × Payload)) : Ents := L.foldl (fun m e => m.insert e.1 e.2) m
def delAll (m : Ents) (L : List (EKey × Payload)) : Ents := L.foldl (fun m e => m.erase e.1) m

theorem has_insert_self (m : Ents) (k : EKey) (v : Payload) : (m.insert k v).has k = true := by
  simp [Map.has, Map.get?_insert]

theorem has_insAll_mono (L : List (EKey × Payload)) (m : Ents) (k : EKey) (h : m.has k = true) :
    (insAll m L).has k = true := by
  induction L generalizing m with
  | nil => exact h
  | cons e rest ih => exact ih _ (C02.has_insert_mono m k e.1 e.2 h)

theorem has_insAll_mem (L : List (EKey × Payload)) (m : Ents) (e : EKey × Payload) (h : e ∈ L) :
    (insAll m L).has e.1 = true := by
  induction L generalizing m with
  | nil => cases h
  | cons x rest ih =>
    cases h with
    | head => exact has_insAll_mono rest _ _ (has_insert_self m _ _)
    | tail _ h' => exact ih _ h'

theorem get?_insAll (I : Ents) (L : List (EKey × Payload)) (hL : ∀ e ∈ L, I.get? e.1 = some e.2)
    (m : Ents) (k : EKey) :
    (insAll m L).get? k = if k ∈ L.map (·.1) then I.get? k else m.get? k := by
  induction L generalizing m with
  | nil => simp [insAll]
  | cons x rest ih =>
    have hx := hL x List.mem_cons_self
    have hrest : ∀ e ∈ rest, I.get? e.1 = some e.2 := fun e he => hL e (List.mem_cons_of_mem _ he)
    show (insAll (m.insert x.1 x.2) rest).get? k = _
    rw [ih hrest]
    by_cases hk : k ∈ rest.map (·.1)
    · have : k ∈ (x :: rest).map (·.1) := by simp only [List.map_cons, List.mem_cons]; exact Or.inr hk
      rw [if_pos hk, if_pos this]
    · rw [if_neg hk, Map.get?_insert]
      by_cases hxk : x.1 = k
      · have : k ∈ (x :: rest).map (·.1) := by simp only [List.map_cons, List.mem_cons]; exact Or.inl hxk.symm
        rw [if_pos hxk, if_pos this, ← hxk, hx]
      · have : ¬ k ∈ (x :: rest).map (·.1) := by
          simp only [List.map_cons, List.mem_cons, not_or]; exact ⟨fun h => hxk h.symm, hk⟩
        rw [if_neg hxk, if_neg this]

theorem get?_delAll (L : List (EKey × Payload)) (m : Ents) (k : EKey) :
    (delAll m L).get? k = if k ∈ L.map (·.1) then none else m.get? k := by
  induction L generalizing m with
  | nil => simp [delAll]
  | cons x rest ih =>
    show (delAll (m.erase x.1) rest).get? k = _
    rw [ih]
    by_cases hk : k ∈ rest.map (·.1)
    · have : k ∈ (x :: rest).map (·.1) := by simp only [List.map_cons, List.mem_cons]; exact Or.inr hk
      rw [if_pos hk, if_pos this]
    · rw [if_neg hk, Map.get?_erase]
      by_cases hxk : x.1 = k
      · have : k ∈ (x :: rest).map (·.1) := by simp only [List.map_cons, List.mem_cons]; exact Or.inl hxk.symm
        rw [if_pos hxk, if_pos this]
      · have : ¬ k ∈ (x :: rest).map (·.1) := by
          simp only [List.map_cons, List.mem_cons, not_or]; exact ⟨fun h => hxk h.symm, hk⟩
        rw [if_neg hxk, if_neg this]

theorem insAll_append (m : Ents) (a b : List (EKey × Payload)) : insAll m (a ++ b) = insAll (insAll m a) b := by
  simp [insAll, List.foldl_append]

/-! ### sending a list of operations -/

def inputOf (op : Op) : Rib.In := if op.ty = .delete then Rib.In.del op else Rib.In.add op []

/-- every operation of the list is programmed, one after the other, leading from `s` to `s'`:
each is answered with exactly its own success, no failure, no error -/
inductive Programs : Rib → List Op → Rib → Prop
  | nil (s : Rib) : Programs s [] s
  | cons {s s1 s2 : Rib} {op : Op} {rest : List Op} {o : Out} :
      Rib.step s (inputOf op) = some (s1, o) → o.oks = [op] → o.fails = [] → o.fatal = false →
      Programs s1 rest s2 → Programs s (op :: rest) s2

theorem inputOf_add (id : Nat) (e : EKey × Payload) :
    inputOf (mkOp id .add e) = Rib.In.add (mkOp id .add e) [] := rfl
theorem inputOf_del (id : Nat) (e : EKey × Payload) :
    inputOf (mkOp id .delete e) = Rib.In.del (mkOp id .delete e) := rfl

theorem Programs.append {s s1 s2 : Rib} {a b : List Op} (h1 : Programs s a s1) (h2 : Programs s1 b s2) :
    Programs s (a ++ b) s2 := by
  induction h1 with
  | nil s => exact h2
  | cons hs ho hf hx _ ih => exact Programs.cons hs ho hf hx (ih h2)

theorem number_append (b : Nat) (x y : List (OpType × (EKey × Payload))) :
    number b (x ++ y) = number b x ++ number (b + x.length) y := by
  induction x generalizing b with
  | nil => simp [number]
  | cons a rest ih =>
    simp only [List.cons_append, number, List.length_cons]
    rw [ih (b + 1)]
    have : b + 1 + rest.length = b + (rest.length + 1) := by omega
    rw [this]

theorem entryResolved_insAll {m : Ents} (L : List (EKey × Payload)) {k : EKey} {p : Payload}
    (h : entryResolved m k p = true) : entryResolved (insAll m L) k p = true :=
  C02.entryResolved_mono (fun k' hk' => has_insAll_mono L m k' hk') k p h

/-- a run of ADDs of statically valid entries that are all resolvable from the start -/
theorem insert_phase (L : List (EKey × Payload)) {s : Rib} (hg : G s) (b : Nat)
    (hs : ∀ e ∈ L, StaticOk s e.1 e.2) (hr : ∀ e ∈ L, entryResolved s.ents e.1 e.2 = true) :
    ∃ s', Programs s (number b (L.map (fun e => (OpType.add, e)))) s' ∧ G s' ∧ s'.nis = s.nis ∧
      s'.ents = insAll s.ents L := by
  induction L generalizing s b with
  | nil => exact ⟨s, Programs.nil s, hg, rfl, rfl⟩
  | cons e rest ih =>
    obtain ⟨s1, o, hadd, hoks, hfails, hfatal, hents, hg1, hnis⟩ :=
      add_step hg (b + 1) e (hs e List.mem_cons_self) (hr e List.mem_cons_self)
    have hs1 : ∀ x ∈ rest, StaticOk s1 x.1 x.2 := fun x hx =>
      staticOk_congr hnis (hs x (List.mem_cons_of_mem _ hx))
    have hr1 : ∀ x ∈ rest, entryResolved s1.ents x.1 x.2 = true := by
      intro x hx
      rw [hents]
      exact C02.entryResolved_mono (fun k' hk' => C02.has_insert_mono s.ents k' e.1 e.2 hk') x.1 x.2
        (hr x (List.mem_cons_of_mem _ hx))
    obtain ⟨s2, hp, hg2, hn2, he2⟩ := ih hg1 (b + 1) hs1 hr1
    refine ⟨s2, ?_, hg2, hn2.trans hnis, ?_⟩
    · simp only [List.map_cons, number]
      refine Programs.cons (o := o) ?_ hoks hfails hfatal hp
      rw [inputOf_add]
      exact hadd
    · rw [he2, hents]; rfl

theorem refs_erase {m : Ents} {x : EKey} {tgt : EKey}
    (h : ∀ k q, m.get? k = some q → ¬ Refs k q tgt) :
    ∀ k q, (m.erase x).get? k = some q → ¬ Refs k q tgt := by
  intro k q hk
  rw [Map.get?_erase] at hk
  split at hk
  · cases hk
  · exact h k q hk

/-- a run of DELETEs of installed, statically valid entries none of which is referenced -/
theorem delete_phase (L : List (EKey × Payload)) {s : Rib} (hg : G s) (b : Nat)
    (hnd : (L.map (·.1)).Nodup)
    (hget : ∀ e ∈ L, s.ents.get? e.1 = some e.2)
    (hs : ∀ e ∈ L, StaticOk s e.1 e.2)
    (hun : ∀ e ∈ L, ∀ k q, s.ents.get? k = some q → ¬ Refs k q e.1) :
    ∃ s', Programs s (number b (L.map (fun e => (OpType.delete, e)))) s' ∧ G s' ∧ s'.nis = s.nis ∧
      s'.ents = delAll s.ents L := by
  induction L generalizing s b with
  | nil => exact ⟨s, Programs.nil s, hg, rfl, rfl⟩
  | cons e rest ih =>
    have hstep := del_step_op hg (mkOp (b + 1) .delete e) rfl rfl e.2 (hget e List.mem_cons_self)
      (hs e List.mem_cons_self) (hun e List.mem_cons_self)
    obtain ⟨hoks, hfails, hfatal, hents, hg1, hnis⟩ := hstep
    simp only [List.map_cons, List.nodup_cons] at hnd
    have hne : ∀ x ∈ rest, e.1 ≠ x.1 := by
      intro x hx heq
      exact hnd.1 (List.mem_map.mpr ⟨x, hx, heq.symm⟩)
    have hget1 : ∀ x ∈ rest, (Rib.del s (mkOp (b + 1) .delete e)).1.ents.get? x.1 = some x.2 := by
      intro x hx
      rw [hents]
      show (s.ents.erase e.1).get? x.1 = some x.2
      rw [Map.get?_erase_ne _ (hne x hx)]
      exact hget x (List.mem_cons_of_mem _ hx)
    have hs1 : ∀ x ∈ rest, StaticOk (Rib.del s (mkOp (b + 1) .delete e)).1 x.1 x.2 := fun x hx =>
      staticOk_congr hnis (hs x (List.mem_cons_of_mem _ hx))
    have hun1 : ∀ x ∈ rest, ∀ k q, (Rib.del s (mkOp (b + 1) .delete e)).1.ents.get? k = some q → ¬ Refs k q x.1 := by
      intro x hx
      rw [hents]
      exact refs_erase (hun x (List.mem_cons_of_mem _ hx))
    obtain ⟨s2, hp, hg2, hn2, he2⟩ := ih hg1 (b + 1) hnd.2 hget1 hs1 hun1
    refine ⟨s2, ?_, hg2, hn2.trans hnis, ?_⟩
    · simp only [List.map_cons, number]
      refine Programs.cons (o := (Rib.del s (mkOp (b + 1) .delete e)).2) ?_ hoks hfails hfatal hp
      rw [inputOf_del]
      rfl
    · rw [he2, hents]; rfl

/-! ### membership in the buckets -/

theorem mem_toAdd {I T : Ents} {e : EKey × Payload} : e ∈ toAdd I T ↔ e ∈ I ∧ T.get? e.1 = none := by
  simp [toAdd, List.mem_filter, Option.isNone_iff_eq_none]

theorem mem_toDelete {I T : Ents} {e : EKey × Payload} : e ∈ toDelete I T ↔ e ∈ T ∧ I.get? e.1 = none := by
  simp [toDelete, List.mem_filter, Option.isNone_iff_eq_none]

theorem mem_toReplace {I T : Ents} {e : EKey × Payload} :
    e ∈ toReplace I T ↔ e ∈ I ∧ ∃ p, T.get? e.1 = some p ∧ p ≠ e.2 := by
  simp only [toReplace, List.mem_filter]
  constructor
  · rintro ⟨h1, h2⟩
    refine ⟨h1, ?_⟩
    cases hg : T.get? e.1 with
    | none => simp [hg] at h2
    | some p => simp only [hg] at h2; exact ⟨p, rfl, by simpa using h2⟩
  · rintro ⟨h1, p, hp, hne⟩
    refine ⟨h1, ?_⟩
    simp [hp, hne]

theorem kinds (e : EKey × Payload) : isNh e = true ∨ isNhg e = true ∨ isTop e = true := by
  obtain ⟨⟨ni, k⟩, p⟩ := e
  cases k <;> simp [isNh, isNhg, isTop, Key.isTop]

theorem mem_installs {I T : Ents} {e : EKey × Payload} :
    e ∈ installs (diff I T) ↔ e ∈ toAdd I T ∨ e ∈ toReplace I T := by
  simp only [installs, diff, Ops.of, List.mem_append, List.mem_filter]
  constructor
  · rintro (((((h | h) | h) | h) | h) | h)
    · exact Or.inl h.1
    · exact Or.inl h.1
    · exact Or.inl h.1
    · exact Or.inr h.1
    · exact Or.inr h.1
    · exact Or.inr h.1
  · rintro (h | h)
    · rcases kinds e with k | k | k
      · exact Or.inl (Or.inl (Or.inl (Or.inl (Or.inl ⟨h, k⟩))))
      · exact Or.inl (Or.inl (Or.inl (Or.inl (Or.inr ⟨h, k⟩))))
      · exact Or.inl (Or.inl (Or.inl (Or.inr ⟨h, k⟩)))
    · rcases kinds e with k | k | k
      · exact Or.inl (Or.inl (Or.inr ⟨h, k⟩))
      · exact Or.inl (Or.inr ⟨h, k⟩)
      · exact Or.inr ⟨h, k⟩

theorem mem_removals {I T : Ents} {e : EKey × Payload} :
    e ∈ removals (diff I T) ↔ e ∈ toDelete I T := by
  simp only [removals, diff, Ops.of, List.mem_append, List.mem_filter]
  constructor
  · rintro ((h | h) | h) <;> exact h.1
  · intro h
    rcases kinds e with k | k | k
    · exact Or.inr ⟨h, k⟩
    · exact Or.inl (Or.inr ⟨h, k⟩)
    · exact Or.inl (Or.inl ⟨h, k⟩)

theorem resolved_of_isNh (m : Ents) {e : EKey × Payload} (h : isNh e = true) : entryResolved m e.1 e.2 = true := by
  obtain ⟨⟨ni, k⟩, p⟩ := e
  cases k <;> simp_all [isNh, entryResolved]

/-- the precondition of the convergence theorem: a quiet consistent target, an intended RIB that
is reference-closed, and entries on both sides that are statically valid on the target (in
particular every network instance the intended RIB uses exists on the target) -/
structure Pre (t : Rib) (I : Ents) : Prop where
  g : G t
  nodupI : Map.NoDupKeys I
  staticI : ∀ e ∈ I, StaticOk t e.1 e.2
  closedI : ∀ k p, I.get? k = some p → entryResolved I k p = true
  staticT : ∀ e ∈ t.ents, StaticOk t e.1 e.2

def HasNh (I m : Ents) : Prop := ∀ ni n, I.has (ni, Key.nh n) = true → m.has (ni, Key.nh n) = true
def HasNhg (I m : Ents) : Prop := ∀ ni g, I.has (ni, Key.nhg g) = true → m.has (ni, Key.nhg g) = true

theorem HasNh.mono {I m : Ents} (h : HasNh I m) (L : List (EKey × Payload)) : HasNh I (insAll m L) :=
  fun ni n hi => has_insAll_mono L m _ (h ni n hi)
theorem HasNhg.mono {I m : Ents} (h : HasNhg I m) (L : List (EKey × Payload)) : HasNhg I (insAll m L) :=
  fun ni g hi => has_insAll_mono L m _ (h ni g hi)

theorem hasNh_after {I T : Ents} : HasNh I (insAll T (diff I T).add.nh) := by
  intro ni n hi
  cases hT : T.get? (ni, Key.nh n) with
  | some q => exact has_insAll_mono _ T _ (by simp [Map.has, hT])
  | none =>
    simp only [Map.has, Option.isSome_iff_exists] at hi
    obtain ⟨p, hp⟩ := hi
    have hmem : ((ni, Key.nh n), p) ∈ (diff I T).add.nh := by
      simp only [diff, Ops.of, List.mem_filter]
      exact ⟨mem_toAdd.mpr ⟨Map.get?_some_mem hp, hT⟩, rfl⟩
    exact has_insAll_mem _ T _ hmem

theorem hasNhg_after {I T : Ents} (m : Ents) (hm : ∀ k, T.has k = true → m.has k = true) :
    HasNhg I (insAll m (diff I T).add.nhg) := by
  intro ni g hi
  cases hT : T.get? (ni, Key.nhg g) with
  | some q => exact has_insAll_mono _ m _ (hm _ (by simp [Map.has, hT]))
  | none =>
    simp only [Map.has, Option.isSome_iff_exists] at hi
    obtain ⟨p, hp⟩ := hi
    have hmem : ((ni, Key.nhg g), p) ∈ (diff I T).add.nhg := by
      simp only [diff, Ops.of, List.mem_filter]
      exact ⟨mem_toAdd.mpr ⟨Map.get?_some_mem hp, hT⟩, rfl⟩
    exact has_insAll_mem _ m _ hmem

/-- a group of the (closed) intended RIB is resolvable wherever all its next-hops are present -/
theorem resolved_nhg {I m : Ents} (hn : Map.NoDupKeys I)
    (hc : ∀ k p, I.get? k = some p → entryResolved I k p = true) (hm : HasNh I m)
    {e : EKey × Payload} (he : e ∈ I) (hk : isNhg e = true) : entryResolved m e.1 e.2 = true := by
  have hget := Map.get?_of_mem_nodup hn (k := e.1) (v := e.2) he
  have hr := hc _ _ hget
  obtain ⟨⟨ni, k⟩, p⟩ := e
  cases k with
  | nhg g =>
    simp only [entryResolved, List.all_eq_true] at hr ⊢
    intro n hn'
    exact hm ni n (hr n hn')
  | _ => simp [isNhg] at hk

/-- a top-level entry of the (closed) intended RIB is resolvable wherever all its groups are -/
theorem resolved_top {I m : Ents} (hn : Map.NoDupKeys I)
    (hc : ∀ k p, I.get? k = some p → entryResolved I k p = true) (hm : HasNhg I m)
    {e : EKey × Payload} (he : e ∈ I) (hk : isTop e = true) : entryResolved m e.1 e.2 = true := by
  have hget := Map.get?_of_mem_nodup hn (k := e.1) (v := e.2) he
  have hr := hc _ _ hget
  obtain ⟨⟨ni, k⟩, p⟩ := e
  cases k with
  | nh i => simp [isTop, Key.isTop] at hk
  | nhg g => simp [isTop, Key.isTop] at hk
  | v4 x => simp only [entryResolved] at hr ⊢; exact hm _ _ hr
  | v6 x => simp only [entryResolved] at hr ⊢; exact hm _ _ hr
  | mpls x => simp only [entryResolved] at hr ⊢; exact hm _ _ hr

/-! ### the six install phases -/

/-- result of an install run over list `A` starting in `s` with numbering from `b` -/
def InsRun (s : Rib) (b : Nat) (A : List (EKey × Payload)) (s' : Rib) : Prop :=
  Programs s (number b (A.map (fun e => (OpType.add, e)))) s' ∧ G s' ∧ s'.nis = s.nis ∧ s'.ents = insAll s.ents A

theorem InsRun.chain {s s1 s2 : Rib} {b : Nat} {A B : List (EKey × Payload)}
    (hA : InsRun s b A s1) (hB : InsRun s1 (b + A.length) B s2) : InsRun s b (A ++ B) s2 := by
  obtain ⟨p1, _, n1, e1⟩ := hA
  obtain ⟨p2, g2, n2, e2⟩ := hB
  refine ⟨?_, g2, n2.trans n1, ?_⟩
  · rw [List.map_append, number_append, List.length_map]
    exact p1.append p2
  · rw [e2, e1, insAll_append]

theorem installs_run {t : Rib} {I : Ents} (pre : Pre t I) (b : Nat) :
    ∃ s, InsRun t b (installs (diff I t.ents)) s := by
  have hmemI : ∀ {e}, e ∈ toAdd I t.ents → e ∈ I := fun h => (mem_toAdd.mp h).1
  have hmemI' : ∀ {e}, e ∈ toReplace I t.ents → e ∈ I := fun h => (mem_toReplace.mp h).1
  -- phase 1: added next-hops
  obtain ⟨s1, r1⟩ : ∃ s1, InsRun t b (diff I t.ents).add.nh s1 := by
    apply insert_phase _ pre.g b
    · intro e he
      simp only [diff, Ops.of, List.mem_filter] at he
      exact pre.staticI e (hmemI he.1)
    · intro e he
      simp only [diff, Ops.of, List.mem_filter] at he
      exact resolved_of_isNh _ he.2
  have hnh1 : HasNh I s1.ents := by rw [r1.2.2.2]; exact hasNh_after
  have hT1 : ∀ k, t.ents.has k = true → s1.ents.has k = true := by
    intro k hk; rw [r1.2.2.2]; exact has_insAll_mono _ _ _ hk
  -- phase 2: added groups
  obtain ⟨s2, r2⟩ : ∃ s2, InsRun s1 (b + (diff I t.ents).add.nh.length) (diff I t.ents).add.nhg s2 := by
    apply insert_phase _ r1.2.1
    · intro e he
      simp only [diff, Ops.of, List.mem_filter] at he
      exact staticOk_congr r1.2.2.1 (pre.staticI e (hmemI he.1))
    · intro e he
      simp only [diff, Ops.of, List.mem_filter] at he
      exact resolved_nhg pre.nodupI pre.closedI hnh1 (hmemI he.1) he.2
  have hnh2 : HasNh I s2.ents := by rw [r2.2.2.2]; exact hnh1.mono _
  have hnhg2 : HasNhg I s2.ents := by rw [r2.2.2.2]; exact hasNhg_after s1.ents hT1
  have r12 := r1.chain r2
  -- phase 3: added top-level entries
  obtain ⟨s3, r3⟩ : ∃ s3, InsRun s2 (b + ((diff I t.ents).add.nh ++ (diff I t.ents).add.nhg).length) (diff I t.ents).add.top s3 := by
    apply insert_phase _ r2.2.1
    · intro e he
      simp only [diff, Ops.of, List.mem_filter] at he
      exact staticOk_congr r12.2.2.1 (pre.staticI e (hmemI he.1))
    · intro e he
      simp only [diff, Ops.of, List.mem_filter] at he
      exact resolved_top pre.nodupI pre.closedI hnhg2 (hmemI he.1) he.2
  have hnh3 : HasNh I s3.ents := by rw [r3.2.2.2]; exact hnh2.mono _
  have hnhg3 : HasNhg I s3.ents := by rw [r3.2.2.2]; exact hnhg2.mono _
  have r123 := r12.chain r3
  -- phase 4: replaced next-hops
  obtain ⟨s4, r4⟩ : ∃ s4, InsRun s3 (b + (((diff I t.ents).add.nh ++ (diff I t.ents).add.nhg) ++ (diff I t.ents).add.top).length) (diff I t.ents).replace.nh s4 := by
    apply insert_phase _ r3.2.1
    · intro e he
      simp only [diff, Ops.of, List.mem_filter] at he
      exact staticOk_congr r123.2.2.1 (pre.staticI e (hmemI' he.1))
    · intro e he
      simp only [diff, Ops.of, List.mem_filter] at he
      exact resolved_of_isNh _ he.2
  have hnh4 : HasNh I s4.ents := by rw [r4.2.2.2]; exact hnh3.mono _
  have hnhg4 : HasNhg I s4.ents := by rw [r4.2.2.2]; exact hnhg3.mono _
  have r1234 := r123.chain r4
  -- phase 5: replaced groups
  obtain ⟨s5, r5⟩ : ∃ s5, InsRun s4 (b + ((((diff I t.ents).add.nh ++ (diff I t.ents).add.nhg) ++ (diff I t.ents).add.top) ++ (diff I t.ents).replace.nh).length) (diff I t.ents).replace.nhg s5 := by
    apply insert_phase _ r4.2.1
    · intro e he
      simp only [diff, Ops.of, List.mem_filter] at he
      exact staticOk_congr r1234.2.2.1 (pre.staticI e (hmemI' he.1))
    · intro e he
      simp only [diff, Ops.of, List.mem_filter] at he
      exact resolved_nhg pre.nodupI pre.closedI hnh4 (hmemI' he.1) he.2
  have hnhg5 : HasNhg I s5.ents := by rw [r5.2.2.2]; exact hnhg4.mono _
  have r12345 := r1234.chain r5
  -- phase 6: replaced top-level entries
  obtain ⟨s6, r6⟩ : ∃ s6, InsRun s5 (b + (((((diff I t.ents).add.nh ++ (diff I t.ents).add.nhg) ++ (diff I t.ents).add.top) ++ (diff I t.ents).replace.nh) ++ (diff I t.ents).replace.nhg).length) (diff I t.ents).replace.top s6 := by
    apply insert_phase _ r5.2.1
    · intro e he
      simp only [diff, Ops.of, List.mem_filter] at he
      exact staticOk_congr r12345.2.2.1 (pre.staticI e (hmemI' he.1))
    · intro e he
      simp only [diff, Ops.of, List.mem_filter] at he
      exact resolved_top pre.nodupI pre.closedI hnhg5 (hmemI' he.1) he.2
  exact ⟨s6, r12345.chain r6⟩

/-! ### contents after the installs, and the three delete phases -/

theorem installs_from_I {I T : Ents} (hn : Map.NoDupKeys I) :
    ∀ e ∈ installs (diff I T), I.get? e.1 = some e.2 := by
  intro e he
  rcases mem_installs.mp he with h | h
  · exact Map.get?_of_mem_nodup hn (mem_toAdd.mp h).1
  · exact Map.get?_of_mem_nodup hn (mem_toReplace.mp h).1

/-- contents after all installs: the intended payload wherever the intended RIB has the key,
the target's own entry elsewhere -/
theorem get?_after_installs {I T : Ents} (hn : Map.NoDupKeys I) (k : EKey) :
    (insAll T (installs (diff I T))).get? k = match I.get? k with
      | some p => some p
      | none => T.get? k := by
  rw [get?_insAll I _ (installs_from_I hn)]
  cases hI : I.get? k with
  | some p =>
    simp only
    split
    · rfl
    · rename_i hk
      -- not among the installs although intended: the target already has exactly this entry
      have hmem : (k, p) ∈ I := Map.get?_some_mem hI
      cases hT : T.get? k with
      | none =>
        exact absurd (List.mem_map.mpr ⟨(k, p), mem_installs.mpr (Or.inl (mem_toAdd.mpr ⟨hmem, hT⟩)), rfl⟩) hk
      | some q =>
        by_cases hq : q = p
        · rw [hq]
        · exact absurd (List.mem_map.mpr ⟨(k, p), mem_installs.mpr (Or.inr (mem_toReplace.mpr ⟨hmem, q, hT, hq⟩)), rfl⟩) hk
  | none =>
    simp only
    split
    · rename_i hk
      obtain ⟨e, he, hek⟩ := List.mem_map.mp hk
      have := installs_from_I hn e he
      rw [hek, hI] at this
      cases this
    · rfl

theorem mem_keys_del {I T : Ents} (kind : EKey × Payload → Bool) (k : EKey) :
    k ∈ ((toDelete I T).filter kind).map (·.1) ↔ ∃ q, (k, q) ∈ T ∧ I.get? k = none ∧ kind (k, q) = true := by
  simp only [List.mem_map, List.mem_filter]
  constructor
  · rintro ⟨e, ⟨h1, h2⟩, rfl⟩
    obtain ⟨a, b⟩ := mem_toDelete.mp h1
    exact ⟨e.2, a, b, h2⟩
  · rintro ⟨q, h1, h2, h3⟩
    exact ⟨(k, q), ⟨mem_toDelete.mpr ⟨h1, h2⟩, h3⟩, rfl⟩

theorem nodup_del_bucket {I T : Ents} (hT : Map.NoDupKeys T) (kind : EKey × Payload → Bool) :
    (((toDelete I T).filter kind).map (·.1)).Nodup :=
  Map.nodup_filter (Map.nodup_filter hT _) kind

/-- no entry refers to a group the (closed) intended RIB does not have, in any contents whose
top-level entries are top-level entries of the intended RIB -/
theorem no_ref_to_group {I cur : Ents} (hc : ∀ k p, I.get? k = some p → entryResolved I k p = true)
    (htops : ∀ k q, cur.get? k = some q → k.2.isTop = true → I.get? k = some q)
    (ni : NI) (g : Nat) (hnot : I.get? (ni, Key.nhg g) = none) :
    ∀ k q, cur.get? k = some q → ¬ Refs k q (ni, Key.nhg g) := by
  intro k q hk hr
  unfold Refs at hr
  simp only at hr
  obtain ⟨htop, hx⟩ := (qNhg_iff (ni, g) k q).mp hr
  have hI := htops k q hk htop
  have hres := hc k q hI
  have hhas : I.has (tgtNI k.1 q, Key.nhg q.grp) = true := by
    obtain ⟨kn, kk⟩ := k
    cases kk <;> simp_all [entryResolved, Key.isTop]
  have h1 : ni = tgtNI k.1 q := (Prod.ext_iff.mp hx).1
  have h2 : g = q.grp := (Prod.ext_iff.mp hx).2
  rw [← h1, ← h2] at hhas
  simp [Map.has, hnot] at hhas

/-- no group contains a next-hop the (closed) intended RIB does not have, in any contents whose
groups are groups of the intended RIB -/
theorem no_ref_to_nh {I cur : Ents} (hc : ∀ k p, I.get? k = some p → entryResolved I k p = true)
    (hgroups : ∀ k q, cur.get? k = some q → isNhgKey k.2 = true → I.get? k = some q)
    (ni : NI) (i : Nat) (hnot : I.get? (ni, Key.nh i) = none) :
    ∀ k q, cur.get? k = some q → ¬ Refs k q (ni, Key.nh i) := by
  intro k q hk hr
  unfold Refs at hr
  simp only at hr
  obtain ⟨hnhg, hni, hin⟩ := (qNh_iff (ni, i) k q).mp hr
  have hI := hgroups k q hk hnhg
  have hres := hc k q hI
  obtain ⟨kn, kk⟩ := k
  cases kk with
  | nhg g =>
    simp only [entryResolved, List.all_eq_true] at hres
    have := hres i hin
    simp only at hni
    rw [← hni] at this
    simp [Map.has, hnot] at this
  | _ => simp [isNhgKey] at hnhg

theorem top_not_in_nhg_bucket {I T : Ents} {e : EKey × Payload} (h : isNhg e = true) :
    ¬ e.1 ∈ ((toDelete I T).filter isTop).map (·.1) := by
  intro hm
  obtain ⟨q, _, _, hk⟩ := (mem_keys_del isTop e.1).mp hm
  obtain ⟨⟨ni, key⟩, p⟩ := e
  cases key <;> simp_all [isTop, isNhg, Key.isTop]

theorem nh_not_in_other_buckets {I T : Ents} {e : EKey × Payload} (h : isNh e = true) :
    ¬ e.1 ∈ ((toDelete I T).filter isTop).map (·.1) ∧ ¬ e.1 ∈ ((toDelete I T).filter isNhg).map (·.1) := by
  constructor
  · intro hm
    obtain ⟨q, _, _, hk⟩ := (mem_keys_del isTop e.1).mp hm
    obtain ⟨⟨ni, key⟩, p⟩ := e
    cases key <;> simp_all [isTop, isNh, Key.isTop]
  · intro hm
    obtain ⟨q, _, _, hk⟩ := (mem_keys_del isNhg e.1).mp hm
    obtain ⟨⟨ni, key⟩, p⟩ := e
    cases key <;> simp_all [isNhg, isNh]

/-- the contents `A` after the installs, as a function -/
def AfterInstalls (I T A : Ents) : Prop :=
  ∀ k, A.get? k = match I.get? k with | some p => some p | none => T.get? k

theorem tops_are_intended {I T A B : Ents} (hA : AfterInstalls I T A)
    (hB : ∀ k, B.get? k = if k ∈ ((toDelete I T).filter isTop).map (·.1) then none else A.get? k) :
    ∀ k q, B.get? k = some q → k.2.isTop = true → I.get? k = some q := by
  intro k q hk htop
  rw [hB] at hk
  split at hk
  · cases hk
  · rename_i hnot
    rw [hA] at hk
    cases hI : I.get? k with
    | some pI => rw [hI] at hk; exact hk
    | none =>
      rw [hI] at hk
      simp only at hk
      exact absurd ((mem_keys_del isTop k).mpr ⟨q, Map.get?_some_mem hk, hI, htop⟩) hnot

theorem groups_are_intended {I T A B C : Ents} (hA : AfterInstalls I T A)
    (hB : ∀ k, B.get? k = if k ∈ ((toDelete I T).filter isTop).map (·.1) then none else A.get? k)
    (hC : ∀ k, C.get? k = if k ∈ ((toDelete I T).filter isNhg).map (·.1) then none else B.get? k) :
    ∀ k q, C.get? k = some q → isNhgKey k.2 = true → I.get? k = some q := by
  intro k q hk hnhg
  rw [hC] at hk
  split at hk
  · cases hk
  · rename_i hnot
    rw [hB] at hk
    split at hk
    · cases hk
    · rw [hA] at hk
      cases hI : I.get? k with
      | some pI => rw [hI] at hk; exact hk
      | none =>
        rw [hI] at hk
        simp only at hk
        have hk' : isNhg (k, q) = true := by
          obtain ⟨kn, kk⟩ := k
          cases kk <;> simp_all [isNhg, isNhgKey]
        exact absurd ((mem_keys_del isNhg k).mpr ⟨q, Map.get?_some_mem hk, hI, hk'⟩) hnot

/-- after the three delete phases the contents are the intended contents -/
theorem final_equiv {I T A B C D : Ents} (hA : AfterInstalls I T A)
    (hB : ∀ k, B.get? k = if k ∈ ((toDelete I T).filter isTop).map (·.1) then none else A.get? k)
    (hC : ∀ k, C.get? k = if k ∈ ((toDelete I T).filter isNhg).map (·.1) then none else B.get? k)
    (hD : ∀ k, D.get? k = if k ∈ ((toDelete I T).filter isNh).map (·.1) then none else C.get? k) :
    D ≃ₘ I := by
  intro k
  rw [hD, hC, hB, hA]
  cases hI : I.get? k with
  | some p =>
    have h1 : ¬ k ∈ ((toDelete I T).filter isNh).map (·.1) := by
      intro hm; obtain ⟨_, _, h, _⟩ := (mem_keys_del isNh k).mp hm; rw [hI] at h; cases h
    have h2 : ¬ k ∈ ((toDelete I T).filter isNhg).map (·.1) := by
      intro hm; obtain ⟨_, _, h, _⟩ := (mem_keys_del isNhg k).mp hm; rw [hI] at h; cases h
    have h3 : ¬ k ∈ ((toDelete I T).filter isTop).map (·.1) := by
      intro hm; obtain ⟨_, _, h, _⟩ := (mem_keys_del isTop k).mp hm; rw [hI] at h; cases h
    rw [if_neg h1, if_neg h2, if_neg h3]
  | none =>
    simp only
    cases hT : T.get? k with
    | none => split <;> (try rfl) <;> split <;> (try rfl) <;> split <;> rfl
    | some q =>
      have hmem : (k, q) ∈ T := Map.get?_some_mem hT
      rcases kinds (k, q) with hk | hk | hk
      · rw [if_pos ((mem_keys_del isNh k).mpr ⟨q, hmem, hI, hk⟩)]
      · split
        · rfl
        · rw [if_pos ((mem_keys_del isNhg k).mpr ⟨q, hmem, hI, hk⟩)]
      · split
        · rfl
        · split
          · rfl
          · rw [if_pos ((mem_keys_del isTop k).mpr ⟨q, hmem, hI, hk⟩)]

theorem refs_top_false (k : EKey) (q : Payload) {e : EKey × Payload} (h : isTop e = true) : ¬ Refs k q e.1 := by
  obtain ⟨⟨ni, key⟩, p⟩ := e
  unfold Refs
  cases key <;> simp_all [isTop, Key.isTop]

theorem removals_run {t : Rib} {I : Ents} (pre : Pre t I) {sA : Rib} (b : Nat)
    (hgA : G sA) (hnA : sA.nis = t.nis) (heA : sA.ents = insAll t.ents (installs (diff I t.ents))) :
    ∃ s', Programs sA (number b ((removals (diff I t.ents)).map (fun e => (OpType.delete, e)))) s' ∧ G s' ∧
      s'.ents ≃ₘ I := by
  have hTn : Map.NoDupKeys t.ents := pre.g.inv.nodup
  have hA : AfterInstalls I t.ents sA.ents := by
    intro k; rw [heA]; exact get?_after_installs pre.nodupI k
  have hAdel : ∀ e, e ∈ toDelete I t.ents → sA.ents.get? e.1 = some e.2 := by
    intro e he
    obtain ⟨h1, h2⟩ := mem_toDelete.mp he
    rw [hA, h2]
    exact Map.get?_of_mem_nodup hTn h1
  have hstat : ∀ (s : Rib), s.nis = t.nis → ∀ e, e ∈ toDelete I t.ents → StaticOk s e.1 e.2 :=
    fun s hn e he => staticOk_congr hn (pre.staticT e (mem_toDelete.mp he).1)
  -- phase 7: top-level deletes
  obtain ⟨s1, p1, g1, n1, e1⟩ := delete_phase (diff I t.ents).delete.top hgA b
    (nodup_del_bucket hTn isTop)
    (fun e he => hAdel e (List.mem_filter.mp he).1)
    (fun e he => hstat sA hnA e (List.mem_filter.mp he).1)
    (fun e he k q _ => refs_top_false k q (List.mem_filter.mp he).2)
  have hB : ∀ k, s1.ents.get? k = if k ∈ ((toDelete I t.ents).filter isTop).map (·.1) then none else sA.ents.get? k := by
    intro k; rw [e1]; exact get?_delAll _ _ k
  have htops := tops_are_intended hA hB
  -- phase 8: group deletes
  obtain ⟨s2, p2, g2, n2, e2⟩ := delete_phase (diff I t.ents).delete.nhg g1 (b + (diff I t.ents).delete.top.length)
    (nodup_del_bucket hTn isNhg)
    (fun e he => by
      rw [hB, if_neg (top_not_in_nhg_bucket (List.mem_filter.mp he).2)]
      exact hAdel e (List.mem_filter.mp he).1)
    (fun e he => hstat s1 (n1.trans hnA) e (List.mem_filter.mp he).1)
    (fun e he => by
      obtain ⟨hdel, hkind⟩ := List.mem_filter.mp he
      obtain ⟨⟨ni, key⟩, p⟩ := e
      cases key with
      | nhg g => exact no_ref_to_group pre.closedI htops ni g (mem_toDelete.mp hdel).2
      | _ => simp [isNhg] at hkind)
  have hC : ∀ k, s2.ents.get? k = if k ∈ ((toDelete I t.ents).filter isNhg).map (·.1) then none else s1.ents.get? k := by
    intro k; rw [e2]; exact get?_delAll _ _ k
  have hgroups := groups_are_intended hA hB hC
  -- phase 9: next-hop deletes
  obtain ⟨s3, p3, g3, n3, e3⟩ := delete_phase (diff I t.ents).delete.nh g2
    (b + ((diff I t.ents).delete.top.length + (diff I t.ents).delete.nhg.length))
    (nodup_del_bucket hTn isNh)
    (fun e he => by
      have hk := nh_not_in_other_buckets (I := I) (T := t.ents) (List.mem_filter.mp he).2
      rw [hC, if_neg hk.2, hB, if_neg hk.1]
      exact hAdel e (List.mem_filter.mp he).1)
    (fun e he => hstat s2 (n2.trans (n1.trans hnA)) e (List.mem_filter.mp he).1)
    (fun e he => by
      obtain ⟨hdel, hkind⟩ := List.mem_filter.mp he
      obtain ⟨⟨ni, key⟩, p⟩ := e
      cases key with
      | nh i => exact no_ref_to_nh pre.closedI hgroups ni i (mem_toDelete.mp hdel).2
      | _ => simp [isNh] at hkind)
  have hD : ∀ k, s3.ents.get? k = if k ∈ ((toDelete I t.ents).filter isNh).map (·.1) then none else s2.ents.get? k := by
    intro k; rw [e3]; exact get?_delAll _ _ k
  refine ⟨s3, ?_, g3, final_equiv hA hB hC hD⟩
  have hrem : removals (diff I t.ents) = ((diff I t.ents).delete.top ++ (diff I t.ents).delete.nhg) ++ (diff I t.ents).delete.nh := rfl
  rw [hrem, List.map_append, List.map_append, number_append, number_append, List.length_map, List.length_append,
    List.length_map, List.length_map]
  exact (p1.append p2).append p3

/-! ### the theorem -/

theorem c15_programs {t : Rib} {I : Ents} (pre : Pre t I) (base : Nat) :
    ∃ t', Programs t (ops I t.ents base) t' ∧ G t' ∧ t'.ents ≃ₘ I := by
  obtain ⟨sA, pA, gA, nA, eA⟩ := installs_run pre base
  obtain ⟨sD, pD, gD, eD⟩ := removals_run pre (base + (installs (diff I t.ents)).length) gA nA eA
  refine ⟨sD, ?_, gD, eD⟩
  unfold ops
  rw [number_append, List.length_map]
  exact pA.append pD

/-- how an output answers an operation: exactly its own success -/
def Answered (op : Op) (o : Out) : Prop := o.oks = [op] ∧ o.fails = [] ∧ o.fatal = false

/-- the outputs answer the operations one for one -/
def AllAnswered : List Op → List Out → Prop
  | [], [] => True
  | op :: l, o :: os => Answered op o ∧ AllAnswered l os
  | _, _ => False

theorem inputs_cons (op : Op) (l : List Op) : inputs (op :: l) = inputOf op :: inputs l := rfl

theorem programs_run {s s' : Rib} {l : List Op} (h : Programs s l s') :
    ∃ outs, Rib.run s (inputs l) = some (s', outs) ∧ AllAnswered l outs := by
  induction h with
  | nil s => exact ⟨[], rfl, trivial⟩
  | cons hs ho hf hx _ ih =>
    obtain ⟨outs, hr, hall⟩ := ih
    refine ⟨_ :: outs, ?_, ⟨⟨ho, hf, hx⟩, hall⟩⟩
    rw [inputs_cons]
    simp only [Rib.run]
    rw [hs]
    simp only
    rw [hr]

/-- **C15 (convergence).** Let the target `t` be quiet and consistent (counters = referrers,
nothing dangling, nothing held), let the intended contents `I` be reference-closed with distinct
keys, and let the entries of both sides be statically valid on the target (so every network
instance the intended RIB uses exists there). Then sending the reconciler's operations in the
documented order — added next-hops, groups, top-level entries; replaces; deletes of top-level
entries, groups, next-hops — to the target's `AddEntry` / `DeleteEntry`, with reference checking
on, succeeds operation by operation (each answered with exactly its own success) and leaves
contents equal to the intended contents in every network instance, nothing held, counters and
closure intact. -/
theorem c15_converges {t : Rib} {I : Ents} (pre : Pre t I) (base : Nat) :
    ∃ t' outs, Rib.run t (inputs (ops I t.ents base)) = some (t', outs) ∧
      AllAnswered (ops I t.ents base) outs ∧
      t'.ents ≃ₘ I ∧ t'.pend = [] ∧ Inv t' ∧ C02.Closed t' := by
  obtain ⟨t', hp, hg, he⟩ := c15_programs pre base
  obtain ⟨outs, hr, hall⟩ := programs_run hp
  exact ⟨t', outs, hr, hall, he, hg.pend, hg.inv, hg.closed⟩

/-- **C15 (fixed point).** Once the target's contents equal the intended contents, a further
reconciliation yields no operations. -/
theorem c15_fixpoint {I D : Ents} (hI : Map.NoDupKeys I) (h : D ≃ₘ I) (base : Nat) :
    ops I D base = [] := by
  have ha : toAdd I D = [] := by
    apply List.filter_eq_nil_iff.mpr
    intro e he
    have := get?_self_ne_none I he
    rw [← h e.1] at this
    cases hd : D.get? e.1 with
    | none => exact absurd hd this
    | some p => simp
  have hr : toReplace I D = [] := by
    apply List.filter_eq_nil_iff.mpr
    intro e he
    have : D.get? e.1 = some e.2 := by rw [h e.1]; exact Map.get?_of_mem_nodup hI he
    simp [this]
  have hd : toDelete I D = [] := by
    apply List.filter_eq_nil_iff.mpr
    intro e he
    have := get?_self_ne_none D he
    rw [h e.1] at this
    cases hd : I.get? e.1 with
    | none => exact absurd hd this
    | some p => simp
  simp [ops, diff, installs, removals, Ops.of, ha, hr, hd, number]

/-- the hypotheses are satisfiable by a non-trivial instance: an empty target with two
instances, and an intended RIB holding a chain (next-hop, group, prefix in another instance) -/
example : Pre ({ (Rib.new "DEFAULT") with nis := ["DEFAULT", "VRF1"] })
    [(("DEFAULT", Key.nh 1), {}), (("DEFAULT", Key.nhg 1), { nhs := [1] }),
     (("VRF1", Key.v4 "1.0.0.0/8"), { grp := 1, grpNI := "DEFAULT" })] := by
  refine ⟨⟨⟨Map.nodup_nil, ?_, ?_, ?_⟩, ?_, rfl⟩, by simp [Map.NoDupKeys, Map.keys], ?_, ?_, ?_⟩
  · intro k p h; simp [Rib.new] at h
  · intro ni g; simp [Rib.new, cnt, nhgReferrers]
  · intro ni n; simp [Rib.new, cnt, nhReferrers]
  · intro k p h; simp [Rib.new] at h
  · intro e he
    simp only [List.mem_cons, List.not_mem_nil, or_false] at he
    rcases he with rfl | rfl | rfl <;> simp [StaticOk, Rib.hasNI, Rib.new]
  · intro k p h
    simp only [Map.get?_cons, Map.get?_nil] at h
    split at h
    · cases h; subst_vars; decide
    · split at h
      · cases h; subst_vars; decide
      · split at h
        · cases h; subst_vars; decide
        · cases h
  · intro e he; simp [Rib.new] at he

end Gribi.C15
