/-
C10 — Client disconnects / abandoned RPCs never change state or wedge the server.

(a) State preservation, on the sequential server model: a disconnect (half-close, cancel,
transport failure — all `close` at message granularity) removes the session's entry and nothing
else; a Get never changes anything.
(b) No wedge, on the Get-stream abstraction `Conc.GS`: however many entries there are and
wherever the client goes away, every maximal run ends with the instance read lock released, so
later writers (Modify, Flush) and readers are served. The stuck state of the pinned commit (D10)
is kept as a witness. Goroutine scheduling, gRPC flow control and timers are not modelled; the
real server is exercised by cut-point enumeration (see DESIGN.md C10).
-/
import Gribi.Model.Conc
import Gribi.Props.C09
namespace Gribi.C10
open Gribi

/-! ### (a) state preservation -/

/-- **C10 (a disconnect changes nothing but the session table).** -/
theorem c10_close_preserves (s : Server) (c : Nat) :
    (s.close c).rib = s.rib ∧ (s.close c).curElec = s.curElec ∧ (s.close c).curMaster = s.curMaster ∧
    (∀ c', c' ≠ c → (s.close c).sess.get? c' = s.sess.get? c') ∧ (s.close c).sess.get? c = none := by
  refine ⟨rfl, rfl, rfl, ?_, ?_⟩
  · intro c' h
    have : c ≠ c' := fun h' => h h'.symm
    simp [Server.close, Server.drop, Map.get?_erase, this]
  · simp [Server.close, Server.drop]

/-- a Get (complete or abandoned) never changes server state -/
theorem c10_get_preserves (s : Server) (ni : Server.NiSel) (aft : Server.GetAft) :
    ∀ s' o, Server.step s (.get ni aft) = some (s', o) → s' = s := by
  intro s' o h
  simp only [Server.step, Option.some.injEq, Prod.mk.injEq] at h
  exact h.1.symm

/-- a new session's connect does not touch RIB or election state either -/
theorem c10_connect_preserves (s : Server) (c : Nat) :
    (s.connect c).rib = s.rib ∧ (s.connect c).curElec = s.curElec ∧ (s.connect c).curMaster = s.curMaster :=
  ⟨rfl, rfl, rfl⟩

/-- **C10 (serviceable).** On a server with no live session (everyone has gone away, however),
a fresh session that negotiates SINGLE_PRIMARY/PRESERVE is accepted, and when it then announces
an id not lower than the highest learnt id it becomes primary. -/
theorem c10_serviceable (s : Server) (c : Nat) (ack : Nat) (hempty : s.sess = []) :
    (Server.recv (s.connect c) c (.params 1 1 ack)).isSome = true ∧
    ∀ s1 o1, Server.recv (s.connect c) c (.params 1 1 ack) = some (s1, o1) →
      o1.term = none ∧ o1.resps = [.paramsOk] ∧ s1.rib = s.rib ∧ s1.curElec = s.curElec ∧
      (s1.sess.get? c).map (·.params) = some (Server.paramsOf 1 1 ack) := by
  have hg : (s.connect c).sess.get? c = some {} := by simp [Server.connect]
  have hr : Server.recv (s.connect c) c (.params 1 1 ack) =
      some (Server.finish c (Server.doParams (s.connect c) c {} 1 1 ack)) := by
    simp only [Server.recv, hg]
  have hd : Server.doParams (s.connect c) c {} 1 1 ack =
      ({ (s.connect c) with sess := (s.connect c).sess.insert c { params := Server.paramsOf 1 1 ack, setParams := true, gotMsg := true } },
       { resps := [.paramsOk] }) := by
    simp [Server.doParams, Server.connect, hempty, Map.insert, Map.erase]
  refine ⟨by rw [hr]; rfl, ?_⟩
  intro s1 o1 h
  rw [hr, hd] at h
  simp only [Server.finish, Option.some.injEq, Prod.mk.injEq] at h
  obtain ⟨rfl, rfl⟩ := h
  simp [Server.connect]

theorem c10_serviceable_elect (s : Server) (c : Nat) (cs : Sess) (e : U128)
    (hcs : s.sess.get? c = some cs) (hp : cs.params.expectElec = true) (hz : e.isZero = false)
    (hge : Server.isNewMaster e s.curElec = true) :
    ∀ s1 o1, Server.recv s c (.elec e) = some (s1, o1) →
      o1.term = none ∧ s1.curMaster = some c ∧ s1.curElec = some e ∧ s1.rib = s.rib := by
  obtain ⟨a1, a2, a3⟩ := C05.doElec_accept s c cs e hp hz
  simp only [hge, if_true] at a3
  intro s1 o1 h
  simp only [Server.recv, hcs, Option.some.injEq] at h
  have hf : Server.finish c (Server.doElec s c cs e) = Server.doElec s c cs e := by
    simp only [Server.finish, a1]
  rw [hf] at h
  have h1 : s1 = (Server.doElec s c cs e).1 := by rw [h]
  have h2 : o1 = (Server.doElec s c cs e).2 := by rw [h]
  refine ⟨by rw [h2]; exact a1, by rw [h1]; exact a3.2, by rw [h1]; exact a3.1, ?_⟩
  rw [h1]
  unfold Server.doElec
  simp only [hp, hz, Bool.not_true, Bool.false_eq_true, if_false]
  split <;> rfl

/-! ### (b) no wedge -/

open Gribi.Conc Gribi.Conc.GS

/-- once the consumer has gone, the stop channel is closed -/
def Inv (s : St) : Prop := s.consumerAlive = false → s.stopped = true

theorem inv_fire {s : St} (hi : Inv s) (t : Tr) : Inv (fire s t) := by
  cases t <;> simp_all [Inv, fire]

/-- **C10 (the lock is always released).** While the producer holds the read lock some
transition is enabled — whatever the number of entries, wherever the client went away. -/
theorem c10_get_no_stuck {s : St} (hi : Inv s) (hl : s.holdsLock = true) : ∃ t, enabled s t = true := by
  by_cases h0 : s.left = 0
  · exact ⟨.producerDone, by simp [enabled, hl, h0]⟩
  · have hpos : s.left > 0 := by omega
    by_cases hc : s.consumerAlive = true
    · by_cases hb : s.budget = 0
      · exact ⟨.abandon, by simp [enabled, hc, hb, hl, hpos]⟩
      · exact ⟨.handOver, by simp [enabled, hl, hpos, hc]; omega⟩
    · have := hi (by simpa using hc)
      exact ⟨.producerStops, by simp [enabled, hl, this]⟩

def bit : Bool → Nat
  | true => 1
  | false => 0

def measure (s : St) : Nat := s.left + bit s.consumerAlive + 2 * bit s.holdsLock

theorem measure_decreases {s : St} (t : Tr) (he : enabled s t = true) : measure (fire s t) < measure s := by
  cases t with
  | handOver =>
    simp only [enabled, Bool.and_eq_true, decide_eq_true_eq] at he
    simp only [fire, measure]; omega
  | abandon =>
    simp only [enabled, Bool.and_eq_true, decide_eq_true_eq] at he
    simp only [fire, measure, he.1.1.1, bit]; omega
  | producerStops =>
    simp only [enabled, Bool.and_eq_true] at he
    simp only [fire, measure, he.1, bit]; omega
  | producerDone =>
    simp only [enabled, Bool.and_eq_true, decide_eq_true_eq] at he
    simp only [fire, measure, he.1, bit]; omega

inductive Run : St → List Tr → St → Prop where
  | nil (s : St) : Run s [] s
  | cons {s s' : St} {t : Tr} {ts : List Tr} : enabled s t = true → Run (fire s t) ts s' → Run s (t :: ts) s'

theorem run_inv {s s' : St} {ts : List Tr} (hr : Run s ts s') (hi : Inv s) : Inv s' := by
  induction hr with
  | nil => exact hi
  | cons _ _ ih => exact ih (inv_fire hi _)

theorem run_length {s s' : St} {ts : List Tr} (hr : Run s ts s') : ts.length + measure s' ≤ measure s := by
  induction hr with
  | nil => simp
  | cons he _ ih =>
    have := measure_decreases _ he
    simp only [List.length_cons]; omega

/-- **C10 (every Get ends with the lock free).** For any number of entries `n` and any point `k`
at which the client abandons the stream, every run is finite and every maximal run has
released the lock. -/
theorem c10_get_releases (n k : Nat) {ts : List Tr} {s' : St}
    (hr : Run { left := n, budget := k } ts s') (hmax : ∀ t, enabled s' t = false) :
    s'.holdsLock = false ∧ ts.length ≤ n + 3 := by
  have hi : Inv { left := n, budget := k } := by intro h; simp at h
  have hi' := run_inv hr hi
  refine ⟨?_, ?_⟩
  · cases h : s'.holdsLock with
    | false => rfl
    | true =>
      obtain ⟨t, ht⟩ := c10_get_no_stuck hi' h
      rw [hmax t] at ht; cases ht
  · have := run_length hr
    simp only [measure, bit] at this
    omega

def runGo (s : St) (ts : List Tr) : Option St :=
  ts.foldl (fun acc t => acc.bind (fun s => if enabledGo s t then some (fire s t) else none)) (some s)

/-- **the defect of the pinned commit (D10).** With plain sends and a polled stop channel, a Get
over two entries abandoned after the first response leaves the producer blocked for ever while
holding the instance read lock. -/
theorem c10_get_wedge_witness_as_written :
    ∃ ts s', runGo { left := 2, budget := 1 } ts = some s' ∧ s'.holdsLock = true ∧ ∀ t, enabledGo s' t = false := by
  refine ⟨[.handOver, .abandon], _, rfl, by decide, ?_⟩
  intro t; cases t <;> decide

end Gribi.C10
