/-
The abstract specification of the RIB that the properties are stated against: a finite
map from (network instance, key) to payload, changed only by *acknowledged* operations.
Core Lean only.
-/
import Gribi.Model.Rib
namespace Gribi.Spec

/-- something the server acknowledged -/
inductive Ack where
  /-- an operation answered RIB_PROGRAMMED -/
  | prog (op : Op)
  /-- a Flush answered OK for these instances -/
  | flushed (nis : List NI)
  deriving Repr, Inhabited

/-- gRIBI semantics of one acknowledgement: ADD creates or wholly replaces, REPLACE wholly
replaces, DELETE removes only the named key, flush empties the named instances. -/
def applyAck (m : Map EKey Payload) : Ack → Map EKey Payload
  | .prog op =>
    match op.ty with
    | .add | .replace => m.insert (op.ni, op.key) op.pl
    | .delete => m.erase (op.ni, op.key)
    | .invalid => m
  | .flushed nis => m.eraseP (fun k => nis.contains k.1)

def fold (acks : List Ack) : Map EKey Payload := acks.foldl applyAck []

/-- everything the entry `(k, p)` references is installed in `ents` (backup groups are
not checked) -/
def entryResolved (ents : Map EKey Payload) (k : EKey) (p : Payload) : Bool :=
  match k.2 with
  | .nh _ => true
  | .nhg _ => p.nhs.all (fun n => ents.has (k.1, .nh n))
  | _ => ents.has (Rib.tgtNI k.1 p, .nhg p.grp)

/-- no installed entry dangles -/
def closed (ents : Map EKey Payload) : Bool :=
  ents.all (fun e => entryResolved ents e.1 e.2)

end Gribi.Spec
