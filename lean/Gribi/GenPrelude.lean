/-
Vocabulary of the *generated* definitions in `Gribi/Gen.lean`.

`/verif/translate` re-reads the Go sources of /repo on every check run and translates a set of
decision functions of server/server.go (and friends) statement by statement into Lean
definitions over the types below. Nothing here says what those functions do: this file only
gives the Go values a Lean shape (a pointer is an `Option`, a protobuf enum is its constructor
name, a `uint128.Uint128` is a `U128`, a gRPC status is a code plus the attached details).
The theorems that the generated definitions agree with the hand-written model are in
`Gribi/Props/GenEquiv.lean`. Core Lean only.
-/
import Gribi.Model.Types
namespace Gribi.Gen

/-- all gRPC codes (google.golang.org/grpc/codes) -/
inductive GCode where
  | OK | Canceled | Unknown | InvalidArgument | DeadlineExceeded | NotFound | AlreadyExists
  | PermissionDenied | ResourceExhausted | FailedPrecondition | Aborted | OutOfRange
  | Unimplemented | Internal | Unavailable | DataLoss | Unauthenticated
  deriving DecidableEq, Repr, Inhabited

/-- `spb.ModifyRPCErrorDetails_Reason` -/
inductive MReason where
  | UNKNOWN | UNSUPPORTED_PARAMS | MODIFY_NOT_ALLOWED | PARAMS_DIFFER_FROM_OTHER_CLIENTS
  | ELECTION_ID_IN_ALL_PRIMARY
  deriving DecidableEq, Repr, Inhabited

/-- `spb.FlushResponseError_Reason` -/
inductive FReason where
  | UNKNOWN | NO_SUCH_NETWORK_INSTANCE | NOT_PRIMARY | ELECTION_ID_IN_ALL_PRIMARY
  | UNSPECIFIED_ELECTION_BEHAVIOR | INVALID_ELECTION_ID | UNSPECIFIED_NETWORK_INSTANCE
  | INVALID_NETWORK_INSTANCE
  deriving DecidableEq, Repr, Inhabited

/-- what is attached to a status: nothing, `ModifyRPCErrorDetails{Reason}`, `FlushResponseError{Status}` -/
inductive Details where
  | none
  | modify (r : MReason)
  | flush (r : FReason)
  deriving DecidableEq, Repr, Inhabited

/-- a non-nil `error` built from `status` -/
structure Status where
  code : GCode
  details : Details := .none
  deriving DecidableEq, Repr, Inhabited

/-- `spb.AFTResult_Status` -/
inductive AftSt where
  | UNSET | OK | FAILED | RIB_PROGRAMMED | FIB_PROGRAMMED | FIB_FAILED
  deriving DecidableEq, Repr, Inhabited

/-- the shapes of `*spb.ModifyResponse` the translated functions build -/
inductive MResp where
  /-- `{Result: [{Id, Status}, …]}` -/
  | results (l : List (Nat × AftSt))
  /-- `{SessionParamsResult: {Status: OK}}` -/
  | paramsOk
  /-- `{ElectionId: e}` -/
  | elec (e : Option U128)
  deriving DecidableEq, Repr, Inhabited

/-- `uint128.New(lo, hi)` -/
def u128 (lo hi : UInt64) : U128 := ⟨hi, lo⟩

/-- `uint128.Uint128.Cmp`: high word first -/
def cmp (a b : U128) : Int :=
  if a.hi < b.hi then -1
  else if b.hi < a.hi then 1
  else if a.lo < b.lo then -1
  else if b.lo < a.lo then 1
  else 0

/-- `uint128.Uint128.Equals` -/
def equals (a b : U128) : Bool := a.hi == b.hi && a.lo == b.lo

/-- `server.electionDetails` -/
structure ElectionDetails where
  master : String
  ID : Option U128
  client : String
  clientLatest : Option U128
  deriving DecidableEq, Repr, Inhabited

/-- `server.clientParams` -/
structure ClientParams where
  Persist : Bool := false
  ExpectElecID : Bool := false
  FIBAck : Bool := false
  deriving DecidableEq, Repr, Inhabited

/-- `server.clientState` -/
structure ClientState where
  params : ClientParams
  setParams : Bool
  lastElecID : Option U128
  deriving DecidableEq, Repr, Inhabited

/-- `spb.SessionParameters` (enumerations by wire number) -/
structure SessionParameters where
  Redundancy : Nat
  Persistence : Nat
  AckType : Nat
  deriving DecidableEq, Repr, Inhabited

/-- `rib.OpResult` as the server looks at it -/
structure OpResult where
  ID : Nat
  deriving DecidableEq, Repr, Inhabited

/-- `spb.AFTOperation` as `modifyEntry` looks at it (`Op` by wire number) -/
structure AFTOperation where
  Id : Nat
  ElectionId : Option U128
  Op : Nat
  /-- `GetNetworkInstance()` -/
  NetworkInstance : String := ""
  /-- everything else the message carries (the entry): never looked at -/
  Body : Nat := 0
  deriving DecidableEq, Repr, Inhabited

/-! the candidate RIB `canResolve` / `canDelete` look at: each ygot map is a list of its elements in
an arbitrary order, each element carrying its map key in `Key` -/

structure CandNH where
  Key : Nat
  /-- `GetIndex()` (0 when the leaf is unset) -/
  Index : Nat
  deriving DecidableEq, Repr, Inhabited

structure CandNHG where
  Key : Nat
  /-- `GetId()` -/
  Id : Nat
  NextHop : List CandNH
  deriving DecidableEq, Repr, Inhabited

structure CandTop where
  Key : Nat
  NextHopGroup : Nat
  NextHopGroupNetworkInstance : String
  deriving DecidableEq, Repr, Inhabited

structure CandAfts where
  NextHop : List CandNH
  NextHopGroup : List CandNHG
  Ipv4Entry : List CandTop
  Ipv6Entry : List CandTop
  LabelEntry : List CandTop
  /-- tables gribigo does not support; `checkCandidate` refuses a candidate that has entries in them -/
  MacEntry : List Unit := []
  PolicyForwardingEntry : List Unit := []
  deriving DecidableEq, Repr, Inhabited

structure CandRIB where
  Afts : Option CandAfts
  deriving DecidableEq, Repr, Inhabited

/-- `spb.ModifyRequest` as the fluent client builds it -/
structure ModifyRequestF where
  Operation : List AFTOperation
  deriving DecidableEq, Repr, Inhabited

/-- `spb.ModifyRequest` as `UpdateElectionID` builds it -/
structure ModifyRequestE where
  ElectionId : Option U128
  deriving DecidableEq, Repr, Inhabited

/-- a pre-formed `spb.ModifyRequest` handed to `Enqueue` / `InjectRequest`: never looked at -/
structure ReqTok where
  Tag : Nat
  deriving DecidableEq, Repr, Inhabited

/-- `fluent.gRIBIConnection` as `entriesToModifyRequest` looks at it -/
structure GRIBIConnection where
  redundMode : Nat
  deriving DecidableEq, Repr, Inhabited

def AFTOperation_INVALID : Nat := 0
def AFTOperation_ADD : Nat := 1
def AFTOperation_REPLACE : Nat := 2
def AFTOperation_DELETE : Nat := 3

/-- the `network_instance` oneof of `spb.FlushRequest` -/
inductive FlushNI where
  | All
  | Name (Name : String)
  deriving DecidableEq, Repr, Inhabited

/-- `spb.FlushResponse_Result` -/
inductive FlushResult where
  | UNSET | OK | NON_ZERO_REFERENCE_REMAIN
  deriving DecidableEq, Repr, Inhabited

/-- `spb.FlushRequest`: the two oneofs as seen through the getters -/
structure FlushRequest where
  /-- `GetNetworkInstance()`: nil or the oneof case -/
  NetworkInstance : Option FlushNI
  /-- `GetOverride()` -/
  Override : Option Unit
  /-- `GetId()` -/
  Id : Option U128
  deriving DecidableEq, Repr, Inhabited

/-- the `network_instance` oneof of `spb.GetRequest` -/
inductive GetNI where
  | All
  | Name (Name : String)
  deriving DecidableEq, Repr, Inhabited

/-- `spb.GetRequest` as `doGet` looks at it (`Aft` by wire number) -/
structure GetRequestG where
  NetworkInstance : Option GetNI
  Aft : Nat
  deriving DecidableEq, Repr, Inhabited

def AFTType_INVALID : Nat := 0
def AFTType_ALL : Nat := 1
def AFTType_IPV4 : Nat := 2
def AFTType_IPV6 : Nat := 3
def AFTType_MPLS : Nat := 4
def AFTType_NEXTHOP : Nat := 5
def AFTType_NEXTHOP_GROUP : Nat := 6
def AFTType_MAC : Nat := 7
def AFTType_POLICY_FORWARDING : Nat := 8

/-- `spb.ModifyRequest` as the receive loop looks at it -/
structure ModifyRequest where
  Params : Option SessionParameters
  ElectionId : Option U128
  /-- `in.Operation != nil` (a non-empty repeated field) -/
  Operation : Option Unit
  deriving DecidableEq, Repr, Inhabited

/-- `spb.GetRequest` as `doGet` looks at it -/
structure GetRequest where
  /-- 0 = oneof not set, 1 = All, 2 = Name -/
  NiKind : Nat
  Name : String
  /-- `aft` enumeration by wire number -/
  Aft : Nat
  deriving DecidableEq, Repr, Inhabited

/-- wire numbers of the enumerations the translated code names -/
def SessionParameters_ALL_PRIMARY : Nat := 0
def SessionParameters_SINGLE_PRIMARY : Nat := 1
def SessionParameters_DELETE : Nat := 0
def SessionParameters_PRESERVE : Nat := 1
def SessionParameters_RIB_ACK : Nat := 0
def SessionParameters_RIB_AND_FIB_ACK : Nat := 1


/-! ## the client (client/gribiclient.go) -/

/-- wire numbers of `spb.AFTResult_Status` -/
def SessionParametersResult_OK : Nat := 0
def AFTResult_UNSET : Nat := 0
def AFTResult_FAILED : Nat := 1
def AFTResult_RIB_PROGRAMMED : Nat := 2
def AFTResult_FIB_PROGRAMMED : Nat := 3
def AFTResult_FIB_FAILED : Nat := 4

structure IPv4EntryC where
  Prefix : String
  /-- `GetIpv4Entry()`: the payload, opaque here -/
  Ipv4Entry : Option Unit := none
  deriving DecidableEq, Repr, Inhabited

structure IPv6EntryC where
  Prefix : String
  Ipv6Entry : Option Unit := none
  deriving DecidableEq, Repr, Inhabited

structure LabelEntryC where
  /-- `GetLabelUint64()` -/
  LabelUint64 : Nat
  LabelEntry : Option Unit := none
  deriving DecidableEq, Repr, Inhabited

structure NHGEntryC where
  Id : Nat
  NextHopGroup : Option Unit := none
  deriving DecidableEq, Repr, Inhabited

structure NHEntryC where
  Index : Nat
  deriving DecidableEq, Repr, Inhabited

/-- the `entry` oneof of `spb.AFTOperation` (the wrapped message pointer may be nil) -/
inductive AFTEntry where
  | Ipv4 (Ipv4 : Option IPv4EntryC)
  | Ipv6 (Ipv6 : Option IPv6EntryC)
  | Mpls (Mpls : Option LabelEntryC)
  | NextHopGroup (NextHopGroup : Option NHGEntryC)
  | NextHop (NextHop : Option NHEntryC)
  deriving DecidableEq, Repr, Inhabited

/-- `spb.AFTOperation` as the client looks at it -/
structure AFTOperationC where
  Id : Nat
  Op : Nat
  Entry : Option AFTEntry
  deriving DecidableEq, Repr, Inhabited

/-- `spb.ModifyRequest` as the client's accounting looks at it -/
structure ModifyRequestC where
  Operation : List AFTOperationC
  ElectionId : Option U128
  Params : Option SessionParameters
  deriving DecidableEq, Repr, Inhabited

structure AFTErrorDetails where
  ErrorMessage : String
  deriving DecidableEq, Repr, Inhabited

/-- `spb.AFTResult` -/
structure AFTResultC where
  Id : Nat
  Status : Nat
  ErrorDetails : Option AFTErrorDetails
  deriving DecidableEq, Repr, Inhabited

structure SessionParametersResult where
  Status : Nat
  deriving DecidableEq, Repr, Inhabited

/-- `spb.ModifyResponse` as the client looks at it; `Result` is a slice that may be nil -/
structure ModifyResponseC where
  Result : Option (List AFTResultC)
  ElectionId : Option U128
  SessionParamsResult : Option SessionParametersResult
  deriving DecidableEq, Repr, Inhabited

/-- `client.PendingOp` (`Op` is never nil: `addPendingOp` has dereferenced it) -/
structure PendingOp where
  Timestamp : Int
  Op : AFTOperationC
  deriving DecidableEq, Repr, Inhabited

structure ElectionReqDetails where
  Timestamp : Int
  ID : Option U128
  deriving DecidableEq, Repr, Inhabited

structure SessionParamReqDetails where
  Timestamp : Int
  Outgoing : Option SessionParameters
  deriving DecidableEq, Repr, Inhabited

/-- `client.pendingQueue` -/
structure PendingQueue where
  Ops : Map Nat PendingOp
  Election : Option ElectionReqDetails
  SessionParams : Option SessionParamReqDetails
  deriving Repr, Inhabited

/-- `client.OpDetailsResults` -/
structure OpDetailsResults where
  Type_ : Nat
  NextHopIndex : Nat
  NextHopGroupID : Nat
  IPv4Prefix : String
  IPv6Prefix : String
  MPLSLabel : Nat
  deriving DecidableEq, Repr, Inhabited

/-- `client.OpResult` -/
structure COpResult where
  Timestamp : Int
  Latency : Int
  CurrentServerElectionID : Option U128
  SessionParameters : Option SessionParametersResult
  OperationID : Nat
  ClientError : String
  ServerError : String
  ProgrammingResult : Nat
  Details : Option OpDetailsResults
  deriving DecidableEq, Repr, Inhabited

/-! ## the RIB's orchestration (rib/rib.go: addEntryInternal and the held operations) -/

/-- `constants.OpType` / `constants.AFT` by value -/
def constants_Add : Nat := 1
def constants_Delete : Nat := 2
def constants_Replace : Nat := 3
def constants_All : Nat := 1
def constants_IPv4 : Nat := 2
def constants_NextHop : Nat := 3
def constants_NextHopGroup : Nat := 4
def constants_MPLS : Nat := 5
def constants_IPv6 : Nat := 6

/-- a value held in a Go `any` variable: a string, a number, or nil -/
inductive AnyKey where
  | none
  | str (s : String)
  | num (n : Nat)
  deriving DecidableEq, Repr, Inhabited

/-- `rib.pendingEntry` -/
structure PendingEntry where
  ni : String
  op : AFTOperationC
  deriving DecidableEq, Repr, Inhabited

/-- the installed IPv4 / IPv6 / MPLS entry a delete removed (`*aft.Afts_Ipv4Entry` …) as
`DeleteEntry` looks at it -/
structure OrigTop where
  NextHopGroupNetworkInstance : String
  NextHopGroup : Nat
  Prefix : String := ""
  /-- `GetLabel()` of a label entry (a union value; opaque here) -/
  Label : Nat := 0
  deriving DecidableEq, Repr, Inhabited

structure OrigNHGMember where
  Key : Nat
  /-- `GetIndex()` of the member (ygot keeps it equal to the key) -/
  Index : Nat := 0
  deriving DecidableEq, Repr, Inhabited

/-- the installed next-hop-group a delete removed: the keys of its next-hop map, in any order -/
structure OrigNHG where
  NextHop : List OrigNHGMember
  deriving DecidableEq, Repr, Inhabited

/-- a `RIBHolder` as the registry of network instances looks at it: its name, the post-change
hook it was given, the options it was created with (1 = the RIB's check function, 2 = forward
references disabled) -/
structure HolderG where
  name : String
  postChangeHook : Option Unit := none
  opts : List Nat := []
  deriving DecidableEq, Repr, Inhabited

/-- `sort.Strings` -/
def sortStrings (l : List String) : List String := l.mergeSort (fun a b => decide (a ≤ b))

/-- an installed next-hop-group as `Flush` looks at it (`*aft.Afts_NextHopGroup`): its backup
group, a `*uint64` -/
structure FlNHG where
  BackupNextHopGroup : Option Nat
  deriving DecidableEq, Repr, Inhabited

/-- a gRPC status as `HasRecvClientErrorWithStatus` compares it (`*status.Status` / its protobuf):
code, message, and the details (opaque: only dropped or compared whole) -/
structure GStatus where
  Code : Nat
  Message : String := ""
  Details : Option String := none
  deriving DecidableEq, Repr, Inhabited

/-- an option of `HasRecvClientErrorWithStatus`: `AllowUnimplemented()` or `IgnoreDetails()` -/
structure ErrOptG where
  IsAllowUnimplemented : Bool
  IsIgnoreDetails : Bool
  deriving DecidableEq, Repr, Inhabited

/-- `client.ClientErr` as chk's helpers look at it: the send errors, and the receive errors each as
what `status.FromError` makes of it (none: not a gRPC status) -/
structure ClientErrG where
  Send : List Status
  Recv : List (Option GStatus)
  deriving DecidableEq, Repr, Inhabited

/-- a non-nil `error` as chk's helpers look at it: `AsClientErr` is what it holds when its
dynamic type is `*client.ClientErr`, none when it is anything else -/
structure ErrView where
  AsClientErr : Option ClientErrG
  deriving DecidableEq, Repr, Inhabited

/-- `rib.FlushErr`: the errors of the deletes that failed -/
structure FlushErr where
  Errs : List Status
  deriving DecidableEq, Repr, Inhabited

structure StringValue where
  Value : String
  deriving DecidableEq, Repr, Inhabited

structure UintValue where
  Value : Nat
  deriving DecidableEq, Repr, Inhabited

/-- the payload of an IPv4 / IPv6 / MPLS entry as `handleReferences` looks at it (protobuf wrappers) -/
structure NewTop where
  NextHopGroupNetworkInstance : Option StringValue
  NextHopGroup : Option UintValue
  deriving DecidableEq, Repr, Inhabited

structure NewNHGMember where
  Index : Nat
  deriving DecidableEq, Repr, Inhabited

/-- the payload of a next-hop-group as `handleNHGReferences` looks at it: its members in order -/
structure NewNHG where
  NextHop : List NewNHGMember
  deriving DecidableEq, Repr, Inhabited

/-- an installed entry of a table as the lockless deletes look at it (a group's member map) -/
structure TblEntry where
  NextHop : List OrigNHGMember := []
  deriving DecidableEq, Repr, Inhabited

/-- the key-only `*aft.RIB` a table-level delete builds for `validKey` / `checkFn` (opaque) -/
structure KeyRIB where
  deriving DecidableEq, Repr, Inhabited

/-- an element of the one-entry candidate RIB that `AddIPv4` … build and announce (opaque) -/
structure NewElem where
  Key : Nat
  deriving DecidableEq, Repr, Inhabited

/-- the candidate `*aft.RIB` returned by `candidateRIB` (its `Afts` is never nil) -/
structure NewAfts where
  Ipv4Entry : List NewElem
  Ipv6Entry : List NewElem
  LabelEntry : List NewElem
  NextHopGroup : List NewElem
  NextHop : List NewElem
  deriving DecidableEq, Repr, Inhabited

structure NewRIB where
  Afts : NewAfts
  deriving DecidableEq, Repr, Inhabited

/-! ## `chk.GetResponseHasEntries` -/

structure GPrefix where
  Prefix : String
  deriving DecidableEq, Repr, Inhabited

structure GLabel where
  /-- `GetLabelUint64()` -/
  LabelUint64 : Nat
  /-- the label oneof holds the uint64 member (not the enumeration) -/
  LabelIsUint64 : Bool
  deriving DecidableEq, Repr, Inhabited

structure GId where
  Id : Nat
  deriving DecidableEq, Repr, Inhabited

structure GIndex where
  Index : Nat
  deriving DecidableEq, Repr, Inhabited

/-- the `entry` oneof of `spb.AFTEntry` -/
inductive GEntryKind where
  | NextHopGroup (NextHopGroup : Option GId)
  | NextHop (NextHop : Option GIndex)
  | Ipv4 (Ipv4 : Option GPrefix)
  | Ipv6 (Ipv6 : Option GPrefix)
  | Mpls (Mpls : Option GLabel)
  deriving DecidableEq, Repr, Inhabited

/-- `spb.AFTEntry` as the helper looks at it -/
structure GAFTEntry where
  NetworkInstance : String
  Entry : Option GEntryKind
  deriving DecidableEq, Repr, Inhabited

/-- the helper's per-instance cache (a local struct of five Go maps) -/
structure GetCache where
  ipv4 : Map String GAFTEntry := []
  ipv6 : Map String GAFTEntry := []
  mpls : Map Nat GAFTEntry := []
  nhg : Map Nat GAFTEntry := []
  nh : Map Nat GAFTEntry := []
  deriving Repr, Inhabited

/-- `spb.GetResponse` -/
structure GetResponseG where
  Entry : List GAFTEntry
  deriving DecidableEq, Repr, Inhabited

/-! ## the reconciler (rib/reconciler/reconcile.go `diff`) -/

/-- an entry of one table of a RIB's contents: its key (a string for prefixes, a number for
labels, groups and next-hops) and the identity of its payload (`reflect.DeepEqual` compares it) -/
structure ReconEnt where
  KeyS : String := ""
  KeyN : Nat := 0
  Body : Nat := 0
  deriving DecidableEq, Repr, Inhabited

structure ReconAfts where
  Ipv4Entry : List ReconEnt := []
  Ipv6Entry : List ReconEnt := []
  LabelEntry : List ReconEnt := []
  NextHopGroup : List ReconEnt := []
  NextHop : List ReconEnt := []
  deriving DecidableEq, Repr, Inhabited

/-- one network instance of `RIBContents()` (an `*aft.RIB`; `GetAfts()` of a fresh one is empty) -/
structure ReconNI where
  Afts : ReconAfts := {}
  deriving DecidableEq, Repr, Inhabited

/-- an operation `diff` emits: built by `v4Operation` … from (method, instance, id, entry) -/
structure ReconOp where
  Id : Nat
  NetworkInstance : String
  Op : Nat
  /-- table: 4, 6, 1 MPLS, 2 group, 3 next-hop -/
  Kind : Nat
  Entry : Option ReconEnt
  deriving DecidableEq, Repr, Inhabited

/-- `rib.OpResult` as far as it is compared: the operation's id -/
structure RibOpResult where
  ID : Nat
  deriving DecidableEq, Repr, Inhabited

/-- the error of a Go `(pointer, error)` result pair of which exactly one is nil -/
def errOf {α : Type} (p : Option α) (e : Status) : Option Status :=
  match p with
  | none => some e
  | some _ => none

/-- `x++` / `x--` on a `uint64` -/
def incU64 (x : Nat) : Nat := if x = 18446744073709551615 then 0 else x + 1
def decU64 (x : Nat) : Nat := if x = 0 then 18446744073709551615 else x - 1

/-- side effects a translated function performs through calls it does not inline -/
inductive Eff where
  | checkClientsConsistent (id : String) (p : Option ClientParams)
  | setClientParams (id : String) (p : Option ClientParams)
  | storeClientElectionID (id : String) (e : Option U128)
  | checkParams (id : String) (p : Option SessionParameters) (gotMsg : Bool)
  | updateParams (id : String) (p : Option SessionParameters)
  | runElection (id : String) (e : Option U128)
  | doModify (id : String)
  | send (r : Option MResp)
  /-- `modifyEntry(rib, ni, op, fibACK, election)` called by `doModify` -/
  | modifyEntry (ni : String) (op : Option AFTOperation) (fib : Bool) (e : Option ElectionDetails)
  | flush (nis : List String)
  /-- `errCh <- e` in `doGet`: the Get RPC will end with this error -/
  | sendErr (e : Option Status)
  /-- `GetRIB(filter, …)` of one network instance: its entries of the tables in `filter` are streamed -/
  | getRIB (ni : String) (filter : List Nat)
  | addEntry (ni : String) (op : Option AFTOperation)
  | deleteEntry (ni : String) (op : Option AFTOperation)
  /-- `niR.AddIPv4(entry, explicitReplace)` and its siblings: the instance's table is changed -/
  | addIPv4 (ni : String) (e : Option IPv4EntryC) (replace : Bool)
  | addIPv6 (ni : String) (e : Option IPv6EntryC) (replace : Bool)
  | addMPLS (ni : String) (e : Option LabelEntryC) (replace : Bool)
  | addNHG (ni : String) (e : Option NHGEntryC) (replace : Bool)
  | addNH (ni : String) (e : Option NHEntryC) (replace : Bool)
  /-- `doAddIPv4(key, candidate)` …: the candidate is merged into the instance's table (`kind` = 4, 6, 1 MPLS, 2 group, 3 next-hop) -/
  | tableAdd (kind : Nat) (candidate : Option NewRIB)
  /-- the post-change hook: `hook(optype, ts, instance, entry)` -/
  | postHook (optype : Nat) (ni : String) (elem : Option NewElem)
  /-- `doDeleteIPv4(key)` …: the key is removed from the instance's table -/
  | tableDel (kind : Nat)
  /-- the post-change hook for a removed entry: `hook(Delete, ts, instance, removed entry)` -/
  | postHookDel (optype : Nat) (ni : String) (entry : Option Unit)
  /-- the post-change hook called by a lockless delete with the entry it removed -/
  | postHookTbl (optype : Nat) (ni : String) (entry : Option TblEntry)
  | delIPv4 (ni : String) (e : Option IPv4EntryC)
  | delIPv6 (ni : String) (e : Option IPv6EntryC)
  | delMPLS (ni : String) (e : Option LabelEntryC)
  | delNHG (ni : String) (e : Option NHGEntryC)
  | delNH (ni : String) (e : Option NHEntryC)
  /-- `msgCh <- m` in `GetRIB`: the message is handed to the Get RPC -/
  | getEmit (m : Option GetResponseG)
  /-- `niR.locklessDeleteIPv4(key)` … called by `Flush` (`kind` = 4, 6, 1 MPLS, 2 group, 3 next-hop) -/
  | flDelStr (kind : Nat) (ni : String) (key : String)
  | flDelNat (kind : Nat) (ni : String) (key : Nat)
  /-- `decNHGRefCount(id)` / `decNHRefCount(id)` on the holder of instance `ni` -/
  | decNHGRef (ni : String) (id : Nat)
  | decNHRef (ni : String) (id : Nat)
  | incNHGRef (ni : String) (id : Nat)
  | incNHRef (ni : String) (id : Nat)
  /-- `handleReferences(r, niR, original, new)` / `r.handleNHGReferences(niR, original, new)` -/
  | handleReferences (ni : String) (orig : Option Unit) (new : Option Unit)
  | handleNHGReferences (ni : String) (orig : Option Unit) (new : Option Unit)
  /-- `r.callResolvedEntryHook(optype, ni, aft, key)` -/
  | resolvedHook (optype : Nat) (ni : String) (aft : Nat) (key : AnyKey)
  /-- `r.addEntryInternal(ni, op, &oks, &fails, handled)` called by `AddEntry` -/
  | addEntryInternal (ni : String) (op : Option AFTOperationC)
  /-- the client's `addSendErr(err)` -/
  | addSendErr (e : Option Status)
  /-- the client's `q(m)`: the request is handed to the sender goroutine -/
  | clientq (m : Option ModifyRequestC)
  /-- the fluent client's `g.parent.c.Q(m)`: the request is queued on the client -/
  | flQ (m : Option ModifyRequestF)
  | flQElec (m : Option ModifyRequestE)
  | flQTok (m : Option ReqTok)
  deriving DecidableEq, Repr, Inhabited

/-! ### the fluent builders (fluent/fluent.go): the protobufs they compose, field by field -/

structure BytesValue where
  Value : String
  deriving DecidableEq, Repr, Inhabited

/-- `aftpb.Afts_Ipv4Entry` / `aftpb.Afts_Ipv6Entry`: the fields the builders set -/
structure TopEntryB where
  NextHopGroup : Option UintValue
  NextHopGroupNetworkInstance : Option StringValue
  EntryMetadata : Option BytesValue
  deriving DecidableEq, Repr, Inhabited

/-- `aftpb.Afts_Ipv4EntryKey` (the payload pointer is set by the constructor and never again) -/
structure Ipv4KeyB where
  Prefix : String
  Ipv4Entry : TopEntryB
  deriving DecidableEq, Repr, Inhabited

structure Ipv6KeyB where
  Prefix : String
  Ipv6Entry : TopEntryB
  deriving DecidableEq, Repr, Inhabited

/-- the `label` oneof of `aftpb.Afts_LabelEntryKey` -/
inductive LabelU where
  | U64 (LabelUint64 : Nat)
  deriving DecidableEq, Repr, Inhabited

structure PoppedU where
  PoppedMplsLabelStackUint64 : Nat
  deriving DecidableEq, Repr, Inhabited

structure LabelEntryB where
  NextHopGroup : Option UintValue
  NextHopGroupNetworkInstance : Option StringValue
  PoppedMplsLabelStack : List PoppedU
  deriving DecidableEq, Repr, Inhabited

structure LabelKeyB where
  Label : Option LabelU
  LabelEntry : LabelEntryB
  deriving DecidableEq, Repr, Inhabited

structure NhgNhB where
  Weight : Option UintValue
  deriving DecidableEq, Repr, Inhabited

structure NhgNhKeyB where
  Index : Nat
  NextHop : Option NhgNhB
  deriving DecidableEq, Repr, Inhabited

structure NhgPayloadB where
  BackupNextHopGroup : Option UintValue
  NextHop : List NhgNhKeyB
  deriving DecidableEq, Repr, Inhabited

structure NhgKeyB where
  Id : Nat
  NextHopGroup : NhgPayloadB
  deriving DecidableEq, Repr, Inhabited

/-! the next-hop builder's protobuf (`aftpb.Afts_NextHopKey`); its payload is allocated by the
first method that needs it -/

structure BoolValue where
  Value : Bool
  deriving DecidableEq, Repr, Inhabited

structure IfRefB where
  Interface : Option StringValue
  Subinterface : Option UintValue
  deriving DecidableEq, Repr, Inhabited

structure IpInIpB where
  SrcIp : Option StringValue
  DstIp : Option StringValue
  deriving DecidableEq, Repr, Inhabited

structure PushedU where
  PushedMplsLabelStackUint64 : Nat
  deriving DecidableEq, Repr, Inhabited

/-- `aftpb.Afts_NextHop` as the translated methods fill it (the encapsulation-header list is
the business of `AddEncapHeader`, which is not translated: the methods here never touch it) -/
structure NhPayloadB where
  IpAddress : Option StringValue
  InterfaceRef : Option IfRefB
  MacAddress : Option StringValue
  IpInIp : Option IpInIpB
  NetworkInstance : Option StringValue
  PopTopLabel : Option BoolValue
  PushedMplsLabelStack : List PushedU
  DecapsulateHeader : Nat
  EncapsulateHeader : Nat
  /-- `EncapHeader`: opaque here (how many there are) -/
  EncapHeader : Nat
  deriving DecidableEq, Repr, Inhabited

structure NhKeyB where
  Index : Nat
  NextHop : Option NhPayloadB
  deriving DecidableEq, Repr, Inhabited

structure NhBuilder where
  ni : String
  pb : NhKeyB
  electionID : Option U128
  deriving DecidableEq, Repr, Inhabited

/-- `enums.OpenconfigAftTypesEncapsulationHeaderType_…` by wire number -/
def EncapType_IPV4 : Nat := 2
def EncapType_MPLS : Nat := 4
def EncapType_UDPV6 : Nat := 8

/-- the `entry` oneof of `spb.AFTOperation` / `spb.AFTEntry` as the builders fill it -/
inductive EntryB where
  | Ipv4 (Ipv4 : Option Ipv4KeyB)
  | Ipv6 (Ipv6 : Option Ipv6KeyB)
  | Mpls (Mpls : Option LabelKeyB)
  | NextHopGroup (NextHopGroup : Option NhgKeyB)
  | NextHop (NextHop : Option NhKeyB)
  deriving DecidableEq, Repr, Inhabited

/-- `spb.AFTOperation` as `OpProto` builds it (`Id` and `Op` are left to the caller) -/
structure AFTOperationB where
  NetworkInstance : String
  Entry : Option EntryB
  ElectionId : Option U128
  deriving DecidableEq, Repr, Inhabited

/-- `spb.AFTEntry` as `EntryProto` builds it -/
structure AFTEntryB where
  NetworkInstance : String
  Entry : Option EntryB
  deriving DecidableEq, Repr, Inhabited

/-- the `election` oneof of `spb.FlushRequest` -/
inductive FlushElec where
  | Id (Id : Option U128)
  | Override
  deriving DecidableEq, Repr, Inhabited

/-- `spb.FlushRequest` as the fluent Flush builder fills it -/
structure FlushRequestB where
  Election : Option FlushElec
  NetworkInstance : Option FlushNI
  deriving DecidableEq, Repr, Inhabited

/-- the builder structs themselves (`fluent.ipv4Entry`, …) as their constructors allocate them -/
structure Ipv4Builder where
  pb : Ipv4KeyB
  ni : String
  electionID : Option U128
  deriving DecidableEq, Repr, Inhabited

structure Ipv6Builder where
  pb : Ipv6KeyB
  ni : String
  electionID : Option U128
  deriving DecidableEq, Repr, Inhabited

structure LabelBuilder where
  ni : String
  pb : LabelKeyB
  electionID : Option U128
  deriving DecidableEq, Repr, Inhabited

structure NhgBuilder where
  ni : String
  pb : NhgKeyB
  electionID : Option U128
  deriving DecidableEq, Repr, Inhabited

/-- `fluent.gRIBIGet` / `fluent.gRIBIFlush`: the request under construction (the back pointer to the
client is not represented) -/
structure GetBuilder where
  pb : GetRequestG
  deriving DecidableEq, Repr, Inhabited

structure FlushBuilder where
  pb : FlushRequestB
  deriving DecidableEq, Repr, Inhabited

/-! the reconciler's operation builders (`v4Operation` …): what `rib.ConcreteXXXProto` returns is
opaque, the wrapper it is put in is not -/

structure ConvTok where
  Tag : Nat
  deriving DecidableEq, Repr, Inhabited

inductive ReconEntryX where
  | Ipv4 (Ipv4 : Option ConvTok)
  | Ipv6 (Ipv6 : Option ConvTok)
  | Mpls (Mpls : Option ConvTok)
  | NextHopGroup (NextHopGroup : Option ConvTok)
  | NextHop (NextHop : Option ConvTok)
  deriving DecidableEq, Repr, Inhabited

structure ReconOpX where
  Id : Nat
  NetworkInstance : String
  Op : Nat
  Entry : Option ReconEntryX
  deriving DecidableEq, Repr, Inhabited

/-- `fluent.opResult`: the `client.OpResult` under construction -/
structure OpResultBuilder where
  r : COpResult
  deriving DecidableEq, Repr, Inhabited

/-! the encapsulation-header builders (`fluent.MPLSEncapHeader()`, `fluent.UDPV6EncapHeader()`): each
works on an `aftpb.Afts_NextHop_EncapHeader` whose own sub-message its constructor allocates -/

structure MplsLabelU where
  MplsLabelStackUint64 : Nat
  deriving DecidableEq, Repr, Inhabited

structure EhMplsB where
  MplsLabelStack : List MplsLabelU
  deriving DecidableEq, Repr, Inhabited

structure EhUdpB where
  Dscp : Option UintValue
  DstIp : Option StringValue
  DstUdpPort : Option UintValue
  IpTtl : Option UintValue
  SrcIp : Option StringValue
  SrcUdpPort : Option UintValue
  deriving DecidableEq, Repr, Inhabited

/-- the header as the MPLS builder holds it -/
structure EhMplsHdrB where
  Type_ : Nat
  Mpls : EhMplsB
  deriving DecidableEq, Repr, Inhabited

/-- the header as the UDPv6 builder holds it -/
structure EhUdpHdrB where
  Type_ : Nat
  UdpV6 : EhUdpB
  deriving DecidableEq, Repr, Inhabited

structure MplsHdrBuilder where
  pb : EhMplsHdrB
  deriving DecidableEq, Repr, Inhabited

structure UdpHdrBuilder where
  pb : EhUdpHdrB
  deriving DecidableEq, Repr, Inhabited

/-- outcome of one iteration of the Modify receive loop: the RPC ends with this error (`none` =
clean end), or the loop goes on with the new first-message flag -/
inductive LoopOut where
  | term (err : Option Status) (effs : List Eff)
  | cont (gotmsg : Bool) (effs : List Eff)
  deriving DecidableEq, Repr, Inhabited

end Gribi.Gen
