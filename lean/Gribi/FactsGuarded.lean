/- regenerated-facts obligation; see FactsDefs.lean -/
import Gribi.FactsDefs
namespace Gribi.FactsOk
open Gribi.Facts

theorem facts_guarded : guarded = true := by decide
theorem facts_nonTrivial : nonTrivial = true := by decide
theorem facts_txSerialised : txSerialised = true := by decide
theorem facts_handlersAtomic : handlersAtomic = true := by decide
theorem facts_getHoldsLock : getHoldsLock = true := by decide

end Gribi.FactsOk
