/-
Correspondence driver for server-level traces: replays every event through `Server.step`,
compares responses, termination status and state snapshots, and evaluates the monitors of
C04, C05, C06, C07, C08, C09, C12 on the implementation's own observations.
Core Lean only.
-/
import Gribi.Drv.RibDrv
import Gribi.Model.Server
import Gribi.Drv.ChkDrv
import Gribi.Drv.FluentDrv
import Gribi.Drv.ClientDrv
import Gribi.Drv.FaultDrv
import Gribi.Drv.ReconDrv
namespace Gribi.Drv
open Gribi

/-- what the implementation's snapshot said about one session -/
structure ObsSess where
  c : Nat
  params : Params
  setParams : Bool
  last : Option U128
  deriving DecidableEq, Repr, Inhabited

structure SrvSt where
  rs : RibSt := {}
  /-- the server model; its `rib` field is kept in `rs.model` -/
  srv : Server := { rib := Rib.new "" }
  /-- implementation snapshots after the previous step -/
  implElec : Option U128 := none
  implMaster : Option Nat := none
  implSess : List ObsSess := []
  prevEnts : Map EKey Payload := []
  prevPend : List Nat := []
  /-- C05: maximum of the announcements accepted so far, and its last announcer -/
  annMax : Option U128 := none
  annMaster : Option Nat := none
  /-- the id each session announced last (accepted announcements), tracked by the driver itself -/
  annLast : Map Nat U128 := []
  /-- C06: per session, ids sent and results received -/
  sent : Map Nat (List Nat) := []
  got : Map Nat (List (Nat × AftStatus)) := []
  /-- ops answered in the message just processed that must not have changed anything (C04/C12) -/
  expectUnchanged : Option String := none
  /-- election line of the snapshot being read (closed by obs.sess) -/
  tmpElec : Option U128 := none
  tmpMaster : Option Nat := none
  flushedNIs : Option (List NI) := none
  fl : FlSt := {}
  cl : Cl.State := {}
  rc : RcSt := {}
  /-- C06: operations of the message just processed on a stream that stayed open, and the ids it answered -/
  lastOps : Option (Nat × List Nat × List Nat) := none
  /-- C09: sessions whose RPC has ended; a session that has just connected -/
  ended : List Nat := []
  justConnected : Option Nat := none
  deriving Inhabited

def codeNum : Code → Nat
  | .ok => 0 | .unknown => 2 | .invalidArgument => 3 | .failedPrecondition => 9
  | .unimplemented => 12 | .internal => 13

def reasonTok : Reason → String
  | .none => "-" | .unknown => "0" | .unsupportedParams => "1" | .modifyNotAllowed => "2"
  | .paramsDiffer => "3" | .elecInAllPrimary => "4"

def flushReasonTok : Server.FlushReason → String
  | .none => "-" | .notPrimary => "2" | .elecInAllPrimary => "3" | .unspecifiedElection => "4"
  | .invalidElec => "5" | .unspecifiedNI => "6" | .invalidNI => "7"

def showElec : Option U128 → String
  | none => "-"
  | some e => s!"{e.hi.toNat}:{e.lo.toNat}"

def showStatus : AftStatus → String
  | .failed => "failed" | .rib => "rib" | .fib => "fib"

def showResp : Resp → String
  | .paramsOk => "P 0"
  | .elec e => "E " ++ showElec e
  | .results l => "R [" ++ ",".intercalate (l.map (fun x => s!"{x.1}:{showStatus x.2}")) ++ "]"

def statusOf (t : Tok) : Option AftStatus :=
  let s := tokStr t
  if s = "failed" then some .failed else if s = "rib" then some .rib else if s = "fib" then some .fib else none

/-- `id:status` -/
def resultOf (t : Tok) : Option (Nat × AftStatus) :=
  match splitFirst ':' t with
  | some (a, b) => do
    let id ← natOf a
    let st ← statusOf b
    some (id, st)
  | none => none

/-- parse the groups after `=>` of a srv.msg / srv.close line: responses then the `T` group -/
def parseOutcome (gs : List (List Tok)) : Option (List Resp × String × String) :=
  match gs.reverse with
  | tg :: rrev =>
    match tg with
    | [t, code, reason] =>
      if tokStr t ≠ "T" then none else do
      let resps ← rrev.reverse.mapM (fun g => match g with
        | [p, _] => if tokStr p = "P" then some Resp.paramsOk
                    else if tokStr p = "E" then (elecOf (g.getD 1 [])).map Resp.elec
                    else if tokStr p = "R" then do
                      let l ← listOf (g.getD 1 [])
                      let rs ← l.mapM resultOf
                      some (Resp.results rs)
                    else none
        | _ => none)
      some (resps, tokStr code, tokStr reason)
    | _ => none
  | [] => none

def termTok (t : Option Term) : String × String :=
  match t with
  | none => ("open", "-")
  | some t => (toString (codeNum t.code), reasonTok t.reason)

namespace SrvSt

def diff (st : SrvSt) (what detail : String) : SrvSt := { st with rs := st.rs.diff what detail }
def monfail (st : SrvSt) (mon detail : String) : SrvSt := { st with rs := st.rs.monfail mon detail }
def covr (st : SrvSt) (k : String) : SrvSt := { st with rs := st.rs.covr k }
def emit (st : SrvSt) (s : String) : SrvSt := { st with rs := st.rs.emit s }

end SrvSt

/-- cascade script of one operation from the implementation's response to it -/
def scriptOf (op : Op) (resp : Option Resp) : List Rib.CEv :=
  match resp with
  | some (.results l) =>
    let oks := (l.filter (fun x => x.2 == AftStatus.rib)).map (·.1)
    let fails := (l.filter (fun x => x.2 == AftStatus.failed)).map (·.1)
    match oks with
    | first :: rest => if first = op.id then (fails.eraseDups.map .fail) ++ rest.map .ok else []
    | [] => []
  | _ => []

def niSelOf (t : Tok) : Option Server.NiSel :=
  let s := tokStr t
  if s = "all" then some .all else if s = "unset" then some .unset
  else match splitFirst ':' t with
    | some (k, v) => if tokStr k = "name" then (strOf v).map .name else none
    | none => none

def flushElecOf (t : Tok) : Option Server.FlushElec :=
  let s := tokStr t
  if s = "override" then some .override else if s = "unset" then some .unset
  else match splitFirst ':' t with
    | some (k, v) => if tokStr k = "id" then (match elecOf v with | some (some e) => some (.id e) | _ => none) else none
    | none => none

def getAftOf (n : Nat) : Server.GetAft :=
  match n with
  | 1 => .sel .all | 2 => .sel .v4 | 3 => .sel .v6 | 4 => .sel .mpls | 5 => .sel .nh | 6 => .sel .nhg
  | _ => .other

/-- C06 bookkeeping: record what was sent and what came back on session `c`, and complain
about duplicates, foreign ids and FIB-before-RIB -/
def c06Account (st : SrvSt) (c : Nat) (sentIds : List Nat) (resps : List Resp) (fibSession : Bool) : SrvSt :=
  let sentSoFar := (st.sent.get? c).getD [] ++ sentIds
  let st := { st with sent := st.sent.insert c sentSoFar }
  let results : List (Nat × AftStatus) := resps.flatMap (fun r => match r with | .results l => l | _ => [])
  results.foldl (fun (st : SrvSt) (x : Nat × AftStatus) =>
    let got : List (Nat × AftStatus) := (st.got.get? c).getD []
    let (id, status) := x
    let st := if sentSoFar.contains id then st
      else
        -- the one explained shape (known finding D5): the id was sent on another stream, was
        -- held when this message arrived, and is now acknowledged on the stream that resolved it
        let sentElsewhere := st.sent.any (fun e => e.1 != c && e.2.contains id)
        if sentElsewhere && st.prevPend.contains id then
          st.monfail "c06" s!"foreign-result/held-at-handover: stream {c} carries the result of held operation {id} that another session sent"
        else st.monfail "c06" s!"foreign-result/unexplained: stream {c} carries a result for id {id} that was not sent on it"
    let terminalBefore := got.any (fun g => g.1 == id && (g.2 == .failed || g.2 == .rib))
    let st := match status with
      | .failed => if terminalBefore then st.monfail "c06" s!"second verdict for id {id} on stream {c} (FAILED after a verdict)" else st
      | .rib => if terminalBefore then st.monfail "c06" s!"second verdict for id {id} on stream {c} (RIB_PROGRAMMED after a verdict)" else st
      | .fib =>
        let st := if got.any (fun g => g.1 == id && g.2 == AftStatus.rib) then st
          else st.monfail "c06" s!"FIB_PROGRAMMED for id {id} on stream {c} without a preceding RIB_PROGRAMMED"
        let st := if got.any (fun g => g.1 == id && g.2 == AftStatus.fib) then st.monfail "c06" s!"second FIB_PROGRAMMED for id {id} on stream {c}" else st
        if fibSession then st else st.monfail "c06" s!"FIB_PROGRAMMED on stream {c} which negotiated RIB_ACK"
    { st with got := st.got.insert c (got ++ [(id, status)]) }) st

/-- the implementation's own view of session `c` at the previous snapshot -/
def implSessOf (st : SrvSt) (c : Nat) : Option ObsSess := st.implSess.find? (fun s => s.c == c)

def handleSrvMsg (st : SrvSt) (c : Nat) (m : Msg) (ops : List Op) (resps : List Resp) (code reason : String) : SrvSt :=
  let st := { st with prevEnts := st.rs.implEnts, prevPend := st.rs.implPend }
  -- remember submitted ops (for the RIB-level monitors)
  let rs := ops.foldl (fun rs op => { rs with ops := rs.ops.insert op.id op, adds := if op.ty == OpType.delete then rs.adds else rs.adds.insert op.id op }) st.rs
  let st := { st with rs := rs }
  let isess := implSessOf st c
  let fibSession := (isess.map (fun (s : ObsSess) => s.params.fibAck)).getD false
  -- C06 accounting on the implementation's stream
  let st := c06Account st c (ops.map (·.id)) resps fibSession
  -- C06: what has to be answered by the time the server is quiet again (checked at the snapshot)
  let msgResults : List (Nat × AftStatus) := resps.flatMap (fun r => match r with | .results l => l | _ => [])
  let isOps := match m with | .ops _ => true | _ => false
  let st := if isOps && code = "open" then { st with lastOps := some (c, ops.map (·.id), msgResults.map (·.1)) } else st
  -- C06 monitor: with FIB acknowledgement negotiated every RIB_PROGRAMMED of this session's own
  -- operations comes with its FIB_PROGRAMMED
  let st := if fibSession then
      match msgResults.find? (fun x => x.2 == AftStatus.rib && ((st.sent.get? c).getD []).contains x.1 &&
          !msgResults.any (fun y => y.1 == x.1 && y.2 == AftStatus.fib)) with
      | some x => st.monfail "c06" s!"fib-missing: operation {x.1} on stream {c}, which negotiated FIB acknowledgement, got RIB_PROGRAMMED without FIB_PROGRAMMED"
      | none => st
    else st
  let st := if code != "open" then { st with ended := c :: st.ended } else st
  -- C01/C02/C03 monitors need the acknowledgement fold
  let allResults : List (Nat × AftStatus) := resps.flatMap (fun r => match r with | .results l => l | _ => [])
  let acked := allResults.filter (fun x => x.2 == AftStatus.rib)
  let st := { st with rs := ackFold st.rs (acked.map (·.1)) }
  -- C05 monitor: election responses carry the running maximum of the accepted announcements
  let st := match m with
    | .elec e =>
      let accepted := code = "open"
      if accepted then
        let newMax := match st.annMax with
          | none => true
          | some mx => U128.le mx e
        let st := if newMax then { st with annMax := some e, annMaster := some c } else st
        let st := { st with annLast := st.annLast.insert c e }
        match resps with
        | [.elec cur] =>
          if cur = st.annMax then st
          else st.monfail "c05" s!"election response carries {showElec cur} but the maximum announced so far is {showElec st.annMax}"
        | _ => st.monfail "c05" "an accepted announcement was not answered with exactly one election response"
      else st
    | _ => st
  -- C04/C12 monitor: operations that the gate must reject, judged on the implementation's
  -- own snapshot, must be answered FAILED or end the RPC, and must change nothing
  let snap : Server.ElecSnap := { master := st.implMaster, cur := st.implElec, clientLatest := isess.bind (fun (s : ObsSess) => s.last) }
  let sessOk := (isess.map (fun (s : ObsSess) => s.params.expectElec && s.params.persist)).getD false
  let st := match m with
    | .ops l =>
      let allRejected := l.all (fun e => !sessOk || Server.gate c e.1.elec snap != Server.Gate.proceed)
      let anyAccepted := acked.length > 0
      let st := if allRejected && anyAccepted
        then st.monfail "c04" s!"operation acknowledged although session {c} is not the primary with a matching election id"
        else st
      -- "the highest id the server has learnt" judged independently of the server's own register
      let st := if l.any (fun e => acked.any (fun a => a.1 == e.1.id) && (e.1.elec != st.annMax || st.annMaster != some c))
        then st.monfail "c04" s!"operation of session {c} acknowledged although its election id is not the highest announced ({showElec st.annMax}) or the session is not its last announcer"
        else st
      -- "the id that session last announced", again judged on the driver's own record
      let st := match l.find? (fun e => acked.any (fun a => a.1 == e.1.id) && e.1.elec != st.annLast.get? c) with
        | some e => st.monfail "c04" s!"operation {e.1.id} of session {c} acknowledged although its election id {showElec e.1.elec} is not the id that session last announced ({showElec (st.annLast.get? c)})"
        | none => st
      -- the converse: the session that last announced the highest id, stamping that id, is the
      -- primary — its operations pass the election gate. Judged on an operation that cannot fail
      -- for any other reason: a well-formed ADD of a next-hop in an instance the server has
      -- (nothing to resolve, nothing to replace illegally)
      let failedIds := (allResults.filter (fun x => x.2 == AftStatus.failed)).map (·.1)
      let st := match l.find? (fun e => sessOk && st.annMaster == some c && e.1.elec.isSome && e.1.elec == st.annMax &&
            e.1.elec == st.annLast.get? c && e.1.cls == Cls.wf && e.1.ty == OpType.add && st.rs.model.nis.contains e.1.ni &&
            (match e.1.key with | .nh i => i != 0 | _ => false) && failedIds.contains e.1.id) with
        | some e => st.monfail "c04" s!"operation {e.1.id} of session {c} — the last announcer of the highest id {showElec st.annMax}, stamped with it; a well-formed ADD of a next-hop — was answered FAILED: the primary is locked out"
        | none => st
      let malformedOnly := l.all (fun e => e.1.cls != Cls.wf || e.1.ty == OpType.invalid || e.1.ni == "")
      let st := if malformedOnly && l.any (fun e => acked.any (fun a => a.1 == e.1.id))
        then st.monfail "c12" "a malformed operation was acknowledged as programmed" else st
      -- … and each operation on its own: one that can never be valid (zero index, empty group, …),
      -- or that names a network instance for its group that does not exist, is never acknowledged
      -- (a server created without the RIB's check function does not judge references — zero
      -- indices, empty groups, unknown group instances are the check function's business — but an
      -- entry or key that is not even well formed is refused there too)
      let st :=
        match l.find? (fun e => (e.1.cls != Cls.wf || e.1.ty == OpType.invalid || e.1.ni == "" ||
            (!st.rs.nocheck && e.1.ty != OpType.delete && (structBad e.1 || unknownGrpNI st.rs e.1))) &&
          acked.any (fun a => a.1 == e.1.id)) with
        | some e => st.monfail "c12" s!"malformed operation {e.1.id} ({showKey e.1.key} in {e.1.ni}) was acknowledged as programmed"
        | none => st
      if allRejected then { st with expectUnchanged := some "c04" }
      else if malformedOnly then { st with expectUnchanged := some "c12" }
      else st
    | .multi | .empty => { st with expectUnchanged := some "c09" }
    | .params _ _ _ => { st with expectUnchanged := some "c09" }
    | .elec e => if e.isZero then { st with expectUnchanged := some "c09" } else st
  -- protocol violations must end the RPC with a non-OK status (C09)
  let st := match m with
    | .multi | .empty => if code = "open" || code = "0" then st.monfail "c09" s!"a malformed ModifyRequest did not end the RPC with an error (code {code})" else st
    | .elec e => if e.isZero && (code = "open" || code = "0") then st.monfail "c09" "a zero election id was accepted" else st
    | .params red pers _ =>
      let supported := red == 1 && pers == 1
      let first := (isess.map (fun (s : ObsSess) => !s.setParams)).getD true
      if (!supported || !first) && code = "open" && resps.contains .paramsOk
      then st.monfail "c09" s!"session parameters ({red},{pers}) accepted although unsupported or repeated" else st
    | _ => st
  if st.rs.diverged then st else
  -- the model: attach the cascade scripts the implementation's responses imply
  let m' : Msg := match m with
    | .ops l =>
      -- responses are one per operation, in order
      let rec zip (l : List (Op × List Rib.CEv)) (rs : List Resp) : List (Op × List Rib.CEv) :=
        match l, rs with
        | (op, _) :: lt, r :: rt => (op, scriptOf op (some r)) :: zip lt rt
        | (op, _) :: lt, [] => (op, []) :: zip lt []
        | [], _ => []
      .ops (zip l resps)
    | other => other
  let st := match m' with
    | .ops l => if l.any (fun e => e.2.length > 0) then st.covr "add.cascade" else st
    | _ => st
  let srv := { st.srv with rib := st.rs.model }
  match srv.recv c m' with
  | none => st.diff "msg.not-accepted" s!"session={c} (unknown session or cascade not accepted) impl={resps.map showResp} T {code} {reason}"
  | some (srv', out) =>
    let st := { st with srv := srv', rs := { st.rs with model := srv'.rib, lastHooks := out.ribOuts.flatMap (fun (o : Rib.Out) => o.hooks) } }
    let (mc, mr) := termTok out.term
    -- C09 monitor: a protocol violation ends the RPC with the status the specification assigns
    -- (the table is C09.c09_codes; operations and announcements that the specification accepts are not judged here)
    let violation := match m with
      | .multi | .empty => true
      | .params _ _ _ => out.term.isSome
      | .elec _ => out.term.isSome
      -- operations that the specification answers by ending the RPC (no election id on a
      -- SINGLE_PRIMARY session, an election id on an ALL_PRIMARY one, operations before the
      -- session parameters were accepted, …): the table is C09.c09_codes
      | .ops _ => out.term.isSome
    let st := if violation && (mc ≠ code || mr ≠ reason)
      then st.monfail "c09" s!"session {c}: the specification assigns status code {mc} reason {mr} to this violation, the server answered code {code} reason {reason}" else st
    -- C09 / C10 monitor: a message the specification accepts does not end the RPC — in particular
    -- not because of what a session that has gone away left behind
    let st := if mc == "open" && code != "open" then
        let st := st.monfail "c09" s!"session {c}: the specification accepts this message, the server ended the RPC (code {code} reason {reason})"
        -- an election announcement that is refused is an id the server never learns: if it is
        -- the highest, its announcer is not primary and no response carries the maximum (C05)
        let st := match m with
          | .elec e => st.monfail "c05" s!"session {c} announced election id {showElec (some e)}, which the specification accepts, and the server ended the RPC (code {code}): the id is not learnt"
          | _ => st
        let gone := st.ended.filter (fun x => x != c)
        if gone.isEmpty then st
        else st.monfail "c10" s!"session {c}: after sessions {gone} had gone away, a message the specification accepts ended this session's RPC (code {code})"
      else st
    if out.resps ≠ resps then
      st.diff "msg.resps" s!"session={c} model={out.resps.map showResp} impl={resps.map showResp}"
    else if mc ≠ code then st.diff "msg.term.code" s!"session={c} model={mc} impl={code}"
    else if mr ≠ reason then st.diff "msg.term.reason" s!"session={c} model={mr} impl={reason} code={code}"
    else st

def handleSrvClose (st : SrvSt) (c : Nat) (resps : List Resp) (code : String) : SrvSt :=
  let st := { st with prevEnts := st.rs.implEnts, prevPend := st.rs.implPend, expectUnchanged := some "c10", ended := c :: st.ended }
  let st := if resps ≠ [] then st.monfail "c10" "responses were sent while the client was going away" else st
  if st.rs.diverged then st else
  let st := { st with srv := st.srv.close c }
  st.covr ("close." ++ code)

/-- a batch cut part-way: the transport accepted `j` responses and then failed. The code as it
exists programs the operations whose results it managed to hand over plus the one it had in
hand: the first `j + 2` of the batch; the session is removed. -/
def handleSrvCutMid (st : SrvSt) (c : Nat) (j : Nat) (ops : List Op) (resps : List Resp) (code : String) : SrvSt :=
  let st := { st with prevEnts := st.rs.implEnts, prevPend := st.rs.implPend }
  let rs := ops.foldl (fun rs op => { rs with ops := rs.ops.insert op.id op, adds := if op.ty == OpType.delete then rs.adds else rs.adds.insert op.id op }) st.rs
  let st := { st with rs := rs }
  let fibSession := ((implSessOf st c).map (fun (s : ObsSess) => s.params.fibAck)).getD false
  let st := c06Account st c (ops.map (·.id)) resps fibSession
  let st := if resps.length ≤ j then st else st.monfail "c10" s!"{resps.length} responses reached a client whose transport accepted only {j}"
  let st := if code = "open" then st.monfail "c10" "the RPC stayed open after the client had gone away" else st
  if st.rs.diverged then st else
  let applied := ops.take (j + 2)
  let srv := { st.srv with rib := st.rs.model }
  match srv.recv c (.ops (applied.map (fun o => (o, [])))) with
  | none => st.diff "cut.not-accepted" s!"session={c}"
  | some (srv', out) =>
    -- the acknowledgements that were lost in transit still count for the contents (C01 fold)
    let programmed : List Nat := out.resps.flatMap (fun r => match r with
      | .results l => (l.filter (fun x => x.2 == AftStatus.rib)).map (·.1)
      | _ => [])
    let st := { st with rs := ackFold st.rs programmed }
    let srv' := srv'.close c
    let st := { st with srv := srv', rs := { st.rs with model := srv'.rib, lastHooks := out.ribOuts.flatMap (fun (o : Rib.Out) => o.hooks) } }
    let st := st.covr "cutmid"
    if resps == out.resps.take resps.length then st
    else st.diff "cut.resps" s!"session={c} model={(out.resps.take resps.length).map showResp} impl={resps.map showResp}"

def handleSrvFlush (st : SrvSt) (ni : Server.NiSel) (el : Server.FlushElec) (code reason result : String) : SrvSt :=
  let st := { st with prevEnts := st.rs.implEnts, prevPend := st.rs.implPend }
  -- C08 monitor on the implementation's own election snapshot
  let verdict := Server.checkFlush st.implElec ni el
  let knownNis := st.rs.model.nis
  let target : Option (List NI) := match ni with
    | .all => some knownNis
    | .name n => if knownNis.contains n then some [n] else none
    | .unset => none
  -- … and on the driver's own record of the announcements ("the highest id the server has
  -- learnt" does not go down when a session announces a lower one): a Flush that this record
  -- rejects is not answered OK
  let st := if code = "0" && target.isSome && (Server.checkFlush st.annMax ni el).isSome
    then (st.monfail "c08" s!"a Flush was answered OK although its election choice does not pass against the highest id announced so far ({showElec st.annMax})").monfail "c04"
      "a Flush that the election gate had to reject (its id is below the highest announced) was answered OK"
    else st
  let st := match verdict, target with
    | none, some nis =>
      let st := if code = "0" && result = "1" then st
        else st.monfail "c08" s!"an authorised flush was answered code={code} result={result}"
      let rs := { st.rs with spec := Spec.applyAck st.rs.spec (.flushed nis) }
      let rs := if nis.all (fun n => knownNis.contains n) && knownNis.all (fun n => nis.contains n) then rs
                else { rs with partialFlush := true }
      { st with rs := rs, flushedNIs := some nis }
    | _, _ =>
      let st := if code = "0" then st.monfail "c08" "a flush that must be rejected was answered OK" else st
      -- (an unauthorised flush that goes through changes the RIB on behalf of a request the
      -- election gate had to stop: C04's concern as well, when the election is what it fails)
      let st := if code = "0" && target.isSome && verdict.isSome
        then st.monfail "c04" "a Flush that the election gate had to reject (stale or missing id) was answered OK" else st
      -- C12 monitor: a Flush naming no instance, the empty name or an unknown instance is malformed
      let st := if code = "0" && target.isNone
        then st.monfail "c12" "a malformed Flush request (no, empty or unknown network instance) was answered OK" else st
      { st with expectUnchanged := some (if target.isNone then "c08+c12" else "c08") }
  let st := st.covr (if code = "0" then "flush.ok" else "flush.rejected")
  if st.rs.diverged then st else
  let srv := { st.srv with rib := st.rs.model }
  let (srv', res, hk) := srv.flush ni el
  let st := { st with srv := srv', rs := { st.rs with model := srv'.rib, lastHooks := hk } }
  let mcode := toString (codeNum res.code)
  if mcode ≠ code then st.diff "flush.code" s!"model={mcode} impl={code}"
  else if flushReasonTok res.reason ≠ reason then st.diff "flush.reason" s!"model={flushReasonTok res.reason} impl={reason}"
  else st

def handleSrvGet (st : SrvSt) (ni : Server.NiSel) (aft : Nat) (failAfter : Nat) (complete : Bool)
    (code : String) (ents : List (EKey × Payload)) : SrvSt :=
  let st := { st with prevEnts := st.rs.implEnts, prevPend := st.rs.implPend, expectUnchanged := some "c10" }
  let _ := failAfter
  let gaft := getAftOf aft
  -- C07 monitor: the stream is exactly the installed entries of the scope (implementation's own contents)
  let scope : Option (List (EKey × Payload)) := match gaft with
    | .other => none
    | .sel a => match ni with
      | .unset => some []
      | .all => some (st.rs.implEnts.filter (fun e => a.matches e.1.2))
      | .name n => if n = "" || !(st.rs.model.nis.contains n) then none
                   else some (st.rs.implEnts.filter (fun e => e.1.1 == n && a.matches e.1.2))
  -- payload fidelity: what was last acknowledged for each key (fold of the acknowledgements)
  let lastProg : Option (List (EKey × Payload)) := match gaft with
    | .other => none
    | .sel a => match ni with
      | .unset => some []
      | .all => some (st.rs.spec.filter (fun e => a.matches e.1.2))
      | .name n => if n = "" || !(st.rs.model.nis.contains n) then none
                   else some (st.rs.spec.filter (fun e => e.1.1 == n && a.matches e.1.2))
  let st := if !complete then st else match scope with
    | none =>
      if code = "0" then (st.monfail "c07" "an invalid Get request was answered OK").monfail "c12" "a malformed Get request (empty or unknown network instance, unsupported table) was answered OK" else st
    | some want =>
      if code ≠ "0" then st.monfail "c07" s!"a valid Get was answered with code {code}"
      else if !(permEq (want.map (·.1)) (ents.map (·.1))) then
        st.monfail "c07" s!"Get returned {ents.length} entries, the scope holds {want.length} (or other keys)"
      else match lastProg with
        | some lp =>
          if mapEq lp ents then st
          else st.monfail "c07" "a Get payload differs from what was last programmed for that key"
        | none => st
  let st := st.covr (if code = "0" then "get.ok" else "get.err")
  if st.rs.diverged || !complete then st else
  let srv := { st.srv with rib := st.rs.model }
  match srv.get ni gaft with
  | none => if code = "0" then st.diff "get" "model=error impl=ok" else st
  | some l =>
    if code ≠ "0" then st.diff "get" s!"model=ok impl={code}"
    else if mapEq l ents && l.length == ents.length then st
    else st.diff "get.entries" s!"model={l.length} impl={ents.length}"

/-- after the observation lines of a step: judge "nothing changed" expectations and flush effects -/
def afterObs (st : SrvSt) (elec : Option U128) (master : Option Nat) (sess : List ObsSess) : SrvSt :=
  let st := match st.expectUnchanged with
    | none => st
    | some mons =>
      (mons.splitOn "+").foldl (fun st mon =>
      let st := if mapEq st.prevEnts st.rs.implEnts then st
        else st.monfail mon "installed entries changed although the request had to be rejected (or was a disconnect)"
      let st := if permEq st.prevPend st.rs.implPend then st
        else st.monfail mon "held operations changed although the request had to be rejected (or was a disconnect)"
      let st := if elec = st.implElec then st
        else st.monfail mon s!"election id changed from {showElec st.implElec} to {showElec elec} although the request had to be rejected (or was a disconnect)"
      if master = st.implMaster then st
      else st.monfail mon s!"the primary changed from session {st.implMaster} to {master} although the request had to be rejected (or was a disconnect)") st
  let st := match st.flushedNIs with
    | none => st
    | some nis =>
      let st := if st.rs.implEnts.all (fun e => !(nis.contains e.1.1)) then st
        else st.monfail "c08" "a flushed network instance still has entries"
      let keep : Map EKey Payload := st.prevEnts.filter (fun (e : EKey × Payload) => !(nis.contains e.1.1))
      let st := if mapEq keep st.rs.implEnts then st else st.monfail "c08" "a flush changed entries of a network instance it did not name"
      -- C06 (and C02): a Flush answers no operation; one that was held before it is held after it —
      -- gone from the pending queue it can never be answered
      match st.prevPend.find? (fun id => !st.rs.implPend.contains id) with
      | some id => (st.monfail "c06" s!"unanswered: operation {id} was held, a Flush removed it from the pending queue, and it never received a result").monfail "c02"
          s!"held operation {id} vanished at a flush: it was never answered and can no longer become resolvable"
      | none => st
  -- C05 monitor on the snapshot: the reported id is the running maximum, the primary its last announcer
  let st := if elec = st.annMax then st
    else st.monfail "c05" s!"server election id is {showElec elec} but the maximum announced is {showElec st.annMax}"
  let st := match master, st.annMaster with
    | some m, some a => if m = a then st else st.monfail "c05" s!"primary is session {m} but the last announcer of the maximum is session {a}"
    | none, none => st
    | _, _ => st.monfail "c05" "primary / announcer mismatch"
  -- C06 monitor: on a stream that stayed open every operation of the message is answered with a
  -- verdict or is held now
  let st := match st.lastOps with
    | some (c, ids, answered) =>
      let st := match ids.find? (fun id => !answered.contains id && !st.rs.implPend.contains id) with
        | some id => st.monfail "c06" s!"unanswered: operation {id} sent on stream {c} received no result and is not held"
        | none => st
      -- … and an operation that was held before this message and is no longer held has been
      -- answered by it (released from the pending queue = verdict delivered)
      match st.prevPend.find? (fun id => !st.rs.implPend.contains id && !answered.contains id) with
      | some id => st.monfail "c06" s!"unanswered: operation {id} was held, has left the pending queue with the message just processed on stream {c}, and received no result"
      | none => st
    | none => st
  -- C09 monitors: the footprint of a session whose RPC ended is gone; a session that has just
  -- connected has negotiated nothing yet
  let st := match sess.find? (fun (o : ObsSess) => st.ended.contains o.c) with
    | some o => (st.monfail "c09" s!"session {o.c} is still known to the server after its RPC ended").monfail "c10" s!"session {o.c} is still known to the server after its client went away and its RPC ended (later sessions are checked against its parameters)"
    | none => st
  let st := match st.justConnected with
    | some n =>
      match sess.find? (fun (o : ObsSess) => o.c == n) with
      | some o => if o.setParams || o.last.isSome || o.params.persist || o.params.expectElec || o.params.fibAck
          then st.monfail "c09" s!"session {n} has just connected but already carries negotiated parameters or an election id (taken from another session)" else st
      | none => st
    | none => st
  let st := { st with implElec := elec, implMaster := master, implSess := sess, expectUnchanged := none, flushedNIs := none, lastOps := none, justConnected := none }
  if st.rs.diverged then st else
  let st := if st.srv.curElec = elec then st
    else st.diff "elec" s!"model={showElec st.srv.curElec} impl={showElec elec}"
  let st := if st.srv.curMaster = master then st
    else st.diff "master" s!"model={repr st.srv.curMaster} impl={repr master}"
  -- sessions: same set, same parameters, same last ids
  let okSess := st.srv.sess.length == sess.length && sess.all (fun o =>
    match st.srv.sess.get? o.c with
    | some ms => ms.params == o.params && ms.setParams == o.setParams && ms.lastElec == o.last
    | none => false)
  if okSess then st else st.diff "sess" s!"model={st.srv.sess.map (fun (e : Nat × Sess) => (e.1, e.2.params.fibAck, e.2.setParams, showElec e.2.lastElec))} impl={sess.map (fun (o : ObsSess) => (o.c, o.params.fibAck, o.setParams, showElec o.last))}"

def parseSess (t : Tok) : Option (List ObsSess) := do
  let l ← listOf t
  l.mapM (fun x => match splitOnChar ':' x with
    | c :: flags :: rest =>
      match flags with
      | [p, e, f, s] => do
        let c ← natOf c
        let p ← boolOf [p]
        let e ← boolOf [e]
        let f ← boolOf [f]
        let s ← boolOf [s]
        let last ← elecOf (List.intercalate [':'] rest)
        some { c := c, params := { persist := p, expectElec := e, fibAck := f }, setParams := s, last := last }
      | _ => none
    | _ => none)

/-- parse `ops n ; op ; op …` given the groups split at `;` -/
def parseOps (ts : List Tok) : Option (List Op) :=
  let rec groupsSemi (ts : List Tok) (cur : List Tok) (acc : List (List Tok)) : List (List Tok) :=
    match ts with
    | [] => (cur.reverse :: acc).reverse
    | t :: rest => if t = [';'] then groupsSemi rest [] (cur.reverse :: acc) else groupsSemi rest (t :: cur) acc
  match groupsSemi ts [] [] with
  | _ :: opGroups => opGroups.mapM (fun g => (opOf g).map (·.1))
  | [] => none

def srvLine (st : SrvSt) (ts : List Tok) : SrvSt :=
  match ts with
  | [] => st
  | cmd :: args =>
    let c := tokStr cmd
    let bump (st : SrvSt) : SrvSt := { st with rs := { st.rs with line := st.rs.line + 1 } }
    let bad (st : SrvSt) : SrvSt := st.emit s!"PARSE-ERROR trace={st.rs.name} line={st.rs.line} cmd={c}"
    if c = "begin" then
      { (default : SrvSt) with rs := ribLine st.rs ts }
    else if c = "srv.new" then
      let st := bump st
      match args with
      | [d, f, h, v] =>
        match strOf d, strListOf v with
        | some d, some vrfs =>
          let srv := Server.new d vrfs (tokStr f == "fwd=1") (tokStr h == "hook=1")
          { st with srv := srv, rs := { st.rs with model := srv.rib, hookFold := if tokStr h == "hook=1" then some [] else none } }
        | _, _ => bad st
      | [d, f, h, v, c] =>
        match strOf d, strListOf v with
        | some d, some vrfs =>
          let srv := Server.new d vrfs (tokStr f == "fwd=1") (tokStr h == "hook=1")
          let st := { st with srv := srv, rs := { st.rs with model := srv.rib, hookFold := if tokStr h == "hook=1" then some [] else none } }
          -- a server without the RIB's check function: not a configuration the model describes
          if tokStr c == "check=0" then
            { st with rs := ({ st.rs with nocheck := true, diverged := true, partialFlush := true }).covr "srv.nocheck" }
          else st
        | _, _ => bad st
      | _ => bad st
    else if c = "srv.inject" then
      -- the server was seeded with an election id before any session existed: the highest id it
      -- has learnt, with nobody primary
      let st := bump st
      match args with
      | [e] =>
        match elecOf e with
        | some (some id) => { st with srv := { st.srv with curElec := some id, curMaster := none }, annMax := some id, annMaster := none }.covr "srv.inject"
        | _ => bad st
      | _ => bad st
    else if c = "srv.addni" then
      -- Server.AddNetworkInstance on the running server: a RIB step (`Rib.addNI`), nothing else
      let st := bump st
      match beforeArrow args, afterArrow args with
      | [n], [ok] =>
        match strOf n with
        | some n =>
          let st := { st with prevEnts := st.rs.implEnts, prevPend := st.rs.implPend }
          let (m', fresh) := st.rs.model.addNI n
          let st := { st with rs := { st.rs with model := m' }, srv := { st.srv with rib := m' } }.covr "addni"
          if st.rs.diverged || fresh == (tokStr ok == "1") then st
          else st.diff "addni" s!"model={fresh} impl={tokStr ok}"
        | none => bad st
      | _, _ => bad st
    else if c = "srv.connect" then
      let st := bump st
      match args with
      | [n] => match natOf n with
        | some n => { st with srv := st.srv.connect n, prevEnts := st.rs.implEnts, prevPend := st.rs.implPend, justConnected := some n }.covr "connect"
        | none => bad st
      | _ => bad st
    else if c = "srv.msg" then
      let st := bump st
      match beforeArrow args, parseOutcome (groups (afterArrow args)) with
      | sc :: kind :: rest, some (resps, code, reason) =>
        match natOf sc with
        | none => bad st
        | some sc =>
          let k := tokStr kind
          let st := st.covr ("msg." ++ k ++ "." ++ code)
          if k = "params" then
            match rest with
            | [a, b, d] => match natOf a, natOf b, natOf d with
              | some a, some b, some d => handleSrvMsg st sc (.params a b d) [] resps code reason
              | _, _, _ => bad st
            | _ => bad st
          else if k = "elec" then
            match rest with
            | [e] => match elecOf e with
              | some (some e) => handleSrvMsg st sc (.elec e) [] resps code reason
              | _ => bad st
            | _ => bad st
          else if k = "ops" then
            match parseOps rest with
            | some ops => handleSrvMsg st sc (.ops (ops.map (fun o => (o, [])))) ops resps code reason
            | none => bad st
          else if k = "multi" then handleSrvMsg st sc .multi [] resps code reason
          else if k = "empty" then handleSrvMsg st sc .empty [] resps code reason
          else bad st
      | _, _ => bad st
    else if c = "srv.rebuild" then
      let st := bump st
      match args with
      | [ok, msg] =>
        if tokStr ok == "1" then st.covr "rebuild.ok"
        else st.monfail "c07" s!"a RIB rebuilt from the responses of a complete Get(all, ALL) does not reproduce the source RIB: {(strOf msg).getD ""}"
      | _ => bad st
    else if c = "srv.cutmid" then
      let st := bump st
      match beforeArrow args, parseOutcome (groups (afterArrow args)) with
      | sc :: j :: _mode :: rest, some (resps, code, _) =>
        match natOf sc, natOf j, parseOps rest with
        | some sc, some j, some ops => handleSrvCutMid st sc j ops resps code
        | _, _, _ => bad st
      | _, _ => bad st
    else if c = "srv.close" then
      let st := bump st
      match beforeArrow args, parseOutcome (groups (afterArrow args)) with
      | [sc, _], some (resps, code, _) =>
        match natOf sc with
        | some sc => handleSrvClose st sc resps code
        | none => bad st
      | _, _ => bad st
    else if c = "srv.flush" then
      let st := bump st
      match beforeArrow args, afterArrow args with
      | [n, e], [code, reason, result] =>
        match niSelOf n, flushElecOf e with
        | some n, some e => handleSrvFlush st n e (tokStr code) (tokStr reason) (tokStr result)
        | _, _ => bad st
      | _, _ => bad st
    else if c = "srv.get" then
      let st := bump st
      match beforeArrow args, groups (afterArrow args) with
      | [n, aft, fa], hd :: ents =>
        match niSelOf n, natOf aft, hd, parseEnts ents with
        | some n, some aft, [code, _], some ents =>
          let complete := tokStr fa == "-1"
          handleSrvGet st n aft 0 complete (tokStr code) ents
        | _, _, _, _ => bad st
      | _, _ => bad st
    else if c = "obs.elec" then
      let st := bump st
      match args with
      | [e, m] =>
        match elecOf e with
        | some e => { st with tmpElec := e, tmpMaster := natOf m }
        | none => bad st
      | _ => bad st
    else if c = "obs.sess" then
      let st := bump st
      match args with
      | [l] =>
        match parseSess l with
        | some sess => afterObs st st.tmpElec st.tmpMaster sess
        | none => bad st
      | _ => bad st
    else if c = "conc.result" then
      let st := bump st
      -- concurrent run: the harness judged the quiescent election state; RIB closure is not
      -- expected when a Flush may have overlapped a Modify
      let flushed := match args with
        | [_, _, f] => tokStr f != "0"
        | _ => true
      let st := { st with rs := { st.rs with partialFlush := flushed, diverged := true, blind := true } }
      match args with
      | okTok :: msg :: _ =>
        if tokStr okTok == "1" then st.covr "conc.ok"
        else
          let m := (strOf msg).getD ""
          let mon := if (m.splitOn "election id at quiescence").length > 1 || (m.splitOn "primary at quiescence").length > 1 || (m.splitOn "was told").length > 1 then "c05" else "c11"
          let st := if (m.splitOn "not a state the table ever had").length > 1 then st.monfail "c07" m else st
          let st := if (m.splitOn "without answering").length > 1 then st.monfail "c06" ("unanswered: " ++ m) else st
          (st.monfail mon m).monfail "c11" m
      | _ => bad st
    else if c = "hang" then
      let st := bump st
      -- a request that is never answered violates every property that promises answers: C10 (after a
      -- disconnect), C11 (under concurrency), C12 (after a malformed operation)
      let m := "the server did not answer within the watchdog (hang)"
      (((st.monfail "c10" m).monfail "c12" m).monfail "c11" m).diff "hang" "the implementation hung"
    else if c = "cf.obs" then { st with rs := faultLine st.rs ts }
    else if c = "cf.open" then { st with rs := openLine st.rs ts }
    else if c.startsWith "cp." then { st with rs := complianceLine st.rs ts }
    else if c.startsWith "rc." then
      let (rs, rc) := reconLine st.rs st.rc ts
      { st with rs := rs, rc := rc }
    else if c.startsWith "chk." then { st with rs := chkLine st.rs ts }
    else if c.startsWith "cl." || c = "obs.cl" then
      let (rs, cl) := clientLine st.rs st.cl ts
      { st with rs := rs, cl := cl }
    else if c.startsWith "fl." then
      let (rs, fl) := fluentLine st.rs st.fl ts
      { st with rs := rs, fl := fl }
    else
      -- RIB-level observation lines and everything else
      { st with rs := ribLine st.rs ts }

end Gribi.Drv
