/-
Line-protocol parsing for the correspondence driver. Works on `List Char` to stay
independent of `String` API details. Core Lean only.
-/
import Gribi.Model.Rib
namespace Gribi.Drv

abbrev Tok := List Char

def splitOnChar (c : Char) (l : List Char) : List (List Char) :=
  let rec go (l : List Char) (cur : List Char) (acc : List (List Char)) : List (List Char) :=
    match l with
    | [] => (cur.reverse :: acc).reverse
    | x :: xs => if x = c then go xs [] (cur.reverse :: acc) else go xs (x :: cur) acc
  go l [] []

def tokens (s : String) : List Tok :=
  (splitOnChar ' ' (s.toList.filter (fun c => c ≠ '\n' ∧ c ≠ '\r'))).filter (· ≠ [])

def tokStr (t : Tok) : String := String.ofList t

def natOf (t : Tok) : Option Nat :=
  if t = [] then none
  else t.foldl (fun acc c => match acc with
    | none => none
    | some n => if c.isDigit then some (n * 10 + (c.toNat - '0'.toNat)) else none) (some 0)

def hexVal (c : Char) : Nat :=
  if c.isDigit then c.toNat - '0'.toNat
  else if 'a' ≤ c ∧ c ≤ 'f' then c.toNat - 'a'.toNat + 10
  else if 'A' ≤ c ∧ c ≤ 'F' then c.toNat - 'A'.toNat + 10 else 0

def unescape : List Char → List Char
  | '%' :: a :: b :: rest => Char.ofNat (hexVal a * 16 + hexVal b) :: unescape rest
  | c :: rest => c :: unescape rest
  | [] => []

/-- string token: leading quote then percent-encoding -/
def strOf (t : Tok) : Option String :=
  match t with
  | '\'' :: rest => some (String.ofList (unescape rest))
  | _ => none

def boolOf (t : Tok) : Option Bool :=
  match t with
  | ['1'] => some true
  | ['0'] => some false
  | _ => none

/-- bracketed comma list -/
def listOf (t : Tok) : Option (List Tok) :=
  match t with
  | '[' :: rest =>
    match rest.reverse with
    | ']' :: inner => let body := inner.reverse
                      if body = [] then some [] else some (splitOnChar ',' body)
    | _ => none
  | _ => none

def natListOf (t : Tok) : Option (List Nat) := do
  let l ← listOf t
  l.mapM natOf

def strListOf (t : Tok) : Option (List String) := do
  let l ← listOf t
  l.mapM strOf

/-- split at the first occurrence of `c` -/
def splitFirst (c : Char) (l : List Char) : Option (List Char × List Char) :=
  let rec go (l : List Char) (cur : List Char) : Option (List Char × List Char) :=
    match l with
    | [] => none
    | x :: xs => if x = c then some (cur.reverse, xs) else go xs (x :: cur)
  go l []

def keyOf (t : Tok) : Option Key :=
  match splitFirst ':' t with
  | some (k, v) =>
    let ks := tokStr k
    if ks = "v4" then (strOf v).map Key.v4
    else if ks = "v6" then (strOf v).map Key.v6
    else if ks = "mpls" then (natOf v).map Key.mpls
    else if ks = "nhg" then (natOf v).map Key.nhg
    else if ks = "nh" then (natOf v).map Key.nh
    else none
  | _ => none

/-- five tokens: grp 'grpNI [nhs] backup 'body -/
def payloadOf (ts : List Tok) : Option (Payload × List Tok) :=
  match ts with
  | g :: gn :: nhs :: b :: body :: rest => do
    let g ← natOf g
    let gn ← strOf gn
    let nhs ← natListOf nhs
    let b ← natOf b
    let body ← strOf body
    some ({ grp := g, grpNI := gn, nhs := nhs, backup := b, body := body }, rest)
  | _ => none

def elecOf (t : Tok) : Option (Option U128) :=
  if t = ['-'] then some none
  else match splitOnChar ':' t with
    | [h, l] => do
      let h ← natOf h
      let l ← natOf l
      some (some { hi := UInt64.ofNat h, lo := UInt64.ofNat l })
    | _ => none

def opTyOf (t : Tok) : Option OpType :=
  let s := tokStr t
  if s = "add" then some .add else if s = "replace" then some .replace
  else if s = "delete" then some .delete else if s = "invalid" then some .invalid else none

def clsOf (t : Tok) : Option Cls :=
  let s := tokStr t
  if s = "wf" then some .wf else if s = "bad" then some .bad
  else if s = "noEntry" then some .noEntry else none

/-- id ty 'ni key cls <payload 5> elec -/
def opOf (ts : List Tok) : Option (Op × List Tok) :=
  match ts with
  | id :: ty :: ni :: key :: cls :: rest => do
    let id ← natOf id
    let ty ← opTyOf ty
    let ni ← strOf ni
    let key ← keyOf key
    let cls ← clsOf cls
    let (pl, rest) ← payloadOf rest
    match rest with
    | e :: rest =>
      let el ← elecOf e
      some ({ id := id, ty := ty, ni := ni, key := key, pl := pl, cls := cls, elec := el }, rest)
    | [] => none
  | _ => none

/-- split a token list at `|` separators -/
def groups (ts : List Tok) : List (List Tok) :=
  let rec go (ts : List Tok) (cur : List Tok) (acc : List (List Tok)) : List (List Tok) :=
    match ts with
    | [] => (cur.reverse :: acc).reverse
    | t :: rest => if t = ['|'] then go rest [] (cur.reverse :: acc) else go rest (t :: cur) acc
  go ts [] []

/-- drop everything up to and including the `=>` token -/
def afterArrow (ts : List Tok) : List Tok :=
  match ts with
  | [] => []
  | t :: rest => if t = ['=', '>'] then rest else afterArrow rest

def beforeArrow (ts : List Tok) : List Tok :=
  match ts with
  | [] => []
  | t :: rest => if t = ['=', '>'] then [] else t :: beforeArrow rest

end Gribi.Drv
