/-
Correspondence driver for the fluent builders and client.
-/
import Gribi.Drv.RibDrv
import Gribi.Model.Fluent
namespace Gribi.Drv
open Gribi Gribi.Fluent

structure FlSt where
  builders : List Entry := []
  client : Client := {}
  lastId : Nat := 0
  deriving Inhabited

def setAt {α} (l : List α) (i : Nat) (v : α) : List α :=
  match l, i with
  | [], _ => []
  | _ :: t, 0 => v :: t
  | h :: t, n + 1 => h :: setAt t n v

def fieldsOf (t : Tok) : Option (List String) := do
  let l ← listOf t
  l.mapM strOf

def renderFields (f : Fields) : List String := f.map (fun e => e.1 ++ "=" ++ e.2)

def optNatTok (t : Tok) : Option (Option Nat) := if t = ['-'] then some none else (natOf t).map some
def optStrTok (t : Tok) : Option (Option String) := if t = ['-'] then some none else (strOf t).map some

def hdrOf (g : List Tok) : Option Hdr :=
  match g with
  | [k, l] => if tokStr k = "mpls" then (natListOf l).map Hdr.mpls else none
  | [k, a, b, c, d, e, f] =>
    if tokStr k = "udp6" then do
      let a ← optNatTok a
      let b ← optStrTok b
      let c ← optNatTok c
      let d ← optNatTok d
      let e ← optStrTok e
      let f ← optNatTok f
      some (.udp6 { dscp := a, dstIp := b, dstPort := c, ttl := d, srcIp := e, srcPort := f })
    else none
  | _ => none

/-- apply one described call to a builder -/
def applyCall (e : Entry) (ts : List Tok) : Option Entry :=
  match ts with
  | [] => none
  | k :: args =>
    let c := tokStr k
    let nat1 : Option Nat := match args with | [a] => natOf a | _ => none
    let str1 : Option String := match args with | [a] => strOf a | _ => none
    let elec : Option (Nat × Nat) := match args with | [a, b] => (do let a ← natOf a; let b ← natOf b; some (a, b)) | _ => none
    match e with
    | .v4 b | .v6 b =>
      let wrap (b : TopB) : Entry := match e with | .v6 _ => .v6 b | _ => .v4 b
      if c = "prefix" then str1.map (fun s => wrap (b.apply (.prefix_ s)))
      else if c = "ni" then str1.map (fun s => wrap (b.apply (.ni s)))
      else if c = "nhg" then nat1.map (fun n => wrap (b.apply (.nhg n)))
      else if c = "nhgni" then str1.map (fun s => wrap (b.apply (.nhgNI s)))
      else if c = "meta" then str1.map (fun s => wrap (b.apply (.metadata s)))
      else if c = "elec" then elec.map (fun x => wrap (b.apply (.elec x.1 x.2)))
      else none
    | .label b =>
      if c = "label" then nat1.map (fun n => .label (b.apply (.label n)))
      else if c = "ni" then str1.map (fun s => .label (b.apply (.ni s)))
      else if c = "nhg" then nat1.map (fun n => .label (b.apply (.nhg n)))
      else if c = "nhgni" then str1.map (fun s => .label (b.apply (.nhgNI s)))
      else if c = "popped" then (match args with | [l] => (natListOf l).map (fun ls => .label (b.apply (.popped ls))) | _ => none)
      else if c = "elec" then elec.map (fun x => .label (b.apply (.elec x.1 x.2)))
      else none
    | .nhg b =>
      if c = "id" then nat1.map (fun n => .nhg (b.apply (.id n)))
      else if c = "ni" then str1.map (fun s => .nhg (b.apply (.ni s)))
      else if c = "backup" then nat1.map (fun n => .nhg (b.apply (.backup n)))
      else if c = "addnh" then elec.map (fun x => .nhg (b.apply (.addNh x.1 x.2)))
      else if c = "elec" then elec.map (fun x => .nhg (b.apply (.elec x.1 x.2)))
      else none
    | .nh b =>
      if c = "index" then nat1.map (fun n => .nh (b.apply (.index n)))
      else if c = "ni" then str1.map (fun s => .nh (b.apply (.ni s)))
      else if c = "ip" then str1.map (fun s => .nh (b.apply (.ip s)))
      else if c = "ifref" then str1.map (fun s => .nh (b.apply (.ifRef s)))
      else if c = "subifref" then (match args with
        | [a, n] => (do let a ← strOf a; let n ← natOf n; some (.nh (b.apply (.subIfRef a n))))
        | _ => none)
      else if c = "mac" then str1.map (fun s => .nh (b.apply (.mac s)))
      else if c = "ipinip" then (match args with
        | [a, d] => (do let a ← strOf a; let d ← strOf d; some (.nh (b.apply (.ipInIp a d))))
        | _ => none)
      else if c = "nhni" then str1.map (fun s => .nh (b.apply (.nhNI s)))
      else if c = "poptop" then some (.nh (b.apply .popTop))
      else if c = "pushed" then (match args with | [l] => (natListOf l).map (fun ls => .nh (b.apply (.pushed ls))) | _ => none)
      else if c = "encap" then
        ((groups args).drop 1).mapM hdrOf |>.map (fun hs => .nh (b.apply (.addEncap hs)))
      else if c = "decaph" then nat1.map (fun n => .nh (b.apply (.decap n)))
      else if c = "encaph" then nat1.map (fun n => .nh (b.apply (.encap n)))
      else if c = "elec" then elec.map (fun x => .nh (b.apply (.elec x.1 x.2)))
      else none

def cmpFields (st : RibSt) (what : String) (model : List String) (impl : List String) : RibSt :=
  let st := st.covr what
  if permEq model impl then st
  else
    let missing := model.filter (fun f => !impl.contains f)
    let extra := impl.filter (fun f => !model.contains f)
    st.diff what s!"only-in-model={missing} only-in-impl={extra}"

/-- C18 monitor for an entry payload: the fields the builder calls set (last call wins) are the
statement itself, so a difference is a violation, reported with the offending fields -/
def monFields (st : RibSt) (what : String) (model : List String) (impl : List String) : RibSt :=
  if permEq model impl then st
  else
    let missing := model.filter (fun f => !impl.contains f)
    let extra := impl.filter (fun f => !model.contains f)
    if extra.isEmpty then st.monfail "c18" s!"{what}: the payload lacks fields that were set: {missing}"
    else st.monfail "c18" s!"{what}: the payload contains {extra}, which is not what the builder calls set (expected {missing})"

/-- value of a numeric field in an implementation rendering (absent = 0, as proto3 renders) -/
def implNum (impl : List String) (path : String) : Nat :=
  match impl.find? (fun f => f.startsWith (path ++ "=")) with
  | some f => ((f.drop (path.length + 1)).toNat?).getD 0
  | none => 0

def prefixOps (fss : List Fields) : List String :=
  let rec go (fss : List Fields) (i : Nat) : List String :=
    match fss with
    | [] => []
    | f :: t => ["operation#" ++ toString i ++ "=<msg>"] ++
        (renderFields f).map (fun s => "operation#" ++ toString i ++ "." ++ s) ++ go t (i + 1)
  go fss 0

/-- ids found in an implementation rendering, in operation order -/
def implIds (impl : List String) (n : Nat) : List (Option Nat) :=
  (List.range n).map (fun i =>
    let pre := "operation#" ++ toString i ++ ".id="
    match impl.find? (fun f => f.startsWith pre) with
    | some f => (f.drop pre.length).toNat?
    | none => none)

def fluentLine (rs : RibSt) (fl : FlSt) (ts : List Tok) : RibSt × FlSt :=
  let rs := { rs with line := rs.line + 1 }
  match ts with
  | [] => (rs, fl)
  | cmd :: args =>
    let c := tokStr cmd
    let bad (rs : RibSt) := rs.emit s!"PARSE-ERROR trace={rs.name} line={rs.line} cmd={c}"
    if c = "fl.new" then
      match args with
      | [e, lo, hi] =>
        match boolOf e, natOf lo, natOf hi with
        | some e, some lo, some hi =>
          (rs, { fl with client := { elected := e, curElec := if e then some (lo, hi) else none }, builders := [], lastId := 0 })
        | _, _, _ => (bad rs, fl)
      | _ => (bad rs, fl)
    else if c = "fl.b" then
      match args with
      | [_, kind] =>
        let k := tokStr kind
        let e : Entry := if k = "v4" then .v4 {} else if k = "v6" then .v6 {} else if k = "label" then .label {}
          else if k = "nhg" then .nhg {} else .nh {}
        (rs, { fl with builders := fl.builders ++ [e] })
      | _ => (bad rs, fl)
    else if c = "fl.c" then
      match args with
      | k :: call =>
        match natOf k with
        | some k =>
          match fl.builders[k]? with
          | some e =>
            match applyCall e call with
            | some e' => (rs.covr "fl.c", { fl with builders := setAt fl.builders k e' })
            | none => (bad rs, fl)
          | none => (bad rs, fl)
        | none => (bad rs, fl)
      | _ => (bad rs, fl)
    else if c = "fl.op" ∨ c = "fl.ep" then
      match beforeArrow args, afterArrow args with
      | [k], [f] =>
        match natOf k, fieldsOf f with
        | some k, some impl =>
          match fl.builders[k]? with
          | some e =>
            let model := renderFields (if c = "fl.op" then e.opProto else e.entryProto)
            (cmpFields (monFields rs c model impl) c model impl, fl)
          | none => (bad rs, fl)
        | _, _ => (bad rs, fl)
      | _, _ => (bad rs, fl)
    else if c = "fl.mod" then
      match beforeArrow args, afterArrow args with
      | [ty, ks], [f] =>
        match natOf ty, natListOf ks, fieldsOf f with
        | some ty, some ks, some impl =>
          match ks.mapM (fun k => fl.builders[k]?) with
          | some es =>
            let (c', fss) := fl.client.modify ty es
            -- C18 monitor on the implementation's message alone: ids count up by one
            let ids := implIds impl es.length
            let want := (List.range es.length).map (fun i => some (fl.lastId + 1 + i))
            let rs := if ids = want then rs
              else rs.monfail "c18" s!"operation ids {ids} do not continue the sequence after {fl.lastId}"
            let rs := (List.range es.length).foldl (fun rs i =>
              if impl.contains ("operation#" ++ toString i ++ ".op=e" ++ toString ty) then rs
              else rs.monfail "c18" s!"operation {i} does not carry the requested operation type {ty}") rs
            -- C18 monitor: every operation is stamped with the election id most recently set
            let rs := (List.range es.length).foldl (fun rs i =>
              match es[i]? with
              | some e =>
                match stampOf fl.client e with
                | some (lo, hi) =>
                  let p := "operation#" ++ toString i ++ ".election_id."
                  if implNum impl (p ++ "low") = lo ∧ implNum impl (p ++ "high") = hi then rs
                  else rs.monfail "c18" s!"operation {i} is stamped with election id (low {implNum impl (p ++ "low")}, high {implNum impl (p ++ "high")}) but the id most recently set (or given on the entry) is (low {lo}, high {hi})"
                | none =>
                  -- no election id is due (the client is not an elected primary and the entry
                  -- has none of its own): the operation carries none
                  if impl.any (fun f => f.startsWith ("operation#" ++ toString i ++ ".election_id"))
                  then rs.monfail "c18" s!"operation {i} carries an election id although the client is not an elected primary and the entry set none"
                  else rs
              | none => rs) rs
            (cmpFields rs c (prefixOps fss) impl, { fl with client := c', lastId := fl.lastId + es.length })
          | none => (bad rs, fl)
        | _, _, _ => (bad rs, fl)
      | _, _ => (rs.diff c "the fluent call failed", fl)
    else if c = "fl.upd" then
      match beforeArrow args, afterArrow args with
      | [lo, hi], [f] =>
        match natOf lo, natOf hi, fieldsOf f with
        | some lo, some hi, some impl =>
          let (c', fs) := fl.client.updateElection lo hi
          (cmpFields rs c (renderFields fs) impl, { fl with client := c' })
        | _, _, _ => (bad rs, fl)
      | _, _ => (bad rs, fl)
    else if c = "fl.initelec" then
      -- WithInitialElectionID on the connection of a running client: no message, the client's
      -- current election id is the one given
      match args with
      | [lo, hi] =>
        match natOf lo, natOf hi with
        | some lo, some hi => (rs.covr "fl.initelec", { fl with client := { fl.client with curElec := some (lo, hi) } })
        | _, _ => (bad rs, fl)
      | _ => (bad rs, fl)
    else if c = "fl.req" then
      -- a Get / Flush request on the wire against the request built directly from the setters of
      -- the chain that produced it (C18: the builders emit exactly what was set — by this chain)
      match args with
      | [kind, got, want] =>
        match fieldsOf got, fieldsOf want with
        | some g, some w =>
          if (tokStr kind).endsWith "-not-sent" then (rs.covr "fl.req.notsent", fl)
          else if g = w then (rs.covr "fl.req", fl)
          else (rs.monfail "c18" s!"a {tokStr kind} request carries {g} on the wire, the builder calls of its chain set {w}", fl)
        | _, _ => (bad rs, fl)
      | _ => (bad rs, fl)
    else if c = "fl.unsent" then
      -- a call that has to put a message on the wire did not (the harness waited for it)
      match args with
      | [what] => (rs.monfail "c18" s!"{(strOf what).getD ""} put no message on the wire: the client's election id was not updated, what follows is stamped with the old one", fl)
      | _ => (bad rs, fl)
    else if c = "fl.restart" then
      -- Stop and Start of the same fluent client: the id sequence and the election id most
      -- recently set are the client's, not the session's — nothing changes
      (rs.covr "fl.restart", fl)
    else if c = "fl.final" then
      match args with
      | [l] =>
        match natListOf l with
        | some [] => (rs, fl)
        | some ch => (rs.monfail "c18" s!"queued messages {ch} changed after they were sent (a later builder call altered them)", fl)
        | none => (bad rs, fl)
      | _ => (bad rs, fl)
    else (bad rs, fl)

end Gribi.Drv
