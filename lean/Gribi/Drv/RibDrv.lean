/-
Correspondence driver for RIB-level traces: replays the implementation's inputs through
`Rib.step`, compares every observation, and evaluates the monitors (the property
statements as executable checks) on the implementation's own observations.
Core Lean only.
-/
import Gribi.Drv.Parse
import Gribi.Spec.RibSpec
namespace Gribi.Drv
open Gribi

def normNhs (l : List Nat) : List Nat := (l.eraseDups).mergeSort (· ≤ ·)
def normPl (p : Payload) : Payload := { p with nhs := normNhs p.nhs }
def plEq (a b : Payload) : Bool := normPl a == normPl b

def normHook : HookEv → HookEv
  | .add ni k p => .add ni k (normPl p)
  | .del ni k p => .del ni k (p.map normPl)

def permEq {α} [DecidableEq α] (a b : List α) : Bool :=
  a.length == b.length && a.all (fun x => a.count x == b.count x)

def mapEq (a b : Map EKey Payload) : Bool :=
  a.length == b.length && a.all (fun e => match Map.get? b e.1 with
    | some p => plEq p e.2
    | none => false)

def bump (cov : Map String Nat) (k : String) : Map String Nat :=
  cov.insert k ((cov.get? k).getD 0 + 1)

structure RibSt where
  model : Rib := Rib.new ""
  diverged : Bool := false
  /-- (client traces) the numbers of send and receive errors the client reported at the last observation -/
  lastErrs : Nat × Nat := (0, 0)
  /-- (client traces) a request that reuses the id of a pending operation was handed over since the
  last observation: the send error count has to have grown by the next one -/
  dupHandedOver : Option Nat := none
  /-- every operation submitted so far, by id (latest wins) -/
  ops : Map Nat Op := []
  /-- the latest ADD / REPLACE submitted under each id (what a held id stands for: a DELETE is
  never held, so a DELETE that reuses the id of a held operation does not replace it here) -/
  adds : Map Nat Op := []
  /-- the ids held when a flush ran (checked at the next observation of the held list) -/
  pendBeforeFlush : Option (List Nat) := none
  /-- fold of the implementation's own acknowledgements (C01 monitor) -/
  spec : Map EKey Payload := []
  implEnts : Map EKey Payload := []
  /-- `implEnts` was observed after the last operation (false while several operations that
  overlapped in time are being reported one after the other) -/
  entsFresh : Bool := false
  implPend : List Nat := []
  /-- ids the implementation answered FAILED (C01 monitor: they leave no trace) -/
  failedIds : List Nat := []
  implRefsOk : Bool := true
  partialFlush : Bool := false
  /-- the RIB was created without its check function (`DisableRIBCheckFn`): the model does not
  describe it, and the properties about resolution and references are not about it; the monitors
  that need neither still speak -/
  nocheck : Bool := false
  /-- the trace does not list the operations (concurrent runs): monitors that need them are off -/
  blind : Bool := false
  lastHooks : List HookEv := []
  lastResolved : List (Bool × NI × Key) := []
  resolvedOn : Bool := false
  /-- fold of the implementation's notifications since hook registration (C16 monitor) -/
  hookFold : Option (Map EKey Payload) := none
  line : Nat := 0
  name : String := ""
  out : List String := []
  cov : Map String Nat := []
  diffs : Nat := 0
  monfails : Nat := 0
  deriving Inhabited

namespace RibSt

def emit (st : RibSt) (s : String) : RibSt := { st with out := s :: st.out }

def diff (st : RibSt) (what : String) (detail : String) : RibSt :=
  if st.diverged then st else
  { (st.emit s!"DIFF trace={st.name} line={st.line} what={what} {detail}") with
    diffs := st.diffs + 1, diverged := true }

def monfail (st : RibSt) (mon : String) (detail : String) : RibSt :=
  { (st.emit s!"MONFAIL trace={st.name} line={st.line} mon={mon} {detail}") with
    monfails := st.monfails + 1 }

def covr (st : RibSt) (k : String) : RibSt := { st with cov := bump st.cov k }

end RibSt

def showIds (l : List Nat) : String := toString l

def showKey : Key → String
  | .v4 p => s!"v4:{p}" | .v6 p => s!"v6:{p}" | .mpls l => s!"mpls:{l}"
  | .nhg g => s!"nhg:{g}" | .nh n => s!"nh:{n}"
def showPl (p : Payload) : String := s!"<grp={p.grp},grpNI={p.grpNI},nhs={p.nhs},backup={p.backup},body={p.body}>"
def showHook : HookEv → String
  | .add ni k p => s!"add({ni},{showKey k},{showPl p})"
  | .del ni k (some p) => s!"del({ni},{showKey k},{showPl p})"
  | .del ni k none => s!"del({ni},{showKey k},nil)"
def showRefs (m : Map (NI × Nat) Nat) : String :=
  ",".intercalate (m.map (fun e => s!"{e.1.1}/{e.1.2}={e.2}"))

def tryName : Rib.Try → String
  | .err => "err" | .hold => "hold" | .ok => "ok"
def dtryName : Rib.DTry → String
  | .err => "err" | .refd => "refd" | .absent => "absent" | .ok => "ok"

/-- apply the implementation's acknowledgements of one call to the monitor's fold -/
def ackFold (st : RibSt) (okIds : List Nat) : RibSt :=
  okIds.foldl (fun st id =>
    match st.ops.get? id with
    | none => st.monfail "c01" s!"acknowledged id {id} was never submitted"
    | some op =>
      -- REPLACE wholly replaces an *existing* entry: it may be acknowledged only for an installed key
      let st := if op.ty == .replace && !(Map.has st.spec (op.ni, op.key))
        then st.monfail "c01" s!"REPLACE {id} acknowledged for a key that is not installed" else st
      { st with spec := Spec.applyAck st.spec (.prog op) }) st

/-- C01 monitor: "operations answered FAILED leave no trace" — an id that was answered FAILED
is never acknowledged as programmed later (ids are distinct within a generated history) -/
def failedTrace (st : RibSt) (oks fails : List Nat) : RibSt :=
  let st := if st.blind then st else
    match oks.find? (fun id => st.failedIds.contains id) with
    | some id => st.monfail "c01" s!"operation {id} was answered FAILED and is acknowledged as programmed later: a failed operation left a trace"
    | none => st
  { st with failedIds := fails.eraseDups ++ st.failedIds }

def handleAdd (st : RibSt) (op : Op) (oks fails : List Nat) (fatal : Bool) : RibSt :=
  let st := failedTrace st oks fails
  let st := { st with ops := st.ops.insert op.id op, adds := st.adds.insert op.id op }
  -- the contents last observed, brought up to date by what the implementation has just
  -- acknowledged (an acknowledged ADD / REPLACE installs its entry): what a DELETE that follows
  -- before the next observation — a second writer in a gap — is judged on
  let st := if fatal then { st with entsFresh := false } else
    { st with implEnts := oks.foldl (fun m id => match st.adds.get? id with
        | some o => m.insert (o.ni, o.key) o.pl
        | none => m) st.implEnts }
  let st := st.covr ("add." ++ tryName (st.model.classify op))
  let st := ackFold st oks
  if st.diverged then st else
  let script : List Rib.CEv :=
    match oks with
    | first :: rest => if first = op.id then (fails.eraseDups.map .fail) ++ rest.map .ok else []
    | [] => []
  let st := if script.length > 0 then st.covr "add.cascade" else st
  let st := if fails.length > 0 ∧ oks.length > 0 then st.covr "add.cascade.fail" else st
  match st.model.add op script with
  | none =>
    st.diff "add.cascade-not-accepted" s!"op={op.id} impl.oks={showIds oks} impl.fails={showIds fails}"
  | some (m', out) =>
    let st := { st with model := m', lastHooks := st.lastHooks ++ out.hooks, lastResolved := st.lastResolved ++ out.resolved }
    let mOks := out.oks.map (·.id)
    if mOks ≠ oks then st.diff "add.oks" s!"op={op.id} model={showIds mOks} impl={showIds oks}"
    else if out.fails ≠ fails then st.diff "add.fails" s!"op={op.id} model={showIds out.fails} impl={showIds fails}"
    else if out.fatal ≠ fatal then st.diff "add.fatal" s!"op={op.id} model={out.fatal} impl={fatal}"
    else st

/-- referrers of a group / next-hop among the contents last observed (for the C03 verdict monitor) -/
def referrersOf (ents : Map EKey Payload) (ni : NI) : Key → Option Nat
  | .nhg g => some (ents.countP (fun e => e.1.2.isTop && Rib.tgtNI e.1.1 e.2 == ni && e.2.grp == g))
  | .nh n => some (ents.countP (fun e => (match e.1.2 with | .nhg _ => true | _ => false) && e.1.1 == ni && e.2.nhs.contains n))
  | _ => none

def handleDel (st : RibSt) (op : Op) (oks fails : List Nat) (fatal : Bool) : RibSt :=
  -- C03 monitor on the verdict, judged on the implementation's own contents before the call: a
  -- DELETE of an installed group or next-hop that an installed entry refers to is refused; in every
  -- other case, including a key that is not installed, a well-formed DELETE succeeds
  let st := if st.blind || !st.entsFresh || st.nocheck then st else
    match referrersOf st.implEnts op.ni op.key with
    | some n =>
      let installed := Map.has st.implEnts (op.ni, op.key)
      if installed && n > 0 then
        if oks.contains op.id
        then st.monfail "c03" s!"DELETE {op.id} of {showKey op.key} in {op.ni} succeeded although {n} installed entries refer to it"
        else st
      else if op.cls == .wf && st.model.nis.contains op.ni && !(match op.key with | .nhg 0 | .nh 0 => true | _ => false) && fails.contains op.id
      then st.monfail "c03" s!"DELETE {op.id} of {showKey op.key} in {op.ni} was refused although {if installed then "no installed entry refers to it" else "it is not installed"}"
      else st
    | none => st
  let st := { st with entsFresh := false }
  let st := failedTrace st oks fails
  let st := { st with ops := st.ops.insert op.id op }
  let st := st.covr ("del." ++ dtryName (st.model.classifyDel op))
  let st := ackFold st oks
  if st.diverged then st else
  let (m', out) := st.model.del op
  let st := { st with model := m', lastHooks := st.lastHooks ++ out.hooks, lastResolved := st.lastResolved ++ out.resolved }
  let mOks := out.oks.map (·.id)
  if mOks ≠ oks then st.diff "del.oks" s!"op={op.id} model={showIds mOks} impl={showIds oks}"
  else if out.fails ≠ fails then st.diff "del.fails" s!"op={op.id} model={showIds out.fails} impl={showIds fails}"
  else if out.fatal ≠ fatal then st.diff "del.fatal" s!"op={op.id} model={out.fatal} impl={fatal}"
  else st

def handleFlush (st : RibSt) (nis : List NI) (ok : Bool) : RibSt :=
  let st := { st.covr "flush" with pendBeforeFlush := some st.implPend }
  let st := { st with spec := Spec.applyAck st.spec (.flushed nis) }
  let st := if nis.all (fun n => st.model.nis.contains n) ∧ st.model.nis.all (fun n => nis.contains n)
            then st else { st with partialFlush := true }
  let st := if ok then st else st.monfail "c08" "flush reported an error"
  if st.diverged then st else
  let (m', hk) := st.model.flush nis
  let st := { st with model := m', lastHooks := st.lastHooks ++ hk }
  if ok then st else st.diff "flush.ok" "model=true impl=false"

def parseEnts (gs : List (List Tok)) : Option (Map EKey Payload) :=
  gs.mapM (fun g => match g with
    | ni :: key :: rest => do
      let ni ← strOf ni
      let key ← keyOf key
      let (pl, _) ← payloadOf rest
      some ((ni, key), pl)
    | _ => none)

/-- referrers of group (ni,g) / next-hop (ni,n) counted from a contents map -/
def countNhgRefs (ents : Map EKey Payload) (ni : NI) (g : Nat) : Nat :=
  ents.countP (fun e => e.1.2.isTop && Rib.tgtNI e.1.1 e.2 == ni && e.2.grp == g)
def countNhRefs (ents : Map EKey Payload) (ni : NI) (n : Nat) : Nat :=
  ents.countP (fun e => (match e.1.2 with | .nhg _ => true | _ => false) && e.1.1 == ni && e.2.nhs.contains n)

def handleObsEnts (st : RibSt) (ents : Map EKey Payload) : RibSt :=
  let st := { st with implEnts := ents, entsFresh := true }
  -- C01 monitor: contents = fold of the implementation's own acknowledgements
  let st := if st.blind || mapEq st.spec ents then st
            else st.monfail "c01" s!"contents differ from the fold of acknowledged operations: contents={ents.length} fold={st.spec.length}"
  -- C02 monitor: closure (only while no partial flush has been used)
  let st := if st.partialFlush then st else
    match ents.find? (fun e => !(Spec.entryResolved ents e.1 e.2)) with
    | none => st
    | some e => st.monfail "c02" s!"installed entry dangles: ni={e.1.1} key={showKey e.1.2}"
  if st.diverged then st else
  if mapEq st.model.ents ents then st
  else st.diff "ents" s!"model.count={st.model.ents.length} impl.count={ents.length}"

def parseRefs (gs : List (List Tok)) : Option (List (Bool × NI × Nat × Nat)) :=
  gs.mapM (fun g => match g with
    | [k, ni, id, c] => do
      let ni ← strOf ni
      let id ← natOf id
      let c ← natOf c
      some (tokStr k == "nhg", ni, id, c)
    | _ => none)

def handleObsRefs (st : RibSt) (refs : List (Bool × NI × Nat × Nat)) : RibSt :=
  -- a RIB without its check function (`DisableRIBCheckFn`: "a testing RIB that does not need to
  -- have working references") installs entries whose group or instance does not exist and never
  -- refuses a DELETE: its counters are not meant to follow the references, nothing is judged
  if st.nocheck then st else
  -- C03 monitor: every counter equals the number of installed referrers
  let bad := refs.find? (fun r => match r with
    | (isNhg, ni, id, c) => if isNhg then countNhgRefs st.implEnts ni id != c else countNhRefs st.implEnts ni id != c)
  let st := match bad with
    | some (isNhg, ni, id, c) => st.monfail "c03" s!"counter nhg={isNhg} ni={ni} id={id} is {c} but referrers are {if isNhg then countNhgRefs st.implEnts ni id else countNhRefs st.implEnts ni id}"
    | none => st
  -- and no referrer without a counter
  let missing := st.implEnts.find? (fun e =>
    if e.1.2.isTop then !(refs.any (fun r => r.1 && r.2.1 == Rib.tgtNI e.1.1 e.2 && r.2.2.1 == e.2.grp))
    else match e.1.2 with
      | .nhg _ => e.2.nhs.any (fun n => !(refs.any (fun r => !r.1 && r.2.1 == e.1.1 && r.2.2.1 == n)))
      | _ => false)
  let st := match missing with
    | some e => if st.model.nis.contains (Rib.tgtNI e.1.1 e.2) then st.monfail "c03" s!"referrer ni={e.1.1} key={showKey e.1.2} has no counter" else st
    | none => st
  if st.diverged then st else
  let mNhg := st.model.nhgRef.filter (fun e => e.2 != 0)
  let mNh := st.model.nhRef.filter (fun e => e.2 != 0)
  let iNhg := refs.filter (·.1)
  let iNh := refs.filter (fun r => !r.1)
  let okNhg := mNhg.length == iNhg.length && iNhg.all (fun r => Rib.cnt st.model.nhgRef (r.2.1, r.2.2.1) == r.2.2.2)
  let okNh := mNh.length == iNh.length && iNh.all (fun r => Rib.cnt st.model.nhRef (r.2.1, r.2.2.1) == r.2.2.2)
  if okNhg && okNh then st else st.diff "refs" s!"model.nhg={showRefs mNhg} model.nh={showRefs mNh}"

/-- invalid whatever the state of the RIB: zero ids, zero or missing group, empty group -/
def structBad (op : Op) : Bool :=
  op.cls != .wf ||
  (match op.key with
   | .nh i => i == 0
   | .nhg g => g == 0 || op.pl.nhs.isEmpty || op.pl.nhs.contains 0
   | _ => op.pl.grp == 0)

/-- a top-level entry that names, for its group, a network instance the RIB does not have -/
def unknownGrpNI (st : RibSt) (op : Op) : Bool :=
  op.key.isTop && op.pl.grpNI != "" && !(st.model.nis.contains op.pl.grpNI)

def handleObsPend (st : RibSt) (ids : List Nat) : RibSt :=
  -- C02 / C06 monitor: a flush removes entries, not obligations — an operation that was held when
  -- the flush ran is still held afterwards (it has had no verdict, and it may yet become resolvable)
  let st := match st.pendBeforeFlush with
    | some before =>
      let st := { st with pendBeforeFlush := none }
      (match before.find? (fun id => !ids.contains id) with
       | some id => (st.monfail "c02" s!"held operation {id} vanished at a flush: it was never answered and can no longer become resolvable").monfail "c06"
           s!"unanswered: operation {id} was held, a flush dropped it, and it never received a result"
       | none => st)
    | none => st
  let st := { st with implPend := ids }
  -- C01 monitor: an operation answered FAILED is not kept by the server
  let st := if st.blind then st else
    match ids.find? (fun id => st.failedIds.contains id) with
    | some id => st.monfail "c01" s!"operation {id} was answered FAILED and is still held by the server: a failed operation left a trace"
    | none => st
  -- C12 monitor: an operation that can never be valid must not be held
  let st := ids.foldl (fun st id =>
    match st.adds.get? id with
    | some op => if structBad op || (op.ty != .delete && unknownGrpNI st op) then st.monfail "c12" s!"malformed operation {id} is held instead of being answered FAILED" else st
    | none => st) st
  -- C02 monitor: no held operation is resolvable (or failing) in the implementation's own state
  let implRib : Rib := { st.model with ents := st.implEnts, pend := [] }
  let st := ids.foldl (fun st id =>
    match st.adds.get? id with
    | none => if st.blind then st else st.monfail "c02" s!"held id {id} was never submitted"
    | some op =>
      match implRib.classify op with
      | .hold => st
      | .ok => (st.monfail "c02" s!"held operation {id} is resolvable but unanswered").monfail "c06"
                 s!"unanswered: operation {id} is still held although everything it references is installed; it has received no result"
      | .err => st) st  -- not resolvable: answered FAILED by the next cascade
  let st := if ids.length > 0 then st.covr "pend.nonempty" else st
  -- C02 monitor: with forward references disallowed nothing is ever held
  let st := if !st.model.fwd && ids.length > 0
    then st.monfail "c02" s!"operations {showIds ids} are held although forward references are disallowed" else st
  if st.diverged then st else
  let mIds := st.model.pend.map (·.1)
  if permEq mIds ids then st else st.diff "pend" s!"model={showIds mIds} impl={showIds ids}"

def parseHooks (gs : List (List Tok)) : Option (List HookEv) :=
  gs.mapM (fun g => match g with
    | kind :: ni :: rest => do
      let ni ← strOf ni
      let isAdd := tokStr kind == "add"
      match rest with
      | [n] => if tokStr n == "nil" ∧ ¬ isAdd then some (HookEv.del ni (.nh 0) none) else none
      | key :: prest => do
        let key ← keyOf key
        let (pl, _) ← payloadOf prest
        if isAdd then some (HookEv.add ni key pl)
        else if tokStr kind == "del" then some (HookEv.del ni key (some pl)) else none
      | [] => none
    | _ => none)

def foldHook (m : Map EKey Payload) : HookEv → Map EKey Payload
  | .add ni k p => m.insert (ni, k) p
  | .del ni k (some _) => m.erase (ni, k)
  | .del _ _ none => m

/-- a nil-entry delete notification does not say which key: compare it as (ni, none) only -/
def hookKeyless : HookEv → HookEv
  | .del ni _ none => .del ni (.nh 0) none
  | e => e

def handleObsHooks (st : RibSt) (evs : List HookEv) : RibSt :=
  let st := match st.hookFold with
    | none => st
    | some m =>
      let m' := evs.foldl foldHook m
      let st := { st with hookFold := some m' }
      if mapEq m' st.implEnts then st
      else st.monfail "c16" s!"fold of notifications ({m'.length} entries) differs from contents ({st.implEnts.length} entries)"
  let st := if evs.length > 0 then st.covr "hooks.nonempty" else st
  if st.diverged then st else
  let a := (st.lastHooks.map normHook).map hookKeyless
  let b := (evs.map normHook).map hookKeyless
  let st := { st with lastHooks := [] }
  if permEq a b then st else st.diff "hooks" s!"model={a.map showHook} impl={b.map showHook}"

def parseResolved (gs : List (List Tok)) : Option (List (Bool × NI × Key × Bool)) :=
  gs.mapM (fun g => match g with
    | [kind, ni, key, has] => do
      let ni ← strOf ni
      let key ← keyOf key
      let has ← boolOf has
      some (tokStr kind == "add", ni, key, has)
    | _ => none)

def handleObsResolved (st : RibSt) (evs : List (Bool × NI × Key × Bool)) : RibSt :=
  -- C16 monitor: the snapshot contains the announced entry for an ADD and lacks it for a DELETE
  let st := match evs.find? (fun e => e.1 != e.2.2.2) with
    | some e => st.monfail "c16" s!"resolved-entry snapshot for {if e.1 then "ADD" else "DELETE"} of {e.2.1}/{showKey e.2.2.1} {if e.2.2.2 then "contains" else "lacks"} the announced entry"
    | none => st
  let st := if evs.length > 0 then st.covr "resolved.nonempty" else st
  if st.diverged then st else
  let a := st.lastResolved
  let b := evs.map (fun e => (e.1, e.2.1, e.2.2.1))
  let st := { st with lastResolved := [] }
  if permEq a b then st else st.diff "resolved" s!"model={a.map (fun e => (e.1, e.2.1, showKey e.2.2))} impl={b.map (fun e => (e.1, e.2.1, showKey e.2.2))}"

/-- one line of a RIB-level trace -/
def ribLine (st : RibSt) (ts : List Tok) : RibSt :=
  let st := { st with line := st.line + 1 }
  match ts with
  | [] => st
  | cmd :: args =>
    let c := tokStr cmd
    let bad (st : RibSt) := st.emit s!"PARSE-ERROR trace={st.name} line={st.line} cmd={c}"
    if c = "begin" then
      { (default : RibSt) with name := tokStr (args.headD []), out := st.out, cov := st.cov,
                                 diffs := st.diffs, monfails := st.monfails }
    else if c = "rib.new" then
      match args with
      | [d, f] => match strOf d with
        | some d => { st with model := Rib.new d (tokStr f == "fwd=1") }
        | none => bad st
      | [d, f, c] => match strOf d with
        | some d =>
          let st := { st with model := Rib.new d (tokStr f == "fwd=1") }
          if tokStr c == "check=0" then (({ st with nocheck := true, diverged := true, partialFlush := true }).covr "rib.nocheck") else st
        | none => bad st
      | _ => bad st
    else if c = "rib.sethook" then
      { st with model := st.model.setHook, hookFold := some st.implEnts }
    else if c = "rib.addni" then
      match beforeArrow args, afterArrow args with
      | [n], [r] => match strOf n, boolOf r with
        | some n, some r =>
          let (m', ok) := st.model.addNI n
          let st := { st with model := m' }
          if ok = r then st else st.diff "addni" s!"model={ok} impl={r}"
        | _, _ => bad st
      | _, _ => bad st
    else if c = "rib.add" ∨ c = "rib.del" then
      match opOf (beforeArrow args), afterArrow args with
      | some (op, _), [oks, fails, fatal] =>
        match natListOf oks, natListOf fails, boolOf fatal with
        | some oks, some fails, some fatal =>
          if c = "rib.add" then handleAdd st op oks fails fatal else handleDel st op oks fails fatal
        | _, _, _ => bad st
      | _, _ => bad st
    else if c = "rib.flush" then
      match beforeArrow args, afterArrow args with
      | [n], [r] => match strListOf n, boolOf r with
        | some nis, some r => handleFlush st nis r
        | _, _ => bad st
      | _, _ => bad st
    else if c = "obs.ents" then
      match parseEnts ((groups args).drop 1) with
      | some ents => handleObsEnts st ents
      | none => bad st
    else if c = "obs.refs" then
      match parseRefs ((groups args).drop 1) with
      | some r => handleObsRefs st r
      | none => bad st
    else if c = "obs.pend" then
      match args with
      | [l] => match natListOf l with
        | some ids => handleObsPend st ids
        | none => bad st
      | _ => bad st
    else if c = "obs.hooks" then
      match parseHooks ((groups args).drop 1) with
      | some evs => handleObsHooks st evs
      | none => bad st
    else if c = "rib.resolvedhook" then { st with resolvedOn := true }
    else if c = "obs.resolved" then
      match parseResolved ((groups args).drop 1) with
      | some evs => handleObsResolved st evs
      | none => bad st
    else if c = "obs.resolved.stable" then
      match args with
      | [b] => if tokStr b == "1" then st else st.monfail "c16" "a resolved-entry snapshot changed after it was delivered"
      | _ => bad st
    else if c = "crash" then
      (st.monfail "c12" "the implementation panicked").diff "crash" "the implementation panicked"
    else if c = "end" then st
    else bad st

end Gribi.Drv
