/-
Driver for the reconciler traces (C15): compares the implementation's nine buckets with the
model's `Recon.diff` (as sets, ids aside), runs the model's own operation sequence through
`Rib.run` (an executable instance of the convergence theorem), and evaluates every clause of the
statement on the implementation's observations: ids distinct and counting up from the base,
every operation answered with exactly its own success, final contents equal to the intended
contents, nothing held, a second reconciliation empty, equal RIBs give no operations.
-/
import Gribi.Drv.RibDrv
import Gribi.Model.Recon
namespace Gribi.Drv
open Gribi

structure RcSt where
  base : Nat := 0
  dflt : NI := ""
  nisI : List NI := []
  nisT : List NI := []
  I : Recon.Ents := []
  T : Recon.Ents := []
  /-- implementation buckets in the order they were listed -/
  buckets : List (String × List Op) := []
  applied : Nat := 0
  applyOk : Bool := true
  deriving Inhabited

def normEnts (m : Recon.Ents) : Recon.Ents := m.map (fun e => (e.1, normPl e.2))

def semiGroups (ts : List Tok) : List (List Tok) :=
  let rec go (ts : List Tok) (cur : List Tok) (acc : List (List Tok)) : List (List Tok) :=
    match ts with
    | [] => (cur.reverse :: acc).reverse
    | t :: rest => if t = [';'] then go rest [] (cur.reverse :: acc) else go rest (t :: cur) acc
  go ts [] []

/-- (type, instance, key, normalised payload) of an operation: what buckets are compared on -/
def opSig (o : Op) : OpType × NI × Key × Payload := (o.ty, o.ni, o.key, normPl o.pl)
def entSig (ty : OpType) (e : EKey × Payload) : OpType × NI × Key × Payload := (ty, e.1.1, e.1.2, normPl e.2)

def modelBucket (d : Recon.ROps) (name : String) : List (OpType × NI × Key × Payload) :=
  if name = "add.nh" then d.add.nh.map (entSig .add)
  else if name = "add.nhg" then d.add.nhg.map (entSig .add)
  else if name = "add.top" then d.add.top.map (entSig .add)
  else if name = "replace.nh" then d.replace.nh.map (entSig .add)
  else if name = "replace.nhg" then d.replace.nhg.map (entSig .add)
  else if name = "replace.top" then d.replace.top.map (entSig .add)
  else if name = "delete.top" then d.delete.top.map (entSig .delete)
  else if name = "delete.nhg" then d.delete.nhg.map (entSig .delete)
  else d.delete.nh.map (entSig .delete)

/-- a RIB state whose contents are `ents` (built the way any client would: next-hops, groups,
top-level entries), with the counters that go with them -/
def ribOf (dflt : NI) (nis : List NI) (ents : Recon.Ents) : Rib :=
  let s0 : Rib := { (Rib.new dflt false) with nis := nis }
  let order := ents.filter Recon.isNh ++ ents.filter Recon.isNhg ++ ents.filter Recon.isTop
  order.foldl (fun s e => (Rib.install s (Recon.mkOp 0 .add e)).1) s0

def reconLine (rs : RibSt) (rc : RcSt) (ts : List Tok) : RibSt × RcSt :=
  let rs := { rs with line := rs.line + 1 }
  match ts with
  | [] => (rs, rc)
  | cmd :: args =>
    let c := tokStr cmd
    let bad (rs : RibSt) := rs.emit s!"PARSE-ERROR trace={rs.name} line={rs.line} cmd={c}"
    if c = "rc.new" then
      match args with
      | [b, d, li, lt] =>
        match natOf b, strOf d, strListOf li, strListOf lt with
        | some b, some d, some li, some lt =>
          let rs := if lt.any (fun n => !li.contains n) then rs.covr "rc.targetonly-ni" else rs
          (rs, { base := b, dflt := d, nisI := li, nisT := lt })
        | _, _, _, _ => (bad rs, rc)
      | _ => (bad rs, rc)
    else if c = "rc.I" ∨ c = "rc.T" then
      match parseEnts ((groups args).drop 1) with
      | some ents =>
        let ents := normEnts ents
        if c = "rc.I" then
          let rs := if ents.any (fun e => e.1.2.isTop && e.2.grpNI != "" && e.2.grpNI != e.1.1) then rs.covr "rc.xni" else rs
          (rs, { rc with I := ents })
        else
          let rc := { rc with T := ents }
          let rs := if mapEq rc.I rc.T then rs.covr "rc.equal" else rs
          -- the model's own sequence, run through the RIB model: every operation programmed,
          -- final contents = intended (an executable instance of C15.c15_converges)
          let ops := Recon.ops rc.I rc.T rc.base
          let s0 := ribOf rc.dflt rc.nisT rc.T
          let rs := if mapEq s0.ents rc.T then rs else rs.diff "rc.ribOf" "the model RIB built from the target's contents does not hold them"
          let rs := match Rib.run s0 (Recon.inputs ops) with
            | none => rs.diff "rc.model" "the model's operations are not accepted by the RIB model"
            | some (s', outs) =>
              let allOk := (ops.zip outs).all (fun (p : Op × Rib.Out) => p.2.fails.isEmpty && !p.2.fatal && p.2.oks.map (·.id) == [p.1.id])
              let rs := if allOk then rs else rs.diff "rc.model" "an operation of the model's sequence is not programmed by the RIB model"
              if mapEq s'.ents rc.I && s'.pend.isEmpty then rs else rs.diff "rc.model" "the model's sequence does not converge in the RIB model"
          (rs, rc)
      | none => (bad rs, rc)
    else if c = "rc.bucket" then
      match args with
      | name :: rest =>
        match (semiGroups rest).drop 1 |>.mapM (fun g => (opOf g).map (·.1)) with
        | some ops =>
          let n := tokStr name
          let d := Recon.diff rc.I rc.T
          let model := modelBucket d n
          let impl := ops.map opSig
          let rs := if ops.isEmpty then rs else rs.covr ("rc." ++ ((n.splitOn ".").headD ""))
          let rs := if permEq model impl then rs
            else
              let missing := model.filter (fun x => !impl.contains x)
              let extra := impl.filter (fun x => !model.contains x)
              rs.diff ("rc.bucket." ++ n) s!"only-in-model={missing.map (fun x => (x.2.1, showKey x.2.2.1))} only-in-impl={extra.map (fun x => (x.2.1, showKey x.2.2.1))}"
          (rs, { rc with buckets := rc.buckets ++ [(n, ops)] })
        | none => (bad rs, rc)
      | _ => (bad rs, rc)
    else if c = "rc.apply" then
      match opOf (beforeArrow args), afterArrow args with
      | some (op, _), [oks, fails, fatal] =>
        match natListOf oks, natListOf fails with
        | some oks, some fails =>
          let good := oks == [op.id] && fails.isEmpty && tokStr fatal == "0"
          let rs := if good then rs
            else rs.monfail "c15" s!"operation {op.id} ({if op.ty == .delete then "DELETE" else "ADD"} {op.ni} {showKey op.key}) sent in the documented order was not programmed: oks={oks} fails={fails} fatal={tokStr fatal}"
          (rs, { rc with applied := rc.applied + 1, applyOk := rc.applyOk && good })
        | _, _ => (bad rs, rc)
      | _, _ => (bad rs, rc)
    else if c = "rc.final" then
      match parseEnts ((groups args).drop 1) with
      | some ents =>
        let ents := normEnts ents
        -- ids: distinct, base+1 .. base+n
        let all := rc.buckets.flatMap (·.2)
        let ids := (all.map (·.id)).mergeSort (· ≤ ·)
        let want := (List.range all.length).map (fun i => rc.base + 1 + i)
        let rs := if ids == want then rs
          else rs.monfail "c15" s!"operation ids {ids} are not the {all.length} consecutive ids after the base {rc.base}"
        let rs := if mapEq rc.I rc.T && !all.isEmpty
          then rs.monfail "c15" s!"reconciling equal RIBs yields {all.length} operations" else rs
        let rs := if mapEq ents rc.I then rs.covr "rc.converged"
          else
            let missing := rc.I.filter (fun e => match Map.get? ents e.1 with | some p => !(plEq p e.2) | none => true)
            let extra := ents.filter (fun e => (Map.get? rc.I e.1).isNone)
            rs.monfail "c15" s!"after applying the operations the target differs from the intended RIB: missing or different {missing.map (fun e => (e.1.1, showKey e.1.2))}, left over {extra.map (fun e => (e.1.1, showKey e.1.2))}"
        (rs, rc)
      | none => (bad rs, rc)
    else if c = "rc.pend" then
      match args with
      | [l] => match natListOf l with
        | some [] => (rs, rc)
        | some ids => (rs.monfail "c15" s!"operations {ids} are held on the target after reconciliation", rc)
        | none => (bad rs, rc)
      | _ => (bad rs, rc)
    else if c = "rc.again" then
      match args with
      | [n] =>
        if tokStr n == "0" then (rs, rc)
        else if rc.applyOk then (rs.monfail "c15" s!"a second reconciliation still yields {tokStr n} operations", rc)
        else (rs, rc)
      | _ => (bad rs, rc)
    else if c = "rc.round2" then
      -- the target reconciled once more, towards an empty RIB: every operation succeeds and
      -- nothing is left (judged only when the first round's operations all succeeded)
      match args with
      | [nops, nfailed, left] =>
        if !rc.applyOk then (rs, rc)
        else if tokStr nops == "-1" then (rs.monfail "c15" "the second reconciliation (towards an empty RIB) failed", rc)
        else if tokStr nfailed != "0" then (rs.monfail "c15" s!"second reconciliation of the converged target, towards an empty RIB: {tokStr nfailed} of {tokStr nops} operations sent in the documented order did not succeed", rc)
        else if tokStr left != "0" then (rs.monfail "c15" s!"second reconciliation of the converged target, towards an empty RIB: {tokStr left} entries are left", rc)
        else (rs.covr "rc.round2", rc)
      | _ => (bad rs, rc)
    else if c = "rc.roundtrip" then
      match args with
      | [ok, msg] =>
        if tokStr ok == "1" then (rs.covr "rc.roundtrip", rc)
        else (rs.monfail "c15" s!"a RIB rebuilt from its own Get responses (the remote target's path) differs from the original: {(strOf msg).getD ""}", rc)
      | _ => (bad rs, rc)
    else if c = "rc.error" then (rs.monfail "c15" "Reconcile returned an error", rc)
    else (bad rs, rc)

end Gribi.Drv
