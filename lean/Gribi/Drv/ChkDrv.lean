/-
Correspondence driver for the chk helpers: each line is one call with its arguments and the
implementation's verdict; the model's verdict must agree.
-/
import Gribi.Drv.RibDrv
import Gribi.Model.Chk
namespace Gribi.Drv
open Gribi Gribi.Chk

def detailsOf (t : Tok) : Option (Option Details) :=
  if t = ['-'] then some none
  else match splitOnChar ',' t with
    | [ty, nh, nhg, v4, v6, mpls] => do
      let ty ← natOf ty
      let nh ← natOf nh
      let nhg ← natOf nhg
      let v4 ← strOf v4
      let v6 ← strOf v6
      let mpls ← natOf mpls
      some (some { ty := ty, nh := nh, nhg := nhg, v4 := v4, v6 := v6, mpls := mpls })
    | _ => none

def pairOf (t : Tok) : Option (Option (Nat × Nat)) :=
  if t = ['-'] then some none
  else match splitOnChar ':' t with
    | [a, b] => do
      let a ← natOf a
      let b ← natOf b
      some (some (a, b))
    | _ => none

def optNatOf (t : Tok) : Option (Option Nat) :=
  if t = ['-'] then some none else (natOf t).map some

/-- 7 tokens -/
def opResOf (g : List Tok) : Option OpRes :=
  match g with
  | [id, prog, el, pa, ce, se, det] => do
    let id ← natOf id
    let prog ← natOf prog
    let el ← pairOf el
    let pa ← optNatOf pa
    let ce ← strOf ce
    let se ← strOf se
    let det ← detailsOf det
    some { opId := id, prog := prog, elec := el, params := pa, clientErr := ce, serverErr := se, details := det }
  | _ => none

def ekindOf (t : Tok) : EKind :=
  let s := tokStr t
  if s = "v4" then .v4 else if s = "v6" then .v6 else if s = "mpls" then .mpls
  else if s = "nhg" then .nhg else if s = "nh" then .nh else .other

def gentryOf (g : List Tok) : Option GEntry :=
  match g with
  | [ni, kind, key] => do
    let ni ← strOf ni
    let key ← strOf key
    some { ni := ni, kind := ekindOf kind, key := key }
  | _ => none

def stOf (g : List Tok) : Option (Option St) :=
  match g with
  | [d] => if d = ['-'] then some none else none
  | [code, msg, det] => do
    let code ← natOf code
    let msg ← strOf msg
    let det ← strOf det
    some (some { code := code, msg := msg, det := det })
  | _ => none

def cerrOf (t : Tok) : Option CErr :=
  let s := tokStr t
  if s = "nil" then some .nil else if s = "other" then some .other
  else match splitOnChar ':' t with
    | [c, a, b] => if tokStr c = "ce" then do
        let a ← natOf a
        let b ← natOf b
        some (.clientErr a (List.replicate b none))
      else none
    | _ => none

def verdict (st : RibSt) (what : String) (model impl : Bool) (panicked : String) : RibSt :=
  let st := st.covr (what ++ (if impl then ".pass" else ".fail"))
  let st := if panicked ≠ "" then st.monfail "c17" s!"{what} panicked: {panicked}" else st
  if model = impl then st else st.diff what s!"model={model} impl={impl}"

def chkLine (st : RibSt) (ts : List Tok) : RibSt :=
  let st := { st with line := st.line + 1 }
  match ts with
  | [] => st
  | cmd :: args =>
    let c := tokStr cmd
    let bad (st : RibSt) := st.emit s!"PARSE-ERROR trace={st.name} line={st.line} cmd={c}"
    let before := beforeArrow args
    let after := afterArrow args
    match after with
    | [v, pan] =>
      match boolOf v, strOf pan with
      | some impl, some pan =>
        let gs := groups before
        if c = "chk.hasresult" then
          match gs with
          | [ig, sv] :: w :: res =>
            match boolOf ig, boolOf sv, opResOf w, res.mapM opResOf with
            | some ig, some sv, some w, some res =>
              -- C17 read directly on the implementation's verdict: present = some result agrees
              -- with the want in every field the documented options leave compared
              let present := res.any (fun r =>
                r.prog == w.prog && r.elec == w.elec && r.params == w.params && r.clientErr == w.clientErr &&
                (ig || r.opId == w.opId) && (!sv || r.serverErr == w.serverErr) && (w.details.isNone || r.details == w.details))
              let st := if impl && !present
                then st.monfail "c17" "HasResult passed although no result equals the wanted one in the fields the options leave compared (operation id unless IgnoreOperationID, server error with IncludeServerError, details when the want has them)" else st
              let st := if !impl && pan == "" && present
                then st.monfail "c17" "HasResult reported a fatal failure although a result equal to the wanted one (under the options given) is present" else st
              verdict st c (hasResult (res.map some) w { ignoreOpId := ig, includeServerErr := sv }) impl pan
            | _, _, _, _ => bad st
          | _ => bad st
        else if c = "chk.cache" then
          match gs with
          | [ig, sv, n, plain] :: rest =>
            match boolOf ig, boolOf sv, natOf n, natListOf plain, rest.mapM opResOf with
            | some ig, some sv, some n, some plain, some all =>
              let wants := all.take n
              let res := all.drop n
              let o : Opts := { ignoreOpId := ig, includeServerErr := sv }
              -- C17 monitor on the implementation's own verdicts: the cached checker never
              -- passes where the plain one fails
              let st := if impl && plain.any (· == 0)
                then st.monfail "c17" "HasResultsCache passed although HasResult fails for one of the wants" else st
              -- … and, where the results' keys are unique (operation ids without IgnoreOperationID,
              -- entry keys with it, every result carrying its key), it does not fail where the plain
              -- one passes for every want
              let keysUnique : Bool :=
                if !ig then (res.map (·.opId)).eraseDups.length == res.length
                else res.all (fun r => (r.details.bind dkey).isSome) &&
                     (res.filterMap (fun r => r.details.bind dkey)).eraseDups.length == res.length
              -- (with IgnoreOperationID a want has to name an entry: one without a key is a test
              -- error, reported as such)
              let wantsKeyed : Bool := !ig || wants.all (fun w => (w.details.bind dkey).isSome)
              let st := if !impl && pan == "" && keysUnique && wantsKeyed && plain.all (· == 1) && plain.length == wants.length
                then st.monfail "c17" "HasResultsCache reported a fatal failure although the results' keys are unique and HasResult passes for every want" else st
              verdict st c (hasResultsCache res wants o) impl pan
            | _, _, _, _, _ => bad st
          | _ => bad st
        else if c = "chk.get" then
          match gs with
          | [n] :: rest =>
            match natOf n, rest.mapM gentryOf with
            | some n, some all =>
              let wants := all.take n
              let resp := all.drop n
              let st := if impl && wants.any (fun w => !(resp.any (fun e => e.ni == w.ni && e.kind == w.kind && e.key == w.key)))
                then st.monfail "c17" "GetResponseHasEntries passed although a wanted entry is absent" else st
              -- and the converse (on inputs outside the documented exclusions, i.e. where the model passes)
              let st := if !impl && pan == "" && getResponseHasEntries resp wants &&
                    wants.all (fun w => resp.any (fun e => e.ni == w.ni && e.kind == w.kind && e.key == w.key))
                then st.monfail "c17" "GetResponseHasEntries reported a fatal failure although every wanted entry is present in the response" else st
              verdict st c (getResponseHasEntries resp wants) impl pan
            | _, _ => bad st
          | _ => bad st
        else if c = "chk.nsend" ∨ c = "chk.nrecv" then
          match before with
          | [e, n] =>
            match cerrOf e, natOf n with
            | some e, some n => verdict st c (if c = "chk.nsend" then hasNSendErrors e n else hasNRecvErrors e n) impl pan
            | _, _ => bad st
          | _ => bad st
        else if c = "chk.status" then
          match gs with
          | [allow, ign, enc] :: want :: recv =>
            match boolOf allow, boolOf ign, stOf want, (recv.filter (· ≠ [])).mapM stOf with
            | some allow, some ign, some (some want), some recv =>
              let e : CErr := if tokStr enc = "nil" then .nil else if tokStr enc = "other" then .other else .clientErr 0 recv
              -- C17 monitor (necessary condition, whatever the message / details options): a pass
              -- needs a received error that carries a gRPC status with the wanted code
              let codeSeen := match e with
                | .clientErr _ rs => rs.any (fun r => match r with
                    | some s => (s.code == want.code && (want.msg == "" || s.msg == want.msg)) || (allow && s.code == Chk.unimplemented)
                    | none => false)
                | _ => false
              let st := if impl && !codeSeen
                then st.monfail "c17" s!"HasRecvClientErrorWithStatus passed although no received error carries a gRPC status with code {want.code} (and the wanted message, where one is wanted)" else st
              -- and a sufficient one: a received status with the wanted code and message, and the
              -- wanted details unless IgnoreDetails was given, is the wanted status under every
              -- combination and order of the options
              let present := match e with
                | .clientErr _ rs => rs.any (fun r => match r with
                    | some s => s.code == want.code && s.msg == want.msg && (ign || s.det == want.det)
                    | none => false)
                | _ => false
              let st := if !impl && pan == "" && present
                then st.monfail "c17" "HasRecvClientErrorWithStatus reported a fatal failure although a received error carries the wanted status (code, message, and details unless ignored)" else st
              verdict st c (hasRecvStatus e want allow ign) impl pan
            | _, _, _, _ => bad st
          | _ => bad st
        else bad st
      | _, _ => bad st
    | _ => bad st

end Gribi.Drv
