/-
Driver for the client fault enumeration (C14). One `cf.obs` line per case: the case parameters,
`=>`, the clauses observed on the real client. The expectations come from the models the C14
theorems are about: every queueing call returns (`LC`, c14_q_returns), a recorded fault makes
`await` return the errors (`Cl.await`, c14_error_surfaces), `Cl.reset` is the initial accounting
state (c14_reset_fresh).
-/
import Gribi.Drv.RibDrv
import Gribi.Model.Client
import Gribi.Model.Conc
namespace Gribi.Drv
open Gribi

def kvGet (ts : List Tok) (k : String) : String :=
  match ts.find? (fun t => (tokStr t).startsWith (k ++ "=")) with
  | some t => ((tokStr t).drop (k.length + 1)).toString
  | none => ""

/-- the lifecycle model's answer: starting with `burst` requests to queue and a sender that fails
at once, run any maximal schedule (here: the first enabled transition, repeatedly); the number of
`q` calls that returned is `burst` (c14_q_returns proves this for every schedule) -/
def lcReturned (burst : Nat) : Nat :=
  let rec go (fuel : Nat) (s : Conc.LC.St) (ret : Nat) : Nat :=
    match fuel with
    | 0 => ret
    | fuel + 1 =>
      if Conc.LC.enabled s .sendFail && s.senderAlive then go fuel (Conc.LC.fire s .sendFail) ret
      else if Conc.LC.enabled s .signalExit then go fuel (Conc.LC.fire s .signalExit) ret
      else if Conc.LC.enabled s .appQ then go fuel (Conc.LC.fire s .appQ) (ret + 1)
      else ret
  go (3 * burst + 10) { appLeft := burst } 0

/-- a Modify stream that could not be opened, then two teardown calls in a row: each returns
(C14: "Close and Reset return without blocking"), nothing of the client is left running -/
def openLine (rs : RibSt) (ts : List Tok) : RibSt :=
  let rs := { rs with line := rs.line + 1, diverged := true }
  let g := kvGet ts
  let desc := s!"[the stream could not be opened (class {g "class"}), then {g "seq"}]"
  let rs := rs.covr "cf.open"
  let rs := if g "connecterr" == "1" then rs else rs.monfail "c14" s!"{desc} Connect did not return the error"
  let rs := if g "outcome" == "'ok" then rs else rs.monfail "c14" s!"{desc} a teardown call did not return: {g "outcome"}"
  if g "goroutines" == "0" then rs else rs.monfail "c14" s!"{desc} {g "goroutines"} goroutine(s) of the client left behind"

def faultLine (rs : RibSt) (ts : List Tok) : RibSt :=
  let rs := { rs with line := rs.line + 1, diverged := true }
  let g := kvGet ts
  let side := g "side"
  let cls := g "class"
  let ending := g "ending"
  let fib := g "fib" == "1"
  let burst := (g "burst").toNat?.getD 0
  let desc := s!"[{side} fault at index {g "k"}, class {cls}, then {ending}]"
  let rs := rs.covr ("cf." ++ side)
  let rs := rs.covr ("cf." ++ ending)
  let rs := rs.covr ("cf.class." ++ cls)
  if g "reached" != "1" then
    -- the fault position lies beyond the exchange: nothing failed, the run must converge
    let rs := rs.covr "cf.unreached"
    let rs := if g "q" == toString burst ∧ g "app" == "1" then rs else rs.monfail "c14" s!"{desc} without any fault, a call that queues a request did not return ({g "q"} of {burst} returned)"
    if g "await" == "nil" then rs else rs.monfail "c14" s!"{desc} without any fault, AwaitConverged did not report convergence ({g "await"})"
  else
  let faulty : Cl.State := if side == "send" then Cl.sendErr { fibMode := fib } else Cl.recvErr { fibMode := fib }
  let rs := if g "start" == "1" ∧ g "app" == "1" ∧ g "q" == toString (lcReturned burst) then rs
    else rs.monfail "c14" s!"{desc} a call that queues a request did not return: {g "q"} of {burst} burst calls returned, StartSending returned: {g "start"}, all scripted and burst calls returned within the watchdog: {g "app"}"
  let rs :=
    if cls == "eof" && side == "recv" then rs.covr "cf.eof" else
    let rs := if g "recorded" == "1" then rs else rs.monfail "c14" s!"{desc} the client did not record the error"
    match Cl.await faulty with
    | .errors _ _ =>
      if g "await" == "err" then rs.covr "cf.await.err"
      else if g "await" == "nil" then rs.monfail "c14" s!"{desc} AwaitConverged reported convergence although the stream failed"
      else rs.monfail "c14" s!"{desc} AwaitConverged did not return the error within a bounded time (outcome: {g "await"})"
    | _ => rs.diff "cf.model" "the model does not report the recorded error"
  let rs := if g "done" == "1" then rs else rs.monfail "c14" s!"{desc} Done was not signalled"
  let rs := if g "end" == "ok" then rs
    else if g "end" == "q-after-close-hang" then rs.monfail "c14" s!"{desc} a call that queues a request after Close did not return (blocked)"
    else rs.monfail "c14" s!"{desc} {ending} did not return (blocked)"
  let rs := if g "leak" == "0" then rs else rs.monfail "c14" s!"{desc} {g "leak"} sender/receiver goroutine(s) left behind"
  let rs :=
    if ending != "reset" ∨ g "end" != "ok" then rs else
    let fr := Cl.reset faulty
    let modelFresh := fr.pendOps.isEmpty && fr.results.isEmpty && fr.sendErrs == 0 && fr.recvErrs == 0 && !fr.pendElec && !fr.pendParams
    let rs := if (g "fresh" == "1") == modelFresh then rs else rs.monfail "c14" s!"{desc} after Reset the client still has stale pending operations, results or errors"
    if g "exch" == "ok" then rs else
      -- C13: on the new stream exactly the operations queued after the Reset are transmitted,
      -- answered and accounted for (nothing of the torn-down stream reappears)
      let rs := if (g "exch").startsWith "await-error" || (g "exch").startsWith "wrong-results"
        then rs.monfail "c13" s!"{desc} after Reset and Connect the two operations queued on the new stream are not exactly what is transmitted and answered ({g "exch"}): operations of the torn-down stream reappear, or queued ones lack their result"
        else rs
      rs.monfail "c14" s!"{desc} after Reset and Connect the client does not work as a fresh one: {g "exch"}"
  let rs := if g "resetrace" == "hang" then rs.monfail "c14" s!"{desc} Reset running concurrently with AwaitConverged blocked (deadlock)" else rs
  if rs.monfails == 0 then rs.covr "cf.ok" else rs

/-- compliance-suite lines (C19): a conformant server must pass every test in every position; a
server that breaks one requirement must be flagged by the tests written for that requirement -/
def complianceLine (rs : RibSt) (ts : List Tok) : RibSt :=
  let rs := { rs with line := rs.line + 1, diverged := true }
  match ts with
  | [] => rs
  | cmd :: args =>
    let c := tokStr cmd
    if c = "cp.config" then rs.covr "cp.config"
    else if c = "cp.test" then
      match beforeArrow args, afterArrow args with
      | [pos, _, name, prev], [v, msg] =>
        if tokStr v == "pass" then rs.covr "cp.pass"
        else rs.monfail "c19" s!"compliance test '{(strOf name).getD ""}' fails against the conformant server at position {tokStr pos} of the permutation (after '{(strOf prev).getD ""}'): {(strOf msg).getD ""}"
      | _, _ => rs.emit s!"PARSE-ERROR trace={rs.name} line={rs.line} cmd={c}"
    else if c = "cp.fault" then
      match beforeArrow args, afterArrow args with
      | [fault, name], [v, _] =>
        if tokStr v == "fail" then rs.covr "cp.fault.flagged"
        else rs.monfail "c19" s!"compliance test '{(strOf name).getD ""}' passes against a server that {(strOf fault).getD ""}"
      | _, _ => rs.emit s!"PARSE-ERROR trace={rs.name} line={rs.line} cmd={c}"
    else rs.emit s!"PARSE-ERROR trace={rs.name} line={rs.line} cmd={c}"

end Gribi.Drv
