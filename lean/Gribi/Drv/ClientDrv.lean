/-
Correspondence driver for the client accounting.
-/
import Gribi.Drv.RibDrv
import Gribi.Model.Client
namespace Gribi.Drv
open Gribi Gribi.Cl

def statusOfNum (n : Nat) : Cl.Status :=
  match n with
  | 2 => .failed | 3 => .rib | 4 => .fib | 5 => .fibFailed | _ => .other

def numOfStatus : Cl.Status → List Nat
  | .failed => [2] | .rib => [3] | .fib => [4] | .fibFailed => [5] | .other => [0, 1]

/-- `id ty kind 'key` -/
def clOpOf (g : List Tok) : Option (Nat × OpInfo) :=
  match g with
  | [id, ty, kind, key] => do
    let id ← natOf id
    let ty ← natOf ty
    let kind ← natOf kind
    let key ← strOf key
    some (id, { ty := ty, kind := kind, key := key })
  | _ => none

def splitSemi (ts : List Tok) : List (List Tok) :=
  let rec go (ts : List Tok) (cur : List Tok) (acc : List (List Tok)) : List (List Tok) :=
    match ts with
    | [] => (cur.reverse :: acc).reverse
    | t :: rest => if t = [';'] then go rest [] (cur.reverse :: acc) else go rest (t :: cur) acc
  go ts [] []

def idStatusOf (t : Tok) : Option (Nat × Cl.Status) :=
  match splitOnChar ':' t with
  | [a, b] => do
    let a ← natOf a
    let b ← natOf b
    some (a, statusOfNum b)
  | _ => none

/-- observed result: `nil` or `opId status det flags` -/
structure ObsRes where
  isNil : Bool := false
  opId : Nat := 0
  status : Nat := 0
  details : Option OpInfo := none
  flags : String := "-"
  deriving Repr, Inhabited

def obsResOf (g : List Tok) : Option ObsRes :=
  match g with
  | [n] => if tokStr n = "nil" then some { isNil := true } else none
  | [id, st, det, fl] => do
    let id ← natOf id
    let st ← natOf st
    let det ← (if det = ['-'] then some none else match splitOnChar ',' det with
      | [a, b, c] => (do let a ← natOf a; let b ← natOf b; let c ← strOf c; some (some ({ ty := a, kind := b, key := c } : OpInfo)))
      | _ => none)
    some { opId := id, status := st, details := det, flags := tokStr fl }
  | _ => none

/-- does an observed result match a model result? (operation type numbers: the model carries the
wire number of the AFT operation, the client reports its own `constants.OpType`; only equality
of kind and key, and presence of details, are compared, plus the status) -/
def resMatches (m : Option Res) (o : ObsRes) : Bool :=
  match m with
  | none => o.isNil
  | some r =>
    !o.isNil &&
    (if r.isElec then o.flags.contains 'e' else !(o.flags.contains 'e')) &&
    (if r.isParams then o.flags.contains 'p' else !(o.flags.contains 'p')) &&
    (r.clientErr == o.flags.contains 'c') &&
    (match r.status with
     | some st => (numOfStatus st).contains o.status && r.opId == o.opId
     | none => true) &&
    (match r.details, o.details with
     | some a, some b => a.kind == b.kind && a.key == b.key
     | none, none => true
     | _, _ => false)

def clientLine (rs : RibSt) (cl : Cl.State) (ts : List Tok) : RibSt × Cl.State :=
  let rs := { rs with line := rs.line + 1 }
  match ts with
  | [] => (rs, cl)
  | cmd :: args =>
    let c := tokStr cmd
    let bad (rs : RibSt) := rs.emit s!"PARSE-ERROR trace={rs.name} line={rs.line} cmd={c}"
    if c = "cl.new" then
      match args with
      | [f] => (rs, { fibMode := tokStr f == "1" })
      | _ => (bad rs, cl)
    else if c = "cl.connect" then
      -- Connect after requests were queued: opening the stream changes nothing the client has
      -- recorded (queue, pending operations, results, errors); the observation that follows is
      -- compared with the unchanged model state
      (rs.covr "cl.connect", cl)
    else if c = "cl.start" then
      -- StartSending queues the session parameters and the election id itself
      (rs.covr "cl.start", Cl.q (Cl.q (Cl.startSending cl) { params := true }) { elec := true })
    else if c = "cl.q" then
      match splitSemi args with
      | _ :: rest =>
        match rest.reverse with
        | [el, pa] :: opsRev =>
          match opsRev.reverse.mapM clOpOf, boolOf el, boolOf pa with
          | some ops, some el, some pa =>
            -- a request that reuses the id of an operation that is pending (by the model's record,
            -- while it still describes the run), or names one id twice: the client cannot track
            -- both — it has to record an error, or the second operation is lost without a word
            let ids := ops.map (·.1)
            let reused := if rs.diverged then none
              else (ids.find? (fun i => (cl.pendOps.map (·.1)).contains i)).orElse
                     (fun _ => ids.find? (fun i => (ids.filter (· == i)).length > 1))
            let rs := match reused with
              | some i => { rs with dupHandedOver := some i }
              | none => rs
            (rs.covr "cl.q", Cl.q cl { ops := ops, elec := el, params := pa })
          | _, _, _ => (bad rs, cl)
        | _ => (bad rs, cl)
      | _ => (bad rs, cl)
    else if c = "cl.recv" then
      match args with
      | [has, el, pa, l] =>
        match boolOf has, boolOf el, boolOf pa, (do let x ← listOf l; x.mapM idStatusOf) with
        | some has, some el, some pa, some results =>
          let m : Resp := { results := results, hasResults := has, elec := el, params := pa }
          (rs.covr "cl.recv", (Cl.recv cl m).1)
        | _, _, _, _ => (bad rs, cl)
      | _ => (bad rs, cl)
    else if c = "obs.cl" then
      match groups args with
      | [ids, pe, pp, se, re, n] :: resG =>
        match natListOf ids, boolOf pe, boolOf pp, natOf se, natOf re, natOf n, resG.mapM obsResOf with
        | some ids, some pe, some pp, some se, some re, some _, some obsRes =>
          -- C13 monitor on the implementation's own observations: every detailed terminal result
          -- belongs to an id that is no longer pending, and no id completes twice in a row of results
          let terminalObs (o : ObsRes) : Bool := !o.isNil && o.details.isSome && terminal cl.fibMode (statusOfNum o.status)
          let rs := match obsRes.find? (fun o => terminalObs o && ids.contains o.opId &&
              -- (an id may legitimately be re-queued after completing; the harness never does that)
              true) with
            | some o => rs.monfail "c13" s!"operation {o.opId} has a terminal result but is still pending"
            | none => rs
          -- C13 monitors (statement evaluated on the client's own results, against the log of what
          -- the application queued): a result belongs to an operation that was queued, and no
          -- operation completes twice
          let queued := cl.accepted.map (·.1)
          let rs := match obsRes.find? (fun o => !o.isNil && o.opId != 0 && !queued.contains o.opId &&
              -- the one tolerated case (c13_violations_surface): a late RIB acknowledgement in FIB-ack mode
              !(cl.fibMode && o.status == 3)) with
            | some o => rs.monfail "c13" s!"a result (status {o.status}) was recorded for operation {o.opId}, which was never queued, instead of an error"
            | none => rs
          let rs := match obsRes.find? (fun o => terminalObs o && (obsRes.filter (fun o' => terminalObs o' && o'.opId == o.opId)).length > 1) with
            | some o => rs.monfail "c13" s!"operation {o.opId} completed twice"
            | none => rs
          let rs := match obsRes.find? (fun o => !o.isNil && o.opId != 0 && o.details.isNone && terminal cl.fibMode (statusOfNum o.status)) with
            | some o => rs.monfail "c13" s!"the terminal result of operation {o.opId} does not carry the operation's type and key"
            | none => rs
          -- C13 monitor (conservation, on the client's own observations against the log of what the
          -- application handed over and the client registered): an operation that has left the send
          -- queue is pending or has a terminal result — it is never lost
          let rs := match cl.accepted.find? (fun a => !ids.contains a.1 && !cl.ackedByApp.contains a.1 &&
              !obsRes.any (fun o => !o.isNil && o.opId == a.1 && terminal cl.fibMode (statusOfNum o.status))) with
            | some a => rs.monfail "c13" s!"operation {a.1} was handed to the client and registered, but is neither pending nor represented by a terminal result: it is lost"
            | none => rs
          -- C13 monitor (errors are never lost): what the client has recorded as a send or receive
          -- error stays recorded — nothing in these runs resets the client
          let rs := if se < rs.lastErrs.1 || re < rs.lastErrs.2
            then rs.monfail "c13" s!"the client reported {rs.lastErrs.1} send and {rs.lastErrs.2} receive errors before, now {se} and {re}: a recorded error is gone"
            else rs
          let rs := match rs.dupHandedOver with
            | some i => if se > rs.lastErrs.1 then rs
                else rs.monfail "c13" s!"a request reusing the id {i} of a pending operation was handed over and the client recorded no error: the operation is neither tracked nor reported — it is lost"
            | none => rs
          let rs := { rs with lastErrs := (se, re), dupHandedOver := none }
          if rs.diverged then (rs, cl) else
          let mIds := cl.pendOps.map (·.1)
          let rs := if permEq mIds ids then rs else rs.diff "cl.pend" s!"model={mIds} impl={ids}"
          let rs := if cl.pendElec = pe ∧ cl.pendParams = pp then rs
            else rs.diff "cl.pendflags" s!"model=({cl.pendElec},{cl.pendParams}) impl=({pe},{pp})"
          let rs := if cl.sendErrs = se ∧ cl.recvErrs = re then rs
            else rs.diff "cl.errs" s!"model=({cl.sendErrs},{cl.recvErrs}) impl=({se},{re})"
          let rs := if cl.results.length = obsRes.length ∧ (cl.results.zip obsRes).all (fun p => resMatches p.1 p.2) then rs
            else rs.diff "cl.results" s!"model has {cl.results.length} results, impl {obsRes.length} (or one differs)"
          (rs, cl)
        | _, _, _, _, _, _, _ => (bad rs, cl)
      | _ => (bad rs, cl)
    else if c = "cl.ack" then
      -- the application acknowledges results (AckResult): they leave the queue
      match beforeArrow args, afterArrow args with
      | [l], [e] =>
        match natListOf l with
        | some ackIds =>
          let rs := if tokStr e == "0" then rs else rs.monfail "c13" s!"AckResult of results that are in the queue ({ackIds}) reported an error"
          (rs.covr "cl.ack", Cl.ack cl ackIds)
        | none => (bad rs, cl)
      | _, _ => (bad rs, cl)
    else if c = "cl.snap" then
      -- a snapshot of the results the application took earlier is still what it was
      match args with
      | [ok] =>
        if tokStr ok == "1" then (rs.covr "cl.snap", cl)
        else (rs.monfail "c13" "a Results() snapshot held by the application changed after AckResult / later results (results lost from it, or results of other operations written into it)", cl)
      | _ => (bad rs, cl)
    else if c = "cl.after" then
      -- C13 monitor on the client's own state right after AwaitConverged returned
      match args with
      | [o, np, ne] =>
        let rs := rs.covr "cl.after"
        if tokStr o == "converged" ∧ (natOf np != some 0 ∨ natOf ne != some 0) then
          (rs.monfail "c13" s!"AwaitConverged returned success although {tokStr np} operation(s) were pending and {tokStr ne} error(s) were recorded", cl)
        else (rs, cl)
      | _ => (bad rs, cl)
    else if c = "cl.await" then
      match afterArrow args with
      | k :: rest =>
        let impl := tokStr k
        let rs := rs.covr ("cl.await." ++ impl)
        let model := match Cl.await cl with
          | .converged => "converged"
          | .errors _ _ => "errors"
          | .notYet => "timeout"
        let rs := if model = impl then rs else rs.diff "cl.await" s!"model={model} impl={impl}"
        let rs := match Cl.await cl, rest with
          | .errors a b, [x, y] => if natOf x = some a ∧ natOf y = some b then rs else rs.diff "cl.await.counts" s!"model=({a},{b})"
          | _, _ => rs
        -- C13 monitor: success only when no error was recorded — judged on the client's own last
        -- report of its errors
        let rs := if impl == "converged" && (rs.lastErrs.1 > 0 || rs.lastErrs.2 > 0)
          then rs.monfail "c13" s!"AwaitConverged returned success although the client reports {rs.lastErrs.1} send and {rs.lastErrs.2} receive errors"
          else rs
        (rs, cl)
      | _ => (bad rs, cl)
    else (bad rs, cl)

end Gribi.Drv
