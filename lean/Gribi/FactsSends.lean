/- regenerated-facts obligation; see FactsDefs.lean -/
import Gribi.FactsDefs
namespace Gribi.FactsOk
open Gribi.Facts

theorem facts_sendsHaveStop : sendsHaveStop = true := by decide
/-- the sends the C10 / C14 theorems are about are actually found -/
def sendsNonTrivial : Bool :=
  sends.any (fun s => s.fn == "RIBHolder.GetRIB.func" && s.chan == "msgCh") &&
  sends.any (fun s => s.fn == "Client.q")
theorem facts_sends_nonTrivial : sendsNonTrivial = true := by decide

end Gribi.FactsOk
